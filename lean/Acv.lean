-- Root of the `Acv` library: models, lemmas and the property theorems (one file per property).
import Acv.Props.C01
import Acv.Props.C02
import Acv.Props.C04
import Acv.Props.C09
import Acv.Props.C11
import Acv.Props.C12
import Acv.Props.C13
import Acv.Props.C14
import Acv.Props.C16
import Acv.Props.C17
import Acv.Driver.Ops
