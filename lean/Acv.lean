import Acv.Model.Graph
import Acv.Model.Path
