import Acv.Props.C16
/-! Sanity evaluation of the PEG model (not part of the library; run with `lake env lean test/PegSanity.lean`) -/
open Acv Acv.Gen Acv.C16

def tst (g : Grammar) (s : String) : String :=
  match parseFull g s.toList with
  | some (p, r) => String.ofList (dumpPath p) ++ (if r.isEmpty then "" else "   REST=" ++ String.ofList r)
  | none => "none"

#eval tst pathGrammarGo "ex.a / (ex.b | ex.c^) / @type"   -- seq(ex.a,alt(ex.b,ex.c^),@type)
#eval tst pathGrammarGo " ex.a "                           -- ex.a
#eval tst pathGrammarGo "ex.a ^"                           -- ex.a^
#eval tst pathGrammarGo "ex.a|ex.b/ex.c"                   -- alt(ex.a,ex.b/ex.c)
#eval tst pathGrammarGo "ex.a / / ex.b"                    -- none
#eval tst pathGrammarGo "ex.a ) junk"                      -- none
#eval tst pathGrammarGo "ex.a ex.b"                        -- none
#eval tst pathGrammarGo "(ex.a"                            -- none
#eval tst pathGrammarGo "ex.a,"                            -- none
#eval tst oldGrammar "ex.a ) junk"                         -- ex.a   REST=) junk
#eval String.ofList (render sampleTree)                    -- ex.a / ex.b | ex.c^ / @type
#eval wfAst sampleTree                                     -- true
