import Acv.Model.Ld
/-! `#eval` sanity checks of `Acv.Ld.norm` against what `Index (Normalize doc)` printed for the
same documents (run: `lake env lean test/LdSanity.lean`). -/
open Acv Acv.Ld

def o (kvs : List (String × Js)) : Js := .obj kvs
def s (x : String) : Js := .str x
def idr (x : String) : Js := .obj [("@id", .str x)]
def v (x : Js) : Js := .obj [("@value", x)]

-- 1. duplicates, `@value` wrappers, repeated references; no entry for the referenced node
def d1 : Js := .arr [o [("@id", s "http://n/1"), ("@type", .arr [s "http://c/T", s "http://c/T"]),
  ("http://p/a", .arr [v (s "x"), s "x", v (s "x"), s "y", .num 1, v (.num 1), .bool true,
                       idr "http://n/2", idr "http://n/2"])]]
#eval norm d1
example : norm d1 = some ⟨[⟨"http://n/1", ["http://c/T"],
    [("http://p/a", [.str "x", .str "y", .num 1, .bool true, .ref "http://n/2"])]⟩]⟩ := by decide

-- 2. embedded node, single top-level object, bare `@type`, bare single value
def d2 : Js := o [("@id", s "http://n/1"), ("@type", s "http://c/T"),
  ("http://p/a", o [("@id", s "http://n/2"), ("@type", s "http://c/U"), ("http://p/b", s "v")])]
#eval norm d2
example : norm d2 = some ⟨[⟨"http://n/1", ["http://c/T"], [("http://p/a", [.ref "http://n/2"])]⟩,
    ⟨"http://n/2", ["http://c/U"], [("http://p/b", [.str "v"])]⟩]⟩ := by decide

-- 3. `@graph`, the same node twice (merged), self reference
def d3 : Js := o [("@graph", .arr [o [("@id", s "http://n/1"), ("http://p/a", s "v")],
  o [("@id", s "http://n/1"), ("http://p/a", s "w"), ("http://p/b", idr "http://n/1")]])]
#eval norm d3
example : norm d3 = some ⟨[⟨"http://n/1", [],
    [("http://p/a", [.str "v", .str "w"]), ("http://p/b", [.ref "http://n/1"])]⟩]⟩ := by decide

-- 4. a key with an empty array: the entry exists
def d4 : Js := o [("@id", s "http://n/1"), ("http://p/a", .arr [])]
#eval norm d4
example : norm d4 = some ⟨[⟨"http://n/1", [], [("http://p/a", [])]⟩]⟩ := by decide

-- 5. null is dropped: no entry at all
def d5 : Js := o [("@id", s "http://n/1"), ("http://p/a", .null)]
#eval norm d5
example : norm d5 = some ⟨[]⟩ := by decide

-- 6. blank node: outside the fragment
def d6 : Js := o [("@id", s "http://n/1"), ("http://p/a", o [("http://p/b", s "blank")])]
#eval norm d6
example : norm d6 = none := by decide

-- 7. nested arrays in value position are flattened
def d7 : Js := .arr [o [("@id", s "http://n/1"), ("http://p/a", .arr [s "x", .arr [s "y", .arr [s "x", s "z"]]])]]
#eval norm d7
example : norm d7 = some ⟨[⟨"http://n/1", [], [("http://p/a", [.str "x", .str "y", .str "z"])]⟩]⟩ := by decide

-- 8. other keywords are outside the fragment
example : norm (o [("@context", o []), ("@id", s "http://n/1")]) = none := by decide
example : norm (o [("@id", s "http://n/1"), ("http://p/a", o [("@list", .arr [])])]) = none := by decide
example : norm (o [("@id", s "http://n/1"), ("http://p/a", o [("@value", s "x"), ("@language", s "en")])]) = none := by decide
example : norm (o [("@id", s "http://n/1"), ("@type", .num 1)]) = none := by decide
example : norm (o [("@id", .num 1)]) = none := by decide
example : norm (o [("@id", s "http://n/1"), ("name", s "dropped by json-gold")]) = none := by decide

-- 9. the `@types` index
#eval (norm d2).map Index.types
example : (norm d2).map Index.types =
    some [("http://c/T", ["http://n/1"]), ("http://c/U", ["http://n/2"])] := by decide

-- 10. a node split between an embedding two levels deep and a flat occurrence
def d10 : Js := .arr [
  o [("@id", s "http://n/1"), ("http://p/a", o [("@id", s "http://n/2"),
      ("http://p/b", .arr [o [("@id", s "http://n/3"), ("@type", s "http://c/U")]])])],
  o [("@id", s "http://n/3"), ("http://p/c", .arr [.num 7, idr "http://n/1"])]]
#eval norm d10
example : norm d10 = some ⟨[⟨"http://n/1", [], [("http://p/a", [.ref "http://n/2"])]⟩,
    ⟨"http://n/2", [], [("http://p/b", [.ref "http://n/3"])]⟩,
    ⟨"http://n/3", ["http://c/U"], [("http://p/c", [.num 7, .ref "http://n/1"])]⟩]⟩ := by decide
