import Acv.Driver.Ops
open Acv.Driver

partial def loop (hin : IO.FS.Stream) (hout : IO.FS.Stream) : IO Unit := do
  let line ← hin.getLine
  if line.isEmpty then return ()
  let t := line.trimAscii.toString
  if !t.isEmpty then
    hout.putStrLn (handleLine t)
    hout.flush
  loop hin hout

def main : IO Unit := do
  loop (← IO.getStdin) (← IO.getStdout)
