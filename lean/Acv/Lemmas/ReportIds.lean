import Acv.Model.ReportIds
import Acv.Lemmas.Lexical
/-! Helper lemmas for C12 (ids assigned by `defineIdRecursively`). -/
namespace Acv

/-! ### lists -/

theorem prefix_snoc_inj {segs id : List String} {x y : String}
    (hx : segs ++ [x] <+: id) (hy : segs ++ [y] <+: id) : x = y := by
  obtain ⟨t, rfl⟩ := hx
  obtain ⟨t', h⟩ := hy
  simp only [List.append_assoc] at h
  have h2 := List.append_cancel_left h
  simp at h2
  exact h2.1.symm

theorem not_snoc_prefix_self (segs : List String) (x : String) : ¬ (segs ++ [x] <+: segs) := by
  intro h
  have := h.length_le
  simp at this
  omega

theorem prefix_pair_inj {a b x y : String} {id : List String}
    (h1 : [a, x] <+: id) (h2 : [b, y] <+: id) : a = b ∧ x = y := by
  obtain ⟨t, rfl⟩ := h1
  obtain ⟨t', h⟩ := h2
  simp at h
  exact ⟨h.1.symm, h.2.1.symm⟩

theorem contains_false_iff (l : List Char) (c : Char) : l.contains c = false ↔ c ∉ l := by
  simp

theorem nodup_map_of_inj_on {α β : Type} (f : α → β) : ∀ (l : List α),
    (∀ x ∈ l, ∀ y ∈ l, f x = f y → x = y) → l.Nodup → (l.map f).Nodup
  | [], _, _ => by simp
  | a :: l, h, hn => by
    rw [List.nodup_cons] at hn
    rw [List.map_cons, List.nodup_cons]
    refine ⟨?_, nodup_map_of_inj_on f l (fun x hx y hy => h x (by simp [hx]) y (by simp [hy])) hn.2⟩
    intro hmem
    obtain ⟨y, hy, hfy⟩ := List.mem_map.1 hmem
    have : a = y := h a (by simp) y (by simp [hy]) hfy.symm
    exact hn.1 (this ▸ hy)

theorem distinct_iff_nodup : ∀ ks : List String, distinct ks = true ↔ ks.Nodup
  | [] => by simp [distinct]
  | k :: ks => by
    simp [distinct, distinct_iff_nodup ks]

/-! ### segments -/

theorem isDigit_underscore : isDigit '_' = false := by decide

theorem showIdx_toList (n : Nat) : (showIdx n).toList = showNat n := by
  simp [showIdx]

theorem showIdx_inj {a b : Nat} (h : showIdx a = showIdx b) : a = b :=
  showNat_inj (String.ofList_inj.1 h)

theorem showIdx_allDigits (n : Nat) : (showIdx n).toList.all isDigit = true := by
  rw [showIdx_toList, List.all_eq_true]
  exact showNat_all_digits n

theorem keyOk_not_allDigits {k : String} (h : keyOk k = true) : (k.toList.all isDigit) = false := by
  simp only [keyOk, Bool.and_eq_true, Bool.not_eq_true'] at h
  exact h.2

theorem goodSeg_of_keyOk {k : String} (h : keyOk k = true) : goodSeg k = true := by
  simp only [keyOk, Bool.and_eq_true] at h
  simp only [goodSeg, Bool.and_eq_true]
  exact h.1

theorem goodSeg_showIdx (n : Nat) : goodSeg (showIdx n) = true := by
  simp only [goodSeg, showIdx_toList, Bool.and_eq_true, Bool.not_eq_true', List.isEmpty_eq_false_iff,
    contains_false_iff]
  refine ⟨showNat_ne_nil n, ?_⟩
  intro hmem
  have := showNat_all_digits n '_' hmem
  rw [isDigit_underscore] at this
  exact Bool.noConfusion this

/-! ### arrays without typed objects assign nothing -/

theorem assignElems_nil_of_not_hasTyped : ∀ (es : List J) (i : Nat) (segs : List String),
    hasTyped es = false → assignElems es i segs = []
  | [], _, _, _ => by simp [assignElems]
  | .obj true _ :: _, _, _, h => by simp [hasTyped] at h
  | .obj false _ :: es, i, segs, h => by
    simp only [hasTyped, Bool.false_or] at h
    simp [assignElems, assignIds, assignElems_nil_of_not_hasTyped es (i + 1) segs h]
  | .arr _ :: es, i, segs, h => by
    simp only [hasTyped] at h
    simp [assignElems, assignIds, assignElems_nil_of_not_hasTyped es (i + 1) segs h]
  | .leaf :: es, i, segs, h => by
    simp only [hasTyped] at h
    simp [assignElems, assignIds, assignElems_nil_of_not_hasTyped es (i + 1) segs h]

theorem hasTyped_of_mem_assignElems {es : List J} {i : Nat} {segs id : List String}
    (h : id ∈ assignElems es i segs) : hasTyped es = true := by
  cases hh : hasTyped es with
  | true => rfl
  | false => rw [assignElems_nil_of_not_hasTyped es i segs hh] at h; simp at h

/-! ### every id in a subtree extends the node's id -/

theorem extend_all :
    (∀ (j : J) (segs : List String), ∀ id ∈ assignIds j segs, segs <+: id) ∧
    (∀ (fs : List (String × J)) (segs : List String), ∀ id ∈ assignFields fs segs,
      ∃ x, segs ++ [x] <+: id ∧
        (x ∈ keys fs ∨ (x.toList.all isDigit = true ∧ typedArrs fs ≠ 0))) ∧
    (∀ (es : List J) (i : Nat) (segs : List String), ∀ id ∈ assignElems es i segs,
      ∃ n, i ≤ n ∧ segs ++ [showIdx n] <+: id) := by
  apply assignIds.mutual_induct
  · intro fs segs ih id hid
    simp only [assignIds, List.mem_cons] at hid
    rcases hid with rfl | hid
    · exact List.prefix_rfl
    · obtain ⟨x, hx, _⟩ := ih id hid
      exact (List.prefix_append segs [x]).trans hx
  · intro fs segs id hid; simp [assignIds] at hid
  · intro es segs id hid; simp [assignIds] at hid
  · intro segs id hid; simp [assignIds] at hid
  · intro segs id hid; simp [assignFields] at hid
  · intro k t fs rest segs ih1 ih2 id hid
    simp only [assignFields, List.mem_append] at hid
    rcases hid with hid | hid
    · exact ⟨k, ih1 id hid, Or.inl (by simp [keys])⟩
    · obtain ⟨x, hx, hx2⟩ := ih2 id hid
      refine ⟨x, hx, ?_⟩
      rcases hx2 with hx2 | hx2
      · exact Or.inl (by simp only [keys, List.map_cons, List.mem_cons]; exact Or.inr hx2)
      · exact Or.inr (by simpa [typedArrs] using hx2)
  · intro k es rest segs ih3 ih2 id hid
    simp only [assignFields, List.mem_append] at hid
    rcases hid with hid | hid
    · obtain ⟨n, _, hn⟩ := ih3 id hid
      refine ⟨showIdx n, hn, Or.inr ⟨showIdx_allDigits n, ?_⟩⟩
      simp [typedArrs, hasTyped_of_mem_assignElems hid]
    · obtain ⟨x, hx, hx2⟩ := ih2 id hid
      refine ⟨x, hx, ?_⟩
      rcases hx2 with hx2 | hx2
      · exact Or.inl (by simp only [keys, List.map_cons, List.mem_cons]; exact Or.inr hx2)
      · refine Or.inr ⟨hx2.1, ?_⟩
        simp only [typedArrs]
        have := hx2.2
        omega
  · intro k rest segs ih2 id hid
    simp only [assignFields] at hid
    obtain ⟨x, hx, hx2⟩ := ih2 id hid
    refine ⟨x, hx, ?_⟩
    rcases hx2 with hx2 | hx2
    · exact Or.inl (by simp only [keys, List.map_cons, List.mem_cons]; exact Or.inr hx2)
    · exact Or.inr (by simpa [typedArrs] using hx2)
  · intro i segs id hid; simp [assignElems] at hid
  · intro e es i segs ih1 ih3 id hid
    simp only [assignElems, List.mem_append] at hid
    rcases hid with hid | hid
    · exact ⟨i, Nat.le_refl i, ih1 id hid⟩
    · obtain ⟨n, hn, hp⟩ := ih3 id hid
      exact ⟨n, by omega, hp⟩

/-! ### distinctness -/

theorem nodup_all :
    (∀ (j : J) (segs : List String), WF j = true → (assignIds j segs).Nodup) ∧
    (∀ (fs : List (String × J)) (segs : List String),
      (∀ k ∈ keys fs, keyOk k = true) → (keys fs).Nodup → typedArrs fs ≤ 1 → WFFields fs = true →
      (assignFields fs segs).Nodup) ∧
    (∀ (es : List J) (i : Nat) (segs : List String), WFElems es = true →
      (assignElems es i segs).Nodup) := by
  apply assignIds.mutual_induct
  · intro fs segs ih h
    simp only [WF, Bool.and_eq_true, List.all_eq_true, decide_eq_true_eq] at h
    obtain ⟨⟨⟨hk, hd⟩, ht⟩, hw⟩ := h
    simp only [assignIds, List.nodup_cons]
    refine ⟨?_, ih hk ((distinct_iff_nodup _).1 hd) ht hw⟩
    intro hmem
    obtain ⟨x, hx, _⟩ := extend_all.2.1 fs segs segs hmem
    exact not_snoc_prefix_self segs x hx
  · intro fs segs _; simp [assignIds]
  · intro es segs _; simp [assignIds]
  · intro segs _; simp [assignIds]
  · intro segs _ _ _ _; simp [assignFields]
  · intro k t fs rest segs ih1 ih2 hk hd ht hw
    simp only [keys, List.map_cons, List.mem_cons, List.nodup_cons] at hk hd
    simp only [typedArrs] at ht
    simp only [WFFields, Bool.and_eq_true] at hw
    simp only [assignFields]
    rw [List.nodup_append]
    refine ⟨ih1 hw.1, ih2 (fun k' hk' => hk k' (Or.inr hk')) hd.2 ht hw.2, ?_⟩
    intro a ha b hb hab
    subst hab
    have hpa := extend_all.1 _ _ a ha
    obtain ⟨x, hx, hx2⟩ := extend_all.2.1 rest segs a hb
    have hkx : k = x := prefix_snoc_inj hpa hx
    subst hkx
    rcases hx2 with hx2 | hx2
    · exact hd.1 hx2
    · have := keyOk_not_allDigits (hk k (Or.inl rfl))
      rw [hx2.1] at this
      exact Bool.noConfusion this
  · intro k es rest segs ih3 ih2 hk hd ht hw
    simp only [keys, List.map_cons, List.mem_cons, List.nodup_cons] at hk hd
    simp only [typedArrs] at ht
    simp only [WFFields, Bool.and_eq_true] at hw
    simp only [assignFields]
    rw [List.nodup_append]
    refine ⟨ih3 hw.1, ih2 (fun k' hk' => hk k' (Or.inr hk')) hd.2 (by omega) hw.2, ?_⟩
    intro a ha b hb hab
    subst hab
    have hty := hasTyped_of_mem_assignElems ha
    rw [hty] at ht
    simp only [if_true] at ht
    obtain ⟨n, _, hn⟩ := extend_all.2.2 es 0 segs a ha
    obtain ⟨x, hx, hx2⟩ := extend_all.2.1 rest segs a hb
    have hnx : showIdx n = x := prefix_snoc_inj hn hx
    subst hnx
    rcases hx2 with hx2 | hx2
    · have := keyOk_not_allDigits (hk _ (Or.inr hx2))
      rw [showIdx_allDigits n] at this
      exact Bool.noConfusion this
    · exact hx2.2 (by omega)
  · intro k rest segs ih2 hk hd ht hw
    simp only [keys, List.map_cons, List.mem_cons, List.nodup_cons] at hk hd
    simp only [typedArrs] at ht
    simp only [WFFields] at hw
    simp only [assignFields]
    exact ih2 (fun k' hk' => hk k' (Or.inr hk')) hd.2 ht hw
  · intro i segs _; simp [assignElems]
  · intro e es i segs ih1 ih3 hw
    simp only [WFElems, Bool.and_eq_true] at hw
    simp only [assignElems]
    rw [List.nodup_append]
    refine ⟨ih1 hw.1, ih3 hw.2, ?_⟩
    intro a ha b hb hab
    subst hab
    have hpa := extend_all.1 _ _ a ha
    obtain ⟨n, hn, hp⟩ := extend_all.2.2 es (i + 1) segs a hb
    have := showIdx_inj (prefix_snoc_inj hpa hp)
    omega

/-! ### all segments are non-empty and free of `_` -/

theorem good_all :
    (∀ (j : J) (segs : List String), WF j = true → (∀ s ∈ segs, goodSeg s = true) →
      ∀ id ∈ assignIds j segs, ∀ s ∈ id, goodSeg s = true) ∧
    (∀ (fs : List (String × J)) (segs : List String),
      (∀ k ∈ keys fs, keyOk k = true) → WFFields fs = true → (∀ s ∈ segs, goodSeg s = true) →
      ∀ id ∈ assignFields fs segs, ∀ s ∈ id, goodSeg s = true) ∧
    (∀ (es : List J) (i : Nat) (segs : List String), WFElems es = true →
      (∀ s ∈ segs, goodSeg s = true) →
      ∀ id ∈ assignElems es i segs, ∀ s ∈ id, goodSeg s = true) := by
  apply assignIds.mutual_induct
  · intro fs segs ih h hs id hid
    simp only [WF, Bool.and_eq_true, List.all_eq_true, decide_eq_true_eq] at h
    obtain ⟨⟨⟨hk, _⟩, _⟩, hw⟩ := h
    simp only [assignIds, List.mem_cons] at hid
    rcases hid with rfl | hid
    · exact hs
    · exact ih hk hw hs id hid
  · intro fs segs _ _ id hid; simp [assignIds] at hid
  · intro es segs _ _ id hid; simp [assignIds] at hid
  · intro segs _ _ id hid; simp [assignIds] at hid
  · intro segs _ _ _ id hid; simp [assignFields] at hid
  · intro k t fs rest segs ih1 ih2 hk hw hs id hid
    simp only [keys, List.map_cons, List.mem_cons] at hk
    simp only [WFFields, Bool.and_eq_true] at hw
    simp only [assignFields, List.mem_append] at hid
    rcases hid with hid | hid
    · refine ih1 hw.1 ?_ id hid
      intro s hs'
      rcases List.mem_append.1 hs' with h | h
      · exact hs s h
      · simp only [List.mem_singleton] at h
        subst h
        exact goodSeg_of_keyOk (hk _ (Or.inl rfl))
    · exact ih2 (fun k' hk' => hk k' (Or.inr hk')) hw.2 hs id hid
  · intro k es rest segs ih3 ih2 hk hw hs id hid
    simp only [keys, List.map_cons, List.mem_cons] at hk
    simp only [WFFields, Bool.and_eq_true] at hw
    simp only [assignFields, List.mem_append] at hid
    rcases hid with hid | hid
    · exact ih3 hw.1 hs id hid
    · exact ih2 (fun k' hk' => hk k' (Or.inr hk')) hw.2 hs id hid
  · intro k rest segs ih2 hk hw hs id hid
    simp only [keys, List.map_cons, List.mem_cons] at hk
    simp only [WFFields] at hw
    simp only [assignFields] at hid
    exact ih2 (fun k' hk' => hk k' (Or.inr hk')) hw hs id hid
  · intro i segs _ _ id hid; simp [assignElems] at hid
  · intro e es i segs ih1 ih3 hw hs id hid
    simp only [WFElems, Bool.and_eq_true] at hw
    simp only [assignElems, List.mem_append] at hid
    rcases hid with hid | hid
    · refine ih1 hw.1 ?_ id hid
      intro s hs'
      rcases List.mem_append.1 hs' with h | h
      · exact hs s h
      · simp only [List.mem_singleton] at h
        subst h
        exact goodSeg_showIdx i
    · exact ih3 hw.2 hs id hid

/-! ### joining with `_` is injective on good segments -/

/-- A character-list segment that is non-empty and has no `_`. -/
def GoodChars (s : List Char) : Prop := s ≠ [] ∧ '_' ∉ s

theorem sep_split_inj : ∀ (s s' r r' : List Char), '_' ∉ s → '_' ∉ s' →
    s ++ '_' :: r = s' ++ '_' :: r' → s = s' ∧ r = r'
  | [], [], _, _, _, _, h => by simpa using h
  | [], c :: s', _, _, _, h', h => by
    simp at h; simp at h'; exact absurd h.1 h'.1
  | c :: s, [], _, _, h', _, h => by
    simp at h; simp at h'; exact absurd h.1.symm h'.1
  | c :: s, c' :: s', r, r', hs, hs', h => by
    simp only [List.cons_append, List.cons.injEq] at h
    simp only [List.mem_cons, not_or] at hs hs'
    obtain ⟨h1, h2⟩ := sep_split_inj s s' r r' hs.2 hs'.2 h.2
    exact ⟨by rw [h.1, h1], h2⟩

theorem joinChars_inj : ∀ (a b : List (List Char)), (∀ s ∈ a, GoodChars s) → (∀ s ∈ b, GoodChars s) →
    joinChars a = joinChars b → a = b
  | [], [], _, _, _ => rfl
  | [], [s], _, hb, h => by
    simp only [joinChars] at h
    exact absurd h.symm (hb s (by simp)).1
  | [], s :: t :: r, _, _, h => by simp [joinChars] at h
  | [s], [], ha, _, h => by
    simp only [joinChars] at h
    exact absurd h (ha s (by simp)).1
  | [s], [s'], _, _, h => by simp only [joinChars] at h; rw [h]
  | [s], s' :: t' :: r', ha, _, h => by
    simp only [joinChars] at h
    have := (ha s (by simp)).2
    rw [h] at this
    simp at this
  | s :: t :: r, [], _, _, h => by simp [joinChars] at h
  | s :: t :: r, [s'], _, hb, h => by
    simp only [joinChars] at h
    have := (hb s' (by simp)).2
    rw [← h] at this
    simp at this
  | s :: t :: r, s' :: t' :: r', ha, hb, h => by
    simp only [joinChars] at h
    obtain ⟨h1, h2⟩ := sep_split_inj s s' _ _ (ha s (by simp)).2 (hb s' (by simp)).2 h
    have := joinChars_inj (t :: r) (t' :: r') (fun x hx => ha x (by simp [hx]))
      (fun x hx => hb x (by simp [hx])) h2
    rw [h1, this]

theorem goodChars_of_goodSeg {s : String} (h : goodSeg s = true) : GoodChars s.toList := by
  simp only [goodSeg, Bool.and_eq_true, Bool.not_eq_true', List.isEmpty_eq_false_iff,
    contains_false_iff] at h
  exact h

theorem joinId_toList (segs : List String) :
    (joinId segs).toList = joinChars (segs.map String.toList) := by
  simp [joinId]

theorem map_toList_inj : ∀ (a b : List String), a.map String.toList = b.map String.toList → a = b
  | [], [], _ => rfl
  | [], _ :: _, h => by simp at h
  | _ :: _, [], h => by simp at h
  | x :: a, y :: b, h => by
    simp only [List.map_cons, List.cons.injEq] at h
    rw [String.toList_inj.1 h.1, map_toList_inj a b h.2]

/-- An id with at least two segments contains the separator. -/
theorem underscore_mem_joinId (a x : String) (t : List String) :
    '_' ∈ (joinId (a :: x :: t)).toList := by
  rw [joinId_toList]
  simp [joinChars]

/-! ### result levels -/

theorem level_extend (lv : String) : ∀ (rs : List J) (i : Nat), ∀ id ∈ levelIds lv rs i,
    ∃ n, i ≤ n ∧ [lv, showIdx n] <+: id
  | [], _, id, hid => by simp [levelIds] at hid
  | r :: rs, i, id, hid => by
    simp only [levelIds, List.mem_append] at hid
    rcases hid with hid | hid
    · exact ⟨i, Nat.le_refl i, extend_all.1 r _ id hid⟩
    · obtain ⟨n, hn, hp⟩ := level_extend lv rs (i + 1) id hid
      exact ⟨n, by omega, hp⟩

theorem level_nodup (lv : String) : ∀ (rs : List J) (i : Nat), (∀ r ∈ rs, WF r = true) →
    (levelIds lv rs i).Nodup
  | [], _, _ => by simp [levelIds]
  | r :: rs, i, h => by
    simp only [levelIds]
    rw [List.nodup_append]
    refine ⟨nodup_all.1 r _ (h r (by simp)), level_nodup lv rs (i + 1) (fun x hx => h x (by simp [hx])), ?_⟩
    intro a ha b hb hab
    subst hab
    have hpa := extend_all.1 r _ a ha
    obtain ⟨n, hn, hp⟩ := level_extend lv rs (i + 1) a hb
    have := showIdx_inj (prefix_pair_inj hpa hp).2
    omega

theorem level_good (lv : String) (hlv : goodSeg lv = true) : ∀ (rs : List J) (i : Nat),
    (∀ r ∈ rs, WF r = true) → ∀ id ∈ levelIds lv rs i, ∀ s ∈ id, goodSeg s = true
  | [], _, _, id, hid => by simp [levelIds] at hid
  | r :: rs, i, h, id, hid => by
    simp only [levelIds, List.mem_append] at hid
    rcases hid with hid | hid
    · refine good_all.1 r _ (h r (by simp)) ?_ id hid
      intro s hs
      simp only [List.mem_cons, List.not_mem_nil, or_false] at hs
      rcases hs with rfl | rfl
      · exact hlv
      · exact goodSeg_showIdx i
    · exact level_good lv hlv rs (i + 1) (fun x hx => h x (by simp [hx])) id hid

end Acv
