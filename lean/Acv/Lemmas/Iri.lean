import Acv.Model.Iri
/-! Helper lemmas for C15 (the IRI expander). -/
namespace Acv.Iri

/-! ### `takeWhile` / `dropWhile` up to the first character that fails the test -/

theorem takeWhile_stop {α} (p : α → Bool) : ∀ (l : List α) (x : α) (r : List α),
    (∀ a ∈ l, p a = true) → p x = false → (l ++ x :: r).takeWhile p = l
  | [], x, r, _, hx => by simp [hx]
  | a :: l, x, r, hl, hx => by
    have ha : p a = true := hl a (by simp)
    simp only [List.cons_append, List.takeWhile, ha]
    rw [takeWhile_stop p l x r (fun b hb => hl b (by simp [hb])) hx]

theorem dropWhile_stop {α} (p : α → Bool) : ∀ (l : List α) (x : α) (r : List α),
    (∀ a ∈ l, p a = true) → p x = false → (l ++ x :: r).dropWhile p = x :: r
  | [], x, r, _, hx => by simp [hx]
  | a :: l, x, r, hl, hx => by
    have ha : p a = true := hl a (by simp)
    simp only [List.cons_append, List.dropWhile, ha]
    exact dropWhile_stop p l x r (fun b hb => hl b (by simp [hb])) hx

theorem all_takeWhile {α} (p : α → Bool) : ∀ (l : List α), ∀ a ∈ l.takeWhile p, p a = true
  | [], _, h => by simp at h
  | b :: l, a, h => by
    by_cases hb : p b = true
    · simp only [List.takeWhile, hb] at h
      rcases List.mem_cons.1 h with rfl | h
      · exact hb
      · exact all_takeWhile p l a h
    · have hb' : p b = false := by simpa using hb
      simp [List.takeWhile, hb'] at h

/-! ### Character classes -/

theorem dot_not_class1 : isClass1 '.' = false := by decide
theorem at_not_class1 : isClass1 '@' = false := by decide

theorem class1_ne_dot {c : Char} (h : isClass1 c = true) : (c != '.') = true := by
  have : c ≠ '.' := by
    intro e; subst e; rw [dot_not_class1] at h; exact absurd h (by simp)
  simp [this]

theorem class1_class2 {c : Char} (h : isClass1 c = true) : isClass2 c = true := by
  simp [isClass2, h]

/-! ### The regular expression, declaratively -/

/-- `p` `.` `l` with `p ∈ class1+` and `l ∈ class2+` matches the regular expression. -/
theorem isCompact_of_parts {p l : List Char} (hp : p ≠ []) (hp1 : ∀ c ∈ p, isClass1 c = true)
    (hl : l ≠ []) (hl2 : ∀ c ∈ l, isClass2 c = true) : isCompact (p ++ '.' :: l) = true := by
  unfold isCompact
  rw [dropWhile_stop isClass1 p '.' l hp1 dot_not_class1,
    takeWhile_stop isClass1 p '.' l hp1 dot_not_class1]
  have h1 : p.isEmpty = false := by cases p with
    | nil => exact absurd rfl hp
    | cons _ _ => rfl
  have h2 : l.isEmpty = false := by cases l with
    | nil => exact absurd rfl hl
    | cons _ _ => rfl
  have h3 : l.all isClass2 = true := List.all_eq_true.2 hl2
  simp [h1, h2, h3]

/-- Everything that matches the regular expression has that shape. -/
theorem parts_of_isCompact {iri : List Char} (h : isCompact iri = true) :
    ∃ p l, iri = p ++ '.' :: l ∧ p ≠ [] ∧ (∀ c ∈ p, isClass1 c = true) ∧ l ≠ [] ∧
      (∀ c ∈ l, isClass2 c = true) := by
  unfold isCompact at h
  split at h
  · next suffix hd =>
    simp only [Bool.and_eq_true, Bool.not_eq_true', List.isEmpty_eq_false_iff] at h
    refine ⟨iri.takeWhile isClass1, suffix, ?_, h.1.1, all_takeWhile isClass1 iri, h.1.2,
      List.all_eq_true.1 h.2⟩
    rw [← hd, List.takeWhile_append_dropWhile]
  · exact absurd h (by simp)

theorem isCompact_iff (iri : List Char) : isCompact iri = true ↔
    ∃ p l, iri = p ++ '.' :: l ∧ p ≠ [] ∧ (∀ c ∈ p, isClass1 c = true) ∧ l ≠ [] ∧
      (∀ c ∈ l, isClass2 c = true) :=
  ⟨parts_of_isCompact, fun ⟨_, _, e, hp, hp1, hl, hl2⟩ => e ▸ isCompact_of_parts hp hp1 hl hl2⟩

/-- A text that starts with `@` never matches. -/
theorem isCompact_at (rest : List Char) : isCompact ('@' :: rest) = false := by
  simp [isCompact, List.dropWhile, at_not_class1]

/-! ### The split -/

theorem splitDot_parts {p l : List Char} (hp1 : ∀ c ∈ p, isClass1 c = true) :
    splitDot (p ++ '.' :: l) = some (p, l) := by
  have hp : ∀ c ∈ p, (fun c : Char => c != '.') c = true := fun c hc => class1_ne_dot (hp1 c hc)
  have hd : (fun c : Char => c != '.') '.' = false := by decide
  unfold splitDot
  rw [dropWhile_stop _ p '.' l hp hd, takeWhile_stop _ p '.' l hp hd]

/-! ### `unescapeSlash` -/

theorem unescapeSlash_no_backslash : ∀ (l : List Char), '\\' ∉ l → unescapeSlash l = l
  | [], _ => rfl
  | [_], _ => rfl
  | c :: d :: l, h => by
    have hc : c ≠ '\\' := fun e => h (by simp [e])
    have hl : '\\' ∉ d :: l := fun m => h (List.mem_cons_of_mem _ m)
    rw [unescapeSlash, if_neg (fun hh => hc hh.1), unescapeSlash_no_backslash (d :: l) hl]

theorem unescapeSlash_esc (l : List Char) :
    unescapeSlash ('\\' :: '/' :: l) = '/' :: unescapeSlash l := by
  rw [unescapeSlash]; simp

end Acv.Iri
