import Acv.Model.Peg
/-!
# General lemmas about the PEG interpreter (any grammar)
-/
namespace Acv


/-! ## One-step unfolding lemmas (all by `rfl`) -/

theorem run_zero (g : Grammar) (e fr s) : run g 0 e fr s = .oof := rfl
theorem runSeq_zero (g : Grammar) (es fr s) : runSeq g 0 es fr s = .oof := rfl
theorem runChoice_zero (g : Grammar) (es s) : runChoice g 0 es s = .oof := rfl
theorem runStar_zero (g : Grammar) (e s) : runStar g 0 e s = .oof := rfl

theorem run_lit (g : Grammar) (n cs fr s) : run g (n+1) (.lit cs) fr s =
    (match dropPrefix cs s with
    | some r => .ok (.chars cs, fr, r)
    | none => .fail) := rfl
theorem run_cls (g : Grammar) (n a b i fr s) : run g (n+1) (.cls a b i) fr s =
    (match s with
    | [] => .fail
    | c :: r => if classMatch a b i c then .ok (.chars [c], fr, r) else .fail) := rfl
theorem run_any (g : Grammar) (n fr s) : run g (n+1) .any fr s =
    (match s with
    | [] => .fail
    | c :: r => .ok (.chars [c], fr, r)) := rfl
theorem run_seq (g : Grammar) (n es fr s) : run g (n+1) (.seq es) fr s =
    (match runSeq g n es fr s with
    | .ok (vs, fr', r) => .ok (.list vs, fr', r)
    | .fail => .fail
    | .err => .err
    | .oof => .oof) := rfl
theorem run_choice (g : Grammar) (n es fr s) : run g (n+1) (.choice es) fr s =
    (match runChoice g n es s with
    | .ok (v, r) => .ok (v, fr, r)
    | .fail => .fail
    | .err => .err
    | .oof => .oof) := rfl
theorem run_star (g : Grammar) (n e fr s) : run g (n+1) (.star e) fr s =
    (match runStar g n e s with
    | .ok (vs, r) => .ok (.list vs, fr, r)
    | .fail => .fail
    | .err => .err
    | .oof => .oof) := rfl
theorem run_plus (g : Grammar) (n e fr s) : run g (n+1) (.plus e) fr s =
    (match run g n e [] s with
    | .ok (v, _, r) =>
      match runStar g n e r with
      | .ok (vs, r') => .ok (.list (v :: vs), fr, r')
      | .fail => .fail
      | .err => .err
      | .oof => .oof
    | .fail => .fail
    | .err => .err
    | .oof => .oof) := rfl
theorem run_opt (g : Grammar) (n e fr s) : run g (n+1) (.opt e) fr s =
    (match run g n e [] s with
    | .ok (v, _, r) => .ok (v, fr, r)
    | .fail => .ok (.nil, fr, s)
    | .err => .err
    | .oof => .oof) := rfl
theorem run_notp (g : Grammar) (n e fr s) : run g (n+1) (.notp e) fr s =
    (match run g n e [] s with
    | .ok _ => .fail
    | .fail => .ok (.nil, fr, s)
    | .err => .err
    | .oof => .oof) := rfl
theorem run_andp (g : Grammar) (n e fr s) : run g (n+1) (.andp e) fr s =
    (match run g n e [] s with
    | .ok _ => .ok (.nil, fr, s)
    | .fail => .fail
    | .err => .err
    | .oof => .oof) := rfl
theorem run_ref (g : Grammar) (n name fr s) : run g (n+1) (.ref name) fr s =
    (match g.find name with
    | none => .fail
    | some body =>
      match run g n body [] s with
      | .ok (v, _, r) => .ok (v, fr, r)
      | .fail => .fail
      | .err => .err
      | .oof => .oof) := rfl
theorem run_label (g : Grammar) (n l e fr s) : run g (n+1) (.label l e) fr s =
    (match run g n e [] s with
    | .ok (v, _, r) => .ok (v, (l, v) :: fr, r)
    | .fail => .fail
    | .err => .err
    | .oof => .oof) := rfl
theorem run_action (g : Grammar) (n a e fr s) : run g (n+1) (.action a e) fr s =
    (match run g n e fr s with
    | .ok (_, fr', r) =>
      match act a fr' with
      | some v => .ok (v, fr', r)
      | none => .err
    | .fail => .fail
    | .err => .err
    | .oof => .oof) := rfl
theorem runSeq_nil (g : Grammar) (n fr s) : runSeq g (n+1) [] fr s = .ok ([], fr, s) := rfl
theorem runSeq_cons (g : Grammar) (n e es fr s) : runSeq g (n+1) (e :: es) fr s =
    (match run g n e fr s with
    | .ok (v, fr', r) =>
      match runSeq g n es fr' r with
      | .ok (vs, fr'', r') => .ok (v :: vs, fr'', r')
      | .fail => .fail
      | .err => .err
      | .oof => .oof
    | .fail => .fail
    | .err => .err
    | .oof => .oof) := rfl
theorem runChoice_nil (g : Grammar) (n s) : runChoice g (n+1) [] s = .fail := rfl
theorem runChoice_cons (g : Grammar) (n e es s) : runChoice g (n+1) (e :: es) s =
    (match run g n e [] s with
    | .ok (v, _, r) => .ok (v, r)
    | .fail => runChoice g n es s
    | .err => .err
    | .oof => .oof) := rfl
theorem runStar_succ (g : Grammar) (n e s) : runStar g (n+1) e s =
    (match run g n e [] s with
    | .ok (v, _, r) =>
      match runStar g n e r with
      | .ok (vs, r') => .ok (v :: vs, r')
      | .fail => .fail
      | .err => .err
      | .oof => .oof
    | .fail => .ok ([], s)
    | .err => .err
    | .oof => .oof) := rfl

/-! ## Fuel monotonicity: a result other than `oof` is stable under more fuel -/

theorem mono_succ (g : Grammar) : ∀ n,
    (∀ e fr s, run g n e fr s ≠ .oof → run g (n+1) e fr s = run g n e fr s) ∧
    (∀ es fr s, runSeq g n es fr s ≠ .oof → runSeq g (n+1) es fr s = runSeq g n es fr s) ∧
    (∀ es s, runChoice g n es s ≠ .oof → runChoice g (n+1) es s = runChoice g n es s) ∧
    (∀ e s, runStar g n e s ≠ .oof → runStar g (n+1) e s = runStar g n e s) := by
  intro n
  induction n with
  | zero =>
    refine ⟨?_, ?_, ?_, ?_⟩ <;> intros <;> simp [run_zero, runSeq_zero, runChoice_zero, runStar_zero] at *
  | succ n ih =>
    obtain ⟨ihR, ihS, ihC, ihT⟩ := ih
    refine ⟨?_, ?_, ?_, ?_⟩
    · intro e fr s h
      cases e with
      | lit cs => rfl
      | cls a b c => rfl
      | any => rfl
      | seq es =>
        simp only [run_seq] at h ⊢
        by_cases ho : runSeq g n es fr s = .oof
        · rw [ho] at h; exact absurd rfl h
        · rw [ihS _ _ _ ho]
      | choice es =>
        simp only [run_choice] at h ⊢
        by_cases ho : runChoice g n es s = .oof
        · rw [ho] at h; exact absurd rfl h
        · rw [ihC _ _ ho]
      | star e =>
        simp only [run_star] at h ⊢
        by_cases ho : runStar g n e s = .oof
        · rw [ho] at h; exact absurd rfl h
        · rw [ihT _ _ ho]
      | plus e =>
        simp only [run_plus] at h ⊢
        by_cases ho : run g n e [] s = .oof
        · rw [ho] at h; exact absurd rfl h
        · rw [ihR _ _ _ ho]
          rcases hr : run g n e [] s with _ | _ | _ | ⟨v, fr', r⟩ <;> try rfl
          rw [hr] at h
          by_cases ho2 : runStar g n e r = .oof
          · simp only [ho2] at h; exact absurd rfl h
          · simp only [ihT _ _ ho2]
      | opt e =>
        simp only [run_opt] at h ⊢
        by_cases ho : run g n e [] s = .oof
        · rw [ho] at h; exact absurd rfl h
        · rw [ihR _ _ _ ho]
      | notp e =>
        simp only [run_notp] at h ⊢
        by_cases ho : run g n e [] s = .oof
        · rw [ho] at h; exact absurd rfl h
        · rw [ihR _ _ _ ho]
      | andp e =>
        simp only [run_andp] at h ⊢
        by_cases ho : run g n e [] s = .oof
        · rw [ho] at h; exact absurd rfl h
        · rw [ihR _ _ _ ho]
      | ref name =>
        simp only [run_ref] at h ⊢
        cases hf : g.find name with
        | none => rfl
        | some body =>
          simp only [hf] at h ⊢
          by_cases ho : run g n body [] s = .oof
          · simp only [ho] at h; exact absurd rfl h
          · simp only [ihR _ _ _ ho]
      | label l e =>
        simp only [run_label] at h ⊢
        by_cases ho : run g n e [] s = .oof
        · rw [ho] at h; exact absurd rfl h
        · rw [ihR _ _ _ ho]
      | action a e =>
        simp only [run_action] at h ⊢
        by_cases ho : run g n e fr s = .oof
        · rw [ho] at h; exact absurd rfl h
        · rw [ihR _ _ _ ho]
    · intro es fr s h
      cases es with
      | nil => rfl
      | cons e es =>
        simp only [runSeq_cons] at h ⊢
        by_cases ho : run g n e fr s = .oof
        · rw [ho] at h; exact absurd rfl h
        · rw [ihR _ _ _ ho]
          rcases hr : run g n e fr s with _ | _ | _ | ⟨v, fr', r⟩ <;> try rfl
          rw [hr] at h
          by_cases ho2 : runSeq g n es fr' r = .oof
          · simp only [ho2] at h; exact absurd rfl h
          · simp only [ihS _ _ _ ho2]
    · intro es s h
      cases es with
      | nil => rfl
      | cons e es =>
        simp only [runChoice_cons] at h ⊢
        by_cases ho : run g n e [] s = .oof
        · rw [ho] at h; exact absurd rfl h
        · rw [ihR _ _ _ ho]
          rcases hr : run g n e [] s with _ | _ | _ | ⟨v, fr', r⟩ <;> try rfl
          rw [hr] at h
          exact ihC _ _ h
    · intro e s h
      rw [runStar_succ g n] at h
      rw [runStar_succ g (n+1), runStar_succ g n]
      by_cases ho : run g n e [] s = .oof
      · rw [ho] at h; exact absurd rfl h
      · rw [ihR _ _ _ ho]
        rcases hr : run g n e [] s with _ | _ | _ | ⟨v, fr', r⟩ <;> try rfl
        rw [hr] at h
        by_cases ho2 : runStar g n e r = .oof
        · simp only [ho2] at h; exact absurd rfl h
        · simp only [ihT _ _ ho2]


theorem run_mono {g : Grammar} {n m : Nat} {e fr s} (h : run g n e fr s ≠ .oof) (hm : n ≤ m) :
    run g m e fr s = run g n e fr s := by
  obtain ⟨k, rfl⟩ := Nat.exists_eq_add_of_le hm
  clear hm
  induction k with
  | zero => rfl
  | succ k ih =>
    have := (mono_succ g (n + k)).1 e fr s (by rw [ih]; exact h)
    rw [← Nat.add_assoc, this, ih]

theorem run_ok_mono {g : Grammar} {n m : Nat} {e fr s x} (h : run g n e fr s = .ok x) (hm : n ≤ m) :
    run g m e fr s = .ok x := by
  rw [run_mono (by rw [h]; intro hc; cases hc) hm, h]

theorem run_fail_mono {g : Grammar} {n m : Nat} {e fr s} (h : run g n e fr s = .fail) (hm : n ≤ m) :
    run g m e fr s = .fail := by
  rw [run_mono (by rw [h]; intro hc; cases hc) hm, h]

/-! ## End of input -/

/-- `!.` succeeds only at the end of the input (any grammar, any fuel) -/
theorem notAny_ok {g : Grammar} {n fr s x} (h : run g n (.notp .any) fr s = .ok x) :
    s = [] ∧ x = (.nil, fr, []) := by
  cases n with
  | zero => simp [run_zero] at h
  | succ n =>
    rw [run_notp] at h
    cases n with
    | zero => simp [run_zero] at h
    | succ n =>
      rw [run_any] at h
      cases s with
      | nil => simp at h; exact ⟨rfl, h.symm⟩
      | cons c r => simp at h

/-- the remaining input (and frame) of a successful sequence is that of its last element -/
theorem runSeq_last {g : Grammar} : ∀ (es : List PE) (n : Nat) (fr : Frame) (s : List Char) vs fr' r e,
    runSeq g n es fr s = .ok (vs, fr', r) → es.getLast? = some e →
    ∃ n' fr0 s0 v, run g n' e fr0 s0 = .ok (v, fr', r) := by
  intro es
  induction es with
  | nil => intro n fr s vs fr' r e _ hl; simp at hl
  | cons e1 es ih =>
    intro n fr s vs fr' r e h hl
    cases n with
    | zero => simp [runSeq_zero] at h
    | succ n =>
      rw [runSeq_cons] at h
      rcases hr : run g n e1 fr s with _ | _ | _ | ⟨v, fr1, r1⟩ <;> simp only [hr] at h <;> try (cases h; done)
      rcases hs : runSeq g n es fr1 r1 with _ | _ | _ | ⟨vs', fr2, r2⟩ <;> simp only [hs] at h <;> try (cases h; done)
      simp only [Res.ok.injEq, Prod.mk.injEq] at h
      obtain ⟨_, rfl, rfl⟩ := h
      cases es with
      | nil =>
        simp at hl; subst hl
        cases n with
        | zero => simp [runSeq_zero] at hs
        | succ n =>
          rw [runSeq_nil] at hs
          simp only [Res.ok.injEq, Prod.mk.injEq] at hs
          obtain ⟨_, rfl, rfl⟩ := hs
          exact ⟨_, _, _, _, hr⟩
      | cons e2 es' =>
        rw [List.getLast?_cons_cons] at hl
        exact ih n fr1 r1 vs' _ _ e hs hl


/-! ## "From fuel `B` on" judgements and their composition rules

`RunOk g B e fr s x`: with any fuel `≥ B`, `e` matches on `s` in frame `fr` with outcome `x`.
The bound of a composite is `max` of the parts `+ 1`, because fuel bounds the recursion depth. -/

def RunOk (g : Grammar) (B : Nat) (e : PE) (fr : Frame) (s : List Char) (x : V × Frame × List Char) : Prop :=
  ∀ n, B ≤ n → run g n e fr s = .ok x
def RunFail (g : Grammar) (B : Nat) (e : PE) (fr : Frame) (s : List Char) : Prop :=
  ∀ n, B ≤ n → run g n e fr s = .fail
def SeqOk (g : Grammar) (B : Nat) (es : List PE) (fr : Frame) (s : List Char)
    (x : List V × Frame × List Char) : Prop :=
  ∀ n, B ≤ n → runSeq g n es fr s = .ok x
def SeqFail (g : Grammar) (B : Nat) (es : List PE) (fr : Frame) (s : List Char) : Prop :=
  ∀ n, B ≤ n → runSeq g n es fr s = .fail
def ChoiceOk (g : Grammar) (B : Nat) (es : List PE) (s : List Char) (x : V × List Char) : Prop :=
  ∀ n, B ≤ n → runChoice g n es s = .ok x
def StarOk (g : Grammar) (B : Nat) (e : PE) (s : List Char) (x : List V × List Char) : Prop :=
  ∀ n, B ≤ n → runStar g n e s = .ok x

section rules
variable {g : Grammar}

theorem RunOk.mono {B B' e fr s x} (h : RunOk g B e fr s x) (hb : B ≤ B') : RunOk g B' e fr s x :=
  fun n hn => h n (Nat.le_trans hb hn)
theorem RunFail.mono {B B' e fr s} (h : RunFail g B e fr s) (hb : B ≤ B') : RunFail g B' e fr s :=
  fun n hn => h n (Nat.le_trans hb hn)
theorem SeqOk.mono {B B' es fr s x} (h : SeqOk g B es fr s x) (hb : B ≤ B') : SeqOk g B' es fr s x :=
  fun n hn => h n (Nat.le_trans hb hn)
theorem SeqFail.mono {B B' es fr s} (h : SeqFail g B es fr s) (hb : B ≤ B') : SeqFail g B' es fr s :=
  fun n hn => h n (Nat.le_trans hb hn)
theorem ChoiceOk.mono {B B' es s x} (h : ChoiceOk g B es s x) (hb : B ≤ B') : ChoiceOk g B' es s x :=
  fun n hn => h n (Nat.le_trans hb hn)
theorem StarOk.mono {B B' e s x} (h : StarOk g B e s x) (hb : B ≤ B') : StarOk g B' e s x :=
  fun n hn => h n (Nat.le_trans hb hn)

theorem dropPrefix_append (cs r : List Char) : dropPrefix cs (cs ++ r) = some r := by
  induction cs with
  | nil => cases r <;> rfl
  | cons c cs ih => simp [dropPrefix, ih]

theorem ok_lit {cs fr r} : RunOk g 1 (.lit cs) fr (cs ++ r) (.chars cs, fr, r) := by
  intro n hn
  obtain ⟨k, rfl⟩ : ∃ k, n = k + 1 := ⟨n - 1, by omega⟩
  rw [run_lit, dropPrefix_append]

theorem ok_lit1 {c fr r} : RunOk g 1 (.lit [c]) fr (c :: r) (.chars [c], fr, r) :=
  ok_lit (cs := [c])

/-- the input does not start with `c` -/
def HeadNe (c : Char) : List Char → Prop
  | [] => True
  | d :: _ => c ≠ d

theorem fail_lit1 {c fr s} (h : HeadNe c s) : RunFail g 1 (.lit [c]) fr s := by
  intro n hn
  obtain ⟨k, rfl⟩ : ∃ k, n = k + 1 := ⟨n - 1, by omega⟩
  rw [run_lit]
  cases s with
  | nil => rfl
  | cons d s => simp [dropPrefix, show c ≠ d from h]

/-- the input is empty or starts with a character outside the class `P` -/
def HeadNot (P : Char → Bool) : List Char → Prop
  | [] => True
  | c :: _ => P c = false

theorem ok_cls {a b i c fr r} (h : classMatch a b i c = true) :
    RunOk g 1 (.cls a b i) fr (c :: r) (.chars [c], fr, r) := by
  intro n hn
  obtain ⟨k, rfl⟩ : ∃ k, n = k + 1 := ⟨n - 1, by omega⟩
  simp [run_cls, h]

theorem fail_cls {a b i fr s} (h : HeadNot (classMatch a b i) s) : RunFail g 1 (.cls a b i) fr s := by
  intro n hn
  obtain ⟨k, rfl⟩ : ∃ k, n = k + 1 := ⟨n - 1, by omega⟩
  rw [run_cls]
  cases s with
  | nil => rfl
  | cons d s => simp [show classMatch a b i d = false from h]

theorem fail_any_nil {fr} : RunFail g 1 .any fr [] := by
  intro n hn
  obtain ⟨k, rfl⟩ : ∃ k, n = k + 1 := ⟨n - 1, by omega⟩
  rfl

theorem ok_seq {B es fr s vs fr' r} (h : SeqOk g B es fr s (vs, fr', r)) :
    RunOk g (B + 1) (.seq es) fr s (.list vs, fr', r) := by
  intro n hn
  obtain ⟨k, rfl⟩ : ∃ k, n = k + 1 := ⟨n - 1, by omega⟩
  rw [run_seq, h k (by omega)]

theorem fail_seq {B es fr s} (h : SeqFail g B es fr s) : RunFail g (B + 1) (.seq es) fr s := by
  intro n hn
  obtain ⟨k, rfl⟩ : ∃ k, n = k + 1 := ⟨n - 1, by omega⟩
  rw [run_seq, h k (by omega)]

theorem seqOk_nil {fr s} : SeqOk g 1 [] fr s ([], fr, s) := by
  intro n hn
  obtain ⟨k, rfl⟩ : ∃ k, n = k + 1 := ⟨n - 1, by omega⟩
  rfl

theorem seqOk_cons {B1 B2 e es fr s v fr1 r1 vs fr2 r2} (h1 : RunOk g B1 e fr s (v, fr1, r1))
    (h2 : SeqOk g B2 es fr1 r1 (vs, fr2, r2)) :
    SeqOk g (max B1 B2 + 1) (e :: es) fr s (v :: vs, fr2, r2) := by
  intro n hn
  obtain ⟨k, rfl⟩ : ∃ k, n = k + 1 := ⟨n - 1, by omega⟩
  rw [runSeq_cons, h1 k (by omega)]
  simp only [h2 k (by omega)]

theorem seqFail_head {B e es fr s} (h : RunFail g B e fr s) : SeqFail g (B + 1) (e :: es) fr s := by
  intro n hn
  obtain ⟨k, rfl⟩ : ∃ k, n = k + 1 := ⟨n - 1, by omega⟩
  rw [runSeq_cons, h k (by omega)]

theorem seqFail_tail {B1 B2 e es fr s v fr1 r1} (h1 : RunOk g B1 e fr s (v, fr1, r1))
    (h2 : SeqFail g B2 es fr1 r1) : SeqFail g (max B1 B2 + 1) (e :: es) fr s := by
  intro n hn
  obtain ⟨k, rfl⟩ : ∃ k, n = k + 1 := ⟨n - 1, by omega⟩
  rw [runSeq_cons, h1 k (by omega)]
  simp only [h2 k (by omega)]

theorem ok_choice {B es fr s v r} (h : ChoiceOk g B es s (v, r)) :
    RunOk g (B + 1) (.choice es) fr s (v, fr, r) := by
  intro n hn
  obtain ⟨k, rfl⟩ : ∃ k, n = k + 1 := ⟨n - 1, by omega⟩
  rw [run_choice, h k (by omega)]

theorem choiceOk_head {B e es s v fr' r} (h : RunOk g B e [] s (v, fr', r)) :
    ChoiceOk g (B + 1) (e :: es) s (v, r) := by
  intro n hn
  obtain ⟨k, rfl⟩ : ∃ k, n = k + 1 := ⟨n - 1, by omega⟩
  rw [runChoice_cons, h k (by omega)]

theorem choiceOk_tail {B1 B2 e es s x} (h1 : RunFail g B1 e [] s) (h2 : ChoiceOk g B2 es s x) :
    ChoiceOk g (max B1 B2 + 1) (e :: es) s x := by
  intro n hn
  obtain ⟨k, rfl⟩ : ∃ k, n = k + 1 := ⟨n - 1, by omega⟩
  rw [runChoice_cons, h1 k (by omega)]
  exact h2 k (by omega)

theorem ok_star {B e fr s vs r} (h : StarOk g B e s (vs, r)) :
    RunOk g (B + 1) (.star e) fr s (.list vs, fr, r) := by
  intro n hn
  obtain ⟨k, rfl⟩ : ∃ k, n = k + 1 := ⟨n - 1, by omega⟩
  rw [run_star, h k (by omega)]

theorem starOk_nil {B e s} (h : RunFail g B e [] s) : StarOk g (B + 1) e s ([], s) := by
  intro n hn
  obtain ⟨k, rfl⟩ : ∃ k, n = k + 1 := ⟨n - 1, by omega⟩
  rw [runStar_succ, h k (by omega)]

theorem starOk_cons {B1 B2 e s v fr' r vs r'} (h1 : RunOk g B1 e [] s (v, fr', r))
    (h2 : StarOk g B2 e r (vs, r')) : StarOk g (max B1 B2 + 1) e s (v :: vs, r') := by
  intro n hn
  obtain ⟨k, rfl⟩ : ∃ k, n = k + 1 := ⟨n - 1, by omega⟩
  rw [runStar_succ, h1 k (by omega)]
  simp only [h2 k (by omega)]

theorem ok_plus {B1 B2 e fr s v fr' r vs r'} (h1 : RunOk g B1 e [] s (v, fr', r))
    (h2 : StarOk g B2 e r (vs, r')) :
    RunOk g (max B1 B2 + 1) (.plus e) fr s (.list (v :: vs), fr, r') := by
  intro n hn
  obtain ⟨k, rfl⟩ : ∃ k, n = k + 1 := ⟨n - 1, by omega⟩
  rw [run_plus, h1 k (by omega)]
  simp only [h2 k (by omega)]

theorem fail_plus {B e fr s} (h : RunFail g B e [] s) : RunFail g (B + 1) (.plus e) fr s := by
  intro n hn
  obtain ⟨k, rfl⟩ : ∃ k, n = k + 1 := ⟨n - 1, by omega⟩
  rw [run_plus, h k (by omega)]

theorem ok_opt_some {B e fr s v fr' r} (h : RunOk g B e [] s (v, fr', r)) :
    RunOk g (B + 1) (.opt e) fr s (v, fr, r) := by
  intro n hn
  obtain ⟨k, rfl⟩ : ∃ k, n = k + 1 := ⟨n - 1, by omega⟩
  rw [run_opt, h k (by omega)]

theorem ok_opt_none {B e fr s} (h : RunFail g B e [] s) :
    RunOk g (B + 1) (.opt e) fr s (.nil, fr, s) := by
  intro n hn
  obtain ⟨k, rfl⟩ : ∃ k, n = k + 1 := ⟨n - 1, by omega⟩
  rw [run_opt, h k (by omega)]

theorem ok_notp {B e fr s} (h : RunFail g B e [] s) :
    RunOk g (B + 1) (.notp e) fr s (.nil, fr, s) := by
  intro n hn
  obtain ⟨k, rfl⟩ : ∃ k, n = k + 1 := ⟨n - 1, by omega⟩
  rw [run_notp, h k (by omega)]

theorem ok_ref {B name body fr s v fr' r} (hf : g.find name = some body)
    (h : RunOk g B body [] s (v, fr', r)) : RunOk g (B + 1) (.ref name) fr s (v, fr, r) := by
  intro n hn
  obtain ⟨k, rfl⟩ : ∃ k, n = k + 1 := ⟨n - 1, by omega⟩
  rw [run_ref]
  simp only [hf, h k (by omega)]

theorem fail_ref {B name body fr s} (hf : g.find name = some body)
    (h : RunFail g B body [] s) : RunFail g (B + 1) (.ref name) fr s := by
  intro n hn
  obtain ⟨k, rfl⟩ : ∃ k, n = k + 1 := ⟨n - 1, by omega⟩
  rw [run_ref]
  simp only [hf, h k (by omega)]

theorem ok_label {B l e fr s v fr' r} (h : RunOk g B e [] s (v, fr', r)) :
    RunOk g (B + 1) (.label l e) fr s (v, (l, v) :: fr, r) := by
  intro n hn
  obtain ⟨k, rfl⟩ : ∃ k, n = k + 1 := ⟨n - 1, by omega⟩
  rw [run_label, h k (by omega)]

theorem fail_label {B l e fr s} (h : RunFail g B e [] s) : RunFail g (B + 1) (.label l e) fr s := by
  intro n hn
  obtain ⟨k, rfl⟩ : ∃ k, n = k + 1 := ⟨n - 1, by omega⟩
  rw [run_label, h k (by omega)]

theorem ok_action {B a e fr s v fr' r v'} (h : RunOk g B e fr s (v, fr', r))
    (ha : act a fr' = some v') : RunOk g (B + 1) (.action a e) fr s (v', fr', r) := by
  intro n hn
  obtain ⟨k, rfl⟩ : ∃ k, n = k + 1 := ⟨n - 1, by omega⟩
  rw [run_action, h k (by omega)]
  simp only [ha]

theorem fail_action {B a e fr s} (h : RunFail g B e fr s) : RunFail g (B + 1) (.action a e) fr s := by
  intro n hn
  obtain ⟨k, rfl⟩ : ∃ k, n = k + 1 := ⟨n - 1, by omega⟩
  rw [run_action, h k (by omega)]

/-- value of a run of single-character matches -/
def charVals (cs : List Char) : List V := cs.map (fun c => V.chars [c])

/-- `[class]*` on `cs ++ rest` where `cs` is in the class and `rest` does not start in it -/
theorem starOk_cls {a b i} : ∀ (cs rest : List Char), (∀ c ∈ cs, classMatch a b i c = true) →
    HeadNot (classMatch a b i) rest →
    StarOk g (cs.length + 2) (.cls a b i) (cs ++ rest) (charVals cs, rest) := by
  intro cs
  induction cs with
  | nil =>
    intro rest _ hr
    exact (starOk_nil (fail_cls hr)).mono (by simp)
  | cons c cs ih =>
    intro rest hc hr
    have h1 : RunOk g 1 (.cls a b i) [] (c :: (cs ++ rest)) (.chars [c], [], cs ++ rest) :=
      ok_cls (hc c (by simp))
    have h2 := ih rest (fun d hd => hc d (by simp [hd])) hr
    exact (starOk_cons h1 h2).mono (by simp only [List.length_cons]; omega)

theorem ok_plus_cls {a b i fr} (cs rest : List Char) (hne : cs ≠ [])
    (hc : ∀ c ∈ cs, classMatch a b i c = true) (hr : HeadNot (classMatch a b i) rest) :
    RunOk g (cs.length + 2) (.plus (.cls a b i)) fr (cs ++ rest) (.list (charVals cs), fr, rest) := by
  cases cs with
  | nil => exact absurd rfl hne
  | cons c cs =>
    have h1 : RunOk g 1 (.cls a b i) [] (c :: (cs ++ rest)) (.chars [c], [], cs ++ rest) :=
      ok_cls (hc c (by simp))
    have h2 : StarOk g _ _ _ _ := starOk_cls (g := g) cs rest (fun d hd => hc d (by simp [hd])) hr
    exact (ok_plus h1 h2).mono (by simp only [List.length_cons]; omega)

end rules

/-! # Part 2: grammars that have the rules of the property-path grammar (canonical spacing) -/


def chSpace : Char := Char.ofNat 32
def chLParen : Char := Char.ofNat 40
def chSlash : Char := Char.ofNat 47
def chBar : Char := Char.ofNat 124

abbrev wsCls : PE := .cls [Char.ofNat 32, Char.ofNat 10, Char.ofNat 9, Char.ofNat 13] [] false
abbrev nsCls : PE := .cls [Char.ofNat 95, Char.ofNat 45]
  [(Char.ofNat 97, Char.ofNat 122), (Char.ofNat 65, Char.ofNat 90), (Char.ofNat 48, Char.ofNat 57)] false
abbrev propCls : PE := .cls [Char.ofNat 46, Char.ofNat 92, Char.ofNat 47, Char.ofNat 95, Char.ofNat 45]
  [(Char.ofNat 97, Char.ofNat 122), (Char.ofNat 65, Char.ofNat 90), (Char.ofNat 48, Char.ofNat 57)] false
abbrev modCls : PE := .cls [Char.ofNat 42, Char.ofNat 94] [] false

abbrev isWs (c : Char) : Bool := classMatch [Char.ofNat 32, Char.ofNat 10, Char.ofNat 9, Char.ofNat 13] [] false c
abbrev isNs (c : Char) : Bool := classMatch [Char.ofNat 95, Char.ofNat 45]
  [(Char.ofNat 97, Char.ofNat 122), (Char.ofNat 65, Char.ofNat 90), (Char.ofNat 48, Char.ofNat 57)] false c
abbrev isProp (c : Char) : Bool := classMatch [Char.ofNat 46, Char.ofNat 92, Char.ofNat 47, Char.ofNat 95, Char.ofNat 45]
  [(Char.ofNat 97, Char.ofNat 122), (Char.ofNat 65, Char.ofNat 90), (Char.ofNat 48, Char.ofNat 57)] false c
abbrev isMod (c : Char) : Bool := classMatch [Char.ofNat 42, Char.ofNat 94] [] false c

abbrev wsRule : PE := .star wsCls
abbrev iriRule : PE := .action "Iri1" (.seq [.label "ns" (.plus nsCls), .lit [chDot],
  .label "prop" (.plus propCls), .ref "_", .label "mod" (.opt modCls)])
abbrev factorRule : PE := .choice [
  .action "Factor2" (.seq [.lit [chLParen], .ref "_", .label "expr" (.ref "Expression"), .ref "_", .lit [chRParen]]),
  .ref "Iri",
  .action "Factor11" (.lit atType)]
abbrev tailSeq (op : Char) (sub : PE) : PE := .seq [.ref "_", .lit [op], .ref "_", sub]
abbrev listRule (A : String) (op : Char) (sub : PE) : PE :=
  .action A (.seq [.label "head" sub, .label "tail" (.star (tailSeq op sub))])
abbrev pathRule : PE := .action "Path1" (.seq [.ref "_", .label "expr" (.ref "Expression"), .ref "_", .ref "EOF"])

/-- `g` has the seven rules of `propertyparser.peg` (checked on the generated table by `rfl`) -/
structure IsPathGrammar (g : Grammar) : Prop where
  start : ∃ b rest, g.rules = ("Path", b) :: rest
  path : g.find "Path" = some pathRule
  expr : g.find "Expression" = some (listRule "Expression1" chSlash (.ref "Term"))
  term : g.find "Term" = some (listRule "Term1" chBar (.ref "Factor"))
  factor : g.find "Factor" = some factorRule
  iri : g.find "Iri" = some iriRule
  ws : g.find "_" = some wsRule
  eof : g.find "EOF" = some (.notp .any)

/-! ## Character facts -/

theorem isWs_cases {c : Char} (h : isWs c = true) :
    c = Char.ofNat 32 ∨ c = Char.ofNat 10 ∨ c = Char.ofNat 9 ∨ c = Char.ofNat 13 := by
  simp [isWs, classMatch, inRanges] at h
  rcases h with h | h | h | h <;> simp [h]

theorem isMod_cases {c : Char} (h : isMod c = true) : c = chStar ∨ c = chCaret := by
  simp [isMod, classMatch, inRanges] at h
  rcases h with h | h <;> simp [h, chStar, chCaret]

theorem isWs_not_prop {c : Char} (h : isWs c = true) : isProp c = false := by
  rcases isWs_cases h with h | h | h | h <;> subst h <;> decide

theorem isWs_not_mod {c : Char} (h : isWs c = true) : isMod c = false := by
  rcases isWs_cases h with h | h | h | h <;> subst h <;> decide

theorem isNs_not_ws {c : Char} (h : isNs c = true) : isWs c = false := by
  cases hw : isWs c with
  | false => rfl
  | true => rcases isWs_cases hw with h' | h' | h' | h' <;> subst h' <;> exact absurd h (by decide)

theorem isNs_ne {c k : Char} (h : isNs c = true) (hk : isNs k = false) : c ≠ k := by
  intro e; subst e; rw [h] at hk; cases hk

theorem isProp_ne {c k : Char} (h : isProp c = true) (hk : isProp k = false) : c ≠ k := by
  intro e; subst e; rw [h] at hk; cases hk


/-! ## Whitespace rule -/

section pathrules
variable {g : Grammar}

theorem ok_ws (hg : IsPathGrammar g) (ws tl : List Char) (hws : ∀ c ∈ ws, isWs c = true)
    (htl : HeadNot isWs tl) (fr : Frame) :
    RunOk g (ws.length + 4) (.ref "_") fr (ws ++ tl) (.list (charVals ws), fr, tl) :=
  (ok_ref hg.ws (ok_star (starOk_cls ws tl hws htl))).mono (by omega)

theorem ok_ws0 (hg : IsPathGrammar g) (tl : List Char) (htl : HeadNot isWs tl) (fr : Frame) :
    RunOk g 4 (.ref "_") fr tl (.list [], fr, tl) :=
  ok_ws hg [] tl (by simp) htl fr

/-! ## `Iri` -/

theorem evalChars_charVals (cs : List Char) : evalChars (.list (charVals cs)) = some cs := by
  simp only [evalChars]
  induction cs with
  | nil => rfl
  | cons c cs ih => simp [charVals, evalChars.go] at ih ⊢; simp [ih]

theorem filter_clean (v : List Char) (k : Char) (h : ∀ c ∈ v, c ≠ k) : v.filter (· != k) = v := by
  rw [List.filter_eq_self]
  intro c hc
  simp [h c hc]

theorem contains_clean (v : List Char) (k : Char) (h : ∀ c ∈ v, c ≠ k) : v.contains k = false := by
  cases hc : v.contains k with
  | false => rfl
  | true =>
    rw [List.contains_iff_mem] at hc
    exact absurd rfl (h k hc)

theorem iriAct_clean {ns prop : List Char} (hns : ∀ c ∈ ns, isNs c = true)
    (hp : ∀ c ∈ prop, isProp c = true) (modv : V) (i t : Bool)
    (hi : modIs modv chCaret = some i) (ht : modIs modv chStar = some t) :
    iriAct (.list (charVals ns)) (.list (charVals prop)) modv
      = some (.ast (.iri (ns ++ chDot :: prop) i t)) := by
  have hclean : ∀ k, isNs k = false → isProp k = false → k ≠ chDot → ∀ c ∈ ns ++ [chDot] ++ prop, c ≠ k := by
    intro k h1 h2 h3 c hc
    simp only [List.mem_append, List.mem_singleton] at hc
    rcases hc with (hc | hc) | hc
    · exact isNs_ne (hns c hc) h1
    · rw [hc]; exact fun e => h3 e.symm
    · exact isProp_ne (hp c hc) h2
  have h1 := hclean chCaret (by decide) (by decide) (by decide)
  have h2 := hclean chStar (by decide) (by decide) (by decide)
  simp only [iriAct, evalChars_charVals, hi, ht, contains_clean _ _ h1, contains_clean _ _ h2,
    filter_clean _ _ h1, filter_clean _ _ h2, Bool.or_false]
  simp

theorem act_iri1 (vn vp vm : V) (fr : Frame) :
    act "Iri1" (("mod", vm) :: ("prop", vp) :: ("ns", vn) :: fr) = iriAct vn vp vm := by
  simp [act, Frame.get, List.lookup]

/-- the `Iri` rule on `ns.prop`, optional whitespace `ws`, then whatever the `mod` option does on `tl` -/
theorem ok_iri_gen (hg : IsPathGrammar g) {ns prop ws : List Char} (hns : ns ≠ [])
    (hnsc : ∀ c ∈ ns, isNs c = true) (hp : prop ≠ []) (hpc : ∀ c ∈ prop, isProp c = true)
    (hws : ∀ c ∈ ws, isWs c = true) (tl tl' : List Char) (modv : V) (i t : Bool)
    (hopt : RunOk g 2 (.opt modCls) [] tl (modv, [], tl'))
    (hi : modIs modv chCaret = some i) (ht : modIs modv chStar = some t)
    (h1 : HeadNot isWs tl) (h2 : HeadNot isProp (ws ++ tl)) (fr : Frame) :
    RunOk g (ns.length + prop.length + ws.length + 12) (.ref "Iri") fr
      (ns ++ chDot :: (prop ++ (ws ++ tl))) (.ast (.iri (ns ++ chDot :: prop) i t), fr, tl') := by
  have a := ok_label (g := g) (l := "ns") (fr := [])
    (ok_plus_cls (fr := []) ns (chDot :: (prop ++ (ws ++ tl))) hns hnsc (by show isNs chDot = false; decide))
  have b := ok_lit1 (g := g) (c := chDot) (fr := [("ns", V.list (charVals ns))]) (r := prop ++ (ws ++ tl))
  have c := ok_label (g := g) (l := "prop") (fr := [("ns", V.list (charVals ns))])
    (ok_plus_cls (fr := []) prop (ws ++ tl) hp hpc h2)
  have d := ok_ws hg ws tl hws h1 [("prop", V.list (charVals prop)), ("ns", V.list (charVals ns))]
  have e := ok_label (g := g) (l := "mod")
    (fr := [("prop", V.list (charVals prop)), ("ns", V.list (charVals ns))]) hopt
  have s := seqOk_cons a (seqOk_cons b (seqOk_cons c (seqOk_cons d (seqOk_cons e seqOk_nil))))
  have r := ok_ref (fr := fr) hg.iri (ok_action (a := "Iri1") (ok_seq s)
    (by rw [act_iri1]; exact iriAct_clean hnsc hpc modv i t hi ht))
  exact r.mono (by omega)


/-! ## What may follow a factor/term/expression in canonically spaced text -/

/-- `rest` is empty, starts with `)`, or starts with a space and one of the operators `ops` -/
def Fol (ops : List Char) : List Char → Prop
  | [] => True
  | c :: r => c = chRParen ∨ (c = chSpace ∧ ∃ o r', r = o :: r' ∧ o ∈ ops)

/-- a factor leaves `rest` or (an `Iri` without modifier also eats the blank) `rest` minus its blank -/
def Rem (rest rest' : List Char) : Prop := rest' = rest ∨ rest = chSpace :: rest'

theorem Fol.mono {ops ops' : List Char} (h : ∀ o ∈ ops', o ∈ ops) {rest : List Char}
    (hf : Fol ops' rest) : Fol ops rest := by
  cases rest with
  | nil => trivial
  | cons c r =>
    rcases hf with hf | ⟨hc, o, r', hr, ho⟩
    · exact Or.inl hf
    · exact Or.inr ⟨hc, o, r', hr, h o ho⟩

theorem Fol.headNotProp {ops rest} (hf : Fol ops rest) : HeadNot isProp rest := by
  cases rest with
  | nil => trivial
  | cons c r =>
    rcases hf with hf | ⟨hc, _⟩
    · subst hf; show isProp chRParen = false; decide
    · subst hc; show isProp chSpace = false; decide

theorem Rem_rparen {rest rest' : List Char} (h : Rem (chRParen :: rest) rest') : rest' = chRParen :: rest := by
  rcases h with h | h
  · exact h
  · simp only [List.cons.injEq] at h
    exact absurd h.1 (by decide)

/-- split what is left into at most one blank and something that starts with no blank -/
theorem Fol.split {ops rest cur} (hnw : ∀ o ∈ ops, isWs o = false) (hf : Fol ops rest) (hr : Rem rest cur) :
    ∃ ws cur', cur = ws ++ cur' ∧ (∀ c ∈ ws, isWs c = true) ∧ ws.length ≤ 1 ∧ HeadNot isWs cur' ∧
      Rem rest cur' ∧
      (cur' = [] ∨ (∃ r, cur' = chRParen :: r) ∨ ∃ o r, cur' = o :: r ∧ o ∈ ops) := by
  cases rest with
  | nil =>
    rcases hr with hr | hr
    · subst hr
      exact ⟨[], [], rfl, by simp, by simp, trivial, Or.inl rfl, Or.inl rfl⟩
    · cases hr
  | cons c r =>
    rcases hf with hf | ⟨hc, o, r', hr', ho⟩
    · subst hf
      have := Rem_rparen hr
      subst this
      exact ⟨[], chRParen :: r, rfl, by simp, by simp, by show isWs chRParen = false; decide,
        Or.inl rfl, Or.inr (Or.inl ⟨r, rfl⟩)⟩
    · subst hc; subst hr'
      rcases hr with hr | hr
      · subst hr
        refine ⟨[chSpace], o :: r', rfl, ?_, by simp, hnw o ho, Or.inr rfl, Or.inr (Or.inr ⟨o, r', rfl, ho⟩)⟩
        intro c hc
        simp only [List.mem_singleton] at hc
        subst hc; decide
      · simp only [List.cons.injEq, true_and] at hr
        subst hr
        exact ⟨[], o :: r', rfl, by simp, by simp, hnw o ho, Or.inr rfl, Or.inr (Or.inr ⟨o, r', rfl, ho⟩)⟩

/-- `sub` parses the text `r` to the tree `x` in any follow context `Fol ops`, with fuel `20·|r| + D` -/
def ItemOK (g : Grammar) (sub : PE) (ops : List Char) (D : Nat) (x : PAst) (r : List Char) : Prop :=
  ∀ fr rest, Fol ops rest → ∃ rest', Rem rest rest' ∧
    RunOk g (20 * r.length + D) sub fr (r ++ rest) (.ast x, fr, rest')

def StartsNoWs (r : List Char) : Prop := ∃ c r', r = c :: r' ∧ isWs c = false

theorem StartsNoWs.headNot {r : List Char} (h : StartsNoWs r) (rest : List Char) : HeadNot isWs (r ++ rest) := by
  obtain ⟨c, r', rfl, hc⟩ := h
  exact hc

/-! ## `Factor` -/

theorem ok_factor_of_iri (hg : IsPathGrammar g) {s : List Char} {B : Nat} {v : V} {r : List Char}
    (hhead : HeadNe chLParen s) (h : RunOk g B (.ref "Iri") [] s (v, [], r)) (fr : Frame) :
    RunOk g (max 4 (B + 1) + 3) (.ref "Factor") fr s (v, fr, r) := by
  have alt0 : RunFail g 4 (.action "Factor2" (.seq [.lit [chLParen], .ref "_",
      .label "expr" (.ref "Expression"), .ref "_", .lit [chRParen]])) [] s :=
    fail_action (fail_seq (seqFail_head (fail_lit1 hhead)))
  exact (ok_ref hg.factor (ok_choice (choiceOk_tail alt0 (choiceOk_head h)))).mono (by omega)

theorem ok_factor_type (hg : IsPathGrammar g) (rest : List Char) (fr : Frame) :
    RunOk g 11 (.ref "Factor") fr (atType ++ rest) (.ast (.iri atType false false), fr, rest) := by
  have alt0 : RunFail g 4 (.action "Factor2" (.seq [.lit [chLParen], .ref "_",
      .label "expr" (.ref "Expression"), .ref "_", .lit [chRParen]])) [] (atType ++ rest) :=
    fail_action (fail_seq (seqFail_head (fail_lit1 (by show chLParen ≠ Char.ofNat 64; decide))))
  have alt1 : RunFail g 7 (.ref "Iri") [] (atType ++ rest) :=
    fail_ref hg.iri (fail_action (fail_seq (seqFail_head (fail_label (fail_plus (fail_cls
      (by show isNs (Char.ofNat 64) = false; decide)))))))
  have alt2 : RunOk g 2 (.action "Factor11" (.lit atType)) [] (atType ++ rest)
      (.ast (.iri atType false false), [], rest) :=
    ok_action (ok_lit (cs := atType)) (by rfl)
  exact (ok_ref hg.factor (ok_choice (choiceOk_tail alt0 (choiceOk_tail alt1 (choiceOk_head alt2))))).mono
    (by omega)

theorem ok_factor_paren (hg : IsPathGrammar g) {x : List Char} {p : PAst} {E : Nat} (rest : List Char)
    (hx : StartsNoWs x)
    (hE : RunOk g E (.ref "Expression") [] (x ++ chRParen :: rest) (.ast p, [], chRParen :: rest))
    (fr : Frame) :
    RunOk g (max E 4 + 9) (.ref "Factor") fr (chLParen :: (x ++ chRParen :: rest)) (.ast p, fr, rest) := by
  have a := ok_lit1 (g := g) (c := chLParen) (fr := []) (r := x ++ chRParen :: rest)
  have b := ok_ws0 hg (x ++ chRParen :: rest) (hx.headNot _) []
  have c := ok_label (l := "expr") (fr := []) hE
  have d := ok_ws0 hg (chRParen :: rest) (by show isWs chRParen = false; decide) [("expr", V.ast p)]
  have e := ok_lit1 (g := g) (c := chRParen) (fr := [("expr", V.ast p)]) (r := rest)
  have s := ok_seq (seqOk_cons a (seqOk_cons b (seqOk_cons c (seqOk_cons d (seqOk_cons e seqOk_nil)))))
  have f := ok_action (a := "Factor2") s (v' := V.ast p) (by rfl)
  exact (ok_ref (fr := fr) hg.factor (ok_choice (choiceOk_head f))).mono (by omega)


/-! ## The list rules `X <- head:Sub tail:(_ op _ Sub)* { fold }` (`Expression`, `Term`) -/

/-- the text of the tail: every item preceded by `" op "` -/
def joinTail (op : Char) : List (PAst × List Char) → List Char
  | [] => []
  | it :: items => chSpace :: op :: chSpace :: (it.2 ++ joinTail op items)

theorem joinTail_length_cons (op : Char) (it : PAst × List Char) (items) :
    (joinTail op (it :: items)).length = it.2.length + (joinTail op items).length + 3 := by
  simp [joinTail]

/-- result of the fold: a single element is returned as is -/
def mkNode (mk : List PAst → PAst) (x0 : PAst) : List PAst → PAst
  | [] => x0
  | x :: xs => mk (x0 :: x :: xs)

theorem allAst_map (xs : List PAst) : allAst (xs.map V.ast) = some xs := by
  induction xs with
  | nil => rfl
  | cons x xs ih => simp [allAst, ih]

theorem foldAct_ok (mk : List PAst → PAst) (x0 : PAst) (xs : List PAst) (vs : List V)
    (h : tailFourth vs = some (xs.map V.ast)) :
    foldAct mk (.ast x0) (.list vs) = some (.ast (mkNode mk x0 xs)) := by
  cases xs with
  | nil => simp [foldAct, h, mkNode]
  | cons x xs =>
    have := allAst_map (x0 :: x :: xs)
    simp only [List.map_cons] at this h
    simp [foldAct, h, mkNode, this]

theorem tail_loop (hg : IsPathGrammar g) {sub : PE} {op : Char} {ops ops' : List Char} {D : Nat}
    (hop : isWs op = false) (hopr : op ≠ chRParen) (hin : op ∈ ops)
    (hsub : ∀ o ∈ ops', o ∈ ops) (hne : ∀ o ∈ ops', op ≠ o) (hnw : ∀ o ∈ ops', isWs o = false) :
    ∀ items : List (PAst × List Char),
      (∀ it ∈ items, ItemOK g sub ops D it.1 it.2 ∧ StartsNoWs it.2) →
    ∀ rest cur, Fol ops' rest → Rem (joinTail op items ++ rest) cur →
    ∃ vs rest', Rem rest rest' ∧ tailFourth vs = some (items.map (fun it => V.ast it.1)) ∧
      StarOk g (20 * (joinTail op items).length + D + 8) (tailSeq op sub) cur (vs, rest') := by
  intro items
  induction items with
  | nil =>
    intro _ rest cur hf hr
    have hr' : Rem rest cur := hr
    obtain ⟨ws, cur', rfl, hws, hlen, hnws, _, hshape⟩ := Fol.split hnw hf hr'
    have hne' : HeadNe op cur' := by
      rcases hshape with h | ⟨r, h⟩ | ⟨o, r, h, ho⟩
      · subst h; trivial
      · subst h; exact hopr
      · subst h; exact hne o ho
    have f : RunFail g _ (tailSeq op sub) [] (ws ++ cur') :=
      fail_seq (seqFail_tail (ok_ws hg ws cur' hws hnws []) (seqFail_head (fail_lit1 hne')))
    exact ⟨[], ws ++ cur', hr', rfl, (starOk_nil f).mono (by simp only [joinTail, List.length_nil]; omega)⟩
  | cons it items ih =>
    intro hall rest cur hf hr
    obtain ⟨x, r⟩ := it
    obtain ⟨hitem, hstart⟩ := hall (x, r) (by simp)
    have hfol : Fol ops (joinTail op items ++ rest) := by
      cases items with
      | nil => exact Fol.mono hsub hf
      | cons it' items' => exact Or.inr ⟨rfl, op, _, rfl, hin⟩
    obtain ⟨rest1, hrem1, hrun⟩ := hitem [] (joinTail op items ++ rest) hfol
    obtain ⟨vs, rest', hrem', htf, hstar⟩ :=
      ih (fun it h => hall it (by simp [h])) rest rest1 hf hrem1
    have hcur : ∃ wsp : List Char, (∀ c ∈ wsp, isWs c = true) ∧ wsp.length ≤ 1 ∧
        cur = wsp ++ (op :: chSpace :: (r ++ (joinTail op items ++ rest))) := by
      rcases hr with h | h
      · refine ⟨[chSpace], ?_, by simp, ?_⟩
        · intro c hc
          simp only [List.mem_singleton] at hc
          subst hc; decide
        · rw [h]; simp [joinTail]
      · refine ⟨[], by simp, by simp, ?_⟩
        simp only [joinTail, List.cons_append, List.cons.injEq, true_and, List.append_assoc] at h
        rw [← h]; rfl
    obtain ⟨wsp, hwsp, hlen, rfl⟩ := hcur
    have w1 := ok_ws hg wsp (op :: chSpace :: (r ++ (joinTail op items ++ rest))) hwsp hop []
    have l := ok_lit1 (g := g) (c := op) (fr := []) (r := chSpace :: (r ++ (joinTail op items ++ rest)))
    have w2 := ok_ws hg [chSpace] (r ++ (joinTail op items ++ rest))
      (by intro c hc; simp only [List.mem_singleton] at hc; subst hc; decide) (hstart.headNot _) []
    have sq := ok_seq (seqOk_cons w1 (seqOk_cons l (seqOk_cons w2 (seqOk_cons hrun seqOk_nil))))
    refine ⟨_ :: vs, rest', hrem', ?_, (starOk_cons sq hstar).mono ?_⟩
    · simp [tailFourth, htf]
    · rw [joinTail_length_cons]
      simp only [List.length_cons, List.length_nil]
      omega

/-- the body of a list rule, run in the fresh frame of its rule -/
theorem ok_list_rule (hg : IsPathGrammar g) {A : String} {mk : List PAst → PAst} {sub : PE} {op : Char}
    {ops ops' : List Char} {D : Nat} {name : String}
    (hfind : g.find name = some (listRule A op sub))
    (hA : ∀ fr, act A fr = foldAct mk (fr.get "head") (fr.get "tail"))
    (hop : isWs op = false) (hopr : op ≠ chRParen) (hin : op ∈ ops)
    (hsub : ∀ o ∈ ops', o ∈ ops) (hne : ∀ o ∈ ops', op ≠ o) (hnw : ∀ o ∈ ops', isWs o = false)
    (x0 : PAst) (r0 : List Char) (h0 : ItemOK g sub ops D x0 r0)
    (items : List (PAst × List Char))
    (hall : ∀ it ∈ items, ItemOK g sub ops D it.1 it.2 ∧ StartsNoWs it.2) :
    ItemOK g (.ref name) ops' (D + 15) (mkNode mk x0 (items.map (·.1))) (r0 ++ joinTail op items) := by
  intro fr rest hf
  have hfol : Fol ops (joinTail op items ++ rest) := by
    cases items with
    | nil => exact Fol.mono hsub hf
    | cons it' items' => exact Or.inr ⟨rfl, op, _, rfl, hin⟩
  obtain ⟨rest0, hrem0, hrun0⟩ := h0 [] (joinTail op items ++ rest) hfol
  obtain ⟨vs, rest', hrem', htf, hstar⟩ :=
    tail_loop hg hop hopr hin hsub hne hnw items hall rest rest0 hf hrem0
  have a := ok_label (l := "head") (fr := []) hrun0
  have b := ok_label (l := "tail") (fr := [("head", V.ast x0)]) (ok_star (fr := []) hstar)
  have s := ok_seq (seqOk_cons a (seqOk_cons b seqOk_nil))
  have hact : act A [("tail", V.list vs), ("head", V.ast x0)]
      = some (.ast (mkNode mk x0 (items.map (·.1)))) := by
    rw [hA]
    have : tailFourth vs = some ((items.map (·.1)).map V.ast) := by
      rw [htf]; simp [List.map_map]
    simpa [Frame.get, List.lookup] using foldAct_ok mk x0 _ vs this
  refine ⟨rest', hrem', ?_⟩
  have r := ok_ref (fr := fr) hfind (ok_action s hact)
  rw [List.append_assoc]
  exact r.mono (by simp only [List.length_append]; omega)

end pathrules

/-! # Part 3: the path rules with arbitrary whitespace (for whitespace insensitivity)

Same development as Part 2, but a factor may be followed by any run of whitespace `w`, and the fuel
bound carries `|w|`. -/


def AllWs (w : List Char) : Prop := ∀ c ∈ w, isWs c = true

instance (w : List Char) : Decidable (AllWs w) :=
  inferInstanceAs (Decidable (∀ c ∈ w, isWs c = true))

theorem AllWs.nil : AllWs [] := by intro c hc; cases hc

theorem AllWs.headNotProp {w : List Char} (hw : AllWs w) {tl : List Char} (h : w = [] → HeadNot isProp tl) :
    HeadNot isProp (w ++ tl) := by
  cases w with
  | nil => exact h rfl
  | cons c w' => exact isWs_not_prop (hw c (by simp))

/-- after the whitespace: end of input, `)`, or one of the operators `ops` -/
def TlOK (ops : List Char) (tl : List Char) : Prop :=
  tl = [] ∨ (∃ r, tl = chRParen :: r) ∨ ∃ o r, tl = o :: r ∧ o ∈ ops

theorem TlOK.mono {ops ops' : List Char} (h : ∀ o ∈ ops', o ∈ ops) {tl} (ht : TlOK ops' tl) : TlOK ops tl := by
  rcases ht with ht | ht | ⟨o, r, ht, ho⟩
  · exact Or.inl ht
  · exact Or.inr (Or.inl ht)
  · exact Or.inr (Or.inr ⟨o, r, ht, h o ho⟩)

theorem TlOK.headNot {P : Char → Bool} {ops tl} (ht : TlOK ops tl) (hp : P chRParen = false)
    (ho : ∀ o ∈ ops, P o = false) : HeadNot P tl := by
  rcases ht with ht | ⟨r, ht⟩ | ⟨o, r, ht, hm⟩
  · subst ht; trivial
  · subst ht; exact hp
  · subst ht; exact ho o hm

/-- `sub` parses the text `r` to `x` when followed by whitespace `w` and then `tl`; it leaves `tl`
preceded by some (possibly shorter) whitespace -/
def ItemW (g : Grammar) (sub : PE) (ops : List Char) (D : Nat) (x : PAst) (r : List Char) : Prop :=
  ∀ fr w tl, AllWs w → TlOK ops tl → HeadNot isProp (w ++ tl) →
    ∃ w', AllWs w' ∧ w'.length ≤ w.length ∧
      RunOk g (20 * r.length + w.length + D) sub fr (r ++ (w ++ tl)) (.ast x, fr, w' ++ tl)

/-- one element of the tail of a list rule: `wa op wb r` -/
structure TItem where
  x : PAst
  wa : List Char
  wb : List Char
  r : List Char

def innerText (op : Char) : List TItem → List Char
  | [] => []
  | it :: items => it.wa ++ op :: (it.wb ++ (it.r ++ innerText op items))

/-- the whitespace at the front of the tail text followed by `w ++ tl` -/
def leadW (items : List TItem) (w : List Char) : List Char :=
  match items with
  | [] => w
  | it :: _ => it.wa

/-- the tail text followed by `w ++ tl`, minus `leadW` -/
def bodyW (op : Char) (items : List TItem) (w tl : List Char) : List Char :=
  match items with
  | [] => tl
  | it :: items' => op :: (it.wb ++ (it.r ++ (innerText op items' ++ (w ++ tl))))

theorem lead_body (op : Char) (items : List TItem) (w tl : List Char) :
    innerText op items ++ (w ++ tl) = leadW items w ++ bodyW op items w tl := by
  cases items with
  | nil => rfl
  | cons it items' => simp [innerText, leadW, bodyW]

theorem leadW_length (op : Char) (items : List TItem) (w : List Char) :
    (leadW items w).length ≤ (innerText op items).length + w.length := by
  cases items with
  | nil => simp [leadW]
  | cons it items' => simp [leadW, innerText]; omega

def TItemOK (g : Grammar) (sub : PE) (ops : List Char) (D : Nat) (op : Char) (it : TItem) : Prop :=
  ItemW g sub ops D it.x it.r ∧ StartsNoWs it.r ∧ AllWs it.wa ∧ AllWs it.wb ∧ (it.wa = [] → isProp op = false)

section pathrules
variable {g : Grammar}

theorem tail_loopW (hg : IsPathGrammar g) {sub : PE} {op : Char} {ops ops' : List Char} {D : Nat}
    (hop : isWs op = false) (hopr : op ≠ chRParen) (hin : op ∈ ops)
    (hsub : ∀ o ∈ ops', o ∈ ops) (hne : ∀ o ∈ ops', op ≠ o) (hnw : ∀ o ∈ ops', isWs o = false) :
    ∀ items : List TItem, (∀ it ∈ items, TItemOK g sub ops D op it) →
    ∀ w tl cw, AllWs w → TlOK ops' tl → HeadNot isProp (w ++ tl) → AllWs cw →
      cw.length ≤ (leadW items w).length →
    ∃ vs w', AllWs w' ∧ w'.length ≤ w.length ∧
      tailFourth vs = some (items.map (fun it => V.ast it.x)) ∧
      StarOk g (20 * (innerText op items).length + w.length + D + 8) (tailSeq op sub)
        (cw ++ bodyW op items w tl) (vs, w' ++ tl) := by
  intro items
  induction items with
  | nil =>
    intro _ w tl cw _ htl _ hcw hlen
    have hne' : HeadNe op tl := by
      rcases htl with h | ⟨r, h⟩ | ⟨o, r, h, ho⟩
      · subst h; trivial
      · subst h; exact hopr
      · subst h; exact hne o ho
    have hnws : HeadNot isWs tl := htl.headNot (by decide) hnw
    have f : RunFail g _ (tailSeq op sub) [] (cw ++ tl) :=
      fail_seq (seqFail_tail (ok_ws hg cw tl hcw hnws []) (seqFail_head (fail_lit1 hne')))
    refine ⟨[], cw, hcw, hlen, rfl, (starOk_nil f).mono ?_⟩
    simp only [leadW] at hlen
    simp only [innerText, List.length_nil]; omega
  | cons it items ih =>
    intro hall w tl cw hw htl hprop hcw hlen
    obtain ⟨hitem, hstart, hwa, hwb, hwap⟩ := hall it (by simp)
    have hall' : ∀ it' ∈ items, TItemOK g sub ops D op it' := fun it' h => hall it' (by simp [h])
    -- what follows the item
    have htl1 : TlOK ops (bodyW op items w tl) := by
      cases items with
      | nil => exact htl.mono hsub
      | cons it' items' => exact Or.inr (Or.inr ⟨op, _, rfl, hin⟩)
    have hlw : AllWs (leadW items w) := by
      cases items with
      | nil => exact hw
      | cons it' items' => exact (hall' it' (by simp)).2.2.1
    have hprop1 : HeadNot isProp (leadW items w ++ bodyW op items w tl) := by
      cases items with
      | nil => exact hprop
      | cons it' items' =>
        exact (hall' it' (by simp)).2.2.1.headNotProp (fun e => (hall' it' (by simp)).2.2.2.2 e)
    obtain ⟨w1, hw1, hw1len, hrun⟩ := hitem [] (leadW items w) (bodyW op items w tl) hlw htl1 hprop1
    obtain ⟨vs, w', hw', hw'len, htf, hstar⟩ := ih hall' w tl w1 hw htl hprop hw1 hw1len
    simp only [leadW] at hlen
    have e : bodyW op (it :: items) w tl
        = op :: (it.wb ++ (it.r ++ (leadW items w ++ bodyW op items w tl))) := by
      rw [← lead_body]; rfl
    rw [e]
    have a := ok_ws hg cw (op :: (it.wb ++ (it.r ++ (leadW items w ++ bodyW op items w tl)))) hcw hop []
    have l := ok_lit1 (g := g) (c := op) (fr := [])
      (r := it.wb ++ (it.r ++ (leadW items w ++ bodyW op items w tl)))
    have b := ok_ws hg it.wb (it.r ++ (leadW items w ++ bodyW op items w tl)) hwb (hstart.headNot _) []
    have sq := ok_seq (seqOk_cons a (seqOk_cons l (seqOk_cons b (seqOk_cons hrun seqOk_nil))))
    refine ⟨_ :: vs, w', hw', hw'len, ?_, (starOk_cons sq hstar).mono ?_⟩
    · simp [tailFourth, htf]
    · have := leadW_length op items w
      simp only [innerText, List.length_append, List.length_cons]
      omega

theorem ok_list_ruleW (hg : IsPathGrammar g) {A : String} {mk : List PAst → PAst} {sub : PE} {op : Char}
    {ops ops' : List Char} {D : Nat} {name : String}
    (hfind : g.find name = some (listRule A op sub))
    (hA : ∀ fr, act A fr = foldAct mk (fr.get "head") (fr.get "tail"))
    (hop : isWs op = false) (hopr : op ≠ chRParen) (hin : op ∈ ops)
    (hsub : ∀ o ∈ ops', o ∈ ops) (hne : ∀ o ∈ ops', op ≠ o) (hnw : ∀ o ∈ ops', isWs o = false)
    (x0 : PAst) (r0 : List Char) (h0 : ItemW g sub ops D x0 r0)
    (items : List TItem) (hall : ∀ it ∈ items, TItemOK g sub ops D op it) :
    ItemW g (.ref name) ops' (D + 15) (mkNode mk x0 (items.map (·.x))) (r0 ++ innerText op items) := by
  intro fr w tl hw htl hprop
  have htl1 : TlOK ops (bodyW op items w tl) := by
    cases items with
    | nil => exact htl.mono hsub
    | cons it' items' => exact Or.inr (Or.inr ⟨op, _, rfl, hin⟩)
  have hlw : AllWs (leadW items w) := by
    cases items with
    | nil => exact hw
    | cons it' items' => exact (hall it' (by simp)).2.2.1
  have hprop1 : HeadNot isProp (leadW items w ++ bodyW op items w tl) := by
    cases items with
    | nil => exact hprop
    | cons it' items' =>
      exact (hall it' (by simp)).2.2.1.headNotProp (fun e => (hall it' (by simp)).2.2.2.2 e)
  obtain ⟨w0, hw0, hw0len, hrun0⟩ := h0 [] (leadW items w) (bodyW op items w tl) hlw htl1 hprop1
  obtain ⟨vs, w', hw', hw'len, htf, hstar⟩ :=
    tail_loopW hg hop hopr hin hsub hne hnw items hall w tl w0 hw htl hprop hw0 hw0len
  have a := ok_label (l := "head") (fr := []) hrun0
  have b := ok_label (l := "tail") (fr := [("head", V.ast x0)]) (ok_star (fr := []) hstar)
  have s := ok_seq (seqOk_cons a (seqOk_cons b seqOk_nil))
  have hact : act A [("tail", V.list vs), ("head", V.ast x0)]
      = some (.ast (mkNode mk x0 (items.map (·.x)))) := by
    rw [hA]
    have : tailFourth vs = some ((items.map (·.x)).map V.ast) := by
      rw [htf]; simp [List.map_map]
    simpa [Frame.get, List.lookup] using foldAct_ok mk x0 _ vs this
  refine ⟨w', hw', hw'len, ?_⟩
  have r := ok_ref (fr := fr) hfind (ok_action s hact)
  rw [List.append_assoc, lead_body]
  have := leadW_length op items w
  exact r.mono (by simp only [List.length_append]; omega)

/-- `( w1 x w2 )` -/
theorem ok_factor_parenW (hg : IsPathGrammar g) {x w1 w2 w2' : List Char} {p : PAst} {E : Nat}
    (rest : List Char) (hx : StartsNoWs x) (hw1 : AllWs w1) (hw2' : AllWs w2')
    (hE : RunOk g E (.ref "Expression") [] (x ++ (w2 ++ chRParen :: rest)) (.ast p, [], w2' ++ chRParen :: rest))
    (fr : Frame) :
    RunOk g (max (max E (w1.length + 4)) (w2'.length + 4) + 9) (.ref "Factor") fr
      (chLParen :: (w1 ++ (x ++ (w2 ++ chRParen :: rest)))) (.ast p, fr, rest) := by
  have a := ok_lit1 (g := g) (c := chLParen) (fr := []) (r := w1 ++ (x ++ (w2 ++ chRParen :: rest)))
  have b := ok_ws hg w1 (x ++ (w2 ++ chRParen :: rest)) hw1 (hx.headNot _) []
  have c := ok_label (l := "expr") (fr := []) hE
  have d := ok_ws hg w2' (chRParen :: rest) hw2' (by show isWs chRParen = false; decide) [("expr", V.ast p)]
  have e := ok_lit1 (g := g) (c := chRParen) (fr := [("expr", V.ast p)]) (r := rest)
  have s := ok_seq (seqOk_cons a (seqOk_cons b (seqOk_cons c (seqOk_cons d (seqOk_cons e seqOk_nil)))))
  have f := ok_action (a := "Factor2") s (v' := V.ast p) (by rfl)
  exact (ok_ref (fr := fr) hg.factor (ok_choice (choiceOk_head f))).mono (by omega)

end pathrules

end Acv
