import Acv.Model.Message
/-! Helper lemmas for the message pipeline of C13 (`Acv.Props.C13Message`). -/
namespace Acv.Msg
open Acv

/-! ## `splitMessage` -/

theorem splitMessage_lengths : ∀ (fuel : Nat) (cur cs : List Char),
    (splitMessage fuel cur cs).1.length = (splitMessage fuel cur cs).2.length + 1
  | 0, cur, cs => by simp [splitMessage]
  | fuel + 1, cur, [] => by simp [splitMessage]
  | fuel + 1, cur, c :: cs => by
    rw [splitMessage]
    split
    · next v rest _ =>
      have ih := splitMessage_lengths fuel [] rest
      simp only [List.length_cons, ih]
    · exact splitMessage_lengths fuel (c :: cur) cs

/-- With enough fuel, a scan that meets no placeholder returns the whole text as its only segment. -/
theorem splitMessage_no_vars : ∀ (fuel : Nat) (cur cs : List Char), cs.length < fuel →
    (splitMessage fuel cur cs).2 = [] → (splitMessage fuel cur cs).1 = [cur.reverse ++ cs]
  | 0, _, _, h, _ => by omega
  | fuel + 1, cur, [], _, _ => by simp [splitMessage]
  | fuel + 1, cur, c :: cs, hlen, hv => by
    rw [splitMessage] at hv ⊢
    split
    · next v rest heq =>
      rw [heq] at hv
      simp at hv
    · next heq =>
      rw [heq] at hv
      have hlen' : cs.length < fuel := by simpa using hlen
      have := splitMessage_no_vars fuel (c :: cur) cs hlen' hv
      simpa using this

/-! ## The fuel of `parseMessage` is never the limiting factor -/

theorem length_dropWhile_le {α} (p : α → Bool) (l : List α) : (l.dropWhile p).length ≤ l.length :=
  (List.dropWhile_sublist p).length_le

theorem matchPlaceholder_shorter (cs v rest : List Char)
    (h : matchPlaceholder cs = some (v, rest)) : rest.length < cs.length := by
  unfold matchPlaceholder at h
  split at h
  · next r0 =>
    simp only at h
    split at h
    · exact absurd h (by simp)
    · split at h
      · next r3 heq2 =>
        split at h
        · exact absurd h (by simp)
        · split at h
          · next rest' heq4 =>
            simp only [Option.some.injEq, Prod.mk.injEq] at h
            have e := h.2
            subst e
            have l1 := length_dropWhile_le isSpace r0
            have l2 := length_dropWhile_le isWord (r0.dropWhile isSpace)
            have l3 := length_dropWhile_le isWord r3
            have l4 := length_dropWhile_le isSpace (r3.dropWhile isWord)
            rw [heq2] at l2
            rw [heq4] at l4
            simp only [List.length_cons] at l2 l4 ⊢
            omega
          · exact absurd h (by simp)
      · exact absurd h (by simp)
  · exact absurd h (by simp)

theorem splitMessage_fuel : ∀ (f1 f2 : Nat) (cur cs : List Char), cs.length < f1 → cs.length < f2 →
    splitMessage f1 cur cs = splitMessage f2 cur cs
  | 0, _, _, _, h, _ => by omega
  | _ + 1, 0, _, _, _, h => by omega
  | f1 + 1, f2 + 1, cur, [], _, _ => by simp [splitMessage]
  | f1 + 1, f2 + 1, cur, c :: cs, h1, h2 => by
    rw [splitMessage, splitMessage]
    split
    · next v rest heq =>
      have hs := matchPlaceholder_shorter _ _ _ heq
      have ih := splitMessage_fuel f1 f2 [] rest (by omega) (by omega)
      rw [ih]
    · exact splitMessage_fuel f1 f2 (c :: cur) cs (by simpa using h1) (by simpa using h2)

/-! ## `sanitize` commutes with the printf-escaping -/

theorem sanitize_cons (c : Char) (s : List Char) :
    sanitize (c :: s) = (if c = '"' then '\'' else c) :: sanitize s := rfl

theorem sanitize_append (s t : List Char) : sanitize (s ++ t) = sanitize s ++ sanitize t := by
  simp [sanitize]

theorem sanitize_escPct (s : List Char) : sanitize (escPct s) = escPct (sanitize s) := by
  induction s with
  | nil => rfl
  | cons c s ih =>
    by_cases hp : c = '%'
    · subst hp
      have h1 : ('%' : Char) ≠ '"' := by decide
      simp only [escPct, sanitize_cons, h1, if_false, if_true, ih]
    · by_cases hq : c = '"'
      · subst hq
        have h2 : ('\'' : Char) ≠ '%' := by decide
        simp only [escPct, sanitize_cons, hp, h2, if_false, if_true, ih]
      · simp only [escPct, sanitize_cons, hp, hq, if_false, ih]

theorem sanitize_fmtString : ∀ (segs : List (List Char)),
    sanitize (fmtString segs) = fmtString (segs.map sanitize)
  | [] => rfl
  | [s] => by simp only [fmtString, List.map, sanitize_escPct]
  | s :: s' :: t => by
    have ih := sanitize_fmtString (s' :: t)
    have hf : fmtString (s :: s' :: t) = escPct s ++ '%' :: 'v' :: fmtString (s' :: t) := rfl
    have hg : fmtString ((s :: s' :: t).map sanitize) =
        escPct (sanitize s) ++ '%' :: 'v' :: fmtString ((s' :: t).map sanitize) := rfl
    have h1 : ('%' : Char) ≠ '"' := by decide
    have h2 : ('v' : Char) ≠ '"' := by decide
    rw [hf, hg, sanitize_append, sanitize_escPct, sanitize_cons, sanitize_cons, ih]
    simp only [h1, h2, if_false]

end Acv.Msg
