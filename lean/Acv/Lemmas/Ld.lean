import Acv.Model.Ld
/-!
# Lemmas for C05 (normalisation is invariant under re-serialisation)

Everything is phrased through membership: `Den o S` says that the extraction `o` succeeded and
produced a list with the same elements as `S`.
-/
namespace Acv.Ld
open Acv

/-! ## Lists -/

theorem mem_dedup {α : Type} [DecidableEq α] {a : α} {l : List α} : a ∈ dedup l ↔ a ∈ l := by
  induction l with
  | nil => simp [dedup]
  | cons b l ih =>
    simp only [dedup, List.mem_cons, List.mem_filter, ih, decide_eq_true_eq]
    constructor
    · rintro (h | ⟨h, _⟩)
      · exact Or.inl h
      · exact Or.inr h
    · intro h
      by_cases hab : a = b
      · exact Or.inl hab
      · exact Or.inr ⟨h.resolve_left hab, hab⟩

theorem nodup_dedup {α : Type} [DecidableEq α] (l : List α) : (dedup l).Nodup := by
  induction l with
  | nil => simp [dedup]
  | cons b l ih =>
    simp only [dedup, List.nodup_cons, List.mem_filter, decide_eq_true_eq]
    refine ⟨fun h => h.2 rfl, ?_⟩
    exact List.Pairwise.sublist List.filter_sublist ih

theorem subset_iff {α : Type} [DecidableEq α] {a b : List α} :
    subset a b = true ↔ ∀ x, x ∈ a → x ∈ b := by
  simp [subset, List.all_eq_true]

theorem mem_iff_getD {α : Type} {l : List α} {x d : α} :
    x ∈ l ↔ ∃ i, i < l.length ∧ l.getD i d = x := by
  constructor
  · intro h
    obtain ⟨i, hi, hx⟩ := List.mem_iff_getElem.1 h
    exact ⟨i, hi, by simp [List.getD_eq_getElem?_getD, hi, hx]⟩
  · rintro ⟨i, hi, hx⟩
    rw [← hx]
    simp [List.getD_eq_getElem?_getD, hi]

theorem getD_mem {α : Type} {l : List α} {i : Nat} (d : α) (h : i < l.length) : l.getD i d ∈ l :=
  mem_iff_getD.2 ⟨i, h, rfl⟩


/-! ## `Den`: successful extraction with a given set of results -/

def Den (o : Option (List Triple)) (S : List Triple) : Prop :=
  ∃ ts, o = some ts ∧ ∀ t, t ∈ ts ↔ t ∈ S

theorem Den.of_eq {o : Option (List Triple)} {S : List Triple} (h : o = some S) : Den o S :=
  ⟨S, h, fun _ => Iff.rfl⟩

theorem Den.congr {o : Option (List Triple)} {S S' : List Triple} (h : Den o S)
    (hS : ∀ t, t ∈ S ↔ t ∈ S') : Den o S' := by
  obtain ⟨ts, e, m⟩ := h
  exact ⟨ts, e, fun t => (m t).trans (hS t)⟩

theorem Den.app2 {a b : Option (List Triple)} {A B : List Triple} (ha : Den a A) (hb : Den b B) :
    Den (app2 a b) (A ++ B) := by
  obtain ⟨x, rfl, mx⟩ := ha
  obtain ⟨y, rfl, my⟩ := hb
  exact ⟨x ++ y, rfl, fun t => by simp [mx, my]⟩

theorem Den.cons {o : Option (List Triple)} {S : List Triple} (t : Triple) (h : Den o S) :
    Den (o.map (t :: ·)) (t :: S) := by
  obtain ⟨x, rfl, mx⟩ := h
  exact ⟨t :: x, rfl, fun u => by simp [mx]⟩

theorem app2_nil_right {β : Type} (a : Option (List β)) : Ld.app2 a (some []) = a := by
  cases a <;> simp [Ld.app2]

/-! ## Absolute IRIs are not keywords -/

theorem absIri_ne_id {k : String} (h : absIri k = true) : k ≠ "@id" := by
  rintro rfl; revert h; decide
theorem absIri_ne_type {k : String} (h : absIri k = true) : k ≠ "@type" := by
  rintro rfl; revert h; decide
theorem absIri_ne_value {k : String} (h : absIri k = true) : k ≠ "@value" := by
  rintro rfl; revert h; decide
theorem absIri_ne_graph {k : String} (h : absIri k = true) : k ≠ "@graph" := by
  rintro rfl; revert h; decide

/-! ## The graph-level side conditions as propositions -/

def GOk (g : Graph) : Prop :=
  ∀ n ∈ g, absIri n.id = true ∧ (∀ c ∈ n.types, absIri c = true) ∧
    ∀ kv ∈ n.props, absIri kv.1 = true ∧ ∀ v ∈ kv.2, valOk v = true

theorem GOk_of_gOk {g : Graph} (h : gOk g = true) : GOk g := by
  intro n hn
  simp only [gOk, Bool.and_eq_true, List.all_eq_true] at h
  obtain ⟨⟨⟨h1, h2⟩, _⟩, h4⟩ := h.2 n hn
  exact ⟨h1, h2, fun kv hkv => h4 kv hkv⟩

theorem nodeAt_mem {g : Graph} {i : Nat} (h : i < g.length) : nodeAt g i ∈ g := getD_mem _ h
theorem propAt_mem {n : Node} {p : Nat} (h : p < n.props.length) : propAt n p ∈ n.props :=
  getD_mem _ h
theorem typeAt_mem {n : Node} {j : Nat} (h : j < n.types.length) : typeAt n j ∈ n.types :=
  getD_mem _ h
theorem valAt_mem {vs : List Val} {q : Nat} (h : q < vs.length) : valAt vs q ∈ vs := getD_mem _ h

/-! ## Rendering of values and classes -/

theorem valT_serVal (id k : String) (v : Val) (wrap : Bool) (hv : valOk v = true) :
    valT id k (serVal v wrap) = some [.val id k v] := by
  cases v with
  | str s => cases wrap <;> simp [serVal, valT, hasKey, scalar]
  | num i => cases wrap <;> simp [serVal, valT, hasKey, scalar]
  | bool b => cases wrap <;> simp [serVal, valT, hasKey, scalar]
  | ref r =>
    have hr : absIri r = true := hv
    simp [serVal, valT, hasKey, getId, hr, propsT, entryOf, isIdOf, Ld.app2]

theorem isNull_serVal (v : Val) (wrap : Bool) : isNull (serVal v wrap) = false := by
  cases v <;> cases wrap <;> simp [serVal, isNull]

theorem isNull_serVC (g : Graph) (vs : List Val) (c : VC) : isNull (serVC g vs c) = false := by
  cases c with
  | plain q w => simp [serVC, isNull_serVal]
  | embed q i items => simp [serVC, isNull]

theorem isNull_bareOr (g : Graph) (vs : List Val) (b : Bool) (cs : List VC) :
    isNull (bareOr b (serVCs g vs cs)) = false := by
  cases b with
  | false => simp [bareOr, isNull]
  | true =>
    match cs with
    | [] => simp [serVCs, bareOr, isNull]
    | [c] => simp [serVCs, bareOr, isNull_serVC]
    | _ :: _ :: _ => simp [serVCs, bareOr, isNull]

theorem valT_bareOr (id k : String) (b : Bool) (xs : List Js) :
    valT id k (bareOr b xs) = valsT id k xs := by
  cases b with
  | false => simp [bareOr, valT]
  | true =>
    match xs with
    | [] => simp [bareOr, valT]
    | [x] => simp [bareOr, valsT, app2_nil_right]
    | _ :: _ :: _ => simp [bareOr, valT]

theorem typeNames_map (cs : List String) (h : ∀ c ∈ cs, absIri c = true) :
    typeNames (cs.map Js.str) = some cs := by
  induction cs with
  | nil => simp [typeNames]
  | cons c cs ih =>
    have h1 : absIri c = true := h c (by simp)
    have h2 := ih (fun x hx => h x (by simp [hx]))
    simp [typeNames, h1, h2]

theorem typesT_bareOr (id : String) (b : Bool) (cs : List String) (hne : cs ≠ [])
    (h : ∀ c ∈ cs, absIri c = true) :
    typesT id (bareOr b (cs.map Js.str)) = some (cs.map (Triple.ty id)) := by
  match cs, hne, h with
  | [c], _, h =>
    have h1 : absIri c = true := h c (by simp)
    cases b <;> simp [bareOr, typesT, typeNames, h1]
  | c :: d :: cs, _, h =>
    have := typeNames_map (c :: d :: cs) h
    cases b <;> simp only [bareOr, List.map_cons, typesT] <;> simp only [← List.map_cons, this] <;> rfl


/-! ## Keys of a rendered node object -/

theorem serItem_key {g : Graph} {n : Node} (hn : n ∈ g) (hG : GOk g) (it : Item)
    (hok : okItem g n it = true) :
    (isIdItem it = true ∧ serItem g n it = ("@id", .str n.id)) ∨
    (isIdItem it = false ∧ ((serItem g n it).1 = "@type" ∨ absIri (serItem g n it).1 = true)) := by
  cases it with
  | id => left; simp [isIdItem, serItem]
  | types js b => right; simp [isIdItem, serItem]
  | prop p b vals =>
    right
    simp only [okItem, Bool.and_eq_true, decide_eq_true_eq] at hok
    refine ⟨rfl, Or.inr ?_⟩
    exact ((hG n hn).2.2 _ (propAt_mem hok.1)).1

theorem okItems_cons {g : Graph} {n : Node} {it : Item} {its : List Item} :
    okItems g n (it :: its) = true ↔ okItem g n it = true ∧ okItems g n its = true := by
  simp [okItems]

theorem hasKey_serItems {g : Graph} {n : Node} (hn : n ∈ g) (hG : GOk g) (k : String)
    (hk1 : k ≠ "@id") (hk2 : k ≠ "@type") (hk3 : absIri k = false) :
    ∀ items : List Item, okItems g n items = true → hasKey k (serItems g n items) = false := by
  intro items
  induction items with
  | nil => intro _; simp [serItems, hasKey]
  | cons it its ih =>
    intro hok
    obtain ⟨h1, h2⟩ := okItems_cons.1 hok
    have ih' := ih h2
    simp only [hasKey] at ih' ⊢
    simp only [serItems, List.any_cons, ih', Bool.or_false]
    rcases serItem_key hn hG it h1 with ⟨_, e⟩ | ⟨_, e | e⟩
    · rw [e]; simpa using fun h => hk1 h.symm
    · rw [e]; simpa using fun h => hk2 h.symm
    · have : (serItem g n it).1 ≠ k := by
        intro h; rw [h, hk3] at e; exact Bool.noConfusion e
      simpa using this

theorem getId_serItems {g : Graph} {n : Node} (hn : n ∈ g) (hG : GOk g) :
    ∀ items : List Item, okItems g n items = true → items.any isIdItem = true →
      getId (serItems g n items) = some n.id := by
  intro items
  induction items with
  | nil => intro _ h; simp at h
  | cons it its ih =>
    intro hok hany
    obtain ⟨h1, h2⟩ := okItems_cons.1 hok
    rcases serItem_key hn hG it h1 with ⟨_, e⟩ | ⟨hid, e⟩
    · simp [serItems, e, getId, (hG n hn).1]
    · have hany' : its.any isIdItem = true := by simpa [hid] using hany
      have hne : (serItem g n it).1 ≠ "@id" := by
        rcases e with e | e
        · rw [e]; decide
        · exact absIri_ne_id e
      have : getId (serItems g n (it :: its)) = getId (serItems g n its) := by
        simp only [serItems]
        generalize serItem g n it = kv at hne
        obtain ⟨k, v⟩ := kv
        simp only [getId]
        simp at hne
        simp [hne]
      rw [this]; exact ih h2 hany'

theorem any_of_length_one {l : List Item} (h : ((l.filter isIdItem).length == 1) = true) :
    l.any isIdItem = true := by
  have h' : (l.filter isIdItem).length = 1 := by simpa using h
  match hf : l.filter isIdItem, h' with
  | [x], _ =>
    have hx : x ∈ l.filter isIdItem := by simp [hf]
    rw [List.mem_filter] at hx
    exact List.any_eq_true.2 ⟨x, hx.1, hx.2⟩

theorem entryOf_id (id : String) (v : Js) (r : Option (List Triple)) :
    entryOf id "@id" v r = isIdOf id v := by simp [entryOf]
theorem entryOf_type (id : String) (v : Js) (r : Option (List Triple)) :
    entryOf id "@type" v r = typesT id v := by
  unfold entryOf; rw [if_neg (by decide), if_pos rfl]
theorem entryOf_prop (id k : String) (v : Js) (r : Option (List Triple)) (hk : absIri k = true)
    (hv : isNull v = false) : entryOf id k v r = r.map (Triple.key id k :: ·) := by
  unfold entryOf
  rw [if_neg (absIri_ne_id hk), if_neg (absIri_ne_type hk), if_pos hk, hv]; rfl

theorem propsT_cons (id : String) (kv : String × Js) (rest : List (String × Js)) :
    propsT id (kv :: rest) = Ld.app2 (entryOf id kv.1 kv.2 (valT id kv.1 kv.2)) (propsT id rest) := by
  cases kv; simp [propsT]

/-! ## The statements of a rendered plan are the denotations of the facts it mentions -/

/-- the statement of the graph a fact index stands for -/
def den (g : Graph) : Fact → Triple
  | .ty i j => .ty (nodeAt g i).id (typeAt (nodeAt g i) j)
  | .key i p => .key (nodeAt g i).id (propAt (nodeAt g i) p).1
  | .val i p q => .val (nodeAt g i).id (propAt (nodeAt g i) p).1 (valAt (propAt (nodeAt g i) p).2 q)

mutual
theorem den_VC (g : Graph) (hG : GOk g) (i p : Nat) (hi : i < g.length)
    (hp : p < (nodeAt g i).props.length) :
    ∀ c : VC, okVC g (propAt (nodeAt g i) p).2 c = true →
      Den (valT (nodeAt g i).id (propAt (nodeAt g i) p).1 (serVC g (propAt (nodeAt g i) p).2 c))
        ((covVC i p c).map (den g))
  | .plain q wrap, hok => by
    simp only [okVC, decide_eq_true_eq] at hok
    have hv : valOk (valAt (propAt (nodeAt g i) p).2 q) = true :=
      ((hG _ (nodeAt_mem hi)).2.2 _ (propAt_mem hp)).2 _ (valAt_mem hok)
    apply Den.of_eq
    simp [serVC, covVC, den, valT_serVal _ _ _ _ hv]
  | .embed q i' items, hok => by
    simp only [okVC, Bool.and_eq_true, decide_eq_true_eq] at hok
    obtain ⟨⟨⟨⟨⟨hq, hi'⟩, href⟩, hits⟩, hone⟩, _⟩ := hok
    have hn' := nodeAt_mem hi'
    have h1 : hasKey "@value" (serItems g (nodeAt g i') items) = false :=
      hasKey_serItems hn' hG "@value" (by decide) (by decide) (by decide) items hits
    have h2 := getId_serItems hn' hG items hits (any_of_length_one hone)
    have ih := den_Items g hG i' hi' items hits
    have := Den.cons (.val (nodeAt g i).id (propAt (nodeAt g i) p).1 (.ref (nodeAt g i').id)) ih
    simp only [serVC, valT, h1, h2, covVC, List.map_cons, den, href]
    exact this
theorem den_VCs (g : Graph) (hG : GOk g) (i p : Nat) (hi : i < g.length)
    (hp : p < (nodeAt g i).props.length) :
    ∀ cs : List VC, okVCs g (propAt (nodeAt g i) p).2 cs = true →
      Den (valsT (nodeAt g i).id (propAt (nodeAt g i) p).1 (serVCs g (propAt (nodeAt g i) p).2 cs))
        ((covVCs i p cs).map (den g))
  | [], _ => by apply Den.of_eq; simp [serVCs, valsT, covVCs]
  | c :: cs, hok => by
    simp only [okVCs, Bool.and_eq_true] at hok
    have h1 := den_VC g hG i p hi hp c hok.1
    have h2 := den_VCs g hG i p hi hp cs hok.2
    simp only [serVCs, valsT, covVCs, List.map_append]
    exact Den.app2 h1 h2
theorem den_Item (g : Graph) (hG : GOk g) (i : Nat) (hi : i < g.length) :
    ∀ it : Item, okItem g (nodeAt g i) it = true →
      Den (entryOf (nodeAt g i).id (serItem g (nodeAt g i) it).1 (serItem g (nodeAt g i) it).2
            (valT (nodeAt g i).id (serItem g (nodeAt g i) it).1 (serItem g (nodeAt g i) it).2))
        ((covItem i it).map (den g))
  | .id, _ => by apply Den.of_eq; simp [serItem, entryOf, isIdOf, covItem]
  | .types js b, hok => by
    simp only [okItem, Bool.and_eq_true, List.all_eq_true, decide_eq_true_eq] at hok
    apply Den.of_eq
    have hne : js.map (typeAt (nodeAt g i)) ≠ [] := by
      intro h; have := hok.1; simp at h; simp [h] at this
    have hall : ∀ c ∈ js.map (typeAt (nodeAt g i)), absIri c = true := by
      intro c hc
      obtain ⟨j, hj, rfl⟩ := List.mem_map.1 hc
      exact (hG _ (nodeAt_mem hi)).2.1 _ (typeAt_mem (hok.2 j hj))
    have := typesT_bareOr (nodeAt g i).id b _ hne hall
    simp only [List.map_map] at this
    show entryOf (nodeAt g i).id "@type" (bareOr b (js.map fun j => .str (typeAt (nodeAt g i) j))) _ = _
    rw [entryOf_type]
    simp only [covItem, List.map_map]
    exact this
  | .prop p b vals, hok => by
    simp only [okItem, Bool.and_eq_true, decide_eq_true_eq] at hok
    have hk : absIri (propAt (nodeAt g i) p).1 = true :=
      ((hG _ (nodeAt_mem hi)).2.2 _ (propAt_mem hok.1)).1
    have ih := den_VCs g hG i p hi hok.1 vals hok.2
    have := Den.cons (.key (nodeAt g i).id (propAt (nodeAt g i) p).1) ih
    show Den (entryOf (nodeAt g i).id (propAt (nodeAt g i) p).1
      (bareOr b (serVCs g (propAt (nodeAt g i) p).2 vals))
      (valT (nodeAt g i).id (propAt (nodeAt g i) p).1
        (bareOr b (serVCs g (propAt (nodeAt g i) p).2 vals)))) _
    rw [entryOf_prop _ _ _ _ hk (isNull_bareOr _ _ _ _), valT_bareOr]
    simp only [covItem, List.map_cons, den]
    exact this
theorem den_Items (g : Graph) (hG : GOk g) (i : Nat) (hi : i < g.length) :
    ∀ items : List Item, okItems g (nodeAt g i) items = true →
      Den (propsT (nodeAt g i).id (serItems g (nodeAt g i) items)) ((covItems i items).map (den g))
  | [], _ => by apply Den.of_eq; simp [serItems, propsT, covItems]
  | it :: its, hok => by
    obtain ⟨h1, h2⟩ := okItems_cons.1 hok
    have a := den_Item g hG i hi it h1
    have b := den_Items g hG i hi its h2
    simp only [serItems, propsT_cons, covItems, List.map_append]
    exact Den.app2 a b
end

/-! ## Top level -/

theorem den_occ (g : Graph) (hG : GOk g) (o : Occ) (hok : okOcc g o = true) :
    Den (nodeT (serOcc g o)) ((covItems o.node o.items).map (den g)) := by
  simp only [okOcc, Bool.and_eq_true, decide_eq_true_eq] at hok
  obtain ⟨⟨⟨hi, hits⟩, hone⟩, _⟩ := hok
  have h2 := getId_serItems (nodeAt_mem hi) hG o.items hits (any_of_length_one hone)
  simp only [serOcc, nodeT, h2]
  exact den_Items g hG o.node hi o.items hits

theorem hasKey_graph_occ (g : Graph) (hG : GOk g) (o : Occ) (hok : okOcc g o = true) :
    hasKey "@graph" (serItems g (nodeAt g o.node) o.items) = false := by
  simp only [okOcc, Bool.and_eq_true, decide_eq_true_eq] at hok
  exact hasKey_serItems (nodeAt_mem hok.1.1.1) hG "@graph" (by decide) (by decide) (by decide)
    o.items hok.1.1.2

theorem den_top (g : Graph) (hG : GOk g) :
    ∀ os : List Occ, (∀ o ∈ os, okOcc g o = true) →
      Den (collect nodeT (os.map (serOcc g)))
        ((os.flatMap fun o => covItems o.node o.items).map (den g)) := by
  intro os
  induction os with
  | nil => intro _; apply Den.of_eq; simp [collect]
  | cons o os ih =>
    intro h
    have a := den_occ g hG o (h o (by simp))
    have b := ih (fun x hx => h x (by simp [hx]))
    simp only [List.map_cons, collect, List.flatMap_cons, List.map_append]
    exact Den.app2 a b

/-- the statements extracted from a well-formed serialisation are the denotations of the facts the
plan mentions -/
theorem den_ser (g : Graph) (c : Choice) (h : WF g c = true) :
    Den (triples (ser g c)) ((cov c).map (den g)) := by
  simp only [WF, Bool.and_eq_true, List.all_eq_true] at h
  obtain ⟨⟨⟨⟨hg, hocc⟩, _⟩, _⟩, hform⟩ := h
  have hG := GOk_of_gOk hg
  have htop := den_top g hG c.top hocc
  obtain ⟨top, form⟩ := c
  cases form with
  | array => simpa [ser, triples, cov] using htop
  | graph => simpa [ser, triples, cov, hasKey] using htop
  | single =>
    have hlen : top.length = 1 := by simpa using hform
    match top, hlen, hocc, htop with
    | [o], _, hocc, _ =>
      have ho := hocc o (by simp)
      have a := den_occ g hG o ho
      have hk := hasKey_graph_occ g hG o ho
      simp only [ser, List.map_cons, List.map_nil, cov, List.flatMap_cons, List.flatMap_nil,
        List.append_nil]
      simp only [serOcc, triples, hk] at a ⊢
      exact a

/-! ## The facts of the graph denote its statements -/

theorem mem_nodeFacts {n : Node} {t : Triple} :
    t ∈ nodeFacts n ↔ (∃ c ∈ n.types, t = .ty n.id c) ∨
      ∃ kv ∈ n.props, t = .key n.id kv.1 ∨ ∃ v ∈ kv.2, t = .val n.id kv.1 v := by
  simp only [nodeFacts, List.mem_append, List.mem_map, List.mem_flatMap, List.mem_cons]
  constructor
  · rintro (⟨c, hc, rfl⟩ | ⟨kv, hkv, (rfl | ⟨v, hv, rfl⟩)⟩)
    · exact Or.inl ⟨c, hc, rfl⟩
    · exact Or.inr ⟨kv, hkv, Or.inl rfl⟩
    · exact Or.inr ⟨kv, hkv, Or.inr ⟨v, hv, rfl⟩⟩
  · rintro (⟨c, hc, rfl⟩ | ⟨kv, hkv, (rfl | ⟨v, hv, rfl⟩)⟩)
    · exact Or.inl ⟨c, hc, rfl⟩
    · exact Or.inr ⟨kv, hkv, Or.inl rfl⟩
    · exact Or.inr ⟨kv, hkv, Or.inr ⟨v, hv, rfl⟩⟩

theorem mem_gTriples {g : Graph} {t : Triple} : t ∈ gTriples g ↔ ∃ n ∈ g, t ∈ nodeFacts n := by
  simp [gTriples, List.mem_flatMap]

theorem mem_allFacts {g : Graph} {f : Fact} :
    f ∈ allFacts g ↔ ∃ i, i < g.length ∧
      ((∃ j, j < (nodeAt g i).types.length ∧ f = .ty i j) ∨
       ∃ p, p < (nodeAt g i).props.length ∧
         (f = .key i p ∨ ∃ q, q < (propAt (nodeAt g i) p).2.length ∧ f = .val i p q)) := by
  simp only [allFacts, List.mem_flatMap, List.mem_range, List.mem_append, List.mem_map,
    List.mem_cons]
  constructor
  · rintro ⟨i, hi, (⟨j, hj, rfl⟩ | ⟨p, hp, (rfl | ⟨q, hq, rfl⟩)⟩)⟩
    · exact ⟨i, hi, Or.inl ⟨j, hj, rfl⟩⟩
    · exact ⟨i, hi, Or.inr ⟨p, hp, Or.inl rfl⟩⟩
    · exact ⟨i, hi, Or.inr ⟨p, hp, Or.inr ⟨q, hq, rfl⟩⟩⟩
  · rintro ⟨i, hi, (⟨j, hj, rfl⟩ | ⟨p, hp, (rfl | ⟨q, hq, rfl⟩)⟩)⟩
    · exact ⟨i, hi, Or.inl ⟨j, hj, rfl⟩⟩
    · exact ⟨i, hi, Or.inr ⟨p, hp, Or.inl rfl⟩⟩
    · exact ⟨i, hi, Or.inr ⟨p, hp, Or.inr ⟨q, hq, rfl⟩⟩⟩

theorem den_allFacts (g : Graph) (t : Triple) :
    t ∈ (allFacts g).map (den g) ↔ t ∈ gTriples g := by
  rw [List.mem_map, mem_gTriples]
  constructor
  · rintro ⟨f, hf, rfl⟩
    obtain ⟨i, hi, h⟩ := mem_allFacts.1 hf
    refine ⟨nodeAt g i, nodeAt_mem hi, mem_nodeFacts.2 ?_⟩
    rcases h with ⟨j, hj, rfl⟩ | ⟨p, hp, (rfl | ⟨q, hq, rfl⟩)⟩
    · exact Or.inl ⟨_, typeAt_mem hj, rfl⟩
    · exact Or.inr ⟨_, propAt_mem hp, Or.inl rfl⟩
    · exact Or.inr ⟨_, propAt_mem hp, Or.inr ⟨_, valAt_mem hq, rfl⟩⟩
  · rintro ⟨n, hn, ht⟩
    obtain ⟨i, hi, rfl⟩ := (mem_iff_getD (d := default)).1 hn
    rcases mem_nodeFacts.1 ht with ⟨c, hc, rfl⟩ | ⟨kv, hkv, h⟩
    · obtain ⟨j, hj, rfl⟩ := (mem_iff_getD (d := "")).1 hc
      exact ⟨.ty i j, mem_allFacts.2 ⟨i, hi, Or.inl ⟨j, hj, rfl⟩⟩, rfl⟩
    · obtain ⟨p, hp, rfl⟩ := (mem_iff_getD (d := default)).1 hkv
      rcases h with rfl | ⟨v, hv, rfl⟩
      · exact ⟨.key i p, mem_allFacts.2 ⟨i, hi, Or.inr ⟨p, hp, Or.inl rfl⟩⟩, rfl⟩
      · obtain ⟨q, hq, rfl⟩ := (mem_iff_getD (d := default)).1 hv
        exact ⟨.val i p q, mem_allFacts.2 ⟨i, hi, Or.inr ⟨p, hp, Or.inr ⟨q, hq, rfl⟩⟩⟩, rfl⟩

/-- **Statements of a serialisation = statements of the graph.** -/
theorem triples_ser (g : Graph) (c : Choice) (h : WF g c = true) :
    Den (triples (ser g c)) (gTriples g) := by
  refine (den_ser g c h).congr fun t => ?_
  simp only [WF, Bool.and_eq_true] at h
  have h1 := subset_iff.1 h.1.1.2
  have h2 := subset_iff.1 h.1.2
  rw [← den_allFacts]
  simp only [List.mem_map]
  constructor
  · rintro ⟨f, hf, rfl⟩; exact ⟨f, h2 f hf, rfl⟩
  · rintro ⟨f, hf, rfl⟩; exact ⟨f, h1 f hf, rfl⟩

/-! ## Grouping by subject -/

theorem mem_typesOfT {s c : String} {ts : List Triple} :
    c ∈ typesOfT s ts ↔ Triple.ty s c ∈ ts := by
  simp only [typesOfT, List.mem_filterMap]
  constructor
  · rintro ⟨t, ht, h⟩
    cases t with
    | ty s' c' =>
      by_cases e : s' = s
      · simp [e] at h; subst e; subst h; exact ht
      · simp [e] at h
    | key _ _ => simp at h
    | val _ _ _ => simp at h
  · intro h; exact ⟨_, h, by simp⟩

theorem mem_keysOfT {s k : String} {ts : List Triple} :
    k ∈ keysOfT s ts ↔ Triple.key s k ∈ ts := by
  simp only [keysOfT, List.mem_filterMap]
  constructor
  · rintro ⟨t, ht, h⟩
    cases t with
    | key s' k' =>
      by_cases e : s' = s
      · simp [e] at h; subst e; subst h; exact ht
      · simp [e] at h
    | ty _ _ => simp at h
    | val _ _ _ => simp at h
  · intro h; exact ⟨_, h, by simp⟩

theorem mem_valsOfT {s k : String} {v : Val} {ts : List Triple} :
    v ∈ valsOfT s k ts ↔ Triple.val s k v ∈ ts := by
  simp only [valsOfT, List.mem_filterMap]
  constructor
  · rintro ⟨t, ht, h⟩
    cases t with
    | val s' k' v' =>
      by_cases e : s' = s ∧ k' = k
      · simp [e] at h; obtain ⟨e1, e2⟩ := e; subst e1; subst e2; subst h; exact ht
      · simp [e] at h
    | ty _ _ => simp at h
    | key _ _ => simp at h
  · intro h; exact ⟨_, h, by simp⟩

theorem subj_of_mem_nodeFacts {n : Node} {t : Triple} (h : t ∈ nodeFacts n) : t.subj = n.id := by
  rcases mem_nodeFacts.1 h with ⟨c, _, rfl⟩ | ⟨kv, _, (rfl | ⟨v, _, rfl⟩)⟩ <;> rfl

theorem mem_facts {ix : Index} {t : Triple} : t ∈ ix.facts ↔ ∃ n ∈ ix.nodes, t ∈ nodeFacts n := by
  simp [Index.facts, List.mem_flatMap]

theorem mem_ids {ix : Index} {s : String} : s ∈ ix.ids ↔ ∃ n ∈ ix.nodes, n.id = s := by
  simp [Index.ids]

theorem mem_group_ids {ts : List Triple} {s : String} :
    s ∈ (group ts).ids ↔ ∃ t ∈ ts, t.subj = s := by
  simp only [mem_ids, group, List.mem_map, mem_dedup]
  constructor
  · rintro ⟨n, ⟨s', ⟨t, ht, rfl⟩, rfl⟩, rfl⟩; exact ⟨t, ht, rfl⟩
  · rintro ⟨t, ht, rfl⟩; exact ⟨_, ⟨_, ⟨t, ht, rfl⟩, rfl⟩, rfl⟩

theorem mem_nodeFacts_groupNode {ts : List Triple} {s : String} {t : Triple} :
    t ∈ nodeFacts (groupNode ts s) ↔
      t.subj = s ∧ t ∈ ts ∧ ∀ k v, t = .val s k v → Triple.key s k ∈ ts := by
  rw [mem_nodeFacts]
  simp only [groupNode, mem_dedup, mem_typesOfT, List.mem_map, mem_keysOfT]
  constructor
  · rintro (⟨c, hc, rfl⟩ | ⟨kv, ⟨k, hk, rfl⟩, (rfl | ⟨v, hv, rfl⟩)⟩)
    · exact ⟨rfl, hc, fun _ _ h => Triple.noConfusion h⟩
    · exact ⟨rfl, hk, fun _ _ h => Triple.noConfusion h⟩
    · refine ⟨rfl, mem_valsOfT.1 (mem_dedup.1 hv), fun k' v' h => ?_⟩
      injection h with _ h2 _; subst h2; exact hk
  · rintro ⟨hs, ht, hclosed⟩
    cases t with
    | ty s' c => cases hs; exact Or.inl ⟨c, ht, rfl⟩
    | key s' k => cases hs; exact Or.inr ⟨_, ⟨k, ht, rfl⟩, Or.inl rfl⟩
    | val s' k v =>
      cases hs
      exact Or.inr ⟨_, ⟨k, hclosed k v rfl, rfl⟩, Or.inr ⟨v, mem_dedup.2 (mem_valsOfT.2 ht), rfl⟩⟩

theorem mem_group_facts {ts : List Triple} {t : Triple} :
    t ∈ (group ts).facts ↔ t ∈ ts ∧ ∀ s k v, t = .val s k v → Triple.key s k ∈ ts := by
  simp only [mem_facts, group, List.mem_map, mem_dedup]
  constructor
  · rintro ⟨n, ⟨s, _, rfl⟩, h⟩
    obtain ⟨hs, ht, hc⟩ := mem_nodeFacts_groupNode.1 h
    refine ⟨(List.mem_filter.1 ht).1, fun s' k v e => ?_⟩
    have : s' = s := by rw [e] at hs; exact hs
    subst this; exact (List.mem_filter.1 (hc k v e)).1
  · rintro ⟨ht, hc⟩
    refine ⟨_, ⟨t.subj, ⟨t, ht, rfl⟩, rfl⟩, mem_nodeFacts_groupNode.2 ⟨rfl, ?_, fun k v e => ?_⟩⟩
    · exact List.mem_filter.2 ⟨ht, by simp⟩
    · exact List.mem_filter.2 ⟨hc _ k v e, by simp [Triple.subj]⟩

/-! ## The canonical index of a graph -/

theorem mem_nodeFacts_canonNode {n : Node} {t : Triple} :
    t ∈ nodeFacts (canonNode n) ↔ t ∈ nodeFacts n := by
  simp only [mem_nodeFacts, canonNode, mem_dedup, List.mem_map]
  constructor
  · rintro (h | ⟨kv, ⟨kv', hkv', rfl⟩, (rfl | ⟨v, hv, rfl⟩)⟩)
    · exact Or.inl h
    · exact Or.inr ⟨kv', hkv', Or.inl rfl⟩
    · exact Or.inr ⟨kv', hkv', Or.inr ⟨v, mem_dedup.1 hv, rfl⟩⟩
  · rintro (h | ⟨kv, hkv, (rfl | ⟨v, hv, rfl⟩)⟩)
    · exact Or.inl h
    · exact Or.inr ⟨_, ⟨kv, hkv, rfl⟩, Or.inl rfl⟩
    · exact Or.inr ⟨_, ⟨kv, hkv, rfl⟩, Or.inr ⟨v, mem_dedup.2 hv, rfl⟩⟩

theorem hasContent_iff {n : Node} : hasContent n = true ↔ ∃ t, t ∈ nodeFacts n := by
  constructor
  · intro h
    match ht : n.types, hp : n.props with
    | c :: _, _ => exact ⟨.ty n.id c, mem_nodeFacts.2 (Or.inl ⟨c, by simp [ht], rfl⟩)⟩
    | [], kv :: _ => exact ⟨.key n.id kv.1, mem_nodeFacts.2 (Or.inr ⟨kv, by simp [hp], Or.inl rfl⟩)⟩
    | [], [] => simp [hasContent, ht, hp] at h
  · rintro ⟨t, ht⟩
    rcases mem_nodeFacts.1 ht with ⟨c, hc, _⟩ | ⟨kv, hkv, _⟩
    · cases hn : n.types with
      | nil => simp [hn] at hc
      | cons _ _ => simp [hasContent, hn]
    · cases hn : n.props with
      | nil => simp [hn] at hkv
      | cons _ _ => simp [hasContent, hn]

theorem mem_canon_facts {g : Graph} {t : Triple} : t ∈ (canonIndex g).facts ↔ t ∈ gTriples g := by
  simp only [mem_facts, canonIndex, List.mem_map, List.mem_filter, mem_gTriples]
  constructor
  · rintro ⟨_, ⟨n, ⟨hn, _⟩, rfl⟩, h⟩; exact ⟨n, hn, mem_nodeFacts_canonNode.1 h⟩
  · rintro ⟨n, hn, h⟩
    exact ⟨_, ⟨n, ⟨hn, hasContent_iff.2 ⟨t, h⟩⟩, rfl⟩, mem_nodeFacts_canonNode.2 h⟩

theorem mem_canon_ids {g : Graph} {s : String} :
    s ∈ (canonIndex g).ids ↔ ∃ t ∈ gTriples g, t.subj = s := by
  simp only [mem_ids, canonIndex, List.mem_map, List.mem_filter]
  constructor
  · rintro ⟨_, ⟨n, ⟨hn, hc⟩, rfl⟩, rfl⟩
    obtain ⟨t, ht⟩ := hasContent_iff.1 hc
    exact ⟨t, mem_gTriples.2 ⟨n, hn, ht⟩, subj_of_mem_nodeFacts (mem_nodeFacts_canonNode.2 ht)⟩
  · rintro ⟨t, ht, rfl⟩
    obtain ⟨n, hn, h⟩ := mem_gTriples.1 ht
    exact ⟨_, ⟨n, ⟨hn, hasContent_iff.2 ⟨t, h⟩⟩, rfl⟩, (subj_of_mem_nodeFacts h).symm⟩

theorem gTriples_closed {g : Graph} {s k : String} {v : Val} (h : Triple.val s k v ∈ gTriples g) :
    Triple.key s k ∈ gTriples g := by
  obtain ⟨n, hn, ht⟩ := mem_gTriples.1 h
  refine mem_gTriples.2 ⟨n, hn, mem_nodeFacts.2 ?_⟩
  rcases mem_nodeFacts.1 ht with ⟨c, _, e⟩ | ⟨kv, hkv, (e | ⟨v', _, e⟩)⟩
  · exact Triple.noConfusion e
  · exact Triple.noConfusion e
  · injection e with e1 e2 _; subst e1; subst e2
    exact Or.inr ⟨kv, hkv, Or.inl rfl⟩

/-! ## Equivalence of indexes -/

theorem equiv_iff_facts {a b : Index} :
    a.equiv b = true ↔ (∀ s, s ∈ a.ids ↔ s ∈ b.ids) ∧ (∀ t, t ∈ a.facts ↔ t ∈ b.facts) := by
  simp only [Index.equiv, Bool.and_eq_true, subset_iff]
  constructor
  · rintro ⟨⟨⟨h1, h2⟩, h3⟩, h4⟩
    exact ⟨fun s => ⟨h1 s, h2 s⟩, fun t => ⟨h3 t, h4 t⟩⟩
  · rintro ⟨h1, h2⟩
    exact ⟨⟨⟨fun s => (h1 s).1, fun s => (h1 s).2⟩, fun t => (h2 t).1⟩, fun t => (h2 t).2⟩

theorem equiv_refl (a : Index) : a.equiv a = true :=
  equiv_iff_facts.2 ⟨fun _ => Iff.rfl, fun _ => Iff.rfl⟩

theorem equiv_symm {a b : Index} (h : a.equiv b = true) : b.equiv a = true := by
  obtain ⟨h1, h2⟩ := equiv_iff_facts.1 h
  exact equiv_iff_facts.2 ⟨fun s => (h1 s).symm, fun t => (h2 t).symm⟩

theorem equiv_trans {a b c : Index} (h : a.equiv b = true) (h' : b.equiv c = true) :
    a.equiv c = true := by
  obtain ⟨h1, h2⟩ := equiv_iff_facts.1 h
  obtain ⟨h3, h4⟩ := equiv_iff_facts.1 h'
  exact equiv_iff_facts.2 ⟨fun s => (h1 s).trans (h3 s), fun t => (h2 t).trans (h4 t)⟩

/-- grouping a list of statements with the same elements as the graph's gives the canonical index -/
theorem group_equiv_canon {g : Graph} {ts : List Triple} (h : ∀ t, t ∈ ts ↔ t ∈ gTriples g) :
    (group ts).equiv (canonIndex g) = true := by
  refine equiv_iff_facts.2 ⟨fun s => ?_, fun t => ?_⟩
  · rw [mem_group_ids, mem_canon_ids]
    constructor
    · rintro ⟨t, ht, e⟩; exact ⟨t, (h t).1 ht, e⟩
    · rintro ⟨t, ht, e⟩; exact ⟨t, (h t).2 ht, e⟩
  · rw [mem_group_facts, mem_canon_facts]
    constructor
    · rintro ⟨ht, _⟩; exact (h t).1 ht
    · intro ht
      refine ⟨(h t).2 ht, fun s k v e => ?_⟩
      subst e
      exact (h _).2 (gTriples_closed ht)

/-! ## Reading an index: classes, keys, values -/

theorem ty_mem_nodeFacts {n : Node} {s c : String} :
    Triple.ty s c ∈ nodeFacts n ↔ n.id = s ∧ c ∈ n.types := by
  rw [mem_nodeFacts]
  constructor
  · rintro (⟨c', hc, e⟩ | ⟨kv, _, (e | ⟨v, _, e⟩)⟩)
    · injection e with e1 e2; subst e1; subst e2; exact ⟨rfl, hc⟩
    · exact Triple.noConfusion e
    · exact Triple.noConfusion e
  · rintro ⟨rfl, hc⟩; exact Or.inl ⟨c, hc, rfl⟩

theorem key_mem_nodeFacts {n : Node} {s k : String} :
    Triple.key s k ∈ nodeFacts n ↔ n.id = s ∧ ∃ kv ∈ n.props, kv.1 = k := by
  rw [mem_nodeFacts]
  constructor
  · rintro (⟨c', _, e⟩ | ⟨kv, hkv, (e | ⟨v, _, e⟩)⟩)
    · exact Triple.noConfusion e
    · injection e with e1 e2; subst e1; subst e2; exact ⟨rfl, kv, hkv, rfl⟩
    · exact Triple.noConfusion e
  · rintro ⟨rfl, kv, hkv, rfl⟩; exact Or.inr ⟨kv, hkv, Or.inl rfl⟩

theorem val_mem_nodeFacts {n : Node} {s k : String} {v : Val} :
    Triple.val s k v ∈ nodeFacts n ↔ n.id = s ∧ ∃ kv ∈ n.props, kv.1 = k ∧ v ∈ kv.2 := by
  rw [mem_nodeFacts]
  constructor
  · rintro (⟨c', _, e⟩ | ⟨kv, hkv, (e | ⟨v', hv, e⟩)⟩)
    · exact Triple.noConfusion e
    · exact Triple.noConfusion e
    · injection e with e1 e2 e3; subst e1; subst e2; subst e3; exact ⟨rfl, kv, hkv, rfl, hv⟩
  · rintro ⟨rfl, kv, hkv, rfl, hv⟩; exact Or.inr ⟨kv, hkv, Or.inr ⟨v, hv, rfl⟩⟩

theorem mem_targets {ix : Index} {cls id : String} :
    id ∈ ix.targets cls ↔ Triple.ty id cls ∈ ix.facts := by
  simp only [Index.targets, List.mem_map, List.mem_filter, List.contains_iff_mem, mem_facts,
    ty_mem_nodeFacts]
  constructor
  · rintro ⟨n, ⟨hn, hc⟩, rfl⟩; exact ⟨n, hn, rfl, hc⟩
  · rintro ⟨n, hn, rfl, hc⟩; exact ⟨n, ⟨hn, hc⟩, rfl⟩

theorem mem_typesOf {ix : Index} {id c : String} :
    c ∈ ix.typesOf id ↔ Triple.ty id c ∈ ix.facts := by
  simp only [Index.typesOf, List.mem_flatMap, List.mem_filter, decide_eq_true_eq, mem_facts,
    ty_mem_nodeFacts]
  constructor
  · rintro ⟨n, ⟨hn, rfl⟩, hc⟩; exact ⟨n, hn, rfl, hc⟩
  · rintro ⟨n, hn, rfl, hc⟩; exact ⟨n, ⟨hn, rfl⟩, hc⟩

theorem mem_keysOf {ix : Index} {id k : String} :
    k ∈ ix.keysOf id ↔ Triple.key id k ∈ ix.facts := by
  simp only [Index.keysOf, List.mem_flatMap, List.mem_filter, decide_eq_true_eq, mem_facts,
    key_mem_nodeFacts, List.mem_map]
  constructor
  · rintro ⟨n, ⟨hn, rfl⟩, kv, hkv, rfl⟩; exact ⟨n, hn, rfl, kv, hkv, rfl⟩
  · rintro ⟨n, hn, rfl, kv, hkv, rfl⟩; exact ⟨n, ⟨hn, rfl⟩, kv, hkv, rfl⟩

theorem mem_valsOf {ix : Index} {id k : String} {v : Val} :
    v ∈ ix.valsOf id k ↔ Triple.val id k v ∈ ix.facts := by
  simp only [Index.valsOf, List.mem_flatMap, List.mem_filter, decide_eq_true_eq, mem_facts,
    val_mem_nodeFacts]
  constructor
  · rintro ⟨n, ⟨hn, rfl⟩, kv, ⟨hkv, rfl⟩, hv⟩; exact ⟨n, hn, rfl, kv, hkv, rfl, hv⟩
  · rintro ⟨n, hn, rfl, kv, hkv, rfl, hv⟩; exact ⟨n, ⟨hn, rfl⟩, kv, ⟨hkv, rfl⟩, hv⟩

/-- the `@types` index lists class `c` iff some node has it, and then with exactly `targets c` -/
theorem mem_types {ix : Index} {c : String} {l : List String} :
    (c, l) ∈ ix.types ↔ l = ix.targets c ∧ ∃ id, id ∈ ix.targets c := by
  simp only [Index.types, List.mem_map, mem_dedup, List.mem_flatMap, Prod.mk.injEq]
  constructor
  · rintro ⟨c', ⟨n, hn, hc⟩, rfl, rfl⟩
    exact ⟨rfl, n.id, mem_targets.2 (mem_facts.2 ⟨n, hn, ty_mem_nodeFacts.2 ⟨rfl, hc⟩⟩)⟩
  · rintro ⟨rfl, id, hid⟩
    obtain ⟨n, hn, h⟩ := mem_facts.1 (mem_targets.1 hid)
    exact ⟨c, ⟨n, hn, (ty_mem_nodeFacts.1 h).2⟩, rfl, rfl⟩

/-! ## A genuine index (one entry per id, one list per key) and `find` / `get` -/

theorem map_eq_self {α : Type} {f : α → α} (h : ∀ x, f x = x) (l : List α) : l.map f = l := by
  induction l with
  | nil => rfl
  | cons a l ih => simp [h a, ih]

theorem group_wellFormed (ts : List Triple) : (group ts).wellFormed = true := by
  simp only [Index.wellFormed, Bool.and_eq_true, decide_eq_true_eq, List.all_eq_true]
  constructor
  · have : (group ts).ids = dedup (ts.map Triple.subj) := by
      simp only [Index.ids, group, List.map_map]
      exact map_eq_self (fun _ => rfl) _
    rw [this]; exact nodup_dedup _
  · intro n hn
    simp only [group, List.mem_map] at hn
    obtain ⟨s, _, rfl⟩ := hn
    generalize ts.filter (fun t => decide (t.subj = s)) = ts'
    have : (groupNode ts' s).props.map (·.1) = dedup (keysOfT s ts') := by
      simp only [groupNode, List.map_map]
      exact map_eq_self (fun _ => rfl) _
    rw [this]; exact nodup_dedup _

theorem find?_of_nodup {α β : Type} [DecidableEq β] (f : α → β) :
    ∀ l : List α, (l.map f).Nodup → ∀ x ∈ l, l.find? (fun y => decide (f y = f x)) = some x := by
  intro l
  induction l with
  | nil => intro _ x hx; simp at hx
  | cons y l ih =>
    intro hnd x hx
    simp only [List.map_cons, List.nodup_cons] at hnd
    rcases List.mem_cons.1 hx with rfl | hx'
    · simp
    · have hne : f y ≠ f x := by
        intro e; exact hnd.1 (e ▸ List.mem_map.2 ⟨x, hx', rfl⟩)
      simp only [List.find?_cons, hne, decide_false]
      exact ih hnd.2 x hx'

theorem find_iff {ix : Index} (hwf : ix.wellFormed = true) (id : String) (n : Node) :
    Graph.find ix.nodes id = some n ↔ n ∈ ix.nodes ∧ n.id = id := by
  simp only [Index.wellFormed, Bool.and_eq_true, decide_eq_true_eq] at hwf
  constructor
  · intro h
    exact ⟨List.mem_of_find?_eq_some h, by simpa using List.find?_some h⟩
  · rintro ⟨hn, rfl⟩
    exact find?_of_nodup (fun m : Node => m.id) ix.nodes hwf.1 n hn

theorem get_iff {n : Node} (hnd : (n.props.map (·.1)).Nodup) (k : String) (hk : k ≠ "@type")
    (v : Val) : v ∈ n.get k ↔ ∃ kv ∈ n.props, kv.1 = k ∧ v ∈ kv.2 := by
  simp only [Node.get, if_neg hk]
  constructor
  · intro h
    cases hf : n.props.find? (fun p => decide (p.1 = k)) with
    | none => simp [hf] at h
    | some p =>
      simp only [hf] at h
      exact ⟨p, List.mem_of_find?_eq_some hf, by simpa using List.find?_some hf, h⟩
  · rintro ⟨kv, hkv, rfl, hv⟩
    have := find?_of_nodup (fun p : String × List Val => p.1) n.props hnd kv hkv
    simp only [this]; exact hv

/-! ## The plain serialisation of a graph of the fragment is well formed -/

theorem mem_covVCs {i p : Nat} {f : Fact} :
    ∀ {cs : List VC}, f ∈ covVCs i p cs ↔ ∃ c ∈ cs, f ∈ covVC i p c := by
  intro cs
  induction cs with
  | nil => simp [covVCs]
  | cons c cs ih => simp [covVCs, ih]

theorem mem_covItems {i : Nat} {f : Fact} :
    ∀ {items : List Item}, f ∈ covItems i items ↔ ∃ it ∈ items, f ∈ covItem i it := by
  intro items
  induction items with
  | nil => simp [covItems]
  | cons it its ih => simp [covItems, ih]

theorem okVCs_iff {g : Graph} {vs : List Val} :
    ∀ {cs : List VC}, okVCs g vs cs = true ↔ ∀ c ∈ cs, okVC g vs c = true := by
  intro cs
  induction cs with
  | nil => simp [okVCs]
  | cons c cs ih => simp [okVCs, ih]

theorem okItems_iff {g : Graph} {n : Node} :
    ∀ {items : List Item}, okItems g n items = true ↔ ∀ it ∈ items, okItem g n it = true := by
  intro items
  induction items with
  | nil => simp [okItems]
  | cons it its ih => simp [okItems, ih]

theorem serItems_keys (g : Graph) (n : Node) (items : List Item) :
    (serItems g n items).map (·.1) = items.map (fun it => (serItem g n it).1) := by
  induction items with
  | nil => simp [serItems]
  | cons it its ih => simp [serItems, ih]

theorem map_range_getD {α β : Type} (l : List α) (d : α) (f : α → β) :
    (List.range l.length).map (fun i => f (l.getD i d)) = l.map f := by
  apply List.ext_getElem
  · simp
  · intro i h1 h2
    have h : i < l.length := by simpa using h2
    simp [List.getD_eq_getElem?_getD, h]

/-- the `@type` entry of the full rendering of a node -/
def tyItems (n : Node) : List Item :=
  if n.types.isEmpty then [] else [Item.types (List.range n.types.length) false]

/-- the property entries of the full rendering of a node -/
def propItems (n : Node) : List Item :=
  (List.range n.props.length).map fun p =>
    Item.prop p false ((List.range (propAt n p).2.length).map fun q => VC.plain q false)

theorem fullItems_eq (n : Node) : fullItems n = Item.id :: (tyItems n ++ propItems n) := rfl

theorem mem_cov_fullItems {i : Nat} {n : Node} {f : Fact} :
    f ∈ covItems i (fullItems n) ↔
      ((∃ j, j < n.types.length ∧ f = .ty i j) ∨
       ∃ p, p < n.props.length ∧
         (f = .key i p ∨ ∃ q, q < (propAt n p).2.length ∧ f = .val i p q)) := by
  rw [mem_covItems, fullItems_eq]
  constructor
  · rintro ⟨it, hit, hf⟩
    rcases List.mem_cons.1 hit with rfl | hit
    · simp [covItem] at hf
    rcases List.mem_append.1 hit with hit | hit
    · unfold tyItems at hit
      split at hit
      · simp at hit
      · simp only [List.mem_singleton] at hit
        subst hit
        simp only [covItem, List.mem_map, List.mem_range] at hf
        obtain ⟨j, hj, rfl⟩ := hf
        exact Or.inl ⟨j, hj, rfl⟩
    · simp only [propItems, List.mem_map, List.mem_range] at hit
      obtain ⟨p, hp, rfl⟩ := hit
      simp only [covItem, List.mem_cons, mem_covVCs, List.mem_map, List.mem_range] at hf
      rcases hf with rfl | ⟨c, ⟨q, hq, rfl⟩, hf⟩
      · exact Or.inr ⟨p, hp, Or.inl rfl⟩
      · simp only [covVC, List.mem_singleton] at hf
        exact Or.inr ⟨p, hp, Or.inr ⟨q, hq, hf⟩⟩
  · rintro (⟨j, hj, rfl⟩ | ⟨p, hp, h⟩)
    · refine ⟨Item.types (List.range n.types.length) false, ?_, ?_⟩
      · have hne : n.types.isEmpty = false := by
          cases ht : n.types with
          | nil => simp [ht] at hj
          | cons _ _ => rfl
        simp [tyItems, hne]
      · simp only [covItem, List.mem_map, List.mem_range]; exact ⟨j, hj, rfl⟩
    · refine ⟨Item.prop p false ((List.range (propAt n p).2.length).map fun q => VC.plain q false),
        ?_, ?_⟩
      · apply List.mem_cons_of_mem; apply List.mem_append_right
        simp only [propItems, List.mem_map, List.mem_range]; exact ⟨p, hp, rfl⟩
      · simp only [covItem, List.mem_cons, mem_covVCs, List.mem_map, List.mem_range]
        rcases h with rfl | ⟨q, hq, rfl⟩
        · exact Or.inl rfl
        · exact Or.inr ⟨_, ⟨q, hq, rfl⟩, by simp [covVC]⟩

theorem mem_cov_plainOf {g : Graph} {f : Fact} : f ∈ cov (Choice.plainOf g) ↔ f ∈ allFacts g := by
  rw [mem_allFacts]
  simp only [cov, Choice.plainOf, List.mem_flatMap, List.mem_map, List.mem_range]
  constructor
  · rintro ⟨o, ⟨i, hi, rfl⟩, hf⟩; exact ⟨i, hi, mem_cov_fullItems.1 hf⟩
  · rintro ⟨i, hi, h⟩; exact ⟨_, ⟨i, hi, rfl⟩, mem_cov_fullItems.2 h⟩

theorem okItems_fullItems (g : Graph) (n : Node) : okItems g n (fullItems n) = true := by
  rw [okItems_iff, fullItems_eq]
  intro it hit
  rcases List.mem_cons.1 hit with rfl | hit
  · rfl
  rcases List.mem_append.1 hit with hit | hit
  · unfold tyItems at hit
    split at hit
    · simp at hit
    · rename_i hne
      simp only [List.mem_singleton] at hit
      subst hit
      simp only [okItem, Bool.and_eq_true, List.all_eq_true, List.mem_range, decide_eq_true_eq]
      refine ⟨?_, fun j hj => hj⟩
      cases ht : n.types with
      | nil => simp [ht] at hne
      | cons _ _ => simp
  · simp only [propItems, List.mem_map, List.mem_range] at hit
    obtain ⟨p, hp, rfl⟩ := hit
    simp only [okItem, Bool.and_eq_true, decide_eq_true_eq, okVCs_iff, List.mem_map, List.mem_range]
    refine ⟨hp, ?_⟩
    rintro c ⟨q, hq, rfl⟩
    simp [okVC, hq]

theorem idItems_fullItems (n : Node) : (((fullItems n).filter isIdItem).length == 1) = true := by
  have : (tyItems n ++ propItems n).filter isIdItem = [] := by
    rw [List.filter_eq_nil_iff]
    intro it hit
    rcases List.mem_append.1 hit with hit | hit
    · unfold tyItems at hit
      split at hit
      · simp at hit
      · simp only [List.mem_singleton] at hit; subst hit; simp [isIdItem]
    · simp only [propItems, List.mem_map] at hit
      obtain ⟨p, _, rfl⟩ := hit; simp [isIdItem]
  have e : (fullItems n).filter isIdItem = [Item.id] := by
    rw [fullItems_eq, List.filter_cons_of_pos (by rfl), this]
  rw [e]; rfl

theorem keys_fullItems (g : Graph) (n : Node) :
    (serItems g n (fullItems n)).map (·.1) =
      "@id" :: ((if n.types.isEmpty then [] else ["@type"]) ++ n.props.map (·.1)) := by
  rw [serItems_keys, fullItems_eq]
  simp only [List.map_cons, List.map_append, serItem]
  congr 2
  · unfold tyItems; split <;> simp [serItem]
  · simp only [propItems, List.map_map]
    exact map_range_getD n.props default (·.1)

theorem distinct_fullItems (g : Graph) (n : Node) (hk : ∀ kv ∈ n.props, absIri kv.1 = true)
    (hnd : (n.props.map (·.1)).Nodup) :
    distinct ((serItems g n (fullItems n)).map (·.1)) = true := by
  rw [keys_fullItems]
  simp only [distinct, decide_eq_true_eq, List.nodup_cons, List.mem_append, List.mem_map]
  have hid : ∀ kv ∈ n.props, kv.1 ≠ "@id" := fun kv h => absIri_ne_id (hk kv h)
  have hty : ∀ kv ∈ n.props, kv.1 ≠ "@type" := fun kv h => absIri_ne_type (hk kv h)
  constructor
  · rintro (h | ⟨kv, hkv, e⟩)
    · split at h
      · simp at h
      · simp at h
    · exact hid kv hkv e
  · split
    · simpa using hnd
    · simp only [List.cons_append, List.nil_append, List.nodup_cons, List.mem_map]
      exact ⟨fun ⟨kv, hkv, e⟩ => hty kv hkv e, hnd⟩

/-- **Every graph of the fragment has a well-formed (flat) serialisation**, so the hypotheses of
the invariance theorems are satisfiable for every such graph. -/
theorem WF_plainOf {g : Graph} (h : gOk g = true) : WF g (Choice.plainOf g) = true := by
  have hG := GOk_of_gOk h
  have hg := h
  simp only [gOk, distinct, Bool.and_eq_true, decide_eq_true_eq, List.all_eq_true] at hg
  simp only [WF, Bool.and_eq_true, h, true_and, subset_iff, List.all_eq_true]
  refine ⟨⟨⟨?_, fun f hf => mem_cov_plainOf.2 hf⟩, fun f hf => mem_cov_plainOf.1 hf⟩, by
    simp [Choice.plainOf]⟩
  intro o ho
  simp only [Choice.plainOf, List.mem_map, List.mem_range] at ho
  obtain ⟨i, hi, rfl⟩ := ho
  have hn := nodeAt_mem hi
  simp only [okOcc, Bool.and_eq_true, decide_eq_true_eq]
  exact ⟨⟨⟨hi, okItems_fullItems g _⟩, idItems_fullItems _⟩,
    distinct_fullItems g _ (fun kv hkv => ((hG _ hn).2.2 kv hkv).1) (hg.2 _ hn).1.2⟩

theorem flat_plainOf (g : Graph) : (Choice.plainOf g).flat = true := by
  simp only [Choice.flat, Choice.plainOf, List.all_eq_true, List.mem_map, List.mem_range]
  rintro o ⟨i, _, rfl⟩ it hit
  rw [fullItems_eq] at hit
  rcases List.mem_cons.1 hit with rfl | hit
  · rfl
  rcases List.mem_append.1 hit with hit | hit
  · unfold tyItems at hit
    split at hit
    · simp at hit
    · simp only [List.mem_singleton] at hit; subst hit; rfl
  · simp only [propItems, List.mem_map] at hit
    obtain ⟨p, _, rfl⟩ := hit
    simp [Item.isFlat, VC.isPlain]

end Acv.Ld
