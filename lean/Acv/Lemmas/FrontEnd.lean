import Acv.Model.FrontEnd
import Acv.Lemmas.ProfileParser
import Acv.Lemmas.Compile
/-!
# Lemmas about the front-end (`Acv.Model.FrontEnd`)

* equation lemmas of `toRule` / `sat` (stated by hand and proved by `rfl`: the automatically generated ones
  time out on the nested matches);
* `toRule_negate_aux`: `toRule` commutes with `Negate()` on trees without negated connectives;
* `toRule_sound`: the tables only grow, and over every extension of the final tables the abstract rule means
  what `sat` says of the parsed tree;
* `toRule_proper`, `toRule_classTbl`: the hypotheses of `compile_correct` read off the parsed tree.
-/
namespace Acv.FE
open Acv Acv.PP Dnf

/-! ## Equation lemmas -/
section Eqns
variable (ctx : Ctx) (g : Graph)
theorem toRule_atom (neg v p a t) : toRule ctx (.atom neg v p a) t =
    match atomAt ctx p a with
    | some atm => some (.atom neg t.atoms.length, { t with atoms := t.atoms ++ [atm] })
    | none => none := by rfl
theorem toRule_and (neg body t) : toRule ctx (.and neg body) t =
    match toRuleL ctx body t with
    | some (b, t') => some (if neg then Dnf.negate (.and b) else .and b, t')
    | none => none := by rfl
theorem toRule_or (neg body t) : toRule ctx (.or neg body) t =
    match toRuleL ctx body t with
    | some (b, t') => some (if neg then Dnf.negate (.or b) else .or b, t')
    | none => none := by rfl
theorem toRule_cond (neg body t) : toRule ctx (.cond neg body) t =
    match toRuleL ctx body t with
    | some ([i, th], t') => some (.cond neg i th, t')
    | some ([i, th, e], t') => some (.condE neg i th e, t')
    | _ => none := by rfl
theorem toRule_nested (neg parent child path value t) : toRule ctx (.nested neg parent child path value) t =
    match pathOf ctx path, quantOf child with
    | some p, some q =>
      match toRule ctx value { t with paths := t.paths ++ [p] } with
      | some (r, t') => some (.nested neg t.paths.length q r, t')
      | none => none
    | _, _ => none := by rfl
theorem toRule_top (a b c d e f g h t) : toRule ctx (.top a b c d e f g h) t = none := by rfl
theorem toRuleL_nil (t) : toRuleL ctx [] t = some ([], t) := by rfl
theorem toRuleL_cons (r rs t) : toRuleL ctx (r :: rs) t = 
    match toRule ctx r t with
    | some (r', t1) =>
      match toRuleL ctx rs t1 with
      | some (rs', t2) => some (r' :: rs', t2)
      | none => none
    | none => none := by rfl

theorem sat_atom (neg v path a n) : sat ctx g (.atom neg v path a) n =
    match atomAt ctx path a with
    | some atm => xor neg (atomHolds g atm n)
    | none => false := by rfl
theorem sat_and (neg body n) : sat ctx g (.and neg body) n = xor neg (satAll ctx g body n) := by rfl
theorem sat_or (neg body n) : sat ctx g (.or neg body) n = xor neg (satAny ctx g body n) := by rfl
theorem sat_cond2 (neg i t n) : sat ctx g (.cond neg [i, t]) n = xor neg (!sat ctx g i n || sat ctx g t n) := by rfl
theorem sat_cond3 (neg i t e n) : sat ctx g (.cond neg [i, t, e]) n =
    xor neg ((!sat ctx g i n || sat ctx g t n) && (sat ctx g i n || sat ctx g e n)) := by rfl
theorem sat_nested (neg parent child path value n) : sat ctx g (.nested neg parent child path value) n =
    match pathOf ctx path, quantOf child with
    | some p, some .all => xor neg ((reached g p n).all (fun c => sat ctx g value c))
    | some p, some (.card op k) => xor neg (op.eval ((reached g p n).countP (fun c => sat ctx g value c)) k)
    | _, _ => false := by rfl
theorem sat_top (a b c d neg f g' value n) : sat ctx g (.top a b c d neg f g' value) n = xor neg (sat ctx g value n) := by rfl
theorem satAll_nil (n) : satAll ctx g [] n = true := by rfl
theorem satAll_cons (r rs n) : satAll ctx g (r :: rs) n = (sat ctx g r n && satAll ctx g rs n) := by rfl
theorem satAny_nil (n) : satAny ctx g [] n = false := by rfl
theorem satAny_cons (r rs n) : satAny ctx g (r :: rs) n = (sat ctx g r n || satAny ctx g rs n) := by rfl
end Eqns

/-! ## Negation -/

mutual
theorem negate_negate : ∀ r : Rule, negate (negate r) = r
  | .atom n a => by simp [negate]
  | .and b => by simp [negate, negateL_negateL b]
  | .or b => by simp [negate, negateL_negateL b]
  | .cond _ _ _ => by simp [negate]
  | .condE _ _ _ _ => by simp [negate]
  | .nested _ _ _ _ => by simp [negate]
theorem negateL_negateL : ∀ b : List Rule, negateL (negateL b) = b
  | [] => rfl
  | r :: rs => by simp [negateL, negate_negate r, negateL_negateL rs]
end

/-- apply `Dnf.negate` to the rule of a translation result -/
def negRes (x : Option (Rule × Tables)) : Option (Rule × Tables) := x.map (fun p => (negate p.1, p.2))

def negResL (x : Option (List Rule × Tables)) : Option (List Rule × Tables) := x.map (fun p => (negateL p.1, p.2))

mutual
theorem toRule_negate_aux (ctx : Ctx) : ∀ (r : PRule), r.noNegConn = true → ∀ t,
    toRule ctx r.negate t = negRes (toRule ctx r t)
  | .atom neg var path a, _, t => by
    simp only [PRule.negate, toRule_atom, negRes]
    cases atomAt ctx path a <;> simp [negate]
  | .and neg body, h, t => by
    simp only [PRule.noNegConn, Bool.and_eq_true, Bool.not_eq_eq_eq_not, Bool.not_true] at h
    simp only [PRule.negate, toRule_and, toRule_or, toRuleL_negate_aux ctx body h.2 t, h.1, negRes, negResL]
    cases toRuleL ctx body t <;> simp [negate]
  | .or neg body, h, t => by
    simp only [PRule.noNegConn, Bool.and_eq_true, Bool.not_eq_eq_eq_not, Bool.not_true] at h
    simp only [PRule.negate, toRule_and, toRule_or, toRuleL_negate_aux ctx body h.2 t, h.1, negRes, negResL]
    cases toRuleL ctx body t <;> simp [negate]
  | .cond neg body, _, t => by
    simp only [PRule.negate, toRule_cond, negRes]
    split <;> simp_all [negate]
  | .nested neg parent child path value, _, t => by
    simp only [PRule.negate, toRule_nested, negRes]
    cases pathOf ctx path <;> cases quantOf child <;> simp
    split <;> simp [negate]
  | .top .., _, t => by simp [PRule.negate, toRule_top, negRes]
theorem toRuleL_negate_aux (ctx : Ctx) : ∀ (rs : List PRule), allNoNegConn rs = true → ∀ t,
    toRuleL ctx (negateList rs) t = negResL (toRuleL ctx rs t)
  | [], _, t => by simp [negateList, toRuleL_nil, negResL, negateL]
  | r :: rs, h, t => by
    simp only [allNoNegConn, Bool.and_eq_true] at h
    simp only [negateList, toRuleL_cons, toRule_negate_aux ctx r h.1 t, negRes, negResL]
    cases toRule ctx r t with
    | none => simp
    | some p =>
      simp only [Option.map_some, toRuleL_negate_aux ctx rs h.2 p.2, negResL]
      cases toRuleL ctx rs p.2 <;> simp [negateL]
end


/-! ## Tables only grow; meaning over every extension -/

/-- `t'` extends `t`: both tables of `t` are prefixes of those of `t'` -/
def Tables.le (t t' : Tables) : Prop := t.atoms <+: t'.atoms ∧ t.paths <+: t'.paths

theorem Tables.le_refl (t : Tables) : t.le t := ⟨List.prefix_refl _, List.prefix_refl _⟩

theorem Tables.le_trans {a b c : Tables} (h₁ : a.le b) (h₂ : b.le c) : a.le c :=
  ⟨h₁.1.trans h₂.1, h₁.2.trans h₂.2⟩

theorem getElem?_of_snoc_prefix {α : Type} {l T : List α} {a : α} (h : l ++ [a] <+: T) :
    T[l.length]? = some a := by
  obtain ⟨s, rfl⟩ := h
  simp

theorem map_eq_pair {α β : Type} {f : α → β} {l : List α} {x y : β} (h : [x, y] = l.map f) :
    ∃ a b, l = [a, b] ∧ x = f a ∧ y = f b := by
  match l, h with
  | [a, b], h => simp at h; exact ⟨a, b, rfl, h.1, h.2⟩
  | [], h => simp at h
  | [_], h => simp at h
  | _ :: _ :: _ :: _, h => simp at h

theorem map_eq_triple {α β : Type} {f : α → β} {l : List α} {x y z : β} (h : [x, y, z] = l.map f) :
    ∃ a b c, l = [a, b, c] ∧ x = f a ∧ y = f b ∧ z = f c := by
  match l, h with
  | [a, b, c], h => simp at h; exact ⟨a, b, c, rfl, h.1, h.2.1, h.2.2⟩
  | [], h => simp at h
  | [_], h => simp at h
  | [_, _], h => simp at h
  | _ :: _ :: _ :: _ :: _, h => simp at h

theorem allL_eq_map {N : Type} (env : Env N) (n : N) : ∀ b : List Rule,
    allL env b n = (b.map (fun r => holds env r n)).all id
  | [] => rfl
  | r :: rs => by simp [allL, allL_eq_map env n rs]

theorem anyL_eq_map {N : Type} (env : Env N) (n : N) : ∀ b : List Rule,
    anyL env b n = (b.map (fun r => holds env r n)).any id
  | [] => rfl
  | r :: rs => by simp [anyL, anyL_eq_map env n rs]

theorem satAll_eq_map (ctx : Ctx) (g : Graph) (n : Node) : ∀ b : List PRule,
    satAll ctx g b n = (b.map (fun r => sat ctx g r n)).all id
  | [] => rfl
  | r :: rs => by simp [satAll_cons, satAll_eq_map ctx g n rs]

theorem satAny_eq_map (ctx : Ctx) (g : Graph) (n : Node) : ∀ b : List PRule,
    satAny ctx g b n = (b.map (fun r => sat ctx g r n)).any id
  | [] => rfl
  | r :: rs => by simp [satAny_cons, satAny_eq_map ctx g n rs]

theorem envOf_fail (g : Graph) (T : Tables) (neg : Bool) (i : Nat) (n : Node) (a : Acv.Atom)
    (h : T.atoms[i]? = some a) : (envOf g T).fail neg i n = a.fails g neg n := by
  simp [envOf, graphEnv, h]

theorem envOf_kids (g : Graph) (T : Tables) (i : Nat) (n : Node) (p : Path)
    (h : T.paths[i]? = some p) : (envOf g T).kids i n = reached g p n := by
  simp [envOf, graphEnv, h, reached]

mutual
theorem toRule_sound (ctx : Ctx) (g : Graph) : ∀ (r : PRule) (t t' : Tables) (r' : Rule),
    toRule ctx r t = some (r', t') →
    t.le t' ∧ ∀ T, t'.le T → ∀ n, holds (envOf g T) r' n = sat ctx g r n
  | .atom neg var path a, t, t', r', h => by
    simp only [toRule_atom] at h
    cases ha : atomAt ctx path a with
    | none => simp [ha] at h
    | some atm =>
      simp only [ha, Option.some.injEq, Prod.mk.injEq] at h
      obtain ⟨rfl, rfl⟩ := h
      refine ⟨⟨List.prefix_append _ _, List.prefix_refl _⟩, ?_⟩
      intro T hT n
      have hi : T.atoms[t.atoms.length]? = some atm := getElem?_of_snoc_prefix hT.1
      simp only [holds, envOf_fail g T false _ n atm hi, sat_atom, ha, atomHolds]
  | .and neg body, t, t', r', h => by
    simp only [toRule_and] at h
    cases hb : toRuleL ctx body t with
    | none => simp [hb] at h
    | some p =>
      obtain ⟨b, t1⟩ := p
      simp only [hb, Option.some.injEq, Prod.mk.injEq] at h
      obtain ⟨rfl, rfl⟩ := h
      obtain ⟨hle, hsem⟩ := toRuleL_sound ctx g body t t1 b hb
      refine ⟨hle, ?_⟩
      intro T hT n
      have := hsem T hT n
      cases neg
      · simp [holds, allL_eq_map, sat_and, satAll_eq_map, this]
      · simp [holds_negate, holds, allL_eq_map, sat_and, satAll_eq_map, this]
  | .or neg body, t, t', r', h => by
    simp only [toRule_or] at h
    cases hb : toRuleL ctx body t with
    | none => simp [hb] at h
    | some p =>
      obtain ⟨b, t1⟩ := p
      simp only [hb, Option.some.injEq, Prod.mk.injEq] at h
      obtain ⟨rfl, rfl⟩ := h
      obtain ⟨hle, hsem⟩ := toRuleL_sound ctx g body t t1 b hb
      refine ⟨hle, ?_⟩
      intro T hT n
      have := hsem T hT n
      cases neg
      · simp [holds, anyL_eq_map, sat_or, satAny_eq_map, this]
      · simp [holds_negate, holds, anyL_eq_map, sat_or, satAny_eq_map, this]
  | .cond neg body, t, t', r', h => by
    simp only [toRule_cond] at h
    cases hb : toRuleL ctx body t with
    | none => simp [hb] at h
    | some p =>
      obtain ⟨b, t1⟩ := p
      obtain ⟨hle, hsem⟩ := toRuleL_sound ctx g body t t1 b hb
      rw [hb] at h
      match b, h, hsem with
      | [i, th], h, hsem =>
        simp only [Option.some.injEq, Prod.mk.injEq] at h
        obtain ⟨rfl, rfl⟩ := h
        refine ⟨hle, ?_⟩
        intro T hT n
        have := hsem T hT n
        obtain ⟨pi, pt, rfl, h1, h2⟩ := map_eq_pair this
        simp [holds, sat_cond2, h1, h2]
      | [i, th, e], h, hsem =>
        simp only [Option.some.injEq, Prod.mk.injEq] at h
        obtain ⟨rfl, rfl⟩ := h
        refine ⟨hle, ?_⟩
        intro T hT n
        have := hsem T hT n
        obtain ⟨pi, pt, pe, rfl, h1, h2, h3⟩ := map_eq_triple this
        simp [holds, sat_cond3, h1, h2, h3]
      | [], h, _ => simp at h
      | [_], h, _ => simp at h
      | _ :: _ :: _ :: _ :: _, h, _ => simp at h
  | .nested neg parent child path value, t, t', r', h => by
    simp only [toRule_nested] at h
    cases hp : pathOf ctx path with
    | none => simp [hp] at h
    | some p =>
      cases hq : quantOf child with
      | none => simp [hp, hq] at h
      | some q =>
        simp only [hp, hq] at h
        cases hv : toRule ctx value { t with paths := t.paths ++ [p] } with
        | none => simp [hv] at h
        | some res =>
          obtain ⟨r, t1⟩ := res
          simp only [hv, Option.some.injEq, Prod.mk.injEq] at h
          obtain ⟨rfl, rfl⟩ := h
          obtain ⟨hle, hsem⟩ := toRule_sound ctx g value _ t1 r hv
          have hle0 : t.le { t with paths := t.paths ++ [p] } := ⟨List.prefix_refl _, List.prefix_append _ _⟩
          refine ⟨Tables.le_trans hle0 hle, ?_⟩
          intro T hT n
          have hi : T.paths[t.paths.length]? = some p := getElem?_of_snoc_prefix (hle.2.trans hT.2)
          have hf : (fun c => holds (envOf g T) r c) = (fun c => sat ctx g value c) := funext (hsem T hT)
          simp only [holds, envOf_kids g T _ n p hi, hf, sat_nested, hp, hq]
          cases q <;> simp [quantOK]
  | .top .., t, t', r', h => by simp [toRule_top] at h
theorem toRuleL_sound (ctx : Ctx) (g : Graph) : ∀ (rs : List PRule) (t t' : Tables) (rs' : List Rule),
    toRuleL ctx rs t = some (rs', t') →
    t.le t' ∧ ∀ T, t'.le T → ∀ n,
      rs'.map (fun r => holds (envOf g T) r n) = rs.map (fun r => sat ctx g r n)
  | [], t, t', rs', h => by
    simp only [toRuleL_nil, Option.some.injEq, Prod.mk.injEq] at h
    obtain ⟨rfl, rfl⟩ := h
    exact ⟨Tables.le_refl _, fun _ _ _ => rfl⟩
  | r :: rs, t, t', rs', h => by
    simp only [toRuleL_cons] at h
    cases hr : toRule ctx r t with
    | none => simp [hr] at h
    | some p =>
      obtain ⟨r1, t1⟩ := p
      simp only [hr] at h
      cases hrs : toRuleL ctx rs t1 with
      | none => simp [hrs] at h
      | some q =>
        obtain ⟨rs1, t2⟩ := q
        simp only [hrs, Option.some.injEq, Prod.mk.injEq] at h
        obtain ⟨rfl, rfl⟩ := h
        obtain ⟨hle1, hsem1⟩ := toRule_sound ctx g r t t1 r1 hr
        obtain ⟨hle2, hsem2⟩ := toRuleL_sound ctx g rs t1 t2 rs1 hrs
        refine ⟨Tables.le_trans hle1 hle2, ?_⟩
        intro T hT n
        simp only [List.map_cons, hsem1 T (Tables.le_trans hle2 hT) n, hsem2 T hT n]
end


/-! ## `Proper` read off the parsed tree -/
section Eqns2
theorem proper_and (neg body) : proper (.and neg body) = (!body.isEmpty && properL body) := by rfl
theorem proper_or (neg body) : proper (.or neg body) = (!body.isEmpty && properL body) := by rfl
theorem proper_cond (neg body) : proper (.cond neg body) = properL body := by rfl
theorem proper_nested (a b c d v) : proper (.nested a b c d v) = proper v := by rfl
theorem proper_atom (a b c d) : proper (.atom a b c d) = true := by rfl
theorem proper_top (a b c d e f g v) : proper (.top a b c d e f g v) = proper v := by rfl
theorem properL_nil : properL [] = true := by rfl
theorem properL_cons (r rs) : properL (r :: rs) = (proper r && properL rs) := by rfl
end Eqns2

mutual
theorem toRule_proper (ctx : Ctx) : ∀ (r : PRule) (t t' : Tables) (r' : Rule),
    toRule ctx r t = some (r', t') → Proper r' = proper r
  | .atom neg var path a, t, t', r', h => by
    simp only [toRule_atom] at h
    cases ha : atomAt ctx path a with
    | none => simp [ha] at h
    | some atm =>
      simp only [ha, Option.some.injEq, Prod.mk.injEq] at h
      obtain ⟨rfl, rfl⟩ := h
      simp [Proper, proper_atom]
  | .and neg body, t, t', r', h => by
    simp only [toRule_and] at h
    cases hb : toRuleL ctx body t with
    | none => simp [hb] at h
    | some p =>
      obtain ⟨b, t1⟩ := p
      simp only [hb, Option.some.injEq, Prod.mk.injEq] at h
      obtain ⟨rfl, rfl⟩ := h
      obtain ⟨h1, h2⟩ := toRuleL_proper ctx body t t1 b hb
      cases neg <;> simp [proper_negate, Proper, proper_and, h1, h2]
  | .or neg body, t, t', r', h => by
    simp only [toRule_or] at h
    cases hb : toRuleL ctx body t with
    | none => simp [hb] at h
    | some p =>
      obtain ⟨b, t1⟩ := p
      simp only [hb, Option.some.injEq, Prod.mk.injEq] at h
      obtain ⟨rfl, rfl⟩ := h
      obtain ⟨h1, h2⟩ := toRuleL_proper ctx body t t1 b hb
      cases neg <;> simp [proper_negate, Proper, proper_or, h1, h2]
  | .cond neg body, t, t', r', h => by
    simp only [toRule_cond] at h
    cases hb : toRuleL ctx body t with
    | none => simp [hb] at h
    | some p =>
      obtain ⟨b, t1⟩ := p
      obtain ⟨h1, _⟩ := toRuleL_proper ctx body t t1 b hb
      rw [hb] at h
      match b, h, h1 with
      | [i, th], h, h1 =>
        simp only [Option.some.injEq, Prod.mk.injEq] at h
        obtain ⟨rfl, rfl⟩ := h
        simp only [ProperL, Bool.and_true] at h1
        simp [Proper, proper_cond, ← h1]
      | [i, th, e], h, h1 =>
        simp only [Option.some.injEq, Prod.mk.injEq] at h
        obtain ⟨rfl, rfl⟩ := h
        simp only [ProperL, Bool.and_true] at h1
        simp [Proper, proper_cond, ← h1, Bool.and_assoc]
      | [], h, _ => simp at h
      | [_], h, _ => simp at h
      | _ :: _ :: _ :: _ :: _, h, _ => simp at h
  | .nested neg parent child path value, t, t', r', h => by
    simp only [toRule_nested] at h
    cases hp : pathOf ctx path with
    | none => simp [hp] at h
    | some p =>
      cases hq : quantOf child with
      | none => simp [hp, hq] at h
      | some q =>
        simp only [hp, hq] at h
        cases hv : toRule ctx value { t with paths := t.paths ++ [p] } with
        | none => simp [hv] at h
        | some res =>
          obtain ⟨r, t1⟩ := res
          simp only [hv, Option.some.injEq, Prod.mk.injEq] at h
          obtain ⟨rfl, rfl⟩ := h
          simp [Proper, proper_nested, toRule_proper ctx value _ t1 r hv]
  | .top .., t, t', r', h => by simp [toRule_top] at h
theorem toRuleL_proper (ctx : Ctx) : ∀ (rs : List PRule) (t t' : Tables) (rs' : List Rule),
    toRuleL ctx rs t = some (rs', t') → ProperL rs' = properL rs ∧ rs'.isEmpty = rs.isEmpty
  | [], t, t', rs', h => by
    simp only [toRuleL_nil, Option.some.injEq, Prod.mk.injEq] at h
    obtain ⟨rfl, rfl⟩ := h
    simp [ProperL, properL_nil]
  | r :: rs, t, t', rs', h => by
    simp only [toRuleL_cons] at h
    cases hr : toRule ctx r t with
    | none => simp [hr] at h
    | some p =>
      obtain ⟨r1, t1⟩ := p
      simp only [hr] at h
      cases hrs : toRuleL ctx rs t1 with
      | none => simp [hrs] at h
      | some q =>
        obtain ⟨rs1, t2⟩ := q
        simp only [hrs, Option.some.injEq, Prod.mk.injEq] at h
        obtain ⟨rfl, rfl⟩ := h
        simp [ProperL, properL_cons, toRule_proper ctx r t t1 r1 hr, (toRuleL_proper ctx rs t1 t2 rs1 hrs).1]
end

/-! ## `Classical` read off the parsed tree -/

/-- abstract atoms whose twin is the complement on every graph -/
def _root_.Acv.Atom.isClassical : Acv.Atom → Bool
  | .count .. => true
  | .uniqueValues .. => true
  | _ => false

/-- every atom of the table is classical on every graph -/
def classTbl (t : Tables) : Prop := ∀ a ∈ t.atoms, a.isClassical = true

theorem envOf_classical (g : Graph) (T : Tables) (h : classTbl T) : Classical (envOf g T) := by
  intro i n
  simp only [envOf, graphEnv, List.getElem?_toArray]
  cases ha : T.atoms[i]? with
  | none => simp
  | some atm =>
    have hc := h atm (List.mem_of_getElem? ha)
    cases atm <;> simp [Acv.Atom.isClassical] at hc
    · simp [Acv.Atom.fails]
    · rename_i p arg; cases arg <;> simp [Acv.Atom.fails]

theorem atomOf_count (ctx : Ctx) (p : Path) (name : String) (q tg : Nat) (arg : Int) :
    atomOf ctx p (.count name q tg arg) =
      if arg < 0 then none
      else match countKindOf q, tg with
        | some k, 1 => some (.count k p arg.toNat)
        | some k, 0 => some (.length k p arg.toNat)
        | _, _ => none := by rfl

theorem atomOf_unique (ctx : Ctx) (p : Path) (b : Bool) :
    atomOf ctx p (.unique b) = some (.uniqueValues p b) := by rfl

theorem atomAt_classical {ctx : Ctx} {path : PPath} {a : PP.Atom} {atm : Acv.Atom}
    (h : atomAt ctx path a = some atm) (hc : classicalAtom a = true) : atm.isClassical = true := by
  unfold atomAt at h
  cases hp : pathOf ctx path with
  | none => rw [hp] at h; cases h
  | some p =>
    rw [hp] at h
    replace h : atomOf ctx p a = some atm := h
    match a, hc, h with
    | .count name q tg arg, hc, h =>
      have htg : tg = 1 := by simpa [classicalAtom] using hc
      subst htg
      rw [atomOf_count] at h
      split at h
      · cases h
      · cases hk : countKindOf q with
        | none => simp [hk] at h
        | some k =>
          simp only [hk, Option.some.injEq] at h
          rw [← h]; rfl
    | .unique b, _, h =>
      rw [atomOf_unique, Option.some.injEq] at h
      rw [← h]; rfl

theorem classicalAtoms_and (neg body) : classicalAtoms (.and neg body) = classicalAtomsL body := by rfl
theorem classicalAtoms_or (neg body) : classicalAtoms (.or neg body) = classicalAtomsL body := by rfl
theorem classicalAtoms_cond (neg body) : classicalAtoms (.cond neg body) = classicalAtomsL body := by rfl
theorem classicalAtoms_nested (a b c d v) : classicalAtoms (.nested a b c d v) = classicalAtoms v := by rfl
theorem classicalAtoms_atom (a b c d) : classicalAtoms (.atom a b c d) = classicalAtom d := by rfl
theorem classicalAtoms_top (a b c d e f g v) : classicalAtoms (.top a b c d e f g v) = classicalAtoms v := by rfl
theorem classicalAtomsL_cons (r rs) : classicalAtomsL (r :: rs) = (classicalAtoms r && classicalAtomsL rs) := by rfl

mutual
theorem toRule_classTbl (ctx : Ctx) : ∀ (r : PRule) (t t' : Tables) (r' : Rule),
    toRule ctx r t = some (r', t') → classicalAtoms r = true → classTbl t → classTbl t'
  | .atom neg var path a, t, t', r', h, hc, ht => by
    simp only [toRule_atom] at h
    cases ha : atomAt ctx path a with
    | none => simp [ha] at h
    | some atm =>
      simp only [ha, Option.some.injEq, Prod.mk.injEq] at h
      obtain ⟨rfl, rfl⟩ := h
      intro x hx
      simp only [List.mem_append, List.mem_singleton] at hx
      rcases hx with hx | rfl
      · exact ht x hx
      · exact atomAt_classical ha (by simpa [classicalAtoms_atom] using hc)
  | .and neg body, t, t', r', h, hc, ht => by
    simp only [toRule_and] at h
    cases hb : toRuleL ctx body t with
    | none => simp [hb] at h
    | some p =>
      obtain ⟨b, t1⟩ := p
      simp only [hb, Option.some.injEq, Prod.mk.injEq] at h
      obtain ⟨rfl, rfl⟩ := h
      exact toRuleL_classTbl ctx body t t1 b hb (by simpa [classicalAtoms_and] using hc) ht
  | .or neg body, t, t', r', h, hc, ht => by
    simp only [toRule_or] at h
    cases hb : toRuleL ctx body t with
    | none => simp [hb] at h
    | some p =>
      obtain ⟨b, t1⟩ := p
      simp only [hb, Option.some.injEq, Prod.mk.injEq] at h
      obtain ⟨rfl, rfl⟩ := h
      exact toRuleL_classTbl ctx body t t1 b hb (by simpa [classicalAtoms_or] using hc) ht
  | .cond neg body, t, t', r', h, hc, ht => by
    simp only [toRule_cond] at h
    cases hb : toRuleL ctx body t with
    | none => simp [hb] at h
    | some p =>
      obtain ⟨b, t1⟩ := p
      have := toRuleL_classTbl ctx body t t1 b hb (by simpa [classicalAtoms_cond] using hc) ht
      rw [hb] at h
      match b, h with
      | [i, th], h =>
        simp only [Option.some.injEq, Prod.mk.injEq] at h
        obtain ⟨_, rfl⟩ := h
        exact this
      | [i, th, e], h =>
        simp only [Option.some.injEq, Prod.mk.injEq] at h
        obtain ⟨_, rfl⟩ := h
        exact this
      | [], h => simp at h
      | [_], h => simp at h
      | _ :: _ :: _ :: _ :: _, h => simp at h
  | .nested neg parent child path value, t, t', r', h, hc, ht => by
    simp only [toRule_nested] at h
    cases hp : pathOf ctx path with
    | none => simp [hp] at h
    | some p =>
      cases hq : quantOf child with
      | none => simp [hp, hq] at h
      | some q =>
        simp only [hp, hq] at h
        cases hv : toRule ctx value { t with paths := t.paths ++ [p] } with
        | none => simp [hv] at h
        | some res =>
          obtain ⟨r, t1⟩ := res
          simp only [hv, Option.some.injEq, Prod.mk.injEq] at h
          obtain ⟨rfl, rfl⟩ := h
          exact toRule_classTbl ctx value _ t1 r hv (by simpa [classicalAtoms_nested] using hc) ht
  | .top .., t, t', r', h, _, _ => by simp [toRule_top] at h
theorem toRuleL_classTbl (ctx : Ctx) : ∀ (rs : List PRule) (t t' : Tables) (rs' : List Rule),
    toRuleL ctx rs t = some (rs', t') → classicalAtomsL rs = true → classTbl t → classTbl t'
  | [], t, t', rs', h, _, ht => by
    simp only [toRuleL_nil, Option.some.injEq, Prod.mk.injEq] at h
    obtain ⟨rfl, rfl⟩ := h
    exact ht
  | r :: rs, t, t', rs', h, hc, ht => by
    simp only [toRuleL_cons] at h
    simp only [classicalAtomsL_cons, Bool.and_eq_true] at hc
    cases hr : toRule ctx r t with
    | none => simp [hr] at h
    | some p =>
      obtain ⟨r1, t1⟩ := p
      simp only [hr] at h
      cases hrs : toRuleL ctx rs t1 with
      | none => simp [hrs] at h
      | some q =>
        obtain ⟨rs1, t2⟩ := q
        simp only [hrs, Option.some.injEq, Prod.mk.injEq] at h
        obtain ⟨rfl, rfl⟩ := h
        exact toRuleL_classTbl ctx rs t1 t2 rs1 hrs hc.2 (toRule_classTbl ctx r t t1 r1 hr hc.1 ht)
end


/-! ## Top-level expressions and whole profiles -/

theorem topRule_top (ctx : Ctx) (name level cls var neg me mv value t) :
    topRule ctx (.top name level cls var neg me mv value) t =
      match expandS ctx cls, toRule ctx value t with
      | some c, some (r, t') => some (⟨name, level, c, if neg then Dnf.negate r else r⟩, t')
      | _, _ => none := by rfl

theorem topRules_cons (ctx : Ctx) (r rs t) : topRules ctx (r :: rs) t =
    match topRule ctx r t with
    | some (v, t1) =>
      match topRules ctx rs t1 with
      | some (vs, t2) => some (v :: vs, t2)
      | none => none
    | none => none := by rfl

/-- validation `v` is the translation of the top-level rule `r`, and over the tables `T` it means what `sat`
says of `r` -/
structure Corr (ctx : Ctx) (g : Graph) (T : Tables) (r : PRule) (v : Validation) : Prop where
  top : ∃ name level cls var neg me mv value, r = .top name level cls var neg me mv value ∧
    v.name = name ∧ v.level = level ∧ expandS ctx cls = some v.cls
  sem : ∀ n, holds (envOf g T) v.rule n = sat ctx g r n
  proper : Proper v.rule = proper r

/-- only a top-level expression translates -/
theorem topRule_isTop {ctx : Ctx} {r : PRule} {t t' : Tables} {v : Validation}
    (h : topRule ctx r t = some (v, t')) :
    ∃ name level cls var neg me mv value c r',
      r = .top name level cls var neg me mv value ∧ expandS ctx cls = some c ∧
      toRule ctx value t = some (r', t') ∧ v = ⟨name, level, c, if neg then Dnf.negate r' else r'⟩ := by
  match r, h with
  | .top name level cls var neg me mv value, h =>
    rw [topRule_top] at h
    cases hc : expandS ctx cls with
    | none => simp [hc] at h
    | some c =>
      cases hv : toRule ctx value t with
      | none => simp [hc, hv] at h
      | some res =>
        obtain ⟨r', t1⟩ := res
        simp only [hc, hv, Option.some.injEq, Prod.mk.injEq] at h
        obtain ⟨rfl, rfl⟩ := h
        exact ⟨name, level, cls, var, neg, me, mv, value, c, r', rfl, hc, hv, rfl⟩

theorem topRule_sound (ctx : Ctx) (g : Graph) {r : PRule} {t t' : Tables} {v : Validation}
    (h : topRule ctx r t = some (v, t')) : t.le t' ∧ ∀ T, t'.le T → Corr ctx g T r v := by
  obtain ⟨name, level, cls, var, neg, me, mv, value, c, r', rfl, hc, hv, rfl⟩ := topRule_isTop h
  obtain ⟨hle, hsem⟩ := toRule_sound ctx g value t t' r' hv
  refine ⟨hle, fun T hT => ⟨⟨name, level, cls, var, neg, me, mv, value, rfl, rfl, rfl, hc⟩, ?_, ?_⟩⟩
  · intro n
    cases neg <;> simp [holds_negate, sat_top, hsem T hT n]
  · have := toRule_proper ctx value t t' r' hv
    cases neg <;> simp [proper_negate, proper_top, this]

theorem Corr.mono {ctx : Ctx} {g : Graph} {T : Tables} {r : PRule} {v : Validation}
    (h : ∀ T', T.le T' → Corr ctx g T' r v) {T' : Tables} (hT : T.le T') : Corr ctx g T' r v := h T' hT

/-- two lists of the same length whose elements are related position by position -/
def All₂ {α β : Type} (R : α → β → Prop) : List α → List β → Prop
  | [], [] => True
  | a :: as, b :: bs => R a b ∧ All₂ R as bs
  | _, _ => False

theorem All₂.length_eq {α β : Type} {R : α → β → Prop} : ∀ {l : List α} {l' : List β}, All₂ R l l' → l.length = l'.length
  | [], [], _ => rfl
  | _ :: _, _ :: _, h => by simp [All₂.length_eq h.2]

theorem All₂.get {α β : Type} {R : α → β → Prop} : ∀ {l : List α} {l' : List β}, All₂ R l l' →
    ∀ (i : Nat) (a : α) (b : β), l[i]? = some a → l'[i]? = some b → R a b
  | _ :: _, _ :: _, h, 0, a, b, ha, hb => by
    simp only [List.getElem?_cons_zero, Option.some.injEq] at ha hb
    subst ha; subst hb; exact h.1
  | _ :: _, _ :: _, h, i + 1, a, b, ha, hb => by
    simp only [List.getElem?_cons_succ] at ha hb
    exact All₂.get h.2 i a b ha hb

theorem topRules_sound (ctx : Ctx) (g : Graph) : ∀ (rs : List PRule) (t t' : Tables) (vs : List Validation),
    topRules ctx rs t = some (vs, t') → t.le t' ∧ ∀ T, t'.le T → All₂ (Corr ctx g T) rs vs
  | [], t, t', vs, h => by
    simp only [topRules, Option.some.injEq, Prod.mk.injEq] at h
    obtain ⟨rfl, rfl⟩ := h
    exact ⟨Tables.le_refl _, fun _ _ => trivial⟩
  | r :: rs, t, t', vs, h => by
    rw [topRules_cons] at h
    cases hr : topRule ctx r t with
    | none => simp [hr] at h
    | some p =>
      obtain ⟨v, t1⟩ := p
      simp only [hr] at h
      cases hrs : topRules ctx rs t1 with
      | none => simp [hrs] at h
      | some q =>
        obtain ⟨vs1, t2⟩ := q
        simp only [hrs, Option.some.injEq, Prod.mk.injEq] at h
        obtain ⟨rfl, rfl⟩ := h
        obtain ⟨hle1, hc1⟩ := topRule_sound ctx g hr
        obtain ⟨hle2, hc2⟩ := topRules_sound ctx g rs t1 t2 vs1 hrs
        exact ⟨Tables.le_trans hle1 hle2, fun T hT => ⟨hc1 T (Tables.le_trans hle2 hT), hc2 T hT⟩⟩

theorem topRules_classTbl (ctx : Ctx) : ∀ (rs : List PRule) (t t' : Tables) (vs : List Validation),
    topRules ctx rs t = some (vs, t') → (∀ r ∈ rs, classicalAtoms r = true) → classTbl t → classTbl t'
  | [], t, t', vs, h, _, ht => by
    simp only [topRules, Option.some.injEq, Prod.mk.injEq] at h
    obtain ⟨rfl, rfl⟩ := h
    exact ht
  | r :: rs, t, t', vs, h, hc, ht => by
    rw [topRules_cons] at h
    cases hr : topRule ctx r t with
    | none => simp [hr] at h
    | some p =>
      obtain ⟨v, t1⟩ := p
      simp only [hr] at h
      cases hrs : topRules ctx rs t1 with
      | none => simp [hrs] at h
      | some q =>
        obtain ⟨vs1, t2⟩ := q
        simp only [hrs, Option.some.injEq, Prod.mk.injEq] at h
        obtain ⟨rfl, rfl⟩ := h
        obtain ⟨name, level, cls, var, neg, me, mv, value, c, r', rfl, _, hv, rfl⟩ := topRule_isTop hr
        have h1 := toRule_classTbl ctx value t t1 r' hv
          (by simpa [classicalAtoms_top] using hc _ (List.mem_cons_self)) ht
        exact topRules_classTbl ctx rs t1 t2 vs1 hrs (fun r hr => hc r (List.mem_cons_of_mem _ hr)) h1

/-- all top-level rules of a parsed profile, in the order `frontEnd` translates them -/
def Profile.rules (p : Profile) : List PRule := p.violation ++ p.warning ++ p.info

theorem frontEnd_ok {doc : Y} {p : Profile} {vals : List Validation} {T : Tables}
    (hp : parseProfile doc = .ok p) (hf : frontEnd doc = .ok (vals, T)) :
    topRules (ctxOf p.prefixes) (Profile.rules p) {} = some (vals, T) := by
  have hf' : ofProfile p = .ok (vals, T) := by
    unfold frontEnd at hf
    rw [hp] at hf
    exact hf
  unfold ofProfile at hf'
  unfold Profile.rules
  split at hf'
  · rename_i r h
    rw [h]
    cases hf'
    rfl
  · cases hf'


/-! ## The dump check of `pathOf` never rejects a one-line path the parser accepted -/

/-- If `ParsePath` accepted the text `s` and `s` has no line break or tab (so that the recorded source text is
`s` itself), `pathOf` converts exactly the AST the PEG model builds for `s`: the run-time check against the dump
succeeds. -/
theorem pathOf_parsed (ctx : Ctx) {s : String} {p : PPath} (h : parsePathS s = .ok p)
    (hne : s ≠ "") (hline : oneLine s.toList = s.toList) :
    ∃ ast, parsePath Gen.pathGrammarGo s.toList = some ast ∧ pathOf ctx p = pathOfAst ctx ast := by
  unfold parsePathS at h
  rw [if_neg (by simpa using hne)] at h
  cases hp : parsePath Gen.pathGrammarGo s.toList with
  | none => rw [hp] at h; cases h
  | some ast =>
    rw [hp] at h
    simp only [Except.ok.injEq] at h
    subst h
    refine ⟨ast, rfl, ?_⟩
    unfold pathOf
    simp only [hline, String.toList_ofList, hp, if_true]

end Acv.FE
