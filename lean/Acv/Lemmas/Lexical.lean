import Acv.Model.Lexical
/-! Helper lemmas for C14 (decimal rendering and digit runs). -/
namespace Acv

theorem isDigit_digitChar (d : Nat) : isDigit (digitChar d) = true := by
  unfold digitChar; split <;> decide

theorem charVal_digitChar : ∀ d, d < 10 → charVal (digitChar d) = d
  | 0, _ | 1, _ | 2, _ | 3, _ | 4, _ | 5, _ | 6, _ | 7, _ | 8, _ | 9, _ => by decide
  | n + 10, h => by omega

theorem readNat_snoc (xs : List Char) (c : Char) :
    readNat (xs ++ [c]) = readNat xs * 10 + charVal c := by
  simp [readNat, List.foldl_append]

/-- The accumulator is only appended. -/
theorem showNatAux_acc : ∀ (fuel n : Nat) (acc : List Char),
    showNatAux fuel n acc = showNatAux fuel n [] ++ acc
  | 0, _, acc => by simp [showNatAux]
  | fuel + 1, n, acc => by
    simp only [showNatAux]
    split
    · simp
    · rw [showNatAux_acc fuel (n / 10) (digitChar (n % 10) :: acc),
        showNatAux_acc fuel (n / 10) [digitChar (n % 10)]]
      simp

theorem readNat_showNatAux : ∀ (fuel n : Nat), n < fuel → readNat (showNatAux fuel n []) = n
  | 0, _, h => by omega
  | fuel + 1, n, h => by
    simp only [showNatAux]
    split
    · rename_i h10
      simp [readNat, charVal_digitChar n h10]
    · rename_i h10
      rw [showNatAux_acc, readNat_snoc, readNat_showNatAux fuel (n / 10) (by omega),
        charVal_digitChar _ (Nat.mod_lt _ (by decide))]
      omega

theorem showNatAux_digits : ∀ (fuel n : Nat) (acc : List Char),
    (∀ c ∈ acc, isDigit c = true) → ∀ c ∈ showNatAux fuel n acc, isDigit c = true
  | 0, _, acc, h => by simpa [showNatAux] using h
  | fuel + 1, n, acc, h => by
    simp only [showNatAux]
    split
    · intro c hc
      rcases List.mem_cons.1 hc with rfl | hc
      · exact isDigit_digitChar _
      · exact h c hc
    · apply showNatAux_digits
      intro c hc
      rcases List.mem_cons.1 hc with rfl | hc
      · exact isDigit_digitChar _
      · exact h c hc

theorem showNatAux_ne_nil : ∀ (fuel n : Nat) (acc : List Char),
    0 < fuel → showNatAux fuel n acc ≠ []
  | 0, _, _, h => by omega
  | fuel + 1, n, acc, _ => by
    simp only [showNatAux]
    split
    · simp
    · rw [showNatAux_acc]; simp

theorem readNat_showNat' (n : Nat) : readNat (showNat n) = n :=
  readNat_showNatAux (n + 1) n (Nat.lt_succ_self n)

theorem showNat_all_digits (n : Nat) : ∀ c ∈ showNat n, isDigit c = true :=
  showNatAux_digits (n + 1) n [] (by simp)

theorem showNat_ne_nil (n : Nat) : showNat n ≠ [] :=
  showNatAux_ne_nil (n + 1) n [] (Nat.succ_pos n)

theorem showNat_inj {a b : Nat} (h : showNat a = showNat b) : a = b := by
  rw [← readNat_showNat' a, ← readNat_showNat' b, h]

/-! ### digit runs -/

/-- Reading digits only extends the current run. -/
theorem digitRunsGo_digits : ∀ (ds acc rest : List Char), (∀ c ∈ ds, isDigit c = true) →
    digitRunsGo acc (ds ++ rest) = digitRunsGo (ds.reverse ++ acc) rest
  | [], acc, rest, _ => by simp
  | d :: ds, acc, rest, h => by
    have hd : isDigit d = true := h d (by simp)
    have ht : ∀ c ∈ ds, isDigit c = true := fun c hc => h c (by simp [hc])
    simp only [List.cons_append, digitRunsGo, hd, if_true]
    rw [digitRunsGo_digits ds (d :: acc) rest ht]
    simp

theorem digitRunsGo_nondigit (acc : List Char) (c : Char) (rest : List Char)
    (hc : isDigit c = false) (hacc : acc ≠ []) :
    digitRunsGo acc (c :: rest) = acc.reverse :: digitRunsGo [] rest := by
  cases acc with
  | nil => exact absurd rfl hacc
  | cons a as => simp [digitRunsGo, hc]

/-- A non-digit outside a run is skipped. -/
theorem digitRuns_nondigit (c : Char) (rest : List Char) (hc : isDigit c = false) :
    digitRuns (c :: rest) = digitRuns rest := by
  simp [digitRuns, digitRunsGo, hc]

/-- A non-empty block of digits followed by a non-digit is one run. -/
theorem digitRuns_run (ds : List Char) (c : Char) (rest : List Char)
    (hds : ∀ x ∈ ds, isDigit x = true) (hne : ds ≠ []) (hc : isDigit c = false) :
    digitRuns (ds ++ c :: rest) = ds :: digitRuns rest := by
  unfold digitRuns
  rw [digitRunsGo_digits ds [] (c :: rest) hds, digitRunsGo_nondigit _ _ _ hc (by simpa using hne)]
  simp

/-- A digit-free prefix contributes no run. -/
theorem digitRuns_junk : ∀ (pre rest : List Char), (∀ x ∈ pre, isDigit x = false) →
    digitRuns (pre ++ rest) = digitRuns rest
  | [], _, _ => rfl
  | p :: pre, rest, h => by
    rw [List.cons_append, digitRuns_nondigit p _ (h p (by simp))]
    exact digitRuns_junk pre rest (fun x hx => h x (by simp [hx]))

end Acv
