import Acv.Model.LdContext
import Acv.Lemmas.Ld
/-!
# Lemmas for C05 with contexts: expansion undoes every context spelling

* character lists: `splitColon`, `dropPrefix?`, term lookup;
* `expandIriL` on each way of spelling an IRI (`expand_full`, `expand_prefix`, `expand_term`,
  `expand_vocab`, `expand_base`);
* the document level: `exp_val` / `exp_vals` / `exp_props` (mutual structural recursion over `Js`),
  the reader on a rendered context (`readCtx_ctxJs`), `expand_spelling`;
* serialisations of a graph satisfy the document-level side condition (`docOk_ser`).
-/
namespace Acv.Ld
open Acv

/-! ## Character lists -/

theorem splitColon_append {p s : List Char} (h : ':' ∉ p) :
    splitColon (p ++ ':' :: s) = some (p, s) := by
  induction p with
  | nil => simp [splitColon]
  | cons c p ih =>
    have hc : c ≠ ':' := fun e => h (by simp [e])
    have hp : ':' ∉ p := fun e => h (by simp [e])
    simp [splitColon, hc, ih hp]

theorem splitColon_none {l : List Char} (h : ':' ∉ l) : splitColon l = none := by
  induction l with
  | nil => rfl
  | cons c l ih =>
    have hc : c ≠ ':' := fun e => h (by simp [e])
    have hl : ':' ∉ l := fun e => h (by simp [e])
    simp [splitColon, hc, ih hl]

theorem splitColon_some {l p s : List Char} (h : splitColon l = some (p, s)) :
    l = p ++ ':' :: s ∧ ':' ∉ p := by
  induction l generalizing p with
  | nil => simp [splitColon] at h
  | cons c l ih =>
    simp only [splitColon] at h
    split at h
    · rename_i hc
      cases h
      exact ⟨by simp [hc], by simp⟩
    · rename_i hc
      split at h
      · rename_i p' s' e
        cases h
        obtain ⟨h1, h2⟩ := ih e
        refine ⟨by simp [h1], ?_⟩
        intro hm
        rcases List.mem_cons.1 hm with e' | e'
        · exact hc e'.symm
        · exact h2 e'
      · cases h

theorem dropPrefix?_append (p r : List Char) : dropPrefix? p (p ++ r) = some r := by
  induction p with
  | nil => simp [dropPrefix?]
  | cons a p ih => simp [dropPrefix?, ih]

theorem dropPrefix?_some {p l r : List Char} (h : dropPrefix? p l = some r) : l = p ++ r := by
  induction p generalizing l with
  | nil => simp [dropPrefix?] at h; simp [h]
  | cons a p ih =>
    cases l with
    | nil => simp [dropPrefix?] at h
    | cons b l =>
      simp only [dropPrefix?] at h
      split at h
      · rename_i e
        subst e
        simp [ih h]
      · cases h

theorem startsAt_append {p : List Char} (s : List Char) (hne : p ≠ []) (h : startsAt p = false) :
    startsAt (p ++ s) = false := by
  cases p with
  | nil => exact absurd rfl hne
  | cons c p =>
    simp only [List.cons_append]
    unfold startsAt at h ⊢
    split at h
    · cases h
    · rename_i hh
      split
      · rename_i e
        injection e with e1 _
        subst e1
        exact absurd rfl (hh _)
      · rfl

theorem startsSlashes_append {p : List Char} (s : List Char) (hne : p ≠ []) (h : '/' ∉ p) :
    startsSlashes (p ++ s) = false := by
  cases p with
  | nil => exact absurd rfl hne
  | cons c p =>
    have hc : c ≠ '/' := fun e => h (by simp [e])
    simp only [List.cons_append]
    unfold startsSlashes
    split
    · rename_i e
      injection e with e1 _
      exact absurd e1 hc
    · rfl

/-! ## Term lookup -/

theorem lookupL_some {ps : List (String × String)} {t ns : List Char} (h : lookupL ps t = some ns) :
    ∃ pn ∈ ps, pn.1.toList = t ∧ pn.2.toList = ns := by
  induction ps with
  | nil => simp [lookupL] at h
  | cons pn ps ih =>
    simp only [lookupL] at h
    split at h
    · rename_i e
      cases h
      exact ⟨pn, by simp, e, rfl⟩
    · obtain ⟨q, hq, h1, h2⟩ := ih h
      exact ⟨q, by simp [hq], h1, h2⟩

theorem lookupL_none {ps : List (String × String)} {t : List Char}
    (h : ∀ pn ∈ ps, pn.1.toList ≠ t) : lookupL ps t = none := by
  induction ps with
  | nil => rfl
  | cons pn ps ih =>
    simp only [lookupL]
    rw [if_neg (h pn (by simp))]
    exact ih (fun q hq => h q (by simp [hq]))

theorem lookupL_mem {ps : List (String × String)} (hnd : (ps.map (·.1)).Nodup)
    {pn : String × String} (hm : pn ∈ ps) : lookupL ps pn.1.toList = some pn.2.toList := by
  induction ps with
  | nil => simp at hm
  | cons q ps ih =>
    simp only [List.map_cons, List.nodup_cons] at hnd
    simp only [lookupL]
    rcases List.mem_cons.1 hm with rfl | hm'
    · simp
    · have hne : q.1 ≠ pn.1 := by
        intro e
        exact hnd.1 (e ▸ List.mem_map.2 ⟨pn, hm', rfl⟩)
      have hne' : q.1.toList ≠ pn.1.toList := fun e => hne (String.toList_inj.1 e)
      rw [if_neg hne']
      exact ih hnd.2 hm'

/-! ## What `Ctx.ok` / `Ctx.spellOk` say about a declared prefix -/

structure PrefixOk (ctx : Ctx) (pn : String × String) : Prop where
  ne : pn.1.toList ≠ []
  noColon : ':' ∉ pn.1.toList
  noSlash : '/' ∉ pn.1.toList
  noAt : startsAt pn.1.toList = false
  lookup : ctx.lookup pn.1.toList = some pn.2.toList

theorem ok_prefix {ctx : Ctx} (h : ctx.ok = true) {pn : String × String} (hm : pn ∈ ctx.prefixes) :
    PrefixOk ctx pn := by
  simp only [Ctx.ok, Bool.and_eq_true, List.all_eq_true, distinct, decide_eq_true_eq] at h
  obtain ⟨⟨⟨h1, h2⟩, _⟩, _⟩ := h
  have ht := (h1 pn hm).1
  simp only [termOk, Bool.and_eq_true, Bool.not_eq_true', List.isEmpty_eq_false_iff,
    List.contains_eq_mem, decide_eq_false_iff_not] at ht
  obtain ⟨⟨⟨a, b⟩, c⟩, d⟩ := ht
  exact ⟨a, b, c, d, lookupL_mem h2 hm⟩

theorem ok_of_spellOk {ctx : Ctx} (h : ctx.spellOk = true) : ctx.ok = true := by
  simp only [Ctx.spellOk, Bool.and_eq_true] at h
  exact h.1

theorem spellOk_prefix {ctx : Ctx} (h : ctx.spellOk = true) {pn : String × String}
    (hm : pn ∈ ctx.prefixes) : pn.1.toList ≠ ['_'] ∧ isPrefixNs pn.2.toList = true := by
  simp only [Ctx.spellOk, Bool.and_eq_true, List.all_eq_true, bne_iff_ne, ne_eq] at h
  exact h.2 pn hm

/-- no term has a `:` -/
theorem lookup_none_of_colon {ctx : Ctx} (h : ctx.ok = true) {t : List Char} (ht : ':' ∈ t) :
    ctx.lookup t = none := by
  apply lookupL_none
  intro pn hm e
  exact (ok_prefix h hm).noColon (e ▸ ht)

/-! ## Absolute IRIs of the fragment -/

theorem absIri_facts {f : String} (h : absIri f = true) :
    startsAt f.toList = false ∧ ':' ∈ f.toList := by
  unfold absIri at h
  split at h
  · cases h
  · cases h
  · cases h
  · rename_i cs h1 _ _
    refine ⟨?_, by simpa using h⟩
    unfold startsAt
    split
    · rename_i e; exact absurd e (h1 _)
    · rfl

theorem not_at_ne {s : String} (h : startsAt s.toList = false) :
    s ≠ "@id" ∧ s ≠ "@type" ∧ s ≠ "@value" ∧ s ≠ "@graph" ∧ s ≠ "@context" := by
  refine ⟨?_, ?_, ?_, ?_, ?_⟩ <;> (rintro rfl; revert h; decide)

/-! ## `expandIriL` on the spellings of an IRI -/

/-- the conjuncts of `iriOk` -/
theorem iriOk_facts {ctx : Ctx} {f : String} (h : iriOk ctx f = true) :
    absIri f = true ∧ startsSlashes f.toList = false ∧
    (∃ p suf, splitColon f.toList = some (p, suf) ∧ p ≠ [] ∧
      (startsSlashes suf = true ∨ ctx.lookup p = none)) ∧
    (goAbs f.toList = .yes ∨ (ctx.base = none ∧ ctx.vocab = none)) := by
  simp only [iriOk, Bool.and_eq_true, Bool.or_eq_true, beq_iff_eq, Option.isNone_iff_eq_none,
    Bool.not_eq_true'] at h
  obtain ⟨⟨⟨h1, h0⟩, h2⟩, h3⟩ := h
  refine ⟨h1, h0, ?_, h3⟩
  split at h2
  · rename_i p suf e
    simp only [Bool.and_eq_true, Bool.not_eq_true', List.isEmpty_eq_false_iff, Bool.or_eq_true,
      Option.isNone_iff_eq_none] at h2
    exact ⟨p, suf, e, h2.1, h2.2⟩
  · cases h2

theorem fallthrough_plain {ctx : Ctx} (hb : ctx.base = none) (hv : ctx.vocab = none)
    (relative vocab : Bool) (v : List Char) : fallthrough ctx relative vocab v = some v := by
  unfold fallthrough
  rw [hb, hv]
  cases relative <;> cases vocab <;> rfl

/-- an IRI satisfying `iriOk`, written in full, stays -/
theorem expand_full {ctx : Ctx} (hc : ctx.ok = true) {f : String} (hf : iriOk ctx f = true)
    (relative vocab : Bool) : expandIriL ctx relative vocab f.toList = some f.toList := by
  obtain ⟨ha, _, ⟨p, suf, hs, hp, hl⟩, hg⟩ := iriOk_facts hf
  obtain ⟨hat, hcolon⟩ := absIri_facts ha
  have hlk : (if vocab = true then ctx.lookup f.toList else none) = none := by
    split
    · exact lookup_none_of_colon hc hcolon
    · rfl
  unfold expandIriL
  rw [hat]
  simp only [Bool.false_eq_true, if_false, hlk, hs]
  have hpe : p.isEmpty = false := by simpa using hp
  rw [hpe]
  simp only [Bool.false_eq_true, if_false]
  by_cases hcond : (p == ['_'] || startsSlashes suf) = true
  · rw [if_pos hcond]
  · rw [if_neg hcond]
    have hsl : startsSlashes suf = false := by
      cases hh : startsSlashes suf with
      | false => rfl
      | true => simp [hh] at hcond
    have hlp : ctx.lookup p = none := by
      rcases hl with h | h
      · rw [h] at hsl; cases hsl
      · exact h
    rw [hlp]
    unfold absOr
    rcases hg with hy | ⟨hb, hv⟩
    · rw [hy]
    · rw [fallthrough_plain hb hv]
      cases goAbs f.toList <;> simp

/-- `p:suf` with `p ↦ ns` declared expands to `ns ++ suf` -/
theorem expand_prefix {ctx : Ctx} (hc : ctx.spellOk = true) {pn : String × String}
    (hm : pn ∈ ctx.prefixes) {suf : List Char} (hsl : startsSlashes suf = false)
    (relative vocab : Bool) :
    expandIriL ctx relative vocab (pn.1.toList ++ ':' :: suf) = some (pn.2.toList ++ suf) := by
  have hp := ok_prefix (ok_of_spellOk hc) hm
  obtain ⟨hu, hns⟩ := spellOk_prefix hc hm
  have hat : startsAt (pn.1.toList ++ ':' :: suf) = false := startsAt_append _ hp.ne hp.noAt
  have hlk : (if vocab = true then ctx.lookup (pn.1.toList ++ ':' :: suf) else none) = none := by
    split
    · exact lookup_none_of_colon (ok_of_spellOk hc) (by simp)
    · rfl
  unfold expandIriL
  rw [hat]
  simp only [Bool.false_eq_true, if_false, hlk, splitColon_append hp.noColon]
  have hpe : pn.1.toList.isEmpty = false := by simpa using hp.ne
  have hu' : (pn.1.toList == ['_']) = false := by simpa using hu
  rw [hpe, hu', hsl, hp.lookup]
  simp [hns]

/-- a bare term expands to its IRI in vocabulary-relative positions -/
theorem expand_term {ctx : Ctx} (hc : ctx.ok = true) {pn : String × String}
    (hm : pn ∈ ctx.prefixes) (relative : Bool) :
    expandIriL ctx relative true pn.1.toList = some pn.2.toList := by
  have hp := ok_prefix hc hm
  unfold expandIriL
  rw [hp.noAt]
  simp [hp.lookup]

/-- a word that is neither a term nor keyword-like, without `:`, gets `@vocab` in front -/
theorem expand_vocab {ctx : Ctx} {vv : String} (hv : ctx.vocab = some vv) {s : List Char}
    (hat : startsAt s = false) (hcolon : ':' ∉ s) (hterm : ctx.lookup s = none) (relative : Bool) :
    expandIriL ctx relative true s = some (vv.toList ++ s) := by
  unfold expandIriL
  rw [hat]
  simp only [Bool.false_eq_true, if_false, if_true, hterm, splitColon_none hcolon]
  unfold fallthrough
  rw [hv]

theorem refChar_colon : refChar ':' = false := by decide
theorem refChar_at : refChar '@' = false := by decide
theorem refChar_slash : refChar '/' = false := by decide

theorem refSimple_facts {s : List Char} (h : refSimple s = true) :
    s ≠ [] ∧ ':' ∉ s ∧ startsAt s = false ∧ startsSlashes s = false := by
  simp only [refSimple, Bool.and_eq_true, Bool.not_eq_true', List.isEmpty_eq_false_iff,
    List.all_eq_true] at h
  obtain ⟨⟨hne, hall⟩, _⟩ := h
  refine ⟨hne, ?_, ?_, ?_⟩
  · intro hm
    have := hall _ hm
    rw [refChar_colon] at this
    cases this
  · unfold startsAt
    split
    · have := hall '@' (by simp)
      rw [refChar_at] at this
      cases this
    · rfl
  · unfold startsSlashes
    split
    · have := hall '/' (by simp)
      rw [refChar_slash] at this
      cases this
    · rfl

/-- a harmless segment is appended to a directory base -/
theorem expand_base {ctx : Ctx} {b : String} (hb : ctx.base = some b)
    (hdir : baseDirOk b.toList = true) {s : List Char} (hs : refSimple s = true) :
    expandIriL ctx true false s = some (b.toList ++ s) := by
  obtain ⟨hne, hcolon, hat, _⟩ := refSimple_facts hs
  unfold expandIriL
  rw [hat]
  simp only [Bool.false_eq_true, if_false, splitColon_none hcolon]
  unfold fallthrough
  simp only [hb, if_true]
  unfold resolve
  have : s.isEmpty = false := by simpa using hne
  rw [this, hdir, hs]
  simp

/-! ## String level: every spelling expands to the IRI -/

theorem ofList_eq {l : List Char} {f : String} (h : f.toList = l) : String.ofList l = f := by
  rw [← h]; exact String.ofList_toList

theorem viaPrefix_facts {pn : String × String} {f s : String} (h : viaPrefix pn f s = true) :
    ∃ suf, f.toList = pn.2.toList ++ suf ∧ s.toList = pn.1.toList ++ ':' :: suf ∧
      startsSlashes suf = false := by
  unfold viaPrefix at h
  split at h
  · rename_i suf e
    simp only [Bool.and_eq_true, Bool.not_eq_true', beq_iff_eq] at h
    exact ⟨suf, dropPrefix?_some e, h.2, h.1⟩
  · cases h

theorem mem_terms_lookup {ctx : Ctx} {s : String} (h : s ∉ ctx.terms) :
    ctx.lookup s.toList = none := by
  apply lookupL_none
  intro pn hm e
  exact h (List.mem_map.2 ⟨pn, hm, String.toList_inj.1 e⟩)

/-- vocabulary-relative positions: the spelled string expands (as key and as type) to the IRI,
and is not keyword-like, not empty -/
theorem spellV_expand {ctx : Ctx} (hc : ctx.spellOk = true) {f s : String}
    (hf : iriOk ctx f = true) (hs : spellV ctx f s = true) (relative : Bool) :
    expandIriL ctx relative true s.toList = some f.toList ∧ startsAt s.toList = false ∧
      s.toList ≠ [] := by
  have hok := ok_of_spellOk hc
  obtain ⟨ha, _, _, _⟩ := iriOk_facts hf
  obtain ⟨hat, hcolon⟩ := absIri_facts ha
  simp only [spellV, Bool.or_eq_true, beq_iff_eq, List.any_eq_true, Bool.and_eq_true] at hs
  rcases hs with ((rfl | ⟨pn, hm, hv⟩) | ⟨pn, hm, rfl, rfl⟩) | hv
  · exact ⟨expand_full hok hf relative true, hat, fun e => by rw [e] at hcolon; cases hcolon⟩
  · obtain ⟨suf, e1, e2, hsl⟩ := viaPrefix_facts hv
    have hp := ok_prefix hok hm
    rw [e2, e1]
    exact ⟨expand_prefix hc hm hsl relative true, startsAt_append _ hp.ne hp.noAt, by simp⟩
  · have hp := ok_prefix hok hm
    exact ⟨expand_term hok hm relative, hp.noAt, hp.ne⟩
  · unfold viaVocab at hv
    split at hv
    · rename_i vv hvv
      simp only [Bool.and_eq_true, beq_iff_eq, Bool.not_eq_true', List.contains_eq_mem,
        decide_eq_false_iff_not, List.isEmpty_eq_false_iff] at hv
      obtain ⟨⟨⟨⟨h1, h2⟩, h3⟩, h4⟩, h5⟩ := hv
      rw [dropPrefix?_some h1]
      have h4' : s ∉ ctx.terms := by simpa using h4
      exact ⟨expand_vocab hvv h3 h2 (mem_terms_lookup h4') relative, h3, h5⟩
    · cases hv

theorem spellV_expandKey {ctx : Ctx} (hc : ctx.spellOk = true) {f s : String}
    (hf : iriOk ctx f = true) (hs : spellV ctx f s = true) : expandKey ctx s = some f := by
  unfold expandKey
  rw [(spellV_expand hc hf hs false).1]
  simp [String.ofList_toList]

theorem spellV_expandType {ctx : Ctx} (hc : ctx.spellOk = true) {f s : String}
    (hf : iriOk ctx f = true) (hs : spellV ctx f s = true) : expandType ctx s = some f := by
  unfold expandType
  rw [(spellV_expand hc hf hs true).1]
  simp [String.ofList_toList]

/-- document-relative positions -/
theorem spellId_expandId {ctx : Ctx} (hc : ctx.spellOk = true) {f s : String}
    (hf : iriOk ctx f = true) (hs : spellId ctx f s = true) : expandId ctx s = some f := by
  have hok := ok_of_spellOk hc
  obtain ⟨_, hsl0, _, _⟩ := iriOk_facts hf
  simp only [spellId, Bool.or_eq_true, beq_iff_eq, List.any_eq_true] at hs
  unfold expandId
  rcases hs with (rfl | ⟨pn, hm, hv⟩) | hv
  · rw [hsl0, expand_full hok hf true false]
    simp [String.ofList_toList]
  · obtain ⟨suf, e1, e2, hsl⟩ := viaPrefix_facts hv
    have hp := ok_prefix hok hm
    rw [e2, startsSlashes_append _ hp.ne hp.noSlash, expand_prefix hc hm hsl true false, ← e1]
    simp [String.ofList_toList]
  · unfold viaBase at hv
    split at hv
    · rename_i b hb
      simp only [Bool.and_eq_true, beq_iff_eq] at hv
      obtain ⟨⟨h1, h2⟩, h3⟩ := hv
      rw [(refSimple_facts h3).2.2.2, expand_base hb h1 h3, ← dropPrefix?_some h2]
      simp [String.ofList_toList]
    · cases hv

/-! ## Equality of JSON values -/

mutual
theorem Js.beq_eq : ∀ (a b : Js), Js.beq a b = true → a = b
  | .null, b, h => by cases b <;> simp [Js.beq] at h ⊢
  | .bool x, b, h => by cases b <;> simp [Js.beq] at h ⊢; exact h
  | .num x, b, h => by cases b <;> simp [Js.beq] at h ⊢; exact h
  | .str x, b, h => by cases b <;> simp [Js.beq] at h ⊢; exact h
  | .arr xs, b, h => by
    cases b <;> simp [Js.beq] at h ⊢
    exact Js.beqList_eq xs _ h
  | .obj kvs, b, h => by
    cases b <;> simp [Js.beq] at h ⊢
    exact Js.beqProps_eq kvs _ h
theorem Js.beqList_eq : ∀ (a b : List Js), Js.beqList a b = true → a = b
  | [], b, h => by cases b <;> simp [Js.beqList] at h ⊢
  | x :: xs, b, h => by
    cases b with
    | nil => simp [Js.beqList] at h
    | cons y ys =>
      simp only [Js.beqList, Bool.and_eq_true] at h
      rw [Js.beq_eq x y h.1, Js.beqList_eq xs ys h.2]
theorem Js.beqProps_eq : ∀ (a b : List (String × Js)), Js.beqProps a b = true → a = b
  | [], b, h => by cases b <;> simp [Js.beqProps] at h ⊢
  | (k, v) :: r, b, h => by
    cases b with
    | nil => simp [Js.beqProps] at h
    | cons kv' r' =>
      obtain ⟨k', v'⟩ := kv'
      simp only [Js.beqProps, Bool.and_eq_true, beq_iff_eq] at h
      rw [h.1.1, Js.beq_eq v v' h.1.2, Js.beqProps_eq r r' h.2]
end

mutual
theorem Js.beq_refl : ∀ a : Js, Js.beq a a = true
  | .null => rfl
  | .bool _ => by simp [Js.beq]
  | .num _ => by simp [Js.beq]
  | .str _ => by simp [Js.beq]
  | .arr xs => by simp [Js.beq, Js.beqList_refl xs]
  | .obj kvs => by simp [Js.beq, Js.beqProps_refl kvs]
theorem Js.beqList_refl : ∀ a : List Js, Js.beqList a a = true
  | [] => rfl
  | x :: xs => by simp [Js.beqList, Js.beq_refl x, Js.beqList_refl xs]
theorem Js.beqProps_refl : ∀ a : List (String × Js), Js.beqProps a a = true
  | [] => rfl
  | (k, v) :: r => by simp [Js.beqProps, Js.beq_refl v, Js.beqProps_refl r]
end

/-- decidable equality of JSON values (used by the concrete examples) -/
instance : DecidableEq Js := fun a b =>
  if h : Js.beq a b = true then isTrue (Js.beq_eq a b h)
  else isFalse (fun e => h (e ▸ Js.beq_refl a))

/-! ## `@type` and `@id` values -/

theorem exp_typeNames {ctx : Ctx} (hc : ctx.spellOk = true) :
    ∀ (fs ss : List Js), okTypeNames (iriOk ctx) fs = true → spTypeNames ctx fs ss = true →
      expTypeNames ctx ss = some fs
  | [], ss, _, hs => by cases ss <;> simp [spTypeNames] at hs; rfl
  | .str f :: r, ss, ho, hs => by
    cases ss with
    | nil => simp [spTypeNames] at hs
    | cons y r' =>
      cases y <;> simp only [spTypeNames, Bool.and_eq_true, Bool.false_eq_true] at hs
      simp only [okTypeNames, Bool.and_eq_true] at ho
      simp [expTypeNames, spellV_expandType hc ho.1 hs.1, exp_typeNames hc r r' ho.2 hs.2, consO]
  | .null :: _, _, ho, _ => by simp [okTypeNames] at ho
  | .bool _ :: _, _, ho, _ => by simp [okTypeNames] at ho
  | .num _ :: _, _, ho, _ => by simp [okTypeNames] at ho
  | .arr _ :: _, _, ho, _ => by simp [okTypeNames] at ho
  | .obj _ :: _, _, ho, _ => by simp [okTypeNames] at ho

theorem exp_types {ctx : Ctx} (hc : ctx.spellOk = true) {t t' : Js}
    (ho : okTypes (iriOk ctx) t = true) (hs : spTypes ctx t t' = true) : expTypes ctx t' = some t := by
  cases t with
  | str f =>
    cases t' <;> simp only [spTypes, Bool.false_eq_true] at hs
    simp [expTypes, spellV_expandType hc ho hs]
  | arr fs =>
    cases t' <;> simp only [spTypes, Bool.false_eq_true] at hs
    simp [expTypes, exp_typeNames hc fs _ ho hs]
  | null => simp [okTypes] at ho
  | bool _ => simp [okTypes] at ho
  | num _ => simp [okTypes] at ho
  | obj _ => simp [okTypes] at ho

theorem exp_idVal {ctx : Ctx} (hc : ctx.spellOk = true) {v v' : Js}
    (ho : okIdVal (iriOk ctx) v = true) (hs : spIdVal ctx v v' = true) : expIdVal ctx v' = some v := by
  cases v with
  | str f =>
    cases v' <;> simp only [spIdVal, Bool.false_eq_true] at hs
    simp [expIdVal, spellId_expandId hc ho hs]
  | null => simp [okIdVal] at ho
  | bool _ => simp [okIdVal] at ho
  | num _ => simp [okIdVal] at ho
  | arr _ => simp [okIdVal] at ho
  | obj _ => simp [okIdVal] at ho

/-! ## Keys of a spelled node object -/

/-- the entry conditions of `okProps` / `spProps`, unfolded -/
theorem okProps_cons {ctx : Ctx} {k : String} {v : Js} {r : List (String × Js)} :
    okProps (iriOk ctx) ((k, v) :: r) = true ↔
      (if k = "@id" then okIdVal (iriOk ctx) v = true
       else if k = "@type" then okTypes (iriOk ctx) v = true
       else iriOk ctx k = true ∧ okVal (iriOk ctx) v = true) ∧ okProps (iriOk ctx) r = true := by
  simp only [okProps, Bool.and_eq_true]
  split
  · simp
  · split <;> simp

theorem spProps_cons {ctx : Ctx} {k k' : String} {v v' : Js} {r r' : List (String × Js)} :
    spProps ctx ((k, v) :: r) ((k', v') :: r') = true ↔
      (if k = "@id" then k' = "@id" ∧ spIdVal ctx v v' = true
       else if k = "@type" then k' = "@type" ∧ spTypes ctx v v' = true
       else spellV ctx k k' = true ∧ spVal ctx v v' = true) ∧ spProps ctx r r' = true := by
  simp only [spProps, Bool.and_eq_true]
  split
  · simp
  · split <;> simp

/-- a spelled node object has no keyword key besides `@id` and `@type` -/
theorem hasKey_sp {ctx : Ctx} (hc : ctx.spellOk = true) {kw : String}
    (h1 : kw ≠ "@id") (h2 : kw ≠ "@type") (hat : startsAt kw.toList = true) :
    ∀ (kvs kvs' : List (String × Js)), okProps (iriOk ctx) kvs = true → spProps ctx kvs kvs' = true →
      hasKey kw kvs' = false
  | [], kvs', _, hs => by cases kvs' <;> simp [spProps] at hs; simp [hasKey]
  | (k, v) :: r, kvs', ho, hs => by
    cases kvs' with
    | nil => simp [spProps] at hs
    | cons kv' r' =>
      obtain ⟨k', v'⟩ := kv'
      rw [okProps_cons] at ho
      rw [spProps_cons] at hs
      have ih := hasKey_sp hc h1 h2 hat r r' ho.2 hs.2
      simp only [hasKey, List.any_cons, Bool.or_eq_false_iff, beq_eq_false_iff_ne, ne_eq] at ih ⊢
      refine ⟨?_, ih⟩
      have hs1 := hs.1
      have ho1 := ho.1
      split at hs1
      · rw [hs1.1]; exact fun e => h1 e.symm
      · split at hs1
        · rw [hs1.1]; exact fun e => h2 e.symm
        · rw [if_neg (by assumption), if_neg (by assumption)] at ho1
          have := (spellV_expand hc ho1.1 hs1.1 false).2.1
          intro e
          rw [e, hat] at this
          cases this

/-! ## Expansion undoes a spelling: values, arrays, node objects -/

mutual
theorem exp_val {ctx : Ctx} (hc : ctx.spellOk = true) :
    ∀ (v v' : Js), okVal (iriOk ctx) v = true → spVal ctx v v' = true → expVal ctx v' = some v
  | .null, v', _, hs => by cases v' <;> simp [spVal] at hs; simp [expVal]
  | .bool a, v', _, hs => by cases v' <;> simp [spVal] at hs; simp [expVal, hs]
  | .num a, v', _, hs => by cases v' <;> simp [spVal] at hs; simp [expVal, hs]
  | .str a, v', _, hs => by cases v' <;> simp [spVal] at hs; simp [expVal, hs]
  | .arr xs, v', ho, hs => by
    cases v' <;> simp only [spVal, Bool.false_eq_true] at hs
    simp only [okVal] at ho
    simp [expVal, exp_vals hc xs _ ho hs]
  | .obj kvs, v', ho, hs => by
    cases v' with
    | obj kvs' =>
      simp only [spVal] at hs
      simp only [okVal] at ho
      by_cases hv : hasKey "@value" kvs = true
      · rw [if_pos hv] at hs
        have e := Js.beqProps_eq kvs kvs' hs
        subst e
        simp [expVal, hv]
      · rw [if_neg hv] at hs ho
        have hk := hasKey_sp hc (kw := "@value") (by decide) (by decide) (by decide) kvs kvs' ho hs
        simp [expVal, hk, exp_props hc kvs kvs' ho hs]
    | null => simp [spVal] at hs
    | bool _ => simp [spVal] at hs
    | num _ => simp [spVal] at hs
    | str _ => simp [spVal] at hs
    | arr _ => simp [spVal] at hs
theorem exp_vals {ctx : Ctx} (hc : ctx.spellOk = true) :
    ∀ (xs ys : List Js), okVals (iriOk ctx) xs = true → spVals ctx xs ys = true →
      expVals ctx ys = some xs
  | [], ys, _, hs => by cases ys <;> simp [spVals] at hs; rfl
  | x :: xs, ys, ho, hs => by
    cases ys with
    | nil => simp [spVals] at hs
    | cons y ys =>
      simp only [spVals, Bool.and_eq_true] at hs
      simp only [okVals, Bool.and_eq_true] at ho
      simp [expVals, exp_val hc x y ho.1 hs.1, exp_vals hc xs ys ho.2 hs.2, consO]
theorem exp_props {ctx : Ctx} (hc : ctx.spellOk = true) :
    ∀ (kvs kvs' : List (String × Js)), okProps (iriOk ctx) kvs = true → spProps ctx kvs kvs' = true →
      expProps ctx kvs' = some kvs
  | [], kvs', _, hs => by cases kvs' <;> simp [spProps] at hs; rfl
  | (k, v) :: r, kvs', ho, hs => by
    cases kvs' with
    | nil => simp [spProps] at hs
    | cons kv' r' =>
      obtain ⟨k', v'⟩ := kv'
      rw [okProps_cons] at ho
      rw [spProps_cons] at hs
      have ih := exp_props hc r r' ho.2 hs.2
      have hs1 := hs.1
      have ho1 := ho.1
      by_cases hid : k = "@id"
      · rw [if_pos hid] at hs1 ho1
        subst hid
        rw [hs1.1]
        simp [expProps, exp_idVal hc ho1 hs1.2, ih, consO]
      · rw [if_neg hid] at hs1 ho1
        by_cases hty : k = "@type"
        · rw [if_pos hty] at hs1 ho1
          subst hty
          rw [hs1.1]
          simp [expProps, exp_types hc ho1 hs1.2, ih, consO]
        · rw [if_neg hty] at hs1 ho1
          obtain ⟨_, hat, hne⟩ := spellV_expand hc ho1.1 hs1.1 false
          obtain ⟨n1, n2, _⟩ := not_at_ne hat
          have hcolon : ':' ∈ k.toList := (absIri_facts (iriOk_facts ho1.1).1).2
          have hne' : k'.toList.isEmpty = false := by simpa using hne
          simp only [expProps]
          rw [if_neg n1, if_neg n2, hne', spellV_expandKey hc ho1.1 hs1.1]
          simp [hcolon, exp_val hc v v' ho1.2 hs1.2, ih, consO]
end

/-! ## The reader on a rendered context -/

theorem not_at_ne_ctx {s : String} (h : startsAt s.toList = false) : s ≠ "@base" ∧ s ≠ "@vocab" := by
  refine ⟨?_, ?_⟩ <;> (rintro rfl; revert h; decide)

theorem readEntries_prefixes (ps : List (String × String)) (tail : List (String × Js)) (c : Ctx)
    (hps : ∀ pn ∈ ps, startsAt pn.1.toList = false) (ht : readEntries tail = some c) :
    readEntries (ps.map (fun pn => (pn.1, Js.str pn.2)) ++ tail) =
      some { c with prefixes := ps ++ c.prefixes } := by
  induction ps with
  | nil => simpa using ht
  | cons pn ps ih =>
    have h1 := hps pn (by simp)
    obtain ⟨n1, n2⟩ := not_at_ne_ctx h1
    have ih' := ih (fun q hq => hps q (by simp [hq]))
    simp only [List.map_cons, List.cons_append, readEntries, ih', if_neg n1, if_neg n2, h1]
    simp

theorem readEntries_tail (base vocab : Option String) :
    readEntries (optEntry "@base" base ++ optEntry "@vocab" vocab) = some ⟨[], base, vocab⟩ := by
  cases base <;> cases vocab <;> simp [readEntries, optEntry] <;> decide

theorem readCtx_ctxJs {ctx : Ctx} (h : ctx.ok = true) : readCtx (ctxJs ctx) = some ctx := by
  have hps : ∀ pn ∈ ctx.prefixes, startsAt pn.1.toList = false :=
    fun pn hm => (ok_prefix h hm).noAt
  obtain ⟨ps, b, v⟩ := ctx
  have := readEntries_prefixes ps _ _ hps (readEntries_tail b v)
  simp only [List.append_nil] at this
  simp only [ctxJs, readCtx, List.append_assoc]
  rw [this]
  simp only [h, if_true]

/-! ## `expand_spelling` -/

theorem hasKey_graph_single {k : String} {v : Js} (h : hasKey "@graph" [(k, v)] = true) :
    k = "@graph" := by
  simpa [hasKey] using h

/-- Expansion undoes every context spelling: if every IRI occurrence of the context-free document
`d` satisfies `iriOk` (`docOk`), the context satisfies `Ctx.spellOk` and `d′` is a spelling of `d`,
then `d′` with the context attached expands to `d` (to `{"@graph": d}` when `d` is an array). -/
theorem expand_spelling_aux {ctx : Ctx} (hc : ctx.spellOk = true) {d d' : Js}
    (hd : docOk ctx d = true) (hs : spDoc ctx d d' = true) :
    expandDoc (withContext ctx d') = some (asGraph d) := by
  have hr := readCtx_ctxJs (ok_of_spellOk hc)
  cases d with
  | arr xs =>
    cases d' <;> simp only [spDoc, Bool.false_eq_true] at hs
    rename_i ys
    simp only [docOk, docOkP] at hd
    have := exp_vals hc xs ys hd hs
    simp [withContext, expandDoc, hasKey, splitContext, hr, this, asGraph]
  | obj kvs =>
    cases d' with
    | obj kvs' =>
      simp only [spDoc] at hs
      simp only [docOk, docOkP] at hd
      by_cases hg : hasKey "@graph" kvs = true
      · rw [if_pos hg] at hs hd
        match kvs, kvs', hg, hs, hd with
        | [(k, .arr xs)], [(k', .arr ys)], hg, hs, hd =>
          simp only [Bool.and_eq_true, beq_iff_eq] at hs
          obtain ⟨rfl, hs⟩ := hs
          have hk := hasKey_graph_single hg
          subst hk
          have := exp_vals hc xs ys hd hs
          simp [withContext, expandDoc, hasKey, splitContext, hr, this, asGraph]
      · rw [if_neg hg] at hs hd
        have h1 := hasKey_sp hc (kw := "@context") (by decide) (by decide) (by decide) kvs kvs' hd hs
        have h2 := hasKey_sp hc (kw := "@graph") (by decide) (by decide) (by decide) kvs kvs' hd hs
        have := exp_props hc kvs kvs' hd hs
        simp only [hasKey] at h1 h2
        simp [withContext, expandDoc, hasKey, splitContext, h1, h2, hr, this, asGraph]
    | null => simp [spDoc] at hs
    | bool _ => simp [spDoc] at hs
    | num _ => simp [spDoc] at hs
    | str _ => simp [spDoc] at hs
    | arr _ => simp [spDoc] at hs
  | null => simp [docOk, docOkP] at hd
  | bool _ => simp [docOk, docOkP] at hd
  | num _ => simp [docOk, docOkP] at hd
  | str _ => simp [docOk, docOkP] at hd

theorem norm_asGraph (d : Js) : norm (asGraph d) = norm d := by
  cases d <;> simp [asGraph, norm, triples, hasKey]

/-! ## Serialisations of a graph satisfy the document-level side condition -/

/-- `gAll P g` as a proposition -/
def GAll (P : String → Bool) (g : Graph) : Prop :=
  ∀ n ∈ g, P n.id = true ∧ (∀ c ∈ n.types, P c = true) ∧
    ∀ kv ∈ n.props, P kv.1 = true ∧ ∀ v ∈ kv.2, ∀ id, v = Val.ref id → P id = true

theorem GAll_of {P : String → Bool} {g : Graph} (h : gAll P g = true) : GAll P g := by
  intro n hn
  simp only [gAll, List.all_eq_true, Bool.and_eq_true] at h
  obtain ⟨⟨h1, h2⟩, h3⟩ := h n hn
  refine ⟨h1, h2, fun kv hkv => ⟨(h3 kv hkv).1, fun v hv id e => ?_⟩⟩
  have := (h3 kv hkv).2 v hv
  subst e
  exact this

theorem gAll_mono {P Q : String → Bool} (hPQ : ∀ f, P f = true → Q f = true) {g : Graph}
    (h : gAll P g = true) : gAll Q g = true := by
  simp only [gAll, List.all_eq_true, Bool.and_eq_true] at h ⊢
  intro n hn
  obtain ⟨⟨h1, h2⟩, h3⟩ := h n hn
  refine ⟨⟨hPQ _ h1, fun c hc => hPQ _ (h2 c hc)⟩, fun kv hkv => ⟨hPQ _ (h3 kv hkv).1, fun v hv => ?_⟩⟩
  have := (h3 kv hkv).2 v hv
  cases v <;> simp_all

theorem okVal_serVal {P : String → Bool} (v : Val) (wrap : Bool)
    (h : ∀ id, v = Val.ref id → P id = true) : okVal P (serVal v wrap) = true := by
  cases v with
  | str s => cases wrap <;> simp [serVal, okVal, hasKey]
  | num i => cases wrap <;> simp [serVal, okVal, hasKey]
  | bool b => cases wrap <;> simp [serVal, okVal, hasKey]
  | ref r => simp [serVal, okVal, hasKey, okProps, okIdVal, h r rfl]

theorem okVal_bareOr {P : String → Bool} (b : Bool) (xs : List Js) (h : okVals P xs = true) :
    okVal P (bareOr b xs) = true := by
  cases b with
  | false => simpa [bareOr, okVal] using h
  | true =>
    match xs, h with
    | [], h => simpa [bareOr, okVal] using h
    | [x], h =>
      simp only [okVals, Bool.and_true] at h
      simpa [bareOr] using h
    | _ :: _ :: _, h => simpa [bareOr, okVal] using h

theorem okTypeNames_map {P : String → Bool} (cs : List String) (h : ∀ c ∈ cs, P c = true) :
    okTypeNames P (cs.map Js.str) = true := by
  induction cs with
  | nil => rfl
  | cons c cs ih =>
    simp [okTypeNames, h c (by simp), ih (fun x hx => h x (by simp [hx]))]

theorem okTypes_bareOr {P : String → Bool} (b : Bool) (cs : List String)
    (h : ∀ c ∈ cs, P c = true) : okTypes P (bareOr b (cs.map Js.str)) = true := by
  have hall := okTypeNames_map cs h
  cases b with
  | false => simpa [bareOr, okTypes] using hall
  | true =>
    match cs, h, hall with
    | [], _, _ => simp [bareOr, okTypes, okTypeNames]
    | [c], h, _ => simpa [bareOr, okTypes] using h c (by simp)
    | _ :: _ :: _, _, hall => simpa [bareOr, okTypes] using hall

theorem iriOk_ne {ctx : Ctx} {k : String} (h : iriOk ctx k = true) : k ≠ "@id" ∧ k ≠ "@type" := by
  have := not_at_ne (absIri_facts (iriOk_facts h).1).1
  exact ⟨this.1, this.2.1⟩

/-- the entry condition of `okProps` for an arbitrary predicate -/
theorem okPropsP_cons {P : String → Bool} {k : String} {v : Js} {r : List (String × Js)} :
    okProps P ((k, v) :: r) = true ↔
      (if k = "@id" then okIdVal P v = true
       else if k = "@type" then okTypes P v = true
       else P k = true ∧ okVal P v = true) ∧ okProps P r = true := by
  simp only [okProps, Bool.and_eq_true]
  split
  · simp
  · split <;> simp

mutual
theorem ok_VC {P : String → Bool} (hP : ∀ k, P k = true → k ≠ "@id" ∧ k ≠ "@type") (g : Graph)
    (hG : GOk g) (hI : GAll P g) (i p : Nat)
    (hi : i < g.length) (hp : p < (nodeAt g i).props.length) :
    ∀ c : VC, okVC g (propAt (nodeAt g i) p).2 c = true →
      okVal P (serVC g (propAt (nodeAt g i) p).2 c) = true
  | .plain q wrap, hok => by
    simp only [okVC, decide_eq_true_eq] at hok
    have hv := ((hI _ (nodeAt_mem hi)).2.2 _ (propAt_mem hp)).2 _ (valAt_mem hok)
    simpa [serVC] using okVal_serVal _ wrap hv
  | .embed q i' items, hok => by
    simp only [okVC, Bool.and_eq_true, decide_eq_true_eq] at hok
    obtain ⟨⟨⟨⟨⟨_, hi'⟩, _⟩, hits⟩, _⟩, _⟩ := hok
    have h1 : hasKey "@value" (serItems g (nodeAt g i') items) = false :=
      hasKey_serItems (nodeAt_mem hi') hG "@value" (by decide) (by decide) (by decide) items hits
    simp only [serVC, okVal, h1]
    exact ok_Items hP g hG hI i' hi' items hits
theorem ok_VCs {P : String → Bool} (hP : ∀ k, P k = true → k ≠ "@id" ∧ k ≠ "@type") (g : Graph)
    (hG : GOk g) (hI : GAll P g) (i p : Nat)
    (hi : i < g.length) (hp : p < (nodeAt g i).props.length) :
    ∀ cs : List VC, okVCs g (propAt (nodeAt g i) p).2 cs = true →
      okVals P (serVCs g (propAt (nodeAt g i) p).2 cs) = true
  | [], _ => by simp [serVCs, okVals]
  | c :: cs, hok => by
    simp only [okVCs, Bool.and_eq_true] at hok
    simp [serVCs, okVals, ok_VC hP g hG hI i p hi hp c hok.1, ok_VCs hP g hG hI i p hi hp cs hok.2]
theorem ok_Item {P : String → Bool} (hP : ∀ k, P k = true → k ≠ "@id" ∧ k ≠ "@type") (g : Graph)
    (hG : GOk g) (hI : GAll P g) (i : Nat) (hi : i < g.length) :
    ∀ it : Item, okItem g (nodeAt g i) it = true → ∀ rest, okProps P rest = true →
      okProps P (serItem g (nodeAt g i) it :: rest) = true
  | .id, _, rest, hr => by
    simp [serItem, okProps, okIdVal, (hI _ (nodeAt_mem hi)).1, hr]
  | .types js b, hok, rest, hr => by
    simp only [okItem, Bool.and_eq_true, List.all_eq_true, decide_eq_true_eq] at hok
    have hall : ∀ c ∈ js.map (typeAt (nodeAt g i)), P c = true := by
      intro c hc
      obtain ⟨j, hj, rfl⟩ := List.mem_map.1 hc
      exact (hI _ (nodeAt_mem hi)).2.1 _ (typeAt_mem (hok.2 j hj))
    have := okTypes_bareOr b _ hall
    simp only [List.map_map] at this
    show okProps P (("@type", bareOr b (js.map fun j => Js.str (typeAt (nodeAt g i) j))) :: rest) = true
    rw [okPropsP_cons]
    exact ⟨this, hr⟩
  | .prop p b vals, hok, rest, hr => by
    simp only [okItem, Bool.and_eq_true, decide_eq_true_eq] at hok
    have hk := ((hI _ (nodeAt_mem hi)).2.2 _ (propAt_mem hok.1)).1
    obtain ⟨n1, n2⟩ := hP _ hk
    have hv := okVal_bareOr b _ (ok_VCs hP g hG hI i p hi hok.1 vals hok.2)
    show okProps P (((propAt (nodeAt g i) p).1,
      bareOr b (serVCs g (propAt (nodeAt g i) p).2 vals)) :: rest) = true
    rw [okPropsP_cons, if_neg n1, if_neg n2]
    exact ⟨⟨hk, hv⟩, hr⟩
theorem ok_Items {P : String → Bool} (hP : ∀ k, P k = true → k ≠ "@id" ∧ k ≠ "@type") (g : Graph)
    (hG : GOk g) (hI : GAll P g) (i : Nat) (hi : i < g.length) :
    ∀ items : List Item, okItems g (nodeAt g i) items = true →
      okProps P (serItems g (nodeAt g i) items) = true
  | [], _ => by simp [serItems, okProps]
  | it :: its, hok => by
    obtain ⟨h1, h2⟩ := okItems_cons.1 hok
    simp only [serItems]
    exact ok_Item hP g hG hI i hi it h1 _ (ok_Items hP g hG hI i hi its h2)
end

theorem okVal_occ {P : String → Bool} (hP : ∀ k, P k = true → k ≠ "@id" ∧ k ≠ "@type") (g : Graph)
    (hG : GOk g) (hI : GAll P g) (o : Occ)
    (hok : okOcc g o = true) : okVal P (serOcc g o) = true := by
  simp only [okOcc, Bool.and_eq_true, decide_eq_true_eq] at hok
  obtain ⟨⟨⟨hi, hits⟩, _⟩, _⟩ := hok
  have h1 : hasKey "@value" (serItems g (nodeAt g o.node) o.items) = false :=
    hasKey_serItems (nodeAt_mem hi) hG "@value" (by decide) (by decide) (by decide) o.items hits
  simp only [serOcc, okVal, h1]
  exact ok_Items hP g hG hI o.node hi o.items hits

theorem okVals_top {P : String → Bool} (hP : ∀ k, P k = true → k ≠ "@id" ∧ k ≠ "@type") (g : Graph)
    (hG : GOk g) (hI : GAll P g) :
    ∀ os : List Occ, (∀ o ∈ os, okOcc g o = true) → okVals P (os.map (serOcc g)) = true := by
  intro os
  induction os with
  | nil => intro _; rfl
  | cons o os ih =>
    intro h
    simp [okVals, okVal_occ hP g hG hI o (h o (by simp)), ih (fun x hx => h x (by simp [hx]))]

/-- every well-formed serialisation of a graph whose IRIs satisfy `P` satisfies `docOkP P` -/
theorem docOkP_ser {P : String → Bool} (hP : ∀ k, P k = true → k ≠ "@id" ∧ k ≠ "@type")
    (g : Graph) (c : Choice) (h : WF g c = true)
    (hI : gAll P g = true) : docOkP P (ser g c) = true := by
  simp only [WF, Bool.and_eq_true, List.all_eq_true] at h
  obtain ⟨⟨⟨⟨hg, hocc⟩, _⟩, _⟩, hform⟩ := h
  have hG := GOk_of_gOk hg
  have hI' := GAll_of hI
  have htop := okVals_top hP g hG hI' c.top hocc
  obtain ⟨top, form⟩ := c
  cases form with
  | array => simpa [ser, docOkP] using htop
  | graph => simpa [ser, docOkP, hasKey] using htop
  | single =>
    have hlen : top.length = 1 := by simpa using hform
    match top, hlen, hocc, htop with
    | [o], _, hocc, _ =>
      have ho := hocc o (by simp)
      have hk := hasKey_graph_occ g hG o ho
      have a := okVal_occ hP g hG hI' o ho
      simp only [okOcc, Bool.and_eq_true, decide_eq_true_eq] at ho
      have h1 : hasKey "@value" (serItems g (nodeAt g o.node) o.items) = false :=
        hasKey_serItems (nodeAt_mem ho.1.1.1) hG "@value" (by decide) (by decide) (by decide)
          o.items ho.1.1.2
      simp only [serOcc, okVal, h1] at a
      simp only [ser, List.map_cons, List.map_nil, serOcc, docOkP, hk]
      exact a

theorem docOk_ser {ctx : Ctx} (g : Graph) (c : Choice) (h : WF g c = true)
    (hI : gIrisOk ctx g = true) : docOk ctx (ser g c) = true :=
  docOkP_ser (fun _ hk => iriOk_ne hk) g c h hI

/-- a serialisation of a graph has no top-level `@context` -/
theorem expandDoc_ser (g : Graph) (c : Choice) (h : WF g c = true) :
    expandDoc (ser g c) = some (ser g c) := by
  simp only [WF, Bool.and_eq_true, List.all_eq_true] at h
  obtain ⟨⟨⟨⟨hg, hocc⟩, _⟩, _⟩, hform⟩ := h
  have hG := GOk_of_gOk hg
  obtain ⟨top, form⟩ := c
  cases form with
  | array => simp [ser, expandDoc]
  | graph => simp [ser, expandDoc, hasKey]
  | single =>
    have hlen : top.length = 1 := by simpa using hform
    match top, hlen, hocc with
    | [o], _, hocc =>
      have ho := hocc o (by simp)
      simp only [okOcc, Bool.and_eq_true, decide_eq_true_eq] at ho
      have h1 : hasKey "@context" (serItems g (nodeAt g o.node) o.items) = false :=
        hasKey_serItems (nodeAt_mem ho.1.1.1) hG "@context" (by decide) (by decide) (by decide)
          o.items ho.1.1.2
      simp [ser, serOcc, expandDoc, h1]

/-! ## The unguarded relation: under `iriOk₀` every `spDoc₀`-spelling is a `spDoc`-spelling -/

theorem iriOk₀_facts {ctx : Ctx} {f : String} (h : iriOk₀ ctx f = true) :
    iriOk ctx f = true ∧ sufOk ctx f = true ∧ relOk ctx f = true := by
  simp only [iriOk₀, Bool.and_eq_true] at h
  exact ⟨h.1.1, h.1.2, h.2⟩

theorem viaPrefix_of₀ {ctx : Ctx} {f s : String} (hf : sufOk ctx f = true) {pn : String × String}
    (hm : pn ∈ ctx.prefixes) (h : viaPrefix₀ pn f s = true) : viaPrefix pn f s = true := by
  simp only [sufOk, List.all_eq_true] at hf
  have := hf pn hm
  unfold viaPrefix₀ at h
  unfold viaPrefix
  split at h
  · rename_i suf e
    rw [e] at this
    simp only [Bool.and_eq_true]
    exact ⟨this, h⟩
  · cases h

theorem spellV_of₀ {ctx : Ctx} {f s : String} (hf : iriOk₀ ctx f = true)
    (h : spellV₀ ctx f s = true) : spellV ctx f s = true := by
  obtain ⟨_, h2, _⟩ := iriOk₀_facts hf
  simp only [spellV₀, Bool.or_eq_true, beq_iff_eq, List.any_eq_true] at h
  simp only [spellV, Bool.or_eq_true, beq_iff_eq, List.any_eq_true]
  rcases h with h | ⟨pn, hm, hv⟩
  · exact Or.inl (Or.inl (Or.inl h))
  · exact Or.inl (Or.inl (Or.inr ⟨pn, hm, viaPrefix_of₀ h2 hm hv⟩))

theorem spellId_of₀ {ctx : Ctx} {f s : String} (hf : iriOk₀ ctx f = true)
    (h : spellId₀ ctx f s = true) : spellId ctx f s = true := by
  obtain ⟨_, h2, h3⟩ := iriOk₀_facts hf
  simp only [spellId₀, Bool.or_eq_true, beq_iff_eq, List.any_eq_true] at h
  simp only [spellId, Bool.or_eq_true, beq_iff_eq, List.any_eq_true]
  rcases h with (h | ⟨pn, hm, hv⟩) | hv
  · exact Or.inl (Or.inl h)
  · exact Or.inl (Or.inr ⟨pn, hm, viaPrefix_of₀ h2 hm hv⟩)
  · refine Or.inr ?_
    unfold viaBase₀ at hv
    unfold relOk at h3
    unfold viaBase
    split at hv
    · rename_i b hb
      simp only [hb] at h3 ⊢
      simp only [beq_iff_eq] at hv
      rw [hv] at h3
      simp only [Bool.and_eq_true] at h3
      simp [h3.1, h3.2, hv]
    · cases hv

theorem typeNames_of₀ {ctx : Ctx} :
    ∀ (fs ss : List Js), okTypeNames (iriOk₀ ctx) fs = true → spTypeNames₀ ctx fs ss = true →
      spTypeNames ctx fs ss = true ∧ okTypeNames (iriOk ctx) fs = true
  | [], ss, _, hs => by cases ss <;> simp [spTypeNames₀] at hs; simp [spTypeNames, okTypeNames]
  | .str f :: r, ss, ho, hs => by
    cases ss with
    | nil => simp [spTypeNames₀] at hs
    | cons y r' =>
      cases y <;> simp only [spTypeNames₀, Bool.and_eq_true, Bool.false_eq_true] at hs
      simp only [okTypeNames, Bool.and_eq_true] at ho
      obtain ⟨i1, i2⟩ := typeNames_of₀ r r' ho.2 hs.2
      simp [spTypeNames, okTypeNames, spellV_of₀ ho.1 hs.1, (iriOk₀_facts ho.1).1, i1, i2]
  | .null :: _, _, ho, _ => by simp [okTypeNames] at ho
  | .bool _ :: _, _, ho, _ => by simp [okTypeNames] at ho
  | .num _ :: _, _, ho, _ => by simp [okTypeNames] at ho
  | .arr _ :: _, _, ho, _ => by simp [okTypeNames] at ho
  | .obj _ :: _, _, ho, _ => by simp [okTypeNames] at ho

theorem types_of₀ {ctx : Ctx} {t t' : Js} (ho : okTypes (iriOk₀ ctx) t = true)
    (hs : spTypes₀ ctx t t' = true) :
    spTypes ctx t t' = true ∧ okTypes (iriOk ctx) t = true := by
  cases t with
  | str f =>
    cases t' <;> simp only [spTypes₀, Bool.false_eq_true] at hs
    simp only [okTypes] at ho
    simp [spTypes, okTypes, spellV_of₀ ho hs, (iriOk₀_facts ho).1]
  | arr fs =>
    cases t' <;> simp only [spTypes₀, Bool.false_eq_true] at hs
    simp only [okTypes] at ho
    simpa [spTypes, okTypes] using typeNames_of₀ fs _ ho hs
  | null => simp [okTypes] at ho
  | bool _ => simp [okTypes] at ho
  | num _ => simp [okTypes] at ho
  | obj _ => simp [okTypes] at ho

theorem idVal_of₀ {ctx : Ctx} {v v' : Js} (ho : okIdVal (iriOk₀ ctx) v = true)
    (hs : spIdVal₀ ctx v v' = true) :
    spIdVal ctx v v' = true ∧ okIdVal (iriOk ctx) v = true := by
  cases v with
  | str f =>
    cases v' <;> simp only [spIdVal₀, Bool.false_eq_true] at hs
    simp only [okIdVal] at ho
    simp [spIdVal, okIdVal, spellId_of₀ ho hs, (iriOk₀_facts ho).1]
  | null => simp [okIdVal] at ho
  | bool _ => simp [okIdVal] at ho
  | num _ => simp [okIdVal] at ho
  | arr _ => simp [okIdVal] at ho
  | obj _ => simp [okIdVal] at ho

theorem spProps₀_cons {ctx : Ctx} {k k' : String} {v v' : Js} {r r' : List (String × Js)} :
    spProps₀ ctx ((k, v) :: r) ((k', v') :: r') = true ↔
      (if k = "@id" then k' = "@id" ∧ spIdVal₀ ctx v v' = true
       else if k = "@type" then k' = "@type" ∧ spTypes₀ ctx v v' = true
       else spellV₀ ctx k k' = true ∧ spVal₀ ctx v v' = true) ∧ spProps₀ ctx r r' = true := by
  simp only [spProps₀, Bool.and_eq_true]
  split
  · simp
  · split <;> simp

mutual
theorem val_of₀ {ctx : Ctx} :
    ∀ (v v' : Js), okVal (iriOk₀ ctx) v = true → spVal₀ ctx v v' = true →
      spVal ctx v v' = true ∧ okVal (iriOk ctx) v = true
  | .null, v', _, hs => by cases v' <;> simp [spVal₀] at hs; simp [spVal, okVal]
  | .bool a, v', _, hs => by cases v' <;> simp [spVal₀] at hs; simp [spVal, okVal, hs]
  | .num a, v', _, hs => by cases v' <;> simp [spVal₀] at hs; simp [spVal, okVal, hs]
  | .str a, v', _, hs => by cases v' <;> simp [spVal₀] at hs; simp [spVal, okVal, hs]
  | .arr xs, v', ho, hs => by
    cases v' <;> simp only [spVal₀, Bool.false_eq_true] at hs
    simp only [okVal] at ho
    simpa [spVal, okVal] using vals_of₀ xs _ ho hs
  | .obj kvs, v', ho, hs => by
    cases v' with
    | obj kvs' =>
      simp only [spVal₀] at hs
      simp only [okVal] at ho
      by_cases hv : hasKey "@value" kvs = true
      · rw [if_pos hv] at hs
        simp [spVal, okVal, hv, hs]
      · rw [if_neg hv] at hs ho
        simpa [spVal, okVal, hv] using props_of₀ kvs kvs' ho hs
    | null => simp [spVal₀] at hs
    | bool _ => simp [spVal₀] at hs
    | num _ => simp [spVal₀] at hs
    | str _ => simp [spVal₀] at hs
    | arr _ => simp [spVal₀] at hs
theorem vals_of₀ {ctx : Ctx} :
    ∀ (xs ys : List Js), okVals (iriOk₀ ctx) xs = true → spVals₀ ctx xs ys = true →
      spVals ctx xs ys = true ∧ okVals (iriOk ctx) xs = true
  | [], ys, _, hs => by cases ys <;> simp [spVals₀] at hs; simp [spVals, okVals]
  | x :: xs, ys, ho, hs => by
    cases ys with
    | nil => simp [spVals₀] at hs
    | cons y ys =>
      simp only [spVals₀, Bool.and_eq_true] at hs
      simp only [okVals, Bool.and_eq_true] at ho
      obtain ⟨a1, a2⟩ := val_of₀ x y ho.1 hs.1
      obtain ⟨b1, b2⟩ := vals_of₀ xs ys ho.2 hs.2
      simp [spVals, okVals, a1, a2, b1, b2]
theorem props_of₀ {ctx : Ctx} :
    ∀ (kvs kvs' : List (String × Js)), okProps (iriOk₀ ctx) kvs = true →
      spProps₀ ctx kvs kvs' = true →
      spProps ctx kvs kvs' = true ∧ okProps (iriOk ctx) kvs = true
  | [], kvs', _, hs => by cases kvs' <;> simp [spProps₀] at hs; simp [spProps, okProps]
  | (k, v) :: r, kvs', ho, hs => by
    cases kvs' with
    | nil => simp [spProps₀] at hs
    | cons kv' r' =>
      obtain ⟨k', v'⟩ := kv'
      rw [okPropsP_cons] at ho
      rw [spProps₀_cons] at hs
      obtain ⟨i1, i2⟩ := props_of₀ r r' ho.2 hs.2
      rw [spProps_cons, okPropsP_cons]
      have hs1 := hs.1
      have ho1 := ho.1
      by_cases hid : k = "@id"
      · rw [if_pos hid] at hs1 ho1 ⊢
        rw [if_pos hid]
        obtain ⟨a1, a2⟩ := idVal_of₀ ho1 hs1.2
        exact ⟨⟨⟨hs1.1, a1⟩, i1⟩, a2, i2⟩
      · rw [if_neg hid] at hs1 ho1 ⊢
        rw [if_neg hid]
        by_cases hty : k = "@type"
        · rw [if_pos hty] at hs1 ho1 ⊢
          rw [if_pos hty]
          obtain ⟨a1, a2⟩ := types_of₀ ho1 hs1.2
          exact ⟨⟨⟨hs1.1, a1⟩, i1⟩, a2, i2⟩
        · rw [if_neg hty] at hs1 ho1 ⊢
          rw [if_neg hty]
          obtain ⟨a1, a2⟩ := val_of₀ v v' ho1.2 hs1.2
          exact ⟨⟨⟨spellV_of₀ ho1.1 hs1.1, a1⟩, i1⟩, ⟨(iriOk₀_facts ho1.1).1, a2⟩, i2⟩
end

/-- under `iriOk₀` on every IRI of `d`, a spelling in the unguarded sense is a spelling in the
guarded sense (and `d` satisfies `docOk`) -/
theorem doc_of₀ {ctx : Ctx} {d d' : Js} (ho : docOkP (iriOk₀ ctx) d = true)
    (hs : spDoc₀ ctx d d' = true) : spDoc ctx d d' = true ∧ docOk ctx d = true := by
  cases d with
  | arr xs =>
    cases d' <;> simp only [spDoc₀, Bool.false_eq_true] at hs
    simp only [docOkP] at ho
    simpa [spDoc, docOk, docOkP] using vals_of₀ xs _ ho hs
  | obj kvs =>
    cases d' with
    | obj kvs' =>
      simp only [spDoc₀] at hs
      simp only [docOkP] at ho
      by_cases hg : hasKey "@graph" kvs = true
      · rw [if_pos hg] at hs ho
        match kvs, kvs', hg, hs, ho with
        | [(k, .arr xs)], [(k', .arr ys)], hg, hs, ho =>
          simp only [Bool.and_eq_true, beq_iff_eq] at hs
          obtain ⟨rfl, hs2⟩ := hs
          obtain ⟨a1, a2⟩ := vals_of₀ xs ys ho hs2
          simp only [spDoc, docOk, docOkP, hg, if_true, Bool.and_eq_true, beq_iff_eq]
          exact ⟨⟨trivial, a1⟩, a2⟩
      · rw [if_neg hg] at hs ho
        simpa [spDoc, docOk, docOkP, hg] using props_of₀ kvs kvs' ho hs
    | null => simp [spDoc₀] at hs
    | bool _ => simp [spDoc₀] at hs
    | num _ => simp [spDoc₀] at hs
    | str _ => simp [spDoc₀] at hs
    | arr _ => simp [spDoc₀] at hs
  | null => simp [docOkP] at ho
  | bool _ => simp [docOkP] at ho
  | num _ => simp [docOkP] at ho
  | str _ => simp [docOkP] at ho

end Acv.Ld
