import Acv.Lemmas.ProfileParser
/-!
# The tags of mapping KEYS are invisible to the profile parser

`Yaml.Get` compares only the text of a scalar key (`Y.isKey`), and `GetMapKeys` returns only the text of the
keys, so a key written plain (`1001:`, tag `!!int`) or quoted (`"1001":`, tag `!!str`) is the same key.

* `Y.retagKeys f` rewrites the tag of every scalar in key position, at every depth, with `f oldTag text`;
  the tags of values are untouched.
* `pev_retagKeys`, `parseExpression_retagKeys`, `parseProfileWith_retagKeys`, `parseProfile_retagKeys`: the
  parser returns the same result (rule tree, variables, error) on `y` and on `y.retagKeys f`.
* `SimAll y (y.retagKeys f)` is FALSE in general (`not_simAll_retagKeys`): `Sim` demands that the values the
  parser does not descend into (`rego`, `regoModule`, `targetClass`, `message`, every constraint other than
  `nested` / `atLeast` / `atMost` / `exactly`, the `count` of a qualified constraint) be EQUAL, and a mapping
  value with a re-tagged key is a different tree.  `simAll_retagKeys_partial` is what is true of `SimAll`: re-tag
  the keys at the positions `Sim` looks through (`Y.retagSkel`).  The parser-level statements above do not go
  through `SimAll` and have no such restriction.
-/
namespace Acv.PP
open Acv

/-! ## The re-tagging function -/

mutual
/-- rewrite the tag of every scalar mapping key below `y` (the tags of values are kept) -/
def Y.retagKeys (f : String → String → String) : Y → Y
  | .scalar tag v => .scalar tag v
  | .other v => .other v
  | .seq items => .seq (retagList f items)
  | .map es => .map (retagEntries f es)
/-- a node in KEY position: a scalar gets the new tag; a collection used as a key is traversed like a value -/
def Y.retagKeyPos (f : String → String → String) : Y → Y
  | .scalar tag v => .scalar (f tag v) v
  | .other v => .other v
  | .seq items => .seq (retagList f items)
  | .map es => .map (retagEntries f es)
def retagList (f : String → String → String) : List Y → List Y
  | [] => []
  | y :: ys => y.retagKeys f :: retagList f ys
def retagEntries (f : String → String → String) : List (Y × Y) → List (Y × Y)
  | [] => []
  | (k, v) :: es => (k.retagKeyPos f, v.retagKeys f) :: retagEntries f es
end

section Retag
variable (f : String → String → String)

@[simp] theorem retagKeys_scalar (tag v : String) : (Y.scalar tag v).retagKeys f = .scalar tag v := by
  simp [Y.retagKeys]
@[simp] theorem retagKeys_other (v : String) : (Y.other v).retagKeys f = .other v := by simp [Y.retagKeys]
@[simp] theorem retagKeys_seq (xs : List Y) : (Y.seq xs).retagKeys f = .seq (retagList f xs) := by
  simp [Y.retagKeys]
@[simp] theorem retagKeys_map (es : List (Y × Y)) : (Y.map es).retagKeys f = .map (retagEntries f es) := by
  simp [Y.retagKeys]
@[simp] theorem retagList_nil : retagList f [] = [] := by simp [retagList]
@[simp] theorem retagList_cons (y : Y) (ys : List Y) :
    retagList f (y :: ys) = y.retagKeys f :: retagList f ys := by simp [retagList]
@[simp] theorem retagEntries_nil : retagEntries f [] = [] := by simp [retagEntries]
@[simp] theorem retagEntries_cons (k v : Y) (es : List (Y × Y)) :
    retagEntries f ((k, v) :: es) = (k.retagKeyPos f, v.retagKeys f) :: retagEntries f es := by
  simp [retagEntries]

theorem retagKeyPos_isKey (k : Y) (s : String) : (k.retagKeyPos f).isKey s = k.isKey s := by
  cases k <;> simp [Y.retagKeyPos, Y.isKey]

theorem retagKeyPos_val (k : Y) : (k.retagKeyPos f).val = k.val := by
  cases k <;> simp [Y.retagKeyPos, Y.val]

theorem retagKeys_val (y : Y) : (y.retagKeys f).val = y.val := by
  cases y <;> simp [Y.val]

theorem getEntries_retag (es : List (Y × Y)) (k : String) :
    getEntries (retagEntries f es) k = (getEntries es k).map (Y.retagKeys f) := by
  induction es with
  | nil => simp [getEntries]
  | cons e es ih =>
    obtain ⟨key, v⟩ := e
    simp only [retagEntries_cons, getEntries, retagKeyPos_isKey, ih]
    split <;> rfl

/-- `Get` commutes with re-tagging: the same entry is found, its value is re-tagged below -/
theorem get_retag (y : Y) (k : String) : (y.retagKeys f).get k = (y.get k).map (Y.retagKeys f) := by
  cases y with
  | map es => simp only [retagKeys_map, Y.get, getEntries_retag]
  | scalar _ _ => simp [Y.get]
  | seq _ => simp [Y.get]
  | other _ => simp [Y.get]

theorem isMap_retag (y : Y) : isMap (some (y.retagKeys f)) = isMap (some y) := by
  cases y <;> simp [isMap]

theorem sameKind_retag (y : Y) : sameKind y (y.retagKeys f) := (isMap_retag f y).symm

theorem str?_retag (y : Y) : str? (some (y.retagKeys f)) = str? (some y) := by
  cases y <;> simp [str?]

theorem int?_retag (y : Y) : int? (some (y.retagKeys f)) = int? (some y) := by
  cases y <;> simp [int?]

theorem bool?_retag (y : Y) : bool? (some (y.retagKeys f)) = bool? (some y) := by
  cases y <;> simp [bool?]

theorem floatText?_retag (y : Y) : floatText? (some (y.retagKeys f)) = floatText? (some y) := by
  cases y <;> simp [floatText?]

theorem str?_map_retag (o : Option Y) : str? (o.map (Y.retagKeys f)) = str? o := by
  cases o with
  | none => rfl
  | some y => exact str?_retag f y

theorem int?_map_retag (o : Option Y) : int? (o.map (Y.retagKeys f)) = int? o := by
  cases o with
  | none => rfl
  | some y => exact int?_retag f y

theorem bool?_map_retag (o : Option Y) : bool? (o.map (Y.retagKeys f)) = bool? o := by
  cases o with
  | none => rfl
  | some y => exact bool?_retag f y

theorem entries_val_retag (es : List (Y × Y)) :
    (retagEntries f es).map (fun e => e.1.val) = es.map (fun e => e.1.val) := by
  induction es with
  | nil => simp
  | cons e es ih =>
    obtain ⟨k, v⟩ := e
    simp only [retagEntries_cons, List.map_cons, retagKeyPos_val, ih]

/-- `GetMapKeys` returns the text of the keys only -/
theorem mapKeys_retag (y : Y) : mapKeys (some (y.retagKeys f)) = mapKeys (some y) := by
  cases y <;> simp [mapKeys, entries_val_retag]

theorem stringifyNode_retag (y : Y) : stringifyNode (y.retagKeys f) = stringifyNode y := by
  simp only [stringifyNode, str?_retag, int?_retag, bool?_retag, floatText?_retag]

theorem scalarList_retag (xs : List Y) : scalarList (retagList f xs) = scalarList xs := by
  induction xs with
  | nil => simp [scalarList]
  | cons x xs ih => simp only [retagList_cons, scalarList, stringifyNode_retag, ih]

/-! ### Re-tagging keeps the depth (the recursion budget of `parseProfile`) -/

mutual
theorem depth_retagKeys : (y : Y) → (y.retagKeys f).depth = y.depth
  | .scalar _ _ => by simp [Y.depth]
  | .other _ => by simp [Y.depth]
  | .seq xs => by simp [Y.depth, depthList_retag xs]
  | .map es => by simp [Y.depth, depthEntries_retag es]
theorem depth_retagKeyPos : (y : Y) → (y.retagKeyPos f).depth = y.depth
  | .scalar _ _ => by simp [Y.retagKeyPos, Y.depth]
  | .other _ => by simp [Y.retagKeyPos, Y.depth]
  | .seq xs => by simp [Y.retagKeyPos, Y.depth, depthList_retag xs]
  | .map es => by simp [Y.retagKeyPos, Y.depth, depthEntries_retag es]
theorem depthList_retag : (xs : List Y) → depthList (retagList f xs) = depthList xs
  | [] => by simp [depthList]
  | x :: xs => by simp [depthList, depth_retagKeys x, depthList_retag xs]
theorem depthEntries_retag : (es : List (Y × Y)) → depthEntries (retagEntries f es) = depthEntries es
  | [] => by simp [depthEntries]
  | (k, v) :: es => by
    simp [depthEntries, depth_retagKeyPos k, depth_retagKeys v, depthEntries_retag es]
end

/-! ## The parser does not see the tags of keys

Every parsing function is compared on `y.retagKeys f` and on `y`; `RecTag` is the induction hypothesis about
the recursive call. -/

/-- the recursive call does not see the re-tagging -/
def RecTag (rec : Rec) : Prop := ∀ var y c, rec var (y.retagKeys f) c = rec var y c

/-- a block of `ParseConstraint` does not see the re-tagging -/
def StepTag (s : Step) : Prop :=
  ∀ rec, RecTag f rec → ∀ path var cons c, s rec path var (cons.retagKeys f) c = s rec path var cons c

variable {f}

theorem parseRego_retag (code : Y) (var : String) (path : PPath) :
    parseRego (some (code.retagKeys f)) var path = parseRego (some code) var path := by
  simp only [parseRego, oget, isMap_retag, str?_retag, get_retag, str?_map_retag]

theorem parseQualified_retag {rec : Rec} (hrec : RecTag f rec) (q : Y) (var : String) (path : PPath) (op : CmpOp)
    (c : Nat) :
    parseQualified rec (some (q.retagKeys f)) var path op c = parseQualified rec (some q) var path op c := by
  simp only [parseQualified, oget, get_retag, int?_map_retag]
  cases q.get "validation" with
  | none => rfl
  | some v =>
    cases v with
    | map es => simp only [Option.map, retagKeys_map]; rw [← retagKeys_map, hrec]
    | scalar _ _ => rfl
    | seq _ => rfl
    | other _ => rfl

theorem countStep_retag (key : String) (q t : Nat) : StepTag f (countStep key q t) := by
  intro rec _ path var cons c
  simp only [countStep, pureStep, get_retag, int?_map_retag]

theorem patternStep_retag : StepTag f patternStep := by
  intro rec _ path var cons c
  simp only [patternStep, pureStep, get_retag, str?_map_retag]

theorem setStep_retag (key : String) (crit : Nat) : StepTag f (setStep key crit) := by
  intro rec _ path var cons c
  simp only [setStep, pureStep, get_retag]
  cases cons.get key with
  | none => rfl
  | some v => cases v <;> simp [arr?, scalarList_retag]

theorem uniqueStep_retag : StepTag f uniqueStep := by
  intro rec _ path var cons c
  simp only [uniqueStep, pureStep, get_retag, bool?_map_retag]

theorem propStep_retag (key name : String) (op : CmpOp) : StepTag f (propStep key name op) := by
  intro rec _ path var cons c
  simp only [propStep, pureStep, get_retag, str?_map_retag]

theorem qualifiedStep_retag (key : String) (op : CmpOp) : StepTag f (qualifiedStep key op) := by
  intro rec hrec path var cons c
  simp only [qualifiedStep, get_retag]
  cases cons.get key with
  | none => rfl
  | some q => simp only [Option.map, parseQualified_retag hrec]

theorem numericStep_retag (key : String) (op : CmpOp) : StepTag f (numericStep key op) := by
  intro rec _ path var cons c
  simp only [numericStep, pureStep, get_retag]
  cases cons.get key with
  | none => rfl
  | some n => simp only [Option.map, int?_retag, floatText?_retag]

theorem datatypeStep_retag : StepTag f datatypeStep := by
  intro rec _ path var cons c
  simp only [datatypeStep, pureStep, get_retag]
  cases cons.get "datatype" with
  | none => rfl
  | some n => simp only [Option.map, str?_retag]

theorem nestedStep_retag : StepTag f nestedStep := by
  intro rec hrec path var cons c
  simp only [nestedStep, get_retag]
  cases cons.get "nested" with
  | none => rfl
  | some v =>
    cases v with
    | map es => simp only [Option.map, retagKeys_map, parseNested]; rw [← retagKeys_map, hrec]
    | scalar _ _ => rfl
    | seq _ => rfl
    | other _ => rfl

theorem regoStep_retag (key : String) : StepTag f (regoStep key) := by
  intro rec _ path var cons c
  simp only [regoStep, pureStep, get_retag]
  cases cons.get key with
  | none => rfl
  | some code => simp only [Option.map, parseRego_retag]

theorem constraintSteps_retag : ∀ s ∈ constraintSteps, StepTag f s := by
  intro s hs
  simp only [constraintSteps, List.mem_cons, List.not_mem_nil, or_false] at hs
  rcases hs with h | h | h | h | h | h | h | h | h | h | h | h | h | h | h | h | h | h | h | h | h | h | h | h |
    h | h | h | h <;> subst h
  all_goals first
    | exact countStep_retag _ _ _
    | exact patternStep_retag
    | exact setStep_retag _ _
    | exact uniqueStep_retag
    | exact propStep_retag _ _ _
    | exact qualifiedStep_retag _ _
    | exact numericStep_retag _ _
    | exact datatypeStep_retag
    | exact nestedStep_retag
    | exact regoStep_retag _

theorem runSteps_retag {rec : Rec} (hrec : RecTag f rec) (path : PPath) (var : String) (cons : Y) :
    ∀ (ss : List Step), (∀ s ∈ ss, StepTag f s) → ∀ c,
      runSteps rec path var (cons.retagKeys f) ss c = runSteps rec path var cons ss c
  | [], _, _ => rfl
  | s :: ss, hss, c => by
    simp only [runSteps, hss s (List.mem_cons_self) rec hrec path var cons c]
    split
    · rfl
    · rw [runSteps_retag hrec path var cons ss (fun s' hs' => hss s' (List.mem_cons_of_mem _ hs'))]

theorem parseConstraint_retag {rec : Rec} (hrec : RecTag f rec) (path : PPath) (var : String) (cons : Y) (c : Nat) :
    parseConstraint rec path var (cons.retagKeys f) c = parseConstraint rec path var cons c :=
  runSteps_retag hrec path var cons constraintSteps constraintSteps_retag c

theorem implicitAndLoop_retag {rec : Rec} (hrec : RecTag f rec) (d : Y) (var : String) :
    ∀ (ks : List String) c,
      implicitAndLoop rec (some (d.retagKeys f)) var ks c = implicitAndLoop rec (some d) var ks c
  | [], _ => rfl
  | k :: ks, c => by
    simp only [implicitAndLoop, oget, get_retag]
    split
    · rfl
    · cases d.get k with
      | none => rfl
      | some v =>
        cases v with
        | map es =>
          simp only [Option.map, retagKeys_map]
          rw [← retagKeys_map, parseConstraint_retag hrec]
          split
          · rfl
          · rw [implicitAndLoop_retag hrec d var ks]
        | scalar _ _ => rfl
        | seq _ => rfl
        | other _ => rfl

theorem parseImplicitAnd_retag {rec : Rec} (hrec : RecTag f rec) (d : Y) (var : String) (c : Nat) :
    parseImplicitAnd rec (some (d.retagKeys f)) var c = parseImplicitAnd rec (some d) var c := by
  simp only [parseImplicitAnd, mapKeys_retag, implicitAndLoop_retag hrec]

theorem parseItems_retag {rec : Rec} (hrec : RecTag f rec) (var : String) :
    ∀ (xs : List Y) c, parseItems rec var (retagList f xs) c = parseItems rec var xs c
  | [], _ => rfl
  | .map es :: xs, c => by
    simp only [retagList_cons, retagKeys_map, parseItems]
    rw [← retagKeys_map, hrec]
    split
    · rfl
    · rw [parseItems_retag hrec var xs]
  | .scalar _ _ :: _, _ => rfl
  | .seq _ :: _, _ => rfl
  | .other _ :: _, _ => rfl

theorem parseConditional_retag {rec : Rec} (hrec : RecTag f rec) (var : String) (i t : Y) (e : Option Y) (c : Nat) :
    parseConditional rec var (i.retagKeys f) (t.retagKeys f) (e.map (Y.retagKeys f)) c =
      parseConditional rec var i t e c := by
  cases e with
  | none => simp only [parseConditional, Option.map, hrec var i, hrec var t]
  | some x => simp only [parseConditional, Option.map, hrec var i, hrec var t, hrec var x]

theorem pevCore_retag {rec : Rec} (hrec : RecTag f rec) (var : String) (g : String → Option Y) (c : Nat) :
    pevCore rec var (fun k => (g k).map (Y.retagKeys f)) c = pevCore rec var g c := by
  simp only [pevCore]
  cases g "propertyConstraints" with
  | some v => simp only [Option.map, parseImplicitAnd_retag hrec]
  | none =>
  cases g "rego" with
  | some code => simp only [Option.map, parseRego_retag]
  | none =>
  cases g "regoModule" with
  | some code => simp only [Option.map, parseRego_retag]
  | none =>
  cases g "and" with
  | some a => cases a <;> simp only [Option.map, retagKeys_seq, retagKeys_map, retagKeys_scalar, retagKeys_other,
      parseItems_retag hrec]
  | none =>
  cases g "or" with
  | some o => cases o <;> simp only [Option.map, retagKeys_seq, retagKeys_map, retagKeys_scalar, retagKeys_other,
      parseItems_retag hrec]
  | none =>
  cases g "not" with
  | some n =>
    cases n with
    | map es => simp only [Option.map, retagKeys_map]; rw [← retagKeys_map, hrec]
    | scalar _ _ => rfl
    | seq _ => rfl
    | other _ => rfl
  | none =>
  cases g "if" with
  | none => rfl
  | some i =>
    cases g "then" with
    | none => rfl
    | some t => exact parseConditional_retag hrec var i t (g "else") c

/-- **`parseExpressionValue` does not see the tags of keys**, at any depth, for every recursion budget -/
theorem pev_retagKeys (f : String → String → String) : ∀ (n : Nat), RecTag f (pev n)
  | 0 => fun _ _ _ => rfl
  | n + 1 => by
    intro var y c
    show pevCore (pev n) var (y.retagKeys f).get c = pevCore (pev n) var y.get c
    rw [show (y.retagKeys f).get = fun k => (y.get k).map (Y.retagKeys f) from funext (get_retag f y)]
    exact pevCore_retag (pev_retagKeys f n) var y.get c

theorem parseExpression_retagKeys (f : String → String → String) (fuel : Nat) (name : String) (y : Y)
    (level : String) : parseExpression fuel name (y.retagKeys f) level = parseExpression fuel name y level := by
  simp only [parseExpression, get_retag, str?_map_retag, pev_retagKeys f fuel _ y]

/-- the names listed in a level are VALUES: their tags are untouched, so the same names are looked up -/
theorem levelLoop_retagKeys (f : String → String → String) (fuel : Nat) (level : String) (vals : Y) :
    ∀ (names : List Y), levelLoop fuel level (vals.retagKeys f) (retagList f names) =
      levelLoop fuel level vals names
  | [] => rfl
  | n :: ns => by
    simp only [retagList_cons, levelLoop, str?_retag, get_retag, levelLoop_retagKeys f fuel level vals ns]
    split
    · rfl
    · rename_i name _
      cases vals.get name with
      | none => rfl
      | some v => simp only [Option.map, parseExpression_retagKeys]

theorem parseLevel_retagKeys (f : String → String → String) (fuel : Nat) (level : String) (doc vals : Y) :
    parseLevel fuel level (doc.retagKeys f) (vals.retagKeys f) = parseLevel fuel level doc vals := by
  simp only [parseLevel, get_retag]
  cases doc.get level with
  | none => rfl
  | some l => cases l <;> simp [arr?, levelLoop_retagKeys]

theorem prefixLoop_retagKeys (f : String → String → String) (p : Y) :
    ∀ (ks : List String), prefixLoop (p.retagKeys f) ks = prefixLoop p ks
  | [] => rfl
  | k :: ks => by simp only [prefixLoop, get_retag, str?_map_retag, prefixLoop_retagKeys f p ks]

theorem parsePrefixes_retagKeys (f : String → String → String) (p : Y) :
    parsePrefixes (p.retagKeys f) = parsePrefixes p := by
  simp only [parsePrefixes, isMap_retag, mapKeys_retag, prefixLoop_retagKeys]

theorem parseProfileWith_retagKeys (f : String → String → String) (fuel : Nat) (doc : Y) :
    parseProfileWith fuel (doc.retagKeys f) = parseProfileWith fuel doc := by
  cases doc with
  | map es =>
    have hg := get_retag f (.map es)
    rw [retagKeys_map] at hg
    simp only [retagKeys_map, parseProfileWith, hg, str?_map_retag]
    have hlev : ∀ level vs, parseLevel fuel level (.map (retagEntries f es)) (.map (retagEntries f vs)) =
        parseLevel fuel level (.map es) (.map vs) := by
      intro level vs
      rw [← retagKeys_map, ← retagKeys_map, parseLevel_retagKeys]
    cases (Y.map es).get "prefixes" <;> simp only [Option.map, parsePrefixes_retagKeys] <;>
      (cases (Y.map es).get "validations" with
        | none => rfl
        | some v =>
          cases v <;> simp only [retagKeys_map, retagKeys_scalar, retagKeys_seq, retagKeys_other, hlev])
  | scalar _ _ => rfl
  | seq _ => rfl
  | other _ => rfl

/-- **the whole profile**: same name, prefixes, levels and rule trees, or the same error -/
theorem parseProfile_retagKeys (f : String → String → String) (doc : Y) :
    parseProfile (doc.retagKeys f) = parseProfile doc := by
  simp only [parseProfile, depth_retagKeys, parseProfileWith_retagKeys]

end Retag

/-! ## `SimAll` and re-tagged keys

`SimAll y (y.retagKeys f)` does NOT hold in general: `KeysRel`, `ConsRel` and `QRel` compare with `=` the
values the parser does not parse recursively, and such a value may be a mapping whose keys were re-tagged. -/

/-- the value of `rego` may be a mapping (`code` / `message`); re-tagging its keys gives a different tree, which
the first component of `KeysRel` (`g k = g' k` for `k ∉ exprKeys`) rejects — although `parseRego` only uses
`Get` and cannot tell the two apart (`parseRego_retag`) -/
theorem not_simAll_retagKeys :
    ¬ SimAll (.map [(.scalar "!!str" "rego", .map [(.scalar "!!str" "code", .scalar "!!str" "c")])])
      ((Y.map [(.scalar "!!str" "rego", .map [(.scalar "!!str" "code", .scalar "!!str" "c")])]).retagKeys
        (fun _ _ => "!!x")) := by
  intro h
  have h1 := (h 1).2.1 "rego" (by decide)
  simp [Y.get, getEntries, Y.isKey, Y.retagKeyPos] at h1

/-- where a node stands, as far as `Sim` is concerned -/
inductive Pos
  | expr    -- an expression: a validation, the value of `not` / `if` / `then` / `else` / `nested` / `validation`,
            -- an element of `and` / `or`
  | items   -- the value of `and` / `or`
  | pc      -- the value of `propertyConstraints`
  | cons    -- the constraints of one property path
  | qual    -- the value of `atLeast` / `atMost` / `exactly`
  | opaque  -- anything else: `Sim` demands equality
deriving DecidableEq, Repr

/-- the position of the value of the entry `k` of a mapping at position `p` -/
def Pos.child : Pos → String → Pos
  | .expr, k =>
    if k = "propertyConstraints" then .pc
    else if k = "and" ∨ k = "or" then .items
    else if k = "not" ∨ k = "if" ∨ k = "then" ∨ k = "else" then .expr
    else .opaque
  | .pc, _ => .cons
  | .cons, k =>
    if k = "nested" then .expr
    else if k = "atLeast" ∨ k = "atMost" ∨ k = "exactly" then .qual
    else .opaque
  | .qual, k => if k = "validation" then .expr else .opaque
  | .items, _ => .opaque
  | .opaque, _ => .opaque

/-- a scalar key gets the new tag; other keys are kept -/
def retagKey (f : String → String → String) : Y → Y
  | .scalar tag v => .scalar (f tag v) v
  | k => k

/-- the position of the value of an entry with key node `k` (only scalar keys are ever looked up) -/
def Pos.childOf (p : Pos) : Y → Pos
  | .scalar _ v => p.child v
  | _ => .opaque

mutual
/-- re-tag the keys of every mapping that `Sim` looks THROUGH: everything except the values at `opaque`
positions, which are kept as they are -/
def Y.retagSkel (f : String → String → String) (p : Pos) : Y → Y
  | .scalar tag v => .scalar tag v
  | .other v => .other v
  | .seq xs =>
    match p with
    | .items => .seq (retagSkelList f xs)
    | _ => .seq xs
  | .map es =>
    match p with
    | .opaque => .map es
    | _ => .map (retagSkelEntries f p es)
def retagSkelList (f : String → String → String) : List Y → List Y
  | [] => []
  | y :: ys => y.retagSkel f .expr :: retagSkelList f ys
def retagSkelEntries (f : String → String → String) (p : Pos) : List (Y × Y) → List (Y × Y)
  | [] => []
  | (k, v) :: es => (retagKey f k, v.retagSkel f (p.childOf k)) :: retagSkelEntries f p es
end

section Skel
variable (f : String → String → String)

theorem retagSkel_map (p : Pos) (hp : p ≠ .opaque) (es : List (Y × Y)) :
    (Y.map es).retagSkel f p = .map (retagSkelEntries f p es) := by
  cases p <;> first | exact absurd rfl hp | simp [Y.retagSkel]

theorem retagSkel_opaque (y : Y) : y.retagSkel f .opaque = y := by
  cases y <;> simp [Y.retagSkel]

theorem retagSkel_seq_items (xs : List Y) : (Y.seq xs).retagSkel f .items = .seq (retagSkelList f xs) := by
  simp [Y.retagSkel]

theorem retagKey_isKey (k : Y) (s : String) : (retagKey f k).isKey s = k.isKey s := by
  cases k <;> simp [retagKey, Y.isKey]

theorem retagKey_val (k : Y) : (retagKey f k).val = k.val := by
  cases k <;> simp [retagKey, Y.val]

theorem childOf_isKey {p : Pos} {key : Y} {k : String} (h : key.isKey k = true) : p.childOf key = p.child k := by
  obtain ⟨tag, rfl⟩ := isKey_iff.1 h
  rfl

theorem getEntries_retagSkel (p : Pos) (es : List (Y × Y)) (k : String) :
    getEntries (retagSkelEntries f p es) k = (getEntries es k).map (Y.retagSkel f (p.child k)) := by
  induction es with
  | nil => simp [retagSkelEntries, getEntries]
  | cons e es ih =>
    obtain ⟨key, v⟩ := e
    simp only [retagSkelEntries, getEntries, retagKey_isKey, ih]
    cases h : key.isKey k
    · simp
    · simp [childOf_isKey h]

/-- the same entry is found; its value is re-tagged according to its position -/
theorem get_retagSkel (p : Pos) (y : Y) (k : String) :
    (y.retagSkel f p).get k = (y.get k).map (Y.retagSkel f (p.child k)) := by
  by_cases hp : p = .opaque
  · subst hp
    have : ∀ o : Option Y, o.map (Y.retagSkel f .opaque) = o := by
      intro o; cases o <;> simp [retagSkel_opaque]
    rw [retagSkel_opaque]
    exact (this _).symm
  · cases y with
    | map es => rw [retagSkel_map f p hp]; exact getEntries_retagSkel f p es k
    | scalar _ _ => simp [Y.retagSkel, Y.get]
    | seq xs => cases p <;> simp [Y.retagSkel, Y.get]
    | other _ => simp [Y.retagSkel, Y.get]

theorem get_retagSkel_opaque {p : Pos} {k : String} (h : p.child k = .opaque) (y : Y) :
    (y.retagSkel f p).get k = y.get k := by
  rw [get_retagSkel, h]
  cases y.get k <;> simp [retagSkel_opaque]

theorem isMap_retagSkel (p : Pos) (y : Y) : isMap (some (y.retagSkel f p)) = isMap (some y) := by
  cases y <;> cases p <;> simp [Y.retagSkel, isMap]

theorem sameKind_retagSkel (p : Pos) (y : Y) : sameKind y (y.retagSkel f p) := (isMap_retagSkel f p y).symm

theorem entries_val_retagSkel (p : Pos) (es : List (Y × Y)) :
    (retagSkelEntries f p es).map (fun e => e.1.val) = es.map (fun e => e.1.val) := by
  induction es with
  | nil => simp [retagSkelEntries]
  | cons e es ih =>
    obtain ⟨k, v⟩ := e
    simp only [retagSkelEntries, List.map_cons, retagKey_val, ih]

theorem mapKeys_retagSkel (p : Pos) (y : Y) : mapKeys (some (y.retagSkel f p)) = mapKeys (some y) := by
  cases y <;> cases p <;> simp [Y.retagSkel, mapKeys, entries_val_retagSkel]

theorem OptRel.map_right {R : Y → Y → Prop} {h : Y → Y} (H : ∀ v, R v (h v)) : ∀ o : Option Y, OptRel R o (o.map h)
  | none => trivial
  | some v => H v

variable {f}
variable {R : Y → Y → Prop} (hR : ∀ y, R y (y.retagSkel f .expr))
include hR

theorem qRel_retagSkel (q : Y) : QRel R q (q.retagSkel f .qual) := by
  refine ⟨(get_retagSkel_opaque f (by decide) q).symm, ?_⟩
  rw [get_retagSkel]
  exact OptRel.map_right hR _

theorem consRel_retagSkel (w : Y) : ConsRel R w (w.retagSkel f .cons) := by
  refine ⟨sameKind_retagSkel f _ w, ?_, ?_, ?_, ?_, ?_⟩
  · intro k hk
    refine (get_retagSkel_opaque f ?_ w).symm
    simp only [consKeys, List.mem_cons, List.not_mem_nil, or_false, not_or] at hk
    simp [Pos.child, hk]
  · rw [get_retagSkel]; exact OptRel.map_right hR _
  · rw [get_retagSkel]; exact OptRel.map_right (qRel_retagSkel hR) _
  · rw [get_retagSkel]; exact OptRel.map_right (qRel_retagSkel hR) _
  · rw [get_retagSkel]; exact OptRel.map_right (qRel_retagSkel hR) _

theorem pcRel_retagSkel (v : Y) : PCRel R v (v.retagSkel f .pc) := by
  refine ⟨(mapKeys_retagSkel f _ v).symm, fun k => ?_⟩
  rw [get_retagSkel]
  exact OptRel.map_right (consRel_retagSkel hR) _

theorem listRel_retagSkel : ∀ xs : List Y, ListRel R xs (retagSkelList f xs)
  | [] => by simp [retagSkelList, ListRel]
  | x :: xs => by
    simp only [retagSkelList, ListRel]
    exact ⟨hR x, listRel_retagSkel xs⟩

theorem seqRel_retagSkel (a : Y) : SeqRel R a (a.retagSkel f .items) := by
  cases a with
  | seq xs => rw [retagSkel_seq_items]; exact listRel_retagSkel hR xs
  | scalar _ _ => simp [Y.retagSkel, SeqRel]
  | map es => rw [retagSkel_map f _ (by decide)]; trivial
  | other _ => simp [Y.retagSkel, SeqRel]

theorem keysRel_retagSkel (y : Y) : KeysRel R y.get (y.retagSkel f .expr).get := by
  refine ⟨?_, ?_, ?_, ?_, ?_, ?_, ?_, ?_⟩
  · intro k hk
    refine (get_retagSkel_opaque f ?_ y).symm
    simp only [exprKeys, List.mem_cons, List.not_mem_nil, or_false, not_or] at hk
    simp [Pos.child, hk]
  · rw [get_retagSkel]; exact OptRel.map_right (pcRel_retagSkel hR) _
  · rw [get_retagSkel]; exact OptRel.map_right (seqRel_retagSkel hR) _
  · rw [get_retagSkel]; exact OptRel.map_right (seqRel_retagSkel hR) _
  · rw [get_retagSkel]; exact OptRel.map_right hR _
  · rw [get_retagSkel]; exact OptRel.map_right hR _
  · rw [get_retagSkel]; exact OptRel.map_right hR _
  · rw [get_retagSkel]; exact OptRel.map_right hR _

omit hR

theorem sim_retagSkel (f : String → String → String) : ∀ (n : Nat) (y : Y), Sim n y (y.retagSkel f .expr)
  | 0, y => sameKind_retagSkel f _ y
  | n + 1, y => ⟨sameKind_retagSkel f _ y, keysRel_retagSkel (sim_retagSkel f n) y⟩

/-- **What is true of `SimAll`.**  Re-tag the keys of the expression itself and of every mapping below it that
`Sim` looks through — the mappings under `not` / `if` / `then` / `else`, the elements of `and` / `or`, the
`propertyConstraints` mapping, the constraint mapping of every path, `nested`, `atLeast` / `atMost` / `exactly`
and their `validation` — at every depth.
`_partial`: EXCLUDED are the keys inside the values `Sim` compares with `=` (`Pos.opaque`): `rego`,
`regoModule`, `targetClass`, `message` and unknown keys of an expression; every constraint other than the four
recursive ones (e.g. a mapping inside `in`); `count` of a qualified constraint.  Those values are copied
unchanged by `Y.retagSkel`.  The parser itself has no such exception: `pev_retagKeys`. -/
theorem simAll_retagKeys_partial (f : String → String → String) (y : Y) : SimAll y (y.retagSkel f .expr) :=
  fun n => sim_retagSkel f n y

end Skel

end Acv.PP
