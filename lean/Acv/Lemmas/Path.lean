import Acv.Model.Path
namespace Acv

theorem Item.mem_nodes {l : List Item} {m : Node} : m ∈ Item.nodes l ↔ Item.node m ∈ l := by
  induction l with
  | nil => simp [Item.nodes]
  | cons a as ih =>
    cases a with
    | lit v => simp [Item.nodes, ih]
    | node n => simp [Item.nodes, ih]

theorem evalSteps_append (g : Graph) (t u : List Step) (src : List Item) :
    evalSteps g (t ++ u) src = evalSteps g u (evalSteps g t src) := by
  induction t generalizing src with
  | nil => simp [evalSteps]
  | cons s ss ih => simp [evalSteps, ih]

/-- membership in the union of the clauses of `p` started after clause prefix `t` -/
def clausesReach (g : Graph) (cs : List (List Step)) (src : List Item) (x : Item) : Prop :=
  ∃ c ∈ cs, x ∈ evalSteps g c src

mutual
theorem trav_den (g : Graph) (src : List Item) :
    ∀ (p : Path) (t : List Step) (fetch : Bool) (x : Item),
      clausesReach g (trav p t fetch) src x ↔
        ∃ n ∈ Item.nodes (evalSteps g t src), x ∈ den g p fetch n
  | .prop iri inv, t, fetch, x => by
      simp [clausesReach, trav, den, evalSteps_append, evalSteps]
  | .seq ps, t, fetch, x => by
      simpa [trav, den] using travSeq_den g src ps t fetch x
  | .alt ps, t, fetch, x => by
      simpa [trav, den] using travAlt_den g src ps t fetch x
theorem travSeq_den (g : Graph) (src : List Item) :
    ∀ (ps : List Path) (t : List Step) (fetch : Bool) (x : Item),
      clausesReach g (travSeq ps t fetch) src x ↔
        ∃ n ∈ Item.nodes (evalSteps g t src), x ∈ denSeq g ps fetch n
  | [], t, fetch, x => by simp [clausesReach, travSeq, denSeq]
  | [p], t, fetch, x => by
      simpa [travSeq, denSeq] using trav_den g src p t fetch x
  | p :: q :: ps, t, fetch, x => by
      simp only [clausesReach, travSeq, denSeq, List.mem_flatMap]
      constructor
      · rintro ⟨c, ⟨t', ht', hc⟩, hx⟩
        have h1 := (travSeq_den g src (q :: ps) t' fetch x).1 ⟨c, hc, hx⟩
        obtain ⟨m, hm, hxm⟩ := h1
        have h2 := (trav_den g src p t true (Item.node m)).1 ⟨t', ht', Item.mem_nodes.1 hm⟩
        obtain ⟨n, hn, hmn⟩ := h2
        exact ⟨n, hn, m, Item.mem_nodes.2 hmn, hxm⟩
      · rintro ⟨n, hn, m, hm, hxm⟩
        have h2 := (trav_den g src p t true (Item.node m)).2 ⟨n, hn, Item.mem_nodes.1 hm⟩
        obtain ⟨t', ht', hmt'⟩ := h2
        have h1 := (travSeq_den g src (q :: ps) t' fetch x).2 ⟨m, Item.mem_nodes.2 hmt', hxm⟩
        obtain ⟨c, hc, hx⟩ := h1
        exact ⟨c, ⟨t', ht', hc⟩, hx⟩
theorem travAlt_den (g : Graph) (src : List Item) :
    ∀ (ps : List Path) (t : List Step) (fetch : Bool) (x : Item),
      clausesReach g (travAlt ps t fetch) src x ↔
        ∃ n ∈ Item.nodes (evalSteps g t src), x ∈ denAlt g ps fetch n
  | [], t, fetch, x => by simp [clausesReach, travAlt, denAlt]
  | p :: ps, t, fetch, x => by
      have h1 := trav_den g src p t fetch x
      have h2 := travAlt_den g src ps t fetch x
      simp only [clausesReach, travAlt, denAlt, List.mem_append] at *
      constructor
      · rintro ⟨c, hc | hc, hx⟩
        · obtain ⟨n, hn, h⟩ := h1.1 ⟨c, hc, hx⟩; exact ⟨n, hn, Or.inl h⟩
        · obtain ⟨n, hn, h⟩ := h2.1 ⟨c, hc, hx⟩; exact ⟨n, hn, Or.inr h⟩
      · rintro ⟨n, hn, h | h⟩
        · obtain ⟨c, hc, hx⟩ := h1.2 ⟨n, hn, h⟩; exact ⟨c, Or.inl hc, hx⟩
        · obtain ⟨c, hc, hx⟩ := h2.2 ⟨n, hn, h⟩; exact ⟨c, Or.inr hc, hx⟩
end

end Acv
