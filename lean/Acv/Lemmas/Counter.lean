import Acv.Model.Counter
/-! Helper lemmas for C10 (the identifier counter). -/
namespace Acv.Counter

theorem runAtomic_cons (s t : Nat) (rest : List Nat) :
    runAtomic s (t :: rest) = (t, s + 1) :: runAtomic (s + 1) rest := rfl

/-- In a list whose image under `f` has no duplicates, `f` is injective on the members. -/
theorem eq_of_nodup_map {α β : Type} (f : α → β) : ∀ (l : List α), (l.map f).Nodup →
    ∀ a ∈ l, ∀ b ∈ l, f a = f b → a = b
  | [], _, a, ha, _, _, _ => by simp at ha
  | x :: l, h, a, ha, b, hb, hab => by
    rw [List.map_cons, List.nodup_cons] at h
    rcases List.mem_cons.1 ha with rfl | ha' <;> rcases List.mem_cons.1 hb with rfl | hb'
    · rfl
    · exact absurd (hab ▸ List.mem_map.2 ⟨b, hb', rfl⟩) h.1
    · exact absurd (hab ▸ List.mem_map.2 ⟨a, ha', rfl⟩) h.1
    · exact eq_of_nodup_map f l h.2 a ha' b hb' hab

/-- No thread is inside a call. -/
def Idle (s : RState) : Prop := ∀ x, s.pc x = 0

/-- One uninterrupted call from an idle state: issues counter+1 and leaves an idle state. -/
theorem racy_call (s : RState) (hs : Idle s) (t : Nat) (rest : List Nat) :
    ∃ s', Idle s' ∧ s'.counter = s.counter + 1 ∧
      runRacyFrom s (t :: t :: t :: rest) = (t, s.counter + 1) :: runRacyFrom s' rest := by
  refine ⟨(stepRacy (stepRacy (stepRacy s t).1 t).1 t).1, ?_, ?_, ?_⟩
  · intro x
    by_cases hx : x = t
    · simp [stepRacy, hs t, upd, hx]
    · simp [stepRacy, hs t, upd, hx, hs x]
  · simp [stepRacy, hs t, upd]
  · simp [runRacyFrom, stepRacy, hs t, upd]

theorem racy_sequential_from : ∀ (calls : List Nat) (s : RState), Idle s →
    runRacyFrom s (sequential calls) = runAtomic s.counter calls
  | [], _, _ => rfl
  | t :: calls, s, hs => by
    obtain ⟨s', hs', hc, hrun⟩ := racy_call s hs t (sequential calls)
    have : sequential (t :: calls) = t :: t :: t :: sequential calls := by
      simp [sequential]
    rw [this, hrun, racy_sequential_from calls s' hs', hc, runAtomic_cons]

end Acv.Counter
