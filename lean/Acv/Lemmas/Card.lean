/-! cardinality of the set of elements of a list = `eraseDups.length`; it depends only on membership -/
namespace Acv
variable {α : Type} [BEq α] [LawfulBEq α]

def card (l : List α) : Nat := l.eraseDups.length

theorem filter_ne_comm (l : List α) (a b : α) :
    (l.filter (fun x => !x == a)).filter (fun x => !x == b) =
    (l.filter (fun x => !x == b)).filter (fun x => !x == a) := by
  simp only [List.filter_filter]
  congr 1; funext x; exact Bool.and_comm _ _

theorem card_cons (a : α) (l : List α) : card (a :: l) = 1 + card (l.filter (fun x => !x == a)) := by
  simp [card, List.eraseDups_cons]; omega

/-- removing one present element lowers the cardinality by one -/
theorem card_remove : ∀ (n : Nat) (l : List α) (a : α), l.length ≤ n → a ∈ l →
    card l = 1 + card (l.filter (fun x => !x == a))
  | 0, l, a, hl, ha => by
      have : l = [] := List.eq_nil_of_length_eq_zero (Nat.le_zero.1 hl)
      subst this; simp at ha
  | n+1, [], a, _, ha => by simp at ha
  | n+1, b :: bs, a, hl, ha => by
      by_cases hba : b = a
      · subst hba
        rw [card_cons]; simp
      · have ha' : a ∈ bs := by
          rcases List.mem_cons.1 ha with h | h
          · exact absurd h.symm hba
          · exact h
        have hmem : a ∈ bs.filter (fun x => !x == b) := by
          simp only [List.mem_filter, Bool.not_eq_eq_eq_not, Bool.not_true, beq_eq_false_iff_ne]
          exact ⟨ha', fun h => hba h.symm⟩
        have hlen : (bs.filter (fun x => !x == b)).length ≤ n := by
          have := List.length_filter_le (fun x => !x == b) bs
          simp at hl; omega
        rw [card_cons, card_remove n _ a hlen hmem]
        have hf : (b :: bs).filter (fun x => !x == a) = b :: bs.filter (fun x => !x == a) := by
          have : (!b == a) = true := by simp [hba]
          simp [List.filter, this]
        rw [hf, card_cons, filter_ne_comm]

theorem card_congr : ∀ (n : Nat) (l₁ l₂ : List α), l₁.length ≤ n → (∀ x, x ∈ l₁ ↔ x ∈ l₂) →
    card l₁ = card l₂
  | _, [], l₂, _, h => by
      cases l₂ with
      | nil => rfl
      | cons b bs => exact absurd ((h b).2 (List.mem_cons_self ..)) (by simp)
  | 0, a :: as, _, hl, _ => by simp at hl
  | n+1, a :: as, l₂, hl, h => by
      have ha : a ∈ l₂ := (h a).1 (List.mem_cons_self ..)
      rw [card_cons, card_remove l₂.length l₂ a (Nat.le_refl _) ha]
      congr 1
      apply card_congr n
      · have := List.length_filter_le (fun x => !x == a) as
        simp at hl; omega
      · intro x
        simp only [List.mem_filter, Bool.not_eq_eq_eq_not, Bool.not_true, beq_eq_false_iff_ne]
        constructor
        · rintro ⟨hx, hne⟩; exact ⟨(h x).1 (List.mem_cons_of_mem _ hx), hne⟩
        · rintro ⟨hx, hne⟩
          rcases List.mem_cons.1 ((h x).2 hx) with h' | h'
          · exact absurd h' hne
          · exact ⟨h', hne⟩

theorem card_eq_of_mem_iff (l₁ l₂ : List α) (h : ∀ x, x ∈ l₁ ↔ x ∈ l₂) : card l₁ = card l₂ :=
  card_congr l₁.length l₁ l₂ (Nat.le_refl _) h

end Acv
