import Acv.Model.ProfileParser
/-!
# Lemmas about the profile parser model

* `Y.get`: first match, invariance under permutation of entries with distinct keys;
* `PRule.negate`: involution on trees without negated connectives, preservation of the child variables;
* `pev_inv`: the induction principle of the parser — every predicate on (counter before, rule, counter after)
  that is closed under the rule constructors the parser uses holds of every result of `pev`.
-/
namespace Acv.PP
open Acv

/-! ## `Y.get` -/

theorem isKey_iff {y : Y} {k : String} : y.isKey k = true ↔ ∃ tag, y = .scalar tag k := by
  cases y with
  | scalar tag v =>
    simp only [Y.isKey, beq_iff_eq, Y.scalar.injEq]
    constructor
    · intro h; exact ⟨tag, rfl, h⟩
    · rintro ⟨_, _, h⟩; exact h
  | seq _ => simp [Y.isKey]
  | map _ => simp [Y.isKey]
  | other _ => simp [Y.isKey]

theorem getEntries_eq_find (es : List (Y × Y)) (k : String) :
    getEntries es k = (es.find? (fun e => e.1.isKey k)).map (·.2) := by
  induction es with
  | nil => rfl
  | cons e rest ih =>
    obtain ⟨key, v⟩ := e
    simp only [getEntries, List.find?_cons]
    cases h : key.isKey k <;> simp [ih]

theorem getEntries_eq_none {es : List (Y × Y)} {k : String} :
    getEntries es k = none ↔ ∀ e ∈ es, e.1.isKey k = false := by
  rw [getEntries_eq_find]
  simp

theorem getEntries_eq_some {es : List (Y × Y)} {k : String} {v : Y} :
    getEntries es k = some v ↔
      ∃ pre key post, es = pre ++ (key, v) :: post ∧ key.isKey k = true ∧ ∀ e ∈ pre, e.1.isKey k = false := by
  induction es with
  | nil => simp [getEntries]
  | cons e rest ih =>
    obtain ⟨key, w⟩ := e
    simp only [getEntries]
    cases h : key.isKey k
    · simp only [Bool.false_eq_true, if_false, ih]
      constructor
      · rintro ⟨pre, key', post, rfl, hk, hpre⟩
        refine ⟨(key, w) :: pre, key', post, rfl, hk, ?_⟩
        intro e he
        cases he with
        | head => exact h
        | tail _ he => exact hpre e he
      · rintro ⟨pre, key', post, heq, hk, hpre⟩
        cases pre with
        | nil =>
          simp only [List.nil_append, List.cons.injEq, Prod.mk.injEq] at heq
          rw [heq.1.1] at h; rw [h] at hk; cases hk
        | cons p pre' =>
          simp only [List.cons_append, List.cons.injEq] at heq
          exact ⟨pre', key', post, heq.2, hk, fun e he => hpre e (List.mem_cons_of_mem _ he)⟩
    · simp only [if_true, Option.some.injEq]
      constructor
      · rintro rfl
        exact ⟨[], key, rest, rfl, h, by simp⟩
      · rintro ⟨pre, key', post, heq, hk, hpre⟩
        cases pre with
        | nil =>
          simp only [List.nil_append, List.cons.injEq, Prod.mk.injEq] at heq
          exact heq.1.2
        | cons p pre' =>
          simp only [List.cons_append, List.cons.injEq] at heq
          have := hpre p (List.mem_cons_self)
          rw [← heq.1] at this
          simp only at this
          rw [this] at h; cases h

/-- no two entries have a scalar key with the same value -/
def DistinctKeys (es : List (Y × Y)) : Prop :=
  es.Pairwise (fun a b => ∀ k, ¬ (a.1.isKey k = true ∧ b.1.isKey k = true))

theorem DistinctKeys.perm {es es' : List (Y × Y)} (p : es.Perm es') (h : DistinctKeys es) : DistinctKeys es' :=
  (List.Perm.pairwise_iff (fun {_ _} hxy k hk => hxy k ⟨hk.2, hk.1⟩) p).1 h

theorem getEntries_perm {es es' : List (Y × Y)} (p : es.Perm es') :
    DistinctKeys es → ∀ k, getEntries es k = getEntries es' k := by
  induction p with
  | nil => intros; rfl
  | cons x _ ih =>
    intro h k
    obtain ⟨key, v⟩ := x
    simp only [getEntries]
    rw [ih (List.pairwise_cons.1 h).2 k]
  | swap x y l =>
    intro h k
    obtain ⟨kx, vx⟩ := x
    obtain ⟨ky, vy⟩ := y
    simp only [getEntries]
    cases hx : kx.isKey k <;> cases hy : ky.isKey k <;> simp
    have := (List.pairwise_cons.1 h).1 (kx, vx) (List.mem_cons_self) k
    exact absurd ⟨hy, hx⟩ this
  | trans p₁ _ ih₁ ih₂ =>
    intro h k
    rw [ih₁ h k, ih₂ (h.perm p₁) k]

/-! ## Negation -/

mutual
/-- no `and`/`or` node of the tree carries a negation flag -/
def PRule.noNegConn : PRule → Bool
  | .and neg body => !neg && allNoNegConn body
  | .or neg body => !neg && allNoNegConn body
  | .cond _ body => allNoNegConn body
  | .nested _ _ _ _ value => value.noNegConn
  | .atom _ _ _ _ => true
  | .top _ _ _ _ _ _ _ value => value.noNegConn
def allNoNegConn : List PRule → Bool
  | [] => true
  | r :: rs => r.noNegConn && allNoNegConn rs
end

mutual
/-- the variables bound by the tree, in pre-order: the top-level variable and the child variable of every
nested / quantified expression -/
def PRule.boundVars : PRule → List String
  | .and _ body => boundVarsList body
  | .or _ body => boundVarsList body
  | .cond _ body => boundVarsList body
  | .nested _ _ child _ value => child.name :: value.boundVars
  | .atom _ _ _ _ => []
  | .top _ _ _ var _ _ _ value => var.name :: value.boundVars
def boundVarsList : List PRule → List String
  | [] => []
  | r :: rs => r.boundVars ++ boundVarsList rs
end

mutual
theorem negate_negate_aux : (r : PRule) → r.noNegConn = true → r.negate.negate = r
  | .and neg body, h => by
    simp only [PRule.noNegConn, Bool.and_eq_true, Bool.not_eq_eq_eq_not, Bool.not_true] at h
    simp only [PRule.negate, negateList_negateList_aux body h.2, h.1]
  | .or neg body, h => by
    simp only [PRule.noNegConn, Bool.and_eq_true, Bool.not_eq_eq_eq_not, Bool.not_true] at h
    simp only [PRule.negate, negateList_negateList_aux body h.2, h.1]
  | .cond neg body, _ => by simp [PRule.negate]
  | .nested neg _ _ _ _, _ => by simp [PRule.negate]
  | .atom neg _ _ _, _ => by simp [PRule.negate]
  | .top _ _ _ _ neg _ _ _, _ => by simp [PRule.negate]
theorem negateList_negateList_aux : (rs : List PRule) → allNoNegConn rs = true → negateList (negateList rs) = rs
  | [], _ => rfl
  | r :: rs, h => by
    simp only [allNoNegConn, Bool.and_eq_true] at h
    simp only [negateList, negate_negate_aux r h.1, negateList_negateList_aux rs h.2]
end

mutual
theorem noNegConn_negate : (r : PRule) → r.noNegConn = true → r.negate.noNegConn = true
  | .and neg body, h => by
    simp only [PRule.noNegConn, Bool.and_eq_true] at h
    simp [PRule.negate, PRule.noNegConn, allNoNegConn_negateList body h.2]
  | .or neg body, h => by
    simp only [PRule.noNegConn, Bool.and_eq_true] at h
    simp [PRule.negate, PRule.noNegConn, allNoNegConn_negateList body h.2]
  | .cond neg body, h => by simpa [PRule.negate, PRule.noNegConn] using h
  | .nested neg _ _ _ _, h => by simpa [PRule.negate, PRule.noNegConn] using h
  | .atom neg _ _ _, _ => by simp [PRule.negate, PRule.noNegConn]
  | .top _ _ _ _ neg _ _ _, h => by simpa [PRule.negate, PRule.noNegConn] using h
theorem allNoNegConn_negateList : (rs : List PRule) → allNoNegConn rs = true → allNoNegConn (negateList rs) = true
  | [], _ => rfl
  | r :: rs, h => by
    simp only [allNoNegConn, Bool.and_eq_true] at h
    simp [negateList, allNoNegConn, noNegConn_negate r h.1, allNoNegConn_negateList rs h.2]
end

mutual
theorem boundVars_negate : (r : PRule) → r.negate.boundVars = r.boundVars
  | .and _ body => by simp [PRule.negate, PRule.boundVars, boundVarsList_negateList body]
  | .or _ body => by simp [PRule.negate, PRule.boundVars, boundVarsList_negateList body]
  | .cond _ _ => by simp [PRule.negate, PRule.boundVars]
  | .nested _ _ _ _ _ => by simp [PRule.negate, PRule.boundVars]
  | .atom _ _ _ _ => by simp [PRule.negate, PRule.boundVars]
  | .top _ _ _ _ _ _ _ _ => by simp [PRule.negate, PRule.boundVars]
theorem boundVarsList_negateList : (rs : List PRule) → boundVarsList (negateList rs) = boundVarsList rs
  | [] => rfl
  | r :: rs => by simp [negateList, boundVarsList, boundVars_negate r, boundVarsList_negateList rs]
end

theorem boundVarsList_append (a b : List PRule) : boundVarsList (a ++ b) = boundVarsList a ++ boundVarsList b := by
  induction a with
  | nil => rfl
  | cons r rs ih => simp [boundVarsList, ih]

theorem allNoNegConn_append (a b : List PRule) : allNoNegConn (a ++ b) = (allNoNegConn a && allNoNegConn b) := by
  induction a with
  | nil => rfl
  | cons r rs ih => simp [allNoNegConn, ih, Bool.and_assoc]

/-! ## The induction principle of the parser -/

/-- the predicate on a list of rules parsed one after the other -/
def PList (P : Nat → PRule → Nat → Prop) : Nat → List PRule → Nat → Prop
  | c, [], c' => c = c'
  | c, r :: rs, c' => ∃ m, P c r m ∧ PList P m rs c'

theorem PList.append {P : Nat → PRule → Nat → Prop} :
    ∀ {a b : List PRule} {c m c' : Nat}, PList P c a m → PList P m b c' → PList P c (a ++ b) c'
  | [], _, _, _, _, h₁, h₂ => by cases h₁; exact h₂
  | _ :: _, _, _, _, _, ⟨m', hr, hrs⟩, h₂ => ⟨m', hr, PList.append hrs h₂⟩

/-- closure of a predicate under the rule constructors the parser uses -/
structure Closed (P : Nat → PRule → Nat → Prop) : Prop where
  atom : ∀ c var path a, P c (.atom false var path a) c
  and : ∀ {c body c'}, PList P c body c' → P c (.and false body) c'
  or : ∀ {c body c'}, PList P c body c' → P c (.or false body) c'
  cond : ∀ {c body c'}, PList P c body c' → P c (.cond false body) c'
  nested : ∀ {c c' value} var (child : Var) path, child.name = (genVar c).name → P (c + 1) value c' →
    P c (.nested false var child path value) c'
  negate : ∀ {c r c'}, P c r c' → P c r.negate c'

/-- what the induction hypothesis says about the recursive call -/
def RecInv (P : Nat → PRule → Nat → Prop) (rec : Rec) : Prop :=
  ∀ var y c r c', rec var y c = .ok (r, c') → P c r c'

/-- all rules of the list are un-negated atoms -/
def Atoms (rs : List PRule) : Prop := ∀ r ∈ rs, ∃ var path a, r = .atom false var path a

theorem Atoms.nil : Atoms [] := by intro r h; cases h

theorem Atoms.single (var : String) (path : PPath) (a : Atom) : Atoms [.atom false var path a] := by
  intro r h
  simp only [List.mem_singleton] at h
  exact ⟨var, path, a, h⟩

theorem Atoms.plist {P : Nat → PRule → Nat → Prop} (hP : Closed P) :
    ∀ {rs : List PRule} (c : Nat), Atoms rs → PList P c rs c
  | [], _, _ => rfl
  | r :: rs, c, h => by
    obtain ⟨var, path, a, rfl⟩ := h r (List.mem_cons_self)
    exact ⟨c, hP.atom c var path a, Atoms.plist hP c (fun r' hr' => h r' (List.mem_cons_of_mem _ hr'))⟩

/-- a block of `ParseConstraint` that only produces un-negated atoms -/
def PureAtoms (f : PPath → String → Y → Except String (List PRule)) : Prop :=
  ∀ path var cons rs, f path var cons = .ok rs → Atoms rs

/-- what a block of `ParseConstraint` must satisfy -/
def StepInv (P : Nat → PRule → Nat → Prop) (s : Step) : Prop :=
  ∀ rec, RecInv P rec → ∀ path var cons c rs c', s rec path var cons c = .ok (rs, c') → PList P c rs c'

theorem pureStep_inv {P : Nat → PRule → Nat → Prop} (hP : Closed P)
    {f : PPath → String → Y → Except String (List PRule)} (hf : PureAtoms f) : StepInv P (pureStep f) := by
  intro rec _ path var cons c rs c' h
  simp only [pureStep] at h
  split at h
  · cases h
  · rename_i rs' hrs
    simp only [Except.ok.injEq, Prod.mk.injEq] at h
    obtain ⟨rfl, rfl⟩ := h
    exact Atoms.plist hP c (hf path var cons _ hrs)

theorem parseRego_atom {code : Option Y} {var : String} {path : PPath} {r : PRule}
    (h : parseRego code var path = .ok r) : ∃ a, r = .atom false var path a := by
  simp only [parseRego] at h
  split at h
  · split at h
    · cases h
    · simp only [Except.ok.injEq] at h; exact ⟨_, h.symm⟩
  · simp only [Except.ok.injEq] at h; exact ⟨_, h.symm⟩

theorem countStep_pure (key : String) (q t : Nat) : PureAtoms (fun path var cons =>
    match int? (cons.get key) with
    | some n => .ok [.atom false var path (.count key q t n)]
    | none => .ok []) := by
  intro path var cons rs h
  dsimp only at h
  split at h <;> simp only [Except.ok.injEq] at h <;> subst h
  · exact Atoms.single _ _ _
  · exact Atoms.nil

theorem countStep_inv {P} (hP : Closed P) (key : String) (q t : Nat) : StepInv P (countStep key q t) :=
  pureStep_inv hP (countStep_pure key q t)

theorem patternStep_inv {P} (hP : Closed P) : StepInv P patternStep := by
  refine pureStep_inv hP ?_
  intro path var cons rs h
  dsimp only at h
  split at h <;> simp only [Except.ok.injEq] at h <;> subst h
  · exact Atoms.single _ _ _
  · exact Atoms.nil

theorem setStep_inv {P} (hP : Closed P) (key : String) (crit : Nat) : StepInv P (setStep key crit) := by
  refine pureStep_inv hP ?_
  intro path var cons rs h
  dsimp only at h
  split at h
  · split at h
    · cases h
    · simp only [Except.ok.injEq] at h; subst h; exact Atoms.single _ _ _
  · simp only [Except.ok.injEq] at h; subst h; exact Atoms.nil

theorem uniqueStep_inv {P} (hP : Closed P) : StepInv P uniqueStep := by
  refine pureStep_inv hP ?_
  intro path var cons rs h
  dsimp only at h
  split at h <;> simp only [Except.ok.injEq] at h <;> subst h
  · exact Atoms.single _ _ _
  · exact Atoms.nil

theorem propStep_inv {P} (hP : Closed P) (key name : String) (op : CmpOp) : StepInv P (propStep key name op) := by
  refine pureStep_inv hP ?_
  intro path var cons rs h
  dsimp only at h
  split at h
  · split at h
    · cases h
    · simp only [Except.ok.injEq] at h; subst h; exact Atoms.single _ _ _
  · simp only [Except.ok.injEq] at h; subst h; exact Atoms.nil

theorem numericStep_inv {P} (hP : Closed P) (key : String) (op : CmpOp) : StepInv P (numericStep key op) := by
  refine pureStep_inv hP ?_
  intro path var cons rs h
  dsimp only at h
  split at h
  · split at h
    · simp only [Except.ok.injEq] at h; subst h; exact Atoms.single _ _ _
    · split at h
      · simp only [Except.ok.injEq] at h; subst h; exact Atoms.single _ _ _
      · cases h
  · simp only [Except.ok.injEq] at h; subst h; exact Atoms.nil

theorem datatypeStep_inv {P} (hP : Closed P) : StepInv P datatypeStep := by
  refine pureStep_inv hP ?_
  intro path var cons rs h
  dsimp only at h
  split at h
  · split at h
    · simp only [Except.ok.injEq] at h; subst h; exact Atoms.single _ _ _
    · cases h
  · simp only [Except.ok.injEq] at h; subst h; exact Atoms.nil

theorem regoStep_inv {P} (hP : Closed P) (key : String) : StepInv P (regoStep key) := by
  refine pureStep_inv hP ?_
  intro path var cons rs h
  dsimp only at h
  split at h
  · split at h
    · cases h
    · rename_i r hr
      simp only [Except.ok.injEq] at h; subst h
      obtain ⟨a, rfl⟩ := parseRego_atom hr
      exact Atoms.single _ _ _
  · simp only [Except.ok.injEq] at h; subst h; exact Atoms.nil

theorem parseNested_inv {P} (hP : Closed P) {rec : Rec} (hrec : RecInv P rec) {data : Y} {var : String}
    {path : PPath} {c : Nat} {r : PRule} {c' : Nat} (h : parseNested rec data var path c = .ok (r, c')) :
    P c r c' := by
  simp only [parseNested] at h
  split at h
  · cases h
  · rename_i value c'' hv
    simp only [Except.ok.injEq, Prod.mk.injEq] at h
    obtain ⟨rfl, rfl⟩ := h
    exact hP.nested var (genVar c) path rfl (hrec _ _ _ _ _ hv)

theorem parseQualified_inv {P} (hP : Closed P) {rec : Rec} (hrec : RecInv P rec) {q : Option Y} {var : String}
    {path : PPath} {op : CmpOp} {c : Nat} {r : PRule} {c' : Nat}
    (h : parseQualified rec q var path op c = .ok (r, c')) : P c r c' := by
  simp only [parseQualified] at h
  split at h
  · cases h
  · split at h
    · split at h
      · cases h
      · rename_i value c'' hv
        simp only [Except.ok.injEq, Prod.mk.injEq] at h
        obtain ⟨rfl, rfl⟩ := h
        exact hP.nested var _ path rfl (hrec _ _ _ _ _ hv)
    · cases h

theorem qualifiedStep_inv {P} (hP : Closed P) (key : String) (op : CmpOp) : StepInv P (qualifiedStep key op) := by
  intro rec hrec path var cons c rs c' h
  simp only [qualifiedStep] at h
  split at h
  · split at h
    · cases h
    · rename_i r c'' hq
      simp only [Except.ok.injEq, Prod.mk.injEq] at h
      obtain ⟨rfl, rfl⟩ := h
      exact ⟨_, parseQualified_inv hP hrec hq, rfl⟩
  · simp only [Except.ok.injEq, Prod.mk.injEq] at h
    obtain ⟨rfl, rfl⟩ := h
    rfl

theorem nestedStep_inv {P} (hP : Closed P) : StepInv P nestedStep := by
  intro rec hrec path var cons c rs c' h
  simp only [nestedStep] at h
  split at h
  · split at h
    · cases h
    · rename_i r c'' hq
      simp only [Except.ok.injEq, Prod.mk.injEq] at h
      obtain ⟨rfl, rfl⟩ := h
      exact ⟨_, parseNested_inv hP hrec hq, rfl⟩
  · simp only [Except.ok.injEq, Prod.mk.injEq] at h
    obtain ⟨rfl, rfl⟩ := h
    rfl

theorem constraintSteps_inv {P} (hP : Closed P) : ∀ s ∈ constraintSteps, StepInv P s := by
  intro s hs
  simp only [constraintSteps, List.mem_cons, List.not_mem_nil, or_false] at hs
  rcases hs with h | h | h | h | h | h | h | h | h | h | h | h | h | h | h | h | h | h | h | h | h | h | h | h |
    h | h | h | h <;> subst h
  all_goals first
    | exact countStep_inv hP _ _ _
    | exact patternStep_inv hP
    | exact setStep_inv hP _ _
    | exact uniqueStep_inv hP
    | exact propStep_inv hP _ _ _
    | exact qualifiedStep_inv hP _ _
    | exact numericStep_inv hP _ _
    | exact datatypeStep_inv hP
    | exact nestedStep_inv hP
    | exact regoStep_inv hP _

theorem runSteps_inv {P} {rec : Rec} (hrec : RecInv P rec) (path : PPath) (var : String) (cons : Y) :
    ∀ (ss : List Step), (∀ s ∈ ss, StepInv P s) → ∀ c rs c',
      runSteps rec path var cons ss c = .ok (rs, c') → PList P c rs c'
  | [], _, c, rs, c', h => by
    simp only [runSteps, Except.ok.injEq, Prod.mk.injEq] at h
    obtain ⟨rfl, rfl⟩ := h
    rfl
  | s :: ss, hss, c, rs, c', h => by
    simp only [runSteps] at h
    split at h
    · cases h
    · rename_i a c1 ha
      split at h
      · cases h
      · rename_i b c2 hb
        simp only [Except.ok.injEq, Prod.mk.injEq] at h
        obtain ⟨rfl, rfl⟩ := h
        exact PList.append (hss s (List.mem_cons_self) rec hrec path var cons c a c1 ha)
          (runSteps_inv hrec path var cons ss (fun s' hs' => hss s' (List.mem_cons_of_mem _ hs')) c1 b c2 hb)

theorem parseConstraint_inv {P} (hP : Closed P) {rec : Rec} (hrec : RecInv P rec) {path : PPath} {var : String}
    {cons : Y} {c : Nat} {rs : List PRule} {c' : Nat} (h : parseConstraint rec path var cons c = .ok (rs, c')) :
    PList P c rs c' :=
  runSteps_inv hrec path var cons constraintSteps (constraintSteps_inv hP) c rs c' h

theorem implicitAndLoop_inv {P} (hP : Closed P) {rec : Rec} (hrec : RecInv P rec) (data : Option Y) (var : String) :
    ∀ (ks : List String) c rs c', implicitAndLoop rec data var ks c = .ok (rs, c') → PList P c rs c'
  | [], c, rs, c', h => by
    simp only [implicitAndLoop, Except.ok.injEq, Prod.mk.injEq] at h
    obtain ⟨rfl, rfl⟩ := h
    rfl
  | k :: ks, c, rs, c', h => by
    simp only [implicitAndLoop] at h
    split at h
    · cases h
    · split at h
      · split at h
        · cases h
        · rename_i a c1 ha
          split at h
          · cases h
          · rename_i b c2 hb
            simp only [Except.ok.injEq, Prod.mk.injEq] at h
            obtain ⟨rfl, rfl⟩ := h
            exact PList.append (parseConstraint_inv hP hrec ha) (implicitAndLoop_inv hP hrec data var ks c1 b c2 hb)
      · cases h

theorem parseImplicitAnd_inv {P} (hP : Closed P) {rec : Rec} (hrec : RecInv P rec) {data : Option Y} {var : String}
    {c : Nat} {r : PRule} {c' : Nat} (h : parseImplicitAnd rec data var c = .ok (r, c')) : P c r c' := by
  simp only [parseImplicitAnd] at h
  split at h
  · cases h
  · rename_i body c'' hb
    simp only [Except.ok.injEq, Prod.mk.injEq] at h
    obtain ⟨rfl, rfl⟩ := h
    exact hP.and (implicitAndLoop_inv hP hrec data var _ c body _ hb)

theorem parseItems_inv {P} {rec : Rec} (hrec : RecInv P rec) (var : String) :
    ∀ (ns : List Y) c rs c', parseItems rec var ns c = .ok (rs, c') → PList P c rs c'
  | [], c, rs, c', h => by
    simp only [parseItems, Except.ok.injEq, Prod.mk.injEq] at h
    obtain ⟨rfl, rfl⟩ := h
    rfl
  | .map es :: ns, c, rs, c', h => by
    simp only [parseItems] at h
    split at h
    · cases h
    · rename_i r c1 hr
      split at h
      · cases h
      · rename_i rs' c2 hrs
        simp only [Except.ok.injEq, Prod.mk.injEq] at h
        obtain ⟨rfl, rfl⟩ := h
        exact ⟨c1, hrec _ _ _ _ _ hr, parseItems_inv hrec var ns c1 rs' c2 hrs⟩
  | .scalar _ _ :: _, _, _, _, h => by simp [parseItems] at h
  | .seq _ :: _, _, _, _, h => by simp [parseItems] at h
  | .other _ :: _, _, _, _, h => by simp [parseItems] at h

theorem parseConditional_inv {P} (hP : Closed P) {rec : Rec} (hrec : RecInv P rec) {var : String} {i t : Y}
    {e : Option Y} {c : Nat} {r : PRule} {c' : Nat} (h : parseConditional rec var i t e c = .ok (r, c')) :
    P c r c' := by
  simp only [parseConditional] at h
  split at h
  · cases h
  · rename_i ri c1 hi
    split at h
    · cases h
    · rename_i rt c2 ht
      split at h
      · split at h
        · cases h
        · rename_i re c3 he
          simp only [Except.ok.injEq, Prod.mk.injEq] at h
          obtain ⟨rfl, rfl⟩ := h
          exact hP.cond ⟨c1, hrec _ _ _ _ _ hi, c2, hrec _ _ _ _ _ ht, _, hrec _ _ _ _ _ he, rfl⟩
      · simp only [Except.ok.injEq, Prod.mk.injEq] at h
        obtain ⟨rfl, rfl⟩ := h
        exact hP.cond ⟨c1, hrec _ _ _ _ _ hi, _, hrec _ _ _ _ _ ht, rfl⟩

theorem except_map_ok {α β : Type} {f : α → β} {x : Except String α} {b : β} (h : x.map f = .ok b) :
    ∃ a, x = .ok a ∧ f a = b := by
  cases x with
  | error e => simp [Except.map] at h
  | ok a => simp only [Except.map, Except.ok.injEq] at h; exact ⟨a, rfl, h⟩

theorem pevCore_inv {P} (hP : Closed P) {rec : Rec} (hrec : RecInv P rec) {var : String} {g : String → Option Y}
    {c : Nat} {r : PRule} {c' : Nat} (h : pevCore rec var g c = .ok (r, c')) : P c r c' := by
  simp only [pevCore] at h
  split at h
  · exact parseImplicitAnd_inv hP hrec h
  · split at h
    · obtain ⟨a, ha, hab⟩ := except_map_ok h
      obtain ⟨at', rfl⟩ := parseRego_atom ha
      simp only [Prod.mk.injEq] at hab
      obtain ⟨rfl, rfl⟩ := hab
      exact hP.atom _ _ _ _
    · split at h
      · obtain ⟨a, ha, hab⟩ := except_map_ok h
        obtain ⟨at', rfl⟩ := parseRego_atom ha
        simp only [Prod.mk.injEq] at hab
        obtain ⟨rfl, rfl⟩ := hab
        exact hP.atom _ _ _ _
      · split at h
        · split at h
          · obtain ⟨a, ha, hab⟩ := except_map_ok h
            simp only [Prod.mk.injEq] at hab
            obtain ⟨rfl, rfl⟩ := hab
            exact hP.and (parseItems_inv hrec var _ c a.1 a.2 ha)
          · cases h
        · split at h
          · split at h
            · obtain ⟨a, ha, hab⟩ := except_map_ok h
              simp only [Prod.mk.injEq] at hab
              obtain ⟨rfl, rfl⟩ := hab
              exact hP.or (parseItems_inv hrec var _ c a.1 a.2 ha)
            · cases h
          · split at h
            · split at h
              · obtain ⟨a, ha, hab⟩ := except_map_ok h
                simp only [Prod.mk.injEq] at hab
                obtain ⟨rfl, rfl⟩ := hab
                exact hP.negate (hrec _ _ _ _ _ ha)
              · cases h
            · split at h
              · split at h
                · exact parseConditional_inv hP hrec h
                · cases h
              · cases h

/-- the induction principle: every closed predicate holds of every result of `parseExpressionValue` -/
theorem pev_inv {P : Nat → PRule → Nat → Prop} (hP : Closed P) : ∀ (f : Nat), RecInv P (pev f)
  | 0 => by intro var y c r c' h; simp [pev] at h
  | f + 1 => by
    intro var y c r c' h
    exact pevCore_inv hP (pev_inv hP f) (h : pevCore (pev f) var y.get c = .ok (r, c'))


/-! ## Similar trees: the parser only looks at a mapping through `Get`

`Sim n y y'`: `y` and `y'` cannot be told apart by `n` levels of `parseExpressionValue`.  Mappings are compared
through their look-ups only (so the order of their entries is irrelevant), except the `propertyConstraints`
mappings, which must list the same keys in the same order (`PCRel`: the key order decides the allocation of
variables and the order of the conjuncts). -/

def sameKind (a b : Y) : Prop := isMap (some a) = isMap (some b)

def OptRel (R : Y → Y → Prop) : Option Y → Option Y → Prop
  | none, none => True
  | some a, some b => R a b
  | _, _ => False

def ListRel (R : Y → Y → Prop) : List Y → List Y → Prop
  | [], [] => True
  | a :: as, b :: bs => R a b ∧ ListRel R as bs
  | _, _ => False

/-- the value of `and` / `or`: two sequences of related elements, or two nodes that are not sequences (both
are then rejected) -/
def SeqRel (R : Y → Y → Prop) : Y → Y → Prop
  | .seq xs, .seq ys => ListRel R xs ys
  | .seq _, _ => False
  | _, .seq _ => False
  | _, _ => True

/-- the value of `atLeast` / `atMost` / `exactly` -/
def QRel (R : Y → Y → Prop) (q q' : Y) : Prop :=
  q.get "count" = q'.get "count" ∧ OptRel R (q.get "validation") (q'.get "validation")

/-- the keys of a constraint mapping whose value is parsed recursively -/
def consKeys : List String := ["nested", "atLeast", "atMost", "exactly"]

/-- the constraints of one property path -/
def ConsRel (R : Y → Y → Prop) (a b : Y) : Prop :=
  sameKind a b ∧ (∀ k, k ∉ consKeys → a.get k = b.get k) ∧
  OptRel R (a.get "nested") (b.get "nested") ∧
  OptRel (QRel R) (a.get "atLeast") (b.get "atLeast") ∧
  OptRel (QRel R) (a.get "atMost") (b.get "atMost") ∧
  OptRel (QRel R) (a.get "exactly") (b.get "exactly")

/-- the value of `propertyConstraints`: the same keys in the same order, related constraints -/
def PCRel (R : Y → Y → Prop) (a b : Y) : Prop :=
  mapKeys (some a) = mapKeys (some b) ∧ ∀ k, OptRel (ConsRel R) (a.get k) (b.get k)

/-- the keys of an expression whose value is parsed recursively -/
def exprKeys : List String := ["propertyConstraints", "and", "or", "not", "if", "then", "else"]

def KeysRel (R : Y → Y → Prop) (g g' : String → Option Y) : Prop :=
  (∀ k, k ∉ exprKeys → g k = g' k) ∧
  OptRel (PCRel R) (g "propertyConstraints") (g' "propertyConstraints") ∧
  OptRel (SeqRel R) (g "and") (g' "and") ∧
  OptRel (SeqRel R) (g "or") (g' "or") ∧
  OptRel R (g "not") (g' "not") ∧
  OptRel R (g "if") (g' "if") ∧
  OptRel R (g "then") (g' "then") ∧
  OptRel R (g "else") (g' "else")

def Sim : Nat → Y → Y → Prop
  | 0, a, b => sameKind a b
  | n + 1, a, b => sameKind a b ∧ KeysRel (Sim n) a.get b.get

/-- the recursive call does not distinguish related trees -/
def RecRel2 (R : Y → Y → Prop) (rec rec' : Rec) : Prop :=
  ∀ a b, R a b → ∀ var c, rec var a c = rec' var b c

def RecRel (R : Y → Y → Prop) (rec : Rec) : Prop := RecRel2 R rec rec

theorem OptRel.none_left {R : Y → Y → Prop} {o : Option Y} (h : OptRel R none o) : o = none := by
  cases o with
  | none => rfl
  | some _ => exact h.elim

theorem OptRel.some_left {R : Y → Y → Prop} {a : Y} {o : Option Y} (h : OptRel R (some a) o) :
    ∃ b, o = some b ∧ R a b := by
  cases o with
  | none => exact h.elim
  | some b => exact ⟨b, rfl, h⟩

theorem OptRel.of_eq {R : Y → Y → Prop} (hR : ∀ a, R a a) : ∀ {o o' : Option Y}, o = o' → OptRel R o o'
  | none, _, rfl => trivial
  | some a, _, rfl => hR a

theorem ListRel.refl {R : Y → Y → Prop} (hR : ∀ a, R a a) : ∀ l, ListRel R l l
  | [] => trivial
  | a :: l => ⟨hR a, ListRel.refl hR l⟩

theorem sameKind_map_left {es : List (Y × Y)} {b : Y} (h : sameKind (.map es) b) : ∃ es', b = .map es' := by
  cases b with
  | map es' => exact ⟨es', rfl⟩
  | scalar _ _ => simp [sameKind, isMap] at h
  | seq _ => simp [sameKind, isMap] at h
  | other _ => simp [sameKind, isMap] at h

theorem sameKind_not_map {a b : Y} (h : sameKind a b) (ha : ∀ es, a ≠ .map es) : ∀ es, b ≠ .map es := by
  intro es hb
  subst hb
  cases a with
  | map es' => exact ha es' rfl
  | scalar _ _ => simp [sameKind, isMap] at h
  | seq _ => simp [sameKind, isMap] at h
  | other _ => simp [sameKind, isMap] at h

section Congr
variable {R : Y → Y → Prop} {rec rec' : Rec}

theorem parseQualified_congr (hrec : RecRel2 R rec rec') (hk : ∀ a b, R a b → sameKind a b) {q q' : Y}
    (h : QRel R q q') (var : String) (path : PPath) (op : CmpOp) (c : Nat) :
    parseQualified rec (some q) var path op c = parseQualified rec' (some q') var path op c := by
  obtain ⟨hc, hv⟩ := h
  simp only [parseQualified, oget, hc]
  cases hq : q.get "validation" with
  | none =>
    rw [hq] at hv
    rw [hv.none_left]
  | some v =>
    rw [hq] at hv
    obtain ⟨v', hv', hr⟩ := hv.some_left
    rw [hv']
    have hs := hk _ _ hr
    cases v with
    | map es =>
      obtain ⟨es', rfl⟩ := sameKind_map_left hs
      simp only [hrec _ _ hr]
    | scalar t x =>
      have := sameKind_not_map hs (by intro es h; cases h)
      cases v' with
      | map es' => exact absurd rfl (this es')
      | _ => rfl
    | seq x =>
      have := sameKind_not_map hs (by intro es h; cases h)
      cases v' with
      | map es' => exact absurd rfl (this es')
      | _ => rfl
    | other x =>
      have := sameKind_not_map hs (by intro es h; cases h)
      cases v' with
      | map es' => exact absurd rfl (this es')
      | _ => rfl

/-- a block of `ParseConstraint` does not distinguish related constraint mappings -/
def StepCongr (R : Y → Y → Prop) (s : Step) : Prop :=
  ∀ rec rec', RecRel2 R rec rec' → ∀ a b, ConsRel R a b → ∀ path var c, s rec path var a c = s rec' path var b c

theorem qualifiedStep_congr (hk : ∀ a b, R a b → sameKind a b) (key : String) (op : CmpOp)
    (hkey : key = "atLeast" ∨ key = "atMost" ∨ key = "exactly") : StepCongr R (qualifiedStep key op) := by
  intro rec rec' hrec a b h path var c
  have hq : OptRel (QRel R) (a.get key) (b.get key) := by
    rcases hkey with rfl | rfl | rfl
    · exact h.2.2.2.1
    · exact h.2.2.2.2.1
    · exact h.2.2.2.2.2
  simp only [qualifiedStep]
  cases ha : a.get key with
  | none =>
    rw [ha] at hq
    rw [hq.none_left]
  | some q =>
    rw [ha] at hq
    obtain ⟨q', hq', hr⟩ := hq.some_left
    rw [hq']
    simp only [parseQualified_congr hrec hk hr]

theorem nestedStep_congr (hk : ∀ a b, R a b → sameKind a b) : StepCongr R nestedStep := by
  intro rec rec' hrec a b h path var c
  have hn := h.2.2.1
  simp only [nestedStep]
  cases ha : a.get "nested" with
  | none =>
    rw [ha] at hn
    rw [hn.none_left]
  | some v =>
    rw [ha] at hn
    obtain ⟨v', hv', hr⟩ := hn.some_left
    rw [hv']
    have hs := hk _ _ hr
    cases v with
    | map es =>
      obtain ⟨es', rfl⟩ := sameKind_map_left hs
      simp only [parseNested, hrec _ _ hr]
    | scalar t x =>
      have := sameKind_not_map hs (by intro es h; cases h)
      cases v' with
      | map es' => exact absurd rfl (this es')
      | _ => rfl
    | seq x =>
      have := sameKind_not_map hs (by intro es h; cases h)
      cases v' with
      | map es' => exact absurd rfl (this es')
      | _ => rfl
    | other x =>
      have := sameKind_not_map hs (by intro es h; cases h)
      cases v' with
      | map es' => exact absurd rfl (this es')
      | _ => rfl

theorem countStep_congr (key : String) (q t : Nat) (hkey : key ∉ consKeys) : StepCongr R (countStep key q t) := by
  intro rec rec' _ a b h path var c
  simp only [countStep, pureStep, h.2.1 key hkey]

theorem patternStep_congr : StepCongr R patternStep := by
  intro rec rec' _ a b h path var c
  simp only [patternStep, pureStep, h.2.1 "pattern" (by decide)]

theorem setStep_congr (key : String) (crit : Nat) (hkey : key ∉ consKeys) : StepCongr R (setStep key crit) := by
  intro rec rec' _ a b h path var c
  simp only [setStep, pureStep, h.2.1 key hkey]

theorem uniqueStep_congr : StepCongr R uniqueStep := by
  intro rec rec' _ a b h path var c
  simp only [uniqueStep, pureStep, h.2.1 "uniqueValues" (by decide)]

theorem propStep_congr (key name : String) (op : CmpOp) (hkey : key ∉ consKeys) :
    StepCongr R (propStep key name op) := by
  intro rec rec' _ a b h path var c
  simp only [propStep, pureStep, h.2.1 key hkey]

theorem numericStep_congr (key : String) (op : CmpOp) (hkey : key ∉ consKeys) : StepCongr R (numericStep key op) := by
  intro rec rec' _ a b h path var c
  simp only [numericStep, pureStep, h.2.1 key hkey]

theorem datatypeStep_congr : StepCongr R datatypeStep := by
  intro rec rec' _ a b h path var c
  simp only [datatypeStep, pureStep, h.2.1 "datatype" (by decide)]

theorem regoStep_congr (key : String) (hkey : key ∉ consKeys) : StepCongr R (regoStep key) := by
  intro rec rec' _ a b h path var c
  simp only [regoStep, pureStep, h.2.1 key hkey]

theorem constraintSteps_congr (hk : ∀ a b, R a b → sameKind a b) : ∀ s ∈ constraintSteps, StepCongr R s := by
  intro s hs
  simp only [constraintSteps, List.mem_cons, List.not_mem_nil, or_false] at hs
  rcases hs with h | h | h | h | h | h | h | h | h | h | h | h | h | h | h | h | h | h | h | h | h | h | h | h |
    h | h | h | h <;> subst h
  all_goals first
    | exact qualifiedStep_congr hk _ _ (by simp)
    | exact nestedStep_congr hk
    | exact countStep_congr _ _ _ (by decide)
    | exact patternStep_congr
    | exact setStep_congr _ _ (by decide)
    | exact uniqueStep_congr
    | exact propStep_congr _ _ _ (by decide)
    | exact numericStep_congr _ _ (by decide)
    | exact datatypeStep_congr
    | exact regoStep_congr _ (by decide)

theorem runSteps_congr (hrec : RecRel2 R rec rec') {a b : Y} (h : ConsRel R a b) (path : PPath) (var : String) :
    ∀ (ss : List Step), (∀ s ∈ ss, StepCongr R s) → ∀ c,
      runSteps rec path var a ss c = runSteps rec' path var b ss c
  | [], _, _ => rfl
  | s :: ss, hss, c => by
    simp only [runSteps, hss s (List.mem_cons_self) rec rec' hrec a b h path var c]
    split
    · rfl
    · rw [runSteps_congr hrec h path var ss (fun s' hs' => hss s' (List.mem_cons_of_mem _ hs'))]

theorem implicitAndLoop_congr (hrec : RecRel2 R rec rec') (hk : ∀ a b, R a b → sameKind a b) {d d' : Y}
    (h : ∀ k, OptRel (ConsRel R) (d.get k) (d'.get k)) (var : String) :
    ∀ (ks : List String) c, implicitAndLoop rec (some d) var ks c = implicitAndLoop rec' (some d') var ks c
  | [], _ => rfl
  | k :: ks, c => by
    simp only [implicitAndLoop, oget]
    split
    · rfl
    · rename_i path _
      have hk' := h k
      cases ha : d.get k with
      | none =>
        rw [ha] at hk'
        rw [hk'.none_left]
      | some v =>
        rw [ha] at hk'
        obtain ⟨v', hv', hr⟩ := hk'.some_left
        rw [hv']
        have hs := hr.1
        cases v with
        | map es =>
          obtain ⟨es', rfl⟩ := sameKind_map_left hs
          simp only [parseConstraint, runSteps_congr hrec hr path var constraintSteps (constraintSteps_congr hk)]
          split
          · rfl
          · rw [implicitAndLoop_congr hrec hk h var ks]
        | scalar t x =>
          have := sameKind_not_map hs (by intro es h; cases h)
          cases v' with
          | map es' => exact absurd rfl (this es')
          | _ => rfl
        | seq x =>
          have := sameKind_not_map hs (by intro es h; cases h)
          cases v' with
          | map es' => exact absurd rfl (this es')
          | _ => rfl
        | other x =>
          have := sameKind_not_map hs (by intro es h; cases h)
          cases v' with
          | map es' => exact absurd rfl (this es')
          | _ => rfl

theorem parseImplicitAnd_congr (hrec : RecRel2 R rec rec') (hk : ∀ a b, R a b → sameKind a b) {d d' : Y}
    (h : PCRel R d d') (var : String) (c : Nat) :
    parseImplicitAnd rec (some d) var c = parseImplicitAnd rec' (some d') var c := by
  simp only [parseImplicitAnd, h.1, implicitAndLoop_congr hrec hk h.2 var]

theorem parseItems_congr (hrec : RecRel2 R rec rec') (hk : ∀ a b, R a b → sameKind a b) (var : String) :
    ∀ (xs ys : List Y), ListRel R xs ys → ∀ c, parseItems rec var xs c = parseItems rec' var ys c
  | [], [], _, _ => rfl
  | [], _ :: _, h, _ => h.elim
  | _ :: _, [], h, _ => h.elim
  | x :: xs, y :: ys, ⟨hr, hl⟩, c => by
    have hs := hk _ _ hr
    cases x with
    | map es =>
      obtain ⟨es', rfl⟩ := sameKind_map_left hs
      simp only [parseItems, hrec _ _ hr]
      split
      · rfl
      · rw [parseItems_congr hrec hk var xs ys hl]
    | scalar t v =>
      have := sameKind_not_map hs (by intro es h; cases h)
      cases y with
      | map es' => exact absurd rfl (this es')
      | _ => rfl
    | seq v =>
      have := sameKind_not_map hs (by intro es h; cases h)
      cases y with
      | map es' => exact absurd rfl (this es')
      | _ => rfl
    | other v =>
      have := sameKind_not_map hs (by intro es h; cases h)
      cases y with
      | map es' => exact absurd rfl (this es')
      | _ => rfl

theorem parseConditional_congr (hrec : RecRel2 R rec rec') {i i' t t' : Y} {e e' : Option Y} (hi : R i i') (ht : R t t')
    (he : OptRel R e e') (var : String) (c : Nat) :
    parseConditional rec var i t e c = parseConditional rec' var i' t' e' c := by
  simp only [parseConditional, hrec _ _ hi, hrec _ _ ht]
  cases e with
  | none => rw [he.none_left]
  | some x =>
    obtain ⟨x', rfl, hr⟩ := he.some_left
    simp only [hrec _ _ hr]

theorem pevCore_congr (hrec : RecRel2 R rec rec') (hk : ∀ a b, R a b → sameKind a b) {g g' : String → Option Y}
    (h : KeysRel R g g') (var : String) (c : Nat) : pevCore rec var g c = pevCore rec' var g' c := by
  obtain ⟨hother, hpc, hand, hor, hnot, hif, hthen, helse⟩ := h
  have hrego : g "rego" = g' "rego" := hother _ (by decide)
  have hmod : g "regoModule" = g' "regoModule" := hother _ (by decide)
  simp only [pevCore, ← hrego, ← hmod]
  -- propertyConstraints
  cases hp : g "propertyConstraints" with
  | some v =>
    rw [hp] at hpc
    obtain ⟨v', hv', hr⟩ := hpc.some_left
    simp only [hv', parseImplicitAnd_congr hrec hk hr]
  | none =>
    rw [hp] at hpc
    simp only [hpc.none_left]
    cases g "rego" with
    | some code => rfl
    | none =>
    cases g "regoModule" with
    | some code => rfl
    | none =>
    simp only
    -- and
    cases ha : g "and" with
    | some a =>
      rw [ha] at hand
      obtain ⟨a', ha', hr⟩ := hand.some_left
      rw [ha']
      cases a <;> cases a' <;> first
        | exact hr.elim
        | rfl
        | (rename_i xs ys; simp only [parseItems_congr hrec hk var xs ys hr])
    | none =>
      rw [ha] at hand
      simp only [hand.none_left]
      -- or
      cases ho : g "or" with
      | some o =>
        rw [ho] at hor
        obtain ⟨o', ho', hr⟩ := hor.some_left
        rw [ho']
        cases o <;> cases o' <;> first
          | exact hr.elim
          | rfl
          | (rename_i xs ys; simp only [parseItems_congr hrec hk var xs ys hr])
      | none =>
        rw [ho] at hor
        simp only [hor.none_left]
        -- not
        cases hn : g "not" with
        | some n =>
          rw [hn] at hnot
          obtain ⟨n', hn', hr⟩ := hnot.some_left
          rw [hn']
          have hs := hk _ _ hr
          cases n with
          | map es =>
            obtain ⟨es', rfl⟩ := sameKind_map_left hs
            simp only [hrec _ _ hr]
          | scalar t x =>
            have := sameKind_not_map hs (by intro es h; cases h)
            cases n' with
            | map es' => exact absurd rfl (this es')
            | _ => rfl
          | seq x =>
            have := sameKind_not_map hs (by intro es h; cases h)
            cases n' with
            | map es' => exact absurd rfl (this es')
            | _ => rfl
          | other x =>
            have := sameKind_not_map hs (by intro es h; cases h)
            cases n' with
            | map es' => exact absurd rfl (this es')
            | _ => rfl
        | none =>
          rw [hn] at hnot
          simp only [hnot.none_left]
          -- if
          cases hi : g "if" with
          | none =>
            rw [hi] at hif
            simp only [hif.none_left]
          | some i =>
            rw [hi] at hif
            obtain ⟨i', hi', hri⟩ := hif.some_left
            rw [hi']
            cases ht : g "then" with
            | none =>
              rw [ht] at hthen
              simp only [hthen.none_left]
            | some t =>
              rw [ht] at hthen
              obtain ⟨t', ht', hrt⟩ := hthen.some_left
              simp only [ht', parseConditional_congr hrec hri hrt helse]

end Congr

theorem Sim.kind : ∀ {n : Nat} {a b : Y}, Sim n a b → sameKind a b
  | 0, _, _, h => h
  | _ + 1, _, _, h => h.1

/-- related trees are parsed alike: same result, same counter, same error -/
theorem pev_sim : ∀ (n : Nat), RecRel (Sim n) (pev n)
  | 0 => by intro a b _ var c; rfl
  | n + 1 => by
    intro a b h var c
    exact pevCore_congr (pev_sim n) (fun _ _ h => h.kind) h.2 var c

/-! ### How to establish `Sim` -/

theorem SeqRel.refl {R : Y → Y → Prop} (hR : ∀ a, R a a) : ∀ a, SeqRel R a a
  | .seq xs => ListRel.refl hR xs
  | .scalar _ _ => trivial
  | .map _ => trivial
  | .other _ => trivial

theorem QRel.refl {R : Y → Y → Prop} (hR : ∀ a, R a a) (q : Y) : QRel R q q :=
  ⟨rfl, OptRel.of_eq hR rfl⟩

theorem ConsRel.of_get_eq {R : Y → Y → Prop} (hR : ∀ a, R a a) {a b : Y} (hs : sameKind a b) (h : a.get = b.get) :
    ConsRel R a b :=
  ⟨hs, fun k _ => by rw [h], OptRel.of_eq hR (by rw [h]), OptRel.of_eq (QRel.refl hR) (by rw [h]),
    OptRel.of_eq (QRel.refl hR) (by rw [h]), OptRel.of_eq (QRel.refl hR) (by rw [h])⟩

theorem PCRel.refl {R : Y → Y → Prop} (hR : ∀ a, R a a) (a : Y) : PCRel R a a :=
  ⟨rfl, fun _ => OptRel.of_eq (fun _ => ConsRel.of_get_eq hR rfl rfl) rfl⟩

theorem KeysRel.of_eq {R : Y → Y → Prop} (hR : ∀ a, R a a) {g g' : String → Option Y} (h : g = g') :
    KeysRel R g g' := by
  subst h
  exact ⟨fun _ _ => rfl, OptRel.of_eq (PCRel.refl hR) rfl, OptRel.of_eq (SeqRel.refl hR) rfl,
    OptRel.of_eq (SeqRel.refl hR) rfl, OptRel.of_eq hR rfl, OptRel.of_eq hR rfl, OptRel.of_eq hR rfl,
    OptRel.of_eq hR rfl⟩

theorem Sim.refl : ∀ (n : Nat) (a : Y), Sim n a a
  | 0, _ => rfl
  | n + 1, _ => ⟨rfl, KeysRel.of_eq (Sim.refl n) rfl⟩

/-- two nodes of the same kind with the same look-ups are similar -/
theorem Sim.of_get_eq (n : Nat) {a b : Y} (hs : sameKind a b) (h : a.get = b.get) : Sim n a b := by
  cases n with
  | zero => exact hs
  | succ n => exact ⟨hs, KeysRel.of_eq (Sim.refl n) h⟩

/-- permuting the entries of a mapping with distinct keys -/
theorem Sim.perm (n : Nat) {es es' : List (Y × Y)} (p : es.Perm es') (h : DistinctKeys es) :
    Sim n (.map es) (.map es') :=
  Sim.of_get_eq n rfl (funext (getEntries_perm p h))

/-- similarity only depends on the look-ups of the left tree … -/
theorem Sim.congr_left {n : Nat} {a a' b : Y} (hs : sameKind a a') (h : a.get = a'.get) (hab : Sim n a' b) :
    Sim n a b := by
  cases n with
  | zero => exact hs.trans hab
  | succ n => exact ⟨hs.trans hab.1, by rw [h]; exact hab.2⟩

/-- … and of the right tree -/
theorem Sim.congr_right {n : Nat} {a b b' : Y} (hs : sameKind b' b) (h : b'.get = b.get) (hab : Sim n a b') :
    Sim n a b := by
  cases n with
  | zero => exact Eq.trans hab hs
  | succ n => exact ⟨Eq.trans hab.1 hs, by rw [← h]; exact hab.2⟩

/-! ### Monotonicity and transitivity of the relation formers -/

section RelLemmas
variable {R S : Y → Y → Prop}

theorem OptRel.mono (h : ∀ a b, R a b → S a b) : ∀ {o o' : Option Y}, OptRel R o o' → OptRel S o o'
  | none, none, _ => trivial
  | some a, some b, hr => h a b hr
  | none, some _, hr => hr.elim
  | some _, none, hr => hr.elim

theorem OptRel.trans (h : ∀ a b c, R a b → R b c → R a c) :
    ∀ {o o' o'' : Option Y}, OptRel R o o' → OptRel R o' o'' → OptRel R o o''
  | none, none, none, _, _ => trivial
  | some a, some b, some c, h₁, h₂ => h a b c h₁ h₂
  | none, some _, _, h₁, _ => h₁.elim
  | some _, none, _, h₁, _ => h₁.elim
  | none, none, some _, _, h₂ => h₂.elim
  | some _, some _, none, _, h₂ => h₂.elim

theorem OptRel.trans' {o o' o'' : Option Y} (h₁ : OptRel R o o') (h₂ : OptRel R o' o'')
    (h : ∀ a b c, R a b → R b c → R a c) : OptRel R o o'' := OptRel.trans h h₁ h₂

theorem ListRel.mono (h : ∀ a b, R a b → S a b) : ∀ {l l' : List Y}, ListRel R l l' → ListRel S l l'
  | [], [], _ => trivial
  | a :: _, b :: _, ⟨hr, hl⟩ => ⟨h a b hr, ListRel.mono h hl⟩
  | [], _ :: _, hr => hr.elim
  | _ :: _, [], hr => hr.elim

theorem ListRel.trans (h : ∀ a b c, R a b → R b c → R a c) :
    ∀ {l l' l'' : List Y}, ListRel R l l' → ListRel R l' l'' → ListRel R l l''
  | [], [], [], _, _ => trivial
  | a :: _, b :: _, c :: _, ⟨h₁, t₁⟩, ⟨h₂, t₂⟩ => ⟨h a b c h₁ h₂, ListRel.trans h t₁ t₂⟩
  | [], _ :: _, _, h₁, _ => h₁.elim
  | _ :: _, [], _, h₁, _ => h₁.elim
  | [], [], _ :: _, _, h₂ => h₂.elim
  | _ :: _, _ :: _, [], _, h₂ => h₂.elim

theorem SeqRel.mono (h : ∀ a b, R a b → S a b) : ∀ {a b : Y}, SeqRel R a b → SeqRel S a b
  | .seq _, .seq _, hr => ListRel.mono h hr
  | .seq _, .scalar _ _, hr => hr.elim
  | .seq _, .map _, hr => hr.elim
  | .seq _, .other _, hr => hr.elim
  | .scalar _ _, .seq _, hr => hr.elim
  | .map _, .seq _, hr => hr.elim
  | .other _, .seq _, hr => hr.elim
  | .scalar _ _, .scalar _ _, _ => trivial
  | .scalar _ _, .map _, _ => trivial
  | .scalar _ _, .other _, _ => trivial
  | .map _, .scalar _ _, _ => trivial
  | .map _, .map _, _ => trivial
  | .map _, .other _, _ => trivial
  | .other _, .scalar _ _, _ => trivial
  | .other _, .map _, _ => trivial
  | .other _, .other _, _ => trivial

theorem SeqRel.seq_left {xs : List Y} {b : Y} (h : SeqRel R (.seq xs) b) : ∃ ys, b = .seq ys ∧ ListRel R xs ys := by
  cases b with
  | seq ys => exact ⟨ys, rfl, h⟩
  | scalar _ _ => exact h.elim
  | map _ => exact h.elim
  | other _ => exact h.elim

theorem SeqRel.not_seq {a b : Y} (h : SeqRel R a b) (ha : ∀ xs, a ≠ .seq xs) : ∀ ys, b ≠ .seq ys := by
  intro ys hb
  subst hb
  cases a with
  | seq xs => exact ha xs rfl
  | scalar _ _ => exact h.elim
  | map _ => exact h.elim
  | other _ => exact h.elim

theorem SeqRel.of_not_seq {a b : Y} (ha : ∀ xs, a ≠ .seq xs) (hb : ∀ ys, b ≠ .seq ys) : SeqRel R a b := by
  cases a with
  | seq xs => exact absurd rfl (ha xs)
  | _ => cases b with
    | seq ys => exact absurd rfl (hb ys)
    | _ => trivial

theorem SeqRel.trans (h : ∀ a b c, R a b → R b c → R a c) {a b c : Y} (h₁ : SeqRel R a b) (h₂ : SeqRel R b c) :
    SeqRel R a c := by
  cases a with
  | seq xs =>
    obtain ⟨ys, rfl, hl⟩ := h₁.seq_left
    obtain ⟨zs, rfl, hl'⟩ := h₂.seq_left
    exact hl.trans h hl'
  | scalar t v =>
    exact SeqRel.of_not_seq (by intro _ h; cases h) (h₂.not_seq (h₁.not_seq (by intro _ h; cases h)))
  | map es =>
    exact SeqRel.of_not_seq (by intro _ h; cases h) (h₂.not_seq (h₁.not_seq (by intro _ h; cases h)))
  | other v =>
    exact SeqRel.of_not_seq (by intro _ h; cases h) (h₂.not_seq (h₁.not_seq (by intro _ h; cases h)))

theorem QRel.mono (h : ∀ a b, R a b → S a b) {a b : Y} (hr : QRel R a b) : QRel S a b :=
  ⟨hr.1, hr.2.mono h⟩

theorem QRel.trans (h : ∀ a b c, R a b → R b c → R a c) {a b c : Y} (h₁ : QRel R a b) (h₂ : QRel R b c) :
    QRel R a c :=
  ⟨h₁.1.trans h₂.1, h₁.2.trans h h₂.2⟩

theorem ConsRel.mono (h : ∀ a b, R a b → S a b) {a b : Y} (hr : ConsRel R a b) : ConsRel S a b :=
  ⟨hr.1, hr.2.1, hr.2.2.1.mono h, hr.2.2.2.1.mono (fun _ _ x => QRel.mono h x),
    hr.2.2.2.2.1.mono (fun _ _ x => QRel.mono h x), hr.2.2.2.2.2.mono (fun _ _ x => QRel.mono h x)⟩

theorem ConsRel.trans (h : ∀ a b c, R a b → R b c → R a c) {a b c : Y} (h₁ : ConsRel R a b) (h₂ : ConsRel R b c) :
    ConsRel R a c :=
  ⟨Eq.trans h₁.1 h₂.1, fun k hk => (h₁.2.1 k hk).trans (h₂.2.1 k hk), h₁.2.2.1.trans h h₂.2.2.1,
    h₁.2.2.2.1.trans' h₂.2.2.2.1 (fun _ _ _ x₁ x₂ => QRel.trans h x₁ x₂),
    h₁.2.2.2.2.1.trans' h₂.2.2.2.2.1 (fun _ _ _ x₁ x₂ => QRel.trans h x₁ x₂),
    h₁.2.2.2.2.2.trans' h₂.2.2.2.2.2 (fun _ _ _ x₁ x₂ => QRel.trans h x₁ x₂)⟩

theorem PCRel.mono (h : ∀ a b, R a b → S a b) {a b : Y} (hr : PCRel R a b) : PCRel S a b :=
  ⟨hr.1, fun k => (hr.2 k).mono (fun _ _ x => ConsRel.mono h x)⟩

theorem PCRel.trans (h : ∀ a b c, R a b → R b c → R a c) {a b c : Y} (h₁ : PCRel R a b) (h₂ : PCRel R b c) :
    PCRel R a c :=
  ⟨h₁.1.trans h₂.1, fun k => (h₁.2 k).trans' (h₂.2 k) (fun _ _ _ x₁ x₂ => ConsRel.trans h x₁ x₂)⟩

theorem KeysRel.mono (h : ∀ a b, R a b → S a b) {g g' : String → Option Y} (hr : KeysRel R g g') : KeysRel S g g' :=
  ⟨hr.1, hr.2.1.mono (fun _ _ x => PCRel.mono h x), hr.2.2.1.mono (fun _ _ x => SeqRel.mono h x),
    hr.2.2.2.1.mono (fun _ _ x => SeqRel.mono h x), hr.2.2.2.2.1.mono h, hr.2.2.2.2.2.1.mono h,
    hr.2.2.2.2.2.2.1.mono h, hr.2.2.2.2.2.2.2.mono h⟩

theorem KeysRel.trans (h : ∀ a b c, R a b → R b c → R a c) {g g' g'' : String → Option Y}
    (h₁ : KeysRel R g g') (h₂ : KeysRel R g' g'') : KeysRel R g g'' :=
  ⟨fun k hk => (h₁.1 k hk).trans (h₂.1 k hk), h₁.2.1.trans' h₂.2.1 (fun _ _ _ x₁ x₂ => PCRel.trans h x₁ x₂),
    h₁.2.2.1.trans' h₂.2.2.1 (fun _ _ _ x₁ x₂ => SeqRel.trans h x₁ x₂),
    h₁.2.2.2.1.trans' h₂.2.2.2.1 (fun _ _ _ x₁ x₂ => SeqRel.trans h x₁ x₂),
    h₁.2.2.2.2.1.trans h h₂.2.2.2.2.1, h₁.2.2.2.2.2.1.trans h h₂.2.2.2.2.2.1,
    h₁.2.2.2.2.2.2.1.trans h h₂.2.2.2.2.2.2.1, h₁.2.2.2.2.2.2.2.trans h h₂.2.2.2.2.2.2.2⟩

end RelLemmas

theorem Sim.trans : ∀ {n : Nat} {a b c : Y}, Sim n a b → Sim n b c → Sim n a c
  | 0, _, _, _, h₁, h₂ => Eq.trans h₁ h₂
  | _ + 1, _, _, _, h₁, h₂ => ⟨Eq.trans h₁.1 h₂.1, KeysRel.trans (R := Sim _) (fun _ _ _ x₁ x₂ => Sim.trans x₁ x₂) h₁.2 h₂.2⟩

/-- similar at every depth -/
def SimAll (a b : Y) : Prop := ∀ n, Sim n a b

theorem SimAll.refl (a : Y) : SimAll a a := fun n => Sim.refl n a

theorem SimAll.trans {a b c : Y} (h₁ : SimAll a b) (h₂ : SimAll b c) : SimAll a c := fun n => (h₁ n).trans (h₂ n)

theorem SimAll.perm {es es' : List (Y × Y)} (p : es.Perm es') (h : DistinctKeys es) :
    SimAll (.map es) (.map es') := fun n => Sim.perm n p h

theorem SimAll.kind {a b : Y} (h : SimAll a b) : sameKind a b := h 0

theorem SimAll.intro {a b : Y} (hs : sameKind a b) (h : KeysRel SimAll a.get b.get) : SimAll a b
  | 0 => hs
  | n + 1 => ⟨hs, h.mono (fun _ _ hab => hab n)⟩

/-! ### Rewriting the value of one entry of a mapping -/

theorem getEntries_replace_ne {pre post : List (Y × Y)} {key v v' : Y} {k : String} (hk : key.isKey k = false) :
    getEntries (pre ++ (key, v) :: post) k = getEntries (pre ++ (key, v') :: post) k := by
  induction pre with
  | nil => simp [getEntries, hk]
  | cons e pre ih =>
    obtain ⟨k', w⟩ := e
    simp only [List.cons_append, getEntries, ih]

theorem getEntries_replace_eq {pre post : List (Y × Y)} {key v : Y} {k : String} (hk : key.isKey k = true)
    (hpre : ∀ e ∈ pre, e.1.isKey k = false) : getEntries (pre ++ (key, v) :: post) k = some v := by
  induction pre with
  | nil => simp [getEntries, hk]
  | cons e pre ih =>
    obtain ⟨k', w⟩ := e
    have h1 : k'.isKey k = false := hpre (k', w) (List.mem_cons_self)
    simp only [List.cons_append, getEntries, h1, Bool.false_eq_true, if_false]
    exact ih (fun e he => hpre e (List.mem_cons_of_mem _ he))

/-- what must relate the old and the new value of the entry `key` of an expression -/
def ValRel (key : String) (v v' : Y) : Prop :=
  if key = "propertyConstraints" then PCRel SimAll v v'
  else if key = "and" ∨ key = "or" then SeqRel SimAll v v'
  else if key = "not" ∨ key = "if" ∨ key = "then" ∨ key = "else" then SimAll v v'
  else v = v'

/-- replace the value of the (first) entry `key` of an expression by a related one -/
theorem SimAll.entry {pre post : List (Y × Y)} {tag key : String} {v v' : Y}
    (hpre : ∀ e ∈ pre, e.1.isKey key = false) (hv : ValRel key v v') :
    SimAll (.map (pre ++ (.scalar tag key, v) :: post)) (.map (pre ++ (.scalar tag key, v') :: post)) := by
  refine SimAll.intro rfl ?_
  have hne : ∀ k, k ≠ key → (Y.map (pre ++ (.scalar tag key, v) :: post)).get k =
      (Y.map (pre ++ (.scalar tag key, v') :: post)).get k := by
    intro k hk
    exact getEntries_replace_ne (by simp only [Y.isKey, beq_eq_false_iff_ne]; exact fun h => hk h.symm)
  have heq1 : (Y.map (pre ++ (.scalar tag key, v) :: post)).get key = some v :=
    getEntries_replace_eq (by simp [Y.isKey]) hpre
  have heq2 : (Y.map (pre ++ (.scalar tag key, v') :: post)).get key = some v' :=
    getEntries_replace_eq (by simp [Y.isKey]) hpre
  -- one component of `KeysRel`
  have comp : ∀ (k : String) (T : Y → Y → Prop), (∀ a, T a a) → (key = k → T v v') →
      OptRel T ((Y.map (pre ++ (.scalar tag key, v) :: post)).get k)
        ((Y.map (pre ++ (.scalar tag key, v') :: post)).get k) := by
    intro k T hT hk
    by_cases h : k = key
    · subst h
      rw [heq1, heq2]
      exact hk rfl
    · exact OptRel.of_eq hT (hne k h)
  refine ⟨?_, comp _ _ (PCRel.refl SimAll.refl) ?_, comp _ _ (SeqRel.refl SimAll.refl) ?_,
    comp _ _ (SeqRel.refl SimAll.refl) ?_, comp _ _ SimAll.refl ?_, comp _ _ SimAll.refl ?_,
    comp _ _ SimAll.refl ?_, comp _ _ SimAll.refl ?_⟩
  · intro k hk
    by_cases h : k = key
    · subst h
      rw [heq1, heq2]
      have : v = v' := by
        simp only [exprKeys, List.mem_cons, List.not_mem_nil, or_false, not_or] at hk
        simpa [ValRel, hk] using hv
      rw [this]
    · exact hne k h
  all_goals (intro h; subst h; simpa [ValRel] using hv)

theorem ConsRel.refl {R : Y → Y → Prop} (hR : ∀ a, R a a) (a : Y) : ConsRel R a a :=
  ConsRel.of_get_eq hR rfl rfl

/-- the constraint mapping of a path may be permuted -/
theorem ConsRel.perm {R : Y → Y → Prop} (hR : ∀ a, R a a) {es es' : List (Y × Y)} (p : es.Perm es')
    (h : DistinctKeys es) : ConsRel R (.map es) (.map es') :=
  ConsRel.of_get_eq hR rfl (funext (getEntries_perm p h))

/-- replace the value of the `nested` entry of a constraint mapping by a related one -/
theorem ConsRel.nested {R : Y → Y → Prop} (hR : ∀ a, R a a) {pre post : List (Y × Y)} {tag : String} {v v' : Y}
    (hpre : ∀ e ∈ pre, e.1.isKey "nested" = false) (hv : R v v') :
    ConsRel R (.map (pre ++ (.scalar tag "nested", v) :: post)) (.map (pre ++ (.scalar tag "nested", v') :: post)) := by
  have hne : ∀ k, k ≠ "nested" → (Y.map (pre ++ (.scalar tag "nested", v) :: post)).get k =
      (Y.map (pre ++ (.scalar tag "nested", v') :: post)).get k := by
    intro k hk
    exact getEntries_replace_ne (by simp only [Y.isKey, beq_eq_false_iff_ne]; exact fun h => hk h.symm)
  have heq1 : (Y.map (pre ++ (.scalar tag "nested", v) :: post)).get "nested" = some v :=
    getEntries_replace_eq (by simp [Y.isKey]) hpre
  have heq2 : (Y.map (pre ++ (.scalar tag "nested", v') :: post)).get "nested" = some v' :=
    getEntries_replace_eq (by simp [Y.isKey]) hpre
  refine ⟨rfl, ?_, ?_, OptRel.of_eq (QRel.refl hR) (hne _ (by decide)),
    OptRel.of_eq (QRel.refl hR) (hne _ (by decide)), OptRel.of_eq (QRel.refl hR) (hne _ (by decide))⟩
  · intro k hk
    refine hne k ?_
    intro h
    subst h
    exact hk (by decide)
  · rw [heq1, heq2]
    exact hv

/-- replace the constraints of one path of a `propertyConstraints` mapping by related ones (the keys and
their order are unchanged) -/
theorem PCRel.entry {R : Y → Y → Prop} (hR : ∀ a, R a a) {pre post : List (Y × Y)} {tag key : String} {v v' : Y}
    (hpre : ∀ e ∈ pre, e.1.isKey key = false) (hv : ConsRel R v v') :
    PCRel R (.map (pre ++ (.scalar tag key, v) :: post)) (.map (pre ++ (.scalar tag key, v') :: post)) := by
  refine ⟨by simp [mapKeys, List.map_append], ?_⟩
  intro k
  by_cases h : k = key
  · subst h
    have heq1 : (Y.map (pre ++ (.scalar tag k, v) :: post)).get k = some v :=
      getEntries_replace_eq (by simp [Y.isKey]) hpre
    have heq2 : (Y.map (pre ++ (.scalar tag k, v') :: post)).get k = some v' :=
      getEntries_replace_eq (by simp [Y.isKey]) hpre
    rw [heq1, heq2]
    exact hv
  · exact OptRel.of_eq (ConsRel.refl hR)
      (getEntries_replace_ne (by simp only [Y.isKey, beq_eq_false_iff_ne]; exact fun h' => h h'.symm))

/-! ### A decidable criterion for `DistinctKeys` -/

/-- the values of the scalar keys -/
def keyVals : List (Y × Y) → List String
  | [] => []
  | (.scalar _ v, _) :: es => v :: keyVals es
  | _ :: es => keyVals es

theorem mem_keyVals {es : List (Y × Y)} {e : Y × Y} {k : String} (he : e ∈ es) (hk : e.1.isKey k = true) :
    k ∈ keyVals es := by
  induction es with
  | nil => cases he
  | cons x es ih =>
    obtain ⟨kx, vx⟩ := x
    cases he with
    | head =>
      obtain ⟨tag, h⟩ := isKey_iff.1 hk
      simp only at h
      subst h
      simp [keyVals]
    | tail _ he' =>
      have := ih he'
      cases kx <;> simp [keyVals, this]

theorem distinctKeys_of_nodup : ∀ {es : List (Y × Y)}, (keyVals es).Nodup → DistinctKeys es
  | [], _ => List.Pairwise.nil
  | (kx, vx) :: es, h => by
    refine List.pairwise_cons.2 ⟨?_, ?_⟩
    · intro e he k ⟨h1, h2⟩
      obtain ⟨tag, hx⟩ := isKey_iff.1 h1
      simp only at hx
      subst hx
      simp only [keyVals, List.nodup_cons] at h
      exact h.1 (mem_keyVals he h2)
    · refine distinctKeys_of_nodup ?_
      cases kx with
      | scalar t v => simp only [keyVals, List.nodup_cons] at h; exact h.2
      | seq _ => exact h
      | map _ => exact h
      | other _ => exact h

/-! ## The recursion budget is never exhausted

`pevB bottom` is `pev` with an arbitrary behaviour `bottom` at budget 0.  With a budget of at least the depth
of the tree the result depends neither on the budget nor on `bottom`: the bottom is never reached. -/

def pevB (bottom : Rec) : Nat → Rec
  | 0 => bottom
  | f + 1 => fun var data c => pevCore (pevB bottom f) var data.get c

theorem pev_eq_pevB : ∀ f, pev f = pevB (fun _ _ _ => .error "fuel") f
  | 0 => rfl
  | f + 1 => by
    show (fun var (data : Y) c => pevCore (pev f) var data.get c) =
      fun var (data : Y) c => pevCore (pevB _ f) var data.get c
    rw [pev_eq_pevB f]

theorem depth_pos : ∀ (y : Y), 1 ≤ y.depth
  | .scalar _ _ => Nat.le_refl _
  | .other _ => Nat.le_refl _
  | .seq _ => by simp [Y.depth]
  | .map _ => by simp [Y.depth]

theorem depth_getEntries : ∀ {es : List (Y × Y)} {k : String} {v : Y}, getEntries es k = some v →
    v.depth ≤ depthEntries es
  | [], _, _, h => by simp [getEntries] at h
  | (key, w) :: es, k, v, h => by
    simp only [getEntries] at h
    simp only [depthEntries]
    split at h
    · cases h
      omega
    · have := depth_getEntries h
      omega

theorem depth_get {y : Y} {k : String} {v : Y} (h : y.get k = some v) : v.depth < y.depth := by
  cases y with
  | map es =>
    have := depth_getEntries (show getEntries es k = some v from h)
    simp only [Y.depth]
    omega
  | scalar _ _ => cases h
  | seq _ => cases h
  | other _ => cases h

/-- the same node, of depth at most `d` -/
def Below (d : Nat) (a b : Y) : Prop := a = b ∧ a.depth ≤ d

theorem OptRel.self {T : Y → Y → Prop} {o : Option Y} (h : ∀ v, o = some v → T v v) : OptRel T o o := by
  cases o with
  | none => trivial
  | some v => exact h v rfl

theorem listRel_below {d : Nat} : ∀ {xs : List Y}, depthList xs ≤ d → ListRel (Below d) xs xs
  | [], _ => trivial
  | x :: xs, h => by
    simp only [depthList] at h
    exact ⟨⟨rfl, by omega⟩, listRel_below (by omega)⟩

theorem seqRel_below {d : Nat} {s : Y} (h : s.depth ≤ d + 1) : SeqRel (Below d) s s := by
  cases s with
  | seq xs =>
    simp only [Y.depth] at h
    exact listRel_below (by omega)
  | scalar _ _ => trivial
  | map _ => trivial
  | other _ => trivial

theorem qRel_below {d : Nat} {q : Y} (h : q.depth ≤ d + 1) : QRel (Below d) q q :=
  ⟨rfl, OptRel.self fun v hv => ⟨rfl, by have := depth_get hv; omega⟩⟩

theorem consRel_below {d : Nat} {w : Y} (h : w.depth ≤ d + 1) : ConsRel (Below d) w w :=
  ⟨rfl, fun _ _ => rfl, OptRel.self fun v hv => ⟨rfl, by have := depth_get hv; omega⟩,
    OptRel.self fun v hv => qRel_below (by have := depth_get hv; omega),
    OptRel.self fun v hv => qRel_below (by have := depth_get hv; omega),
    OptRel.self fun v hv => qRel_below (by have := depth_get hv; omega)⟩

theorem pcRel_below {d : Nat} {v : Y} (h : v.depth ≤ d + 1) : PCRel (Below d) v v :=
  ⟨rfl, fun _ => OptRel.self fun w hw => consRel_below (by have := depth_get hw; omega)⟩

theorem keysRel_below {d : Nat} {y : Y} (h : y.depth ≤ d + 1) : KeysRel (Below d) y.get y.get :=
  ⟨fun _ _ => rfl,
    OptRel.self fun v hv => pcRel_below (by have := depth_get hv; omega),
    OptRel.self fun v hv => seqRel_below (by have := depth_get hv; omega),
    OptRel.self fun v hv => seqRel_below (by have := depth_get hv; omega),
    OptRel.self fun v hv => ⟨rfl, by have := depth_get hv; omega⟩,
    OptRel.self fun v hv => ⟨rfl, by have := depth_get hv; omega⟩,
    OptRel.self fun v hv => ⟨rfl, by have := depth_get hv; omega⟩,
    OptRel.self fun v hv => ⟨rfl, by have := depth_get hv; omega⟩⟩

/-- on trees of depth at most `d`, budgets `f, f' ≥ d` give the same result whatever happens at budget 0 -/
theorem pevB_fuel (b b' : Rec) : ∀ (d f f' : Nat), d ≤ f → d ≤ f' → RecRel2 (Below d) (pevB b f) (pevB b' f')
  | 0, _, _, _, _ => by
    intro a _ ⟨_, h⟩
    have := depth_pos a
    omega
  | d + 1, 0, _, h, _ => by omega
  | d + 1, _ + 1, 0, _, h => by omega
  | d + 1, f + 1, f' + 1, h₁, h₂ => by
    intro a a' ⟨hab, hd⟩ var c
    subst hab
    exact pevCore_congr (pevB_fuel b b' d f f' (by omega) (by omega)) (fun _ _ h => by rw [h.1]; rfl)
      (keysRel_below hd) var c

end Acv.PP
