import Acv.Model.Rule
namespace Dnf
variable {N : Type}

/-! basic lemmas on DNF evaluation -/
theorem dnfFires_append (env : Env N) (a b : List (List SLit)) (n : N) :
    dnfFires env (a ++ b) n = (dnfFires env a n || dnfFires env b n) := by
  induction a with
  | nil => simp [dnfFires]
  | cons x xs ih => simp [dnfFires, ih, Bool.or_assoc]

theorem brFires_append (env : Env N) (a b : List SLit) (n : N) :
    brFires env (a ++ b) n = (brFires env a n && brFires env b n) := by
  induction a with
  | nil => simp [brFires]
  | cons x xs ih => simp [brFires, ih, Bool.and_assoc]

/-- value of a `[]GeneratedRegoResult` read as a disjunction of branches -/
def gensFire (env : Env N) (gs : List Gen) (n : N) : Bool :=
  dnfFires env (gs.map Gen.toBranch) n

theorem dnfFires_map_branch (env : Env N) (bs : List (List SLit)) (n : N) :
    gensFire env (bs.map Gen.branch) n = dnfFires env bs n := by
  unfold gensFire
  induction bs with
  | nil => simp [dnfFires]
  | cons x xs ih => simp [dnfFires, Gen.toBranch] at *; rw [ih]

/-- every dispatch result is either one simple literal or a list of branches -/
def Shape (gs : List Gen) : Prop :=
  (∃ l, gs = [.simple l]) ∨ simples gs = []

theorem simples_map_branch (bs : List (List SLit)) : simples (bs.map Gen.branch) = [] := by
  induction bs with
  | nil => rfl
  | cons x xs ih => simp [simples, ih]

theorem branches_map_branch (bs : List (List SLit)) : branches (bs.map Gen.branch) = bs := by
  induction bs with
  | nil => rfl
  | cons x xs ih => simp [branches, ih]

theorem gensFire_of_simples_nil (env : Env N) (gs : List Gen) (n : N) (h : simples gs = []) :
    gensFire env gs n = dnfFires env (branches gs) n := by
  unfold gensFire
  induction gs with
  | nil => simp [branches, dnfFires]
  | cons g gs ih =>
    cases g with
    | simple l => simp [simples] at h
    | branch b =>
      simp [simples] at h
      simp [branches, dnfFires, Gen.toBranch, ih h]

theorem dnfFires_map_append (env : Env N) (acc : List (List SLit)) (b : List SLit) (n : N) :
    dnfFires env (acc.map (fun src => src ++ b)) n = (dnfFires env acc n && brFires env b n) := by
  induction acc with
  | nil => simp [dnfFires]
  | cons a as iha => simp [dnfFires, brFires_append, iha, Bool.and_or_distrib_right]

/-- one step of expandBranches -/
theorem dnfFires_cross (env : Env N) (acc bs : List (List SLit)) (n : N) :
    dnfFires env (bs.flatMap (fun b => acc.map (fun src => src ++ b))) n
      = (dnfFires env acc n && dnfFires env bs n) := by
  induction bs with
  | nil => simp [dnfFires]
  | cons b bs ih =>
    simp only [List.flatMap_cons, dnfFires_append, ih, dnfFires, dnfFires_map_append]
    rw [Bool.and_or_distrib_left]

theorem dnfFires_foldl (env : Env N) (sets : List (List (List SLit))) (acc : List (List SLit)) (n : N) :
    dnfFires env (sets.foldl (fun acc bs => bs.flatMap (fun b => acc.map (fun src => src ++ b))) acc) n
      = (dnfFires env acc n && sets.all (fun bs => dnfFires env bs n)) := by
  induction sets generalizing acc with
  | nil => simp
  | cons s ss ih => simp [List.foldl_cons, ih, dnfFires_cross, Bool.and_assoc]

theorem dnfFires_expand (env : Env N) (base : List SLit) (sets : List (List (List SLit))) (n : N) :
    dnfFires env (expandBranches base sets) n
      = (brFires env base n && sets.all (fun bs => dnfFires env bs n)) := by
  simp [expandBranches, dnfFires_foldl, dnfFires]

theorem expand_ne_nil (base : List SLit) (sets : List (List (List SLit)))
    (h : ∀ s ∈ sets, s ≠ []) : expandBranches base sets ≠ [] := by
  unfold expandBranches
  suffices ∀ acc : List (List SLit), acc ≠ [] →
      sets.foldl (fun acc bs => bs.flatMap (fun b => acc.map (fun src => src ++ b))) acc ≠ [] from
    this [base] (by simp)
  induction sets with
  | nil => intro acc hacc; simpa
  | cons s ss ih =>
    intro acc hacc
    simp only [List.foldl_cons]
    apply ih (fun s' hs' => h s' (List.mem_cons_of_mem _ hs'))
    have hs : s ≠ [] := h s (List.mem_cons_self ..)
    cases s with
    | nil => exact absurd rfl hs
    | cons b bs =>
      cases acc with
      | nil => exact absurd rfl hacc
      | cons a as => simp

end Dnf

