import Acv.Lemmas.Dnf
namespace Dnf
variable {N : Type}

mutual
def Proper : Rule → Bool
  | .atom _ _ => true
  | .and b => !b.isEmpty && ProperL b
  | .or b => !b.isEmpty && ProperL b
  | .cond _ i t => Proper i && Proper t
  | .condE _ i t e => Proper i && Proper t && Proper e
  | .nested _ _ _ r => Proper r
def ProperL : List Rule → Bool
  | [] => true
  | r :: rs => Proper r && ProperL rs
end

theorem negateL_isEmpty (b : List Rule) : (negateL b).isEmpty = b.isEmpty := by
  cases b <;> simp [negateL]

mutual
theorem proper_negate : ∀ r, Proper (negate r) = Proper r
  | .atom _ _ => by simp [negate, Proper]
  | .and b => by simp [negate, Proper, properL_negateL b, negateL_isEmpty]
  | .or b => by simp [negate, Proper, properL_negateL b, negateL_isEmpty]
  | .cond _ _ _ => by simp [negate, Proper]
  | .condE _ _ _ _ => by simp [negate, Proper]
  | .nested _ _ _ _ => by simp [negate, Proper]
theorem properL_negateL : ∀ b, ProperL (negateL b) = ProperL b
  | [] => by simp [negateL, ProperL]
  | r :: rs => by simp [negateL, ProperL, proper_negate r, properL_negateL rs]
end

mutual
theorem holds_negate (env : Env N) : ∀ r n, holds env (negate r) n = !holds env r n
  | .atom neg a, n => by cases neg <;> simp [negate, holds]
  | .and b, n => by simp [negate, holds, anyL_negateL env b n]
  | .or b, n => by simp [negate, holds, allL_negateL env b n]
  | .cond neg _ _, n => by cases neg <;> simp [negate, holds]
  | .condE neg _ _ _, n => by cases neg <;> simp [negate, holds]
  | .nested neg _ _ _, n => by cases neg <;> simp [negate, holds]
theorem anyL_negateL (env : Env N) : ∀ b n, anyL env (negateL b) n = !allL env b n
  | [], n => by simp [negateL, anyL, allL]
  | r :: rs, n => by simp [negateL, anyL, allL, holds_negate env r n, anyL_negateL env rs n, Bool.not_and]
theorem allL_negateL (env : Env N) : ∀ b n, allL env (negateL b) n = !anyL env b n
  | [], n => by simp [negateL, anyL, allL]
  | r :: rs, n => by simp [negateL, anyL, allL, holds_negate env r n, allL_negateL env rs n, Bool.not_or]
end

theorem ne_nil_of_simples_nil {gs : List Gen} (h : simples gs = []) (hne : gs ≠ []) : branches gs ≠ [] := by
  cases gs with
  | nil => exact absurd rfl hne
  | cons g gs =>
    cases g with
    | simple l => simp [simples] at h
    | branch b => simp [branches]

theorem or_combine (env : Env N) (n : N) (all : List (List Gen))
    (h : ∀ gs ∈ all, Shape gs ∧ gs ≠ []) :
    (brFires env (all.flatMap simples) n &&
      ((all.map branches).filter (fun s => !s.isEmpty)).all (fun bs => dnfFires env bs n))
      = all.all (fun gs => gensFire env gs n) := by
  induction all with
  | nil => simp [brFires]
  | cons gs rest ih =>
    have hrest := ih (fun g hg => h g (List.mem_cons_of_mem _ hg))
    obtain ⟨hshape, hne⟩ := h gs (List.mem_cons_self ..)
    rcases hshape with ⟨l, rfl⟩ | hs
    · simp only [List.flatMap_cons, simples, List.map_cons, branches, List.all_cons]
      simp only [List.filter, List.isEmpty_nil, Bool.not_true]
      rw [← hrest]
      simp [gensFire, Gen.toBranch, dnfFires, brFires, Bool.and_assoc]
    · have hb := ne_nil_of_simples_nil hs hne
      simp only [List.flatMap_cons, hs, List.nil_append, List.map_cons, List.all_cons]
      have : (!(branches gs).isEmpty) = true := by
        cases hbr : branches gs with
        | nil => exact absurd hbr hb
        | cons _ _ => simp
      simp only [List.filter, this, List.all_cons]
      rw [← hrest, gensFire_of_simples_nil env gs n hs]
      simp [Bool.and_left_comm]

theorem countP_sub (l : List N) (p : N → Bool) :
    l.length - (l.filter (fun c => !p c)).length = l.countP p := by
  induction l with
  | nil => simp
  | cons a as ih =>
    have hle : (as.filter (fun c => !p c)).length ≤ as.length := List.length_filter_le _ _
    cases hp : p a <;> simp [List.filter, List.countP_cons, hp] <;> omega

theorem filter_not_len_zero (l : List N) (p : N → Bool) :
    ((l.filter (fun c => !p c)).length == 0) = l.all p := by
  induction l with
  | nil => simp
  | cons a as ih =>
    cases hp : p a <;> simp [List.filter, hp] at * <;> simpa using ih

theorem compile_correct (env : Env N) (hc : Classical env) :
    (∀ r, Proper r = true →
      (∀ n, gensFire env (dispatch r) n = !holds env r n) ∧ Shape (dispatch r) ∧ dispatch r ≠ []) := by
  refine (dispatch.mutual_induct
    (motive1 := fun r => Proper r = true →
      (∀ n, gensFire env (dispatch r) n = !holds env r n) ∧ Shape (dispatch r) ∧ dispatch r ≠ [])
    (motive2 := fun neg b => ProperL b = true →
      (∀ n, dnfFires env (genOr neg b) n = !(xor neg (anyL env b n))) ∧ (b ≠ [] → genOr neg b ≠ []))
    (motive3 := fun b => ProperL b = true →
      (∀ n, (orBody b).all (fun gs => gensFire env gs n) = !anyL env b n) ∧
        (∀ gs ∈ orBody b, Shape gs ∧ gs ≠ []))
    (motive4 := fun neg b => ProperL b = true →
      (∀ n, dnfFires env (genAnd neg b) n = !(xor neg (allL env b n))) ∧ (b ≠ [] → genAnd neg b ≠ []))
    (motive5 := fun b => ProperL b = true →
      (∀ n, dnfFires env (andBody b) n = !allL env b n) ∧ (b ≠ [] → andBody b ≠ []))
    ?_ ?_ ?_ ?_ ?_ ?_ ?_ ?_ ?_ ?_ ?_ ?_ ?_ ?_ ?_).1
  -- atom
  · intro neg a _
    refine ⟨?_, Or.inl ⟨.atom neg a, by simp [dispatch]⟩, by simp [dispatch]⟩
    intro n
    cases neg <;> simp [dispatch, gensFire, Gen.toBranch, dnfFires, brFires, litFails, holds, hc a n]
  -- and
  · intro b ih hp
    simp only [Proper, Bool.and_eq_true, Bool.not_eq_true', List.isEmpty_eq_false_iff] at hp
    obtain ⟨h1, h2⟩ := ih hp.2
    refine ⟨?_, Or.inr (by simp [dispatch, simples_map_branch]), ?_⟩
    · intro n; simp [dispatch, dnfFires_map_branch, h1 n, holds]
    · simp [dispatch]; exact h2 hp.1
  -- or
  · intro b ih hp
    simp only [Proper, Bool.and_eq_true, Bool.not_eq_true', List.isEmpty_eq_false_iff] at hp
    obtain ⟨h1, h2⟩ := ih hp.2
    refine ⟨?_, Or.inr (by simp [dispatch, simples_map_branch]), ?_⟩
    · intro n; simp [dispatch, dnfFires_map_branch, h1 n, holds]
    · simp [dispatch]; exact h2 hp.1
  -- cond
  · intro neg i t ih hp
    simp only [Proper, Bool.and_eq_true] at hp
    have hpl : ProperL [negate i, t] = true := by simp [ProperL, proper_negate, hp.1, hp.2]
    obtain ⟨h1, h2⟩ := ih hpl
    refine ⟨?_, Or.inr (by simp [dispatch, simples_map_branch]), ?_⟩
    · intro n
      simp [dispatch, dnfFires_map_branch, h1 n, holds, anyL, holds_negate]
    · simp [dispatch]; exact h2 (by simp)
  -- condE negated
  · intro i t e ih hp
    simp only [Proper, Bool.and_eq_true] at hp
    have hpl : ProperL [Rule.and [i, negate t], Rule.and [negate i, negate e]] = true := by
      simp [ProperL, Proper, proper_negate, hp.1.1, hp.1.2, hp.2]
    obtain ⟨h1, h2⟩ := ih hpl
    refine ⟨?_, Or.inr (by simp [dispatch, simples_map_branch]), ?_⟩
    · intro n
      simp [dispatch, dnfFires_map_branch, h1 n, holds, anyL, allL, holds_negate]
    · simp [dispatch]; exact h2 (by simp)
  -- condE plain
  · intro neg i t e hneg ih1 ih2 hp
    simp only [Proper, Bool.and_eq_true] at hp
    have hneg' : neg = false := by cases neg <;> simp_all
    subst hneg'
    have hpl1 : ProperL [negate i, t] = true := by simp [ProperL, proper_negate, hp.1.1, hp.1.2]
    have hpl2 : ProperL [i, e] = true := by simp [ProperL, hp.1.1, hp.2]
    obtain ⟨h1, h1'⟩ := ih1 hpl1
    obtain ⟨h2, h2'⟩ := ih2 hpl2
    have hd : dispatch (Rule.condE false i t e)
        = (genOr false [negate i, t] ++ genOr false [i, e]).map Gen.branch := by
      rw [dispatch]; simp
    refine ⟨?_, Or.inr (by rw [hd]; exact simples_map_branch _), ?_⟩
    · intro n
      rw [hd, dnfFires_map_branch, dnfFires_append, h1 n, h2 n]
      simp [holds, anyL, holds_negate]
    · rw [hd]
      intro h
      have h' := List.map_eq_nil_iff.1 h
      have h'' := List.append_eq_nil_iff.1 h'
      exact absurd h''.1 (h1' (by simp))
  -- nested
  · intro neg p q r ih hp
    simp only [Proper] at hp
    obtain ⟨h1, _, _⟩ := ih hp
    refine ⟨?_, Or.inr (by simp [dispatch, simples]), by simp [dispatch]⟩
    intro n
    have hfail : ∀ c, dnfFires env ((dispatch r).map Gen.toBranch) c = !holds env r c := h1
    simp only [dispatch, gensFire, List.map, Gen.toBranch, dnfFires, brFires, litFails, holds,
      Bool.and_true, Bool.or_false]
    have hf : (fun c => dnfFires env ((dispatch r).map Gen.toBranch) c) = (fun c => !holds env r c) :=
      funext hfail
    rw [hf]
    cases q with
    | all =>
      simp only [quantOK]
      cases neg
      · simp only [Bool.false_eq_true, ↓reduceIte, Bool.false_xor]
        have := filter_not_len_zero (env.kids p n) (fun c => holds env r c)
        rw [← this]
        cases h : (List.filter (fun c => !holds env r c) (env.kids p n)).length <;> simp
      · simp only [↓reduceIte, Bool.true_xor, Bool.not_not]
        exact filter_not_len_zero (env.kids p n) (fun c => holds env r c)
    | card op k =>
      simp only [quantOK]
      rw [countP_sub (env.kids p n) (fun c => holds env r c)]
      cases neg <;> simp
  -- genOr true
  · intro b ih hp
    obtain ⟨h1, h2⟩ := ih (by simpa [properL_negateL] using hp)
    refine ⟨?_, ?_⟩
    · intro n
      rw [genOr]; simp [h1 n, allL_negateL]
    · intro hb; rw [genOr]; simp
      apply h2; cases b <;> simp_all [negateL]
  -- genOr false
  · intro neg b hneg ih hp
    have hneg' : neg = false := by cases neg <;> simp_all
    subst hneg'
    obtain ⟨h1, h2⟩ := ih hp
    refine ⟨?_, ?_⟩
    · intro n
      rw [genOr]
      simp only [Bool.false_eq_true, ↓reduceIte, Bool.false_xor]
      rw [dnfFires_expand, or_combine env n (orBody b) h2, h1 n]
    · intro _
      rw [genOr]
      simp only [Bool.false_eq_true, ↓reduceIte]
      apply expand_ne_nil
      intro s hs
      simp only [List.mem_filter] at hs
      intro hnil; simp [hnil] at hs
  -- orBody nil
  · intro _; simp [orBody, anyL]
  -- orBody cons
  · intro r rs ih1 ih2 hp
    simp only [ProperL, Bool.and_eq_true] at hp
    obtain ⟨a1, a2, a3⟩ := ih1 hp.1
    obtain ⟨b1, b2⟩ := ih2 hp.2
    refine ⟨?_, ?_⟩
    · intro n; rw [orBody]; simp [a1 n, b1 n, anyL, Bool.not_or]
    · intro gs hgs; rw [orBody] at hgs
      rcases List.mem_cons.1 hgs with rfl | h
      · exact ⟨a2, a3⟩
      · exact b2 gs h
  -- genAnd true
  · intro b ih hp
    obtain ⟨h1, h2⟩ := ih (by simpa [properL_negateL] using hp)
    refine ⟨?_, ?_⟩
    · intro n
      rw [genAnd]; simp [h1 n, anyL_negateL]
    · intro hb; rw [genAnd]; simp
      apply h2; cases b <;> simp_all [negateL]
  -- genAnd false
  · intro neg b hneg ih hp
    have hneg' : neg = false := by cases neg <;> simp_all
    subst hneg'
    obtain ⟨h1, h2⟩ := ih hp
    refine ⟨?_, ?_⟩
    · intro n; rw [genAnd]; simp [h1 n]
    · intro hb; rw [genAnd]; simpa using h2 hb
  -- andBody nil
  · intro _; simp [andBody, allL, dnfFires]
  -- andBody cons
  · intro r rs ih1 ih2 hp
    simp only [ProperL, Bool.and_eq_true] at hp
    obtain ⟨a1, _, a3⟩ := ih1 hp.1
    obtain ⟨b1, _⟩ := ih2 hp.2
    refine ⟨?_, ?_⟩
    · intro n
      rw [andBody, dnfFires_append]
      have := a1 n
      unfold gensFire at this
      simp [this, b1 n, allL, Bool.not_and]
    · intro _; rw [andBody]; simp
      intro h; exact absurd h a3

#print axioms compile_correct
end Dnf
