import Acv.Lemmas.Compile
import Acv.Model.Trace
/-! lemmas for `Acv/Props/C12Trace.lean` -/
namespace Acv.Tr
open Dnf

variable {N : Type}

/-! ## A. every branch has a literal -/

theorem dnfGood_iff (bs : List (List SLit)) :
    dnfGood bs = true ↔ ∀ b ∈ bs, b ≠ [] ∧ brGood b = true := by
  induction bs with
  | nil => simp [dnfGood]
  | cons b bs ih =>
    simp only [dnfGood, Bool.and_eq_true, ih, List.mem_cons, forall_eq_or_imp, Bool.not_eq_true',
      List.isEmpty_eq_false_iff]

theorem brGood_iff (b : List SLit) : brGood b = true ↔ ∀ l ∈ b, litGood l = true := by
  induction b with
  | nil => simp [brGood]
  | cons l ls ih => simp only [brGood, Bool.and_eq_true, ih, List.mem_cons, forall_eq_or_imp]

theorem dnfGood_append (a b : List (List SLit)) : dnfGood (a ++ b) = (dnfGood a && dnfGood b) := by
  induction a with
  | nil => simp [dnfGood]
  | cons x xs ih => simp [dnfGood, ih, Bool.and_assoc]

theorem brGood_append (a b : List SLit) : brGood (a ++ b) = (brGood a && brGood b) := by
  induction a with
  | nil => simp [brGood]
  | cons x xs ih => simp [brGood, ih, Bool.and_assoc]

theorem map_toBranch_map_branch (bs : List (List SLit)) :
    (bs.map Gen.branch).map Gen.toBranch = bs := by
  induction bs with
  | nil => rfl
  | cons x xs ih => simp only [List.map_cons, Gen.toBranch, ih]

theorem gensGood_map_branch (bs : List (List SLit)) : gensGood (bs.map Gen.branch) = dnfGood bs := by
  rw [gensGood, map_toBranch_map_branch]

/-- the simple literals and the branches of a good result list are good -/
theorem gensGood_parts {gs : List Gen} (h : gensGood gs = true) :
    (∀ l ∈ simples gs, litGood l = true) ∧ (∀ b ∈ branches gs, b ≠ [] ∧ brGood b = true) := by
  induction gs with
  | nil => simp [simples, branches]
  | cons g gs ih =>
    simp only [gensGood, List.map_cons, dnfGood, Bool.and_eq_true] at h
    have ih' := ih h.2
    cases g with
    | simple l =>
      have hl : litGood l = true := by
        have := h.1.2; simpa [Gen.toBranch, brGood] using this
      simp only [simples, branches, List.mem_cons, forall_eq_or_imp]
      exact ⟨⟨hl, ih'.1⟩, ih'.2⟩
    | branch b =>
      simp only [simples, branches, List.mem_cons, forall_eq_or_imp]
      refine ⟨ih'.1, ⟨?_, ?_⟩, ih'.2⟩
      · have := h.1.1; simpa [Gen.toBranch] using this
      · simpa [Gen.toBranch] using h.1.2

/-- a property that survives appending a branch survives `expandBranches`' fold -/
theorem foldl_all (P Q : List SLit → Prop) (hstep : ∀ src b, P src → Q b → P (src ++ b))
    (sets : List (List (List SLit))) (hsets : ∀ s ∈ sets, ∀ b ∈ s, Q b) :
    ∀ acc : List (List SLit), (∀ a ∈ acc, P a) →
      ∀ x ∈ sets.foldl (fun acc bs => bs.flatMap (fun b => acc.map (fun src => src ++ b))) acc, P x := by
  induction sets with
  | nil => intro acc hacc x hx; exact hacc x (by simpa using hx)
  | cons s ss ih =>
    intro acc hacc x hx
    simp only [List.foldl_cons] at hx
    refine ih (fun s' hs' => hsets s' (List.mem_cons_of_mem _ hs')) _ ?_ x hx
    intro a ha
    obtain ⟨b, hb, ha⟩ := List.mem_flatMap.1 ha
    obtain ⟨src, hsrc, rfl⟩ := List.mem_map.1 ha
    exact hstep src b (hacc src hsrc) (hsets s (List.mem_cons_self ..) b hb)

theorem expand_good (base : List SLit) (sets : List (List (List SLit)))
    (hbase : brGood base = true) (hsets : ∀ s ∈ sets, ∀ b ∈ s, brGood b = true) :
    ∀ x ∈ expandBranches base sets, brGood x = true := by
  unfold expandBranches
  refine foldl_all (fun b => brGood b = true) (fun b => brGood b = true) ?_ sets hsets [base] ?_
  · intro src b h1 h2; simp [brGood_append, h1, h2]
  · intro a ha; simp at ha; subst ha; exact hbase

theorem expand_nonempty (base : List SLit) (sets : List (List (List SLit)))
    (hsets : ∀ s ∈ sets, ∀ b ∈ s, b ≠ []) (h : base ≠ [] ∨ sets ≠ []) :
    ∀ x ∈ expandBranches base sets, x ≠ [] := by
  unfold expandBranches
  have hstep : ∀ src b : List SLit, src ≠ [] → True → src ++ b ≠ [] := by
    intro src b h1 _; simp [h1]
  rcases h with h | h
  · refine foldl_all (fun b => b ≠ []) (fun _ => True) hstep sets (fun _ _ _ _ => trivial) [base] ?_
    intro a ha; simp at ha; subst ha; exact h
  · cases sets with
    | nil => exact absurd rfl h
    | cons s ss =>
      simp only [List.foldl_cons]
      refine foldl_all (fun b => b ≠ []) (fun _ => True) hstep ss (fun _ _ _ _ => trivial) _ ?_
      intro a ha
      obtain ⟨b, hb, ha⟩ := List.mem_flatMap.1 ha
      obtain ⟨src, _, rfl⟩ := List.mem_map.1 ha
      have := hsets s (List.mem_cons_self ..) b hb
      simp [this]

/-- an environment with no nodes, only used to read the shape facts off `compile_correct` -/
def unitEnv : Env Unit := ⟨fun neg _ _ => neg, fun _ _ => []⟩

theorem shape_nonempty (r : Rule) (hp : Proper r = true) : Shape (dispatch r) ∧ dispatch r ≠ [] :=
  (Dnf.compile_correct unitEnv (by intro a n; simp [unitEnv]) r hp).2

theorem orBody_shape : ∀ (b : List Rule), ProperL b = true → ∀ gs ∈ orBody b, Shape gs ∧ gs ≠ []
  | [], _ => by intro gs hgs; simp [orBody] at hgs
  | r :: rs, hp => by
    simp only [ProperL, Bool.and_eq_true] at hp
    intro gs hgs
    rw [orBody] at hgs
    rcases List.mem_cons.1 hgs with rfl | h
    · exact shape_nonempty r hp.1
    · exact orBody_shape rs hp.2 gs h

theorem orBody_ne_nil {b : List Rule} (h : b ≠ []) : orBody b ≠ [] := by
  cases b with
  | nil => exact absurd rfl h
  | cons r rs => rw [orBody]; simp

/-- the heart of `branches_have_literals` -/
theorem dispatch_good :
    ∀ r, Proper r = true → gensGood (dispatch r) = true := by
  refine (dispatch.mutual_induct
    (motive1 := fun r => Proper r = true → gensGood (dispatch r) = true)
    (motive2 := fun neg b => ProperL b = true → b ≠ [] → dnfGood (genOr neg b) = true)
    (motive3 := fun b => ProperL b = true → ∀ gs ∈ orBody b, gensGood gs = true)
    (motive4 := fun neg b => ProperL b = true → b ≠ [] → dnfGood (genAnd neg b) = true)
    (motive5 := fun b => ProperL b = true → dnfGood (andBody b) = true)
    ?_ ?_ ?_ ?_ ?_ ?_ ?_ ?_ ?_ ?_ ?_ ?_ ?_ ?_ ?_).1
  -- atom
  · intro neg a _
    simp [dispatch, gensGood, Gen.toBranch, dnfGood, brGood, litGood]
  -- and
  · intro b ih hp
    simp only [Proper, Bool.and_eq_true, Bool.not_eq_true', List.isEmpty_eq_false_iff] at hp
    rw [dispatch, gensGood_map_branch]
    exact ih hp.2 hp.1
  -- or
  · intro b ih hp
    simp only [Proper, Bool.and_eq_true, Bool.not_eq_true', List.isEmpty_eq_false_iff] at hp
    rw [dispatch, gensGood_map_branch]
    exact ih hp.2 hp.1
  -- cond
  · intro neg i t ih hp
    simp only [Proper, Bool.and_eq_true] at hp
    rw [dispatch, gensGood_map_branch]
    exact ih (by simp [ProperL, proper_negate, hp.1, hp.2]) (by simp)
  -- condE negated
  · intro i t e ih hp
    simp only [Proper, Bool.and_eq_true] at hp
    have hd : dispatch (Rule.condE true i t e)
        = (genOr false [.and [i, negate t], .and [negate i, negate e]]).map Gen.branch := by
      rw [dispatch]; simp
    rw [hd, gensGood_map_branch]
    exact ih (by simp [ProperL, Proper, proper_negate, hp.1.1, hp.1.2, hp.2]) (by simp)
  -- condE plain
  · intro neg i t e hneg ih1 ih2 hp
    simp only [Proper, Bool.and_eq_true] at hp
    have hneg' : neg = false := by cases neg <;> simp_all
    subst hneg'
    have hd : dispatch (Rule.condE false i t e)
        = (genOr false [negate i, t] ++ genOr false [i, e]).map Gen.branch := by
      rw [dispatch]; simp
    rw [hd, gensGood_map_branch, dnfGood_append,
      ih1 (by simp [ProperL, proper_negate, hp.1.1, hp.1.2]) (by simp),
      ih2 (by simp [ProperL, hp.1.1, hp.2]) (by simp)]
    rfl
  -- nested
  · intro neg p q r ih hp
    simp only [Proper] at hp
    have := ih hp
    simp only [gensGood] at this
    simp [dispatch, gensGood, Gen.toBranch, dnfGood, brGood, litGood, this]
  -- genOr true
  · intro b ih hp hb
    rw [genOr]; simp only [↓reduceIte]
    exact ih (by simpa [properL_negateL] using hp) (by cases b <;> simp_all [negateL])
  -- genOr false
  · intro neg b hneg ih hp hb
    have hneg' : neg = false := by cases neg <;> simp_all
    subst hneg'
    have hgood := ih hp
    have hshape := orBody_shape b hp
    rw [genOr]
    simp only [Bool.false_eq_true, ↓reduceIte]
    have hsetsGood : ∀ s ∈ ((orBody b).map branches).filter (fun s => !s.isEmpty),
        ∀ x ∈ s, x ≠ [] ∧ brGood x = true := by
      intro s hs x hx
      obtain ⟨hs, _⟩ := List.mem_filter.1 hs
      obtain ⟨gs, hgs, rfl⟩ := List.mem_map.1 hs
      exact (gensGood_parts (hgood gs hgs)).2 x hx
    rw [dnfGood_iff]
    intro x hx
    refine ⟨?_, ?_⟩
    · refine expand_nonempty _ _ (fun s hs y hy => (hsetsGood s hs y hy).1) ?_ x hx
      -- some operand exists; it contributes a simple literal or a non-empty branch set
      obtain ⟨gs, hgs⟩ := List.exists_mem_of_ne_nil _ (orBody_ne_nil hb)
      obtain ⟨hsh, hne⟩ := hshape gs hgs
      rcases hsh with ⟨l, rfl⟩ | hs
      · left
        intro hnil
        have : l ∈ (orBody b).flatMap simples :=
          List.mem_flatMap.2 ⟨_, hgs, by simp [simples]⟩
        rw [hnil] at this; simp at this
      · right
        have hb' := ne_nil_of_simples_nil hs hne
        intro hnil
        have : branches gs ∈ ((orBody b).map branches).filter (fun s => !s.isEmpty) := by
          refine List.mem_filter.2 ⟨List.mem_map.2 ⟨gs, hgs, rfl⟩, ?_⟩
          cases hbr : branches gs with
          | nil => exact absurd hbr hb'
          | cons _ _ => simp
        rw [hnil] at this; simp at this
    · refine expand_good _ _ ?_ (fun s hs y hy => (hsetsGood s hs y hy).2) x hx
      rw [brGood_iff]
      intro l hl
      obtain ⟨gs, hgs, hl⟩ := List.mem_flatMap.1 hl
      exact (gensGood_parts (hgood gs hgs)).1 l hl
  -- orBody nil
  · intro _ gs hgs; simp [orBody] at hgs
  -- orBody cons
  · intro r rs ih1 ih2 hp
    simp only [ProperL, Bool.and_eq_true] at hp
    intro gs hgs
    rw [orBody] at hgs
    rcases List.mem_cons.1 hgs with rfl | h
    · exact ih1 hp.1
    · exact ih2 hp.2 gs h
  -- genAnd true
  · intro b ih hp hb
    rw [genAnd]; simp only [↓reduceIte]
    exact ih (by simpa [properL_negateL] using hp) (by cases b <;> simp_all [negateL])
  -- genAnd false
  · intro neg b hneg ih hp _
    have hneg' : neg = false := by cases neg <;> simp_all
    subst hneg'
    rw [genAnd]; simp only [Bool.false_eq_true, ↓reduceIte]
    exact ih hp
  -- andBody nil
  · intro _; simp [andBody, dnfGood]
  -- andBody cons
  · intro r rs ih1 ih2 hp
    simp only [ProperL, Bool.and_eq_true] at hp
    rw [andBody, dnfGood_append, ih2 hp.2]
    have := ih1 hp.1
    simp only [gensGood] at this
    simp [this]


/-! ## B. a literal / branch / DNF has results exactly when it fires -/

theorem nestedFires_eq (env : Env N) (neg : Bool) (p : PathId) (q : Quant) (inner : List (List SLit)) (n : N) :
    nestedFires neg q (env.kids p n).length ((env.kids p n).filter (fun c => dnfFires env inner c)).length
      = litFails env (.nested neg p q inner) n := by
  cases q <;> simp [nestedFires, litFails]

theorem filter_map_length {α β : Type} (l : List α) (f : α → β) (g : β → Bool) :
    ((l.map f).filter g).length = (l.filter (fun a => g (f a))).length := by
  rw [List.filter_map, List.length_map]; rfl

theorem isEmpty_append' {α : Type} (a b : List α) : (a ++ b).isEmpty = (a.isEmpty && b.isEmpty) := by
  cases a <;> simp

theorem isEmpty_flatMap_map {α β γ : Type} (l : List α) (m : List β) (f : α → β → γ) :
    (l.flatMap (fun a => m.map (f a))).isEmpty = (l.isEmpty || m.isEmpty) := by
  induction l with
  | nil => simp
  | cons a as ih => cases m <;> simp

mutual
theorem litTraces_isEmpty (env : TEnv N) (hw : WitOK env) :
    ∀ (l : SLit) (n : N), (litTraces env l n).isEmpty = !litFails env.toEnv l n
  | .atom neg a, n => by
    simp only [litTraces, litFails, List.isEmpty_map]
    exact hw neg a n
  | .nested neg p q inner, n => by
    have hf : ∀ c, (!(dnfResults env "nested" inner c).isEmpty) = dnfFires env.toEnv inner c := by
      intro c; rw [dnfResults_isEmpty env hw "nested" inner c]; simp
    rw [← nestedFires_eq]
    simp only [litTraces, List.length_map, filter_map_length, hf]
    split <;> simp_all
theorem dnfResults_isEmpty (env : TEnv N) (hw : WitOK env) (shape : String) :
    ∀ (bs : List (List SLit)) (n : N), (dnfResults env shape bs n).isEmpty = !dnfFires env.toEnv bs n
  | [], n => by simp [dnfResults, dnfFires]
  | b :: bs, n => by
    simp only [dnfResults, dnfFires, isEmpty_append', List.isEmpty_map,
      brTraces_isEmpty env hw b n, dnfResults_isEmpty env hw shape bs n, Bool.not_or]
theorem brTraces_isEmpty (env : TEnv N) (hw : WitOK env) :
    ∀ (b : List SLit) (n : N), (brTraces env b n).isEmpty = !brFires env.toEnv b n
  | [], n => by simp [brTraces, brFires]
  | l :: ls, n => by
    simp only [brTraces, brFires, isEmpty_flatMap_map,
      litTraces_isEmpty env hw l n, brTraces_isEmpty env hw ls n, Bool.not_and]
end

theorem focus_of_mem_dnfResults (env : TEnv N) (shape : String) :
    ∀ (bs : List (List SLit)) (n : N), ∀ r ∈ dnfResults env shape bs n, r.focus = n ∧ r.shape = shape
  | [], n => by simp [dnfResults]
  | b :: bs, n => by
    intro r hr
    simp only [dnfResults, List.mem_append, List.mem_map] at hr
    rcases hr with ⟨tr, _, rfl⟩ | hr
    · exact ⟨rfl, rfl⟩
    · exact focus_of_mem_dnfResults env shape bs n r hr

/-- a node has a result iff it is a target on which the DNF fires -/
theorem exists_result_iff (env : TEnv N) (hw : WitOK env) (name : String) (r : Rule) (targets : List N) (n : N) :
    (∃ res ∈ resultsOn env name r targets, res.focus = n) ↔
      n ∈ targets ∧ gensFire env.toEnv (dispatch r) n = true := by
  unfold resultsOn gensFire
  constructor
  · rintro ⟨res, hres, hf⟩
    obtain ⟨m, hm, hres⟩ := List.mem_flatMap.1 hres
    have hfm := (focus_of_mem_dnfResults env name _ m res hres).1
    have hmn : m = n := hfm.symm.trans hf
    subst hmn
    refine ⟨hm, ?_⟩
    have h := dnfResults_isEmpty env hw name ((dispatch r).map Gen.toBranch) m
    cases hfire : dnfFires env.toEnv ((dispatch r).map Gen.toBranch) m with
    | true => rfl
    | false =>
      rw [hfire] at h
      have : dnfResults env name ((dispatch r).map Gen.toBranch) m = [] := by simpa using h
      rw [this] at hres; simp at hres
  · rintro ⟨hm, hfire⟩
    have h := dnfResults_isEmpty env hw name ((dispatch r).map Gen.toBranch) n
    rw [hfire] at h
    have hne : dnfResults env name ((dispatch r).map Gen.toBranch) n ≠ [] := by
      intro hnil; rw [hnil] at h; simp at h
    obtain ⟨res, hres⟩ := List.exists_mem_of_ne_nil _ hne
    exact ⟨res, List.mem_flatMap.2 ⟨n, hm, hres⟩, (focus_of_mem_dnfResults env name _ n res hres).1⟩


/-! ## C. every result is complete -/

theorem subsOK_iff (inG : N → Prop) (rs : List (Result N)) :
    subsOK inG rs ↔ ∀ r ∈ rs, resOK inG "nested" r := by
  induction rs with
  | nil => simp [subsOK]
  | cons r rs ih => simp only [subsOK, ih, List.mem_cons, forall_eq_or_imp]

theorem tracesOK_iff (inG : N → Prop) (ts : List (Trace N)) :
    tracesOK inG ts ↔ ∀ t ∈ ts, traceOK inG t := by
  induction ts with
  | nil => simp [tracesOK]
  | cons t ts ih => simp only [tracesOK, ih, List.mem_cons, forall_eq_or_imp]

theorem quantComponent_ne (q : Quant) : quantComponent q ≠ "" := by
  cases q with
  | all => simp [quantComponent]
  | card op k => cases op <;> simp [quantComponent, opRuleName]

mutual
theorem litTraces_ok (env : TEnv N) (inG : N → Prop) (hn : NamesOK env) (hk : KidsIn env inG) :
    ∀ (l : SLit) (n : N), litGood l = true → ∀ t ∈ litTraces env l n, traceOK inG t
  | .atom neg a, n, _ => by
    intro t ht
    simp only [litTraces, List.mem_map] at ht
    obtain ⟨v, _, rfl⟩ := ht
    exact ⟨hn.1 a, hn.2.1 a, by simp [subsOK]⟩
  | .nested neg p q inner, n, hg => by
    intro t ht
    simp only [litGood] at hg
    simp only [litTraces] at ht
    split at ht
    · simp only [List.mem_singleton] at ht
      subst ht
      refine ⟨quantComponent_ne q, hn.2.2 p, ?_⟩
      rw [subsOK_iff]
      intro r hr
      obtain ⟨rs, hrs, hr⟩ := List.mem_flatten.1 hr
      obtain ⟨c, hc, rfl⟩ := List.mem_map.1 hrs
      exact dnfResults_ok env inG hn hk "nested" inner c hg (hk p n c hc) r hr
    · simp at ht
theorem dnfResults_ok (env : TEnv N) (inG : N → Prop) (hn : NamesOK env) (hk : KidsIn env inG)
    (shape : String) :
    ∀ (bs : List (List SLit)) (n : N), dnfGood bs = true → inG n →
      ∀ r ∈ dnfResults env shape bs n, resOK inG shape r
  | [], n, _, _ => by simp [dnfResults]
  | b :: bs, n, hg, hin => by
    intro r hr
    simp only [dnfGood, Bool.and_eq_true, Bool.not_eq_true', List.isEmpty_eq_false_iff] at hg
    simp only [dnfResults, List.mem_append, List.mem_map] at hr
    rcases hr with ⟨tr, htr, rfl⟩ | hr
    · obtain ⟨hlen, hok⟩ := brTraces_ok env inG hn hk b n hg.1.2 tr htr
      refine ⟨rfl, hin, ?_, hok⟩
      intro hnil
      rw [hnil] at hlen
      exact hg.1.1 (List.eq_nil_of_length_eq_zero hlen.symm)
    · exact dnfResults_ok env inG hn hk shape bs n hg.2 hin r hr
theorem brTraces_ok (env : TEnv N) (inG : N → Prop) (hn : NamesOK env) (hk : KidsIn env inG) :
    ∀ (b : List SLit) (n : N), brGood b = true →
      ∀ ts ∈ brTraces env b n, ts.length = b.length ∧ tracesOK inG ts
  | [], n, _ => by simp [brTraces, tracesOK]
  | l :: ls, n, hg => by
    intro ts hts
    simp only [brGood, Bool.and_eq_true] at hg
    simp only [brTraces, List.mem_flatMap, List.mem_map] at hts
    obtain ⟨t, ht, ts', hts', rfl⟩ := hts
    obtain ⟨hlen, hok⟩ := brTraces_ok env inG hn hk ls n hg.2 ts' hts'
    exact ⟨by simp [hlen], litTraces_ok env inG hn hk l n hg.1 t ht, hok⟩
end

/-- one trace entry per literal of the branch, whatever the atoms (no hypothesis needed) -/
theorem brTraces_length (env : TEnv N) :
    ∀ (b : List SLit) (n : N), ∀ ts ∈ brTraces env b n, ts.length = b.length
  | [], n => by simp [brTraces]
  | l :: ls, n => by
    intro ts hts
    simp only [brTraces, List.mem_flatMap, List.mem_map] at hts
    obtain ⟨t, _, ts', hts', rfl⟩ := hts
    simp [brTraces_length env ls n ts' hts']


/-! ## D. the environment of a graph satisfies the hypotheses -/

theorem atomComponent_ne (a : Atom) : atomComponent a ≠ "" := by
  cases a with
  | count k _ _ => cases k <;> simp [atomComponent]
  | length k _ _ => cases k <;> simp [atomComponent]
  | numeric op _ _ => cases op <;> simp [atomComponent]
  | propCmp op _ _ => cases op <;> simp [atomComponent]
  | _ => simp [atomComponent]

theorem joinWith_ne (sep a : String) (rest : List String) (h : a ≠ "") : joinWith sep (a :: rest) ≠ "" := by
  cases rest with
  | nil => simpa [joinWith] using h
  | cons b r => simp [joinWith, h]

mutual
theorem renderPath_ne : ∀ (p : Path), pathWF p = true → renderPath p ≠ ""
  | .prop iri inv, h => by
    have hi : iri ≠ "" := by simpa [pathWF] using h
    cases inv <;> simp [renderPath, hi]
  | .seq ps, h => by
    simp only [pathWF, Bool.and_eq_true, Bool.not_eq_true', List.isEmpty_eq_false_iff] at h
    cases ps with
    | nil => exact absurd rfl h.1
    | cons p ps' =>
      have := renderParts_ne (p :: ps') h.2
      simp only [renderParts] at this ⊢
      simp only [renderPath, renderParts]
      exact joinWith_ne _ _ _ (this _ (List.mem_cons_self ..))
  | .alt ps, h => by
    simp only [pathWF, Bool.and_eq_true, Bool.not_eq_true', List.isEmpty_eq_false_iff] at h
    cases ps with
    | nil => exact absurd rfl h.1
    | cons p ps' =>
      have := renderParts_ne (p :: ps') h.2
      simp only [renderParts] at this ⊢
      simp only [renderPath, renderParts]
      exact joinWith_ne _ _ _ (this _ (List.mem_cons_self ..))
theorem renderParts_ne : ∀ (ps : List Path), pathsWF ps = true → ∀ s ∈ renderParts ps, s ≠ ""
  | [], _ => by simp [renderParts]
  | p :: ps, h => by
    simp only [pathsWF, Bool.and_eq_true] at h
    intro s hs
    simp only [renderParts, List.mem_cons] at hs
    rcases hs with rfl | hs
    · cases p with
      | prop iri inv => exact renderPath_ne _ h.1
      | seq qs => simp
      | alt qs => simp
    · exact renderParts_ne ps h.2 s hs
end

theorem mem_nodes_iff (m : Node) (l : List Item) : m ∈ Item.nodes l ↔ Item.node m ∈ l := by
  induction l with
  | nil => simp [Item.nodes]
  | cons x xs ih => cases x <;> simp [Item.nodes, ih]

theorem find_mem {g : Graph} {id : String} {a : Node} (h : g.find id = some a) : a ∈ g :=
  List.mem_of_find?_eq_some h

theorem customNodes_mem (g : Graph) (n : Node) (name : String) : ∀ a ∈ customNodes g n name, a ∈ g := by
  intro a ha
  simp only [customNodes, List.mem_filterMap] at ha
  obtain ⟨v, _, hv⟩ := ha
  split at hv
  · split at hv
    · split at hv
      · split at hv
        · rename_i hfind _
          simp only [Option.some.injEq] at hv
          subst hv
          exact find_mem hfind
        · simp at hv
      · simp at hv
    · simp at hv
  · simp at hv

theorem stepItems_nodes (g : Graph) (iri : String) (inv fetch : Bool) (n : Node) :
    ∀ m, Item.node m ∈ stepItems g iri inv fetch n → m ∈ g := by
  intro m hm
  unfold stepItems at hm
  split at hm
  · split at hm
    · obtain ⟨a, ha, hEq⟩ := List.mem_map.1 hm
      simp only [Item.node.injEq] at hEq; subst hEq
      simp only [customSubjects] at ha
      split at ha
      · exact (List.mem_filter.1 ha).1
      · simp at ha
    · split at hm
      · obtain ⟨a, ha, hEq⟩ := List.mem_map.1 hm
        simp only [Item.node.injEq] at hEq; subst hEq
        exact customNodes_mem g n _ _ ha
      · obtain ⟨a, _, hEq⟩ := List.mem_map.1 hm
        simp at hEq
  · split at hm
    · obtain ⟨a, ha, hEq⟩ := List.mem_map.1 hm
      simp only [Item.node.injEq] at hEq; subst hEq
      exact (List.mem_filter.1 ha).1
    · split at hm
      · obtain ⟨a, ha, hEq⟩ := List.mem_map.1 hm
        simp only [Item.node.injEq] at hEq; subst hEq
        simp only [stepFwdNodes, List.mem_filterMap] at ha
        obtain ⟨v, _, hv⟩ := ha
        split at hv
        · exact find_mem hv
        · simp at hv
      · obtain ⟨a, _, hEq⟩ := List.mem_map.1 hm
        simp at hEq

mutual
theorem den_nodes (g : Graph) : ∀ (p : Path) (fetch : Bool) (n : Node), ∀ m, Item.node m ∈ den g p fetch n → m ∈ g
  | .prop iri inv, fetch, n => by
    intro m hm; rw [den] at hm; exact stepItems_nodes g iri inv fetch n m hm
  | .seq ps, fetch, n => by
    intro m hm; rw [den] at hm; exact denSeq_nodes g ps fetch n m hm
  | .alt ps, fetch, n => by
    intro m hm; rw [den] at hm; exact denAlt_nodes g ps fetch n m hm
theorem denSeq_nodes (g : Graph) : ∀ (ps : List Path) (fetch : Bool) (n : Node), ∀ m, Item.node m ∈ denSeq g ps fetch n → m ∈ g
  | [], _, _ => by intro m hm; simp [denSeq] at hm
  | [p], fetch, n => by
    intro m hm; rw [denSeq] at hm; exact den_nodes g p fetch n m hm
  | p :: q :: ps, fetch, n => by
    intro m hm
    rw [denSeq] at hm
    obtain ⟨k, _, hk⟩ := List.mem_flatMap.1 hm
    exact denSeq_nodes g (q :: ps) fetch k m hk
theorem denAlt_nodes (g : Graph) : ∀ (ps : List Path) (fetch : Bool) (n : Node), ∀ m, Item.node m ∈ denAlt g ps fetch n → m ∈ g
  | [], _, _ => by intro m hm; simp [denAlt] at hm
  | p :: ps, fetch, n => by
    intro m hm
    rw [denAlt] at hm
    rcases List.mem_append.1 hm with h | h
    · exact den_nodes g p fetch n m h
    · exact denAlt_nodes g ps fetch n m h
end

theorem graph_kidsIn (g : Graph) (atoms : Array Atom) (paths : Array Path) :
    KidsIn (graphTEnv g atoms paths) (fun m => m ∈ g) := by
  intro p n c hc
  simp only [graphTEnv, graphEnv] at hc
  split at hc
  · rw [List.mem_eraseDups, mem_nodes_iff] at hc
    exact den_nodes g _ true n c hc
  · simp at hc

theorem graph_namesOK (g : Graph) (atoms : Array Atom) (paths : Array Path)
    (ha : ∀ a ∈ atoms.toList, pathWF (atomPath a) = true) (hp : ∀ p ∈ paths.toList, pathWF p = true) :
    NamesOK (graphTEnv g atoms paths) := by
  refine ⟨?_, ?_, ?_⟩
  · intro a
    simp only [graphTEnv]
    split
    · exact atomComponent_ne _
    · simp
  · intro a
    simp only [graphTEnv]
    split
    · rename_i atm h
      exact renderPath_ne _ (ha atm (by simpa using Array.mem_of_getElem? h))
    · simp
  · intro p
    simp only [graphTEnv]
    split
    · rename_i pa h
      exact renderPath_ne _ (hp pa (by simpa using Array.mem_of_getElem? h))
    · simp


theorem isEmpty_filter_map {α β : Type} (l : List α) (p : α → Bool) (f : α → β) :
    ((l.filter p).map f).isEmpty = !l.any p := by
  induction l with
  | nil => simp
  | cons a as ih =>
    cases hp : p a
    · simpa [List.filter, hp] using ih
    · simp [List.filter, hp]

theorem isEmpty_flatMap_filter_map {α β γ : Type} (l : List α) (m : List β) (p : α → β → Bool) (f : α → β → γ) :
    (l.flatMap (fun a => (m.filter (p a)).map (f a))).isEmpty = !l.any (fun a => m.any (p a)) := by
  induction l with
  | nil => simp
  | cons a as ih =>
    simp only [List.flatMap_cons, isEmpty_append', ih, isEmpty_filter_map, List.any_cons, Bool.not_or]

theorem anyVal_eq (neg : Bool) (vs : List Item) (ok : Item → Bool) :
    anyVal neg vs ok = vs.any (fireOn neg ok) := by
  cases neg
  · simp only [anyVal, Bool.false_eq_true, ↓reduceIte]; congr
  · simp only [anyVal, ↓reduceIte]; congr

theorem atomActuals_isEmpty (g : Graph) (neg : Bool) (atm : Atom) (n : Node) :
    (atomActuals g neg atm n).isEmpty = !atm.fails g neg n := by
  cases atm with
  | count k p arg => simp only [atomActuals]; split <;> simp_all
  | containsAll p vals => simp only [atomActuals]; split <;> simp_all
  | containsSome p vals => simp only [atomActuals]; split <;> simp_all
  | uniqueValues p arg => simp only [atomActuals]; split <;> simp_all
  | length k p arg => simp only [atomActuals, isEmpty_filter_map, Atom.fails]
  | inSet p vals => simp only [atomActuals, isEmpty_filter_map, Atom.fails, anyVal_eq]
  | numeric op p arg => simp only [atomActuals, isEmpty_filter_map, Atom.fails, anyVal_eq]
  | datatype p dt => simp only [atomActuals, isEmpty_filter_map, Atom.fails, anyVal_eq]
  | pattern p a e lit =>
    simp only [atomActuals, isEmpty_filter_map, Atom.fails]
    rfl
  | propCmp op p q =>
    simp only [atomActuals, isEmpty_flatMap_filter_map, Atom.fails]
    cases neg <;> simp [fireOn]

theorem graph_witOK (g : Graph) (atoms : Array Atom) (paths : Array Path) :
    WitOK (graphTEnv g atoms paths) := by
  intro neg a n
  simp only [graphTEnv, graphEnv]
  cases h : atoms[a]? with
  | some atm =>
    simp only [atomWits, List.isEmpty_map]
    exact atomActuals_isEmpty g neg atm n
  | none => cases neg <;> simp

/-- the evaluation part of `graphTEnv` is `graphEnv` -/
theorem graphTEnv_toEnv (g : Graph) (atoms : Array Atom) (paths : Array Path) :
    (graphTEnv g atoms paths).toEnv = graphEnv g atoms paths := rfl


/-! ## E. atoms evaluated once per node: exactly one result per firing branch -/

/-- every atom's snippet succeeds at most once on a node -/
def SingleWit (env : TEnv N) : Prop := ∀ neg a n, (env.wit neg a n).length ≤ 1

theorem litTraces_length_le (env : TEnv N) (h1 : SingleWit env) (l : SLit) (n : N) :
    (litTraces env l n).length ≤ 1 := by
  cases l with
  | atom neg a => simpa [litTraces] using h1 neg a n
  | nested neg p q inner => simp only [litTraces]; split <;> simp

theorem brTraces_length_le (env : TEnv N) (h1 : SingleWit env) :
    ∀ (b : List SLit) (n : N), (brTraces env b n).length ≤ 1
  | [], n => by simp [brTraces]
  | l :: ls, n => by
    have hl := litTraces_length_le env h1 l n
    have hls := brTraces_length_le env h1 ls n
    simp only [brTraces]
    match hlt : litTraces env l n with
    | [] => simp
    | [t] => simpa using hls
    | t :: t' :: rest => rw [hlt] at hl; simp at hl

theorem brTraces_length_eq (env : TEnv N) (hw : WitOK env) (h1 : SingleWit env) (b : List SLit) (n : N) :
    (brTraces env b n).length = if brFires env.toEnv b n then 1 else 0 := by
  have hle := brTraces_length_le env h1 b n
  have hemp := brTraces_isEmpty env hw b n
  cases hf : brFires env.toEnv b n
  · rw [hf] at hemp
    have : brTraces env b n = [] := by simpa using hemp
    simp [this]
  · rw [hf] at hemp
    have hne : brTraces env b n ≠ [] := by
      intro hnil; rw [hnil] at hemp; simp at hemp
    have : 0 < (brTraces env b n).length := List.length_pos_iff.2 hne
    simp only [↓reduceIte]; omega

theorem dnfResults_length (env : TEnv N) (hw : WitOK env) (h1 : SingleWit env) (shape : String) :
    ∀ (bs : List (List SLit)) (n : N),
      (dnfResults env shape bs n).length = bs.countP (fun b => brFires env.toEnv b n)
  | [], n => by simp [dnfResults]
  | b :: bs, n => by
    simp only [dnfResults, List.length_append, List.length_map, brTraces_length_eq env hw h1 b n,
      dnfResults_length env hw h1 shape bs n, List.countP_cons]
    omega

/-- the atom kinds whose snippet has no iteration over the reached values -/
def atomPerNode : Atom → Bool
  | .count .. | .containsAll .. | .containsSome .. | .uniqueValues .. => true
  | _ => false

theorem graph_singleWit (g : Graph) (atoms : Array Atom) (paths : Array Path)
    (h : ∀ a ∈ atoms.toList, atomPerNode a = true) : SingleWit (graphTEnv g atoms paths) := by
  intro neg a n
  simp only [graphTEnv]
  cases ha : atoms[a]? with
  | none => cases neg <;> simp
  | some atm =>
    have hm : atm ∈ atoms.toList := by simpa using Array.mem_of_getElem? ha
    have hp := h atm hm
    simp only [atomWits, List.length_map]
    cases atm <;> simp [atomPerNode] at hp <;> (simp only [atomActuals]; split <;> simp)


theorem mem_dnfResults_iff (env : TEnv N) (shape : String) (res : Result N) :
    ∀ (bs : List (List SLit)) (n : N),
      res ∈ dnfResults env shape bs n ↔ ∃ b ∈ bs, ∃ ts ∈ brTraces env b n, res = Result.mk shape n ts
  | [], n => by simp [dnfResults]
  | b :: bs, n => by
    simp only [dnfResults, List.mem_append, List.mem_map, mem_dnfResults_iff env shape res bs n,
      List.mem_cons, exists_eq_or_imp]
    constructor
    · rintro (⟨ts, hts, rfl⟩ | h)
      · exact Or.inl ⟨ts, hts, rfl⟩
      · exact Or.inr h
    · rintro (⟨ts, hts, rfl⟩ | h)
      · exact Or.inl ⟨ts, hts, rfl⟩
      · exact Or.inr h

end Acv.Tr
