import Acv.Model.Ident
import Acv.Lemmas.Lexical
/-! Helper lemmas for C07 (names invented by the translator): nothing here mentions a generated table. -/
namespace Acv.Ident
open Acv

theorem isLowerLetter_iff (s : String) :
    isLowerLetter s = true ↔ ∃ c, s.toList = [c] ∧ 97 ≤ c.toNat ∧ c.toNat ≤ 122 := by
  unfold isLowerLetter
  split
  · next c h => simp [h, isLower]
  · next h =>
    constructor
    · intro hf; exact absurd hf (by simp)
    · rintro ⟨c, hc, _⟩; exact absurd hc (h c)

theorem varName_lt {letters : List String} {i : Nat} (h : i < letters.length) :
    varName letters i = letters[i] := by
  simp [varName, List.getElem?_eq_getElem h]

theorem varName_ge {letters : List String} {i : Nat} (h : letters.length ≤ i) :
    varName letters i = "X" ++ showNatS i := by
  simp [varName, List.getElem?_eq_none h]

theorem toList_X (i : Nat) : ("X" ++ showNatS i).toList = 'X' :: showNat i := by
  simp [showNatS, String.toList_append, String.toList_ofList]

theorem toList_plural (v : String) : (plural v).toList = v.toList ++ ['s'] := by
  simp [plural, String.toList_append]

theorem X_not_digit : ¬ (isDigit 'X' = true) := by decide
theorem s_not_digit : ¬ (isDigit 's' = true) := by decide
theorem underscore_not_digit : ¬ (isDigit '_' = true) := by decide

theorem startsLower_X {s : String} {t : List Char} (h : s.toList = 'X' :: t) : startsLower s = false := by
  simp [startsLower, h, isLower]

theorem takeWhile_stop {α} (p : α → Bool) : ∀ (l : List α) (x : α) (r : List α),
    (∀ a ∈ l, p a = true) → p x = false → (l ++ x :: r).takeWhile p = l
  | [], x, r, _, hx => by simp [hx]
  | a :: l, x, r, hl, hx => by
    have ha : p a = true := hl a (by simp)
    simp only [List.cons_append, List.takeWhile, ha]
    rw [takeWhile_stop p l x r (fun b hb => hl b (by simp [hb])) hx]

theorem toList_genvar (h : String) (n : Nat) :
    (genvarName h n).toList = ("gen_".toList ++ h.toList) ++ '_' :: showNat n := by
  simp [genvarName, showNatS, String.toList_append, String.toList_ofList]

/-- the text after the last `_` of a generated name is the decimal counter -/
theorem genvar_suffix (h : String) (n : Nat) :
    (genvarName h n).toList.reverse.takeWhile (fun c => c != '_') = (showNat n).reverse := by
  rw [toList_genvar, List.reverse_append, List.reverse_cons, List.append_assoc]
  apply takeWhile_stop
  · intro a ha
    have hd := showNat_all_digits n a (List.mem_reverse.1 ha)
    have : a ≠ '_' := by
      intro e; subst e; exact underscore_not_digit hd
    simp [this]
  · simp

theorem not_upper_toLowerAscii (c : Char) : isUpper (toLowerAscii c) = false := by
  unfold toLowerAscii
  split
  · next h =>
    have key : ∀ k : Fin 26, isUpper (Char.ofNat (65 + k.val + 32)) = false := by decide
    simp only [isUpper, decide_eq_true_eq] at h
    have := key ⟨c.toNat - 65, by omega⟩
    have e : 65 + (c.toNat - 65) + 32 = c.toNat + 32 := by omega
    simp only [e] at this
    exact this
  · next h => simpa using h

theorem squash_valid : ∀ (b : Bool) (l : List Char), (∀ c ∈ l, isUpper c = false) →
    ∀ c ∈ squash b l, isPkgChar c = true
  | _, [], _ => by simp [squash]
  | b, a :: l, h => by
    have ih := fun b' => squash_valid b' l (fun c hc => h c (by simp [hc]))
    have ha : isUpper a = false := h a (by simp)
    intro c hc
    unfold squash at hc
    split at hc
    · next hal =>
      rcases List.mem_cons.1 hc with rfl | hc
      · simp only [isAlnum, ha, Bool.or_false, Bool.or_eq_true] at hal
        simp only [isPkgChar, Bool.or_eq_true]
        rcases hal with hal | hal
        · exact Or.inl (Or.inl hal)
        · exact Or.inl (Or.inr hal)
      · exact ih _ c hc
    · split at hc
      · exact ih _ c hc
      · rcases List.mem_cons.1 hc with rfl | hc
        · decide
        · exact ih _ c hc

theorem prefix_valid : ("profile_".toList.all isPkgChar) = true := by decide

/-- `isPkgChar` spelled out -/
theorem isPkgChar_iff (c : Char) : isPkgChar c = true ↔
    (97 ≤ c.toNat ∧ c.toNat ≤ 122) ∨ (48 ≤ c.toNat ∧ c.toNat ≤ 57) ∨ c = '_' := by
  simp [isPkgChar, isLower, isDigitC, or_assoc]

end Acv.Ident
