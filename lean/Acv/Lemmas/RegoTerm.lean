import Acv.Model.RegoTerm
/-! Helper lemmas and the sub-term relation for C08 (denied operators). -/
namespace Acv.RegoTerm

/-- `Sub s t`: `s` occurs in `t` (at any depth, `t` itself included). -/
inductive Sub : T → T → Prop
  | refl (t : T) : Sub t t
  | arg {s a : T} (op : String) {args : List T} : a ∈ args → Sub s a → Sub s (.call op args)
  | item {s a : T} {items : List T} : a ∈ items → Sub s a → Sub s (.coll items)
  | head {s h : T} (body : List T) : Sub s h → Sub s (.compr h body)
  | body {s a : T} (h : T) {body : List T} : a ∈ body → Sub s a → Sub s (.compr h body)
  | wvBody {s t : T} (target : String) (value : T) : Sub s t → Sub s (.withVal t target value)
  | wvValue {s v : T} (t : T) (target : String) : Sub s v → Sub s (.withVal t target v)
  | wfBody {s t : T} (target fn : String) : Sub s t → Sub s (.withFn t target fn)

theorem mentionsDeniedList_of_mem (deny : List String) {a : T} : ∀ {ts : List T}, a ∈ ts →
    mentionsDenied deny a = true → mentionsDeniedList deny ts = true
  | [], h, _ => by simp at h
  | t :: ts, h, ha => by
    simp only [mentionsDeniedList, Bool.or_eq_true]
    rcases List.mem_cons.1 h with rfl | h'
    · exact Or.inl ha
    · exact Or.inr (mentionsDeniedList_of_mem deny h' ha)

theorem mem_of_mentionsDeniedList (deny : List String) : ∀ {ts : List T},
    mentionsDeniedList deny ts = true → ∃ a ∈ ts, mentionsDenied deny a = true
  | [], h => by simp [mentionsDeniedList] at h
  | t :: ts, h => by
    simp only [mentionsDeniedList, Bool.or_eq_true] at h
    rcases h with h | h
    · exact ⟨t, by simp, h⟩
    · obtain ⟨a, ha, hm⟩ := mem_of_mentionsDeniedList deny h
      exact ⟨a, by simp [ha], hm⟩

theorem sub_plug (s : T) : ∀ c : Ctx, Sub s (plug c s)
  | .hole => .refl s
  | .callArg op pre c post => .arg op (by simp) (sub_plug s c)
  | .collItem pre c post => .item (by simp) (sub_plug s c)
  | .comprHead c body => .head body (sub_plug s c)
  | .comprBody h pre c post => .body h (by simp) (sub_plug s c)
  | .withValBody c target value => .wvBody target value (sub_plug s c)
  | .withValValue t target c => .wvValue t target (sub_plug s c)
  | .withFnBody c target fn => .wfBody target fn (sub_plug s c)

mutual
/-- Completeness of the walk: it reports only actual uses (a call, or a `with … as op` binding) of denied operators. -/
theorem sub_of_mentions (deny : List String) : ∀ t : T, mentionsDenied deny t = true →
    ∃ op u, op ∈ deny ∧ u.usesOp op = true ∧ Sub u t
  | .var _, h => by simp [mentionsDenied] at h
  | .lit, h => by simp [mentionsDenied] at h
  | .call op args, h => by
    simp only [mentionsDenied, Bool.or_eq_true] at h
    rcases h with h | h
    · exact ⟨op, .call op args, by simpa using h, by simp [T.usesOp], .refl _⟩
    · obtain ⟨a, ha, op', u, hop, hu, hs⟩ := sub_of_mentionsList deny args h
      exact ⟨op', u, hop, hu, .arg op ha hs⟩
  | .coll items, h => by
    simp only [mentionsDenied] at h
    obtain ⟨a, ha, op', u, hop, hu, hs⟩ := sub_of_mentionsList deny items h
    exact ⟨op', u, hop, hu, .item ha hs⟩
  | .compr hd body, h => by
    simp only [mentionsDenied, Bool.or_eq_true] at h
    rcases h with h | h
    · obtain ⟨op', u, hop, hu, hs⟩ := sub_of_mentions deny hd h
      exact ⟨op', u, hop, hu, .head body hs⟩
    · obtain ⟨a, ha, op', u, hop, hu, hs⟩ := sub_of_mentionsList deny body h
      exact ⟨op', u, hop, hu, .body hd ha hs⟩
  | .withVal t target value, h => by
    simp only [mentionsDenied, Bool.or_eq_true] at h
    rcases h with h | h
    · obtain ⟨op', u, hop, hu, hs⟩ := sub_of_mentions deny t h
      exact ⟨op', u, hop, hu, .wvBody target value hs⟩
    · obtain ⟨op', u, hop, hu, hs⟩ := sub_of_mentions deny value h
      exact ⟨op', u, hop, hu, .wvValue t target hs⟩
  | .withFn t target fn, h => by
    simp only [mentionsDenied, Bool.or_eq_true] at h
    rcases h with h | h
    · exact ⟨fn, .withFn t target fn, by simpa using h, by simp [T.usesOp], .refl _⟩
    · obtain ⟨op', u, hop, hu, hs⟩ := sub_of_mentions deny t h
      exact ⟨op', u, hop, hu, .wfBody target fn hs⟩
theorem sub_of_mentionsList (deny : List String) : ∀ ts : List T, mentionsDeniedList deny ts = true →
    ∃ a ∈ ts, ∃ op u, op ∈ deny ∧ u.usesOp op = true ∧ Sub u a
  | [], h => by simp [mentionsDeniedList] at h
  | t :: ts, h => by
    simp only [mentionsDeniedList, Bool.or_eq_true] at h
    rcases h with h | h
    · exact ⟨t, by simp, sub_of_mentions deny t h⟩
    · obtain ⟨a, ha, r⟩ := sub_of_mentionsList deny ts h
      exact ⟨a, by simp [ha], r⟩
end

/-- Every occurrence is the filling of a one-hole context: contexts reach every position. -/
theorem plug_of_sub {s t : T} (h : Sub s t) : ∃ c : Ctx, plug c s = t := by
  induction h with
  | refl => exact ⟨.hole, rfl⟩
  | @arg a op args hm _ ih =>
    obtain ⟨c, hc⟩ := ih
    obtain ⟨pre, post, rfl⟩ := List.append_of_mem hm
    exact ⟨.callArg op pre c post, by simp [plug, hc]⟩
  | @item a items hm _ ih =>
    obtain ⟨c, hc⟩ := ih
    obtain ⟨pre, post, rfl⟩ := List.append_of_mem hm
    exact ⟨.collItem pre c post, by simp [plug, hc]⟩
  | @head h body _ ih =>
    obtain ⟨c, hc⟩ := ih
    exact ⟨.comprHead c body, by simp [plug, hc]⟩
  | @body a h body hm _ ih =>
    obtain ⟨c, hc⟩ := ih
    obtain ⟨pre, post, rfl⟩ := List.append_of_mem hm
    exact ⟨.comprBody h pre c post, by simp [plug, hc]⟩
  | wvBody target value _ ih =>
    obtain ⟨c, hc⟩ := ih
    exact ⟨.withValBody c target value, by simp [plug, hc]⟩
  | wvValue t target _ ih =>
    obtain ⟨c, hc⟩ := ih
    exact ⟨.withValValue t target c, by simp [plug, hc]⟩
  | wfBody target fn _ ih =>
    obtain ⟨c, hc⟩ := ih
    exact ⟨.withFnBody c target fn, by simp [plug, hc]⟩

end Acv.RegoTerm
