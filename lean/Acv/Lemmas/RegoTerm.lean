import Acv.Model.RegoTerm
/-! Helper lemmas and the sub-term relation for C08 (denied operators). -/
namespace Acv.RegoTerm

/-- `Sub s t`: `s` occurs in `t` (at any depth, `t` itself included). -/
inductive Sub : T → T → Prop
  | refl (t : T) : Sub t t
  | arg {s a : T} (op : String) {args : List T} : a ∈ args → Sub s a → Sub s (.call op args)
  | item {s a : T} {items : List T} : a ∈ items → Sub s a → Sub s (.coll items)
  | head {s h : T} (body : List T) : Sub s h → Sub s (.compr h body)
  | body {s a : T} (h : T) {body : List T} : a ∈ body → Sub s a → Sub s (.compr h body)

theorem mentionsDeniedList_of_mem (deny : List String) {a : T} : ∀ {ts : List T}, a ∈ ts →
    mentionsDenied deny a = true → mentionsDeniedList deny ts = true
  | [], h, _ => by simp at h
  | t :: ts, h, ha => by
    simp only [mentionsDeniedList, Bool.or_eq_true]
    rcases List.mem_cons.1 h with rfl | h'
    · exact Or.inl ha
    · exact Or.inr (mentionsDeniedList_of_mem deny h' ha)

theorem mem_of_mentionsDeniedList (deny : List String) : ∀ {ts : List T},
    mentionsDeniedList deny ts = true → ∃ a ∈ ts, mentionsDenied deny a = true
  | [], h => by simp [mentionsDeniedList] at h
  | t :: ts, h => by
    simp only [mentionsDeniedList, Bool.or_eq_true] at h
    rcases h with h | h
    · exact ⟨t, by simp, h⟩
    · obtain ⟨a, ha, hm⟩ := mem_of_mentionsDeniedList deny h
      exact ⟨a, by simp [ha], hm⟩

theorem sub_plug (s : T) : ∀ c : Ctx, Sub s (plug c s)
  | .hole => .refl s
  | .callArg op pre c post => .arg op (by simp) (sub_plug s c)
  | .collItem pre c post => .item (by simp) (sub_plug s c)
  | .comprHead c body => .head body (sub_plug s c)
  | .comprBody h pre c post => .body h (by simp) (sub_plug s c)

mutual
/-- Completeness of the walk: it reports only actual calls to denied operators. -/
theorem sub_of_mentions (deny : List String) : ∀ t : T, mentionsDenied deny t = true →
    ∃ op args, op ∈ deny ∧ Sub (.call op args) t
  | .var _, h => by simp [mentionsDenied] at h
  | .lit, h => by simp [mentionsDenied] at h
  | .call op args, h => by
    simp only [mentionsDenied, Bool.or_eq_true] at h
    rcases h with h | h
    · exact ⟨op, args, by simpa using h, .refl _⟩
    · obtain ⟨a, ha, op', args', hop, hs⟩ := sub_of_mentionsList deny args h
      exact ⟨op', args', hop, .arg op ha hs⟩
  | .coll items, h => by
    simp only [mentionsDenied] at h
    obtain ⟨a, ha, op', args', hop, hs⟩ := sub_of_mentionsList deny items h
    exact ⟨op', args', hop, .item ha hs⟩
  | .compr hd body, h => by
    simp only [mentionsDenied, Bool.or_eq_true] at h
    rcases h with h | h
    · obtain ⟨op', args', hop, hs⟩ := sub_of_mentions deny hd h
      exact ⟨op', args', hop, .head body hs⟩
    · obtain ⟨a, ha, op', args', hop, hs⟩ := sub_of_mentionsList deny body h
      exact ⟨op', args', hop, .body hd ha hs⟩
theorem sub_of_mentionsList (deny : List String) : ∀ ts : List T, mentionsDeniedList deny ts = true →
    ∃ a ∈ ts, ∃ op args, op ∈ deny ∧ Sub (.call op args) a
  | [], h => by simp [mentionsDeniedList] at h
  | t :: ts, h => by
    simp only [mentionsDeniedList, Bool.or_eq_true] at h
    rcases h with h | h
    · exact ⟨t, by simp, sub_of_mentions deny t h⟩
    · obtain ⟨a, ha, r⟩ := sub_of_mentionsList deny ts h
      exact ⟨a, by simp [ha], r⟩
end

/-- Every occurrence is the filling of a one-hole context: contexts reach every position. -/
theorem plug_of_sub {s t : T} (h : Sub s t) : ∃ c : Ctx, plug c s = t := by
  induction h with
  | refl => exact ⟨.hole, rfl⟩
  | @arg a op args hm _ ih =>
    obtain ⟨c, hc⟩ := ih
    obtain ⟨pre, post, rfl⟩ := List.append_of_mem hm
    exact ⟨.callArg op pre c post, by simp [plug, hc]⟩
  | @item a items hm _ ih =>
    obtain ⟨c, hc⟩ := ih
    obtain ⟨pre, post, rfl⟩ := List.append_of_mem hm
    exact ⟨.collItem pre c post, by simp [plug, hc]⟩
  | @head h body _ ih =>
    obtain ⟨c, hc⟩ := ih
    exact ⟨.comprHead c body, by simp [plug, hc]⟩
  | @body a h body hm _ ih =>
    obtain ⟨c, hc⟩ := ih
    obtain ⟨pre, post, rfl⟩ := List.append_of_mem hm
    exact ⟨.comprBody h pre c post, by simp [plug, hc]⟩

end Acv.RegoTerm
