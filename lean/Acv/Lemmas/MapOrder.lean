import Acv.Model.MapOrder
/-! Helper lemmas and the tree relation for C06 (iteration over Go maps). -/
namespace Acv.MapOrder

/-! ### association-list maps -/

/-- Two association lists denote the same Go map: every key looks up the same. -/
def Equiv {V : Type} (m m' : List (String × V)) : Prop := ∀ k, lookup k m = lookup k m'

theorem Equiv.refl {V : Type} (m : List (String × V)) : Equiv m m := fun _ => rfl

theorem Equiv.symm {V : Type} {m m' : List (String × V)} (h : Equiv m m') : Equiv m' m :=
  fun k => (h k).symm

theorem Equiv.trans {V : Type} {a b c : List (String × V)} (h : Equiv a b) (h' : Equiv b c) :
    Equiv a c := fun k => (h k).trans (h' k)

/-- `m[k'] = v` then `m[k]`. -/
theorem lookup_insert {V : Type} (k k' : String) (v : V) : ∀ m : List (String × V),
    lookup k (insert m k' v) = if k = k' then some v else lookup k m
  | [] => by simp [insert, lookup]
  | (k'', v'') :: m => by
    simp only [insert]
    by_cases h : k' = k''
    · subst h
      by_cases h2 : k = k' <;> simp [lookup, h2]
    · have h' : ¬ k'' = k' := fun e => h e.symm
      simp only [h, if_false, lookup, lookup_insert k k' v m]
      by_cases h2 : k = k'' <;> by_cases h3 : k = k' <;> simp [h2, h3, h, h']

theorem insert_equiv {V : Type} {m m' : List (String × V)} (h : Equiv m m') (k : String) (v : V) :
    Equiv (insert m k v) (insert m' k v) := by
  intro x
  rw [lookup_insert, lookup_insert, h x]

/-- Assignments to two different keys commute. -/
theorem insert_comm {V : Type} (m : List (String × V)) (k₁ k₂ : String) (v₁ v₂ : V) (hne : k₁ ≠ k₂) :
    Equiv (insert (insert m k₁ v₁) k₂ v₂) (insert (insert m k₂ v₂) k₁ v₁) := by
  intro x
  simp only [lookup_insert]
  have hne' : ¬ k₂ = k₁ := fun e => hne e.symm
  by_cases h1 : x = k₁ <;> by_cases h2 : x = k₂ <;> simp [h1, h2, hne, hne']

theorem insertAll_equiv {V : Type} : ∀ (es : List (String × V)) {m m' : List (String × V)},
    Equiv m m' → Equiv (insertAll m es) (insertAll m' es)
  | [], _, _, h => h
  | (k, v) :: es, _, _, h => insertAll_equiv es (insert_equiv h k v)

theorem lookup_eq_none {V : Type} (k : String) : ∀ (es : List (String × V)),
    k ∉ es.map Prod.fst → lookup k es = none
  | [], _ => rfl
  | (k', v) :: es, h => by
    simp only [List.map_cons, List.mem_cons, not_or] at h
    simp only [lookup, h.1, if_false]
    exact lookup_eq_none k es h.2

end Acv.MapOrder

namespace Acv

/-! ### `defineIdRecursively`: the loop over the entries is a `flatMap` of its body -/

theorem assignFields_cons (kv : String × J) (rest : List (String × J)) (segs : List String) :
    assignFields (kv :: rest) segs = fieldIds segs kv ++ assignFields rest segs := by
  obtain ⟨k, v⟩ := kv
  cases v <;> simp [assignFields, fieldIds]

theorem assignFields_eq_flatMap : ∀ (fs : List (String × J)) (segs : List String),
    assignFields fs segs = fs.flatMap (fieldIds segs)
  | [], _ => by simp [assignFields]
  | kv :: rest, segs => by
    rw [assignFields_cons, assignFields_eq_flatMap rest segs, List.flatMap_cons]

theorem assignFields_append (fs gs : List (String × J)) (segs : List String) :
    assignFields (fs ++ gs) segs = assignFields fs segs ++ assignFields gs segs := by
  simp only [assignFields_eq_flatMap, List.flatMap_append]

theorem assignElems_cons (e : J) (es : List J) (i : Nat) (segs : List String) :
    assignElems (e :: es) i segs = assignIds e (segs ++ [showIdx i]) ++ assignElems es (i + 1) segs := by
  simp [assignElems]

theorem assignElems_append : ∀ (es gs : List J) (i : Nat) (segs : List String),
    assignElems (es ++ gs) i segs = assignElems es i segs ++ assignElems gs (i + es.length) segs
  | [], gs, i, segs => by simp [assignElems]
  | e :: es, gs, i, segs => by
    rw [List.cons_append, assignElems_cons, assignElems_cons, assignElems_append es gs (i + 1) segs,
      List.append_assoc, List.length_cons]
    congr 3
    omega

/-! ### the same tree up to the order of object entries -/

/-- The same tree with the entries of ONE object, anywhere in the tree, listed in another order. -/
inductive J.Step : J → J → Prop
  | perm (t : Bool) {fs fs' : List (String × J)} : fs'.Perm fs → J.Step (.obj t fs') (.obj t fs)
  | field (t : Bool) (pre : List (String × J)) (k : String) {v v' : J} (post : List (String × J)) :
      J.Step v v' → J.Step (.obj t (pre ++ (k, v) :: post)) (.obj t (pre ++ (k, v') :: post))
  | elem (pre : List J) {e e' : J} (post : List J) :
      J.Step e e' → J.Step (.arr (pre ++ e :: post)) (.arr (pre ++ e' :: post))

/-- The same tree up to the order of the entries of every object (arrays keep their order):
any number of `Step`s. -/
inductive J.PermEq : J → J → Prop
  | refl (j : J) : J.PermEq j j
  | step {a b c : J} : J.Step a b → J.PermEq b c → J.PermEq a c

theorem J.PermEq.trans {a b c : J} (h : J.PermEq a b) (h' : J.PermEq b c) : J.PermEq a c := by
  induction h with
  | refl _ => exact h'
  | step s _ ih => exact .step s (ih h')

theorem J.PermEq.of_step {a b : J} (h : J.Step a b) : J.PermEq a b := .step h (.refl b)

/-- Congruence: a `PermEq` below one entry of an object. -/
theorem J.PermEq.field (t : Bool) (pre : List (String × J)) (k : String) (post : List (String × J))
    {v v' : J} (h : J.PermEq v v') :
    J.PermEq (.obj t (pre ++ (k, v) :: post)) (.obj t (pre ++ (k, v') :: post)) := by
  induction h with
  | refl _ => exact .refl _
  | step s _ ih => exact .step (.field t pre k post s) ih

/-- Congruence: a `PermEq` below one element of an array. -/
theorem J.PermEq.elem (pre post : List J) {e e' : J} (h : J.PermEq e e') :
    J.PermEq (.arr (pre ++ e :: post)) (.arr (pre ++ e' :: post)) := by
  induction h with
  | refl _ => exact .refl _
  | step s _ ih => exact .step (.elem pre post s) ih

/-- One `Step` permutes the ids assigned in the subtree, and the ids its parent's loop body assigns. -/
theorem step_ids {j j' : J} (h : J.Step j j') :
    (∀ segs, (assignIds j segs).Perm (assignIds j' segs)) ∧
    (∀ segs k, (fieldIds segs (k, j)).Perm (fieldIds segs (k, j'))) := by
  induction h with
  | @perm t fs fs' hp =>
    have h1 : ∀ segs, (assignIds (.obj t fs') segs).Perm (assignIds (.obj t fs) segs) := by
      intro segs
      cases t with
      | false => simp [assignIds]
      | true =>
        simp only [assignIds, assignFields_eq_flatMap]
        exact (hp.flatMap_right _).cons segs
    exact ⟨h1, fun segs k => h1 (segs ++ [k])⟩
  | @field t pre k v v' post _ ih =>
    have h1 : ∀ segs, (assignIds (.obj t (pre ++ (k, v) :: post)) segs).Perm
        (assignIds (.obj t (pre ++ (k, v') :: post)) segs) := by
      intro segs
      cases t with
      | false => simp [assignIds]
      | true =>
        simp only [assignIds, assignFields_append, assignFields_cons]
        exact (((ih.2 segs k).append_right _).append_left _).cons segs
    exact ⟨h1, fun segs k' => h1 (segs ++ [k'])⟩
  | @elem pre e e' post _ ih =>
    refine ⟨fun segs => by simp [assignIds], fun segs k => ?_⟩
    simp only [fieldIds, assignElems_append, assignElems_cons]
    exact ((ih.1 _).append_right _).append_left _

end Acv
