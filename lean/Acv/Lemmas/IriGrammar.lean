import Acv.Model.IriGrammar
import Acv.Lemmas.Iri
/-! Soundness of the class checkers of `Acv.Model.IriGrammar` (C15). -/
namespace Acv.Iri
open Acv

theorem char_le_toNat {a b : Char} : a ≤ b ↔ a.toNat ≤ b.toNat :=
  Char.le_def.trans UInt32.le_iff_toNat_le

theorem inRanges_alnum (c : Char) : ∀ (rs : List (Char × Char)), rs.all rangeAlnum = true →
    inRanges c rs = true → (isLetter c || isDigit c) = true
  | [], _, h => by simp [inRanges] at h
  | (lo, hi) :: rs, hall, h => by
    simp only [List.all_cons, Bool.and_eq_true] at hall
    simp only [inRanges, Bool.or_eq_true, Bool.and_eq_true, decide_eq_true_eq] at h
    rcases h with ⟨h1, h2⟩ | h
    · have l1 := char_le_toNat.1 h1
      have l2 := char_le_toNat.1 h2
      have hr := hall.1
      simp only [rangeAlnum, Bool.or_eq_true, decide_eq_true_eq] at hr
      simp only [isLetter, isDigit, Bool.or_eq_true, decide_eq_true_eq]
      omega
    · exact inRanges_alnum c rs hall.2 h

theorem classMatch_pos {chars : List Char} {ranges : List (Char × Char)} {c : Char} :
    classMatch chars ranges false c = true ↔ (c ∈ chars ∨ inRanges c ranges = true) := by
  unfold classMatch
  split
  · next hc =>
    simp only [Bool.or_eq_true, List.contains_iff_mem] at hc
    simp [hc]
  · next hc =>
    simp only [Bool.or_eq_true, List.contains_iff_mem] at hc
    simp [hc]

/-- `clsWithin p cls`: every character the class matches satisfies `p`. -/
theorem clsWithin_sound (p : Char → Bool) (hp : ∀ c, (isLetter c || isDigit c) = true → p c = true)
    (cls : Cls) (h : clsWithin p cls = true) (c : Char)
    (hm : classMatch cls.1 cls.2 false c = true) : p c = true := by
  simp only [clsWithin, Bool.and_eq_true] at h
  rcases classMatch_pos.1 hm with hc | hc
  · exact List.all_eq_true.1 h.1 c hc
  · exact hp c (inRanges_alnum c cls.2 h.2 hc)

theorem coversRange_sound (c : Char) (a b : Nat) : ∀ (rs : List (Char × Char)),
    coversRange rs a b = true → a ≤ c.toNat → c.toNat ≤ b → inRanges c rs = true
  | [], h, _, _ => by simp [coversRange] at h
  | (lo, hi) :: rs, h, ha, hb => by
    simp only [coversRange, List.any_cons, Bool.or_eq_true, decide_eq_true_eq] at h
    simp only [inRanges, Bool.or_eq_true, Bool.and_eq_true, decide_eq_true_eq]
    rcases h with h | h
    · left
      exact ⟨char_le_toNat.2 (by omega), char_le_toNat.2 (by omega)⟩
    · right
      exact coversRange_sound c a b rs (by simpa [coversRange] using h) ha hb

theorem alnum_class1 (c : Char) (h : (isLetter c || isDigit c) = true) : isClass1 c = true := by
  simp only [Bool.or_eq_true] at h
  simp only [isClass1, Bool.or_eq_true]
  exact Or.inl (Or.inl h)

theorem alnum_class2 (c : Char) (h : (isLetter c || isDigit c) = true) : isClass2 c = true :=
  class1_class2 (alnum_class1 c h)

theorem alnum_nsChar (c : Char) (h : (isLetter c || isDigit c) = true) : isNsChar c = true := by
  simp only [Bool.or_eq_true] at h
  simp only [isNsChar, Bool.or_eq_true]
  exact Or.inl (Or.inl h)

theorem alnum_propChar (c : Char) (h : (isLetter c || isDigit c) = true) : isPropChar c = true := by
  simp [isPropChar, alnum_nsChar c h]

theorem clsCoversNs_sound (cls : Cls) (h : clsCoversNs cls = true) (c : Char)
    (hc : isNsChar c = true) : classMatch cls.1 cls.2 false c = true := by
  simp only [clsCoversNs, Bool.and_eq_true, List.contains_iff_mem] at h
  obtain ⟨⟨⟨⟨h1, h2⟩, h3⟩, h4⟩, h5⟩ := h
  simp only [isNsChar, isLetter, isDigit, Bool.or_eq_true, decide_eq_true_eq, beq_iff_eq] at hc
  apply classMatch_pos.2
  rcases hc with (((hc | hc) | hc) | hc) | hc
  · exact Or.inr (coversRange_sound c _ _ _ h1 hc.1 hc.2)
  · exact Or.inr (coversRange_sound c _ _ _ h2 hc.1 hc.2)
  · exact Or.inr (coversRange_sound c _ _ _ h3 hc.1 hc.2)
  · exact Or.inl (hc ▸ h4)
  · exact Or.inl (hc ▸ h5)

theorem clsCoversProp_sound (cls : Cls) (h : clsCoversProp cls = true) (c : Char)
    (hc : isPropChar c = true) : classMatch cls.1 cls.2 false c = true := by
  simp only [clsCoversProp, Bool.and_eq_true, List.contains_iff_mem] at h
  obtain ⟨⟨⟨h1, h2⟩, h3⟩, h4⟩ := h
  simp only [isPropChar, Bool.or_eq_true, beq_iff_eq] at hc
  rcases hc with ((hc | hc) | hc) | hc
  · exact clsCoversNs_sound cls h1 c hc
  · exact classMatch_pos.2 (Or.inl (hc ▸ h2))
  · exact classMatch_pos.2 (Or.inl (hc ▸ h3))
  · exact classMatch_pos.2 (Or.inl (hc ▸ h4))

theorem nsChar_class1 {c : Char} (h : isNsChar c = true) : isClass1 c = true := by
  simp only [isNsChar, Bool.or_eq_true] at h
  simp only [isClass1, Bool.or_eq_true]
  rcases h with ((h | h) | h) | h
  · exact Or.inl (Or.inl (Or.inl h))
  · exact Or.inl (Or.inl (Or.inr h))
  · exact Or.inr h
  · exact Or.inl (Or.inr h)

theorem propChar_class2 {c : Char} (h : isPropChar c = true) : isClass2 c = true := by
  simp only [isPropChar, Bool.or_eq_true] at h
  simp only [isClass2, Bool.or_eq_true]
  rcases h with ((h | h) | h) | h
  · exact Or.inl (Or.inl (Or.inl (Or.inl (Or.inl (nsChar_class1 h)))))
  · exact Or.inl (Or.inl (Or.inl (Or.inl (Or.inr h))))
  · exact Or.inl (Or.inr h)
  · exact Or.inr h

end Acv.Iri
