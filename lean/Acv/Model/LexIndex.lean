import Acv.Model.Lexical
/-!
# Lexical index: node ↦ (range, file)

Impl-model of `createLocationIndex` / `addLexicalEntryFrom` / `LocationIndex.Location`
(internal/validator/normalizer.go) and of the preamble's `location()`.
-/
namespace Acv.Lex

structure Doc where
  /-- node ids of the graph (keys of `@ids`) -/
  nodeIds : List String
  /-- `rootLocation` of the BaseUnitSourceInformation node, if the data has one -/
  root : Option String
  /-- additional locations in document order: (location, ids of the elements it lists) -/
  additional : List (String × List String)
  /-- lexical entries in processing order: (element, value) -/
  entries : List (String × String)
deriving Repr

/-- `idToLocation[id]`, later listings overwrite earlier ones; else the root location; "" without source information -/
def Doc.fileOf (d : Doc) (id : String) : String :=
  match (d.additional.filter (fun a => a.2.contains id)).getLast? with
  | some a => a.1
  | none => d.root.getD ""

/-- `@lexical[id]` = (range string, uri): only entries whose element is a node id are indexed; the last
entry for an element wins -/
def Doc.lexical (d : Doc) (id : String) : Option (String × String) :=
  if d.nodeIds.contains id then
    match (d.entries.filter (fun e => e.1 == id)).getLast? with
    | some e => some (e.2, d.fileOf id)
    | none => none
  else none

structure Location where
  uri : String
  startLine : Nat
  startColumn : Nat
  endLine : Nat
  endColumn : Nat
deriving DecidableEq, Repr

/-- preamble `location(focusNode)`: defined iff the node has a lexical entry whose range holds four numbers -/
def Doc.location (d : Doc) (id : String) : Option Location :=
  match d.lexical id with
  | none => none
  | some (range, uri) =>
    match Acv.parseRange range.toList with
    | some (a, b, c, e) => some ⟨uri, a, b, c, e⟩
    | none => none

end Acv.Lex
