import Acv.Model.Ld
/-!
# JSON-LD normalisation of documents with a top-level `@context`

`Acv/Model/Ld.lean` models `Index (Normalize doc)` for context-free documents.  This file adds the
part of json-gold 0.4.0 (`ld/context.go`, `ld/api_expand.go`, `ld/url.go`) that a *simple* context
switches on:

* `Ctx` / `readCtx`: a context is a list of prefix definitions `term ↦ namespace` (strings), an
  optional `@base` and an optional `@vocab`; every other form of context (array, `null`, IRI of a
  remote context, expanded term definitions, `null` definitions, `@version`, `@language`, `@import`,
  `@propagate`, `@protected`, keyword aliases, …) is outside the fragment: `none`;
* `expandIriL`: `Context.ExpandIri` for the three kinds of position: property keys
  (`relative = false, vocab = true`), `@type` values (`true, true`), `@id` values (`true, false`);
* `resolve`: `ld.Resolve` (Go `net/url` reference resolution followed by json-gold's own
  `removeDotSegments`) on the references for which it is a pure string operation;
* `expandDoc : Js → Option Js`: removes the context and rewrites every IRI position, giving a
  context-free document; `normC d = expandDoc d >>= norm`.

The rule of the file: whatever is not modelled yields `none`, never a guess.  In particular
"is this string an absolute IRI?" (`url.Parse` + `IsAbs` in Go) is three-valued (`goAbs`): `yes`
for a conservative grammar, `no` when the part before the first `:` is not a scheme, `unknown`
otherwise — and `unknown` is only accepted where the answer does not matter.

The second half defines *context spellings*: `spDoc ctx d d′` says that `d′` is `d` with every IRI
occurrence independently written in full, as `prefix:suffix`, as a bare term, relative to `@vocab`
or (ids) relative to `@base`; `withContext ctx d′` attaches the context.  `Ctx.spellOk`, `iriOk`,
`docOk`, `gIrisOk` are the side conditions of the theorems in `Acv/Props/C05Context.lean`;
`spDoc₀` / `iriOk₀` are the variant with unguarded alternatives and the guards as side conditions.

Everything was compared with the real code (`/tmp/agH/compare.py` on the samples,
`/tmp/agH/fuzz.py`, `fuzz2.py`, `fuzz3.py` on random documents): wherever the model answers, the
answer is the real one.
-/
namespace Acv.Ld
open Acv

/-! ## Characters -/

def isLower (c : Char) : Bool := decide ('a' ≤ c) && decide (c ≤ 'z')
def isUpper (c : Char) : Bool := decide ('A' ≤ c) && decide (c ≤ 'Z')
def isDigit (c : Char) : Bool := decide ('0' ≤ c) && decide (c ≤ '9')
def isAlpha (c : Char) : Bool := isLower c || isUpper c
def isAlnum (c : Char) : Bool := isAlpha c || isDigit c

/-- `getScheme` of Go's `net/url`: characters allowed after the first one -/
def schemeChar (c : Char) : Bool := isAlnum c || c == '+' || c == '-' || c == '.'

/-- characters `url.Parse` + `URL.String` leave alone in a path segment whatever happens to the
path: unreserved and the sub-delims Go never escapes.  (`!'()*` survive only as long as json-gold's
`removeDotSegments` does not change the path — after a change Go re-escapes them, `*` ↦ `%2A`;
`@`, `:` would do too but are kept out: `@x` is keyword-like, `:` makes a scheme.) -/
def refChar (c : Char) : Bool := isAlnum c || "-._~$&+,;=".toList.contains c

/-- characters accepted after the scheme of a hierarchical IRI (`scheme:/…`): no `:`/`@` (port and
user-info syntax can make `url.Parse` fail), no `%` (escapes), no space, nothing outside ASCII -/
def hierChar (c : Char) : Bool := refChar c || "!'()*/#?".toList.contains c

/-- characters accepted after the scheme of an opaque IRI (`urn:x:y`, `mailto:a@b`) -/
def opaqueChar (c : Char) : Bool := hierChar c || ":@".toList.contains c

/-! ## Strings as character lists -/

/-- split at the first `:` (the prefix may be empty) -/
def splitColon : List Char → Option (List Char × List Char)
  | [] => none
  | c :: cs =>
    if c = ':' then some ([], cs)
    else match splitColon cs with
      | some (p, s) => some (c :: p, s)
      | none => none

def startsSlashes : List Char → Bool
  | '/' :: '/' :: _ => true
  | _ => false

def startsAt : List Char → Bool
  | '@' :: _ => true
  | _ => false

/-- `l = p ++ r` ↦ `some r` -/
def dropPrefix? : List Char → List Char → Option (List Char)
  | [], l => some l
  | _ :: _, [] => none
  | a :: p, b :: l => if a = b then dropPrefix? p l else none

/-- split at every `sep` (`strings.Split`): always at least one element -/
def splitOn (sep : Char) : List Char → List (List Char)
  | [] => [[]]
  | c :: cs =>
    if c = sep then [] :: splitOn sep cs
    else match splitOn sep cs with
      | s :: r => (c :: s) :: r
      | [] => [[c]]

def joinWith (sep : Char) : List (List Char) → List Char
  | [] => []
  | [s] => s
  | s :: r => s ++ sep :: joinWith sep r

/-! ## Is it an absolute IRI?  (`IsAbsoluteIri` = `url.Parse(v)` succeeds and has a scheme) -/

inductive Abs
  | yes
  | no
  | unknown
deriving DecidableEq, Repr

def schemeOk : List Char → Bool
  | [] => false
  | c :: cs => isAlpha c && cs.all schemeChar

def restSafe (rest : List Char) : Bool :=
  match rest with
  | '/' :: _ => rest.all hierChar
  | _ => rest.all opaqueChar

/-- `yes`: a scheme followed by harmless characters; `no`: no `:`, or the text before the first `:`
is not a scheme (then Go finds no scheme, or fails to parse — not absolute either way; blank node
labels `_:x`, which `IsAbsoluteIri` accepts, are filtered out by the callers before); `unknown`:
a scheme followed by something `url.Parse` may or may not accept. -/
def goAbs (v : List Char) : Abs :=
  match splitColon v with
  | none => .no
  | some (p, rest) => if !schemeOk p then .no else if restSafe rest then .yes else .unknown

/-! ## Reference resolution against `@base` -/

def isDot (s : List Char) : Bool := s == ['.'] || s == ['.', '.']

/-- a reference that is one harmless path segment: `Resolve(base, r) = base ++ r` for a base that
ends in `/` -/
def refSimple (r : List Char) : Bool := !r.isEmpty && r.all refChar && !isDot r

def lowerSchemeOk : List Char → Bool
  | [] => false
  | c :: cs => isLower c && cs.all (fun c => isLower c || isDigit c || c == '+' || c == '-' || c == '.')

def hostChar (c : Char) : Bool := isAlnum c || c == '.' || c == '-'

/-- A parsed base `scheme://host/dir₁/…/dirₙ/last`: `root = scheme://host`, the directory segments
(non-empty, harmless, no dot segments) and the last segment (empty when the base ends in `/`). -/
structure Base where
  root : List Char
  dirs : List (List Char)
  last : List Char
deriving Repr, DecidableEq

def segOk (s : List Char) : Bool := !s.isEmpty && s.all refChar && !isDot s

def splitLast : List (List Char) → List (List Char) × List Char
  | [] => ([], [])
  | [s] => ([], s)
  | s :: r => ((splitLast r).1.cons s, (splitLast r).2)

/-- Bases the model resolves against: lower-case scheme, `//`, a plain host, a path of harmless
segments, no query, no fragment (Go lower-cases the scheme, escapes, drops empty and dot segments,
and rebuilds opaque bases such as `urn:x:y` as `urn:///…`: none of that is modelled). -/
def parseBase (b : List Char) : Option Base :=
  match splitColon b with
  | some (scheme, '/' :: '/' :: rest) =>
    if !lowerSchemeOk scheme then none
    else
      match splitOn '/' rest with
      | host :: segs =>
        if host.isEmpty || !host.all hostChar then none
        else
          let (dirs, last) := splitLast segs
          if dirs.all segOk && (last.isEmpty || segOk last) then
            some ⟨scheme ++ ':' :: '/' :: '/' :: host, dirs, last⟩
          else none
      | [] => none
  | _ => none

/-- the base is a directory: `scheme://host/dir/…/` -/
def baseDirOk (b : List Char) : Bool :=
  match parseBase b with
  | some pb => pb.last.isEmpty && b.getLast? == some '/'
  | none => false

/-- `resolvePath` of `net/url` on segment lists: `stack` is the reversed list of segments so far
(Go keeps empty segments at this stage, so `..` may remove an empty one: `a//../b` ↦ `a/b`); the
result is the reversed list of segments and whether the path ends in `/`. -/
def walk (stack : List (List Char)) : List (List Char) → List (List Char) × Bool
  | [] => (stack, true)
  | [e] =>
    if e == ['.'] then (stack, true)
    else if e == ['.', '.'] then (stack.drop 1, true)
    else if e.isEmpty then (stack, true)
    else (e :: stack, false)
  | e :: es =>
    if e == ['.'] then walk stack es
    else if e == ['.', '.'] then walk (stack.drop 1) es
    else walk (e :: stack) es

/-- json-gold's `removeDotSegments` then drops the empty segments that are left -/
def renderPath (root : List Char) (rev : List (List Char)) (trailing : Bool) : List Char :=
  match (rev.reverse).filter (fun s => !s.isEmpty) with
  | [] => root ++ ['/']
  | segs => root ++ '/' :: joinWith '/' segs ++ (if trailing then ['/'] else [])

/-- general case: path references with `.`/`..`/empty segments, absolute paths, optional
`#fragment`; no query, no `//host` reference -/
def resolveGen (b r : List Char) : Option (List Char) :=
  match parseBase b with
  | none => none
  | some pb =>
    let (path, frag) :=
      match splitOn '#' r with
      | [p] => (p, none)
      | [p, f] => (p, some f)
      | _ => (r, some ['#'])          -- two `#`: rejected below
    let fragOk := match frag with | none => true | some f => f.all (fun c => refChar c || c == '/')
    if !fragOk || !path.all (fun c => refChar c || c == '/') || startsSlashes path then none
    else
      -- Go's `URL.String` drops an empty fragment: `a#` ↦ `…/a`
      let suffix := match frag with | none => [] | some f => if f.isEmpty then [] else '#' :: f
      if path.isEmpty then some (b ++ suffix)
      else
        let (rev, trailing) :=
          match path with
          | '/' :: rest => walk [] (splitOn '/' rest)
          | _ => walk pb.dirs.reverse (splitOn '/' path)
        some (renderPath pb.root rev trailing ++ suffix)

/-- `ld.Resolve(base, r)` for a non-empty base -/
def resolve (b r : List Char) : Option (List Char) :=
  if r.isEmpty then some b
  else if baseDirOk b && refSimple r then some (b ++ r)
  else resolveGen b r

/-! ## Contexts -/

/-- prefix definitions `term ↦ namespace`, `@base`, `@vocab` -/
structure Ctx where
  prefixes : List (String × String)
  base : Option String
  vocab : Option String
deriving Repr, DecidableEq, Inhabited

def Ctx.terms (ctx : Ctx) : List String := ctx.prefixes.map (·.1)

def lookupL (ps : List (String × String)) (t : List Char) : Option (List Char) :=
  match ps with
  | [] => none
  | pn :: rest => if pn.1.toList = t then some pn.2.toList else lookupL rest t

/-- the IRI mapping of a term -/
def Ctx.lookup (ctx : Ctx) (t : List Char) : Option (List Char) := lookupL ctx.prefixes t

/-- term names of the fragment: non-empty, no `:` and no `/` (json-gold checks IRI-like terms
against their own expansion), not keyword-like -/
def termOk (t : List Char) : Bool := !t.isEmpty && !t.contains ':' && !t.contains '/' && !startsAt t

/-- gen-delims: a simple term is usable as a prefix iff its IRI ends in one of these (JSON-LD 1.1) -/
def genDelim (c : Char) : Bool := ":/?#[]@".toList.contains c

def isPrefixNs (ns : List Char) : Bool :=
  match ns.getLast? with
  | some c => genDelim c
  | none => false

/-- namespaces of the fragment: certainly absolute, and left alone by the expansion json-gold
applies to the value of a term definition (no other term of the same context before its first `:`
unless `//` follows) -/
def nsOk (terms : List String) (ns : List Char) : Bool :=
  goAbs ns == .yes &&
    match splitColon ns with
    | some (p, suf) => startsSlashes suf || !terms.any (fun t => t.toList == p)
    | none => false

/-- what the reader accepts -/
def Ctx.ok (ctx : Ctx) : Bool :=
  ctx.prefixes.all (fun pn => termOk pn.1.toList && nsOk ctx.terms pn.2.toList) &&
  distinct ctx.terms &&
  (match ctx.base with | some b => goAbs b.toList == .yes | none => true) &&
  (match ctx.vocab with | some v => goAbs v.toList == .yes | none => true)

def readEntries : List (String × Js) → Option Ctx
  | [] => some ⟨[], none, none⟩
  | (k, .str v) :: rest =>
    match readEntries rest with
    | none => none
    | some c =>
      if k = "@base" then (if c.base.isSome then none else some { c with base := some v })
      else if k = "@vocab" then (if c.vocab.isSome then none else some { c with vocab := some v })
      else if startsAt k.toList then none
      else some { c with prefixes := (k, v) :: c.prefixes }
  | _ => none

/-- the `@context` value: a single object of string entries passing `Ctx.ok` -/
def readCtx : Js → Option Ctx
  | .obj kvs =>
    match readEntries kvs with
    | some c => if c.ok then some c else none
    | none => none
  | _ => none

/-! ## IRI expansion (`Context.ExpandIri` with `context = nil`) -/

/-- steps 5–7: `@vocab`, `@base`, or unchanged -/
def fallthrough (ctx : Ctx) (relative vocab : Bool) (v : List Char) : Option (List Char) :=
  match vocab, ctx.vocab with
  | true, some vv => some (vv.toList ++ v)
  | _, _ =>
    if relative then
      match ctx.base with
      | some b => resolve b.toList v
      | none => some v
    else some v

/-- step 4.4, second half: an absolute IRI stays, anything else falls through -/
def absOr (ctx : Ctx) (relative vocab : Bool) (v : List Char) : Option (List Char) :=
  match goAbs v with
  | .yes => some v
  | .no => fallthrough ctx relative vocab v
  | .unknown =>
    match fallthrough ctx relative vocab v with
    | some w => if w = v then some v else none
    | none => none

/-- `ExpandIri(v, relative, vocab)`; keyword-like strings (`@…`) are the callers' business and
yield `none` here. -/
def expandIriL (ctx : Ctx) (relative vocab : Bool) (v : List Char) : Option (List Char) :=
  if startsAt v then none
  else
    match (if vocab then ctx.lookup v else none) with
    | some ns => some ns
    | none =>
      match splitColon v with
      | some (p, suf) =>
        if p.isEmpty then fallthrough ctx relative vocab v
        else if p == ['_'] || startsSlashes suf then some v
        else
          match ctx.lookup p with
          | some ns => if isPrefixNs ns then some (ns ++ suf) else absOr ctx relative vocab v
          | none => absOr ctx relative vocab v
      | none => fallthrough ctx relative vocab v

/-- a property key -/
def expandKey (ctx : Ctx) (k : String) : Option String :=
  (expandIriL ctx false true k.toList).map String.ofList

/-- a value of `@type` -/
def expandType (ctx : Ctx) (c : String) : Option String :=
  (expandIriL ctx true true c.toList).map String.ofList

/-- a value of `@id`.  A reference starting with `//` is not modelled: left alone by expansion when
there is no `@base`, it is then mangled by the final compaction (`RemoveBase` with the empty base
turns `//a:b/c` into `b/c`). -/
def expandId (ctx : Ctx) (s : String) : Option String :=
  if startsSlashes s.toList then none else (expandIriL ctx true false s.toList).map String.ofList

/-! ## Expansion of a document -/

def consO {α : Type} : Option α → Option (List α) → Option (List α)
  | some a, some l => some (a :: l)
  | _, _ => none

def expTypeNames (ctx : Ctx) : List Js → Option (List Js)
  | [] => some []
  | .str c :: r => consO ((expandType ctx c).map Js.str) (expTypeNames ctx r)
  | _ => none

def expTypes (ctx : Ctx) : Js → Option Js
  | .str c => (expandType ctx c).map Js.str
  | .arr cs => (expTypeNames ctx cs).map Js.arr
  | _ => none

def expIdVal (ctx : Ctx) : Js → Option Js
  | .str s => (expandId ctx s).map Js.str
  | _ => none

mutual
/-- a value of a property (or an element of `@graph`) -/
def expVal (ctx : Ctx) : Js → Option Js
  | .arr xs => (expVals ctx xs).map Js.arr
  | .obj kvs =>
    -- a value object has no IRI position the fragment uses (`@type` there is outside `norm`)
    if hasKey "@value" kvs then some (.obj kvs) else (expProps ctx kvs).map Js.obj
  | v => some v
def expVals (ctx : Ctx) : List Js → Option (List Js)
  | [] => some []
  | x :: xs => consO (expVal ctx x) (expVals ctx xs)
/-- the entries of a node object: `@id`, `@type`, properties; any other keyword (`@context`,
`@graph`, `@list`, `@reverse`, `@index`, …) and the empty key are outside the fragment; a key that
does not expand to something with a `:` is dropped together with its value -/
def expProps (ctx : Ctx) : List (String × Js) → Option (List (String × Js))
  | [] => some []
  | (k, v) :: rest =>
    if k = "@id" then consO ((expIdVal ctx v).map fun w => (k, w)) (expProps ctx rest)
    else if k = "@type" then consO ((expTypes ctx v).map fun w => (k, w)) (expProps ctx rest)
    else if k.toList.isEmpty then none
    else
      match expandKey ctx k with
      | none => none
      | some k' =>
        if k'.toList.contains ':' then consO ((expVal ctx v).map fun w => (k', w)) (expProps ctx rest)
        else expProps ctx rest
end

/-- take the `@context` entry out of an object (`none` when there are two) -/
def splitContext : List (String × Js) → Option (Js × List (String × Js))
  | [] => none
  | (k, v) :: rest =>
    if k = "@context" then (if hasKey "@context" rest then none else some (v, rest))
    else
      match splitContext rest with
      | some (c, r) => some (c, (k, v) :: r)
      | none => none

/-- Context-free equivalent of a document: a document without a top-level `@context` is left
alone; `{"@context": c, "@graph": [nodes]}` and `{"@context": c, …node…}` are expanded. -/
def expandDoc : Js → Option Js
  | .obj kvs =>
    if hasKey "@context" kvs then
      match splitContext kvs with
      | some (cj, rest) =>
        match readCtx cj with
        | some ctx =>
          if hasKey "@graph" rest then
            match rest with
            | [(k, .arr xs)] => (expVals ctx xs).map fun ys => .obj [(k, .arr ys)]
            | _ => none
          else (expProps ctx rest).map Js.obj
        | none => none
      | none => none
    else some (.obj kvs)
  | d => some d

/-- model of `Index (Normalize doc)` for documents with or without a top-level `@context` -/
def normC (d : Js) : Option Index := (expandDoc d).bind norm

/-! ## Context spellings of a context-free document -/

/-- `s` spells the IRI `f` with prefix `p ↦ ns`: `f = ns ++ suf`, `s = p:suf`, and `suf` does not
begin with `//` -/
def viaPrefix (pn : String × String) (f s : String) : Bool :=
  match dropPrefix? pn.2.toList f.toList with
  | some suf => !startsSlashes suf && s.toList == pn.1.toList ++ ':' :: suf
  | none => false

/-- `s` spells `f` relative to `@vocab`: `f = vocab ++ s`, `s` has no `:`, is not keyword-like and
is not a term -/
def viaVocab (ctx : Ctx) (f s : String) : Bool :=
  match ctx.vocab with
  | some vv =>
    dropPrefix? vv.toList f.toList == some s.toList && !s.toList.contains ':' && !startsAt s.toList &&
      !ctx.terms.contains s && !s.toList.isEmpty
  | none => false

/-- `s` spells `f` relative to `@base`: the base is a directory, `f = base ++ s`, `s` is one
harmless segment -/
def viaBase (ctx : Ctx) (f s : String) : Bool :=
  match ctx.base with
  | some b => baseDirOk b.toList && dropPrefix? b.toList f.toList == some s.toList && refSimple s.toList
  | none => false

/-- vocabulary-relative positions (property keys, `@type` values): in full, `prefix:suffix`, the
bare term whose IRI is `f`, or relative to `@vocab` -/
def spellV (ctx : Ctx) (f s : String) : Bool :=
  s == f || ctx.prefixes.any (fun pn => viaPrefix pn f s) ||
    ctx.prefixes.any (fun pn => s == pn.1 && f == pn.2) || viaVocab ctx f s

/-- document-relative positions (`@id` of nodes and links): in full, `prefix:suffix`, or relative
to `@base` -/
def spellId (ctx : Ctx) (f s : String) : Bool :=
  s == f || ctx.prefixes.any (fun pn => viaPrefix pn f s) || viaBase ctx f s

mutual
def Js.beq : Js → Js → Bool
  | .null, .null => true
  | .bool a, .bool b => a == b
  | .num a, .num b => a == b
  | .str a, .str b => a == b
  | .arr xs, .arr ys => Js.beqList xs ys
  | .obj kvs, .obj kvs' => Js.beqProps kvs kvs'
  | _, _ => false
def Js.beqList : List Js → List Js → Bool
  | [], [] => true
  | x :: xs, y :: ys => Js.beq x y && Js.beqList xs ys
  | _, _ => false
def Js.beqProps : List (String × Js) → List (String × Js) → Bool
  | [], [] => true
  | (k, v) :: r, (k', v') :: r' => k == k' && Js.beq v v' && Js.beqProps r r'
  | _, _ => false
end

def spTypeNames (ctx : Ctx) : List Js → List Js → Bool
  | [], [] => true
  | .str f :: r, .str s :: r' => spellV ctx f s && spTypeNames ctx r r'
  | _, _ => false

def spTypes (ctx : Ctx) : Js → Js → Bool
  | .str f, .str s => spellV ctx f s
  | .arr fs, .arr ss => spTypeNames ctx fs ss
  | _, _ => false

def spIdVal (ctx : Ctx) : Js → Js → Bool
  | .str f, .str s => spellId ctx f s
  | _, _ => false

mutual
/-- `spVal ctx v v′`: `v′` is `v` with its IRI occurrences re-spelled; everything else is equal -/
def spVal (ctx : Ctx) : Js → Js → Bool
  | .arr xs, .arr ys => spVals ctx xs ys
  | .obj kvs, .obj kvs' =>
    if hasKey "@value" kvs then Js.beqProps kvs kvs' else spProps ctx kvs kvs'
  | .null, .null => true
  | .bool a, .bool b => a == b
  | .num a, .num b => a == b
  | .str a, .str b => a == b
  | _, _ => false
def spVals (ctx : Ctx) : List Js → List Js → Bool
  | [], [] => true
  | x :: xs, y :: ys => spVal ctx x y && spVals ctx xs ys
  | _, _ => false
def spProps (ctx : Ctx) : List (String × Js) → List (String × Js) → Bool
  | [], [] => true
  | (k, v) :: r, (k', v') :: r' =>
    (if k = "@id" then k' == "@id" && spIdVal ctx v v'
     else if k = "@type" then k' == "@type" && spTypes ctx v v'
     else spellV ctx k k' && spVal ctx v v') && spProps ctx r r'
  | _, _ => false
end

/-- `d′` is a context spelling of the context-free document `d` (top-level array, `@graph` object
or single node object) -/
def spDoc (ctx : Ctx) : Js → Js → Bool
  | .arr xs, .arr ys => spVals ctx xs ys
  | .obj kvs, .obj kvs' =>
    if hasKey "@graph" kvs then
      match kvs, kvs' with
      | [(k, .arr xs)], [(k', .arr ys)] => k == k' && spVals ctx xs ys
      | _, _ => false
    else spProps ctx kvs kvs'
  | _, _ => false

def optEntry (k : String) : Option String → List (String × Js)
  | some v => [(k, Js.str v)]
  | none => []

/-- the `@context` value of a context -/
def ctxJs (ctx : Ctx) : Js :=
  .obj (ctx.prefixes.map (fun pn => (pn.1, Js.str pn.2)) ++
    optEntry "@base" ctx.base ++ optEntry "@vocab" ctx.vocab)

/-- attach the context: an array becomes `{"@context": …, "@graph": […]}`, an object gets the
`@context` entry in front -/
def withContext (ctx : Ctx) : Js → Js
  | .arr xs => .obj [("@context", ctxJs ctx), ("@graph", .arr xs)]
  | .obj kvs => .obj (("@context", ctxJs ctx) :: kvs)
  | d => d

/-- what a top-level array turns into -/
def asGraph : Js → Js
  | .arr xs => .obj [("@graph", .arr xs)]
  | d => d

/-! ## Side conditions of the spelling theorems -/

/-- the context is one the spelling theorem covers: accepted by the reader, no prefix is named `_`
(`_:x` is a blank node label whatever the context says), every namespace ends in a gen-delim
(otherwise json-gold 0.4.0 in its default 1.1 mode does not use the term as a prefix) -/
def Ctx.spellOk (ctx : Ctx) : Bool :=
  ctx.ok && ctx.prefixes.all (fun pn => pn.1.toList != ['_'] && isPrefixNs pn.2.toList)

/-- an IRI of the document that may be written in full under the context: absolute in the sense of
the fragment, starts neither with `:` nor with `//`; the text before its first `:` is not a
declared term unless `//` follows; and either Go certainly takes it for an absolute IRI or the
context has neither `@base` nor `@vocab` (so that it does not matter) -/
def iriOk (ctx : Ctx) (f : String) : Bool :=
  absIri f && !startsSlashes f.toList &&
    (match splitColon f.toList with
     | some (p, suf) => !p.isEmpty && (startsSlashes suf || (ctx.lookup p).isNone)
     | none => false) &&
    (goAbs f.toList == .yes || (ctx.base.isNone && ctx.vocab.isNone))

def okTypeNames (P : String → Bool) : List Js → Bool
  | [] => true
  | .str f :: r => P f && okTypeNames P r
  | _ => false

def okTypes (P : String → Bool) : Js → Bool
  | .str f => P f
  | .arr fs => okTypeNames P fs
  | _ => false

def okIdVal (P : String → Bool) : Js → Bool
  | .str f => P f
  | _ => false

mutual
def okVal (P : String → Bool) : Js → Bool
  | .arr xs => okVals P xs
  | .obj kvs => if hasKey "@value" kvs then true else okProps P kvs
  | _ => true
def okVals (P : String → Bool) : List Js → Bool
  | [] => true
  | x :: xs => okVal P x && okVals P xs
def okProps (P : String → Bool) : List (String × Js) → Bool
  | [] => true
  | (k, v) :: r =>
    (if k = "@id" then okIdVal P v
     else if k = "@type" then okTypes P v
     else P k && okVal P v) && okProps P r
end

/-- `d` is a top-level array of node objects, `{"@graph": [...]}` or a node object; `@id` values are
strings, `@type` values strings or arrays of strings; every IRI occurrence (node `@id`, link `@id`,
property key, `@type` value) satisfies `P` -/
def docOkP (P : String → Bool) : Js → Bool
  | .arr xs => okVals P xs
  | .obj kvs =>
    if hasKey "@graph" kvs then
      match kvs with
      | [(_, .arr xs)] => okVals P xs
      | _ => false
    else okProps P kvs
  | _ => false

/-- every IRI occurrence of the context-free document `d` satisfies `iriOk ctx` -/
def docOk (ctx : Ctx) (d : Js) : Bool := docOkP (iriOk ctx) d

/-- every IRI of an abstract graph (ids, classes, property IRIs, link targets) satisfies `P` -/
def gAll (P : String → Bool) (g : Graph) : Bool :=
  g.all fun n =>
    P n.id && n.types.all P &&
      n.props.all fun kv => P kv.1 && kv.2.all fun v =>
        match v with
        | .ref id => P id
        | _ => true

/-- the side condition on an abstract graph -/
def gIrisOk (ctx : Ctx) (g : Graph) : Bool := gAll (iriOk ctx) g

/-! ## The relation as the brief words it: no guards on the alternatives

`spDoc₀` lets an IRI be written as `prefix:suffix` for *any* declared prefix whose namespace is a
prefix of the IRI, and an id relative to *any* `@base` that is a prefix of it.  The guards of
`spDoc` then become hypotheses on the IRIs of the document (`iriOk₀`). -/

def viaPrefix₀ (pn : String × String) (f s : String) : Bool :=
  match dropPrefix? pn.2.toList f.toList with
  | some suf => s.toList == pn.1.toList ++ ':' :: suf
  | none => false

def viaBase₀ (ctx : Ctx) (f s : String) : Bool :=
  match ctx.base with
  | some b => dropPrefix? b.toList f.toList == some s.toList
  | none => false

def spellV₀ (ctx : Ctx) (f s : String) : Bool :=
  s == f || ctx.prefixes.any (fun pn => viaPrefix₀ pn f s)

def spellId₀ (ctx : Ctx) (f s : String) : Bool :=
  s == f || ctx.prefixes.any (fun pn => viaPrefix₀ pn f s) || viaBase₀ ctx f s

def spTypeNames₀ (ctx : Ctx) : List Js → List Js → Bool
  | [], [] => true
  | .str f :: r, .str s :: r' => spellV₀ ctx f s && spTypeNames₀ ctx r r'
  | _, _ => false

def spTypes₀ (ctx : Ctx) : Js → Js → Bool
  | .str f, .str s => spellV₀ ctx f s
  | .arr fs, .arr ss => spTypeNames₀ ctx fs ss
  | _, _ => false

def spIdVal₀ (ctx : Ctx) : Js → Js → Bool
  | .str f, .str s => spellId₀ ctx f s
  | _, _ => false

mutual
def spVal₀ (ctx : Ctx) : Js → Js → Bool
  | .arr xs, .arr ys => spVals₀ ctx xs ys
  | .obj kvs, .obj kvs' =>
    if hasKey "@value" kvs then Js.beqProps kvs kvs' else spProps₀ ctx kvs kvs'
  | .null, .null => true
  | .bool a, .bool b => a == b
  | .num a, .num b => a == b
  | .str a, .str b => a == b
  | _, _ => false
def spVals₀ (ctx : Ctx) : List Js → List Js → Bool
  | [], [] => true
  | x :: xs, y :: ys => spVal₀ ctx x y && spVals₀ ctx xs ys
  | _, _ => false
def spProps₀ (ctx : Ctx) : List (String × Js) → List (String × Js) → Bool
  | [], [] => true
  | (k, v) :: r, (k', v') :: r' =>
    (if k = "@id" then k' == "@id" && spIdVal₀ ctx v v'
     else if k = "@type" then k' == "@type" && spTypes₀ ctx v v'
     else spellV₀ ctx k k' && spVal₀ ctx v v') && spProps₀ ctx r r'
  | _, _ => false
end

def spDoc₀ (ctx : Ctx) : Js → Js → Bool
  | .arr xs, .arr ys => spVals₀ ctx xs ys
  | .obj kvs, .obj kvs' =>
    if hasKey "@graph" kvs then
      match kvs, kvs' with
      | [(k, .arr xs)], [(k', .arr ys)] => k == k' && spVals₀ ctx xs ys
      | _, _ => false
    else spProps₀ ctx kvs kvs'
  | _, _ => false

/-- whenever a declared namespace is a prefix of `f`, the remainder does not begin with `//` -/
def sufOk (ctx : Ctx) (f : String) : Bool :=
  ctx.prefixes.all fun pn =>
    match dropPrefix? pn.2.toList f.toList with
    | some suf => !startsSlashes suf
    | none => true

/-- if `@base` is a prefix of `f`, it is a directory and the remainder is one harmless segment -/
def relOk (ctx : Ctx) (f : String) : Bool :=
  match ctx.base with
  | some b =>
    match dropPrefix? b.toList f.toList with
    | some r => baseDirOk b.toList && refSimple r
    | none => true
  | none => true

/-- `iriOk` plus the two guards, for every IRI whatever its position -/
def iriOk₀ (ctx : Ctx) (f : String) : Bool := iriOk ctx f && sufOk ctx f && relOk ctx f

end Acv.Ld
