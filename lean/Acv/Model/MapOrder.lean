import Acv.Model.ReportIds
/-!
# Iteration over Go maps (C06)

`for k, v := range m` over a Go map visits the entries in an order that differs from run to run.
A Go map is modelled as an association list with pairwise distinct keys, one iteration as "the entries
in some permutation" (`List.Perm`).  The sites where the implementation still ranges over a map are
listed in `Acv.Gen.mapRangeSites`:

* `MergeObjectMap` / `MergeStringMap` / `IriExpanderFrom`: `for k, v := range *other { (*this)[k] = v }`
  — `insertAll`;
* `defineIdRecursively`: `for k, v := range *node { … }` — `assignFields` of `Acv.Model.ReportIds`;
  `fieldIds` is its loop body.

`numberConstraints` models what the old `GetMapKeys` (keys of a Go map, in iteration order) fed into:
the i-th key of a `propertyConstraints` map receives the i-th variable of the variable generator.
Executable, total, structural.
-/
namespace Acv.MapOrder

/-! ### maps as association lists -/

/-- `m[k]`: the first binding of `k`. -/
def lookup {V : Type} (k : String) : List (String × V) → Option V
  | [] => none
  | (k', v) :: m => if k = k' then some v else lookup k m

/-- `m[k] = v`: replace the binding of `k` if there is one, else add one. -/
def insert {V : Type} : List (String × V) → String → V → List (String × V)
  | [], k, v => [(k, v)]
  | (k', v') :: m, k, v => if k = k' then (k, v) :: m else (k', v') :: insert m k v

/-- `for k, v := range entries { m[k] = v }` with the entries visited in list order. -/
def insertAll {V : Type} : List (String × V) → List (String × V) → List (String × V)
  | m, [] => m
  | m, (k, v) :: entries => insertAll (insert m k v) entries

/-- `IriExpanderFrom`: a fresh map, merged with the default context, then with the profile prefixes. -/
def iriContext {V : Type} (defaults prefixes : List (String × V)) : List (String × V) :=
  insertAll (insertAll [] defaults) prefixes

/-! ### variable numbering in key order -/

/-- The i-th key (from `i`) receives variable index i. -/
def numberFrom : Nat → List String → List (String × Nat)
  | _, [] => []
  | i, k :: ks => (k, i) :: numberFrom (i + 1) ks

/-- The constraints nested under one `propertyConstraints` map receive their quantified variable in
the order in which the keys are enumerated. -/
def numberConstraints (keys : List String) : List (String × Nat) := numberFrom 0 keys

end Acv.MapOrder

namespace Acv

/-- What the loop body of `defineIdRecursively` does for one entry `k, v` of a node with id `segs`. -/
def fieldIds (segs : List String) : String × J → List (List String)
  | (k, .obj t fs) => assignIds (.obj t fs) (segs ++ [k])
  | (_, .arr es) => assignElems es 0 segs
  | (_, .leaf) => []

end Acv
