import Acv.Model.Ident
/-!
# The level names of the generated module (`internal/generator/generator.go`, C07)

The fixed preamble `preambleRaw` ends with three rules

    report[level] = matches { vs = violation ; level := "violation" ; matches := vs }      (and info, warning)

that READ the names `violation`, `warning`, `info`. A module that reads a name it does not define is rejected by the engine
(`rego_unsafe_var_error: var violation is unsafe`), so each of the three names has to be DEFINED, whatever the profile:

* `Generate` emits `GenerateTopLevelExpression(r)` for every `r` of `ruleSet(profile)`; `ruleSet` appends `prof.Violation`,
  `prof.Warning`, `prof.Info` (every entry, nothing is filtered). `wrapTopLevelRegoResult` writes one Rego rule per BRANCH of the
  validation's failure DNF (`len(results)`, `results := Dispatch(v, ..)`), each with the head
  `strings.ToLower(e.Level) + "[matches]"`;
* `preamble` appends `default violation = []` exactly when `len(profile.Violation) == 0` (same for `warning`, `info`).

What `e.Level` is: `Parse` calls `parseValidationLevel("violation", doc, validations)` and appends the results to
`profile.Violation` (same for the other two); `parseValidationLevel(level, ..)` hands its `level` to
`ParseExpression(name, v, level, ..)`, which hands it to `newTopLevelExpression(false, name, message, level, ..)`, which stores it in
the field `Level`. So every entry of list L carries `Level = L`'s level string - a validation listed under two levels is parsed
twice and yields one entry per level, each with its own `Level`.

The model is DRIVEN BY A TABLE the translator regenerates from the Go source on every run (`Acv/Gen/Levels.lean`): the fields
`ruleSet` appends and their order, the (field, name) pairs of the defaults, the names the `report` rules read, the (field, level)
pairs of the parser, and what `wrapTopLevelRegoResult` substitutes into the head.

A parsed profile is three lists of entries; an entry is the validation's name and the number of branches of its failure DNF
(`(Dnf.dispatch r).length` in the rule model of C01; at least 1 for every rule without an empty `and`/`or` body -
`Acv.Tr.shape_nonempty`). The number matters: a validation with NO failure branch (`and: []`, `propertyConstraints: {}`) yields no
Rego rule at all.
-/
namespace Acv.Lv

/-- the three lists of `profile.Profile` -/
inductive Field
  | violation | warning | info
deriving DecidableEq, Repr

/-- what `wrapTopLevelRegoResult` substitutes into `"%s[matches] {"` -/
inductive HeadFn
  | lower      -- `strings.ToLower(e.Level)`
  | raw        -- `e.Level`
  | unknown    -- anything else
deriving DecidableEq, Repr

/-- one parsed validation of a level list -/
structure Entry where
  name : String
  /-- number of branches of its failure DNF = number of Rego rules `wrapTopLevelRegoResult` writes for it -/
  branches : Nat
deriving DecidableEq, Repr

structure Profile where
  violation : List Entry := []
  warning : List Entry := []
  info : List Entry := []
deriving DecidableEq, Repr

def Profile.field (p : Profile) : Field → List Entry
  | .violation => p.violation
  | .warning => p.warning
  | .info => p.info

structure Table where
  ruleSetFields : List Field               -- fields appended by `ruleSet`, in order
  defaults : List (Field × String)         -- (field tested for emptiness, name in `default <name> = []`)
  reportReads : List (String × String)     -- (name read by a `report` rule, level string it assigns)
  parserLevels : List (Field × String)     -- (field, `Level` of the entries the parser puts there)
  headFn : HeadFn
deriving DecidableEq, Repr

/-- `strings.ToLower` on ASCII (the level strings are ASCII literals of the parser) -/
def lowerS (s : String) : String := String.ofList (s.toList.map Acv.Ident.toLowerAscii)

/-- `e.Level` of the entries of a field (the parser's pairing; `""` for a field the parser never fills) -/
def Table.levelOf (T : Table) (f : Field) : String :=
  match T.parserLevels.find? (fun x => x.1 == f) with
  | some x => x.2
  | none => ""

/-- the name in the head of a rule generated for an entry with `Level = level` -/
def Table.head (T : Table) (level : String) : String :=
  match T.headFn with
  | .lower => lowerS level
  | .raw => level
  | .unknown => ""

/-- the name of the rules generated for the entries of a field -/
def Table.levelName (T : Table) (f : Field) : String := T.head (T.levelOf f)

/-- `ruleSet(profile)`: the entries in the order they are generated, each with the `Level` the parser gave it -/
def ruleSet (T : Table) (p : Profile) : List (String × Entry) :=
  T.ruleSetFields.flatMap fun f => (p.field f).map fun e => (T.levelOf f, e)

/-- the head name of every `GenerateTopLevelExpression` text (one per element of `ruleSet`) -/
def groupHeads (T : Table) (p : Profile) : List String :=
  (ruleSet T p).map fun x => T.head x.1

/-- the head name of every Rego rule generated from a validation: one per branch of each element of `ruleSet` -/
def ruleHeads (T : Table) (p : Profile) : List String :=
  (ruleSet T p).flatMap fun x => List.replicate x.2.branches (T.head x.1)

/-- the names for which `preamble` appends a `default <name> = []` -/
def defaultNames (T : Table) (p : Profile) : List String :=
  (T.defaults.filter fun d => (p.field d.1).isEmpty).map (·.2)

/-- the level names DEFINED by the module: heads of generated rules, and defaults -/
def moduleNames (T : Table) (p : Profile) : List String := ruleHeads T p ++ defaultNames T p

/-- the names the `report` rules of the preamble READ -/
def reportNames (T : Table) : List String := T.reportReads.map (·.1)

/-! ## A regression, for the negative witness: `ruleSet` de-duplicated by validation name across levels -/

/-- keep the first occurrence of every validation name -/
def dedupByName : List String → List (String × Entry) → List (String × Entry)
  | _, [] => []
  | seen, x :: xs => if seen.contains x.2.name then dedupByName seen xs else x :: dedupByName (x.2.name :: seen) xs

/-- the module names when `Generate` iterates over the de-duplicated `ruleSet` while `preamble` still looks at the lists of the
profile -/
def moduleNamesDedup (T : Table) (p : Profile) : List String :=
  ((dedupByName [] (ruleSet T p)).flatMap fun x => List.replicate x.2.branches (T.head x.1)) ++ defaultNames T p

end Acv.Lv
