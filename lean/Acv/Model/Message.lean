import Acv.Model.Quote
/-!
# Message templates

Spec: `specRender` — each `{{ prefix.property }}` placeholder is replaced by the focus node's value for
that property (`null` when absent or when the prefix is unknown), double quotes of the template text are
shown as single quotes, everything else is verbatim.

Impl-model: `parseMessage` (transliteration of `ParseMessageExpression`: find the placeholders, escape `%`
in the literal text, put `%v` for each placeholder), `sanitize` + `quoteChars` (generator), and on the
policy side `lexString` + `sprintfModel`.
-/
namespace Acv.Msg

def isWord (c : Char) : Bool :=
  (decide ('a' ≤ c) && decide (c ≤ 'z')) || (decide ('A' ≤ c) && decide (c ≤ 'Z')) ||
  (decide ('0' ≤ c) && decide (c ≤ '9')) || c == '_' || c == '-'

/-- regexp `\s` -/
def isSpace (c : Char) : Bool := c == ' ' || c == '\t' || c == '\n' || c == '\r' || c == Char.ofNat 12

/-- try to match `\{\{\s*([\w-]+\.[\w-]+)\s*}}` at the head of the input; returns (variable, rest) -/
def matchPlaceholder (cs : List Char) : Option (List Char × List Char) :=
  match cs with
  | '{' :: '{' :: r0 =>
    let r1 := r0.dropWhile isSpace
    let a := r1.takeWhile isWord
    let r2 := r1.dropWhile isWord
    if a.isEmpty then none else
    match r2 with
    | '.' :: r3 =>
      let b := r3.takeWhile isWord
      let r4 := r3.dropWhile isWord
      if b.isEmpty then none else
      match r4.dropWhile isSpace with
      | '}' :: '}' :: rest => some (a ++ '.' :: b, rest)
      | _ => none
    | _ => none
  | _ => none

/-- leftmost non-overlapping placeholders: literal segments (n+1) and variables (n).  `fuel` bounds the
scan (the input length suffices). -/
def splitMessage : Nat → List Char → List Char → List (List Char) × List (List Char)
  | 0, cur, _ => ([cur.reverse], [])
  | _+1, cur, [] => ([cur.reverse], [])
  | fuel+1, cur, c :: cs =>
    match matchPlaceholder (c :: cs) with
    | some (v, rest) =>
      let (segs, vars) := splitMessage fuel [] rest
      (cur.reverse :: segs, v :: vars)
    | none => splitMessage fuel (c :: cur) cs

def parseMessage (raw : List Char) : List (List Char) × List (List Char) :=
  splitMessage (raw.length + 1) [] raw

/-- `sanitizedMessage`: double quotes are shown as single quotes -/
def sanitize (s : List Char) : List Char := s.map (fun c => if c = '"' then '\'' else c)

/-- Spec: what the report must show -/
def specRender (raw : List Char) (value : List Char → List Char) : List Char :=
  let (segs, vars) := parseMessage raw
  Acv.interleave (segs.map sanitize) (vars.map value)

/-- the Rego literal the generator emits for the message (format string when there are placeholders) -/
def messageLiteral (raw : List Char) : List Char :=
  let (segs, vars) := parseMessage raw
  if vars.isEmpty then Acv.quoteChars (sanitize raw)
  else Acv.quoteChars (sanitize (Acv.fmtString segs))

/-- what the policy computes from that literal -/
def evalMessage (raw : List Char) (value : List Char → List Char) : Option (List Char) :=
  let (_, vars) := parseMessage raw
  match Acv.lexString (messageLiteral raw) with
  | some (fmt, []) => if vars.isEmpty then some fmt else some (Acv.sprintfModel fmt (vars.map value))
  | _ => none

end Acv.Msg
