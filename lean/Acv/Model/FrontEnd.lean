import Acv.Model.ProfileParser
import Acv.Model.Iri
import Acv.Model.Atoms
/-!
# The profile front-end, end to end: YAML node tree ↦ abstract rules + tables

`frontEnd` composes the three text-level models

* `Acv.PP.parseProfile` (the profile parser over yaml.v3's node tree),
* the PEG interpreter on the regenerated path grammar (`parsePath Gen.pathGrammarGo`),
* `Acv.Iri.expand` (the IRI expander, with the context `IriExpanderFrom` builds: the built-in
  `DefaultAMFContext` overridden by the profile's `prefixes`)

and lands in the abstract world of `Acv.Dnf.Rule` / `Acv.Atom` / `Acv.Path`, on which `Acv.C01.compile_correct`
is stated.  `sat` is the direct specification of what a parsed rule tree means on a graph.

## Paths: source text, checked against the dump

`PP.PPath` records what the verification hook dumps of the Go `PropertyPath`: the canonical dump of the AST and
the (one-line) source text.  `pathOf` RE-PARSES THE SOURCE TEXT with the PEG model — the one path parser this
project has theorems about (`Acv.C16`), so no second, unverified reader of the dump syntax is introduced — and
then CHECKS that the dump of the AST it obtained is the recorded dump; when it is not, the path is reported as
unsupported.  So the `Acv.Path` we build is the AST whose dump the real parser showed.  (The recorded source
is the original text with `\r\n`, `\r`, `\n`, `\t` replaced by spaces; the grammar treats all of them alike.
For texts without such characters the check provably succeeds: `Acv.FrontEnd.pathOf_parsed_partial`.)

Not representable (`none`): transitive steps `p*` (the Go generator silently ignores the star,
`// TODO: We don't take into transitive paths yet`), IRIs whose prefix is unknown (Go panics in the generator),
the null path, and custom-domain-property steps whose expanded IRI has a `#` after the API-extension namespace
(Go takes `strings.Split(expanded, "#")[1]` as the extension name, the graph model takes the whole remainder).

Everything is total: structural recursion (the PEG interpreter runs on fuel).  Core library only.
-/
namespace Acv.FE
open Acv Acv.PP

/-! ## The IRI context -/

/-- `contexts.DefaultAMFContext` -/
def defaultContext : List (String × String) := [
  ("data", "http://a.ml/vocabularies/data#"),
  ("shacl", "http://www.w3.org/ns/shacl#"),
  ("shapes", "http://a.ml/vocabularies/shapes#"),
  ("raml-shapes", "http://a.ml/vocabularies/shapes#"),
  ("doc", "http://a.ml/vocabularies/document#"),
  ("meta", "http://a.ml/vocabularies/meta#"),
  ("apiContract", "http://a.ml/vocabularies/apiContract#"),
  ("core", "http://a.ml/vocabularies/core#"),
  ("xsd", "http://www.w3.org/2001/XMLSchema#"),
  ("rdfs", "http://www.w3.org/2000/01/rdf-schema"),
  ("rdf", "http://www.w3.org/1999/02/22-rdf-syntax-ns#"),
  ("security", "http://a.ml/vocabularies/security#"),
  ("sourcemaps", "http://a.ml/vocabularies/document-source-maps#"),
  ("apiExt", "http://a.ml/vocabularies/api-extension#"),
  ("gcl", "http://anypoint.com/vocabs/gcl#"),
  ("management", "http://anypoint.com/vocabs/management#"),
  ("api", "http://anypoint.com/vocabs/api#"),
  ("catalog", "http://anypoint.com/vocabs/digital-repository#")]

/-- the context of an IRI expander, as the model `Acv.Iri.expand` wants it -/
abbrev Ctx := List Char → Option (List Char)

/-- `IriExpanderFrom`: the defaults, overridden by the profile's prefixes (the keys of `prefixes` are pairwise
distinct, so "first hit in `prefixes ++ defaults`" is the Go map after the loop) -/
def ctxOf (prefixes : List (String × String)) : Ctx :=
  fun p => ((prefixes ++ defaultContext).lookup (String.ofList p)).map String.toList

/-- `IriExpander.Expand` on strings; `none` = the Go code returns an error (every caller in the generator panics) -/
def expandS (ctx : Ctx) (s : String) : Option String :=
  match Iri.expand ctx s.toList with
  | .ok r => some (String.ofList r)
  | .error _ => none

/-! ## Paths -/

/-- one step: expand the compact IRI (`@type` is kept); `Transitive` is not representable -/
def stepOf (ctx : Ctx) (v : List Char) (inv tr : Bool) : Option Path :=
  if tr then none
  else match Iri.expand ctx v with
    | .ok iri =>
      let s := String.ofList iri
      match customName? s with
      | some name => if name.toList.contains '#' then none else some (.prop s inv)
      | none => some (.prop s inv)
    | .error _ => none

mutual
/-- path AST over compact IRIs ↦ `Acv.Path` over absolute IRIs: `AND` = sequence, `OR` = alternative -/
def pathOfAst (ctx : Ctx) : PAst → Option Path
  | .iri v inv tr => stepOf ctx v inv tr
  | .and b =>
    match pathsOfAst ctx b with
    | some ps => some (.seq ps)
    | none => none
  | .or b =>
    match pathsOfAst ctx b with
    | some ps => some (.alt ps)
    | none => none
def pathsOfAst (ctx : Ctx) : List PAst → Option (List Path)
  | [] => some []
  | a :: as =>
    match pathOfAst ctx a, pathsOfAst ctx as with
    | some p, some ps => some (p :: ps)
    | _, _ => none
end

/-- a parsed path: re-parse the source text, check the dump, convert -/
def pathOf (ctx : Ctx) (p : PPath) : Option Path :=
  match parsePath Gen.pathGrammarGo p.source.toList with
  | some ast => if String.ofList (dumpPath ast) = p.dump then pathOfAst ctx ast else none
  | none => none

/-! ## Atoms -/

/-- `CardinalityOperation` ↦ the operator of the abstract model -/
def opOf : CmpOp → Dnf.Op
  | .le => .le | .lt => .lt | .eq => .eq | .ne => .ne | .gt => .gt | .ge => .ge

/-- `CountQualifier`: `Min`, `Max`, `Exact` -/
def countKindOf : Nat → Option CountKind
  | 0 => some .min
  | 1 => some .max
  | 2 => some .exact
  | _ => none

/-- characters with a meaning in RE2 syntax -/
def isMeta (c : Char) : Bool := "\\.+*?()|[]{}^$".toList.contains c

/-- the four shapes `Acv.Atom.pattern` knows: optional leading `^`, optional trailing `$`, and between them
literal text without metacharacters -/
def patternOf (arg : String) : Option (Bool × Bool × String) :=
  let cs := arg.toList
  let (a, cs) := match cs with
    | '^' :: r => (true, r)
    | r => (false, r)
  let (e, cs) := match cs.reverse with
    | '$' :: r => (true, r.reverse)
    | _ => (false, cs)
  if cs.any isMeta then none else some (a, e, String.ofList cs)

/-- a parser-level atom on the (already converted) path `p` ↦ the abstract atom.  `none`: `rego`, a float or
negative argument, a pattern outside the four shapes, a datatype or a second path that does not expand. -/
def atomOf (ctx : Ctx) (p : Path) : PP.Atom → Option Acv.Atom
  | .count _ qualifier target arg =>
    if arg < 0 then none
    else match countKindOf qualifier, target with
      | some k, 1 => some (.count k p arg.toNat)        -- ItemsInArray
      | some k, 0 => some (.length k p arg.toNat)       -- StringLength
      | _, _ => none
  | .set _ criteria args =>
    match criteria with
    | 0 => some (.inSet p args)
    | 1 => some (.containsAll p args)
    | 2 => some (.containsSome p args)
    | _ => none
  | .pattern arg =>
    match patternOf arg with
    | some (a, e, lit) => some (.pattern p a e lit)
    | none => none
  | .unique arg => some (.uniqueValues p arg)
  | .propcmp _ op other =>
    match pathOf ctx other with
    | some q => some (.propCmp (opOf op) p q)
    | none => none
  | .numeric _ op (.int i) => some (.numeric (opOf op) p i)
  | .numeric _ _ (.float _) => none
  | .datatype arg =>
    match expandS ctx arg with
    | some dt => some (.datatype p dt)
    | none => none
  | .rego _ _ => none

/-- the atom of an atomic statement on a parsed path -/
def atomAt (ctx : Ctx) (path : PPath) (a : PP.Atom) : Option Acv.Atom :=
  match pathOf ctx path with
  | some p => atomOf ctx p a
  | none => none

/-- the quantifier of a nested expression, from its child variable: `ForAll` (the cardinality is not looked
at), or `Exists` with a cardinality `op count` (a negative count is not representable) -/
def quantOf (v : Var) : Option Dnf.Quant :=
  match v.quant, v.card with
  | .all, _ => some .all
  | .ex, some c => if c.value < 0 then none else some (.card (opOf c.op) c.value.toNat)
  | .ex, none => none

/-! ## Rules -/

/-- the two tables an abstract rule refers to by index -/
structure Tables where
  atoms : List Acv.Atom := []
  paths : List Path := []
deriving Repr, Inhabited

mutual
/-- `PRule` ↦ `Dnf.Rule`, state-passing: a new atom gets the index `atoms.length`, the path of a nested
expression the index `paths.length` (pre-order).  A set negation flag of `and`/`or` (the parser never builds
one) is read as the negation of the connective, which is what `GenerateAnd`/`GenerateOr` do. -/
def toRule (ctx : Ctx) : PRule → Tables → Option (Dnf.Rule × Tables)
  | .atom neg _ path a, t =>
    match atomAt ctx path a with
    | some atm => some (.atom neg t.atoms.length, { t with atoms := t.atoms ++ [atm] })
    | none => none
  | .and neg body, t =>
    match toRuleL ctx body t with
    | some (b, t') => some (if neg then Dnf.negate (.and b) else .and b, t')
    | none => none
  | .or neg body, t =>
    match toRuleL ctx body t with
    | some (b, t') => some (if neg then Dnf.negate (.or b) else .or b, t')
    | none => none
  | .cond neg body, t =>
    match toRuleL ctx body t with
    | some ([i, th], t') => some (.cond neg i th, t')
    | some ([i, th, e], t') => some (.condE neg i th e, t')
    | _ => none
  | .nested neg _ child path value, t =>
    match pathOf ctx path, quantOf child with
    | some p, some q =>
      match toRule ctx value { t with paths := t.paths ++ [p] } with
      | some (r, t') => some (.nested neg t.paths.length q r, t')
      | none => none
    | _, _ => none
  | .top .., _ => none          -- a top-level expression inside an expression: Go panics
def toRuleL (ctx : Ctx) : List PRule → Tables → Option (List Dnf.Rule × Tables)
  | [], t => some ([], t)
  | r :: rs, t =>
    match toRule ctx r t with
    | some (r', t1) =>
      match toRuleL ctx rs t1 with
      | some (rs', t2) => some (r' :: rs', t2)
      | none => none
    | none => none
end

/-- one validation of the profile, ready for `Dnf.dispatch` -/
structure Validation where
  name : String
  level : String
  cls : String
  rule : Dnf.Rule

/-- a top-level expression: target class expanded; `generateTopLevel` negates the value when the flag is set
(on parser output the flag is never set; `Dnf.negate ∘ toRule = toRule ∘ PRule.negate` is `toRule_negate`) -/
def topRule (ctx : Ctx) : PRule → Tables → Option (Validation × Tables)
  | .top name level cls _ neg _ _ value, t =>
    match expandS ctx cls, toRule ctx value t with
    | some c, some (r, t') => some (⟨name, level, c, if neg then Dnf.negate r else r⟩, t')
    | _, _ => none
  | _, _ => none

def topRules (ctx : Ctx) : List PRule → Tables → Option (List Validation × Tables)
  | [], t => some ([], t)
  | r :: rs, t =>
    match topRule ctx r t with
    | some (v, t1) =>
      match topRules ctx rs t1 with
      | some (vs, t2) => some (v :: vs, t2)
      | none => none
    | none => none

def unsupported : String := "unsupported"

/-- all validations of a parsed profile (violation, warning, info — in that order) over ONE pair of tables -/
def ofProfile (p : Profile) : Except String (List Validation × Tables) :=
  match topRules (ctxOf p.prefixes) (p.violation ++ p.warning ++ p.info) {} with
  | some r => .ok r
  | none => .error unsupported

/-- the front-end: `parseProfile`, then `toRule` on every validation -/
def frontEnd (doc : Y) : Except String (List Validation × Tables) :=
  match parseProfile doc with
  | .ok p => ofProfile p
  | .error e => .error e

/-! ## Specification: what a parsed rule means on a graph -/

/-- the nodes a nested expression ranges over: the distinct indexed nodes reached through the path -/
def reached (g : Graph) (p : Path) (n : Node) : List Node := (Item.nodes (den g p true n)).eraseDups

/-- an atomic constraint holds when its own (un-negated) failure condition is not met on the path's values -/
def atomHolds (g : Graph) (a : Acv.Atom) (n : Node) : Bool := !a.fails g false n

mutual
/-- **Specification.**  The truth of a parsed rule tree at node `n` of graph `g`, read off the tree directly:
`and` = all operands, `or` = some operand, a negation flag = `not`, `if/then` = implication,
`if/then/else` = (if → then) ∧ (¬if → else), `nested` = every node reached through the path satisfies the
inner rule, `atLeast`/`atMost`/`exactly` (any comparison `op`) = the number of reached nodes that satisfy the
inner rule is `op k`, atom = the constraint's own truth on the path's values.  Constructs outside the fragment
(`rego`, unknown prefixes, …, exactly those on which `toRule` is `none`) are given the value `false`. -/
def sat (ctx : Ctx) (g : Graph) : PRule → Node → Bool
  | .atom neg _ path a, n =>
    match atomAt ctx path a with
    | some atm => xor neg (atomHolds g atm n)
    | none => false
  | .and neg body, n => xor neg (satAll ctx g body n)
  | .or neg body, n => xor neg (satAny ctx g body n)
  | .cond neg [i, t], n => xor neg (!sat ctx g i n || sat ctx g t n)
  | .cond neg [i, t, e], n =>
    xor neg ((!sat ctx g i n || sat ctx g t n) && (sat ctx g i n || sat ctx g e n))
  | .cond _ _, _ => false
  | .nested neg _ child path value, n =>
    match pathOf ctx path, quantOf child with
    | some p, some .all => xor neg ((reached g p n).all (fun c => sat ctx g value c))
    | some p, some (.card op k) => xor neg (op.eval ((reached g p n).countP (fun c => sat ctx g value c)) k)
    | _, _ => false
  | .top _ _ _ _ neg _ _ value, n => xor neg (sat ctx g value n)
def satAll (ctx : Ctx) (g : Graph) : List PRule → Node → Bool
  | [], _ => true
  | r :: rs, n => sat ctx g r n && satAll ctx g rs n
def satAny (ctx : Ctx) (g : Graph) : List PRule → Node → Bool
  | [], _ => false
  | r :: rs, n => sat ctx g r n || satAny ctx g rs n
end

/-- the environment of a graph and the tables the front-end built -/
def envOf (g : Graph) (t : Tables) : Dnf.Env Node := graphEnv g t.atoms.toArray t.paths.toArray

mutual
/-- no `and`/`or` with an empty body anywhere in the tree (`and: []`, `propertyConstraints: {}` parse to one) -/
def proper : PRule → Bool
  | .and _ body => !body.isEmpty && properL body
  | .or _ body => !body.isEmpty && properL body
  | .cond _ body => properL body
  | .nested _ _ _ _ value => proper value
  | .atom .. => true
  | .top _ _ _ _ _ _ _ value => proper value
def properL : List PRule → Bool
  | [] => true
  | r :: rs => proper r && properL rs
end

/-- atoms whose negated twin is the complement of the un-negated snippet on EVERY graph: the cardinality
atoms and `uniqueValues` -/
def classicalAtom : PP.Atom → Bool
  | .count _ _ target _ => target == 1
  | .unique _ => true
  | _ => false

mutual
/-- every atom of the tree is classical on every graph -/
def classicalAtoms : PRule → Bool
  | .and _ body => classicalAtomsL body
  | .or _ body => classicalAtomsL body
  | .cond _ body => classicalAtomsL body
  | .nested _ _ _ _ value => classicalAtoms value
  | .atom _ _ _ a => classicalAtom a
  | .top _ _ _ _ _ _ _ value => classicalAtoms value
def classicalAtomsL : List PRule → Bool
  | [] => true
  | r :: rs => classicalAtoms r && classicalAtomsL rs
end

end Acv.FE
