import Acv.Model.Graph
/-!
# JSON-LD normalisation of the data graph (model of `Normalize` + `Index`)

`internal/validator/normalizer.go` flattens the input document with json-gold, compacts it with an
empty context and builds the `@ids` / `@types` indexes.  This file is an executable model of that
pipeline restricted to the fragment the documents of the corpus use (absolute IRIs only, no
`@context`, no `@list`/`@set`/`@language`/typed literals/`@reverse`/`@index`, no blank nodes):

* `triples : Js → Option (List Triple)` — expansion + node-map generation: the statements the
  document makes, in first-seen order (`none` outside the fragment);
* `group : List Triple → Index` — grouping by subject with deduplication (the flattened, compacted
  `@graph` indexed by `@id`);
* `norm = group ∘ triples`.

The second half describes *serialisations* of an abstract `Acv.Graph`: a `Choice` is a document plan
that refers to the graph only through indices (node `i`, type `j`, property `p`, value `q`), `ser`
renders it, and `WF` decides that the plan mentions every statement of the graph (and nothing else).
Everything here is structurally recursive so that `decide` can evaluate it.
-/
namespace Acv.Ld
open Acv

/-! ## JSON -/

inductive Js
  | null
  | bool (b : Bool)
  | num (i : Int)
  | str (s : String)
  | arr (xs : List Js)
  | obj (kvs : List (String × Js))
deriving Repr, Inhabited

/-- A statement of the document: `s rdf:type c`, "node `s` has key `k`" (possibly with no value,
`"k": []`), `s k v`. -/
inductive Triple
  | ty (s c : String)
  | key (s k : String)
  | val (s k : String) (v : Val)
deriving DecidableEq, Repr, Inhabited

def Triple.subj : Triple → String
  | .ty s _ => s
  | .key s _ => s
  | .val s _ _ => s

/-! ## The index -/

/-- The `@ids` index: one node object per id. -/
structure Index where
  nodes : List Node
deriving DecidableEq, Repr, Inhabited

/-- first-seen-order deduplication -/
def dedup {α : Type} [DecidableEq α] : List α → List α
  | [] => []
  | a :: l => a :: (dedup l).filter (fun x => x ≠ a)

/-- the statements a node object makes -/
def nodeFacts (n : Node) : List Triple :=
  n.types.map (Triple.ty n.id) ++
    n.props.flatMap (fun kv => Triple.key n.id kv.1 :: kv.2.map (Triple.val n.id kv.1))

def Index.ids (ix : Index) : List String := ix.nodes.map (·.id)

def Index.facts (ix : Index) : List Triple := ix.nodes.flatMap nodeFacts

/-- `@types[cls]`: ids of the nodes listed under the class -/
def Index.targets (ix : Index) (cls : String) : List String :=
  (ix.nodes.filter (fun n => n.types.contains cls)).map (·.id)

/-- the `@types` index, derived from `@ids` exactly as `Index` does -/
def Index.types (ix : Index) : List (String × List String) :=
  (dedup (ix.nodes.flatMap (·.types))).map (fun c => (c, ix.targets c))

/-- all classes / keys / values recorded for an id (union over the entries with that id; a genuine
index has one entry per id) -/
def Index.typesOf (ix : Index) (id : String) : List String :=
  (ix.nodes.filter (fun n => n.id = id)).flatMap (·.types)

def Index.keysOf (ix : Index) (id : String) : List String :=
  (ix.nodes.filter (fun n => n.id = id)).flatMap (fun n => n.props.map (·.1))

def Index.valsOf (ix : Index) (id k : String) : List Val :=
  (ix.nodes.filter (fun n => n.id = id)).flatMap
    (fun n => (n.props.filter (fun kv => kv.1 = k)).flatMap (·.2))

def subset {α : Type} [DecidableEq α] (a b : List α) : Bool := a.all (fun x => b.contains x)

/-- Equality of indexes as sets: same ids, and the same statements (per id the same set of classes,
the same set of keys, per key the same set of values); order and multiplicity are ignored. -/
def Index.equiv (a b : Index) : Bool :=
  subset a.ids b.ids && subset b.ids a.ids && subset a.facts b.facts && subset b.facts a.facts

/-- one entry per id, one list per key: what a real index (a map of maps) satisfies -/
def Index.wellFormed (ix : Index) : Bool :=
  decide (ix.ids.Nodup) && ix.nodes.all (fun n => decide ((n.props.map (·.1)).Nodup))

/-! ## Expansion and node-map generation: the statements of a document -/

/-- Absolute IRI in the sense the fragment needs: contains `:`, is not keyword-like (`@…`), is not a
blank node label (`_:…`) and is not a network-path reference (`//…`, which json-gold's final compaction
rewrites: `//a:b/c` comes out as `b/c`).  Everything else is outside the fragment. -/
def absIri (s : String) : Bool :=
  match s.toList with
  | '@' :: _ => false
  | '_' :: ':' :: _ => false
  | '/' :: '/' :: _ => false
  | cs => cs.contains ':'

/-- the `@id` of an object: its first `@id` entry, which must be an absolute IRI string -/
def getId : List (String × Js) → Option String
  | [] => none
  | (k, v) :: rest =>
    if k = "@id" then
      (match v with
       | .str s => if absIri s then some s else none
       | _ => none)
    else getId rest

def hasKey (k : String) (kvs : List (String × Js)) : Bool := kvs.any (fun p => p.1 == k)

def scalar : Js → Option Val
  | .str s => some (.str s)
  | .num i => some (.num i)
  | .bool b => some (.bool b)
  | _ => none

def typeNames : List Js → Option (List String)
  | [] => some []
  | .str c :: r => if absIri c then (typeNames r).map (c :: ·) else none
  | _ => none

/-- `@type`: a class IRI or a non-empty array of class IRIs -/
def typesT (id : String) : Js → Option (List Triple)
  | .str c => if absIri c then some [.ty id c] else none
  | .arr [] => none
  | .arr cs => (typeNames cs).map (·.map (Triple.ty id))
  | _ => none

def isNull : Js → Bool
  | .null => true
  | _ => false

/-- a repeated `@id` key must repeat the same id -/
def isIdOf (id : String) : Js → Option (List Triple)
  | .str s => if s = id then some [] else none
  | _ => none

def app2 {β : Type} : Option (List β) → Option (List β) → Option (List β)
  | some a, some b => some (a ++ b)
  | _, _ => none

/-- One entry `k : v` of node `id`; `r` is the result of `valT id k v`.  `@id` and `@type` are the
only keywords allowed in a node object; a key that is not an absolute IRI is outside the fragment;
`"k": null` is dropped, any other value (even `[]`) makes the key present. -/
def entryOf (id k : String) (v : Js) (r : Option (List Triple)) : Option (List Triple) :=
  if k = "@id" then isIdOf id v
  else if k = "@type" then typesT id v
  else if absIri k then
    (if isNull v then some [] else r.map (Triple.key id k :: ·))
  else none

mutual
/-- a value of property `k` of node `id` -/
def valT (id k : String) : Js → Option (List Triple)
  | .null => some []
  | .bool b => some [.val id k (.bool b)]
  | .num i => some [.val id k (.num i)]
  | .str s => some [.val id k (.str s)]
  | .arr xs => valsT id k xs
  | .obj kvs =>
    if hasKey "@value" kvs then
      -- value object: only the plain form `{"@value": scalar}` is in the fragment
      match kvs with
      | [(_, v)] => (scalar v).map fun x => [.val id k x]
      | _ => none
    else match getId kvs with
      -- reference or embedded node: the parent gets the link, the rest goes to node `id'`
      | some id' => (propsT id' kvs).map fun ts => .val id k (.ref id') :: ts
      -- blank node, `@list`, `@set`, …
      | none => none
def valsT (id k : String) : List Js → Option (List Triple)
  | [] => some []
  | x :: xs => app2 (valT id k x) (valsT id k xs)
/-- the entries of the node object `id` -/
def propsT (id : String) : List (String × Js) → Option (List Triple)
  | [] => some []
  | (k, v) :: rest => app2 (entryOf id k v (valT id k v)) (propsT id rest)
end

/-- a node object in node position -/
def nodeT : Js → Option (List Triple)
  | .obj kvs =>
    match getId kvs with
    | some id => propsT id kvs
    | none => none
  | _ => none

def collect {α β : Type} (f : α → Option (List β)) : List α → Option (List β)
  | [] => some []
  | x :: xs => app2 (f x) (collect f xs)

/-- Top level: an array of node objects, `{"@graph": [node objects]}`, or one node object. -/
def triples : Js → Option (List Triple)
  | .arr xs => collect nodeT xs
  | .obj kvs =>
    if hasKey "@graph" kvs then
      match kvs with
      | [(_, .arr xs)] => collect nodeT xs
      | _ => none
    else nodeT (.obj kvs)
  | _ => none

/-! ## Flattening + compaction + index: grouping by subject -/

def typesOfT (s : String) (ts : List Triple) : List String :=
  ts.filterMap fun t => match t with
    | .ty s' c => if s' = s then some c else none
    | _ => none

def keysOfT (s : String) (ts : List Triple) : List String :=
  ts.filterMap fun t => match t with
    | .key s' k => if s' = s then some k else none
    | _ => none

def valsOfT (s k : String) (ts : List Triple) : List Val :=
  ts.filterMap fun t => match t with
    | .val s' k' v => if s' = s ∧ k' = k then some v else none
    | _ => none

def groupNode (ts : List Triple) (s : String) : Node :=
  { id := s
    types := dedup (typesOfT s ts)
    props := (dedup (keysOfT s ts)).map fun k => (k, dedup (valsOfT s k ts)) }

/-- one entry per subject, in first-seen order, built from the statements about that subject;
classes, keys and values deduplicated in first-seen order -/
def group (ts : List Triple) : Index :=
  ⟨(dedup (ts.map Triple.subj)).map fun s => groupNode (ts.filter fun t => t.subj = s) s⟩

/-- model of `Index (Normalize doc)` (the `@ids` part; `@types` is `Index.types`) -/
def norm (d : Js) : Option Index := (triples d).map group

/-! ## The index an abstract graph denotes -/

def hasContent (n : Node) : Bool := !(n.types.isEmpty && n.props.isEmpty)

def canonNode (n : Node) : Node :=
  { id := n.id, types := dedup n.types, props := n.props.map fun kv => (kv.1, dedup kv.2) }

def canonIndex (g : Graph) : Index := ⟨(g.filter hasContent).map canonNode⟩

/-- the statements of the abstract graph -/
def gTriples (g : Graph) : List Triple := g.flatMap nodeFacts

/-! ## Serialisation plans -/

mutual
/-- how one value of a property is written -/
inductive VC
  /-- value `q` of the property: the scalar, `{"@value": scalar}` when `wrap`, `{"@id": …}` for a link -/
  | plain (q : Nat) (wrap : Bool)
  /-- value `q` of the property is a link to node `node` of the graph, written as an embedded node
  object with the given entries (any part of that node, possibly nothing but `@id`) -/
  | embed (q : Nat) (node : Nat) (items : List Item)
/-- one entry of a node object -/
inductive Item
  | id
  /-- `@type` with the classes `js` of the node (repetition allowed); a bare string when `bare` and
  there is exactly one -/
  | types (js : List Nat) (bare : Bool)
  /-- property `p` of the node with the listed values (repetition allowed, any subset); the bare
  value instead of a one-element array when `bare` and there is exactly one -/
  | prop (p : Nat) (bare : Bool) (vals : List VC)
end

/-- an occurrence of node `node` of the graph as a node object -/
structure Occ where
  node : Nat
  items : List Item

inductive TopForm
  | array
  | graph
  | single
deriving DecidableEq, Repr

/-- A serialisation: the top-level node objects in document order (a node may occur several times,
or not at all when it is embedded elsewhere) and the top-level form. -/
structure Choice where
  top : List Occ
  form : TopForm

def nodeAt (g : Graph) (i : Nat) : Node := g.getD i default
def propAt (n : Node) (p : Nat) : String × List Val := n.props.getD p default
def typeAt (n : Node) (j : Nat) : String := n.types.getD j ""
def valAt (vs : List Val) (q : Nat) : Val := vs.getD q default

def bareOr (bare : Bool) (xs : List Js) : Js :=
  match bare, xs with
  | true, [x] => x
  | _, _ => .arr xs

def serVal (v : Val) (wrap : Bool) : Js :=
  match v with
  | .ref id => .obj [("@id", .str id)]
  | .str s => if wrap then .obj [("@value", .str s)] else .str s
  | .num i => if wrap then .obj [("@value", .num i)] else .num i
  | .bool b => if wrap then .obj [("@value", .bool b)] else .bool b

mutual
def serVC (g : Graph) (vs : List Val) : VC → Js
  | .plain q wrap => serVal (valAt vs q) wrap
  | .embed _ i items => .obj (serItems g (nodeAt g i) items)
def serVCs (g : Graph) (vs : List Val) : List VC → List Js
  | [] => []
  | c :: cs => serVC g vs c :: serVCs g vs cs
def serItem (g : Graph) (n : Node) : Item → String × Js
  | .id => ("@id", .str n.id)
  | .types js bare => ("@type", bareOr bare (js.map fun j => .str (typeAt n j)))
  | .prop p bare vals => ((propAt n p).1, bareOr bare (serVCs g (propAt n p).2 vals))
def serItems (g : Graph) (n : Node) : List Item → List (String × Js)
  | [] => []
  | it :: its => serItem g n it :: serItems g n its
end

def serOcc (g : Graph) (o : Occ) : Js := .obj (serItems g (nodeAt g o.node) o.items)

def ser (g : Graph) (c : Choice) : Js :=
  match c.form, c.top.map (serOcc g) with
  | .array, objs => .arr objs
  | .graph, objs => .obj [("@graph", .arr objs)]
  | .single, [o] => o
  | .single, objs => .arr objs

/-! ### Which statements of the graph a plan mentions (by index) -/

inductive Fact
  | ty (i j : Nat)
  | key (i p : Nat)
  | val (i p q : Nat)
deriving DecidableEq, Repr

mutual
def covVC (i p : Nat) : VC → List Fact
  | .plain q _ => [.val i p q]
  | .embed q i' items => .val i p q :: covItems i' items
def covVCs (i p : Nat) : List VC → List Fact
  | [] => []
  | c :: cs => covVC i p c ++ covVCs i p cs
def covItem (i : Nat) : Item → List Fact
  | .id => []
  | .types js _ => js.map (Fact.ty i)
  | .prop p _ vals => .key i p :: covVCs i p vals
def covItems (i : Nat) : List Item → List Fact
  | [] => []
  | it :: its => covItem i it ++ covItems i its
end

def cov (c : Choice) : List Fact := c.top.flatMap fun o => covItems o.node o.items

/-- every statement of the graph, by index -/
def allFacts (g : Graph) : List Fact :=
  (List.range g.length).flatMap fun i =>
    (List.range (nodeAt g i).types.length).map (Fact.ty i) ++
    (List.range (nodeAt g i).props.length).flatMap fun p =>
      Fact.key i p :: (List.range (propAt (nodeAt g i) p).2.length).map (Fact.val i p)

/-! ### Well-formedness -/

def isIdItem : Item → Bool
  | .id => true
  | _ => false

def distinct (l : List String) : Bool := decide l.Nodup

mutual
def okVC (g : Graph) (vs : List Val) : VC → Bool
  | .plain q _ => decide (q < vs.length)
  | .embed q i items =>
    decide (q < vs.length) && decide (i < g.length) && decide (valAt vs q = .ref (nodeAt g i).id) &&
      okItems g (nodeAt g i) items &&
      -- a JSON object: `@id` once, no key twice
      ((items.filter isIdItem).length == 1) &&
      distinct ((serItems g (nodeAt g i) items).map (·.1))
def okVCs (g : Graph) (vs : List Val) : List VC → Bool
  | [] => true
  | c :: cs => okVC g vs c && okVCs g vs cs
def okItem (g : Graph) (n : Node) : Item → Bool
  | .id => true
  | .types js _ => !js.isEmpty && js.all (fun j => decide (j < n.types.length))
  | .prop p _ vals => decide (p < n.props.length) && okVCs g (propAt n p).2 vals
def okItems (g : Graph) (n : Node) : List Item → Bool
  | [] => true
  | it :: its => okItem g n it && okItems g n its
end

def okOcc (g : Graph) (o : Occ) : Bool :=
  decide (o.node < g.length) && okItems g (nodeAt g o.node) o.items &&
    ((o.items.filter isIdItem).length == 1) &&
    distinct ((serItems g (nodeAt g o.node) o.items).map (·.1))

def valOk : Val → Bool
  | .ref id => absIri id
  | _ => true

/-- the abstract graph is a graph of the fragment: distinct absolute node ids, absolute class IRIs,
per node distinct absolute property IRIs (in particular no key starts with `@`), links to absolute
IRIs -/
def gOk (g : Graph) : Bool :=
  distinct (g.map (·.id)) &&
  g.all fun n =>
    absIri n.id && n.types.all absIri && distinct (n.props.map (·.1)) &&
      n.props.all fun kv => absIri kv.1 && kv.2.all valOk

/-- The plan is a serialisation of the graph: indices are in range, embedded objects are written
at links to the node they describe, every object has `@id` once and no repeated key, the
occurrences together mention exactly the statements of the graph (`cov` and `allFacts` have the same
elements: the fragments of a node may overlap — repetition — but must cover it), and the
single-object form is used only for a single top-level object. -/
def WF (g : Graph) (c : Choice) : Bool :=
  gOk g && c.top.all (okOcc g) &&
    subset (allFacts g) (cov c) && subset (cov c) (allFacts g) &&
    (c.form != .single || c.top.length == 1)

/-! ### Flat plans (Stage A): no embedded node object anywhere -/

def VC.isPlain : VC → Bool
  | .plain _ _ => true
  | .embed _ _ _ => false

def Item.isFlat : Item → Bool
  | .prop _ _ vals => vals.all VC.isPlain
  | _ => true

def Choice.flat (c : Choice) : Bool := c.top.all fun o => o.items.all Item.isFlat

/-! ### Convenience constructors for drivers -/

/-- all of node `n`, flat: `@id`, `@type` (if any), every property with every value -/
def fullItems (n : Node) : List Item :=
  Item.id ::
    ((if n.types.isEmpty then [] else [Item.types (List.range n.types.length) false]) ++
     (List.range n.props.length).map fun p =>
        Item.prop p false ((List.range (propAt n p).2.length).map fun q => VC.plain q false))

/-- the plainest serialisation: a top-level array with every node in order -/
def Choice.plainOf (g : Graph) : Choice :=
  ⟨(List.range g.length).map (fun i => ⟨i, fullItems (nodeAt g i)⟩), .array⟩

end Acv.Ld
