import Acv.Model.Graph
/-!
# Property paths: denotation (Spec) and traversal clauses (Impl-model of `internal/generator/path.go`)
-/
namespace Acv

inductive Path
  | prop (iri : String) (inv : Bool)
  | seq (ps : List Path)
  | alt (ps : List Path)
deriving Repr, Inhabited

/-! ## Spec: relational denotation -/
mutual
/-- values reached from `n`; `fetch` = dereference the last step (used by `nested`). -/
def den (g : Graph) : Path → Bool → Node → List Item
  | .prop iri inv, fetch, n => stepItems g iri inv fetch n
  | .seq ps, fetch, n => denSeq g ps fetch n
  | .alt ps, fetch, n => denAlt g ps fetch n
/-- composition; all but the last component dereference -/
def denSeq (g : Graph) : List Path → Bool → Node → List Item
  | [], _, _ => []
  | [p], fetch, n => den g p fetch n
  | p :: q :: ps, fetch, n =>
      (Item.nodes (den g p true n)).flatMap (fun m => denSeq g (q :: ps) fetch m)
/-- union -/
def denAlt (g : Graph) : List Path → Bool → Node → List Item
  | [], _, _ => []
  | p :: ps, fetch, n => den g p fetch n ++ denAlt g ps fetch n
end

/-! ## Impl-model: `traverse*` unfold a path into one clause per alternative -/
structure Step where
  iri : String
  inv : Bool
  fetch : Bool
  /-- index used in the Rego variable `<v>_<idx>` bound by this step -/
  bind : Nat
deriving Repr, DecidableEq

/-- `len(t.pathVariables)` when the clause built so far has `k` steps: the first step also appends
the `init_` variable, so the sequence of lengths is 0, 2, 3, 4, … -/
def pathVarCount (k : Nat) : Nat := if k = 0 then 0 else k + 1

mutual
/-- `traverse`: `t` is the clause built so far (`traversal.rego`/`pathVariables`) -/
def trav : Path → List Step → Bool → List (List Step)
  | .prop iri inv, t, fetch => [t ++ [⟨iri, inv, fetch, pathVarCount t.length⟩]]
  | .seq ps, t, fetch => travSeq ps t fetch
  | .alt ps, t, fetch => travAlt ps t fetch
/-- `traverseAnd` -/
def travSeq : List Path → List Step → Bool → List (List Step)
  | [], _, _ => []
  | [p], t, fetch => trav p t fetch
  | p :: q :: ps, t, fetch => (trav p t true).flatMap (fun t' => travSeq (q :: ps) t' fetch)
/-- `traverseOr` -/
def travAlt : List Path → List Step → Bool → List (List Step)
  | [], _, _ => []
  | p :: ps, t, fetch => trav p t fetch ++ travAlt ps t fetch
end

/-- meaning of a clause body: iterate the steps from the source items -/
def evalSteps (g : Graph) : List Step → List Item → List Item
  | [], src => src
  | s :: ss, src => evalSteps g ss ((Item.nodes src).flatMap (stepItems g s.iri s.inv s.fetch))

/-- `traversePath` + `aggregateResultsIntoSet`: union of all clauses from `data.sourceNode`. -/
def pathValues (g : Graph) (p : Path) (fetch : Bool) (n : Node) : List Item :=
  (trav p [] fetch).flatMap (fun c => evalSteps g c [Item.node n])

/-- indices of the Rego variables one clause binds (`<v>_<idx>`, `tmp_<v>_<idx>`) -/
def clauseBindings (c : List Step) : List Nat := c.map Step.bind

end Acv
