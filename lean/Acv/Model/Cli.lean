/-!
# Output side of the `acv` command line

`writeOutput` transliterates `helpers.OpenOrCreateFile` + `helpers.WriteString`
(cmd/commands/helpers/file_helper.go): an existing file is opened with the flags found in the source
(regenerated fact `openFlags`), a missing one is created; the text is written at offset 0.
-/
namespace Acv.Cli

inductive FileState
  | absent
  | content (bs : List Char)
deriving DecidableEq, Repr

/-- bytes of the file after `OpenFile(path, flags)`/`Create(path)` and before the write -/
def opened (truncates : Bool) : FileState → List Char
  | .absent => []                                 -- os.Create
  | .content bs => if truncates then [] else bs   -- os.OpenFile(path, O_RDWR[|O_TRUNC], 0)

/-- `WriteString` at offset 0 over what is there -/
def writeAt0 (existing new : List Char) : List Char := new ++ existing.drop new.length

def writeOutput (truncates : Bool) (prior : FileState) (text : List Char) : FileState :=
  .content (writeAt0 (opened truncates prior) text)

/-- `fmt.Println(text)` -/
def printed (text : List Char) : List Char := text ++ ['\n']

structure Run where
  exit : Nat
  stdout : List Char
  file : FileState

/-- `acv validate PROFILE DATA [OUT]`: `lib` is what the library returns for the two texts -/
def validateCmd (truncates : Bool) (lib : Except String (List Char)) (out : Option FileState) : Run :=
  match lib with
  | .error _ => ⟨2, [], out.getD .absent⟩        -- CheckError panics: non-zero exit, nothing on stdout, file untouched
  | .ok report =>
    match out with
    | none => ⟨0, printed report, .absent⟩
    | some prior => ⟨0, [], writeOutput truncates prior report⟩

end Acv.Cli
