/-!
# PEG interpreter: executable model of the `pigeon` runtime in `internal/parser/path/peg.go`

`PE`/`Grammar` are the target of the mechanical translation in `Acv/Gen/PathGrammar.lean`.
`run` follows `parseExpr` and the `parse*Expr`/`parse*Matcher` methods of the generated parser:
ordered choice, greedy repetition (no backtracking into a repetition), a failing sequence consumes
nothing, `!e`/`&e` consume nothing.

Label bindings follow pigeon's `vstack`: the interpreter threads the *current frame* (the map on top
of `p.vstack`).  `label l e` evaluates `e` in a fresh frame (pushV/popV), then stores `l ↦ value` in
the current frame; `choice`, `*`, `+`, `?`, `!`, `&` and a rule invocation evaluate their operand in
a fresh frame and drop it; `seq` and `action` do not push a frame, so an action sees the labels of the
sequence it wraps.  (A failing expression never leaks bindings: failure propagates through `seq` and
`action` up to the nearest construct that pushed a frame, and that frame is popped.)

Outcomes are four-valued so that fuel is monotone: `oof` = the fuel (recursion depth bound) ran out,
`err` = a semantic action panicked (pigeon recovers the panic and the whole parse returns an error),
`fail` = no match, `ok` = match.
-/
namespace Acv

inductive PE
  | lit (cs : List Char)
  | cls (chars : List Char) (ranges : List (Char × Char)) (inverted : Bool)
  | any
  | seq (es : List PE)
  | choice (es : List PE)
  | star (e : PE)
  | plus (e : PE)
  | opt (e : PE)
  | notp (e : PE)
  | andp (e : PE)
  | ref (name : String)
  | label (l : String) (e : PE)
  | action (name : String) (e : PE)
deriving Repr, Inhabited

structure Grammar where
  rules : List (String × PE)
deriving Repr, Inhabited

/-- Path AST built by the semantic actions (`IRI`, `AND`, `OR` of the `.peg` prelude). -/
inductive PAst
  | iri (value : List Char) (inverse transitive : Bool)
  | and (body : List PAst)
  | or (body : List PAst)
deriving Repr, Inhabited

/-- Semantic values (`any` in Go): `nil`, `[]byte`, `[]any`, or an AST node. -/
inductive V
  | nil
  | chars (cs : List Char)
  | list (vs : List V)
  | ast (p : PAst)
deriving Repr, Inhabited

inductive Res (α : Type)
  | oof
  | err
  | fail
  | ok (a : α)
deriving Repr

/-- the map on top of pigeon's `vstack`; the newest binding is first, lookup returns the newest -/
abbrev Frame := List (String × V)

/-- `stack["l"]`: a missing key is the nil interface -/
def Frame.get (fr : Frame) (l : String) : V :=
  match fr.lookup l with
  | some v => v
  | none => .nil

/-- `p.rules[name]`: the table is a Go map filled in rule order, so the LAST rule of a name wins -/
def Grammar.find (g : Grammar) (name : String) : Option PE :=
  g.rules.reverse.lookup name

/-! ## Semantic actions (`onPath1`, `onExpression1`, `onTerm1`, `onFactor2`, `onFactor11`, `onIri1`) -/

/-- `e[3]` of every element of `tail.([]interface{})`; `none` = a type assertion / index panics -/
def tailFourth : List V → Option (List V)
  | [] => some []
  | .list e :: rest =>
    match e[3]?, tailFourth rest with
    | some x, some xs => some (x :: xs)
    | _, _ => none
  | _ :: _ => none

def allAst : List V → Option (List PAst)
  | [] => some []
  | .ast p :: rest =>
    match allAst rest with
    | some ps => some (p :: ps)
    | none => none
  | _ :: _ => none

/-- body shared by `onExpression1` (`mk = PAst.and`) and `onTerm1` (`mk = PAst.or`).  A body that
holds something other than AST nodes cannot be represented in `PAst`; it is reported as `none`
(it never happens for the path grammar). -/
def foldAct (mk : List PAst → PAst) (head tail : V) : Option V :=
  match tail with
  | .list ts =>
    match tailFourth ts with
    | some [] => some head
    | some (x :: xs) =>
      match allAst (head :: x :: xs) with
      | some ps => some (.ast (mk ps))
      | none => none
    | none => none
  | _ => none

/-- `eval(ns)`: concatenation of a `[]interface{}` of `[]byte` -/
def evalChars : V → Option (List Char)
  | .list vs => go vs
  | _ => none
where
  go : List V → Option (List Char)
    | [] => some []
    | .chars cs :: rest =>
      match go rest with
      | some r => some (cs ++ r)
      | none => none
    | _ :: _ => none

/-- `mod != nil && evalSimple(mod) == c`; `none` = the `[]byte` assertion panics -/
def modIs (mod : V) (c : Char) : Option Bool :=
  match mod with
  | .nil => some false
  | .chars m => some (m == [c])
  | _ => none

def chCaret : Char := Char.ofNat 94
def chStar : Char := Char.ofNat 42
def chDot : Char := Char.ofNat 46

def atType : List Char := [Char.ofNat 64, Char.ofNat 116, Char.ofNat 121, Char.ofNat 112, Char.ofNat 101]

def iriAct (ns prop mod : V) : Option V :=
  match evalChars ns, evalChars prop, modIs mod chCaret, modIs mod chStar with
  | some n, some p, some isInv, some isTr =>
    let value := n ++ [chDot] ++ p
    let inverse := isInv || value.contains chCaret
    let transitive := isTr || value.contains chStar
    let value := (value.filter (· != chCaret)).filter (· != chStar)
    some (.ast (.iri value inverse transitive))
  | _, _, _, _ => none

/-- `act.run(p)` for the action named `name` in frame `fr`; `none` = the Go code panics -/
def act (name : String) (fr : Frame) : Option V :=
  if name = "Path1" then some (fr.get "expr")
  else if name = "Expression1" then foldAct PAst.and (fr.get "head") (fr.get "tail")
  else if name = "Term1" then foldAct PAst.or (fr.get "head") (fr.get "tail")
  else if name = "Factor2" then some (fr.get "expr")
  else if name = "Factor11" then some (.ast (.iri atType false false))
  else if name = "Iri1" then iriAct (fr.get "ns") (fr.get "prop") (fr.get "mod")
  else none

/-! ## Matchers -/

/-- `parseLitMatcher`: the remaining input after the literal -/
def dropPrefix : List Char → List Char → Option (List Char)
  | [], s => some s
  | _ :: _, [] => none
  | c :: cs, d :: s => if c = d then dropPrefix cs s else none

def inRanges (c : Char) : List (Char × Char) → Bool
  | [] => false
  | (lo, hi) :: rest => (lo ≤ c && c ≤ hi) || inRanges c rest

/-- `parseCharClassMatcher` (no `ignoreCase`, no Unicode classes: the translation rejects those) -/
def classMatch (chars : List Char) (ranges : List (Char × Char)) (inverted : Bool) (c : Char) : Bool :=
  if chars.contains c || inRanges c ranges then !inverted else inverted

/-! ## The interpreter.  `fuel` bounds the recursion depth; every call decreases it. -/

abbrev R := Res (V × Frame × List Char)

mutual
def run (g : Grammar) : Nat → PE → Frame → List Char → R
  | 0, _, _, _ => .oof
  | n+1, e, fr, s =>
    match e with
    | .lit cs =>
      match dropPrefix cs s with
      | some r => .ok (.chars cs, fr, r)
      | none => .fail
    | .cls chars ranges inv =>
      match s with
      | [] => .fail
      | c :: r => if classMatch chars ranges inv c then .ok (.chars [c], fr, r) else .fail
    | .any =>
      match s with
      | [] => .fail
      | c :: r => .ok (.chars [c], fr, r)
    | .seq es =>
      match runSeq g n es fr s with
      | .ok (vs, fr', r) => .ok (.list vs, fr', r)
      | .fail => .fail
      | .err => .err
      | .oof => .oof
    | .choice es =>
      match runChoice g n es s with
      | .ok (v, r) => .ok (v, fr, r)
      | .fail => .fail
      | .err => .err
      | .oof => .oof
    | .star e =>
      match runStar g n e s with
      | .ok (vs, r) => .ok (.list vs, fr, r)
      | .fail => .fail
      | .err => .err
      | .oof => .oof
    | .plus e =>
      match run g n e [] s with
      | .ok (v, _, r) =>
        match runStar g n e r with
        | .ok (vs, r') => .ok (.list (v :: vs), fr, r')
        | .fail => .fail
        | .err => .err
        | .oof => .oof
      | .fail => .fail
      | .err => .err
      | .oof => .oof
    | .opt e =>
      match run g n e [] s with
      | .ok (v, _, r) => .ok (v, fr, r)
      | .fail => .ok (.nil, fr, s)
      | .err => .err
      | .oof => .oof
    | .notp e =>
      match run g n e [] s with
      | .ok _ => .fail
      | .fail => .ok (.nil, fr, s)
      | .err => .err
      | .oof => .oof
    | .andp e =>
      match run g n e [] s with
      | .ok _ => .ok (.nil, fr, s)
      | .fail => .fail
      | .err => .err
      | .oof => .oof
    | .ref name =>
      match g.find name with
      | none => .fail
      | some body =>
        match run g n body [] s with
        | .ok (v, _, r) => .ok (v, fr, r)
        | .fail => .fail
        | .err => .err
        | .oof => .oof
    | .label l e =>
      match run g n e [] s with
      | .ok (v, _, r) => .ok (v, (l, v) :: fr, r)
      | .fail => .fail
      | .err => .err
      | .oof => .oof
    | .action a e =>
      match run g n e fr s with
      | .ok (_, fr', r) =>
        match act a fr' with
        | some v => .ok (v, fr', r)
        | none => .err
      | .fail => .fail
      | .err => .err
      | .oof => .oof
/-- `parseSeqExpr`: values, frame and remaining input after all elements -/
def runSeq (g : Grammar) : Nat → List PE → Frame → List Char → Res (List V × Frame × List Char)
  | 0, _, _, _ => .oof
  | _+1, [], fr, s => .ok ([], fr, s)
  | n+1, e :: es, fr, s =>
    match run g n e fr s with
    | .ok (v, fr', r) =>
      match runSeq g n es fr' r with
      | .ok (vs, fr'', r') => .ok (v :: vs, fr'', r')
      | .fail => .fail
      | .err => .err
      | .oof => .oof
    | .fail => .fail
    | .err => .err
    | .oof => .oof
/-- `parseChoiceExpr`: every alternative runs in a fresh frame that is dropped -/
def runChoice (g : Grammar) : Nat → List PE → List Char → Res (V × List Char)
  | 0, _, _ => .oof
  | _+1, [], _ => .fail
  | n+1, e :: es, s =>
    match run g n e [] s with
    | .ok (v, _, r) => .ok (v, r)
    | .fail => runChoice g n es s
    | .err => .err
    | .oof => .oof
/-- `parseZeroOrMoreExpr`: iterate until the operand fails (an operand that keeps succeeding
without consuming input makes pigeon loop forever; here the fuel runs out) -/
def runStar (g : Grammar) : Nat → PE → List Char → Res (List V × List Char)
  | 0, _, _ => .oof
  | n+1, e, s =>
    match run g n e [] s with
    | .ok (v, _, r) =>
      match runStar g n e r with
      | .ok (vs, r') => .ok (v :: vs, r')
      | .fail => .fail
      | .err => .err
      | .oof => .oof
    | .fail => .ok ([], s)
    | .err => .err
    | .oof => .oof
end

/-- `parser.parse`: run the entry point (the first rule's name) -/
def runStart (g : Grammar) (fuel : Nat) (s : List Char) : R :=
  match g.rules with
  | [] => .fail
  | (name, _) :: _ => run g fuel (.ref name) [] s

def pathFuel (s : List Char) : Nat := 20 * (s.length + 2)

/-- AST and the input that the start rule left unconsumed -/
def parseFull (g : Grammar) (s : List Char) : Option (PAst × List Char) :=
  match runStart g (pathFuel s) s with
  | .ok (.ast p, _, r) => some (p, r)
  | _ => none

/-- `ParsePath`: like pigeon's `Parse`, success of the start rule is all that is required; that the
whole input was consumed has to follow from the grammar (`Acv.C16.accepts_whole`). -/
def parsePath (g : Grammar) (s : List Char) : Option PAst :=
  match parseFull g s with
  | some (p, _) => some p
  | none => none

/-! ## Dump (compared with the real parser's result by the differential test) -/

def chComma : Char := Char.ofNat 44
def chRParen : Char := Char.ofNat 41
def seqOpen : List Char := [Char.ofNat 115, Char.ofNat 101, Char.ofNat 113, Char.ofNat 40]
def altOpen : List Char := [Char.ofNat 97, Char.ofNat 108, Char.ofNat 116, Char.ofNat 40]

mutual
def dumpPath : PAst → List Char
  | .iri v inv tr => v ++ (if inv then [chCaret] else []) ++ (if tr then [chStar] else [])
  | .and b => seqOpen ++ dumpList b ++ [chRParen]
  | .or b => altOpen ++ dumpList b ++ [chRParen]
def dumpList : List PAst → List Char
  | [] => []
  | [p] => dumpPath p
  | p :: q :: ps => dumpPath p ++ [chComma] ++ dumpList (q :: ps)
end

end Acv
