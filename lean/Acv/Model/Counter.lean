/-!
# The identifier counter under interleaving (C10)

Model of `profile.Genvar` (`internal/parser/profile/vargenerator.go`): identifiers are numbered by a
package-level counter that every compilation in the process shares.

* repaired code: `n := atomic.AddInt64(&genvarCounter, 1)` — one indivisible step per call
  (`stepAtomic`/`runAtomic`);
* code before the repair: `globalGenerator.counter++` followed by
  `fmt.Sprintf(…, globalGenerator.counter)` — three separate memory accesses per call
  (`stepRacy`/`runRacy`): load the counter into a register, store register+1, load the counter again
  and use that value as the issued number.

Threads are natural numbers.  A schedule is the list of thread numbers in the order in which they
perform their next step, so "every interleaving of any number of threads" = "every `List Nat`".
A run yields the list of `(thread, issued number)` in the order of issue.  Executable, total.
-/
namespace Acv.Counter

/-! ### atomic machine -/

/-- One call of the repaired `Genvar` by thread `t`: the new counter and the issued event. -/
def stepAtomic (counter : Nat) (t : Nat) : Nat × (Nat × Nat) :=
  (counter + 1, (t, counter + 1))

/-- All events of a schedule of the atomic machine, started with counter value `start`. -/
def runAtomic : (start : Nat) → (sched : List Nat) → List (Nat × Nat)
  | _, [] => []
  | c, t :: rest => (stepAtomic c t).2 :: runAtomic (stepAtomic c t).1 rest

/-! ### racy machine -/

/-- Shared counter, and per thread a program counter (0, 1, 2) and a register. -/
structure RState where
  counter : Nat
  pc : Nat → Nat
  reg : Nat → Nat

/-- Function update at one thread. -/
def upd (f : Nat → Nat) (t v : Nat) : Nat → Nat := fun x => if x = t then v else f x

/-- Everything idle, counter 0 (`GenReset`). -/
def RState.init : RState := { counter := 0, pc := fun _ => 0, reg := fun _ => 0 }

/-- The next step of thread `t`:
* pc 0: `reg_t := counter`;
* pc 1: `counter := reg_t + 1`;
* pc 2: issue `(t, counter)`; the call returns, the next step of `t` begins a new call. -/
def stepRacy (s : RState) (t : Nat) : RState × Option (Nat × Nat) :=
  match s.pc t with
  | 0 => ({ s with reg := upd s.reg t s.counter, pc := upd s.pc t 1 }, none)
  | 1 => ({ s with counter := s.reg t + 1, pc := upd s.pc t 2 }, none)
  | _ => ({ s with pc := upd s.pc t 0 }, some (t, s.counter))

/-- All events of a schedule of the racy machine from a given state. -/
def runRacyFrom : RState → List Nat → List (Nat × Nat)
  | _, [] => []
  | s, t :: rest =>
    match (stepRacy s t).2 with
    | some ev => ev :: runRacyFrom (stepRacy s t).1 rest
    | none => runRacyFrom (stepRacy s t).1 rest

/-- All events of a schedule of the racy machine from the initial state. -/
def runRacy (sched : List Nat) : List (Nat × Nat) := runRacyFrom RState.init sched

/-- The final state of the racy machine (for inspection). -/
def endRacyFrom : RState → List Nat → RState
  | s, [] => s
  | s, t :: rest => endRacyFrom (stepRacy s t).1 rest

/-- A schedule in which calls are never interleaved: each call's three steps are consecutive. -/
def sequential (calls : List Nat) : List Nat := calls.flatMap (fun t => [t, t, t])

/-- Numbers issued to thread `t`, in order. -/
def issuedTo (t : Nat) (evs : List (Nat × Nat)) : List Nat :=
  (evs.filter (fun e => e.1 = t)).map (·.2)

end Acv.Counter
