import Acv.Model.Lexical
/-!
# Names invented by the translator (C07)

* `varName`   — `VarGenerator.GenExpressionVar` (internal/parser/profile/vargenerator.go): the `i`-th
  quantified variable of a validation is `letters[i]` while the letter list lasts and
  `fmt.Sprintf("X%d", i)` afterwards.
* `plural`    — `fmt.Sprintf("%ss", child)` of `GenerateNested` (internal/generator/nested.go).
* `genvarName` — `Genvar(hint)` = `fmt.Sprintf("gen_%s_%d", hint, n)`, `n` a strictly increasing counter.
* `packageName` — `packageName` of internal/generator/generator.go:
  `"profile_" + regexp("[^a-zA-Z0-9]+").ReplaceAllString(strings.ToLower(name), "_")`.

`%d` of a non-negative integer is the decimal printer `showNat` of `Acv.Model.Lexical`.

Modelling choices for `packageName`:
* the regexp replacement is "every maximal run of characters outside `[a-zA-Z0-9]` becomes one `_`"
  (`squash`); this is what leftmost-longest-first, non-overlapping replacement of `[^a-zA-Z0-9]+` does;
* `strings.ToLower` is the full Unicode simple lower-casing in Go.  `packageName` models it ONLY for ASCII
  `A`–`Z` (`toLowerAscii`); other characters are left alone.  The two differ on non-ASCII cased letters,
  in particular on the two characters whose lower case is ASCII (U+0130 `İ` ↦ `i`, U+212A `K` ↦ `k`).
  For that reason the worker `packageNameWith` takes the lower-casing function as a parameter and the
  validity theorem in `Acv.Props.C07` is proved for EVERY function that never returns an ASCII capital —
  a property Go's `unicode.ToLower` has.

Everything is structurally recursive, total and computable.
-/
namespace Acv.Ident
open Acv

/-- `%d` of a non-negative integer, as a `String`. -/
def showNatS (n : Nat) : String := String.ofList (showNat n)

/-- `GenExpressionVar`: name of the `i`-th quantified variable. -/
def varName (letters : List String) (i : Nat) : String :=
  match letters[i]? with
  | some l => l
  | none => "X" ++ showNatS i

/-- `fmt.Sprintf("%ss", v)`. -/
def plural (v : String) : String := v ++ "s"

/-- `fmt.Sprintf("gen_%s_%d", hint, n)`. -/
def genvarName (hint : String) (n : Nat) : String := "gen_" ++ hint ++ "_" ++ showNatS n

/-! ## Character classes (on code points, so that `omega` can reason about them) -/

def isLower (c : Char) : Bool := decide (97 ≤ c.toNat ∧ c.toNat ≤ 122)
def isUpper (c : Char) : Bool := decide (65 ≤ c.toNat ∧ c.toNat ≤ 90)
def isDigitC (c : Char) : Bool := decide (48 ≤ c.toNat ∧ c.toNat ≤ 57)

/-- `[a-zA-Z0-9]` -/
def isAlnum (c : Char) : Bool := isLower c || isUpper c || isDigitC c

/-- `[a-z0-9_]` -/
def isPkgChar (c : Char) : Bool := isLower c || isDigitC c || c == '_'

/-- lower-casing of ASCII capitals only -/
def toLowerAscii (c : Char) : Char := if isUpper c then Char.ofNat (c.toNat + 32) else c

/-- `ReplaceAllString("[^a-zA-Z0-9]+", "_")`; the flag says that the previous character belonged to a run
that has already been replaced. -/
def squash : Bool → List Char → List Char
  | _, [] => []
  | inRun, c :: cs =>
    if isAlnum c then c :: squash false cs
    else if inRun then squash true cs
    else '_' :: squash true cs

/-- `packageName` with the lower-casing function as a parameter. -/
def packageNameWith (lower : Char → Char) (name : List Char) : List Char :=
  "profile_".toList ++ squash false (name.map lower)

/-- `packageName` (ASCII lower-casing). -/
def packageName (name : List Char) : List Char := packageNameWith toLowerAscii name

/-! ## Checkers evaluated on the generated tables -/

/-- the string is exactly one lower-case ASCII letter -/
def isLowerLetter (s : String) : Bool :=
  match s.toList with
  | [c] => isLower c
  | _ => false

/-- the string is non-empty and begins with a lower-case ASCII letter -/
def startsLower (s : String) : Bool :=
  match s.toList with
  | c :: _ => isLower c
  | [] => false

end Acv.Ident
