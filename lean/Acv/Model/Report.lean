/-!
# From level lists and firing validations to the report header

Impl-model of: `parseValidationLevel` (names resolved against `validations`, undefined names skipped),
the generated rule heads `violation[..]`/`warning[..]`/`info[..]` (Rego sets: duplicates collapse),
`default <level> = []`, the preamble's `report[level]` rules, and `BuildReport`/`ValidationReportNode`.
-/
namespace Acv.Rep

inductive Level | violation | warning | info
deriving DecidableEq, Repr

def Level.severity : Level → String
  | .violation => "http://www.w3.org/ns/shacl#Violation"
  | .warning => "http://www.w3.org/ns/shacl#Warning"
  | .info => "http://www.w3.org/ns/shacl#Info"

structure Profile where
  name : String
  violation : List String
  warning : List String
  info : List String
  defined : List String       -- keys of `validations`
deriving Repr

def Profile.listed (p : Profile) : Level → List String
  | .violation => p.violation
  | .warning => p.warning
  | .info => p.info

/-- one result as far as the header logic is concerned -/
structure Result where
  severity : String
  shape : String
  focus : String
deriving DecidableEq, Repr

/-- the Rego set a level evaluates to: every (validation, node) that fires, for validations listed
under the level and defined; a set, so repeated listing adds nothing -/
def levelSet (p : Profile) (fires : String → List String) (l : Level) : List (String × String) :=
  (((p.listed l).filter (fun v => p.defined.contains v)).flatMap (fun v => (fires v).map (fun n => (v, n)))).eraseDups

def bucket (p : Profile) (fires : String → List String) (l : Level) : List Result :=
  (levelSet p fires l).map (fun vn => ⟨l.severity, vn.1, vn.2⟩)

structure Config where
  includeDate : Bool
  time : String
  reportSchema : String
  lexicalSchema : String
deriving Repr

structure Report where
  profileName : String
  conforms : Bool
  dateCreated : Option String
  /-- `none` = the `result` key is absent -/
  result : Option (List Result)
  /-- the two schema entries of `@context` (lexical only in the non-empty context) -/
  ctxReportSchema : String
  ctxLexicalSchema : Option String
deriving Repr

def buildReport (p : Profile) (fires : String → List String) (c : Config) : Report :=
  let violations := bucket p fires .violation
  let results := violations ++ bucket p fires .warning ++ bucket p fires .info
  { profileName := p.name
    conforms := violations.isEmpty
    dateCreated := if c.includeDate then some c.time else none
    result := if results.isEmpty then none else some results
    ctxReportSchema := c.reportSchema ++ "#/declarations/"
    ctxLexicalSchema := if results.isEmpty then none else some (c.lexicalSchema ++ "#/declarations/") }

def Report.results (r : Report) : List Result := r.result.getD []

end Acv.Rep
