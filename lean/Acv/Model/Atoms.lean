import Acv.Model.Path
import Acv.Model.Rule
/-!
# The documented atomic constraints: when does each generated "error when" snippet fire?

`Atom.fails g neg a n` is the meaning of the Rego body emitted by `GenerateCount`, `GenerateScalar*`,
`GenerateNumericComparison`, `GeneratePropertyComparison`, `GenerateDatatype` for the atom `a`
(`neg` = the `Negated` flag, i.e. the "negated twin"), evaluated on focus node `n` of graph `g`.
Values are the *set* reached by the path (`aggregateResultsIntoSet`).
-/
namespace Acv
open Dnf (Op)

inductive CountKind | min | max | exact
deriving DecidableEq, Repr

def CountKind.ok : CountKind → Nat → Nat → Bool
  | .min, c, k => decide (k ≤ c)
  | .max, c, k => decide (c ≤ k)
  | .exact, c, k => c == k

inductive Atom
  | count (k : CountKind) (p : Path) (arg : Nat)
  | length (k : CountKind) (p : Path) (arg : Nat)
  | inSet (p : Path) (vals : List String)
  | containsAll (p : Path) (vals : List String)
  | containsSome (p : Path) (vals : List String)
  | numeric (op : Op) (p : Path) (arg : Int)
  | propCmp (op : Op) (p q : Path)
  | datatype (p : Path) (dt : String)
  /-- `pattern` restricted to four regular-expression shapes over literal text without metacharacters:
  `^lit$` (equals), `^lit` (starts with), `lit$` (ends with), `lit` (contains) -/
  | pattern (p : Path) (anchorStart anchorEnd : Bool) (lit : String)
  /-- `uniqueValues: arg` — evaluated on the ARRAY of reached values (one entry per route) -/
  | uniqueValues (p : Path) (arg : Bool)
deriving Repr, Inhabited

/-- Rego set of the reached values -/
def valueSet (g : Graph) (p : Path) (n : Node) : List Item := (den g p false n).eraseDups

/-- preamble `as_string` -/
def Item.asString : Item → String
  | .lit (.str s) => s
  | .lit (.num i) => toString i
  | .lit (.bool b) => if b then "true" else "false"
  | .lit (.ref id) => id
  | .node n => n.id

/-- OPA's total order on terms, restricted to the values we generate:
bool < number < string < object -/
def Item.rank : Item → Nat
  | .lit (.bool _) => 1
  | .lit (.num _) => 2
  | .lit (.str _) => 3
  | .lit (.ref _) => 4
  | .node _ => 4

def ordOp (op : Op) : Ordering → Bool
  | .lt => match op with | .lt | .le | .ne => true | _ => false
  | .eq => match op with | .le | .eq | .ge => true | _ => false
  | .gt => match op with | .gt | .ge | .ne => true | _ => false

def Item.cmp (a b : Item) : Ordering :=
  match a, b with
  | .lit (.bool x), .lit (.bool y) => compare x.toNat y.toNat
  | .lit (.num x), .lit (.num y) => compare x y
  | .lit (.str x), .lit (.str y) => compare x y
  | .lit (.ref x), .lit (.ref y) => compare x y
  | a, b => compare a.rank b.rank

/-- `count(x)` of one value as the length snippets and their trace (`"actual": count(x)`) see it:
a string's code points, the keys of an object; undefined for numbers and booleans — then the rule
body is undefined and nothing is reported, whatever the polarity. -/
def Item.count? : Item → Option Nat
  | .lit (.str s) => some s.length
  | .lit (.ref _) => some 1
  | .node n => some (1 + (if n.types.isEmpty then 0 else 1) + n.props.length)
  | _ => none

def lenFires (neg : Bool) (k : CountKind) (arg : Nat) (v : Item) : Bool :=
  match v.count? with
  | some l => if neg then k.ok l arg else !k.ok l arg
  | none => false

def xsd (s : String) : String := "http://www.w3.org/2001/XMLSchema#" ++ s

/-- `check_datatype(x, dt)` is defined and true -/
def datatypeOk (dt : String) : Item → Bool
  | .lit (.str _) => dt = xsd "string"
  | .lit (.num _) => dt = xsd "integer" || dt = xsd "float"
  | .lit (.bool _) => dt = xsd "boolean"
  | _ => false

/-- `regex.match` for the four literal shapes; undefined (never fires, either polarity) on non-strings -/
def patternOk (anchorStart anchorEnd : Bool) (lit : String) : Item → Option Bool
  | .lit (.str s) =>
    let cs := s.toList
    let l := lit.toList
    some (match anchorStart, anchorEnd with
      | true, true => cs == l
      | true, false => l.isPrefixOf cs
      | false, true => l.isSuffixOf cs
      | false, false => (List.range (cs.length + 1)).any (fun i => l.isPrefixOf (cs.drop i)))
  | _ => none

/-- does the list hold some element twice? -/
def hasDup : List Item → Bool
  | [] => false
  | x :: xs => xs.contains x || hasDup xs

/-- per-value atoms: the un-negated snippet fires when some value is not ok, the negated twin when
some value is ok -/
def anyVal (neg : Bool) (vs : List Item) (ok : Item → Bool) : Bool :=
  if neg then vs.any ok else vs.any (fun v => !ok v)

def Atom.fails (g : Graph) (neg : Bool) : Atom → Node → Bool
  | .count k p arg, n =>
      let c := (valueSet g p n).length
      if neg then k.ok c arg else !k.ok c arg
  | .length k p arg, n => (valueSet g p n).any (lenFires neg k arg)
  | .inSet p vals, n => anyVal neg (valueSet g p n) (fun v => vals.contains v.asString)
  | .containsAll p vals, n =>
      let vs := (valueSet g p n).map Item.asString
      !vs.isEmpty && (if neg then vals.all vs.contains else !vals.all vs.contains)
  | .containsSome p vals, n =>
      let vs := (valueSet g p n).map Item.asString
      !vs.isEmpty && (if neg then vals.any vs.contains else !vals.any vs.contains)
  | .numeric op p arg, n =>
      anyVal neg (valueSet g p n) (fun v => ordOp op (v.cmp (.lit (.num arg))))
  | .propCmp op p q, n =>
      let as := valueSet g p n
      let bs := valueSet g q n
      if neg then as.any (fun a => bs.any (fun b => ordOp op (a.cmp b)))
      else as.any (fun a => bs.any (fun b => !ordOp op (a.cmp b)))
  | .datatype p dt, n => anyVal neg (valueSet g p n) (datatypeOk dt)
  | .pattern p a e lit, n =>
      (valueSet g p n).any (fun v => match patternOk a e lit v with
        | some ok => if neg then ok else !ok
        | none => !neg)          -- regex.match on a non-string is undefined: `not …` holds, the bare call does not
  | .uniqueValues p arg, n =>
      -- GeneratePropertyArray: the array has one entry per route to a value
      let dup := hasDup (pathValues g p false n)
      if arg != neg then dup else !dup

/-- the environment a graph and two tables (atoms, nested paths) induce -/
def graphEnv (g : Graph) (atoms : Array Atom) (paths : Array Path) : Dnf.Env Node where
  fail neg a n := match atoms[a]? with
    | some atm => atm.fails g neg n
    | none => neg          -- an index outside the table reads as an atom that always holds
  kids p n := match paths[p]? with
    | some pa => (Item.nodes (den g pa true n)).eraseDups
    | none => []

/-- literal reading: each atom holds iff its un-negated snippet does not fire -/
def Atom.isCardinality : Atom → Bool
  | .count .. => true
  | _ => false

end Acv
