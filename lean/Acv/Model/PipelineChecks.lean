import Acv.Model.Pipeline
/-! decidable checks on traces of the pipeline skeleton (used by the C04/C09/C11/C17 theorems and by the driver) -/
namespace Acv.Pipe

/-- stage events come in pairs: event `2k` starts stage `k`, event `2k+1` completes it -/
def isStart (e : Ev) : Bool := e % 2 == 0

/-- every completion is preceded by its start, stages never overlap; a last stage may stay open -/
def bracketedFrom : Option Ev → List Ev → Bool
  | _, [] => true
  | none, e :: es => isStart e && bracketedFrom (some e) es
  | some s, e :: es => (e == s + 1) && bracketedFrom none es

def bracketed (es : List Ev) : Bool := bracketedFrom none es

/-- `pkg/milestones`: fold over the events with the map of stored starts; yields (start position, done position) -/
def milestonesFrom (starts : List Nat) (dones : List (Nat × Nat)) :
    List (Ev × Nat) → Nat → List Ev → List (Nat × Nat)
  | _, _, [] => []
  | stored, pos, e :: es =>
    if starts.contains e then milestonesFrom starts dones ((e, pos) :: stored.filter (fun p => p.1 != e)) (pos + 1) es
    else match dones.find? (fun d => d.1 == e) with
      | some d =>
        match stored.find? (fun p => p.1 == d.2) with
        | some p => (p.2, pos) :: milestonesFrom starts dones stored (pos + 1) es
        | none => (pos, pos) :: milestonesFrom starts dones stored (pos + 1) es   -- zero-value start event
      | none => milestonesFrom starts dones stored (pos + 1) es

def milestones (starts : List Nat) (dones : List (Nat × Nat)) (es : List Ev) : List (Nat × Nat) :=
  milestonesFrom starts dones [] 0 es

def doneCount (es : List Ev) : Nat := es.countP (fun e => !isStart e)

end Acv.Pipe
