/-!
# Lexical range strings (C14)

The lexical-range producer writes `[(L1,C1)-(L2,C2)]` with decimal numbers; the Rego policy extracts
the numbers with `regex.find_n("\\d+", s, 4)` (first four maximal runs of ASCII digits) and `to_number`.
Everything here is executable and total; strings are modelled as `List Char`.
-/
namespace Acv

/-- ASCII digit test (`\d` of RE2 without the unicode flag). -/
def isDigit (c : Char) : Bool := 48 ≤ c.toNat && c.toNat ≤ 57

/-- The character of one decimal digit (arguments ≥ 10 never occur; they are mapped to '9'). -/
def digitChar : Nat → Char
  | 0 => '0' | 1 => '1' | 2 => '2' | 3 => '3' | 4 => '4'
  | 5 => '5' | 6 => '6' | 7 => '7' | 8 => '8' | _ => '9'

/-- Value of one digit character. -/
def charVal (c : Char) : Nat := c.toNat - 48

/-- Fuel-driven worker of `showNat`: peels the least significant digit and pushes it on `acc`. -/
def showNatAux : Nat → Nat → List Char → List Char
  | 0, _, acc => acc
  | fuel + 1, n, acc =>
    if n < 10 then digitChar n :: acc
    else showNatAux fuel (n / 10) (digitChar (n % 10) :: acc)

/-- Decimal digits of `n`, most significant first; `showNat 0 = ['0']`.
Recursion on `n / 10` with fuel `n + 1` (never exhausted: proved in `Acv.Props.C14`). -/
def showNat (n : Nat) : List Char := showNatAux (n + 1) n []

/-- Value of a digit list (Horner). -/
def readNat (cs : List Char) : Nat := cs.foldl (fun v c => v * 10 + charVal c) 0

/-- Worker of `digitRuns`: `acc` is the current run, reversed. -/
def digitRunsGo : List Char → List Char → List (List Char)
  | acc, [] => if acc.isEmpty then [] else [acc.reverse]
  | acc, c :: cs =>
    if isDigit c then digitRunsGo (c :: acc) cs
    else if acc.isEmpty then digitRunsGo [] cs
    else acc.reverse :: digitRunsGo [] cs

/-- All maximal non-empty runs of ASCII digits, left to right (`regex.find_n("\\d+", s, -1)`). -/
def digitRuns (cs : List Char) : List (List Char) := digitRunsGo [] cs

/-- `[(a,b)-(c,d)]` -/
def fmtRange (a b c d : Nat) : List Char :=
  ['[', '('] ++ showNat a ++ [','] ++ showNat b ++ [')', '-', '('] ++ showNat c ++ [','] ++ showNat d
    ++ [')', ']']

/-- First four digit runs converted to numbers; `none` if there are fewer than four runs. -/
def parseRange (cs : List Char) : Option (Nat × Nat × Nat × Nat) :=
  match digitRuns cs with
  | r1 :: r2 :: r3 :: r4 :: _ => some (readNat r1, readNat r2, readNat r3, readNat r4)
  | _ => none

end Acv
