import Acv.Model.Iri
import Acv.Model.Peg
/-!
# Reading the `Iri` rule off a (generated) path grammar, and checkers that compare its character classes
with the classes of the IRI expander (C15)

All executable; the checkers are evaluated by `decide` on the generated tables.
-/
namespace Acv.Iri
open Acv

/-- a PEG character class without inversion: single characters and ranges -/
abbrev Cls := List Char × List (Char × Char)

/-- The character classes of `ns` and `prop` in the `Iri` rule
`Iri ← ns:[…]+ '.' prop:[…]+ …` (`none` if the rule does not have that shape). -/
def iriClasses (g : Grammar) : Option (Cls × Cls) :=
  match g.find "Iri" with
  | some (.action _ (.seq (.label _ (.plus (.cls c1 r1 false)) :: .lit sep ::
      .label _ (.plus (.cls c2 r2 false)) :: _))) =>
    if sep = ['.'] then some ((c1, r1), (c2, r2)) else none
  | _ => none

/-- the range lies inside `a-z`, `A-Z` or `0-9` -/
def rangeAlnum (r : Char × Char) : Bool :=
  decide (97 ≤ r.1.toNat ∧ r.2.toNat ≤ 122) || decide (65 ≤ r.1.toNat ∧ r.2.toNat ≤ 90) ||
    decide (48 ≤ r.1.toNat ∧ r.2.toNat ≤ 57)

/-- sufficient test for "every character of the class satisfies `p`" (for a `p` that holds on
`[a-zA-Z0-9]`) -/
def clsWithin (p : Char → Bool) (cls : Cls) : Bool := cls.1.all p && cls.2.all rangeAlnum

/-- some range of the class contains all code points `a … b` -/
def coversRange (rs : List (Char × Char)) (a b : Nat) : Bool :=
  rs.any fun r => decide (r.1.toNat ≤ a ∧ b ≤ r.2.toNat)

/-- the class contains `[a-zA-Z0-9_-]` -/
def clsCoversNs (cls : Cls) : Bool :=
  coversRange cls.2 97 122 && coversRange cls.2 65 90 && coversRange cls.2 48 57 &&
    cls.1.contains '_' && cls.1.contains '-'

/-- the class contains `[.\\/a-zA-Z0-9_-]` -/
def clsCoversProp (cls : Cls) : Bool :=
  clsCoversNs cls && cls.1.contains '.' && cls.1.contains '\\' && cls.1.contains '/'

/-- the `Iri` rule has the expected shape and its classes lie inside the expander's classes -/
def grammarIriOk (g : Grammar) : Bool :=
  match iriClasses g with
  | some (k1, k2) => clsWithin isClass1 k1 && clsWithin isClass2 k2
  | none => false

/-- the `Iri` rule has the expected shape and its classes are exactly `isNsChar` and `isPropChar` -/
def grammarIriExact (g : Grammar) : Bool :=
  match iriClasses g with
  | some (k1, k2) =>
    clsWithin isNsChar k1 && clsCoversNs k1 && clsWithin isPropChar k2 && clsCoversProp k2
  | none => false

end Acv.Iri
