import Acv.Model.ProfileParser
import Acv.Model.FrontEnd
/-!
# The chain that gives every constraint keyword its meaning, as data

`ParseConstraint` is modelled in `Acv.Model.ProfileParser` as the list of FUNCTIONS `constraintSteps`. Here the same
list is given as DATA (`stepDescs`, tied to the functions by `constraintSteps_eq : … := rfl` in `Props/C01Operators`),
so that it can be compared with the table the translator regenerates from the Go sources on every run
(`Acv.Gen.opSteps`, `opCtors`, …): which keyword is looked at in which position, how its value is read, which
constructor it is handed to, and which comparison the constructor stores.  The generator side (`regoCmp`) says which
comparison an operator text of the emitted policy denotes.
-/
namespace Acv.Ops
open Acv.PP

/-- one block of `ParseConstraint`, as data -/
inductive StepDesc
  | count (key : String) (qualifier target : Nat)
  | pattern
  | set (key : String) (criteria : Nat)
  | unique
  | prop (key name : String) (op : CmpOp)
  | qualified (key : String) (op : CmpOp)
  | numeric (key : String) (op : CmpOp)
  | datatype
  | nested
  | rego (key : String)
deriving Repr, DecidableEq

def StepDesc.toStep : StepDesc → PP.Step
  | .count k q t => countStep k q t
  | .pattern => patternStep
  | .set k c => setStep k c
  | .unique => uniqueStep
  | .prop k n o => propStep k n o
  | .qualified k o => qualifiedStep k o
  | .numeric k o => numericStep k o
  | .datatype => datatypeStep
  | .nested => nestedStep
  | .rego k => regoStep k

/-- the blocks of `ParseConstraint` in the order of the source -/
def stepDescs : List StepDesc := [
  .count "minCount" 0 1, .count "maxCount" 1 1, .count "exactCount" 2 1,
  .count "minLength" 0 0, .count "maxLength" 1 0, .count "exactLength" 2 0,
  .pattern,
  .set "in" 0,
  .unique,
  .set "containsAll" 1, .set "containsSome" 2,
  .prop "lessThanProperty" "lessThan" .lt,
  .prop "lessThanOrEqualsToProperty" "lessThanOrEqualsTo" .le,
  .prop "equalsToProperty" "equalsTo" .eq,
  .prop "disjointWithProperty" "disjointWith" .ne,
  .prop "moreThanProperty" "moreThan" .gt,
  .prop "moreThanOrEqualsToProperty" "moreThanOrEqualsTo" .ge,
  .qualified "atLeast" .ge, .qualified "atMost" .le, .qualified "exactly" .eq,
  .numeric "minInclusive" .ge, .numeric "minExclusive" .gt,
  .numeric "maxInclusive" .le, .numeric "maxExclusive" .lt,
  .datatype,
  .nested,
  .rego "rego", .rego "regoModule"]

/-- the Go constants of `CardinalityOperation` -/
def cmpOfConst : String → Option CmpOp
  | "LT" => some .lt | "LTEQ" => some .le | "EQ" => some .eq
  | "NEQ" => some .ne | "GT" => some .gt | "GTEQ" => some .ge
  | _ => none

/-- `CountQualifier` (`iota` order: Min, Max, Exact) -/
def qualifierOfConst : String → Option Nat
  | "Min" => some 0 | "Max" => some 1 | "Exact" => some 2 | _ => none

/-- `TargetValue` (`iota` order: StringLength, ItemsInArray) -/
def targetOfConst : String → Option Nat
  | "StringLength" => some 0 | "ItemsInArray" => some 1 | _ => none

abbrev StepRow := String × String × String × String × String
abbrev CtorRow := String × String × List String × List String × String

def findCtor (ctors : List CtorRow) (name : String) : Option CtorRow :=
  ctors.find? (fun c => c.1 == name)

/-- what a regenerated row of `ParseConstraint` amounts to; `none` when the row is not one of the documented shapes -/
def resolve (ctors : List CtorRow) : StepRow → Option StepDesc
  | (key, conv, cond, ctor, op) =>
    match findCtor ctors ctor with
    | some (_, "newCount", [q, t], [], name) =>
      if conv == "Int" && cond == "err == nil" && op == "" && name == key then
        match qualifierOfConst q, targetOfConst t with
        | some q, some t => some (.count key q t)
        | _, _ => none
      else none
    | some (_, "newPropertyComparison", [o], [], name) =>
      if conv == "String" && cond == "err == nil" && op == "" then (cmpOfConst o).map (.prop key name) else none
    | some (_, "newNumericComparison", [o], [name], "") =>
      if conv == "" && cond == "_.IsFound()" && op == "" && name == key then (cmpOfConst o).map (.numeric key) else none
    | some _ => none
    | none =>
      match ctor, conv, cond with
      | "parseQualifiedNestedExpression", "", "_.IsFound()" => (cmpOfConst op).map (.qualified key)
      | "newPattern", "String", "err == nil" => if key == "pattern" && op == "" then some .pattern else none
      | "newIn", "Array", "err == nil" => if key == "in" && op == "" then some (.set key 0) else none
      | "newContainsAll", "Array", "err == nil" => if key == "containsAll" && op == "" then some (.set key 1) else none
      | "newContainsSome", "Array", "err == nil" => if key == "containsSome" && op == "" then some (.set key 2) else none
      | "newUniqueValues", "Bool", "err == nil" => if key == "uniqueValues" && op == "" then some .unique else none
      | "parseDatatype", "", "_.IsFound()" => if key == "datatype" && op == "" then some .datatype else none
      | "parseNestedExpression", "", "_.IsFound() && _.IsMap()" => if key == "nested" && op == "" then some .nested else none
      | "ParseRego", "", "_.IsFound()" => if op == "" then some (.rego key) else none
      | _, _, _ => none

/-- which comparison an operator text of the emitted policy denotes (inside a rule body `a = b` on two bound values is
the equality test, like `a == b`) -/
def regoCmp : String → Option Dnf.Op
  | ">=" => some .ge | ">" => some .gt | "<" => some .lt | "<=" => some .le
  | "==" => some .eq | "=" => some .eq | "!=" => some .ne
  | _ => none

/-- `obtainCondition`: the case of the constant, else the default -/
def countCond (table : List (String × String)) (const : String) : Option String :=
  match table.find? (fun r => r.1 == const) with
  | some r => some r.2
  | none => (table.find? (fun r => r.1 == "default")).map (·.2)

/-- the comparison `count(values) OP argument` that HOLDS when a count constraint of this qualifier is satisfied -/
def qualifierOp : Nat → Option Dnf.Op
  | 0 => some .ge | 1 => some .le | 2 => some .eq | _ => none

/-- operator text the generator emits for a stored comparison constant -/
def lookup2 (table : List (String × String)) (const : String) : Option String :=
  (table.find? (fun r => r.1 == const)).map (·.2)

def lookupNumeric (table : List (String × String × String)) (const : String) : Option String :=
  (table.find? (fun r => r.1 == const)).map (·.2.2)

/-- the formats of one generator under one polarity -/
def formatsOf (pol : List (String × String × String)) (gen branch : String) : List String :=
  (pol.filter (fun r => r.1 == gen && r.2.1 == branch)).map (·.2.2)

end Acv.Ops
