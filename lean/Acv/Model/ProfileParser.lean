import Acv.Model.Peg
import Acv.Model.Message
import Acv.Model.Ident
import Acv.Gen.PathGrammar
import Acv.Gen.Tables
/-!
# Executable model of the profile parser (`internal/parser/profile`, `internal/parser/yaml`, `ParsePath`)

* `Y` is the `yaml.v3` node tree as the wrapper `internal/parser/yaml/parser.go` sees it; a possibly-nil
  `*Yaml` is an `Option Y`.  The accessors (`Y.get`, `str?`, `int?`, …) transliterate the wrapper's methods.
* `PRule` is the rule tree (`profile.Rule` and its implementations), with exactly the data the verification
  hook `pkg/verifhook/dump_profile.go` dumps.
* The parser threads the variable counter of `VarGenerator` explicitly: every function that may allocate a
  variable takes the counter and returns the updated one.
* Recursion: the Go parser recurses through `Get(...)` look-ups, which structural recursion cannot see, so the
  only recursive function `pev` (= `parseExpressionValue`) takes a fuel argument; all other parsing functions
  are NOT recursive in the tree: they take the recursive call as the parameter `rec`.  `parseProfile` supplies
  the depth of the document as fuel, which is never exhausted (one unit is spent per `pev` level, and every
  `pev` level descends at least one level in the tree).
* Floats: where the Go code has to FORMAT a float the model gives the distinguished error `unsupported:float`
  (`stringifyNode`) or keeps the text (`NumArg.float`, formatted only by the dump).

Everything is total and computable; no `partial`, no well-founded recursion.
-/
namespace Acv.PP
open Acv

/-! ## The YAML tree and the wrapper's accessors -/

/-- `yaml.Node` restricted to what the wrapper inspects: kind, tag and value.  `other` = a node that is
neither a mapping, a sequence nor a scalar (an alias node); `v` is its `Value` (the anchor name). -/
inductive Y
  | scalar (tag : String) (v : String)
  | seq (items : List Y)
  | map (entries : List (Y × Y))
  | other (v : String)
deriving Repr, Inhabited

/-- `n.Kind == yaml.ScalarNode && n.Value == key` -/
def Y.isKey : Y → String → Bool
  | .scalar _ v, k => v == k
  | _, _ => false

/-- the loop of `Yaml.Get` over the `key, value, key, value, …` content of a mapping node -/
def getEntries : List (Y × Y) → String → Option Y
  | [], _ => none
  | (k, v) :: rest, key => if k.isKey key then some v else getEntries rest key

/-- `Yaml.Get` on a non-nil node: the value of the FIRST entry whose key is a scalar with that value -/
def Y.get : Y → String → Option Y
  | .map es, key => getEntries es key
  | _, _ => none

/-- `Yaml.Get` on a possibly-nil node -/
def oget (o : Option Y) (key : String) : Option Y :=
  match o with
  | some y => y.get key
  | none => none

/-- `node.Value` (empty for mappings and sequences) -/
def Y.val : Y → String
  | .scalar _ v => v
  | .other v => v
  | _ => ""

def isMap : Option Y → Bool
  | some (.map _) => true
  | _ => false

def isArray : Option Y → Bool
  | some (.seq _) => true
  | _ => false

/-- `Yaml.String()`: a scalar tagged `!!str` -/
def str? : Option Y → Option String
  | some (.scalar tag v) => if tag == "!!str" then some v else none
  | _ => none

def isDigit (c : Char) : Bool := decide ('0' ≤ c) && decide (c ≤ '9')

def digitsVal (cs : List Char) : Nat := cs.foldl (fun n c => n * 10 + (c.toNat - 48)) 0

/-- `strconv.Atoi` on a 64-bit platform: optional sign, at least one ASCII digit, nothing else, and the value
must fit `int64` (the fast path and `ParseInt(s, 10, 0)` accept the same strings). -/
def atoi (s : List Char) : Option Int :=
  let (neg, ds) := match s with
    | '-' :: r => (true, r)
    | '+' :: r => (false, r)
    | r => (false, r)
  if ds.isEmpty || !ds.all isDigit then none
  else
    let n := digitsVal ds
    if neg then (if n ≤ 9223372036854775808 then some (-(n : Int)) else none)
    else (if n ≤ 9223372036854775807 then some (n : Int) else none)

/-- `Yaml.Int()`: a scalar tagged `!!int` whose text `Atoi` accepts -/
def int? : Option Y → Option Int
  | some (.scalar tag v) => if tag == "!!int" then atoi v.toList else none
  | _ => none

/-- `strconv.ParseBool` -/
def parseBool (s : String) : Option Bool :=
  if s == "1" || s == "t" || s == "T" || s == "TRUE" || s == "true" || s == "True" then some true
  else if s == "0" || s == "f" || s == "F" || s == "FALSE" || s == "false" || s == "False" then some false
  else none

/-- `Yaml.Bool()` -/
def bool? : Option Y → Option Bool
  | some (.scalar tag v) => if tag == "!!bool" then parseBool v else none
  | _ => none

/-- the text of a scalar tagged `!!float` (`Yaml.Float()` additionally requires `ParseFloat` to accept it; the
model does not decide that: see `unsupported:float`) -/
def floatText? : Option Y → Option String
  | some (.scalar tag v) => if tag == "!!float" then some v else none
  | _ => none

/-- `Yaml.Array()` -/
def arr? : Option Y → Option (List Y)
  | some (.seq items) => some items
  | _ => none

/-- first occurrences, in order -/
def dedup : List String → List String → List String
  | _, [] => []
  | seen, k :: ks => if seen.contains k then dedup seen ks else k :: dedup (k :: seen) ks

/-- `Yaml.GetMapKeys()`: the `Value` of every key node, document order, first occurrence of each; a node
that is not a mapping has no keys (the callers ignore the error) -/
def mapKeys : Option Y → List String
  | some (.map es) => dedup [] (es.map (fun e => e.1.val))
  | _ => []

mutual
def Y.depth : Y → Nat
  | .scalar _ _ => 1
  | .other _ => 1
  | .seq items => depthList items + 1
  | .map es => depthEntries es + 1
def depthList : List Y → Nat
  | [] => 0
  | y :: ys => max y.depth (depthList ys)
def depthEntries : List (Y × Y) → Nat
  | [] => 0
  | (k, v) :: es => max (max k.depth v.depth) (depthEntries es)
end

/-! ## Rule trees -/

inductive Quant | all | ex
deriving Repr, DecidableEq, Inhabited

/-- `CardinalityOperation` -/
inductive CmpOp | le | lt | eq | ne | gt | ge
deriving Repr, DecidableEq, Inhabited

/-- `CardinalityOperation.String()` -/
def CmpOp.sym : CmpOp → String
  | .le => "<=" | .lt => "<" | .eq => "=" | .ne => "!=" | .gt => ">" | .ge => ">="

structure Card where
  op : CmpOp
  value : Int
deriving Repr, DecidableEq, Inhabited

/-- `profile.Variable` -/
structure Var where
  name : String
  quant : Quant := .all
  card : Option Card := none
deriving Repr, DecidableEq, Inhabited

/-- a parsed property path, as the dump shows it: `DumpPath` of the AST and the recorded source text -/
structure PPath where
  dump : String
  source : String
deriving Repr, DecidableEq, Inhabited

/-- argument of a numeric comparison: the integer value, or the text of the float -/
inductive NumArg
  | int (i : Int)
  | float (text : String)
deriving Repr, DecidableEq, Inhabited

/-- kind-specific data of the atomic statements -/
inductive Atom
  | count (name : String) (qualifier target : Nat) (arg : Int)
  | set (name : String) (criteria : Nat) (args : List String)
  | pattern (arg : String)
  | unique (arg : Bool)
  | propcmp (name : String) (op : CmpOp) (other : PPath)
  | numeric (name : String) (op : CmpOp) (arg : NumArg)
  | datatype (arg : String)
  | rego (message code : String)
deriving Repr, DecidableEq, Inhabited

inductive PRule
  | and (neg : Bool) (body : List PRule)
  | or (neg : Bool) (body : List PRule)
  | cond (neg : Bool) (body : List PRule)
  | nested (neg : Bool) (parent : String) (child : Var) (path : PPath) (value : PRule)
  | atom (neg : Bool) (var : String) (path : PPath) (a : Atom)
  | top (name level cls : String) (var : Var) (neg : Bool) (msgExpr : String) (msgVars : List String)
      (value : PRule)
deriving Repr, Inhabited

mutual
/-- `Rule.Negate()`: De Morgan for `and`/`or` (the result is a fresh, un-negated connective), a flipped flag
for everything else.  (`ConditionalRule.Negate` rebuilds the body from its first two or three elements; the
parser only builds bodies of length two or three, for which that is the identity.) -/
def PRule.negate : PRule → PRule
  | .and _ body => .or false (negateList body)
  | .or _ body => .and false (negateList body)
  | .cond neg body => .cond (!neg) body
  | .nested neg parent child path value => .nested (!neg) parent child path value
  | .atom neg var path a => .atom (!neg) var path a
  | .top name level cls var neg me mv value => .top name level cls var (!neg) me mv value
def negateList : List PRule → List PRule
  | [] => []
  | r :: rs => r.negate :: negateList rs
end

/-! ## Variables, paths, messages -/

/-- `VarGenerator.GenExpressionVar(ForAll, nil)` when the counter is `c` (the new counter is `c + 1`) -/
def genVar (c : Nat) : Var := { name := Ident.varName Gen.varLetters c }

/-- the replacer of `ParsePath`: `\r\n`, `\n`, `\r`, `\t` each become one space -/
def oneLine : List Char → List Char
  | [] => []
  | '\r' :: '\n' :: r => ' ' :: oneLine r
  | c :: r => (if c == '\n' || c == '\r' || c == '\t' then ' ' else c) :: oneLine r

def nullPath : PPath := { dump := "null", source := "" }

/-- `path.ParsePath` -/
def parsePathS (s : String) : Except String PPath :=
  if s == "" then .ok nullPath
  else match parsePath Gen.pathGrammarGo s.toList with
    | some p => .ok { dump := String.ofList (dumpPath p), source := String.ofList (oneLine s.toList) }
    | none => .error "invalid property path"

/-- `ParseMessageExpression`: (format string, variables) -/
def parseMsg (raw : String) : String × List String :=
  let (segs, vars) := Msg.parseMessage raw.toList
  if vars.isEmpty then (raw, []) else (String.ofList (fmtString segs), vars.map String.ofList)

/-! ## Constraints -/

/-- result of a parsing function that may allocate variables: the value and the new counter -/
abbrev Res (α : Type) := Except String (α × Nat)

/-- the recursive call: `parseExpressionValue(variable, data, generator)` -/
abbrev Rec := String → Y → Nat → Res PRule

def unsupportedFloat : String := "unsupported:float"

/-- `stringifyNode` -/
def stringifyNode (n : Y) : Except String String :=
  match str? (some n) with
  | some s => .ok s
  | none =>
    match int? (some n) with
    | some i => .ok (toString i)
    | none =>
      match floatText? (some n) with
      | some _ => .error unsupportedFloat
      | none =>
        match bool? (some n) with
        | some b => .ok (if b then "true" else "false")
        | none => .error "expected scalars"

/-- `scalarList` -/
def scalarList : List Y → Except String (List String)
  | [] => .ok []
  | n :: ns =>
    match stringifyNode n with
    | .error e => .error e
    | .ok s =>
      match scalarList ns with
      | .error e => .error e
      | .ok ss => .ok (s :: ss)

/-- `ParseRego` -/
def parseRego (code : Option Y) (var : String) (path : PPath) : Except String PRule :=
  let direct := (str? code).getD ""
  if isMap code then
    match str? (oget code "code") with
    | none => .error "type assertion to string failed"
    | some s =>
      .ok (.atom false var path (.rego ((str? (oget code "message")).getD "Violation in native Rego constraint") s))
  else .ok (.atom false var path (.rego "Violation in native Rego constraint" direct))

/-- `parseNestedExpression`: the child variable is allocated BEFORE the inner expression is parsed -/
def parseNested (rec : Rec) (data : Y) (var : String) (path : PPath) (c : Nat) : Res PRule :=
  match rec (genVar c).name data (c + 1) with
  | .error e => .error e
  | .ok (value, c') => .ok (.nested false var (genVar c) path value, c')

/-- `parseQualifiedNestedExpression` -/
def parseQualified (rec : Rec) (q : Option Y) (var : String) (path : PPath) (op : CmpOp) (c : Nat) : Res PRule :=
  match int? (oget q "count") with
  | none => .error "count"
  | some count =>
    match oget q "validation" with
    | some (.map es) =>
      match rec (genVar c).name (.map es) (c + 1) with
      | .error e => .error e
      | .ok (value, c') =>
        .ok (.nested false var { genVar c with quant := .ex, card := some ⟨op, count⟩ } path value, c')
    | _ => .error "map containing a validation is required in qualified atLeast/atMost constraint"

/-- one block of `ParseConstraint`: the rules it appends and the new counter -/
abbrev Step := Rec → PPath → String → Y → Nat → Res (List PRule)

/-- a block that allocates no variable -/
def pureStep (f : PPath → String → Y → Except String (List PRule)) : Step :=
  fun _ path var cons c =>
    match f path var cons with
    | .error e => .error e
    | .ok rs => .ok (rs, c)

def countStep (key : String) (qualifier target : Nat) : Step :=
  pureStep fun path var cons =>
    match int? (cons.get (key)) with
    | some n => .ok [.atom false var path (.count key qualifier target n)]
    | none => .ok []

def patternStep : Step :=
  pureStep fun path var cons =>
    match str? (cons.get "pattern") with
    | some p => .ok [.atom false var path (.pattern p)]
    | none => .ok []

def setStep (key : String) (criteria : Nat) : Step :=
  pureStep fun path var cons =>
    match arr? (cons.get key) with
    | some items =>
      match scalarList items with
      | .error e => .error e
      | .ok l => .ok [.atom false var path (.set key criteria l)]
    | none => .ok []

def uniqueStep : Step :=
  pureStep fun path var cons =>
    match bool? (cons.get "uniqueValues") with
    | some b => .ok [.atom false var path (.unique b)]
    | none => .ok []

def propStep (key name : String) (op : CmpOp) : Step :=
  pureStep fun path var cons =>
    match str? (cons.get key) with
    | some other =>
      match parsePathS other with
      | .error e => .error e
      | .ok p => .ok [.atom false var path (.propcmp name op p)]
    | none => .ok []

def qualifiedStep (key : String) (op : CmpOp) : Step :=
  fun rec path var cons c =>
    match cons.get key with
    | some q =>
      match parseQualified rec (some q) var path op c with
      | .error e => .error e
      | .ok (r, c') => .ok ([r], c')
    | none => .ok ([], c)

def numericStep (key : String) (op : CmpOp) : Step :=
  pureStep fun path var cons =>
    match cons.get key with
    | some n =>
      match int? (some n) with
      | some i => .ok [.atom false var path (.numeric key op (.int i))]
      | none =>
        match floatText? (some n) with
        | some t => .ok [.atom false var path (.numeric key op (.float t))]
        | none => .error "expected float or int argument for numeric comparison"
    | none => .ok []

def datatypeStep : Step :=
  pureStep fun path var cons =>
    match cons.get "datatype" with
    | some n =>
      match str? (some n) with
      | some dt => .ok [.atom false var path (.datatype dt)]
      | none => .error "type assertion to string failed"
    | none => .ok []

def nestedStep : Step :=
  fun rec path var cons c =>
    match cons.get "nested" with
    | some (.map es) =>
      match parseNested rec (.map es) var path c with
      | .error e => .error e
      | .ok (r, c') => .ok ([r], c')
    | _ => .ok ([], c)

def regoStep (key : String) : Step :=
  pureStep fun path var cons =>
    match cons.get key with
    | some code =>
      match parseRego (some code) var path with
      | .error e => .error e
      | .ok r => .ok [r]
    | none => .ok []

/-- the FIXED order in which `ParseConstraint` looks at the constraint kinds -/
def constraintSteps : List Step := [
  countStep "minCount" 0 1, countStep "maxCount" 1 1, countStep "exactCount" 2 1,
  countStep "minLength" 0 0, countStep "maxLength" 1 0, countStep "exactLength" 2 0,
  patternStep,
  setStep "in" 0,
  uniqueStep,
  setStep "containsAll" 1, setStep "containsSome" 2,
  propStep "lessThanProperty" "lessThan" .lt,
  propStep "lessThanOrEqualsToProperty" "lessThanOrEqualsTo" .le,
  propStep "equalsToProperty" "equalsTo" .eq,
  propStep "disjointWithProperty" "disjointWith" .ne,
  propStep "moreThanProperty" "moreThan" .gt,
  propStep "moreThanOrEqualsToProperty" "moreThanOrEqualsTo" .ge,
  qualifiedStep "atLeast" .ge, qualifiedStep "atMost" .le, qualifiedStep "exactly" .eq,
  numericStep "minInclusive" .ge, numericStep "minExclusive" .gt,
  numericStep "maxInclusive" .le, numericStep "maxExclusive" .lt,
  datatypeStep,
  nestedStep,
  regoStep "rego", regoStep "regoModule"]

def runSteps (rec : Rec) (path : PPath) (var : String) (cons : Y) : List Step → Nat → Res (List PRule)
  | [], c => .ok ([], c)
  | s :: ss, c =>
    match s rec path var cons c with
    | .error e => .error e
    | .ok (a, c1) =>
      match runSteps rec path var cons ss c1 with
      | .error e => .error e
      | .ok (b, c2) => .ok (a ++ b, c2)

/-- `ParseConstraint` -/
def parseConstraint (rec : Rec) (path : PPath) (var : String) (cons : Y) (c : Nat) : Res (List PRule) :=
  runSteps rec path var cons constraintSteps c

/-- the loop of `parseImplicitAnd` over the keys of `propertyConstraints` -/
def implicitAndLoop (rec : Rec) (data : Option Y) (var : String) : List String → Nat → Res (List PRule)
  | [], c => .ok ([], c)
  | k :: ks, c =>
    match parsePathS k with
    | .error e => .error e
    | .ok path =>
      match oget data k with
      | some (.map es) =>
        match parseConstraint rec path var (.map es) c with
        | .error e => .error e
        | .ok (a, c1) =>
          match implicitAndLoop rec data var ks c1 with
          | .error e => .error e
          | .ok (b, c2) => .ok (a ++ b, c2)
      | _ => .error "PropertyConstraint must be a map"

/-- `parseImplicitAnd` (a `propertyConstraints` that is not a mapping has no keys: an empty conjunction) -/
def parseImplicitAnd (rec : Rec) (data : Option Y) (var : String) (c : Nat) : Res PRule :=
  match implicitAndLoop rec data var (mapKeys data) c with
  | .error e => .error e
  | .ok (body, c') => .ok (.and false body, c')

/-- the loop of `parseAnd` / `parseOr` -/
def parseItems (rec : Rec) (var : String) : List Y → Nat → Res (List PRule)
  | [], c => .ok ([], c)
  | .map es :: ns, c =>
    match rec var (.map es) c with
    | .error e => .error e
    | .ok (r, c1) =>
      match parseItems rec var ns c1 with
      | .error e => .error e
      | .ok (rs, c2) => .ok (r :: rs, c2)
  | _ :: _, _ => .error "not found expected map for and/or constraint element"

/-- `parseConditional` -/
def parseConditional (rec : Rec) (var : String) (i t : Y) (e : Option Y) (c : Nat) : Res PRule :=
  match rec var i c with
  | .error err => .error err
  | .ok (ri, c1) =>
    match rec var t c1 with
    | .error err => .error err
    | .ok (rt, c2) =>
      match e with
      | some e =>
        match rec var e c2 with
        | .error err => .error err
        | .ok (re, c3) => .ok (.cond false [ri, rt, re], c3)
      | none => .ok (.cond false [ri, rt], c2)

/-- body of `parseExpressionValue`; `g` is `data.Get` -/
def pevCore (rec : Rec) (var : String) (g : String → Option Y) (c : Nat) : Res PRule :=
  match g "propertyConstraints" with
  | some v => parseImplicitAnd rec (some v) var c
  | none =>
  match g "rego" with
  | some code => (parseRego (some code) var nullPath).map (fun r => (r, c))
  | none =>
  match g "regoModule" with
  | some code => (parseRego (some code) var nullPath).map (fun r => (r, c))
  | none =>
  match g "and" with
  | some a =>
    match a with
    | .seq items => (parseItems rec var items c).map (fun p => (.and false p.1, p.2))
    | _ => .error "and constraint must be a list"
  | none =>
  match g "or" with
  | some o =>
    match o with
    | .seq items => (parseItems rec var items c).map (fun p => (.or false p.1, p.2))
    | _ => .error "or constraint must be a list"
  | none =>
  match g "not" with
  | some n =>
    match n with
    | .map es => (rec var (.map es) c).map (fun p => (p.1.negate, p.2))
    | _ => .error "not constraint must be a mpa"
  | none =>
  match g "if" with
  | some i =>
    match g "then" with
    | some t => parseConditional rec var i t (g "else") c
    | none => .error "Found if clause without then statement"
  | none => .error "unknown expression node, cannot find properties to parse"

/-- `parseExpressionValue` with a recursion budget -/
def pev : Nat → Rec
  | 0 => fun _ _ _ => .error "fuel"
  | f + 1 => fun var data c => pevCore (pev f) var data.get c

/-- `ParseExpression`: a top-level validation; the generator is new, so the top-level variable is number 0 -/
def parseExpression (fuel : Nat) (name : String) (data : Y) (level : String) : Except String PRule :=
  match str? (data.get "targetClass") with
  | none => .error "missing targetClass in validation definition"
  | some cls =>
    let msg := parseMsg ((str? (data.get "message")).getD "Validation error")
    match pev fuel (genVar 0).name data 1 with
    | .error e => .error e
    | .ok (value, _) => .ok (.top name level cls (genVar 0) false msg.1 msg.2 value)

/-! ## Profile -/

structure Profile where
  name : String
  description : Option String
  customRego : Option String
  prefixes : List (String × String)
  violation : List PRule
  warning : List PRule
  info : List PRule
deriving Repr, Inhabited

/-- the loop of `parseValidationLevel` over the listed names -/
def levelLoop (fuel : Nat) (level : String) (validations : Y) : List Y → Except String (List PRule)
  | [] => .ok []
  | n :: ns =>
    match str? (some n) with
    | none => levelLoop fuel level validations ns
    | some name =>
      match validations.get name with
      | none => levelLoop fuel level validations ns
      | some v =>
        match parseExpression fuel name v level with
        | .error e => .error e
        | .ok r =>
          match levelLoop fuel level validations ns with
          | .error e => .error e
          | .ok rs => .ok (r :: rs)

/-- `parseValidationLevel` -/
def parseLevel (fuel : Nat) (level : String) (doc validations : Y) : Except String (List PRule) :=
  match arr? (doc.get level) with
  | none => .ok []
  | some names => levelLoop fuel level validations names

/-- the loop of `ParsePrefixes` -/
def prefixLoop (p : Y) : List String → Except String (List (String × String))
  | [] => .ok []
  | k :: ks =>
    match str? (p.get k) with
    | none => .error "type assertion to string failed"
    | some v =>
      match prefixLoop p ks with
      | .error e => .error e
      | .ok rest => .ok ((k, v) :: rest)

/-- `ParsePrefixes` (the keys of `GetMapKeys` are distinct, so the association list is a map) -/
def parsePrefixes (p : Y) : Except String (List (String × String)) :=
  if isMap (some p) then prefixLoop p (mapKeys (some p)) else .error "context must be a map"

/-- `profile.Parse` with an explicit recursion budget -/
def parseProfileWith (fuel : Nat) (doc : Y) : Except String Profile :=
  match doc with
  | .map _ =>
    match str? (doc.get "profile") with
    | none => .error "type assertion to string failed"
    | some name =>
      match (match doc.get "prefixes" with
             | some p => parsePrefixes p
             | none => .ok []) with
      | .error e => .error e
      | .ok prefixes =>
        match doc.get "validations" with
        | some (.map vs) =>
          match parseLevel fuel "violation" doc (.map vs) with
          | .error e => .error e
          | .ok violation =>
            match parseLevel fuel "warning" doc (.map vs) with
            | .error e => .error e
            | .ok warning =>
              match parseLevel fuel "info" doc (.map vs) with
              | .error e => .error e
              | .ok info =>
                .ok { name, description := str? (doc.get "description"),
                      customRego := str? (doc.get "rego_extensions"), prefixes, violation, warning, info }
        | _ => .error "validations must be a map of validations"
  | _ => .error "expected map at profile YAML document"

/-- `profile.Parse` -/
def parseProfile (doc : Y) : Except String Profile := parseProfileWith doc.depth doc

end Acv.PP
