/-!
# `pkg/milestones`: the library's own consumer of the progress events

`GenerateMilestonesFromEvents(eventChan, milestoneChan)` ranges over the event channel with a map
`startEvents : EventType → Event`; a Start event is stored under its own type, a Done event sends
`generateMilestone(Operation, startEvents[its Start], event)`, every other event type falls through the
`switch` without effect; after the loop the milestone channel is closed.

The model is a fold over the list of events the channel delivered, DRIVEN BY A TABLE that the translator
regenerates from the Go source on every run (`Acv/Gen/Pipeline.lean`: which constants are stored as starts,
which Done reads which Start; `Acv/Gen/Milestones.lean`: the Operation of each Done case and the two field
expressions of `generateMilestone`).

Time: an event carries an integer (nanoseconds relative to a fixed instant). A Done whose Start was never
stored reads Go's zero `Event` from the map: its `Time` is the zero `time.Time` (year 1), which is not an
instant of the run; the model says `start = none` there, and a duration computed from it is `none` as well
(in Go `Sub` saturates to ±2^63-1 ns for such a distance). `Int` subtraction is exact; Go's `Duration`
saturates at about 292 years, the model assumes event times closer to each other than that.
-/
namespace Acv.Ms

structure Event where
  ty : Nat          -- numeric value of the `events.EventType` constant
  time : Int
deriving DecidableEq, Repr

structure Milestone where
  op : String
  start : Option Int       -- `none`: Go's zero time (no Start had been stored)
  duration : Option Int    -- `none`: computed from a zero time
deriving DecidableEq, Repr

/-- what the translator can read in a field of the `Milestone` literal of `generateMilestone(operation, start, end)` -/
inductive TimeExpr
  | startTime        -- `start.Time`
  | endTime          -- `end.Time`
  | endMinusStart    -- `end.Time.Sub(start.Time)`
  | startMinusEnd    -- `start.Time.Sub(end.Time)`
  | zero             -- `end.Time.Sub(end.Time)` / `start.Time.Sub(start.Time)`
  | unknown          -- anything else
deriving DecidableEq, Repr

structure Table where
  starts : List Nat            -- event types stored in `startEvents`
  dones : List (Nat × Nat)     -- (Done type, the Start type whose stored event it reads)
  ops : List (Nat × String)    -- (Done type, Operation string of its milestone)
  startField : TimeExpr        -- the `Start:` field of the literal
  durationField : TimeExpr     -- the `Duration:` field of the literal
deriving Repr

def TimeExpr.eval (x : TimeExpr) (start : Option Int) (stop : Int) : Option Int :=
  match x with
  | .startTime => start
  | .endTime => some stop
  | .endMinusStart => start.map (fun s => stop - s)
  | .startMinusEnd => start.map (fun s => s - stop)
  | .zero => some 0
  | .unknown => none

/-- the map `startEvents`, newest binding first (only the time of a stored event is ever read) -/
abbrev Stored := List (Nat × Int)

def lookup (m : Stored) (k : Nat) : Option Int := (m.find? (fun p => p.1 == k)).map (·.2)

def Table.isStart (T : Table) (ty : Nat) : Bool := T.starts.contains ty

/-- the `case` of a Done type (the Start case comes first in the `switch`, so it wins) -/
def Table.doneCase (T : Table) (ty : Nat) : Option (Nat × Nat) :=
  if T.isStart ty then none else T.dones.find? (fun d => d.1 == ty)

def Table.isDone (T : Table) (ty : Nat) : Bool := (T.doneCase ty).isSome

def Table.opOf (T : Table) (ty : Nat) : String :=
  match T.ops.find? (fun p => p.1 == ty) with
  | some p => p.2
  | none => ""

/-- `generateMilestone(op, start, end)` -/
def Table.generate (T : Table) (op : String) (start : Option Int) (stop : Int) : Milestone :=
  ⟨op, T.startField.eval start stop, T.durationField.eval start stop⟩

/-- the body of the `for event := range *eventChan` loop, folded over the delivered events -/
def milestonesFrom (T : Table) : Stored → List Event → List Milestone
  | _, [] => []
  | stored, e :: es =>
    if T.isStart e.ty then milestonesFrom T ((e.ty, e.time) :: stored) es
    else match T.dones.find? (fun d => d.1 == e.ty) with
      | some d => T.generate (T.opOf e.ty) (lookup stored d.2) e.time :: milestonesFrom T stored es
      | none => milestonesFrom T stored es           -- not a case of the switch: ignored

def milestones (T : Table) (es : List Event) : List Milestone := milestonesFrom T [] es

end Acv.Ms
