/-!
# Quoting user strings into Rego source, and printf-escaping of template text

`quoteChars` / `quote` transliterate the Go function `RegoString` (code point by code point; a Lean `String`
is always valid Unicode, which matches Go's `range s` after it has replaced invalid bytes by U+FFFD).

`lexString` is the reader's side: the lexer of Rego / JSON string literals.

`escPct`, `fmtString`, `sprintfModel`, `interleave` model "escape `%` in the literal template text, join the
pieces with `%v`, hand the result to `fmt.Sprintf`".

Core library only; everything is structurally recursive, total and computable.
-/
namespace Acv

/-! ## Writer: `RegoString` -/

/-- One lowercase hexadecimal digit (`n < 16`). -/
def hexDigit (n : Nat) : Char :=
  if n < 10 then Char.ofNat (48 + n) else Char.ofNat (87 + n)

/-- `%04x` for `n < 65536`: four lowercase hex digits, most significant first. -/
def toHex4 (n : Nat) : List Char :=
  [hexDigit (n / 4096 % 16), hexDigit (n / 256 % 16), hexDigit (n / 16 % 16), hexDigit (n % 16)]

/-- The `case r < 0x20 || r == 0x7f || r == 0x2028 || r == 0x2029 || r == 0xfeff` guard of `RegoString`. -/
def needsU (c : Char) : Bool :=
  decide (c.toNat < 0x20) || c.toNat == 0x7f || c.toNat == 0x2028 || c.toNat == 0x2029 || c.toNat == 0xfeff

/-- The body of the `switch` in `RegoString`, in the order of its cases. -/
def quoteChar (c : Char) : List Char :=
  if c = '"' then ['\\', '"']
  else if c = '\\' then ['\\', '\\']
  else if c = '\n' then ['\\', 'n']
  else if c = '\r' then ['\\', 'r']
  else if c = '\t' then ['\\', 't']
  else if needsU c then '\\' :: 'u' :: toHex4 c.toNat
  else [c]

/-- The text between the two delimiting quotes. -/
def quoteBody (s : List Char) : List Char := s.flatMap quoteChar

/-- `RegoString` on code point lists. -/
def quoteChars (s : List Char) : List Char := '"' :: (quoteBody s ++ ['"'])

/-- `RegoString`. -/
def quote (s : String) : String := String.ofList (quoteChars s.toList)

/-! ## Reader: the string-literal lexer -/

/-- Value of one hexadecimal digit, either case. -/
def hexVal (c : Char) : Option Nat :=
  let n := c.toNat
  if 48 ≤ n ∧ n ≤ 57 then some (n - 48)
  else if 97 ≤ n ∧ n ≤ 102 then some (n - 87)
  else if 65 ≤ n ∧ n ≤ 70 then some (n - 55)
  else none

/-- Exactly four hex digits. -/
def parseHex4 (a b c d : Char) : Option Nat :=
  match hexVal a, hexVal b, hexVal c, hexVal d with
  | some x, some y, some z, some w => some (x * 4096 + y * 256 + z * 16 + w)
  | _, _, _, _ => none

/-- The single-character escapes `\" \\ \/ \b \f \n \r \t`. -/
def unescape1 (e : Char) : Option Char :=
  if e = '"' then some '"'
  else if e = '\\' then some '\\'
  else if e = '/' then some '/'
  else if e = 'b' then some (Char.ofNat 8)
  else if e = 'f' then some (Char.ofNat 12)
  else if e = 'n' then some '\n'
  else if e = 'r' then some '\r'
  else if e = 't' then some '\t'
  else none

/-- Put a decoded character in front of the decoded rest. -/
def consDecoded (c : Char) : Option (List Char × List Char) → Option (List Char × List Char)
  | none => none
  | some (cs, rest) => some (c :: cs, rest)

/-- Reads the inside of a literal (the opening quote has been consumed) up to and including the closing
unescaped quote.  Returns the decoded characters and the input after the closing quote.
`none`: missing closing quote, raw control character, raw byte-order mark (the engine's scanner refuses U+FEFF
anywhere but at offset 0: "illegal byte-order mark"), unknown escape, bad `\u` escape. -/
def lexBody : List Char → Option (List Char × List Char)
  | [] => none
  | c :: rest =>
    if c = '"' then some ([], rest)
    else if c = '\\' then
      match rest with
      | [] => none
      | e :: rest1 =>
        if e = 'u' then
          match rest1 with
          | h1 :: h2 :: h3 :: h4 :: rest2 =>
            match parseHex4 h1 h2 h3 h4 with
            | none => none
            | some n =>
              if n.isValidChar then consDecoded (Char.ofNat n) (lexBody rest2) else none
          | _ => none
        else
          match unescape1 e with
          | none => none
          | some ch => consDecoded ch (lexBody rest1)
    else if c.toNat < 0x20 then none
    else if c.toNat = 0xfeff then none
    else consDecoded c (lexBody rest)

/-- Lexer of a Rego / JSON string literal: the input must start with `"`. -/
def lexString : List Char → Option (List Char × List Char)
  | [] => none
  | c :: rest => if c = '"' then lexBody rest else none

/-- Scanner that looks for a quote that is not the second character of a backslash pair. -/
def noBareQuote : List Char → Bool
  | [] => true
  | c :: rest =>
    if c = '\\' then
      match rest with
      | [] => true
      | _ :: rest1 => noBareQuote rest1
    else if c = '"' then false
    else noBareQuote rest

/-! ## printf-escaping -/

/-- `strings.ReplaceAll(s, "%", "%%")`. -/
def escPct : List Char → List Char
  | [] => []
  | c :: rest => if c = '%' then '%' :: '%' :: escPct rest else c :: escPct rest

/-- Escaped literal segments joined by the verb `%v`. -/
def fmtString : List (List Char) → List Char
  | [] => []
  | [s] => escPct s
  | s :: t => escPct s ++ '%' :: 'v' :: fmtString t

/-- `fmt.Sprintf` restricted to `%%` and `%v`. -/
def sprintfModel : List Char → List (List Char) → List Char
  | [], [] => []
  | [], _ :: _ => ['%', '!', '(', 'E', 'X', 'T', 'R', 'A', ')']
  | c :: rest, args =>
    if c = '%' then
      match rest with
      | [] => ['%', '!', '(', 'N', 'O', 'V', 'E', 'R', 'B', ')']
      | v :: rest1 =>
        if v = '%' then '%' :: sprintfModel rest1 args
        else if v = 'v' then
          match args with
          | [] => ['%', '!', 'v', '(', 'M', 'I', 'S', 'S', 'I', 'N', 'G', ')'] ++ sprintfModel rest1 []
          | a :: as => a ++ sprintfModel rest1 as
        else '%' :: '!' :: v :: sprintfModel rest1 args
    else c :: sprintfModel rest args

/-- `s0 ++ a0 ++ s1 ++ a1 ++ ... ++ sn`. -/
def interleave : List (List Char) → List (List Char) → List Char
  | [], _ => []
  | s :: _, [] => s
  | s :: ss, a :: as => s ++ a ++ interleave ss as

end Acv
