/-!
# Control-flow skeleton of the validation pipeline

`Stmt` is the tiny language into which the translator (`acvh extract`) renders the bodies of
`Validate*`, `ValidateCompiled*`, `ProcessProfile`, `GenerateRego`, `CompileRego`, `ProcessInput`,
`executeValidation`, `processResult` and `pkg.CompileProfile`.  `exec` is its semantics for a given
outcome of every step that leaves our code (`ext`).
-/
namespace Acv.Pipe

inductive Outcome | ok | err | panic
deriving DecidableEq, Repr, Inhabited

/-- pipeline events, in the order of `pkg/events/events.go` is NOT assumed: they are just numbered -/
abbrev Ev := Nat

inductive Obs
  | event (e : Ev)
  | close
deriving DecidableEq, Repr

inductive Callee
  | fn (id : Nat)       -- one of the translated functions
  | ext (id : Nat)      -- a step outside the skeleton (parser, generator, OPA, json, json-gold, report builder)
deriving DecidableEq, Repr

inductive Stmt
  | emit (e : Ev)                 -- dispatchEvent(e.NewEvent(e.X), ch)
  | close                         -- CloseEventChan(ch)
  | bind (c : Callee) (setsErr : Bool) -- `x, err := f(..)` (setsErr) / `x := f(..)`; the outcome goes to the `err` register
  | ifErr (body : List Stmt)      -- `if err != nil { body }`
  | retLast                       -- `return x, err`
  | retOk                         -- `return x, nil`
  | retFail                       -- `return zero, errors.New(..)`
  | tail (c : Callee)             -- `return f(..)`
  | recoverGuard                  -- `defer func() { if r := recover(); r != nil { err = .. } }()`
  | skip                          -- a statement without effect on events, errors or control
  | opaque                        -- a statement the translator could not read
deriving Repr

structure Prog where
  funs : List (List Stmt)        -- function id ↦ body
  deriving Repr

/-- state of one function activation -/
structure Frame where
  err : Outcome := .ok           -- the `err` variable
  guarded : Bool := false        -- a recover guard is installed

/-- result of running statements: `none` = fell off the end / continue, `some o` = returned with o -/
abbrev Trace := List Obs

mutual
/-- run function `f` with fuel (a bound on the number of interpreter steps); returns the observations and
the outcome the CALLER sees.  A panic that escapes a function propagates as `.panic` unless a guard
converts it to `.err`.  Running out of fuel reads as `.panic` (never happens for the fuel `run` supplies). -/
def runFn (p : Prog) (o : Nat → Outcome) : Nat → Nat → Trace × Outcome
  | 0, _ => ([], .panic)
  | fuel+1, f =>
    match p.funs[f]? with
    | none => ([], .panic)
    | some body =>
      let (tr, res, fr) := runBody p o fuel body {}
      match res with
      | some .panic => (tr, if fr.guarded then .err else .panic)
      | some r => (tr, r)
      | none => (tr, .panic)       -- fell off the end of a function that must return: unreadable
def runCallee (p : Prog) (o : Nat → Outcome) : Nat → Callee → Trace × Outcome
  | 0, _ => ([], .panic)
  | fuel+1, .fn f => runFn p o fuel f
  | _+1, .ext x => ([], o x)
def runBody (p : Prog) (o : Nat → Outcome) : Nat → List Stmt → Frame → Trace × Option Outcome × Frame
  | 0, _, fr => ([], some .panic, fr)
  | _+1, [], fr => ([], none, fr)
  | fuel+1, s :: rest, fr =>
    match s with
    | .emit e =>
        let (tr, r, fr') := runBody p o fuel rest fr
        (Obs.event e :: tr, r, fr')
    | .close =>
        let (tr, r, fr') := runBody p o fuel rest fr
        (Obs.close :: tr, r, fr')
    | .bind c setsErr =>
        let (t1, out) := runCallee p o fuel c
        match out with
        | .panic => (t1, some .panic, fr)
        | out =>
          let (tr, r, fr') := runBody p o fuel rest (if setsErr then { fr with err := out } else fr)
          (t1 ++ tr, r, fr')
    | .ifErr body =>
        if fr.err = .err then
          let (t1, r1, fr1) := runBody p o fuel body fr
          match r1 with
          | some r => (t1, some r, fr1)
          | none =>
            let (tr, r, fr') := runBody p o fuel rest fr1
            (t1 ++ tr, r, fr')
        else runBody p o fuel rest fr
    | .retLast => ([], some fr.err, fr)
    | .retOk => ([], some .ok, fr)
    | .retFail => ([], some .err, fr)
    | .tail c =>
        let (t1, out) := runCallee p o fuel c
        (t1, some out, fr)
    | .recoverGuard => runBody p o fuel rest { fr with guarded := true }
    | .skip => runBody p o fuel rest fr
    | .opaque => ([], some .panic, fr)
end

/-! ## every behaviour at once

`runFnAll` explores EVERY outcome of every external step as it is reached (each call of an external
step may succeed, return an error or — if `canErr` says it has no error result — only succeed, and may
always panic).  The result lists all (observations, outcome) pairs the function can produce. -/

def outcomesOf (canErr : List Bool) (x : Nat) : List Outcome :=
  if canErr.getD x true then [.ok, .err, .panic] else [.ok, .panic]

mutual
def runFnAll (p : Prog) (ce : List Bool) : Nat → Nat → List (Trace × Outcome)
  | 0, _ => [([], .panic)]
  | fuel+1, f =>
    match p.funs[f]? with
    | none => [([], .panic)]
    | some body =>
      (runBodyAll p ce fuel body {}).map fun (tr, res, fr) =>
        match res with
        | some .panic => (tr, if fr.guarded then .err else .panic)
        | some r => (tr, r)
        | none => (tr, .panic)
def runCalleeAll (p : Prog) (ce : List Bool) : Nat → Callee → List (Trace × Outcome)
  | 0, _ => [([], .panic)]
  | fuel+1, .fn f => runFnAll p ce fuel f
  | _+1, .ext x => (outcomesOf ce x).map fun o => ([], o)
def runBodyAll (p : Prog) (ce : List Bool) : Nat → List Stmt → Frame → List (Trace × Option Outcome × Frame)
  | 0, _, fr => [([], some .panic, fr)]
  | _+1, [], fr => [([], none, fr)]
  | fuel+1, s :: rest, fr =>
    match s with
    | .emit e => (runBodyAll p ce fuel rest fr).map fun (tr, r, fr') => (Obs.event e :: tr, r, fr')
    | .close => (runBodyAll p ce fuel rest fr).map fun (tr, r, fr') => (Obs.close :: tr, r, fr')
    | .bind c setsErr =>
        (runCalleeAll p ce fuel c).flatMap fun (t1, out) =>
          match out with
          | .panic => [(t1, some .panic, fr)]
          | out =>
            (runBodyAll p ce fuel rest (if setsErr then { fr with err := out } else fr)).map
              fun (tr, r, fr') => (t1 ++ tr, r, fr')
    | .ifErr body =>
        if fr.err = .err then
          (runBodyAll p ce fuel body fr).flatMap fun (t1, r1, fr1) =>
            match r1 with
            | some r => [(t1, some r, fr1)]
            | none => (runBodyAll p ce fuel rest fr1).map fun (tr, r, fr') => (t1 ++ tr, r, fr')
        else runBodyAll p ce fuel rest fr
    | .retLast => [([], some fr.err, fr)]
    | .retOk => [([], some .ok, fr)]
    | .retFail => [([], some .err, fr)]
    | .tail c => (runCalleeAll p ce fuel c).map fun (t1, out) => (t1, some out, fr)
    | .recoverGuard => runBodyAll p ce fuel rest { fr with guarded := true }
    | .skip => runBodyAll p ce fuel rest fr
    | .opaque => [([], some .panic, fr)]
end

/-- all behaviours of an entry point -/
def runAll (p : Prog) (ce : List Bool) (entry : Nat) : List (Trace × Outcome) :=
  runFnAll p ce 200 entry

/-- run an entry point -/
def run (p : Prog) (o : Nat → Outcome) (entry : Nat) : Trace × Outcome :=
  runFn p o 200 entry

def events (t : Trace) : List Ev := t.filterMap (fun x => match x with | .event e => some e | .close => none)
def closeCount (t : Trace) : Nat := t.countP (fun x => x = Obs.close)

/-- `close` happens only as the last observation -/
def closeLast (t : Trace) : Bool :=
  match t.reverse with
  | [] => true
  | _ :: before => !before.contains Obs.close

/-- `l₁` is a prefix of `l₂` -/
def isPrefix : List Ev → List Ev → Bool
  | [], _ => true
  | _ :: _, [] => false
  | a :: as, b :: bs => a == b && isPrefix as bs

/-- all outcome assignments for `n` external steps; `canErr i = false` ⇒ step i only succeeds or panics -/
def oracles (canErr : List Bool) : List (List Outcome) :=
  match canErr with
  | [] => [[]]
  | c :: cs =>
    let rest := oracles cs
    (if c then [Outcome.ok, .err, .panic] else [Outcome.ok, .panic]).flatMap (fun x => rest.map (fun r => x :: r))

def asOracle (l : List Outcome) : Nat → Outcome := fun i => l.getD i .ok

end Acv.Pipe
