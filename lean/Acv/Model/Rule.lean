/-! scratch prototype: failure-DNF compilation of rules, mirroring internal/generator -/
namespace Dnf

abbrev AtomId := Nat
abbrev PathId := Nat


inductive Op | le | lt | eq | ne | gt | ge
deriving Repr, DecidableEq

def Op.eval : Op → Nat → Nat → Bool
  | .le, a, b => a ≤ b
  | .lt, a, b => a < b
  | .eq, a, b => a == b
  | .ne, a, b => a != b
  | .gt, a, b => a > b
  | .ge, a, b => a ≥ b

inductive Quant
  | all
  | card (op : Op) (k : Nat)
deriving Repr

inductive Rule
  | atom (neg : Bool) (a : AtomId)
  | and (body : List Rule)
  | or (body : List Rule)
  | cond (neg : Bool) (i t : Rule)
  | condE (neg : Bool) (i t e : Rule)
  | nested (neg : Bool) (p : PathId) (q : Quant) (inner : Rule)

mutual
def size : Rule → Nat
  | .atom _ _ => 1
  | .and b => 1 + sizeL b
  | .or b => 1 + sizeL b
  | .cond _ i t => 2 + size i + size t
  | .condE _ i t e => 3 + 2 * size i + size t + size e
  | .nested _ _ _ r => 1 + size r
def sizeL : List Rule → Nat
  | [] => 0
  | r :: rs => size r + sizeL rs
end

mutual
/-- mirrors the `Negate()` methods -/
def negate : Rule → Rule
  | .atom n a => .atom (!n) a
  | .and b => .or (negateL b)
  | .or b => .and (negateL b)
  | .cond n i t => .cond (!n) i t
  | .condE n i t e => .condE (!n) i t e
  | .nested n p q r => .nested (!n) p q r
def negateL : List Rule → List Rule
  | [] => []
  | r :: rs => negate r :: negateL rs
end

mutual
theorem size_negate : ∀ r, size (negate r) = size r
  | .atom _ _ => by simp [negate, size]
  | .and b => by simp [negate, size, sizeL_negateL b]
  | .or b => by simp [negate, size, sizeL_negateL b]
  | .cond _ _ _ => by simp [negate, size]
  | .condE _ _ _ _ => by simp [negate, size]
  | .nested _ _ _ _ => by simp [negate, size]
theorem sizeL_negateL : ∀ b, sizeL (negateL b) = sizeL b
  | [] => by simp [negateL, sizeL]
  | r :: rs => by simp [negateL, sizeL, size_negate r, sizeL_negateL rs]
end

theorem size_pos : ∀ r, 0 < size r := by
  intro r; cases r <;> simp [size] <;> omega

/-- one literal of a failure branch (a `SimpleRegoResult`) -/
inductive SLit
  | atom (neg : Bool) (a : AtomId)
  | nested (neg : Bool) (p : PathId) (q : Quant) (inner : List (List SLit))

/-- `GeneratedRegoResult` -/
inductive Gen
  | simple (l : SLit)
  | branch (b : List SLit)

def Gen.toBranch : Gen → List SLit
  | .simple l => [l]
  | .branch b => b

def simples : List Gen → List SLit
  | [] => []
  | .simple l :: gs => l :: simples gs
  | .branch _ :: gs => simples gs

def branches : List Gen → List (List SLit)
  | [] => []
  | .simple _ :: gs => branches gs
  | .branch b :: gs => b :: branches gs

/-- `expandBranches` of or.go -/
def expandBranches (base : List SLit) (sets : List (List (List SLit))) : List (List SLit) :=
  sets.foldl (fun acc bs => bs.flatMap (fun b => acc.map (fun src => src ++ b))) [base]

mutual
def dispatch : Rule → List Gen
  | .atom n a => [.simple (.atom n a)]
  | .and b => (genAnd false b).map .branch
  | .or b => (genOr false b).map .branch
  | .cond n i t => (genOr n [negate i, t]).map .branch
  | .condE n i t e =>
      if n then
        -- ¬((i→t) ∧ (¬i→e))  =  (i ∧ ¬t) ∨ (¬i ∧ ¬e)   [fixed behaviour]
        (genOr false [.and [i, negate t], .and [negate i, negate e]]).map .branch
      else
        ((genOr false [negate i, t]) ++ (genOr false [i, e])).map .branch
  | .nested n p q r => [.branch [.nested n p q ((dispatch r).map Gen.toBranch)]]
termination_by r => 3 * size r - 1
decreasing_by
  all_goals simp_wf
  all_goals simp [size, sizeL, size_negate]
  all_goals (try split)
  all_goals omega

def genAnd (neg : Bool) (b : List Rule) : List (List SLit) :=
  if neg then genOr false (negateL b) else andBody b
termination_by 3 * sizeL b + 1 + (if neg then 1 else 0)
decreasing_by
  all_goals simp_wf
  all_goals simp_all [sizeL_negateL]

def genOr (neg : Bool) (b : List Rule) : List (List SLit) :=
  if neg then genAnd false (negateL b) else
    let all := orBody b
    expandBranches (all.flatMap simples) ((all.map branches).filter (fun s => !s.isEmpty))
termination_by 3 * sizeL b + 1 + (if neg then 1 else 0)
decreasing_by
  all_goals simp_wf
  all_goals simp_all [sizeL_negateL]

def andBody : List Rule → List (List SLit)
  | [] => []
  | r :: rs => (dispatch r).map Gen.toBranch ++ andBody rs
termination_by b => 3 * sizeL b
decreasing_by
  all_goals simp_wf
  all_goals simp [sizeL]
  all_goals (have := size_pos r; omega)

def orBody : List Rule → List (List Gen)
  | [] => []
  | r :: rs => dispatch r :: orBody rs
termination_by b => 3 * sizeL b
decreasing_by
  all_goals simp_wf
  all_goals simp [sizeL]
  all_goals (have := size_pos r; omega)
end

end Dnf

namespace Dnf
variable {N : Type}

structure Env (N : Type) where
  fail : Bool → AtomId → N → Bool
  kids : PathId → N → List N

def Classical (env : Env N) : Prop := ∀ a n, env.fail true a n = !env.fail false a n

def quantOK (q : Quant) (kids : List N) (pred : N → Bool) : Bool :=
  match q with
  | .all => kids.all pred
  | .card op k => op.eval (kids.countP pred) k

mutual
def holds (env : Env N) : Rule → N → Bool
  | .atom neg a, n => xor neg (!env.fail false a n)
  | .and b, n => allL env b n
  | .or b, n => anyL env b n
  | .cond neg i t, n => xor neg (!holds env i n || holds env t n)
  | .condE neg i t e, n =>
      xor neg ((!holds env i n || holds env t n) && (holds env i n || holds env e n))
  | .nested neg p q r, n => xor neg (quantOK q (env.kids p n) (fun c => holds env r c))
def allL (env : Env N) : List Rule → N → Bool
  | [], _ => true
  | r :: rs, n => holds env r n && allL env rs n
def anyL (env : Env N) : List Rule → N → Bool
  | [], _ => false
  | r :: rs, n => holds env r n || anyL env rs n
end

mutual
def litFails (env : Env N) : SLit → N → Bool
  | .atom neg a, n => env.fail neg a n
  | .nested neg p q inner, n =>
      let kids := env.kids p n
      let failed := kids.filter (fun c => dnfFires env inner c)
      match q with
      | .all => if neg then failed.length == 0 else decide (0 < failed.length)
      | .card op k =>
          let ok := op.eval (kids.length - failed.length) k
          if neg then ok else !ok
def dnfFires (env : Env N) : List (List SLit) → N → Bool
  | [], _ => false
  | b :: bs, n => brFires env b n || dnfFires env bs n
def brFires (env : Env N) : List SLit → N → Bool
  | [], _ => true
  | l :: ls, n => litFails env l n && brFires env ls n
end



end Dnf

