/-!
# The IRI expander (C15)

Transliteration of `IriExpander.Expand` / `expandCompactIri` (internal/misc/iri_expander.go) on code point
lists.

The regular expression `^[a-zA-Z-0-9_\-]+\.[\.(\\/)a-zA-Z-0-9_\-]+$`:
* class 1 (`isClass1`) = ASCII letters, digits, `-`, `_` (in `a-zA-Z-0-9` the `-` after `Z` is a literal
  hyphen: RE2's Perl-mode class parser reads `a-z`, `A-Z`, `-`, `0-9`);
* class 2 (`isClass2`) = class 1 plus `.`, `(`, `)`, `\`, `/`;
* the text is one or more class-1 characters, a dot, one or more class-2 characters, and nothing else.
  Class 1 does not contain the dot, so the first group is the longest class-1 prefix and the separator is
  the first character that is not in class 1 (`isCompact`).

`strings.SplitN(iri, ".", 2)` is `splitDot` (cut at the first dot); `strings.ReplaceAll(s, "\\/", "/")` is
`unescapeSlash` (left to right, non-overlapping).  The context is a `map[string]interface{}`; the model's
`ctx p = some ns` means "the key `p` is present and its value is the string `ns`" — a missing key and a
non-string value both take the `default:` branch of the type switch.
-/
namespace Acv.Iri

def isLetter (c : Char) : Bool :=
  decide (97 ≤ c.toNat ∧ c.toNat ≤ 122) || decide (65 ≤ c.toNat ∧ c.toNat ≤ 90)

def isDigit (c : Char) : Bool := decide (48 ≤ c.toNat ∧ c.toNat ≤ 57)

/-- `[a-zA-Z-0-9_\-]` -/
def isClass1 (c : Char) : Bool := isLetter c || isDigit c || c == '-' || c == '_'

/-- `[\.(\\/)a-zA-Z-0-9_\-]` -/
def isClass2 (c : Char) : Bool :=
  isClass1 c || c == '.' || c == '(' || c == ')' || c == '\\' || c == '/'

/-- `compactForm.MatchString(iri)` -/
def isCompact (iri : List Char) : Bool :=
  match iri.dropWhile isClass1 with
  | '.' :: suffix => !(iri.takeWhile isClass1).isEmpty && !suffix.isEmpty && suffix.all isClass2
  | _ => false

/-- `strings.SplitN(iri, ".", 2)` when the text contains a dot: (before the first dot, after it);
`none` when there is no dot (the Go slice has one element and `split[1]` would panic — unreachable, because
`expandCompactIri` is only called on compact IRIs). -/
def splitDot (iri : List Char) : Option (List Char × List Char) :=
  match iri.dropWhile (fun c => c != '.') with
  | _ :: suffix => some (iri.takeWhile (fun c => c != '.'), suffix)
  | [] => none

/-- `strings.ReplaceAll(s, "\\/", "/")` -/
def unescapeSlash : List Char → List Char
  | [] => []
  | [c] => [c]
  | c :: d :: rest =>
    if c = '\\' ∧ d = '/' then '/' :: unescapeSlash rest else c :: unescapeSlash (d :: rest)

inductive ExpandError
  /-- `IRI %s is not in compact form` -/
  | notCompact
  /-- `Term %s not present in context` -/
  | notInContext
  /-- `split[1]` out of range (unreachable) -/
  | panic
deriving DecidableEq, Repr

/-- decidable equality of results (so that examples can be checked by `decide`) -/
instance : DecidableEq (Except ExpandError (List Char))
  | .ok a, .ok b => if h : a = b then isTrue (h ▸ rfl) else isFalse (fun e => h (Except.ok.inj e))
  | .error a, .error b =>
    if h : a = b then isTrue (h ▸ rfl) else isFalse (fun e => h (Except.error.inj e))
  | .ok _, .error _ => isFalse (fun e => nomatch e)
  | .error _, .ok _ => isFalse (fun e => nomatch e)

/-- `expandCompactIri` -/
def expandCompactIri (ctx : List Char → Option (List Char)) (iri : List Char) :
    Except ExpandError (List Char) :=
  match splitDot iri with
  | none => .error .panic
  | some (pre, suffix) =>
    match ctx pre with
    | some ns => .ok (ns ++ unescapeSlash suffix)
    | none => .error .notInContext

/-- `strings.HasPrefix(iri, "@")` -/
def isReserved (iri : List Char) : Bool :=
  match iri with
  | c :: _ => c == '@'
  | [] => false

/-- `Expand` -/
def expand (ctx : List Char → Option (List Char)) (iri : List Char) : Except ExpandError (List Char) :=
  if isCompact iri then expandCompactIri ctx iri
  else if isReserved iri then .ok iri
  else .error .notCompact

/-! ## The classes of the path grammar's `Iri` rule (`ns:[a-zA-Z0-9_-]+ '.' prop:[.\\/a-zA-Z0-9_-]+`) -/

/-- `[a-zA-Z0-9_-]` -/
def isNsChar (c : Char) : Bool := isLetter c || isDigit c || c == '_' || c == '-'

/-- `[.\\/a-zA-Z0-9_-]` -/
def isPropChar (c : Char) : Bool := isNsChar c || c == '.' || c == '\\' || c == '/'

end Acv.Iri
