import Acv.Model.Lexical
/-!
# Node ids of the validation report (C12)

Model of `defineIdRecursively` (JSON tree → `@id`s).  An id is modelled as its list of segments; the
real id is the segments joined with `_` (`joinId`).  Executable, total, structural.
-/
namespace Acv

/-- JSON tree as far as `defineIdRecursively` can see. -/
inductive J
  | obj (typed : Bool) (fields : List (String × J))  -- typed = has an "@type" key; fields = other keys
  | arr (elems : List J)
  | leaf                                             -- scalars, strings, arrays of strings …

/-- Decimal index segment (`%d`); uses this project's own `showNat`. -/
def showIdx (i : Nat) : String := String.ofList (showNat i)

mutual
/-- Ids assigned in the subtree of a node that is given the id `segs`. -/
def assignIds : J → List String → List (List String)
  | .obj true fs, segs => segs :: assignFields fs segs
  | .obj false _, _ => []
  | .arr _, _ => []
  | .leaf, _ => []
/-- `for k, v := range *node`: object values get `id_k`, arrays are scanned, the rest is ignored. -/
def assignFields : List (String × J) → List String → List (List String)
  | [], _ => []
  | (k, .obj t fs) :: rest, segs => assignIds (.obj t fs) (segs ++ [k]) ++ assignFields rest segs
  | (_, .arr es) :: rest, segs => assignElems es 0 segs ++ assignFields rest segs
  | (_, .leaf) :: rest, segs => assignFields rest segs
/-- `for index, e := range v`: object elements get `id_index` (the key is not part of the id);
elements that are arrays or scalars yield nothing (`assignIds` of them is `[]`). -/
def assignElems : List J → Nat → List String → List (List String)
  | [], _, _ => []
  | e :: es, i, segs => assignIds e (segs ++ [showIdx i]) ++ assignElems es (i + 1) segs
end

/-- Segments joined with `_`, on character lists. -/
def joinChars : List (List Char) → List Char
  | [] => []
  | [s] => s
  | s :: t :: r => s ++ '_' :: joinChars (t :: r)

/-- The real id string: segments joined with `_`. -/
def joinId (segs : List String) : String := String.ofList (joinChars (segs.map String.toList))

/-- Ids of the results of one level: `<level>_<i>` for the i-th result, from index `i` on. -/
def levelIds (level : String) : List J → Nat → List (List String)
  | [], _ => []
  | r :: rs, i => assignIds r [level, showIdx i] ++ levelIds level rs (i + 1)

/-- All ids assigned below the three result lists. -/
def topIds (violations warnings infos : List J) : List (List String) :=
  levelIds "violation" violations 0 ++ levelIds "warning" warnings 0 ++ levelIds "info" infos 0

/-- A segment that keeps `joinId` injective: non-empty and without the separator `_`. -/
def goodSeg (s : String) : Bool := !s.toList.isEmpty && !s.toList.contains '_'

/-! ### well-formedness -/

/-- A key that can be told apart from every other segment: non-empty, no `_`, not only digits. -/
def keyOk (k : String) : Bool :=
  !k.toList.isEmpty && !k.toList.contains '_' && !k.toList.all isDigit

/-- Does scanning this array assign any id (is some element a typed object)? -/
def hasTyped : List J → Bool
  | [] => false
  | .obj t _ :: es => t || hasTyped es
  | .arr _ :: es => hasTyped es
  | .leaf :: es => hasTyped es

/-- Number of fields that are arrays with a typed object element. -/
def typedArrs : List (String × J) → Nat
  | [] => 0
  | (_, .arr es) :: rest => (if hasTyped es then 1 else 0) + typedArrs rest
  | (_, .obj _ _) :: rest => typedArrs rest
  | (_, .leaf) :: rest => typedArrs rest

def keys (fs : List (String × J)) : List String := fs.map Prod.fst

/-- Pairwise distinct (boolean). -/
def distinct : List String → Bool
  | [] => true
  | k :: ks => !ks.contains k && distinct ks

mutual
/-- What `defineIdRecursively` needs in order to assign distinct ids. Only nodes the traversal reaches
are constrained (untyped objects and arrays inside arrays are not entered). -/
def WF : J → Bool
  | .obj true fs => (keys fs).all keyOk && distinct (keys fs) && decide (typedArrs fs ≤ 1) && WFFields fs
  | .obj false _ => true
  | .arr _ => true
  | .leaf => true
def WFFields : List (String × J) → Bool
  | [] => true
  | (_, .obj t fs) :: rest => WF (.obj t fs) && WFFields rest
  | (_, .arr es) :: rest => WFElems es && WFFields rest
  | (_, .leaf) :: rest => WFFields rest
def WFElems : List J → Bool
  | [] => true
  | e :: es => WF e && WFElems es
end

end Acv
