/-!
# A tiny term language for the denied-operator check (C08)

`CompileRego` hands `unsafeBuiltinsMap` to the Rego compiler (`rego.UnsafeBuiltins`), which walks every
rule body and rejects the module when a call to one of these operators occurs anywhere in it.
This file models that walk on a term language that has the shapes that matter: variables, literals,
calls (an assignment `x := e` or a unification `x = e` is the call `assign`/`eq` with two arguments, an
infix expression the call of its operator), collections (arrays, sets, objects) and comprehensions
(a head term and a body, which is a list of statements).  A rule body is a list of terms.
Executable, total, structural.
-/
namespace Acv.RegoTerm

inductive T
  | var (n : String)
  | lit
  | call (op : String) (args : List T)
  | coll (items : List T)
  | compr (head : T) (body : List T)

mutual
/-- Does a call to a denied operator occur anywhere in the term? -/
def mentionsDenied (deny : List String) : T → Bool
  | .var _ => false
  | .lit => false
  | .call op args => deny.contains op || mentionsDeniedList deny args
  | .coll items => mentionsDeniedList deny items
  | .compr head body => mentionsDenied deny head || mentionsDeniedList deny body
/-- … anywhere in one of the terms? -/
def mentionsDeniedList (deny : List String) : List T → Bool
  | [] => false
  | t :: ts => mentionsDenied deny t || mentionsDeniedList deny ts
end

/-- A rule body is accepted when no statement mentions a denied operator. -/
def accept (deny : List String) (body : List T) : Bool := !(body.any (mentionsDenied deny))

/-- A term with one hole, at any depth: in an argument of a call, in an item of a collection, in the
head of a comprehension or in a statement of its body. -/
inductive Ctx
  | hole
  | callArg (op : String) (pre : List T) (c : Ctx) (post : List T)
  | collItem (pre : List T) (c : Ctx) (post : List T)
  | comprHead (c : Ctx) (body : List T)
  | comprBody (head : T) (pre : List T) (c : Ctx) (post : List T)

/-- Fill the hole. -/
def plug : Ctx → T → T
  | .hole, t => t
  | .callArg op pre c post, t => .call op (pre ++ plug c t :: post)
  | .collItem pre c post, t => .coll (pre ++ plug c t :: post)
  | .comprHead c body, t => .compr (plug c t) body
  | .comprBody head pre c post, t => .compr head (pre ++ plug c t :: post)

/-- Nesting depth of the hole. -/
def Ctx.depth : Ctx → Nat
  | .hole => 0
  | .callArg _ _ c _ => c.depth + 1
  | .collItem _ c _ => c.depth + 1
  | .comprHead c _ => c.depth + 1
  | .comprBody _ _ c _ => c.depth + 1

end Acv.RegoTerm
