/-!
# A tiny term language for the denied-operator check (C08)

`CompileRego` hands `unsafeBuiltinsMap` to the Rego compiler (`rego.UnsafeBuiltins`), which walks every
rule body and rejects the module when a call to one of these operators occurs anywhere in it.
This file models that walk on a term language that has the shapes that matter: variables, literals,
calls (an assignment `x := e` or a unification `x = e` is the call `assign`/`eq` with two arguments, an
infix expression the call of its operator), collections (arrays, sets, objects) and comprehensions
(a head term and a body, which is a list of statements), and the two forms of the `with` modifier: `t with target as value`
(a value term) and `t with target as f` where `f` names a FUNCTION (a built-in or a user function) — there the operator is
never called by name, the replaced function runs it; the compiler refuses such a binding when `f` is denied
("with keyword replacing built-in function: target must not be unsafe").  A rule body is a list of terms.
Executable, total, structural.
-/
namespace Acv.RegoTerm

inductive T
  | var (n : String)
  | lit
  | call (op : String) (args : List T)
  | coll (items : List T)
  | compr (head : T) (body : List T)
  | withVal (t : T) (target : String) (value : T)
  | withFn (t : T) (target : String) (fn : String)

mutual
/-- Does a call to a denied operator occur anywhere in the term? -/
def mentionsDenied (deny : List String) : T → Bool
  | .var _ => false
  | .lit => false
  | .call op args => deny.contains op || mentionsDeniedList deny args
  | .coll items => mentionsDeniedList deny items
  | .compr head body => mentionsDenied deny head || mentionsDeniedList deny body
  | .withVal t _ value => mentionsDenied deny t || mentionsDenied deny value
  | .withFn t _ fn => deny.contains fn || mentionsDenied deny t
/-- … anywhere in one of the terms? -/
def mentionsDeniedList (deny : List String) : List T → Bool
  | [] => false
  | t :: ts => mentionsDenied deny t || mentionsDeniedList deny ts
end

/-- A rule body is accepted when no statement mentions a denied operator. -/
def accept (deny : List String) (body : List T) : Bool := !(body.any (mentionsDenied deny))

/-- A term with one hole, at any depth: in an argument of a call, in an item of a collection, in the
head of a comprehension or in a statement of its body. -/
inductive Ctx
  | hole
  | callArg (op : String) (pre : List T) (c : Ctx) (post : List T)
  | collItem (pre : List T) (c : Ctx) (post : List T)
  | comprHead (c : Ctx) (body : List T)
  | comprBody (head : T) (pre : List T) (c : Ctx) (post : List T)
  | withValBody (c : Ctx) (target : String) (value : T)
  | withValValue (t : T) (target : String) (c : Ctx)
  | withFnBody (c : Ctx) (target : String) (fn : String)

/-- Fill the hole. -/
def plug : Ctx → T → T
  | .hole, t => t
  | .callArg op pre c post, t => .call op (pre ++ plug c t :: post)
  | .collItem pre c post, t => .coll (pre ++ plug c t :: post)
  | .comprHead c body, t => .compr (plug c t) body
  | .comprBody head pre c post, t => .compr head (pre ++ plug c t :: post)
  | .withValBody c target value, t => .withVal (plug c t) target value
  | .withValValue b target c, t => .withVal b target (plug c t)
  | .withFnBody c target fn, t => .withFn (plug c t) target fn

/-- Nesting depth of the hole. -/
def Ctx.depth : Ctx → Nat
  | .hole => 0
  | .callArg _ _ c _ => c.depth + 1
  | .collItem _ c _ => c.depth + 1
  | .comprHead c _ => c.depth + 1
  | .comprBody _ _ c _ => c.depth + 1
  | .withValBody c _ _ => c.depth + 1
  | .withValValue _ _ c => c.depth + 1
  | .withFnBody c _ _ => c.depth + 1

/-- `t` USES operator `op` directly: it is a call of `op`, or a `with` modifier that binds `op` to another function. -/
def T.usesOp (op : String) : T → Bool
  | .call o _ => o == op
  | .withFn _ _ fn => fn == op
  | _ => false

end Acv.RegoTerm
