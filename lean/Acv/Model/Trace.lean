import Acv.Model.Atoms
/-!
# What the generated policy puts into a result: traces

Impl-model of `wrapBranch` / `wrapTopLevelRegoResult` / `generateNested` / `wrapNestedRegoResult`
(`internal/generator/expression.go`) and of the `TraceValue` / `Constraint` / `Path` fields the
per-constraint generators fill in.

Every failure branch of `Dnf.dispatch rule` becomes ONE Rego rule

    <level>[matches] { target_class[x] …; <lines of literal 0>; _result_0 := trace(c0, p0, x, v0); …;
                        matches := error(name, x, message, [_result_0, …, _result_k]) }

so a result carries exactly one trace entry per literal of its branch.  The lines of a per-value literal
(`in`, `pattern`, lengths, numeric comparisons, `datatype`, property comparisons) contain an iteration
`v = values[_]` over the SET of reached values: the rule body succeeds once per offending value (per
offending pair for property comparisons), every success produces its own `matches`, whose trace entry
shows that value (`"actual"`).  A branch with several literals produces the cross product.  The rule
head is a Rego SET: results that are equal as JSON values collapse.  `resultsOf` is the list BEFORE that
collapse; what is observable is its set of distinct elements (the theorems are about membership).

A `nested` literal contributes one entry whose trace value holds `subResult`: an ARRAY built by an array
comprehension (`[e | node = nodes[_]; <inner branch>; e = [node["@id"], error("nested", node, …)]]`,
one comprehension per inner branch, concatenated with `array.concat`), so sub-results do NOT collapse:
one sub-result per (reached node, inner branch, combination of offending values).  The model lists them
node-major, the policy branch-major; the order is not part of what we compare.
-/
namespace Acv.Tr
open Dnf

mutual
/-- one entry of `trace`: `component`, `resultPath`, a rendering of the rest of `traceValue`
(negated flag, arguments, actual value) and, for nested literals, `traceValue.subResult` -/
inductive Trace (N : Type) where
  | mk (component path value : String) (sub : List (Result N))
/-- `error(sourceShapeName, focusNode, message, trace)` -/
inductive Result (N : Type) where
  | mk (shape : String) (focus : N) (trace : List (Trace N))
end

variable {N : Type}

def Trace.component : Trace N → String | .mk c _ _ _ => c
def Trace.path : Trace N → String | .mk _ p _ _ => p
def Trace.value : Trace N → String | .mk _ _ v _ => v
def Trace.sub : Trace N → List (Result N) | .mk _ _ _ s => s
def Result.shape : Result N → String | .mk s _ _ => s
def Result.focus : Result N → N | .mk _ f _ => f
def Result.trace : Result N → List (Trace N) | .mk _ _ t => t

/-- `VariableCardinality.RuleName()` -/
def opRuleName : Op → String
  | .ge => "atLeast"
  | .gt => "exactlyOrMore"
  | .eq => "exactly"
  | .ne => "distinctFrom"
  | .lt => "exactlyOrLess"
  | .le => "atMost"

/-- `ruleName` of `generateNested` -/
def quantComponent : Quant → String
  | .all => "nested"
  | .card op _ => opRuleName op

/-- the last lines of `generateNested`: does the literal fire, given how many nodes were reached and how
many of them have at least one error -/
def nestedFires (neg : Bool) (q : Quant) (total failed : Nat) : Bool :=
  match q with
  | .all => if neg then failed == 0 else decide (0 < failed)
  | .card op k =>
      let ok := op.eval (total - failed) k
      if neg then ok else !ok

/-- `"negated":…, "failedNodes":…, "successfulNodes":…[, "cardinality":…]` -/
def nestedValue (neg : Bool) (q : Quant) (total failed : Nat) : String :=
  toString neg ++ "|" ++ toString failed ++ "|" ++ toString (total - failed) ++
    (match q with | .all => "" | .card _ k => "|" ++ toString k)

/-- an evaluation environment that also knows what the traces show -/
structure TEnv (N : Type) extends Env N where
  /-- `Constraint` of the atom's `SimpleRegoResult` -/
  comp : AtomId → String
  /-- `Path` (`path.Trace`) of the atom -/
  apath : AtomId → String
  /-- `Path` of a nested expression -/
  npath : PathId → String
  /-- the trace values of the successful evaluations of the atom's lines on a node: one per offending
  value for per-value atoms, at most one otherwise -/
  wit : Bool → AtomId → N → List String

/-- the trace values describe exactly the firing of the snippet -/
def WitOK (env : TEnv N) : Prop := ∀ neg a n, (env.wit neg a n).isEmpty = !env.fail neg a n

mutual
/-- the `_result_i` bindings one literal can produce on a node -/
def litTraces (env : TEnv N) : SLit → N → List (Trace N)
  | .atom neg a, n => (env.wit neg a n).map (fun v => Trace.mk (env.comp a) (env.apath a) v [])
  | .nested neg p q inner, n =>
      let per := (env.kids p n).map (fun c => dnfResults env "nested" inner c)
      let failed := (per.filter (fun rs => !rs.isEmpty)).length
      if nestedFires neg q per.length failed then
        [Trace.mk (quantComponent q) (env.npath p) (nestedValue neg q per.length failed) per.flatten]
      else []
/-- the results all branches produce on a node -/
def dnfResults (env : TEnv N) (shape : String) : List (List SLit) → N → List (Result N)
  | [], _ => []
  | b :: bs, n => (brTraces env b n).map (fun tr => Result.mk shape n tr) ++ dnfResults env shape bs n
/-- the trace lists one branch produces on a node: the cross product of its literals' entries -/
def brTraces (env : TEnv N) : List SLit → N → List (List (Trace N))
  | [], _ => [[]]
  | l :: ls, n => (litTraces env l n).flatMap (fun t => (brTraces env ls n).map (fun ts => t :: ts))
end


/-! ## predicates of the property statements -/

mutual
/-- every inner branch of a literal has at least one literal, recursively -/
def litGood : SLit → Bool
  | .atom _ _ => true
  | .nested _ _ _ inner => dnfGood inner
/-- every branch has at least one literal and so has, recursively, every inner branch -/
def dnfGood : List (List SLit) → Bool
  | [] => true
  | b :: bs => (!b.isEmpty && brGood b) && dnfGood bs
def brGood : List SLit → Bool
  | [] => true
  | l :: ls => litGood l && brGood ls
end

/-- the same for a `[]GeneratedRegoResult` -/
def gensGood (gs : List Gen) : Bool := dnfGood (gs.map Gen.toBranch)

mutual
/-- a trace entry names the failed component and path; its sub-results are complete -/
def traceOK (inG : N → Prop) : Trace N → Prop
  | .mk c p _ sub => c ≠ "" ∧ p ≠ "" ∧ subsOK inG sub
def subsOK (inG : N → Prop) : List (Result N) → Prop
  | [] => True
  | r :: rs => resOK inG "nested" r ∧ subsOK inG rs
/-- a result is complete: the expected shape name, a focus node of the graph, a non-empty trace of
complete entries -/
def resOK (inG : N → Prop) (shape : String) : Result N → Prop
  | .mk s f tr => s = shape ∧ inG f ∧ tr ≠ [] ∧ tracesOK inG tr
def tracesOK (inG : N → Prop) : List (Trace N) → Prop
  | [] => True
  | t :: ts => traceOK inG t ∧ tracesOK inG ts
end

/-- the names the traces show are not empty -/
def NamesOK (env : TEnv N) : Prop :=
  (∀ a, env.comp a ≠ "") ∧ (∀ a, env.apath a ≠ "") ∧ (∀ p, env.npath p ≠ "")

/-- nested paths lead to nodes of the graph -/
def KidsIn (env : TEnv N) (inG : N → Prop) : Prop := ∀ p n c, c ∈ env.kids p n → inG c

/-- the results of one validation on a list of target nodes -/
def resultsOn (env : TEnv N) (name : String) (r : Rule) (targets : List N) : List (Result N) :=
  targets.flatMap (fun n => dnfResults env name ((dispatch r).map Gen.toBranch) n)

/-! ## the environment a graph and the two tables induce -/

/-- `strings.Join` -/
def joinWith (sep : String) : List String → String
  | [] => ""
  | [a] => a
  | a :: b :: rest => a ++ sep ++ joinWith sep (b :: rest)

mutual
/-- `PropertyPath.Trace`: IRIs as given, `^` after an inverse step, ` / ` and ` | ` between the parts of a
sequence / alternative, parentheses around a part that is itself a sequence or alternative -/
def renderPath : Path → String
  | .prop iri inv => if inv then iri ++ "^" else iri
  | .seq ps => joinWith " / " (renderParts ps)
  | .alt ps => joinWith " | " (renderParts ps)
def renderParts : List Path → List String
  | [] => []
  | p :: ps =>
      (match p with
        | .prop _ _ => renderPath p
        | _ => "(" ++ renderPath p ++ ")") :: renderParts ps
end

mutual
/-- a path the profile parser can produce: no empty IRI, no empty sequence or alternative -/
def pathWF : Path → Bool
  | .prop iri _ => iri != ""
  | .seq ps => !ps.isEmpty && pathsWF ps
  | .alt ps => !ps.isEmpty && pathsWF ps
def pathsWF : List Path → Bool
  | [] => true
  | p :: ps => pathWF p && pathsWF ps
end

def atomComponent : Atom → String
  | .count .min _ _ => "minCount"
  | .count .max _ _ => "maxCount"
  | .count .exact _ _ => "exactCount"
  | .length .min _ _ => "minLength"
  | .length .max _ _ => "maxLength"
  | .length .exact _ _ => "exactLength"
  | .inSet _ _ => "in"
  | .containsAll _ _ => "containsAll"
  | .containsSome _ _ => "containsSome"
  | .numeric .ge _ _ => "minimumInclusive"
  | .numeric .gt _ _ => "minimumExclusive"
  | .numeric .le _ _ => "maximumInclusive"
  | .numeric .lt _ _ => "maximumExclusive"
  | .numeric .eq _ _ => "numericEq"        -- not producible by the profile parser
  | .numeric .ne _ _ => "numericNe"        -- not producible by the profile parser
  | .propCmp .lt _ _ => "lessThan"
  | .propCmp .le _ _ => "lessThanOrEqualsTo"
  | .propCmp .eq _ _ => "equalsTo"
  | .propCmp .ne _ _ => "disjointWith"
  | .propCmp .gt _ _ => "moreThan"
  | .propCmp .ge _ _ => "moreThanOrEqualsTo"
  | .datatype _ _ => "datatype"
  | .pattern _ _ _ _ => "pattern"
  | .uniqueValues _ _ => "uniqueValues"

def atomPath : Atom → Path
  | .count _ p _ | .length _ p _ | .inSet p _ | .containsAll p _ | .containsSome p _
  | .numeric _ p _ | .propCmp _ p _ | .datatype p _ | .pattern p _ _ _ | .uniqueValues p _ => p

/-- a value as a trace shows it (`"actual"`): distinct JSON values get distinct keys -/
def itemKey : Item → String
  | .lit (.str s) => "s" ++ s.quote
  | .lit (.num i) => "n" ++ toString i
  | .lit (.bool b) => "b" ++ toString b
  | .lit (.ref id) => "r" ++ id.quote
  | .node n => "o" ++ n.id.quote

/-- the part of the trace value that does not depend on the offending value: the arguments -/
def atomArgs : Atom → String
  | .count _ _ arg => toString arg
  | .length _ _ arg => toString arg
  | .inSet _ vals => toString (vals.map String.quote)
  | .containsAll _ vals => toString (vals.map String.quote)
  | .containsSome _ vals => toString (vals.map String.quote)
  | .numeric _ _ arg => toString arg
  | .propCmp _ _ q => (renderPath q).quote
  | .datatype _ dt => dt.quote
  | .pattern _ a e lit => toString a ++ toString e ++ lit.quote
  | .uniqueValues _ _ => ""

/-- does the per-value snippet succeed on this value -/
def fireOn (neg : Bool) (ok : Item → Bool) (v : Item) : Bool := if neg then ok v else !ok v

def patternFires (neg a e : Bool) (lit : String) (v : Item) : Bool :=
  match patternOk a e lit v with
  | some ok => if neg then ok else !ok
  | none => !neg

/-- the "actual" parts of the trace values of the successful evaluations of an atom's snippet:
one entry per offending value (pair), a single empty entry for the atoms evaluated once per node -/
def atomActuals (g : Graph) (neg : Bool) : Atom → Node → List String
  | .length k p arg, n => ((valueSet g p n).filter (lenFires neg k arg)).map
      (fun v => toString (v.count?.getD 0))
  | .inSet p vals, n => ((valueSet g p n).filter (fireOn neg (fun v => vals.contains v.asString))).map
      (fun v => v.asString.quote)
  | .numeric op p arg, n =>
      ((valueSet g p n).filter (fireOn neg (fun v => ordOp op (v.cmp (.lit (.num arg)))))).map itemKey
  | .propCmp op p q, n =>
      (valueSet g p n).flatMap (fun a =>
        ((valueSet g q n).filter (fun b => fireOn neg (fun b => ordOp op (a.cmp b)) b)).map
          (fun b => itemKey a ++ "," ++ itemKey b))
  | .datatype p dt, n => ((valueSet g p n).filter (fireOn neg (datatypeOk dt))).map itemKey
  | .pattern p a e lit, n => ((valueSet g p n).filter (patternFires neg a e lit)).map itemKey
  | atm, n => if atm.fails g neg n then [""] else []

def atomWits (g : Graph) (neg : Bool) (atm : Atom) (n : Node) : List String :=
  (atomActuals g neg atm n).map (fun act => toString neg ++ "|" ++ atomArgs atm ++ "|" ++ act)

def graphTEnv (g : Graph) (atoms : Array Atom) (paths : Array Path) : TEnv Node :=
  { graphEnv g atoms paths with
    comp := fun a => match atoms[a]? with
      | some atm => atomComponent atm
      | none => "unknown"
    apath := fun a => match atoms[a]? with
      | some atm => renderPath (atomPath atm)
      | none => "unknown"
    npath := fun p => match paths[p]? with
      | some pa => renderPath pa
      | none => "unknown"
    wit := fun neg a n => match atoms[a]? with
      | some atm => atomWits g neg atm n
      | none => if neg then ["missing"] else [] }

/-- the results of validation `name` (target class `cls`, formula `r`) on graph `g`, before the collapse
of equal results -/
def resultsOf (env : TEnv Node) (g : Graph) (name cls : String) (r : Rule) : List (Result Node) :=
  resultsOn env name r (g.targets cls)

end Acv.Tr
