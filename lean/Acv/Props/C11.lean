import Acv.Model.PipelineChecks
import Acv.Gen.Pipeline
/-!
# C11 — progress events are well-bracketed and the channel is closed exactly once

All statements are about `Acv.Gen.pipeline`, the control-flow skeleton REGENERATED from the Go sources
on every run, and quantify over every outcome (ok / error / panic) of every step that leaves the
skeleton; the quantifier is a finite table and is discharged by kernel evaluation.
-/
namespace Acv.C11
open Acv.Pipe Acv.Gen

/-- entry points that validate: pkg.Validate, pkg.ValidateCompiled, the WithConfiguration variants, and the internal ones -/
def validating : List Nat := [0, 1, 2, 3, 5, 6, 7, 8]
def compileProfile : Nat := 4

def allOk : Nat → Outcome := fun _ => .ok

/-- every behaviour of an entry point, over all outcome sequences of the external steps -/
def behaviours (entry : Nat) : List (Trace × Outcome) := runAll pipeline extCanErr entry

/-- the translator understood every statement of the pipeline functions -/
theorem no_opaque : opaqueStatements = [] := by decide

/-- what an `emit` of the skeleton stands for: a nil check around ONE plain (blocking) channel send - no `select`, no
timeout, no goroutine, no default branch, so an event is delivered before the pipeline continues and never dropped -/
theorem emit_is_blocking_send : dispatchBody = "{ if eventChan != nil { *eventChan <- event } }" := by decide

/-- what a `close` of the skeleton stands for: a nil check around one `close` -/
theorem close_is_plain_close : closeBody = "{ if eventChan != nil { close(*eventChan) } }" := by decide

/-- calls read as `skip` are exactly the known constructors/option setters -/
theorem other_calls_known : otherCalls =
    ["decoder.UseNumber", "json.NewDecoder", "ld.NewJsonLdOptions", "ld.NewJsonLdProcessor", "make",
     "rego.Module", "rego.Query", "rego.UnsafeBuiltins"] := by decide

/-- event constants come as Start/Done pairs in declaration order: event `2k` starts the stage that
event `2k+1` completes (this is what `isStart`/`bracketed` rely on) -/
theorem events_paired : eventNames =
    ["ProfileParsingStart", "ProfileParsingDone", "InputDataParsingStart", "InputDataParsingDone",
     "InputDataNormalizationStart", "InputDataNormalizationDone", "RegoGenerationStart", "RegoGenerationDone",
     "RegoCompilationStart", "RegoCompilationDone", "OpaValidationStart", "OpaValidationDone",
     "BuildReportStart", "BuildReportDone"] := by decide

/-- the stage order of a complete run -/
def stageOrder (entry : Nat) : List Ev := events (run pipeline allOk entry).1

/-- For every validating entry point and every outcome of every external step: the events are a prefix of
the stage order, every completion is preceded by its start and stages never overlap. -/
theorem events_prefix_bracketed :
    validating.all (fun entry => (behaviours entry).all (fun r =>
      isPrefix (events r.1) (stageOrder entry) && bracketed (events r.1))) = true := by decide +kernel

/-- … and whenever the call returns (report or error) the channel has been closed exactly once, as the
last thing observable. -/
theorem closed_exactly_once :
    validating.all (fun entry => (behaviours entry).all (fun r =>
      r.2 == .panic || (closeCount r.1 == 1 && closeLast r.1))) = true := by decide +kernel

/-- A failed stand-alone compilation closes the channel; a successful one leaves it open. -/
theorem compile_profile_close :
    (behaviours compileProfile).all (fun r =>
      match r.2 with
      | .ok => closeCount r.1 == 0
      | .err => closeCount r.1 == 1 && closeLast r.1
      | .panic => true) = true := by decide +kernel

/-- stand-alone compilation followed by validation with the compiled profile: one close in total -/
theorem compile_then_validate_close :
    (behaviours compileProfile).all (fun c => (behaviours 3).all (fun v =>
      c.2 != .ok || v.2 == .panic || (closeCount (c.1 ++ v.1) == 1 && closeLast (c.1 ++ v.1)))) = true := by
  decide +kernel

/-- Milestones: one per completed stage, each pairing a completion with an EARLIER start, so the duration
is non-negative under non-decreasing timestamps. -/
theorem milestones_one_per_completed_stage :
    (validating ++ [compileProfile]).all (fun entry => (behaviours entry).all (fun r =>
      let es := events r.1
      let ms := milestones milestoneStarts milestoneDones es
      ms.length == doneCount es && ms.all (fun m => m.1 < m.2))) = true := by decide +kernel

/-- every stage has a milestone case: the generator handles all seven Start and all seven Done events -/
theorem milestone_cases_complete :
    milestoneStarts = [0, 2, 4, 6, 8, 10, 12] ∧
    milestoneDones = [(1, 0), (3, 2), (5, 4), (7, 6), (9, 8), (11, 10), (13, 12)] := by decide

/-- the deterministic reading (one fixed outcome per external step) is one of the explored behaviours -/
theorem assignment_runs_explored :
    (oracles extCanErr).all (fun o => (behaviours 7).contains (run pipeline (asOracle o) 7)) = true := by
  decide +kernel

/-- non-vacuity: the full stage order of `pkg.Validate` has all 14 events; 15 behaviours are explored -/
example : stageOrder 0 = [0, 1, 6, 7, 8, 9, 2, 3, 4, 5, 10, 11, 12, 13] := by decide +kernel
example : (behaviours 0).length = 15 := by decide +kernel

end Acv.C11
