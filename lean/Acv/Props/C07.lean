import Acv.Model.Ident
import Acv.Lemmas.Lexical
import Acv.Lemmas.Ident
import Acv.Gen.Tables
/-!
# C07 — the names the translator invents are distinct, are not Rego keywords, and do not collide

The letter list, the plural format and the keyword list are GENERATED (`Acv.Gen.Tables`).  Every fact about
them is a `decide` on the table; everything else is proved for arbitrary indices from those table facts, so
the file re-checks when the tables change.
-/
namespace Acv.C07
open Acv Acv.Ident Acv.Gen

/-! ## Table facts (all by `decide`) -/

theorem letters_nodup : varLetters.Nodup := by decide

theorem letters_lower : (varLetters.all isLowerLetter) = true := by decide

theorem letters_not_keyword : (varLetters.all fun l => !regoKeywords.contains l) = true := by decide

theorem plurals_not_keyword : (varLetters.all fun l => !regoKeywords.contains (plural l)) = true := by
  decide

theorem keywords_start_lower : (regoKeywords.all startsLower) = true := by decide

/-- ties `plural` to the source -/
theorem plural_format : pluralFormat = "%ss" := by decide

/-! ## Shapes of the names -/

/-- The letter list has no repetition and consists of single lower-case ASCII letters. -/
theorem letters_ok :
    varLetters.Nodup ∧ ∀ l ∈ varLetters, ∃ c, l.toList = [c] ∧ 97 ≤ c.toNat ∧ c.toNat ≤ 122 := by
  refine ⟨letters_nodup, ?_⟩
  intro l hl
  exact (isLowerLetter_iff l).1 (List.all_eq_true.1 letters_lower l hl)

/-- characters of a variable name: one lower-case letter, or `X` and the decimal digits of the index -/
theorem varName_shape (i : Nat) :
    (i < varLetters.length ∧ varName varLetters i ∈ varLetters ∧
      ∃ c, (varName varLetters i).toList = [c] ∧ 97 ≤ c.toNat ∧ c.toNat ≤ 122) ∨
    (varLetters.length ≤ i ∧ (varName varLetters i).toList = 'X' :: showNat i) := by
  by_cases h : i < varLetters.length
  · left
    have hm : varName varLetters i ∈ varLetters := by
      rw [varName_lt h]; exact List.getElem_mem h
    exact ⟨h, hm, letters_ok.2 _ hm⟩
  · right
    have h' : varLetters.length ≤ i := Nat.le_of_not_lt h
    exact ⟨h', by rw [varName_ge h', toList_X]⟩

/-! ## Distinctness -/

/-- Two different indices never get the same variable name (no bound on the indices). -/
theorem var_names_distinct : ∀ i j, i ≠ j → varName varLetters i ≠ varName varLetters j := by
  intro i j hij heq
  have hl := congrArg String.toList heq
  rcases varName_shape i with ⟨hi, _, ci, hci, hci1, hci2⟩ | ⟨hi, hxi⟩
  · rcases varName_shape j with ⟨hj, _, _⟩ | ⟨hj, hxj⟩
    · rw [varName_lt hi, varName_lt hj] at heq
      have h1 : varLetters[i]? = varLetters[j]? := by
        rw [List.getElem?_eq_getElem hi, List.getElem?_eq_getElem hj, heq]
      exact hij ((List.getElem?_inj hi letters_nodup).1 h1)
    · rw [hci, hxj] at hl
      simp only [List.cons.injEq] at hl
      have : ci.toNat = 88 := by rw [hl.1]; rfl
      omega
  · rcases varName_shape j with ⟨hj, _, cj, hcj, hcj1, hcj2⟩ | ⟨hj, hxj⟩
    · rw [hxi, hcj] at hl
      simp only [List.cons.injEq] at hl
      have : cj.toNat = 88 := by rw [← hl.1]; rfl
      omega
    · rw [hxi, hxj] at hl
      simp only [List.cons.injEq, true_and] at hl
      exact hij (showNat_inj hl)

/-! ## Keywords -/

theorem X_not_keyword {s : String} {t : List Char} (h : s.toList = 'X' :: t) : s ∉ regoKeywords := by
  intro hm
  have := List.all_eq_true.1 keywords_start_lower s hm
  rw [startsLower_X h] at this
  exact absurd this (by simp)

/-- No variable name is a Rego keyword. -/
theorem var_not_keyword : ∀ i, varName varLetters i ∉ regoKeywords := by
  intro i
  rcases varName_shape i with ⟨_, hm, _⟩ | ⟨_, hx⟩
  · have := List.all_eq_true.1 letters_not_keyword _ hm
    simpa using this
  · exact X_not_keyword hx

/-- No collection name (`<variable>s`) is a Rego keyword. -/
theorem plural_not_keyword : ∀ i, plural (varName varLetters i) ∉ regoKeywords := by
  intro i
  rcases varName_shape i with ⟨_, hm, _⟩ | ⟨_, hx⟩
  · have := List.all_eq_true.1 plurals_not_keyword _ hm
    simpa using this
  · apply X_not_keyword (t := showNat i ++ ['s'])
    rw [toList_plural, hx]; rfl

/-- A collection name is never itself a variable name. -/
theorem plural_not_var : ∀ i j, plural (varName varLetters i) ≠ varName varLetters j := by
  intro i j heq
  have hl := congrArg String.toList heq
  rw [toList_plural] at hl
  rcases varName_shape j with ⟨_, _, cj, hcj, _, _⟩ | ⟨_, hxj⟩
  · -- a letter has one character, a plural at least two
    rw [hcj] at hl
    have hlen := congrArg List.length hl
    rcases varName_shape i with ⟨_, _, ci, hci, _, _⟩ | ⟨_, hxi⟩
    · rw [hci] at hlen; simp at hlen
    · rw [hxi] at hlen; simp at hlen
  · -- an `X` name consists of `X` and digits; a plural contains `s`
    rw [hxj] at hl
    have hs : 's' ∈ 'X' :: showNat j := by rw [← hl]; simp
    rcases List.mem_cons.1 hs with h | h
    · exact absurd h (by decide)
    · exact s_not_digit (showNat_all_digits j _ h)

/-- Nor is the collection name of one variable the collection name of another. -/
theorem plurals_distinct : ∀ i j, i ≠ j → plural (varName varLetters i) ≠ plural (varName varLetters j) := by
  intro i j hij heq
  apply var_names_distinct i j hij
  have hl := congrArg String.toList heq
  rw [toList_plural, toList_plural] at hl
  exact String.ext (List.append_cancel_right hl)

/-! ## `Genvar` -/

/-- Names produced by `Genvar` with different counter values are different, whatever the hints are (the
hints may contain `_` and digits). -/
theorem genvar_injective : ∀ (h₁ h₂ : String) (n₁ n₂ : Nat),
    genvarName h₁ n₁ = genvarName h₂ n₂ → n₁ = n₂ := by
  intro h₁ h₂ n₁ n₂ heq
  have h := genvar_suffix h₁ n₁
  rw [heq, genvar_suffix] at h
  exact showNat_inj (List.reverse_inj.1 h).symm

/-- A generated name is never a quantified variable or its collection: it starts with `g` and has more
than one character / does not start with `X`. -/
theorem genvar_not_var (h : String) (n i : Nat) : genvarName h n ≠ varName varLetters i := by
  intro heq
  have hl := congrArg String.toList heq
  rw [toList_genvar] at hl
  have hg : "gen_".toList = ['g', 'e', 'n', '_'] := by decide
  rw [hg] at hl
  rcases varName_shape i with ⟨_, _, c, hc, _, _⟩ | ⟨_, hx⟩
  · rw [hc] at hl; simp at hl
  · rw [hx] at hl; simp at hl

/-! ## Package name -/

/-- For every lower-casing function that never returns an ASCII capital (Go's `unicode.ToLower` is one, and
so is `toLowerAscii`): the package name starts with `profile_` and consists of `[a-z0-9_]` only. -/
theorem packageNameWith_valid (lower : Char → Char) (hlower : ∀ c, isUpper (lower c) = false)
    (s : List Char) :
    (∀ c ∈ packageNameWith lower s, isPkgChar c = true) ∧
      "profile_".toList <+: packageNameWith lower s := by
  refine ⟨?_, List.prefix_append _ _⟩
  intro c hc
  rcases List.mem_append.1 hc with hc | hc
  · exact List.all_eq_true.1 prefix_valid c hc
  · apply squash_valid false _ _ c hc
    intro d hd
    obtain ⟨e, _, rfl⟩ := List.mem_map.1 hd
    exact hlower e

/-- The package name is a legal Rego package identifier made of `[a-z0-9_]` and starts with `profile_`. -/
theorem packageName_valid : ∀ s : List Char,
    (∀ c ∈ packageName s, isPkgChar c = true) ∧ "profile_".toList <+: packageName s :=
  fun s => packageNameWith_valid toLowerAscii not_upper_toLowerAscii s

/-! ## The defect that was fixed, and concrete names -/

/-- With the letter `a` in the list (as it used to be), its collection `as` is a keyword. -/
theorem old_table_collides : plural "a" ∈ regoKeywords := by decide

/-- (the examples use a literal letter list so that they do not depend on the generated table) -/
example : (List.range 5).map (varName ["x", "y", "s"]) = ["x", "y", "s", "X3", "X4"] := by decide
example : plural (varName ["x", "y", "s"] 2) = "ss" := by decide
example : plural (varName ["x", "y", "s"] 100) = "X100s" := by decide
example : genvarName "a_1" 2 = "gen_a_1_2" ∧ genvarName "a" 12 = "gen_a_12" := by decide
/-- different hints can give the same text only with the same counter -/
example : genvarName "a_1" 2 ≠ genvarName "a" 12 := by decide
example : packageName "My Profile -- v1.0 (Ünï)!".toList = "profile_my_profile_v1_0_n_".toList := by
  decide
example : packageName [] = "profile_".toList := by decide
/-- the two characters on which ASCII-only lower-casing and Go's `ToLower` differ in the result class -/
example : packageName ['K', Char.ofNat 0x212A, Char.ofNat 0x130] = "profile_k_".toList := by decide

end Acv.C07

#print axioms Acv.C07.letters_ok
#print axioms Acv.C07.var_names_distinct
#print axioms Acv.C07.var_not_keyword
#print axioms Acv.C07.plural_not_keyword
#print axioms Acv.C07.plural_not_var
#print axioms Acv.C07.plurals_distinct
#print axioms Acv.C07.plural_format
#print axioms Acv.C07.genvar_injective
#print axioms Acv.C07.genvar_not_var
#print axioms Acv.C07.packageNameWith_valid
#print axioms Acv.C07.packageName_valid
#print axioms Acv.C07.old_table_collides
