import Acv.Lemmas.ProfileParser
import Acv.Lemmas.KeyTags
import Acv.Props.C07
/-!
# Properties of the profile parser model (`Acv.Model.ProfileParser`)

1. `get_is_first_match`, `get_perm` — `Yaml.Get`;
2. `validation_key_order` — the order of the keys of a validation does not matter;
   `validation_key_tags`, `profile_key_tags` — nor do the tags of mapping keys (plain `1001:` or quoted `"1001":`);
3. `precedence_*` — which key of a validation decides its meaning;
4. `variables_fresh` — the variables of one validation are pairwise distinct;
5. `negate_negate`, `negate_no_negated_connective` — De Morgan push-down;
6. `not_a_map_is_error`, `missing_validations_is_error`, `undefined_names_skipped`.

All statements about `pev` / `parseExpression` hold for EVERY value of the recursion budget.
-/
namespace Acv.ProfileParser
open Acv Acv.PP

/-! ## 1. `Yaml.Get` -/

/-- `Get` on a mapping returns the value of the first entry whose key is a scalar with the requested value
(`Y.isKey`: any tag), and nothing if there is no such entry. -/
theorem get_is_first_match (es : List (Y × Y)) (k : String) :
    (Y.map es).get k = (es.find? (fun e => e.1.isKey k)).map (·.2) :=
  getEntries_eq_find es k

/-- … spelled out: the entries before the hit have other keys -/
theorem get_eq_some_iff (es : List (Y × Y)) (k : String) (v : Y) :
    (Y.map es).get k = some v ↔
      ∃ pre tag post, es = pre ++ (Y.scalar tag k, v) :: post ∧ ∀ e ∈ pre, ∀ tag', e.1 ≠ Y.scalar tag' k := by
  show getEntries es k = some v ↔ _
  rw [getEntries_eq_some]
  constructor
  · rintro ⟨pre, key, post, rfl, hk, hpre⟩
    obtain ⟨tag, rfl⟩ := isKey_iff.1 hk
    refine ⟨pre, tag, post, rfl, ?_⟩
    intro e he tag' heq
    have := hpre e he
    rw [heq] at this
    simp [Y.isKey] at this
  · rintro ⟨pre, tag, post, rfl, hpre⟩
    refine ⟨pre, _, post, rfl, isKey_iff.2 ⟨tag, rfl⟩, ?_⟩
    intro e he
    cases h : e.1.isKey k
    · rfl
    · obtain ⟨tag', h'⟩ := isKey_iff.1 h
      exact absurd h' (hpre e he tag')

theorem get_eq_none_iff (es : List (Y × Y)) (k : String) :
    (Y.map es).get k = none ↔ ∀ e ∈ es, ∀ tag, e.1 ≠ Y.scalar tag k := by
  show getEntries es k = none ↔ _
  rw [getEntries_eq_none]
  constructor
  · intro h e he tag heq
    have := h e he
    rw [heq] at this
    simp [Y.isKey] at this
  · intro h e he
    cases h' : e.1.isKey k
    · rfl
    · obtain ⟨tag', h''⟩ := isKey_iff.1 h'
      exact absurd h'' (h e he tag')

/-- a node that is not a mapping has no entries -/
theorem get_non_map (y : Y) (h : ∀ es, y ≠ .map es) (k : String) : y.get k = none := by
  cases y with
  | map es => exact absurd rfl (h es)
  | _ => rfl

/-- If the scalar keys of the entries are pairwise distinct, `Get` does not depend on the order of the entries. -/
theorem get_perm {es es' : List (Y × Y)} (p : es.Perm es') (h : DistinctKeys es) (k : String) :
    (Y.map es).get k = (Y.map es').get k :=
  getEntries_perm p h k

/-- with a duplicated key the order does matter: the hypothesis of `get_perm` cannot be dropped -/
example :
    (Y.map [(.scalar "!!str" "a", .scalar "!!int" "1"), (.scalar "!!str" "a", .scalar "!!int" "2")]).get "a"
      = some (.scalar "!!int" "1") ∧
    (Y.map [(.scalar "!!str" "a", .scalar "!!int" "2"), (.scalar "!!str" "a", .scalar "!!int" "1")]).get "a"
      = some (.scalar "!!int" "2") := ⟨rfl, rfl⟩

/-! ## 2. Key order of a validation -/

theorem pev_congr_get {d d' : Y} (h : d.get = d'.get) (f : Nat) (var : String) (c : Nat) :
    pev f var d c = pev f var d' c := by
  cases f with
  | zero => rfl
  | succ f => show pevCore (pev f) var d.get c = pevCore (pev f) var d'.get c; rw [h]

/-- Permuting the entries of the mapping of a top-level validation (distinct keys) changes nothing: same rule
tree, same variables.  The mappings BELOW the top-level one are untouched, in particular every
`propertyConstraints` mapping keeps its order (which decides variable allocation).
`_partial`: only the top-level mapping is permuted; `validation_key_order` below pushes the statement
under `and` / `or` / `not` / `if`-`then`-`else`. -/
theorem validation_key_order_partial {es es' : List (Y × Y)} (p : es.Perm es') (h : DistinctKeys es)
    (fuel : Nat) (name level : String) :
    parseExpression fuel name (.map es) level = parseExpression fuel name (.map es') level := by
  have hg : (Y.map es).get = (Y.map es').get := funext (get_perm p h)
  simp only [parseExpression, hg, pev_congr_get hg]

/-- the same for any expression value (e.g. the mapping under `not`, `nested`, an element of `and`) -/
theorem expression_key_order {es es' : List (Y × Y)} (p : es.Perm es') (h : DistinctKeys es)
    (fuel : Nat) (var : String) (c : Nat) :
    pev fuel var (.map es) c = pev fuel var (.map es') c :=
  pev_congr_get (funext (get_perm p h)) fuel var c

/-- **Deep version.**  `SimAll y y'` (`Acv.PP.Sim` at every depth): `y'` has the same look-ups as `y`, where the
values under `and` / `or` (element-wise), `not`, `if`, `then`, `else`, `nested`, `validation` of
`atLeast` / `atMost` / `exactly` are again similar, and every `propertyConstraints` mapping lists the same
keys in the same order (`PCRel`; the constraint mapping of each path may itself be permuted).  Then the
validation parses to the same rule tree with the same variables (or to the same error).
`SimAll` is generated by `SimAll.refl`, `SimAll.trans`, `SimAll.perm` (permute the entries of a mapping with
distinct keys), `SimAll.entry` (rewrite under a key), `PCRel.entry`, `ConsRel.perm`, `ConsRel.nested`. -/
theorem validation_key_order {y y' : Y} (h : SimAll y y') (fuel : Nat) (name level : String) :
    parseExpression fuel name y level = parseExpression fuel name y' level := by
  have h1 := (h 1).2.1
  simp only [parseExpression, h1 "targetClass" (by decide), h1 "message" (by decide),
    pev_sim fuel _ _ (h fuel)]

/-- the same for an expression value at any position -/
theorem expression_key_order_deep {y y' : Y} (h : SimAll y y') (fuel : Nat) (var : String) (c : Nat) :
    pev fuel var y c = pev fuel var y' c :=
  pev_sim fuel _ _ (h fuel) var c

/-- permutations can be pushed under `not`, `if`, `then`, `else` … -/
theorem key_order_under {k : String} (hk : k = "not" ∨ k = "if" ∨ k = "then" ∨ k = "else")
    {pre post : List (Y × Y)} {tag : String} {es es' : List (Y × Y)}
    (hpre : ∀ e ∈ pre, e.1.isKey k = false) (p : es.Perm es') (h : DistinctKeys es)
    (fuel : Nat) (name level : String) :
    parseExpression fuel name (.map (pre ++ (.scalar tag k, .map es) :: post)) level =
      parseExpression fuel name (.map (pre ++ (.scalar tag k, .map es') :: post)) level := by
  refine validation_key_order (SimAll.entry hpre ?_) fuel name level
  have : ValRel k (.map es) (.map es') = SimAll (.map es) (.map es') := by
    rcases hk with rfl | rfl | rfl | rfl <;> simp [ValRel]
  rw [this]
  exact SimAll.perm p h

/-- … and into an element of `and` / `or` -/
theorem key_order_under_connective {k : String} (hk : k = "and" ∨ k = "or")
    {pre post : List (Y × Y)} {tag : String} {xs zs : List Y} {es es' : List (Y × Y)}
    (hpre : ∀ e ∈ pre, e.1.isKey k = false) (p : es.Perm es') (h : DistinctKeys es)
    (fuel : Nat) (name level : String) :
    parseExpression fuel name (.map (pre ++ (.scalar tag k, .seq (xs ++ .map es :: zs)) :: post)) level =
      parseExpression fuel name (.map (pre ++ (.scalar tag k, .seq (xs ++ .map es' :: zs)) :: post)) level := by
  refine validation_key_order (SimAll.entry hpre ?_) fuel name level
  have : ValRel k (.seq (xs ++ .map es :: zs)) (.seq (xs ++ .map es' :: zs)) =
      SeqRel SimAll (.seq (xs ++ .map es :: zs)) (.seq (xs ++ .map es' :: zs)) := by
    rcases hk with rfl | rfl <;> simp [ValRel]
  rw [this]
  clear this
  show ListRel SimAll (xs ++ .map es :: zs) (xs ++ .map es' :: zs)
  induction xs with
  | nil => exact ⟨SimAll.perm p h, ListRel.refl SimAll.refl zs⟩
  | cons x xs ih => exact ⟨SimAll.refl x, ih⟩

/-! ## 2b. Tags of mapping keys

`Yaml.Get` compares the text of a scalar key and `GetMapKeys` returns the text of the keys; the tag of a key
(`!!int` for a plain `1001:`, `!!str` for a quoted `"1001":`, `!!bool` for `true:` …) is never read.
`Y.retagKeys f` rewrites the tag of EVERY scalar in key position, at every depth, to `f oldTag text`, and
leaves the tags of all values alone (the names listed under `violation` / `warning` / `info` are values: they
must be `!!str` and are not touched). -/

/-- Re-tagging the keys of a validation, at every depth (including the keys inside `rego`, `in`, … values),
changes nothing: same rule tree, same variables, same message, or the same error; for every budget. -/
theorem validation_key_tags (f : String → String → String) (y : Y) (fuel : Nat) (name level : String) :
    parseExpression fuel name y level = parseExpression fuel name (y.retagKeys f) level :=
  (parseExpression_retagKeys f fuel name y level).symm

/-- the same for an expression value at any position -/
theorem expression_key_tags (f : String → String → String) (y : Y) (fuel : Nat) (var : String) (c : Nat) :
    pev fuel var y c = pev fuel var (y.retagKeys f) c :=
  (pev_retagKeys f fuel var y c).symm

/-- **The whole profile**: name, description, prefixes (`GetMapKeys` returns the key texts), the three levels
and all rule trees are the same, or the error is the same. -/
theorem profile_key_tags (f : String → String → String) (doc : Y) :
    parseProfile doc = parseProfile (doc.retagKeys f) :=
  (parseProfile_retagKeys f doc).symm

/-- … also with an explicit budget -/
theorem profileWith_key_tags (f : String → String → String) (fuel : Nat) (doc : Y) :
    parseProfileWith fuel doc = parseProfileWith fuel (doc.retagKeys f) :=
  (parseProfileWith_retagKeys f fuel doc).symm

/-- key order and key tags together: two validations that are similar after (possibly different) re-taggings
of their keys — e.g. after normalising every key tag with `fun _ _ => ""` — parse alike -/
theorem validation_key_order_tags (f g : String → String → String) {y y' : Y}
    (h : SimAll (y.retagKeys f) (y'.retagKeys g)) (fuel : Nat) (name level : String) :
    parseExpression fuel name y level = parseExpression fuel name y' level := by
  rw [validation_key_tags f y, validation_key_tags g y']
  exact validation_key_order h fuel name level

/-- `SimAll` itself is finer than the parser here: it compares the values the parser does not parse
recursively (`rego`, `in`, …) with `=`, so it sees re-tagged keys INSIDE such values (`not_simAll_retagKeys`).
What holds of `SimAll` is `simAll_retagKeys_partial`: `y.retagSkel f .expr` re-tags the keys everywhere except
inside those values.  Through `validation_key_order` it gives a second proof of that part of `validation_key_tags`. -/
theorem validation_key_tags_partial (f : String → String → String) (y : Y) (fuel : Nat) (name level : String) :
    parseExpression fuel name y level = parseExpression fuel name (y.retagSkel f .expr) level :=
  validation_key_order (simAll_retagKeys_partial f y) fuel name level

/-! ## 3. Precedence of the keys of an expression -/

/-- `propertyConstraints` wins: the result is a function of its value alone -/
theorem precedence_propertyConstraints {d : Y} {v : Y} (h : d.get "propertyConstraints" = some v)
    (f : Nat) (var : String) (c : Nat) :
    pev (f + 1) var d c = parseImplicitAnd (pev f) (some v) var c := by
  show pevCore (pev f) var d.get c = _
  simp only [pevCore, h]

/-- … so `rego`, `regoModule`, `and`, `or`, `not`, `if`, `then`, `else` (and everything else) are ignored -/
theorem precedence {d d' : Y} {v : Y} (h : d.get "propertyConstraints" = some v)
    (h' : d'.get "propertyConstraints" = some v) (f : Nat) (var : String) (c : Nat) :
    pev f var d c = pev f var d' c := by
  cases f with
  | zero => rfl
  | succ f => rw [precedence_propertyConstraints h, precedence_propertyConstraints h']

theorem precedence_rego {d : Y} {code : Y} (h0 : d.get "propertyConstraints" = none) (h : d.get "rego" = some code)
    (f : Nat) (var : String) (c : Nat) :
    pev (f + 1) var d c = (parseRego (some code) var nullPath).map (fun r => (r, c)) := by
  show pevCore (pev f) var d.get c = _
  simp only [pevCore, h0, h]

theorem precedence_regoModule {d : Y} {code : Y} (h0 : d.get "propertyConstraints" = none)
    (h1 : d.get "rego" = none) (h : d.get "regoModule" = some code) (f : Nat) (var : String) (c : Nat) :
    pev (f + 1) var d c = (parseRego (some code) var nullPath).map (fun r => (r, c)) := by
  show pevCore (pev f) var d.get c = _
  simp only [pevCore, h0, h1, h]

theorem precedence_and {d : Y} {items : List Y} (h0 : d.get "propertyConstraints" = none) (h1 : d.get "rego" = none)
    (h2 : d.get "regoModule" = none) (h : d.get "and" = some (.seq items)) (f : Nat) (var : String) (c : Nat) :
    pev (f + 1) var d c = (parseItems (pev f) var items c).map (fun p => (.and false p.1, p.2)) := by
  show pevCore (pev f) var d.get c = _
  simp only [pevCore, h0, h1, h2, h]

/-- `and` present but not a sequence: an error, `or` / `not` / `if` are not consulted -/
theorem precedence_and_not_list {d a : Y} (h0 : d.get "propertyConstraints" = none) (h1 : d.get "rego" = none)
    (h2 : d.get "regoModule" = none) (h : d.get "and" = some a) (ha : ∀ items, a ≠ .seq items)
    (f : Nat) (var : String) (c : Nat) : ∃ e, pev (f + 1) var d c = .error e := by
  refine ⟨"and constraint must be a list", ?_⟩
  show pevCore (pev f) var d.get c = _
  simp only [pevCore, h0, h1, h2, h]

theorem precedence_or {d : Y} {items : List Y} (h0 : d.get "propertyConstraints" = none) (h1 : d.get "rego" = none)
    (h2 : d.get "regoModule" = none) (h3 : d.get "and" = none) (h : d.get "or" = some (.seq items))
    (f : Nat) (var : String) (c : Nat) :
    pev (f + 1) var d c = (parseItems (pev f) var items c).map (fun p => (.or false p.1, p.2)) := by
  show pevCore (pev f) var d.get c = _
  simp only [pevCore, h0, h1, h2, h3, h]

theorem precedence_or_not_list {d o : Y} (h0 : d.get "propertyConstraints" = none) (h1 : d.get "rego" = none)
    (h2 : d.get "regoModule" = none) (h3 : d.get "and" = none) (h : d.get "or" = some o)
    (ho : ∀ items, o ≠ .seq items) (f : Nat) (var : String) (c : Nat) : ∃ e, pev (f + 1) var d c = .error e := by
  refine ⟨"or constraint must be a list", ?_⟩
  show pevCore (pev f) var d.get c = _
  simp only [pevCore, h0, h1, h2, h3, h]

/-- `not`: parse the operand, then push the negation down -/
theorem precedence_not {d : Y} {es : List (Y × Y)} (h0 : d.get "propertyConstraints" = none)
    (h1 : d.get "rego" = none) (h2 : d.get "regoModule" = none) (h3 : d.get "and" = none)
    (h4 : d.get "or" = none) (h : d.get "not" = some (.map es)) (f : Nat) (var : String) (c : Nat) :
    pev (f + 1) var d c = (pev f var (.map es) c).map (fun p => (p.1.negate, p.2)) := by
  show pevCore (pev f) var d.get c = _
  simp only [pevCore, h0, h1, h2, h3, h4, h]

theorem precedence_not_not_map {d n : Y} (h0 : d.get "propertyConstraints" = none)
    (h1 : d.get "rego" = none) (h2 : d.get "regoModule" = none) (h3 : d.get "and" = none)
    (h4 : d.get "or" = none) (h : d.get "not" = some n) (hn : ∀ es, n ≠ .map es)
    (f : Nat) (var : String) (c : Nat) : ∃ e, pev (f + 1) var d c = .error e := by
  refine ⟨"not constraint must be a mpa", ?_⟩
  show pevCore (pev f) var d.get c = _
  simp only [pevCore, h0, h1, h2, h3, h4, h]

theorem precedence_if {d i t : Y} (h0 : d.get "propertyConstraints" = none) (h1 : d.get "rego" = none)
    (h2 : d.get "regoModule" = none) (h3 : d.get "and" = none) (h4 : d.get "or" = none)
    (h5 : d.get "not" = none) (h : d.get "if" = some i) (ht : d.get "then" = some t)
    (f : Nat) (var : String) (c : Nat) :
    pev (f + 1) var d c = parseConditional (pev f) var i t (d.get "else") c := by
  show pevCore (pev f) var d.get c = _
  simp only [pevCore, h0, h1, h2, h3, h4, h5, h, ht]

theorem if_without_then_is_error {d i : Y} (h0 : d.get "propertyConstraints" = none) (h1 : d.get "rego" = none)
    (h2 : d.get "regoModule" = none) (h3 : d.get "and" = none) (h4 : d.get "or" = none)
    (h5 : d.get "not" = none) (h : d.get "if" = some i) (ht : d.get "then" = none)
    (f : Nat) (var : String) (c : Nat) : ∃ e, pev (f + 1) var d c = .error e := by
  refine ⟨"Found if clause without then statement", ?_⟩
  show pevCore (pev f) var d.get c = _
  simp only [pevCore, h0, h1, h2, h3, h4, h5, h, ht]

/-- none of the seven keys: an error, whatever else the mapping contains -/
theorem no_known_key_is_error {d : Y} (h0 : d.get "propertyConstraints" = none) (h1 : d.get "rego" = none)
    (h2 : d.get "regoModule" = none) (h3 : d.get "and" = none) (h4 : d.get "or" = none)
    (h5 : d.get "not" = none) (h6 : d.get "if" = none) (f : Nat) (var : String) (c : Nat) :
    ∃ e, pev f var d c = .error e := by
  cases f with
  | zero => exact ⟨_, rfl⟩
  | succ f =>
    refine ⟨"unknown expression node, cannot find properties to parse", ?_⟩
    show pevCore (pev f) var d.get c = _
    simp only [pevCore, h0, h1, h2, h3, h4, h5, h6]

/-! ## 4. Fresh variables -/

/-- name of the `i`-th variable of a validation -/
abbrev vn (i : Nat) : String := Ident.varName Gen.varLetters i

/-- the counter only grows, and the variables bound by the result are exactly those numbered from the old
counter up to the new one, in pre-order -/
def Fresh (c : Nat) (r : PRule) (c' : Nat) : Prop :=
  c ≤ c' ∧ r.boundVars = (List.range' c (c' - c)).map vn

theorem range'_split {c m c' : Nat} (h1 : c ≤ m) (h2 : m ≤ c') :
    List.range' c (m - c) ++ List.range' m (c' - m) = List.range' c (c' - c) := by
  have := @List.range'_append c (m - c) (c' - m) 1
  have e1 : c + 1 * (m - c) = m := by omega
  have e2 : m - c + (c' - m) = c' - c := by omega
  rw [e1, e2] at this
  exact this

theorem fresh_list : ∀ {rs : List PRule} {c c' : Nat}, PList Fresh c rs c' →
    c ≤ c' ∧ boundVarsList rs = (List.range' c (c' - c)).map vn
  | [], c, c', h => by
    cases h
    simp [boundVarsList]
  | r :: rs, c, c', ⟨m, ⟨h1, hr⟩, hrs⟩ => by
    obtain ⟨h2, hl⟩ := fresh_list hrs
    refine ⟨Nat.le_trans h1 h2, ?_⟩
    simp only [boundVarsList, hr, hl, ← List.map_append, range'_split h1 h2]

theorem fresh_closed : Closed Fresh where
  atom := by intro c var path a; simp [Fresh, PRule.boundVars]
  and := by intro c body c' h; simpa [Fresh, PRule.boundVars] using fresh_list h
  or := by intro c body c' h; simpa [Fresh, PRule.boundVars] using fresh_list h
  cond := by intro c body c' h; simpa [Fresh, PRule.boundVars] using fresh_list h
  nested := by
    intro c c' value var child path hc ⟨h1, h2⟩
    refine ⟨by omega, ?_⟩
    have e : c' - c = (c' - (c + 1)) + 1 := by omega
    simp only [PRule.boundVars, hc, h2, e, List.range'_succ, List.map_cons, genVar]
  negate := by
    intro c r c' ⟨h1, h2⟩
    exact ⟨h1, by rw [boundVars_negate, h2]⟩

/-- the child variables allocated while an expression is parsed are those numbered `c … c' - 1` -/
theorem pev_fresh {f : Nat} {var : String} {d : Y} {c : Nat} {r : PRule} {c' : Nat}
    (h : pev f var d c = .ok (r, c')) : c ≤ c' ∧ r.boundVars = (List.range' c (c' - c)).map vn :=
  pev_inv fresh_closed f var d c r c' h

theorem vn_injective {i j : Nat} (h : vn i = vn j) : i = j :=
  Classical.byContradiction fun hne => Acv.C07.var_names_distinct i j hne h

theorem nodup_map_vn (s n : Nat) : ((List.range' s n).map vn).Nodup :=
  List.Pairwise.map vn (fun _ _ hab h => hab (vn_injective h)) (List.nodup_range' (s := s) (n := n))

/-- Within one validation, the top-level variable and the child variables of all nested / quantified
expressions are `x, y, z, …` = the variables number `0 … n` in order of appearance, hence pairwise distinct. -/
theorem variables_fresh {fuel : Nat} {name level : String} {d : Y} {r : PRule}
    (h : parseExpression fuel name d level = .ok r) :
    (∃ n, r.boundVars = (List.range' 0 (n + 1)).map vn) ∧ r.boundVars.Nodup := by
  simp only [parseExpression] at h
  split at h
  · cases h
  · split at h
    · cases h
    · rename_i value c' hv
      simp only [Except.ok.injEq] at h
      subst h
      obtain ⟨h1, h2⟩ := pev_fresh hv
      have hb : ∀ (nm lv cls me : String) (mv : List String),
          (PRule.top nm lv cls (genVar 0) false me mv value).boundVars = (List.range' 0 ((c' - 1) + 1)).map vn := by
        intro nm lv cls me mv
        simp only [PRule.boundVars, h2, List.range'_succ, List.map_cons, genVar, Nat.zero_add]
      exact ⟨⟨c' - 1, hb _ _ _ _ _⟩, by rw [hb]; exact nodup_map_vn _ _⟩

/-- the same inside an expression: distinct child variables, all different from the variables handed out before -/
theorem pev_boundVars_nodup {f : Nat} {var : String} {d : Y} {c : Nat} {r : PRule} {c' : Nat}
    (h : pev f var d c = .ok (r, c')) : r.boundVars.Nodup ∧ ∀ i, i < c → vn i ∉ r.boundVars := by
  obtain ⟨_, h2⟩ := pev_fresh h
  rw [h2]
  refine ⟨nodup_map_vn _ _, ?_⟩
  intro i hi hmem
  simp only [List.mem_map, List.mem_range'_1] at hmem
  obtain ⟨j, ⟨hj, _⟩, hvn⟩ := hmem
  have := vn_injective hvn
  omega

/-! ## 5. Negation -/

/-- De Morgan twice gives back the original tree (for trees whose connectives are not flagged as negated —
which is all the parser ever produces, see `negate_no_negated_connective`) -/
theorem negate_negate (r : PRule) (h : r.noNegConn = true) : r.negate.negate = r :=
  negate_negate_aux r h

/-- without the side condition the flag of a negated connective is lost (Go: `AndRule.Negate` ignores
`r.Negated`): double negation of `¬(a ∧ b)` is `a ∧ b` -/
example : (PRule.and true []).negate.negate = PRule.and false [] := rfl

def NoNeg (_ : Nat) (r : PRule) (_ : Nat) : Prop := r.noNegConn = true

theorem noNeg_list : ∀ {rs : List PRule} {c c' : Nat}, PList NoNeg c rs c' → allNoNegConn rs = true
  | [], _, _, _ => rfl
  | r :: rs, _, _, ⟨_, hr, hrs⟩ => by
    simp only [allNoNegConn, Bool.and_eq_true]
    exact ⟨hr, noNeg_list hrs⟩

theorem noNeg_closed : Closed NoNeg where
  atom := by intro c var path a; rfl
  and := by intro c body c' h; simp [NoNeg, PRule.noNegConn, noNeg_list h]
  or := by intro c body c' h; simp [NoNeg, PRule.noNegConn, noNeg_list h]
  cond := by intro c body c' h; simp [NoNeg, PRule.noNegConn, noNeg_list h]
  nested := by intro c c' value var child path _ h; exact h
  negate := by intro c r c' h; exact noNegConn_negate r h

/-- `parseExpressionValue` never returns a tree containing an `and` / `or` node whose `neg` flag is set
(negation is always pushed through the connectives) -/
theorem negate_no_negated_connective {f : Nat} {var : String} {d : Y} {c : Nat} {r : PRule} {c' : Nat}
    (h : pev f var d c = .ok (r, c')) : r.noNegConn = true :=
  pev_inv noNeg_closed f var d c r c' h

/-- in particular its root is not a negated connective -/
theorem root_not_negated_connective {f : Nat} {var : String} {d : Y} {c : Nat} {r : PRule} {c' : Nat}
    (h : pev f var d c = .ok (r, c')) : ∀ body, r ≠ .and true body ∧ r ≠ .or true body := by
  intro body
  have := negate_no_negated_connective h
  constructor <;> (intro heq; rw [heq] at this; simp [PRule.noNegConn] at this)

/-- so on parser output negation is an involution -/
theorem negate_negate_parsed {f : Nat} {var : String} {d : Y} {c : Nat} {r : PRule} {c' : Nat}
    (h : pev f var d c = .ok (r, c')) : r.negate.negate = r :=
  negate_negate r (negate_no_negated_connective h)

/-- the same for whole validations -/
theorem parseExpression_no_negated_connective {fuel : Nat} {name level : String} {d : Y} {r : PRule}
    (h : parseExpression fuel name d level = .ok r) : r.noNegConn = true := by
  simp only [parseExpression] at h
  split at h
  · cases h
  · split at h
    · cases h
    · rename_i value c' hv
      simp only [Except.ok.injEq] at h
      subst h
      simp only [PRule.noNegConn]
      exact negate_no_negated_connective hv

/-! ## 6. Errors and skipped names (`parseProfile : Y → Except String Profile` is total by construction) -/

theorem not_a_map_is_error (doc : Y) (h : ∀ es, doc ≠ .map es) : ∃ e, parseProfile doc = .error e := by
  cases doc with
  | map es => exact absurd rfl (h es)
  | scalar _ _ => exact ⟨_, rfl⟩
  | seq _ => exact ⟨_, rfl⟩
  | other _ => exact ⟨_, rfl⟩

/-- `validations` missing, or present but not a mapping -/
theorem missing_validations_is_error (doc : Y) (h : isMap (doc.get "validations") = false) :
    ∃ e, parseProfile doc = .error e := by
  unfold parseProfile parseProfileWith
  split
  · split
    · exact ⟨_, rfl⟩
    · split
      · exact ⟨_, rfl⟩
      · split
        · rename_i vs hv
          rw [hv] at h
          simp [isMap] at h
        · exact ⟨_, rfl⟩
  · exact ⟨_, rfl⟩

theorem missing_validations_is_error' (doc : Y) (h : doc.get "validations" = none) :
    ∃ e, parseProfile doc = .error e :=
  missing_validations_is_error doc (by rw [h]; rfl)

/-- `profile` missing or not a string -/
theorem missing_profile_name_is_error (doc : Y) (h : str? (doc.get "profile") = none) :
    ∃ e, parseProfile doc = .error e := by
  unfold parseProfile parseProfileWith
  split
  · split
    · exact ⟨_, rfl⟩
    · rename_i name hn
      rw [hn] at h
      cases h
  · exact ⟨_, rfl⟩

/-- A level list naming a validation that is not defined: no rule and no error — the name might as well not
be listed. -/
theorem undefined_names_skipped (fuel : Nat) (level : String) (validations : Y) (name : String)
    (h : validations.get name = none) (tag : String) :
    ∀ (pre post : List Y), levelLoop fuel level validations (pre ++ Y.scalar tag name :: post) =
      levelLoop fuel level validations (pre ++ post)
  | [], post => by
    simp only [List.nil_append, levelLoop, str?]
    cases htag : (tag == "!!str") <;> simp [h]
  | n :: pre, post => by
    simp only [List.cons_append, levelLoop, undefined_names_skipped fuel level validations name h tag pre post]

/-- a level that lists only undefined names has no rules -/
theorem only_undefined_names (fuel : Nat) (level : String) (validations : Y) :
    ∀ (names : List Y), (∀ n ∈ names, ∀ s, str? (some n) = some s → validations.get s = none) →
      levelLoop fuel level validations names = .ok []
  | [], _ => rfl
  | n :: ns, h => by
    have ih := only_undefined_names fuel level validations ns (fun n' hn' => h n' (List.mem_cons_of_mem _ hn'))
    simp only [levelLoop]
    split
    · exact ih
    · rename_i name hs
      rw [h n (List.mem_cons_self) name hs]
      exact ih

/-- a level that is absent or not a sequence has no rules and is no error -/
theorem level_not_a_list (fuel : Nat) (level : String) (doc validations : Y) (h : arr? (doc.get level) = none) :
    parseLevel fuel level doc validations = .ok [] := by
  simp only [parseLevel, h]

/-! ## 7. The recursion budget of the model is never exhausted -/

/-- With a budget of at least the depth of the tree, the result depends neither on the budget nor on what the
function does when the budget is 0 (`pevB bottom` is `pev` with `bottom` in place of the out-of-fuel error):
the bottom is never reached. -/
theorem fuel_never_exhausted {y : Y} {f f' : Nat} (h : y.depth ≤ f) (h' : y.depth ≤ f') (b b' : Rec)
    (var : String) (c : Nat) : pevB b f var y c = pevB b' f' var y c :=
  pevB_fuel b b' y.depth f f' h h' y y ⟨rfl, Nat.le_refl _⟩ var c

theorem pev_fuel_irrelevant {y : Y} {f f' : Nat} (h : y.depth ≤ f) (h' : y.depth ≤ f') (var : String) (c : Nat) :
    pev f var y c = pev f' var y c := by
  rw [pev_eq_pevB, pev_eq_pevB]
  exact fuel_never_exhausted h h' _ _ var c

theorem parseExpression_fuel_irrelevant {y : Y} {f f' : Nat} (h : y.depth ≤ f) (h' : y.depth ≤ f')
    (name level : String) : parseExpression f name y level = parseExpression f' name y level := by
  simp only [parseExpression, pev_fuel_irrelevant h h']

theorem levelLoop_fuel_irrelevant {validations : Y} {f f' : Nat} (h : validations.depth ≤ f)
    (h' : validations.depth ≤ f') (level : String) :
    ∀ names, levelLoop f level validations names = levelLoop f' level validations names
  | [] => rfl
  | n :: ns => by
    simp only [levelLoop, levelLoop_fuel_irrelevant h h' level ns]
    split
    · rfl
    · split
      · rfl
      · rename_i v hv
        have := depth_get hv
        rw [parseExpression_fuel_irrelevant (f := f) (f' := f') (by omega) (by omega)]

theorem parseLevel_fuel_irrelevant {doc validations : Y} {f f' : Nat} (h : validations.depth ≤ f)
    (h' : validations.depth ≤ f') (level : String) :
    parseLevel f level doc validations = parseLevel f' level doc validations := by
  simp only [parseLevel]
  split
  · rfl
  · exact levelLoop_fuel_irrelevant h h' level _

theorem parseProfileWith_fuel_irrelevant {doc : Y} {f f' : Nat} (h : doc.depth ≤ f) (h' : doc.depth ≤ f') :
    parseProfileWith f doc = parseProfileWith f' doc := by
  cases doc with
  | map es =>
    simp only [parseProfileWith]
    split
    · rfl
    · split
      · rfl
      · split
        · rename_i vs hv
          have := depth_get hv
          simp only [parseLevel_fuel_irrelevant (f := f) (f' := f') (validations := .map vs) (by omega) (by omega)]
        · rfl
  | scalar _ _ => rfl
  | seq _ => rfl
  | other _ => rfl

/-- `parseProfile` uses the depth of the document as budget; any larger budget gives the same profile -/
theorem parseProfile_fuel_irrelevant {doc : Y} {f : Nat} (h : doc.depth ≤ f) :
    parseProfileWith f doc = parseProfile doc :=
  parseProfileWith_fuel_irrelevant h (Nat.le_refl _)

/-! ## Non-vacuity -/

section Examples

private def s (v : String) : Y := .scalar "!!str" v
private def i (v : String) : Y := .scalar "!!int" v

/-- `not` over `propertyConstraints` with a `nested`; the level lists an undefined validation `w` -/
private def t1 : Y := .map [(s "profile", s "p"), (s "violation", .seq [s "v", s "w"]),
  (s "validations", .map [(s "v", .map [(s "targetClass", s "ex.T"),
     (s "not", .map [(s "propertyConstraints", .map [(s "ex.p",
        .map [(s "minCount", i "1"), (s "nested", .map [(s "rego", s "code")])])])])])])]

private def r1 : PRule := .top "v" "violation" "ex.T" {name := "x"} false "Validation error" []
  (.or false [.atom true "x" ⟨"ex.p", "ex.p"⟩ (.count "minCount" 0 1 1),
              .nested true "x" {name := "y"} ⟨"ex.p", "ex.p"⟩
                (.atom false "y" ⟨"null", ""⟩ (.rego "Violation in native Rego constraint" "code"))])

example : parseProfile t1 = .ok { name := "p", description := none, customRego := none, prefixes := [], violation := [r1], warning := [], info := [] } := by rfl

example : r1.boundVars = ["x", "y"] := by decide
example : r1.noNegConn = true := by decide

/-- key precedence: `propertyConstraints` hides `rego`; `and` hides `or` -/
private def t2 (keys : List (Y × Y)) : Y := .map [(s "profile", s "p"), (s "warning", .seq [s "v"]),
  (s "validations", .map [(s "v", .map ((s "targetClass", s "ex.T") :: keys))])]

example : parseProfile (t2 [(s "rego", s "a"), (s "propertyConstraints", .map [])]) =
    parseProfile (t2 [(s "propertyConstraints", .map [])]) := by rfl

example : parseProfile (t2 [(s "or", .seq []), (s "and", .seq [])]) = parseProfile (t2 [(s "and", .seq [])]) := by rfl

/-- two quantified constraints and a nested one: variables x, y, z, p in order of allocation -/
private def t3 : Y := t2 [(s "propertyConstraints", .map [(s "ex.a", .map [
    (s "nested", .map [(s "rego", s "c")]),
    (s "atLeast", .map [(s "count", i "2"), (s "validation", .map [(s "propertyConstraints", .map [(s "ex.b",
        .map [(s "nested", .map [(s "rego", s "d")])])])])])])])]

example : (match parseProfile t3 with
    | .ok p => p.warning.map PRule.boundVars
    | .error _ => []) = [["x", "y", "z", "p"]] := by rfl

/-- deep key order: the validation, the mapping under `not`, and the constraint mapping of `ex.p` inside it
are all permuted -/
private def t4 : Y := .map [(s "targetClass", s "ex.T"), (s "message", s "m"),
  (s "not", .map [(s "propertyConstraints", .map [(s "ex.p", .map [(s "minCount", i "1"), (s "maxCount", i "2")])]),
                  (s "x-comment", s "c")])]
private def t4' : Y := .map [(s "not", .map [(s "x-comment", s "c"),
    (s "propertyConstraints", .map [(s "ex.p", .map [(s "maxCount", i "2"), (s "minCount", i "1")])])]),
  (s "targetClass", s "ex.T"), (s "message", s "m")]

private theorem t4_sim : SimAll t4 t4' := by
  -- inside `propertyConstraints`: permute the constraints of `ex.p`
  have h1 : PCRel SimAll (.map [(s "ex.p", .map [(s "minCount", i "1"), (s "maxCount", i "2")])])
      (.map [(s "ex.p", .map [(s "maxCount", i "2"), (s "minCount", i "1")])]) :=
    PCRel.entry (pre := []) SimAll.refl (by simp)
      (ConsRel.perm SimAll.refl (List.Perm.swap _ _ _) (distinctKeys_of_nodup (by decide)))
  -- the mapping under `not`: rewrite under `propertyConstraints`, then permute
  have h2 : SimAll (.map [(s "propertyConstraints", .map [(s "ex.p", .map [(s "minCount", i "1"), (s "maxCount", i "2")])]),
        (s "x-comment", s "c")])
      (.map [(s "x-comment", s "c"),
        (s "propertyConstraints", .map [(s "ex.p", .map [(s "maxCount", i "2"), (s "minCount", i "1")])])]) :=
    (SimAll.entry (pre := []) (by simp) (by simpa [ValRel] using h1)).trans
      (SimAll.perm (List.Perm.swap _ _ _) (distinctKeys_of_nodup (by decide)))
  -- the validation: rewrite under `not`, then rotate
  exact (SimAll.entry (pre := [(s "targetClass", s "ex.T"), (s "message", s "m")]) (by simp [s, Y.isKey])
      (by simpa [ValRel] using h2)).trans
    (SimAll.perm (List.perm_append_comm (l₁ := [(s "targetClass", s "ex.T"), (s "message", s "m")]))
      (distinctKeys_of_nodup (by decide)))

example (fuel : Nat) : parseExpression fuel "v" t4 "violation" = parseExpression fuel "v" t4' "violation" :=
  validation_key_order t4_sim fuel "v" "violation"

/-- … whereas permuting the keys of a `propertyConstraints` mapping changes the result: the conjuncts swap and
the child variable `y` goes to the other path -/
private def nestedPaths : PRule → List (String × String)
  | .and _ body => body.filterMap fun r => match r with
      | .nested _ _ child path _ => some (path.dump, child.name)
      | _ => none
  | _ => []

example :
    (pev 9 "x" (.map [(s "propertyConstraints", .map [(s "ex.a", .map [(s "nested", .map [(s "rego", s "1")])]),
        (s "ex.b", .map [(s "nested", .map [(s "rego", s "2")])])])]) 1).toOption.map (nestedPaths ·.1)
      = some [("ex.a", "y"), ("ex.b", "z")] ∧
    (pev 9 "x" (.map [(s "propertyConstraints", .map [(s "ex.b", .map [(s "nested", .map [(s "rego", s "2")])]),
        (s "ex.a", .map [(s "nested", .map [(s "rego", s "1")])])])]) 1).toOption.map (nestedPaths ·.1)
      = some [("ex.b", "y"), ("ex.a", "z")] :=
  ⟨by rfl, by rfl⟩

/-- key tags: the validation `1001` written with a plain (`!!int`) key, `propertyConstraints` and the path with
odd key tags; re-tagging every key to `!!str` gives a syntactically different tree … -/
private def t5 : Y := .map [(s "profile", s "p"), (s "violation", .seq [s "1001"]),
  (s "validations", .map [(i "1001", .map [(s "targetClass", s "ex.T"),
     (.scalar "!!x" "propertyConstraints", .map [(.scalar "!!null" "ex.p", .map [(s "minCount", i "1")])])])])]
private def t5' : Y := .map [(s "profile", s "p"), (s "violation", .seq [s "1001"]),
  (s "validations", .map [(s "1001", .map [(s "targetClass", s "ex.T"),
     (s "propertyConstraints", .map [(s "ex.p", .map [(s "minCount", i "1")])])])])]

example : t5.retagKeys (fun _ _ => "!!str") = t5' := by
  simp [t5, t5', s, i, Y.retagKeyPos]
example : t5.retagKeys (fun _ _ => "!!str") ≠ t5 := by
  simp [t5, s, i, Y.retagKeyPos]
/-- … the value tags are kept (`violation: ["1001"]` stays `!!str`, `minCount: 1` stays `!!int`) … -/
example : (t5.retagKeys (fun _ _ => "!!str")).get "violation" = some (.seq [s "1001"]) := by
  simp [t5, s, i, Y.retagKeyPos, Y.get, getEntries, Y.isKey]
/-- … and both parse to the same profile with one rule (not to an error) -/
example : parseProfile t5 = parseProfile (t5.retagKeys (fun _ _ => "!!str")) := profile_key_tags _ t5
example : parseProfile t5 = parseProfile t5' := by rfl
private def r5 : PRule := .top "1001" "violation" "ex.T" {name := "x"} false "Validation error" []
  (.and false [.atom false "x" ⟨"ex.p", "ex.p"⟩ (.count "minCount" 0 1 1)])
example : parseProfile t5 = .ok { name := "p", description := none, customRego := none, prefixes := [], violation := [r5], warning := [], info := [] } := by rfl
/-- the keys inside a `rego` mapping (where `SimAll` fails, `not_simAll_retagKeys`): same rule for every budget -/
example (fuel : Nat) (var : String) (c : Nat) :
    pev fuel var (.map [(s "rego", .map [(s "code", s "c")])]) c =
      pev fuel var (.map [(.scalar "!!x" "rego", .map [(.scalar "!!x" "code", s "c")])]) c := by
  have := expression_key_tags (fun _ _ => "!!x") (.map [(s "rego", .map [(s "code", s "c")])]) fuel var c
  simpa [s, Y.retagKeyPos] using this
/-- re-tagging a VALUE is visible: a level entry tagged `!!int` is not a string and is skipped -/
example : parseProfile (.map [(s "profile", s "p"), (s "violation", .seq [i "1001"]),
    (s "validations", .map [(i "1001", .map [(s "targetClass", s "ex.T"), (s "propertyConstraints", .map [])])])]) =
    .ok { name := "p", description := none, customRego := none, prefixes := [], violation := [], warning := [],
          info := [] } := by rfl

/-- errors -/
example : ∃ e, parseProfile (s "just a string") = .error e := ⟨_, rfl⟩
example : ∃ e, parseProfile (.map [(s "profile", s "p")]) = .error e := ⟨_, rfl⟩
example : ∃ e, parseProfile (t2 [(s "and", s "not a list")]) = .error e := ⟨_, rfl⟩
example : ∃ e, parseProfile (t2 [(s "propertyConstraints", .map [(s "not a path ???", .map [])])]) = .error e :=
  ⟨_, by rfl⟩

end Examples

end Acv.ProfileParser

#print axioms Acv.ProfileParser.get_is_first_match
#print axioms Acv.ProfileParser.get_eq_some_iff
#print axioms Acv.ProfileParser.get_eq_none_iff
#print axioms Acv.ProfileParser.get_perm
#print axioms Acv.ProfileParser.validation_key_order_partial
#print axioms Acv.ProfileParser.validation_key_order
#print axioms Acv.ProfileParser.expression_key_order_deep
#print axioms Acv.ProfileParser.key_order_under
#print axioms Acv.ProfileParser.key_order_under_connective
#print axioms Acv.ProfileParser.expression_key_order
#print axioms Acv.ProfileParser.validation_key_tags
#print axioms Acv.ProfileParser.expression_key_tags
#print axioms Acv.ProfileParser.profile_key_tags
#print axioms Acv.ProfileParser.profileWith_key_tags
#print axioms Acv.ProfileParser.validation_key_order_tags
#print axioms Acv.ProfileParser.validation_key_tags_partial
#print axioms Acv.PP.simAll_retagKeys_partial
#print axioms Acv.PP.not_simAll_retagKeys
#print axioms Acv.PP.pev_retagKeys
#print axioms Acv.PP.parseProfile_retagKeys
#print axioms Acv.PP.depth_retagKeys
#print axioms Acv.ProfileParser.precedence
#print axioms Acv.ProfileParser.precedence_propertyConstraints
#print axioms Acv.ProfileParser.precedence_rego
#print axioms Acv.ProfileParser.precedence_regoModule
#print axioms Acv.ProfileParser.precedence_and
#print axioms Acv.ProfileParser.precedence_and_not_list
#print axioms Acv.ProfileParser.precedence_or_not_list
#print axioms Acv.ProfileParser.precedence_not_not_map
#print axioms Acv.ProfileParser.if_without_then_is_error
#print axioms Acv.ProfileParser.precedence_or
#print axioms Acv.ProfileParser.precedence_not
#print axioms Acv.ProfileParser.precedence_if
#print axioms Acv.ProfileParser.no_known_key_is_error
#print axioms Acv.ProfileParser.pev_fresh
#print axioms Acv.ProfileParser.variables_fresh
#print axioms Acv.ProfileParser.pev_boundVars_nodup
#print axioms Acv.ProfileParser.negate_negate
#print axioms Acv.ProfileParser.negate_no_negated_connective
#print axioms Acv.ProfileParser.root_not_negated_connective
#print axioms Acv.ProfileParser.negate_negate_parsed
#print axioms Acv.ProfileParser.parseExpression_no_negated_connective
#print axioms Acv.ProfileParser.not_a_map_is_error
#print axioms Acv.ProfileParser.missing_validations_is_error
#print axioms Acv.ProfileParser.missing_validations_is_error'
#print axioms Acv.ProfileParser.missing_profile_name_is_error
#print axioms Acv.ProfileParser.undefined_names_skipped
#print axioms Acv.ProfileParser.only_undefined_names
#print axioms Acv.ProfileParser.level_not_a_list
#print axioms Acv.ProfileParser.fuel_never_exhausted
#print axioms Acv.ProfileParser.pev_fuel_irrelevant
#print axioms Acv.ProfileParser.parseExpression_fuel_irrelevant
#print axioms Acv.ProfileParser.parseProfile_fuel_irrelevant
