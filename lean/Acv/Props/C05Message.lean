import Acv.Props.C05
/-!
# C05 and messages that quote a multi-valued property (known finding KF-C05-1)

A validation message may quote a node property (`{{prefix.property}}`); the policy binds the placeholder with
`object.get(node, iri, "null")` and prints it with `%v`.  For a multi-valued property that is the ARRAY the
flattened document holds — in first-seen (document) order, which is exactly the order `norm` keeps
(`groupNode` deduplicates in first-seen order).

* `quoted_values_same_set` (holds): two serialisations of one graph show the same SET of values for every
  property of every node (corollary of `reserialisation_same_reads`);
* `quoted_single_value_invariant_partial` (holds, the part of C05 that is true for messages): a property with at
  most one value is shown identically by all serialisations;
* `quoted_values_order_sensitive` (the negation of the full statement, by a concrete witness): there are two
  well-formed serialisations of one graph for which the quoted text differs (`["a", "b"]` vs `["b", "a"]`).
  The witness is replayed on the real code by the C05 check (signature `C05:message-value-order`).
-/
namespace Acv.C05
open Acv Acv.Ld

/-- what `%v` prints for a value inside an array -/
def showVal : Val → String
  | .str s => "\"" ++ s ++ "\""
  | .num i => toString i
  | .bool b => if b then "true" else "false"
  | .ref id => "{\"@id\": \"" ++ id ++ "\"}"

/-- what a placeholder shows for the values the index lists (in the index's order): `null` when absent, the bare
value when there is one, the bracketed list otherwise -/
def quoted : List Val → String
  | [] => "null"
  | [.str s] => s
  | [v] => showVal v
  | vs => "[" ++ ", ".intercalate (vs.map showVal) ++ "]"

/-- the values a message placeholder on property `k` of node `id` sees, in the order the index lists them -/
def placeholderValues (ix : Index) (id k : String) : List Val :=
  match Graph.find ix.nodes id with
  | some n => n.get k
  | none => []

/-- the SET of quoted values does not depend on the serialisation -/
theorem quoted_values_same_set (g : Graph) (c₁ c₂ : Choice) (h₁ : WF g c₁ = true) (h₂ : WF g c₂ = true) :
    ∃ i₁ i₂, norm (ser g c₁) = some i₁ ∧ norm (ser g c₂) = some i₂ ∧
      ∀ id k v, k ≠ "@type" → (v ∈ placeholderValues i₁ id k ↔ v ∈ placeholderValues i₂ id k) := by
  obtain ⟨i₁, i₂, e₁, e₂, _, _, hv⟩ := reserialisation_same_reads g c₁ c₂ h₁ h₂
  refine ⟨i₁, i₂, e₁, e₂, fun id k v hk => ?_⟩
  have := hv id k v hk
  unfold placeholderValues
  constructor
  · intro h
    cases hf : Graph.find i₁.nodes id with
    | none => simp [hf] at h
    | some n =>
      simp only [hf] at h
      obtain ⟨n', hn', hv'⟩ := this.1 ⟨n, hf, h⟩
      simp [hn', hv']
  · intro h
    cases hf : Graph.find i₂.nodes id with
    | none => simp [hf] at h
    | some n =>
      simp only [hf] at h
      obtain ⟨n', hn', hv'⟩ := this.2 ⟨n, hf, h⟩
      simp [hn', hv']

/-- two duplicate-free lists with the same elements and at most one element are equal -/
theorem eq_of_same_elements_le_one {α : Type} (l₁ l₂ : List α) (h : ∀ v, v ∈ l₁ ↔ v ∈ l₂)
    (n₁ : l₁.length ≤ 1) (n₂ : l₂.length ≤ 1) : l₁ = l₂ := by
  match l₁, l₂, n₁, n₂ with
  | [], [], _, _ => rfl
  | [], b :: _, _, _ => exact absurd ((h b).2 (by simp)) (by simp)
  | a :: _, [], _, _ => exact absurd ((h a).1 (by simp)) (by simp)
  | [a], [b], _, _ =>
    have : a ∈ [b] := (h a).1 (by simp)
    simp at this
    simp [this]
  | _ :: _ :: _, _, n, _ => simp at n
  | _, _ :: _ :: _, _, n => simp at n

/-- **Partial** (the full statement — for every property — is false, see `quoted_values_order_sensitive`): when both
indexes list at most one value for the property, every serialisation shows the same text. -/
theorem quoted_single_value_invariant_partial (g : Graph) (c₁ c₂ : Choice) (h₁ : WF g c₁ = true) (h₂ : WF g c₂ = true) :
    ∃ i₁ i₂, norm (ser g c₁) = some i₁ ∧ norm (ser g c₂) = some i₂ ∧
      ∀ id k, k ≠ "@type" → (placeholderValues i₁ id k).length ≤ 1 → (placeholderValues i₂ id k).length ≤ 1 →
        quoted (placeholderValues i₁ id k) = quoted (placeholderValues i₂ id k) := by
  obtain ⟨i₁, i₂, e₁, e₂, hs⟩ := quoted_values_same_set g c₁ c₂ h₁ h₂
  refine ⟨i₁, i₂, e₁, e₂, fun id k hk n₁ n₂ => ?_⟩
  rw [eq_of_same_elements_le_one _ _ (fun v => hs id k v hk) n₁ n₂]

/-! ### the witness -/

/-- one node with two values of one property -/
def gAB : Graph := [⟨"http://n/1", ["http://c/T"], [("http://p/v", [.str "a", .str "b"])]⟩]

/-- the values in the order a, b … -/
def cAB : Choice := ⟨[⟨0, [.id, .types [0] false, .prop 0 false [.plain 0 false, .plain 1 false]]⟩], .array⟩
/-- … and in the order b, a -/
def cBA : Choice := ⟨[⟨0, [.id, .types [0] false, .prop 0 false [.plain 1 false, .plain 0 false]]⟩], .array⟩

example : WF gAB cAB = true ∧ WF gAB cBA = true := by decide

/-- The full statement "every serialisation shows the same quoted text" is FALSE: -/
theorem quoted_values_order_sensitive :
    ∃ (g : Graph) (c₁ c₂ : Choice), WF g c₁ = true ∧ WF g c₂ = true ∧
      (norm (ser g c₁)).map (fun ix => quoted (placeholderValues ix "http://n/1" "http://p/v")) = some "[\"a\", \"b\"]" ∧
      (norm (ser g c₂)).map (fun ix => quoted (placeholderValues ix "http://n/1" "http://p/v")) = some "[\"b\", \"a\"]" :=
  ⟨gAB, cAB, cBA, by decide, by decide, by decide +kernel, by decide +kernel⟩

end Acv.C05

#print axioms Acv.C05.quoted_values_same_set
#print axioms Acv.C05.quoted_single_value_invariant_partial
#print axioms Acv.C05.quoted_values_order_sensitive
