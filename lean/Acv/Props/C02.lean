import Acv.Lemmas.Path
import Acv.Lemmas.Card
/-!
# C02 — property paths denote composition, union and converse of graph edges

Spec: `den` (relational denotation).  Impl-model: `trav`/`evalSteps`/`pathValues`, a transliteration of
`traverse*` and `aggregateResultsIntoSet` in `internal/generator/path.go`.
-/
namespace Acv.C02
open Acv

/-- The union of the generated traversal clauses is exactly the path's denotation. -/
theorem clauses_denote (g : Graph) (p : Path) (fetch : Bool) (n : Node) (x : Item) :
    x ∈ pathValues g p fetch n ↔ x ∈ den g p fetch n := by
  have h := trav_den g [Item.node n] p [] fetch x
  simp only [clausesReach, evalSteps, Item.nodes] at h
  simp only [pathValues, List.mem_flatMap]
  constructor
  · rintro ⟨c, hc, hx⟩
    obtain ⟨m, hm, hxm⟩ := h.1 ⟨c, hc, hx⟩
    simp at hm; subst hm; exact hxm
  · intro hx
    exact h.2 ⟨n, by simp, hx⟩

/-- A value reachable by several routes is one value: the cardinality the count constraints see
(`count` of the Rego set) is the cardinality of the denotation. -/
theorem count_is_card (g : Graph) (p : Path) (fetch : Bool) (n : Node) :
    (pathValues g p fetch n).eraseDups.length = (den g p fetch n).eraseDups.length :=
  card_eq_of_mem_iff _ _ (fun x => clauses_denote g p fetch n x)

theorem denAlt_mem (g : Graph) (fetch : Bool) (n : Node) (x : Item) :
    ∀ ps : List Path, x ∈ denAlt g ps fetch n ↔ ∃ p ∈ ps, x ∈ den g p fetch n
  | [] => by simp [denAlt]
  | p :: ps => by simp [denAlt, denAlt_mem g fetch n x ps]

/-- `a | b | …` is the union of the alternatives. -/
theorem alt_is_union (g : Graph) (ps : List Path) (fetch : Bool) (n : Node) (x : Item) :
    x ∈ den g (.alt ps) fetch n ↔ ∃ p ∈ ps, x ∈ den g p fetch n := by
  simp [den, denAlt_mem]

/-- `a / rest` composes: first `a` to a node (dereferenced through the index), then the rest. -/
theorem seq_is_composition (g : Graph) (a b : Path) (rest : List Path) (fetch : Bool) (n : Node) (x : Item) :
    x ∈ den g (.seq (a :: b :: rest)) fetch n ↔
      ∃ m, Item.node m ∈ den g a true n ∧ x ∈ den g (.seq (b :: rest)) fetch m := by
  simp only [den, denSeq, List.mem_flatMap]
  constructor
  · rintro ⟨m, hm, hx⟩; exact ⟨m, Item.mem_nodes.1 hm, hx⟩
  · rintro ⟨m, hm, hx⟩; exact ⟨m, Item.mem_nodes.2 hm, hx⟩

/-- a one-element sequence is its element -/
theorem seq_singleton (g : Graph) (a : Path) (fetch : Bool) (n : Node) :
    den g (.seq [a]) fetch n = den g a fetch n := by simp [den, denSeq]

/-- `p^` follows the predicate backwards: it yields the subjects having a link to the focus node. -/
theorem inverse_is_converse (g : Graph) (iri : String) (fetch : Bool) (n m : Node)
    (hreg : customName? iri = none) :
    Item.node m ∈ den g (.prop iri true) fetch n ↔ m ∈ g ∧ Val.ref n.id ∈ m.get iri := by
  simp [den, stepItems, stepInv, List.mem_filter, hreg]

/-- a forward predicate yields its objects (raw values for value constraints) -/
theorem forward_values (g : Graph) (iri : String) (n : Node) (x : Item)
    (hreg : customName? iri = none) :
    x ∈ den g (.prop iri false) false n ↔ ∃ v ∈ n.get iri, x = Item.lit v := by
  simp [den, stepItems, eq_comm, hreg]

/-- … and the indexed nodes they link to when nodes are requested (`nested`) -/
theorem forward_nodes (g : Graph) (iri : String) (n m : Node)
    (hreg : customName? iri = none) :
    Item.node m ∈ den g (.prop iri false) true n ↔ ∃ id, Val.ref id ∈ n.get iri ∧ g.find id = some m := by
  simp only [den, stepItems, hreg, stepFwdNodes, Bool.false_eq_true, ↓reduceIte, List.mem_map,
    List.mem_filterMap, Item.node.injEq, exists_eq_right]
  constructor
  · rintro ⟨v, hv, h⟩
    cases v <;> simp at h
    exact ⟨_, hv, h⟩
  · rintro ⟨id, hv, h⟩
    exact ⟨.ref id, hv, h⟩

/-- a step in the API-extension namespace yields the annotation nodes of that name attached to the node
(the ids of those nodes when values are requested) -/
theorem custom_forward (g : Graph) (iri name : String) (n a : Node) (h : customName? iri = some name) :
    Item.node a ∈ den g (.prop iri false) true n ↔ a ∈ customNodes g n name := by
  simp [den, stepItems, h]

theorem custom_inverse (g : Graph) (iri name : String) (fetch : Bool) (n m : Node) (h : customName? iri = some name) :
    Item.node m ∈ den g (.prop iri true) fetch n ↔
      n.get extensionNameIri = [Val.str name] ∧ m ∈ g ∧ ∃ p ∈ m.props, p.2 = [Val.ref n.id] := by
  simp only [den, stepItems, h, ↓reduceIte, List.mem_map, Item.node.injEq, exists_eq_right, customSubjects]
  split <;> simp_all [List.mem_filter]

/-! ## no variable capture inside a clause -/

def ClauseOK (c : List Step) : Prop :=
  c.map Step.bind = (List.range c.length).map pathVarCount

theorem clauseOK_snoc (t : List Step) (iri : String) (inv fetch : Bool) (h : ClauseOK t) :
    ClauseOK (t ++ [⟨iri, inv, fetch, pathVarCount t.length⟩]) := by
  unfold ClauseOK at *
  simp [List.range_succ, h]

mutual
theorem trav_ok : ∀ (p : Path) (t : List Step) (fetch : Bool), ClauseOK t →
    ∀ c ∈ trav p t fetch, ClauseOK c
  | .prop iri inv, t, fetch, ht, c, hc => by
      simp [trav] at hc; subst hc; exact clauseOK_snoc t iri inv fetch ht
  | .seq ps, t, fetch, ht, c, hc => travSeq_ok ps t fetch ht c (by simpa [trav] using hc)
  | .alt ps, t, fetch, ht, c, hc => travAlt_ok ps t fetch ht c (by simpa [trav] using hc)
theorem travSeq_ok : ∀ (ps : List Path) (t : List Step) (fetch : Bool), ClauseOK t →
    ∀ c ∈ travSeq ps t fetch, ClauseOK c
  | [], _, _, _, c, hc => by simp [travSeq] at hc
  | [p], t, fetch, ht, c, hc => trav_ok p t fetch ht c (by simpa [travSeq] using hc)
  | p :: q :: ps, t, fetch, ht, c, hc => by
      simp only [travSeq, List.mem_flatMap] at hc
      obtain ⟨t', ht', hc'⟩ := hc
      exact travSeq_ok (q :: ps) t' fetch (trav_ok p t true ht t' ht') c hc'
theorem travAlt_ok : ∀ (ps : List Path) (t : List Step) (fetch : Bool), ClauseOK t →
    ∀ c ∈ travAlt ps t fetch, ClauseOK c
  | [], _, _, _, c, hc => by simp [travAlt] at hc
  | p :: ps, t, fetch, ht, c, hc => by
      simp only [travAlt, List.mem_append] at hc
      rcases hc with h | h
      · exact trav_ok p t fetch ht c h
      · exact travAlt_ok ps t fetch ht c h
end

theorem pathVarCount_inj (i j : Nat) (h : pathVarCount i = pathVarCount j) : i = j := by
  unfold pathVarCount at h
  split at h <;> split at h <;> omega

/-- In every generated clause the Rego variables bound by the steps are pairwise distinct
(index = length of `pathVariables`, strictly increasing): no capture, whatever the path. -/
theorem bindings_distinct (p : Path) (fetch : Bool) :
    ∀ c ∈ trav p [] fetch, (clauseBindings c).Nodup := by
  intro c hc
  have h := trav_ok p [] fetch (by simp [ClauseOK]) c hc
  unfold clauseBindings
  rw [h]
  exact List.Pairwise.map pathVarCount (fun i j hij h => hij (pathVarCount_inj i j h)) List.nodup_range

/-! ## non-vacuity: a diamond with a cycle, two routes to one node -/
section
def nA : Node := ⟨"a", ["T"], [("p", [.ref "b", .ref "c"])]⟩
def nB : Node := ⟨"b", [], [("q", [.ref "d"])]⟩
def nC : Node := ⟨"c", [], [("q", [.ref "d"]), ("r", [.ref "a"])]⟩
def nD : Node := ⟨"d", [], [("v", [.num 1])]⟩
def gEx : Graph := [nA, nB, nC, nD]
example : (den gEx (.seq [.prop "p" false, .prop "q" false]) true nA).eraseDups = [Item.node nD] := by decide
example : (pathValues gEx (.seq [.prop "p" false, .alt [.prop "q" false, .prop "r" false]]) true nA).eraseDups.length = 2 := by decide
example : den gEx (.prop "r" true) false nA = [Item.node nC] := by decide
end

end Acv.C02
