import Acv.Gen.Inventory
/-!
# C10 — what is shared between concurrent calls (regenerated inventory)

The only mutable package-level state the library code touches is the identifier counter, and it is
touched only through `sync/atomic`; the other package-level variables are never assigned after
initialisation (the default context is only read: it is the *source* argument of `MergeObjectMap`);
the library starts no goroutine of its own.
-/
namespace Acv.C10
open Acv.Gen

theorem package_vars_expected : packageVars =
    ["internal/parser/profile/vargenerator.go profile.genvarCounter",
     "internal/validator/contexts/contexts.go contexts.ApiExtensionUri",
     "internal/validator/contexts/contexts.go contexts.DefaultAMFContext",
     "internal/validator/process_profile.go validator.unsafeBuiltinsMap",
     "internal/validator/report_nodes.go validator.processingDataNode"] := by decide

theorem writes_are_atomic : packageVarWrites =
    ["internal/generator/generator.go IriExpanderFrom addr-of contexts.DefaultAMFContext in types.MergeObjectMap",
     "internal/parser/profile/vargenerator.go GenReset addr-of profile.genvarCounter in atomic.StoreInt64",
     "internal/parser/profile/vargenerator.go Genvar addr-of profile.genvarCounter in atomic.AddInt64"] := by decide

theorem no_goroutines : goStatements = [] := by decide

end Acv.C10
