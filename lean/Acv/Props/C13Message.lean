import Acv.Model.Message
import Acv.Lemmas.Message
import Acv.Props.C13
/-!
# C13 (message pipeline) — what the policy computes for a message template is the specified rendering

`Acv.Msg.parseMessage` finds the placeholders, `messageLiteral` is the Rego literal the generator writes
(`sanitizedMessage` = `RegoString ∘ ReplaceAll("\"", "'")`, applied to the format string when there are
placeholders and to the raw text when there are none), `evalMessage` is the policy side (`lexString`, then
`sprintf` only when there are placeholders).  `specRender` is the specification.
-/
namespace Acv.C13
open Acv Acv.Msg

/-! ## `parseMessage` -/

/-- Segments are one more than placeholders. -/
theorem parse_lengths (raw : List Char) :
    (parseMessage raw).1.length = (parseMessage raw).2.length + 1 :=
  splitMessage_lengths _ _ _

theorem parse_no_vars (raw : List Char) (h : (parseMessage raw).2 = []) :
    (parseMessage raw).1 = [raw] := by
  have := splitMessage_no_vars (raw.length + 1) [] raw (Nat.lt_succ_self _) h
  simpa [parseMessage] using this

/-- Any larger fuel gives the same parse: the scan of `parseMessage` always reaches the end of the text. -/
theorem parse_fuel_sufficient (raw : List Char) (fuel : Nat) (h : raw.length < fuel) :
    splitMessage fuel [] raw = parseMessage raw :=
  splitMessage_fuel fuel (raw.length + 1) [] raw h (Nat.lt_succ_self _)

/-! ## Property theorems -/

/-- No placeholder: the policy's message is the template text with `"` shown as `'`; it is not treated as a
format string, so `%`, `%v`, `%!` … stay as they are. -/
theorem message_render_no_placeholders (raw : List Char) (value : List Char → List Char)
    (h : (parseMessage raw).2 = []) :
    evalMessage raw value = some (sanitize raw) ∧ specRender raw value = sanitize raw := by
  have hs := parse_no_vars raw h
  unfold evalMessage specRender messageLiteral
  cases hp : parseMessage raw with
  | mk segs vars =>
    rw [hp] at h hs
    simp only at h hs
    subst h; subst hs
    simp only [List.isEmpty_nil, if_true, lex_quote, List.map, interleave, and_self]

/-- At least one placeholder: the literal is a format string whose `sprintf` with the placeholder values is
the interleaving of the sanitized literal segments and the values. -/
theorem message_render_with_placeholders (raw : List Char) (value : List Char → List Char)
    (h : (parseMessage raw).2 ≠ []) :
    evalMessage raw value = some (specRender raw value) := by
  have hl := parse_lengths raw
  unfold evalMessage specRender messageLiteral
  cases hp : parseMessage raw with
  | mk segs vars =>
    rw [hp] at h hl
    simp only at h hl
    have he : vars.isEmpty = false := by
      cases vars with
      | nil => exact absurd rfl h
      | cons _ _ => rfl
    simp only [he, Bool.false_eq_true, if_false, lex_quote, sanitize_fmtString]
    rw [sprintf_escaped]
    simp only [List.length_map, hl]

/-- **C13, message pipeline.**  For every template (any characters) and every assignment of values to the
placeholders, the generated literal lexes and the policy computes exactly the specified rendering. -/
theorem message_render (raw : List Char) (value : List Char → List Char) :
    evalMessage raw value = some (specRender raw value) := by
  by_cases h : (parseMessage raw).2 = []
  · have := message_render_no_placeholders raw value h
    rw [this.1, this.2]
  · exact message_render_with_placeholders raw value h

/-! ## Text without `{{` -/

/-- `{{` occurs somewhere in the text. -/
def hasOpen : List Char → Bool
  | '{' :: '{' :: _ => true
  | _ :: rest => hasOpen rest
  | [] => false

theorem matchPlaceholder_some_open (cs : List Char) (r : List Char × List Char)
    (h : matchPlaceholder cs = some r) : ∃ t, cs = '{' :: '{' :: t := by
  unfold matchPlaceholder at h
  split at h
  · next r0 => exact ⟨r0, rfl⟩
  · exact absurd h (by simp)

theorem hasOpen_tail (c : Char) (cs : List Char) (h : hasOpen (c :: cs) = false) :
    hasOpen cs = false := by
  unfold hasOpen at h
  split at h
  · exact absurd h (by simp)
  · next heq => cases heq; exact h
  · next heq => cases heq

theorem splitMessage_no_open : ∀ (fuel : Nat) (cur cs : List Char), hasOpen cs = false →
    (splitMessage fuel cur cs).2 = []
  | 0, _, _, _ => by simp [splitMessage]
  | fuel + 1, cur, [], _ => by simp [splitMessage]
  | fuel + 1, cur, c :: cs, h => by
    rw [splitMessage]
    split
    · next v rest heq =>
      obtain ⟨t, ht⟩ := matchPlaceholder_some_open _ _ heq
      rw [ht] at h
      simp [hasOpen] at h
    · exact splitMessage_no_open fuel (c :: cur) cs (hasOpen_tail c cs h)

/-- A template that nowhere contains `{{` is rendered as itself (with `"` shown as `'`): braces, percent
signs, `%v`, backslashes and newlines are verbatim. -/
theorem placeholders_verbatim (raw : List Char) (value : List Char → List Char)
    (h : hasOpen raw = false) : evalMessage raw value = some (sanitize raw) :=
  (message_render_no_placeholders raw value (splitMessage_no_open _ _ _ h)).1

/-! ## Non-vacuity: hostile templates -/

/-- `100% of {{ex.a}} \ "q" %v {{ nope.x }}` -/
def hostileTemplate : List Char :=
  "100% of {{ex.a}} \\ \"q\" %v {{ nope.x }}".toList

/-- value of a placeholder: `A%v"` for `ex.a`, `null` otherwise (unknown prefix) -/
def hostileValue (v : List Char) : List Char :=
  if v = "ex.a".toList then "A%v\"".toList else "null".toList

example : parseMessage hostileTemplate =
    (["100% of ".toList, " \\ \"q\" %v ".toList, []], ["ex.a".toList, "nope.x".toList]) := by decide
example : messageLiteral hostileTemplate = "\"100%% of %v \\\\ 'q' %%v %v\"".toList := by decide
example : specRender hostileTemplate hostileValue = "100% of A%v\" \\ 'q' %v null".toList := by decide
/-- (`decide +kernel`: the elaborator's own evaluator is slow on `evalMessage`; the kernel is not.  No axiom
is added.) -/
example : evalMessage hostileTemplate hostileValue = some "100% of A%v\" \\ 'q' %v null".toList := by
  decide +kernel

/-- no placeholder: `%v`, `%d`, a lone `%`, an unfinished `{{ a.b }`, a newline — all verbatim -/
def plainTemplate : List Char := "50% %v %d {{ a.b } {x.y}}\n\"z\" \\".toList

example : (parseMessage plainTemplate).2 = [] := by decide
example : evalMessage plainTemplate hostileValue = some "50% %v %d {{ a.b } {x.y}}\n'z' \\".toList := by
  decide +kernel
example : messageLiteral plainTemplate = "\"50% %v %d {{ a.b } {x.y}}\\n'z' \\\\\"".toList := by decide

/-- not placeholders: no dot, two dots, empty side, space inside the name -/
example : (parseMessage "{{ab}} {{a.b.c}} {{.b}} {{a.}} {{a .b}}".toList).2 = [] := by decide
/-- adjacent placeholders, white space (tab, newline) inside the braces, `-` and `_` in names -/
example : parseMessage "{{a.b}}{{\t c-1.d_2\n}}".toList =
    ([[], [], []], ["a.b".toList, "c-1.d_2".toList]) := by decide
/-- leftmost match: the first `{` of `{{{` is literal text -/
example : parseMessage "{{{a.b}}}".toList = (["{".toList, "}".toList], ["a.b".toList]) := by decide

end Acv.C13

#print axioms Acv.C13.parse_lengths
#print axioms Acv.C13.parse_fuel_sufficient
#print axioms Acv.C13.message_render_no_placeholders
#print axioms Acv.C13.message_render_with_placeholders
#print axioms Acv.C13.message_render
#print axioms Acv.C13.placeholders_verbatim
