import Acv.Props.C10Inventory
import Acv.Model.Counter
import Acv.Lemmas.Counter
/-!
# C10 — generated identifiers are unique under every interleaving

Impl-model: `Acv.Counter.runAtomic` is the repaired `profile.Genvar`
(`atomic.AddInt64(&genvarCounter, 1)`), `Acv.Counter.runRacy` the code before the repair
(`counter++` and a second read of `counter`, three memory accesses per call).

* `atomic_issues_range`, `atomic_unique`, `atomic_unique_per_thread`,
  `atomic_disjoint_between_threads`: for EVERY schedule (any number of threads, any interleaving)
  and every start value, the atomic machine issues `start+1, start+2, …` without repetition.
* `racy_collides`, `racy_duplicate_across_threads`: explicit two-thread schedules of the old code in
  which a number is issued twice — even twice to the same thread, i.e. inside ONE compilation.
* `racy_sequential_ok`: without interleaving the old code behaves exactly like the atomic one, which
  is why a single-threaded test-suite could not see the defect.
-/
namespace Acv.C10
open Acv Acv.Counter

/-! ### the atomic machine -/

/-- The atomic machine performs exactly the scheduled calls, in schedule order. -/
theorem atomic_threads : ∀ (s : Nat) (sched : List Nat), (runAtomic s sched).map (·.1) = sched
  | _, [] => rfl
  | s, t :: rest => by
    rw [runAtomic_cons, List.map_cons, atomic_threads (s + 1) rest]

/-- The numbers issued are `s+1, s+2, …, s+|sched|`, in this order — for every schedule and start. -/
theorem atomic_issues_range : ∀ (s : Nat) (sched : List Nat),
    (runAtomic s sched).map (·.2) = List.range' (s + 1) sched.length
  | _, [] => rfl
  | s, t :: rest => by
    rw [runAtomic_cons, List.map_cons, atomic_issues_range (s + 1) rest, List.length_cons,
      List.range'_succ]

/-- The `k`-th call (from 0) receives `s + k + 1`, and it is the call the schedule put there. -/
theorem atomic_kth : ∀ (s : Nat) (sched : List Nat) (k : Nat) (hk : k < sched.length),
    (runAtomic s sched)[k]? = some (sched[k], s + k + 1)
  | _, [], k, hk => by simp at hk
  | s, t :: rest, 0, _ => by simp [runAtomic_cons]
  | s, t :: rest, k + 1, hk => by
    have ih := atomic_kth (s + 1) rest k (by simpa using hk)
    simp only [runAtomic_cons, List.getElem?_cons_succ, List.getElem_cons_succ, ih]
    congr 2
    omega

/-- Under every interleaving of any number of threads, no number is issued twice. -/
theorem atomic_unique (s : Nat) (sched : List Nat) : ((runAtomic s sched).map (·.2)).Nodup := by
  rw [atomic_issues_range]
  exact List.nodup_range'

/-- The numbers issued to ONE thread (the names inside one module, compiled by thread `t`) are
pairwise distinct, whatever the other threads do. -/
theorem atomic_unique_per_thread (s : Nat) (sched : List Nat) :
    ∀ t, (((runAtomic s sched).filter (·.1 = t)).map (·.2)).Nodup := by
  intro t
  exact ((List.filter_sublist (l := runAtomic s sched)).map (·.2)).nodup (atomic_unique s sched)

/-- Numbers issued to different threads are different: a number is issued to one thread only. -/
theorem atomic_disjoint_between_threads (s : Nat) (sched : List Nat) (t₁ t₂ n : Nat)
    (h₁ : (t₁, n) ∈ runAtomic s sched) (h₂ : (t₂, n) ∈ runAtomic s sched) : t₁ = t₂ := by
  have := eq_of_nodup_map (·.2) (runAtomic s sched) (atomic_unique s sched) _ h₁ _ h₂ rfl
  exact (Prod.mk.inj this).1

/-- The same, on the per-thread lists: for `t₁ ≠ t₂` no number occurs in both. -/
theorem atomic_disjoint_between_threads' (s : Nat) (sched : List Nat) (t₁ t₂ : Nat) (hne : t₁ ≠ t₂) :
    ∀ n, n ∈ issuedTo t₁ (runAtomic s sched) → n ∉ issuedTo t₂ (runAtomic s sched) := by
  intro n h₁ h₂
  simp only [issuedTo, List.mem_map, List.mem_filter, decide_eq_true_eq] at h₁ h₂
  obtain ⟨⟨a, n₁⟩, ⟨hm₁, ha⟩, hn₁⟩ := h₁
  obtain ⟨⟨b, n₂⟩, ⟨hm₂, hb⟩, hn₂⟩ := h₂
  simp only at ha hb hn₁ hn₂
  subst ha hb hn₁ hn₂
  exact hne (atomic_disjoint_between_threads s sched _ _ _ hm₁ hm₂)

/-! ### the racy machine -/

/-- Thread 1 loads the counter (0) and is descheduled; thread 0 completes a call (gets 1), begins a
second call (loads 1, stores 2); thread 1 stores 0+1 = 1; thread 0 reads the counter: 1 again. -/
def collidingSchedule : List Nat := [1, 0, 0, 0, 0, 0, 1, 0]

/-- Both threads load 0, both store 1, both read 1. -/
def lockstepSchedule : List Nat := [0, 1, 0, 1, 0, 1]

/-- In the old code ONE thread can receive the same number twice within its own compilation. -/
theorem racy_collides :
    ∃ sched, ∃ t, ¬ (((runRacy sched).filter (·.1 = t)).map (·.2)).Nodup :=
  ⟨collidingSchedule, 0, by decide⟩

/-- In the old code two different threads can be issued the same number. -/
theorem racy_duplicate_across_threads :
    ∃ sched t₁ t₂ n, t₁ ≠ t₂ ∧ (t₁, n) ∈ runRacy sched ∧ (t₂, n) ∈ runRacy sched :=
  ⟨lockstepSchedule, 0, 1, 1, by decide⟩

/-- The old code also loses increments: after three completed calls the counter can be 1. -/
theorem racy_lost_update :
    ∃ sched, (runRacy sched).length = 3 ∧ (endRacyFrom RState.init sched).counter = 1 :=
  ⟨[0, 1, 2, 0, 1, 2, 0, 1, 2], by decide⟩

/-- If calls are never interleaved (the three steps of each call are consecutive — a single thread,
or several threads taking turns) the old code issues 1, 2, 3, … exactly like the atomic one. -/
theorem racy_sequential_ok (calls : List Nat) :
    runRacy (calls.flatMap (fun t => [t, t, t])) = runAtomic 0 calls :=
  racy_sequential_from calls RState.init (fun _ => rfl)

/-- Consequently a non-interleaved run of the old code shows no duplicate. -/
theorem racy_sequential_unique (calls : List Nat) :
    ((runRacy (calls.flatMap (fun t => [t, t, t]))).map (·.2)).Nodup := by
  rw [racy_sequential_ok]
  exact atomic_unique 0 calls

/-! ### non-vacuity -/

example : runAtomic 0 [0, 1, 0, 2, 1] = [(0, 1), (1, 2), (0, 3), (2, 4), (1, 5)] := by decide
example : runAtomic 7 [3, 3] = [(3, 8), (3, 9)] := by decide
example : issuedTo 0 (runAtomic 0 [0, 1, 0, 2, 1]) = [1, 3] := by decide
example : issuedTo 1 (runAtomic 0 [0, 1, 0, 2, 1]) = [2, 5] := by decide
example : runRacy collidingSchedule = [(0, 1), (0, 1)] := by decide
example : runRacy lockstepSchedule = [(0, 1), (1, 1)] := by decide
example : runRacy (sequential [0, 1, 0]) = [(0, 1), (1, 2), (0, 3)] := by decide
example : runRacy [0, 0] = [] := by decide   -- a call that has not returned issues nothing
-- the same schedule shape (one step per entry) where the atomic machine stays duplicate-free
example : ((runAtomic 0 collidingSchedule).map (·.2)).Nodup := atomic_unique _ _
example : (runAtomic 0 [4, 9])[1]? = some (9, 2) := atomic_kth 0 [4, 9] 1 (by decide)

end Acv.C10

#print axioms Acv.C10.atomic_threads
#print axioms Acv.C10.atomic_issues_range
#print axioms Acv.C10.atomic_kth
#print axioms Acv.C10.atomic_unique
#print axioms Acv.C10.atomic_unique_per_thread
#print axioms Acv.C10.atomic_disjoint_between_threads
#print axioms Acv.C10.atomic_disjoint_between_threads'
#print axioms Acv.C10.racy_collides
#print axioms Acv.C10.racy_duplicate_across_threads
#print axioms Acv.C10.racy_lost_update
#print axioms Acv.C10.racy_sequential_ok
#print axioms Acv.C10.racy_sequential_unique
