import Acv.Model.Milestones
import Acv.Gen.Milestones
import Acv.Props.C11
/-!
# C11, second half — the library's own consumer of the progress events (`pkg/milestones`)

`Acv.Ms.milestones T` is the fold `GenerateMilestonesFromEvents` performs over the delivered events, driven by the
table `Acv.Gen.milestoneTable` REGENERATED from `pkg/milestones/milestones.go` and `pkg/events/events.go` on every run.

1. facts about the regenerated table, by kernel evaluation: every stage's Done reads its own Start and sends its own
   Operation name, all seven stages are there, the literal of `generateMilestone` is `Start: start.Time,
   Duration: end.Time.Sub(start.Time)`, the milestone channel is closed once, after the loop;
2. for ALL event lists (any order, repetitions, unknown types, any times): one milestone per Done event of a known stage,
   in the order of the Done events, named after them (`milestones_length`, `milestones_ops`);
3. for every well-bracketed list - `[Start s, Done s]` pairs of known stages, optionally one open Start at the end, which is
   what C11's `events_prefix_bracketed` gives for every outcome - the milestones are exactly those stages in order, each
   with `Start` = time of its Start event and `Duration` = Done time − Start time (`milestones_bracketed`,
   `milestones_of_stages`);
4. non-decreasing event times ⇒ no negative duration, for all lists (`durations_nonneg`);
5. composition with the pipeline skeleton: for every outcome of every external step of every entry point, however the
   events are timed, the milestones are exactly the completed stages (`pipeline_milestones`).
-/
namespace Acv.C11Milestones
open Acv.Ms Acv.Gen

/-- the regenerated table -/
abbrev table : Table := milestoneTable

/-! ## 1. the regenerated table -/

/-- the translator could read `GenerateMilestonesFromEvents`, `generateMilestone` and the event constants: every Done case is
`start := startEvents[e.X]; end := event; *milestoneChan <- generateMilestone(Op, start, end)`, the constants are one iota block -/
theorem source_readable : milestoneUnreadable = [] := by decide

/-- the milestone channel is closed by exactly one `close`, the statement after the `range` loop over the event channel
(so: once, when and only when the event channel has been closed and drained) -/
theorem closes_once_after_loop : milestoneCloses = ["after-range-loop"] := by decide

/-- the literal built by `generateMilestone(operation, start, end)` -/
theorem fields_as_documented :
    milestoneStartField = .startTime ∧ milestoneDurationField = .endMinusStart := by decide

/-- the strict reading of the switch agrees with the table regenerated for the pipeline theorems (`Acv/Gen/Pipeline.lean`) -/
theorem strict_reading_agrees :
    milestoneCases.map (fun c => (c.1, c.2.1)) = milestoneDones ∧ milestoneStartCase = milestoneStarts ∧
    milestoneCases.map (fun c => (c.1, c.2.2)) = milestoneOps := by decide

/-- the seven stages, in the order of the constants of `pkg/events/events.go` (stage `k` = events `2k`, `2k+1`) -/
def stageNames : List String :=
  ["ProfileParsing", "InputDataParsing", "InputDataNormalization", "RegoGeneration", "RegoCompilation",
   "OpaValidation", "BuildReport"]

def stageName (k : Nat) : String := stageNames.getD k ""

/-- one row per stage: is `2k` called `<stage>Start` and stored as a start, is `2k+1` called `<stage>Done`, does its case
read the event stored for `2k` and send the Operation `<stage>` -/
def stageRowOk (k : Nat) : Bool :=
  eventNames[2 * k]? == some (stageName k ++ "Start") &&
  eventNames[2 * k + 1]? == some (stageName k ++ "Done") &&
  table.isStart (2 * k) &&
  table.doneCase (2 * k + 1) == some (2 * k + 1, 2 * k) &&
  table.opOf (2 * k + 1) == stageName k

/-- every stage's Done is paired with its OWN Start and its OWN operation name; the seven stages are all present and there
is nothing else in the table -/
theorem stages_paired :
    (List.range 7).all stageRowOk = true ∧ eventNames.length = 14 ∧
    table.starts.length = 7 ∧ table.dones.length = 7 ∧ table.ops.length = 7 := by decide

/-- well-formedness of a table: the Done cases are distinct constants, none of them is also stored as a start -/
def Table.wf (T : Table) : Bool :=
  T.dones.all (fun d => !T.isStart d.1 && T.dones.find? (fun x => x.1 == d.1) == some d)

/-- the literal is the documented one -/
def Table.standard (T : Table) : Prop := T.startField = .startTime ∧ T.durationField = .endMinusStart

theorem table_wf : Table.wf table = true := by decide
theorem table_standard : Table.standard table := fields_as_documented

/-! ## 2. all event lists -/

theorem milestonesFrom_length (T : Table) (es : List Event) :
    ∀ stored, (milestonesFrom T stored es).length = es.countP (fun e => T.isDone e.ty) := by
  induction es with
  | nil => intro _; rfl
  | cons e es ih =>
    intro stored
    unfold milestonesFrom
    by_cases hs : T.isStart e.ty = true
    · simp [hs, ih, Table.isDone, Table.doneCase]
    · cases hf : T.dones.find? (fun d => d.1 == e.ty) with
      | none => simp [hs, hf, ih, Table.isDone, Table.doneCase]
      | some d => simp [hs, hf, ih, Table.isDone, Table.doneCase]

/-- (a) one milestone per Done event of a known stage - whatever the order, repetitions, unknown event types and times -/
theorem milestones_length (T : Table) (es : List Event) :
    (milestones T es).length = es.countP (fun e => T.isDone e.ty) :=
  milestonesFrom_length T es []

theorem milestonesFrom_ops (T : Table) (es : List Event) :
    ∀ stored, (milestonesFrom T stored es).map (·.op) =
      (es.filter (fun e => T.isDone e.ty)).map (fun e => T.opOf e.ty) := by
  induction es with
  | nil => intro _; rfl
  | cons e es ih =>
    intro stored
    unfold milestonesFrom
    by_cases hs : T.isStart e.ty = true
    · simp [hs, ih, Table.isDone, Table.doneCase]
    · cases hf : T.dones.find? (fun d => d.1 == e.ty) with
      | none => simp [hs, hf, ih, Table.isDone, Table.doneCase]
      | some d => simp [hs, hf, ih, Table.isDone, Table.doneCase, Table.generate]

/-- (a') … in the order of the Done events, each named by the Operation of its own case -/
theorem milestones_ops (T : Table) (es : List Event) :
    (milestones T es).map (·.op) = (es.filter (fun e => T.isDone e.ty)).map (fun e => T.opOf e.ty) :=
  milestonesFrom_ops T es []

/-- in the regenerated table the Done events of known stages are exactly the odd numbers below 14 -/
theorem isDone_iff (ty : Nat) : table.isDone ty = (ty % 2 == 1 && decide (ty < 14)) := by
  by_cases h : ty < 14
  · revert ty; decide
  · have h7 : ∀ d ∈ table.dones, d.1 < 14 := by decide
    have : table.dones.find? (fun d => d.1 == ty) = none := by
      apply List.find?_eq_none.mpr
      intro d hd
      have := h7 d hd
      simp; omega
    simp [Table.isDone, Table.doneCase, this, h]

/-- (a) for the regenerated table, in numbers -/
theorem milestones_length_table (es : List Event) :
    (milestones table es).length = es.countP (fun e => e.ty % 2 == 1 && decide (e.ty < 14)) := by
  rw [milestones_length]; congr 1; funext e; exact isDone_iff e.ty

/-! ## 3. well-bracketed lists -/

/-- a concatenation of `[Start s, Done s]` pairs of stages of the table, optionally followed by one unmatched Start -/
def bracketed (T : Table) : List Event → Bool
  | [] => true
  | [s] => T.isStart s.ty
  | s :: d :: rest => T.isStart s.ty && T.dones.contains (d.ty, s.ty) && bracketed T rest

/-- the stages such a list completes: operation of the Done, time of the Start, difference of the two times -/
def completed (T : Table) : List Event → List Milestone
  | s :: d :: rest => ⟨T.opOf d.ty, some s.time, some (d.time - s.time)⟩ :: completed T rest
  | _ => []

theorem lookup_head (stored : Stored) (k : Nat) (t : Int) : lookup ((k, t) :: stored) k = some t := by
  simp [lookup]

theorem done_of_wf {T : Table} (hwf : Table.wf T = true) {d : Nat × Nat} (hd : T.dones.contains d = true) :
    T.isStart d.1 = false ∧ T.dones.find? (fun x => x.1 == d.1) = some d := by
  have hmem : d ∈ T.dones := by simpa using hd
  have := List.all_eq_true.mp hwf d hmem
  simpa using this

theorem milestonesFrom_bracketed (T : Table) (hwf : Table.wf T = true) (hstd : Table.standard T) :
    ∀ (es : List Event) (stored : Stored), bracketed T es = true → milestonesFrom T stored es = completed T es
  | [], _, _ => rfl
  | [s], stored, h => by
    have hs : T.isStart s.ty = true := by simpa [bracketed] using h
    simp [milestonesFrom, completed, hs]
  | s :: d :: rest, stored, h => by
    have h' : (T.isStart s.ty = true ∧ T.dones.contains (d.ty, s.ty) = true) ∧ bracketed T rest = true := by
      simpa [bracketed] using h
    obtain ⟨⟨hs, hd⟩, hr⟩ := h'
    obtain ⟨hns, hfind⟩ := done_of_wf hwf hd
    have hns' : T.isStart d.ty = false := hns
    have hfind' : T.dones.find? (fun x => x.1 == d.ty) = some (d.ty, s.ty) := hfind
    have ih := milestonesFrom_bracketed T hwf hstd rest ((s.ty, s.time) :: stored) hr
    rw [milestonesFrom, if_pos hs, milestonesFrom]
    simp only [hns', Bool.false_eq_true, if_false, hfind']
    rw [ih, lookup_head]
    simp [completed, Table.generate, hstd.1, hstd.2, TimeExpr.eval]

/-- (b) for a well-bracketed list the milestones are exactly its stages, in order, each with `Start` = the time of its
Start event and `Duration` = Done time − Start time; an open Start at the end yields nothing -/
theorem milestones_bracketed (T : Table) (hwf : Table.wf T = true) (hstd : Table.standard T) (es : List Event)
    (h : bracketed T es = true) : milestones T es = completed T es :=
  milestonesFrom_bracketed T hwf hstd es [] h

/-- the events of a run that completed `stages` (stage number, start time, done time), in that order -/
def stageEvents : List (Nat × Int × Int) → List Event
  | [] => []
  | (k, t0, t1) :: r => ⟨2 * k, t0⟩ :: ⟨2 * k + 1, t1⟩ :: stageEvents r

/-- an optional stage that started and did not complete -/
def openStart (o : Option (Nat × Int)) : List Event :=
  match o with
  | none => []
  | some (k, t) => [⟨2 * k, t⟩]

theorem stage_facts : ∀ k, k < 7 →
    table.isStart (2 * k) = true ∧ table.dones.contains (2 * k + 1, 2 * k) = true ∧
    table.opOf (2 * k + 1) = stageName k := by decide

theorem stageEvents_bracketed (o : Option (Nat × Int)) (ho : ∀ x, o = some x → x.1 < 7) :
    ∀ (stages : List (Nat × Int × Int)), (∀ s ∈ stages, s.1 < 7) →
      bracketed table (stageEvents stages ++ openStart o) = true ∧
      completed table (stageEvents stages ++ openStart o) =
        stages.map (fun s => ⟨stageName s.1, some s.2.1, some (s.2.2 - s.2.1)⟩)
  | [], _ => by
    cases o with
    | none => exact ⟨rfl, rfl⟩
    | some x =>
      obtain ⟨k, t⟩ := x
      have := (stage_facts k (ho (k, t) rfl)).1
      exact ⟨by simpa [stageEvents, openStart, bracketed] using this, rfl⟩
  | (k, t0, t1) :: r, h => by
    have hk : k < 7 := h (k, t0, t1) (by simp)
    obtain ⟨f1, f2, f3⟩ := stage_facts k hk
    obtain ⟨ih1, ih2⟩ := stageEvents_bracketed o ho r (fun s hs => h s (by simp [hs]))
    constructor
    · simp only [stageEvents, List.cons_append, bracketed, f1, f2, ih1, Bool.and_self]
    · simp only [stageEvents, List.cons_append, completed, f3, ih2, List.map_cons]

/-- (b) in the words of the pipeline: if stages `k₁ … kₙ` (each one of the seven) ran from `t0ᵢ` to `t1ᵢ`, possibly followed
by a stage that started and failed, the consumer reports exactly `(name k₁, t0₁, t1₁ − t0₁) … (name kₙ, t0ₙ, t1ₙ − t0ₙ)` -/
theorem milestones_of_stages (stages : List (Nat × Int × Int)) (h : ∀ s ∈ stages, s.1 < 7)
    (o : Option (Nat × Int)) (ho : ∀ x, o = some x → x.1 < 7) :
    milestones table (stageEvents stages ++ openStart o) =
      stages.map (fun s => ⟨stageName s.1, some s.2.1, some (s.2.2 - s.2.1)⟩) := by
  obtain ⟨hb, hc⟩ := stageEvents_bracketed o ho stages h
  rw [milestones_bracketed table table_wf table_standard _ hb, hc]

/-! ## 4. monotone clocks -/

/-- event times never go back (`time.Now()` read in the order the events are sent) -/
def Monotone (es : List Event) : Prop := es.Pairwise (fun a b => a.time ≤ b.time)

theorem lookup_mem {stored : Stored} {k : Nat} {t : Int} (h : lookup stored k = some t) : ∃ p ∈ stored, p.2 = t := by
  unfold lookup at h
  cases hf : stored.find? (fun p => p.1 == k) with
  | none => simp [hf] at h
  | some p =>
    simp [hf] at h
    exact ⟨p, List.mem_of_find?_eq_some hf, h⟩

theorem milestonesFrom_nonneg (T : Table) (hd : T.durationField = .endMinusStart) (es : List Event) :
    ∀ stored : Stored, Monotone es → (∀ p ∈ stored, ∀ e ∈ es, p.2 ≤ e.time) →
      ∀ m ∈ milestonesFrom T stored es, ∀ x, m.duration = some x → 0 ≤ x := by
  induction es with
  | nil => intro _ _ _ m hm; simp [milestonesFrom] at hm
  | cons e es ih =>
    intro stored hmono hst m hm x hx
    have hmono' : Monotone es := (List.pairwise_cons.mp hmono).2
    have hhead : ∀ e' ∈ es, e.time ≤ e'.time := (List.pairwise_cons.mp hmono).1
    have hst' : ∀ p ∈ stored, ∀ e' ∈ es, p.2 ≤ e'.time := fun p hp e' he' => hst p hp e' (by simp [he'])
    unfold milestonesFrom at hm
    by_cases hs : T.isStart e.ty = true
    · rw [if_pos hs] at hm
      refine ih ((e.ty, e.time) :: stored) hmono' ?_ m hm x hx
      intro p hp e' he'
      rcases List.mem_cons.mp hp with rfl | hp
      · exact hhead e' he'
      · exact hst' p hp e' he'
    · rw [if_neg hs] at hm
      cases hf : T.dones.find? (fun d => d.1 == e.ty) with
      | none =>
        rw [hf] at hm
        exact ih stored hmono' hst' m hm x hx
      | some d =>
        rw [hf] at hm
        rcases List.mem_cons.mp hm with rfl | hm
        · simp only [Table.generate, hd, TimeExpr.eval] at hx
          cases hl : lookup stored d.2 with
          | none => simp [hl] at hx
          | some t =>
            simp [hl] at hx
            obtain ⟨p, hp, rfl⟩ := lookup_mem hl
            have := hst p hp e (by simp)
            omega
        · exact ih stored hmono' hst' m hm x hx

/-- (c) if event times are non-decreasing then no milestone has a negative duration - for ALL event lists (a Done read
against an earlier Start of its stage, however far back; a Done without any Start has no duration in the model) -/
theorem durations_nonneg (T : Table) (hd : T.durationField = .endMinusStart) (es : List Event) (hm : Monotone es) :
    ∀ m ∈ milestones T es, ∀ x, m.duration = some x → 0 ≤ x :=
  milestonesFrom_nonneg T hd es [] hm (by intro p hp; simp at hp)

theorem durations_nonneg_table (es : List Event) (hm : Monotone es) :
    ∀ m ∈ milestones table es, ∀ x, m.duration = some x → 0 ≤ x :=
  durations_nonneg table table_standard.2 es hm

/-! ## 5. composition with the pipeline skeleton (C11) -/

theorem start_facts : ∀ a, a < 14 → a % 2 = 0 →
    table.isStart a = true ∧ table.dones.contains (a + 1, a) = true := by decide

/-- C11's `bracketed` (on event numbers: even = Start, `s+1` = its Done) together with "all events are known" is this
file's `bracketed` for the regenerated table, whatever the times -/
theorem bracketed_of_types : ∀ (es : List Event), Pipe.bracketed (es.map (·.ty)) = true → (∀ e ∈ es, e.ty < 14) →
    bracketed table es = true
  | [], _, _ => rfl
  | [s], h, hk => by
    have h1 : s.ty % 2 = 0 := by simpa [Pipe.bracketed, Pipe.bracketedFrom, Pipe.isStart] using h
    simpa [bracketed] using (start_facts s.ty (hk s (by simp)) h1).1
  | s :: d :: rest, h, hk => by
    have h' : (s.ty % 2 = 0 ∧ d.ty = s.ty + 1) ∧ Pipe.bracketed (rest.map (·.ty)) = true := by
      simpa [Pipe.bracketed, Pipe.bracketedFrom, Pipe.isStart, Bool.and_assoc, and_assoc] using h
    obtain ⟨⟨h1, h2⟩, h3⟩ := h'
    obtain ⟨f1, f2⟩ := start_facts s.ty (hk s (by simp)) h1
    have ih := bracketed_of_types rest h3 (fun e he => hk e (by simp [he]))
    simp only [bracketed, f1, h2, f2, ih, Bool.and_self]

theorem isPrefix_mem : ∀ (l₁ l₂ : List Pipe.Ev), Pipe.isPrefix l₁ l₂ = true → ∀ x ∈ l₁, x ∈ l₂
  | [], _, _, _, hx => by simp at hx
  | _ :: _, [], h, _, _ => by simp [Pipe.isPrefix] at h
  | a :: as, b :: bs, h, x, hx => by
    have h' : a = b ∧ Pipe.isPrefix as bs = true := by simpa [Pipe.isPrefix] using h
    rcases List.mem_cons.mp hx with rfl | hx
    · simp [h'.1]
    · exact List.mem_cons_of_mem _ (isPrefix_mem as bs h'.2 x hx)

/-- the stage order of every validating entry point only has the fourteen known events -/
theorem stage_orders_known :
    C11.validating.all (fun entry => (C11.stageOrder entry).all (fun e => decide (e < 14))) = true := by decide +kernel

/-- stand-alone compilation (not covered by `C11.events_prefix_bracketed`): bracketed, known events -/
theorem compile_profile_bracketed :
    (C11.behaviours C11.compileProfile).all (fun r =>
      Pipe.bracketed (Pipe.events r.1) && (Pipe.events r.1).all (fun e => decide (e < 14))) = true := by decide +kernel

/-- every behaviour of every entry point sends a well-bracketed list of known events (validating entry points: from
`C11.events_prefix_bracketed`) -/
theorem behaviours_bracketed (entry : Nat) (he : entry ∈ C11.validating ++ [C11.compileProfile])
    (r : Pipe.Trace × Pipe.Outcome) (hr : r ∈ C11.behaviours entry) :
    Pipe.bracketed (Pipe.events r.1) = true ∧ ∀ e ∈ Pipe.events r.1, e < 14 := by
  rcases List.mem_append.mp he with hv | hc
  · have h1 := List.all_eq_true.mp (List.all_eq_true.mp C11.events_prefix_bracketed entry hv) r hr
    have h2 := List.all_eq_true.mp (List.all_eq_true.mp stage_orders_known entry hv)
    have h1' : Pipe.isPrefix (Pipe.events r.1) (C11.stageOrder entry) = true ∧ Pipe.bracketed (Pipe.events r.1) = true := by
      simpa using h1
    refine ⟨h1'.2, fun e hx => ?_⟩
    have := h2 e (isPrefix_mem _ _ h1'.1 e hx)
    simpa using this
  · have hc' : entry = C11.compileProfile := by simpa using hc
    subst hc'
    have h1 := List.all_eq_true.mp compile_profile_bracketed r hr
    have h1' : Pipe.bracketed (Pipe.events r.1) = true ∧ ∀ e ∈ Pipe.events r.1, e < 14 := by
      simpa using h1
    exact h1'

/-- (d) For every entry point (the eight validating ones and `pkg.CompileProfile`), every outcome (ok / error / panic) of
every external step, and EVERY timing of the events the call sends: the library's milestone generator yields exactly the
completed stages - one milestone per Done event, in order, named after its stage, starting at the time of that stage's Start
event and lasting Done − Start; a stage that started and failed yields nothing. With a monotone clock no duration is negative. -/
theorem pipeline_milestones (entry : Nat) (he : entry ∈ C11.validating ++ [C11.compileProfile])
    (r : Pipe.Trace × Pipe.Outcome) (hr : r ∈ C11.behaviours entry)
    (es : List Event) (hes : es.map (·.ty) = Pipe.events r.1) :
    milestones table es = completed table es ∧
    (milestones table es).length = Pipe.doneCount (Pipe.events r.1) ∧
    (milestones table es).map (·.op) =
      ((Pipe.events r.1).filter (fun e => !Pipe.isStart e)).map (fun e => stageName (e / 2)) ∧
    (Monotone es → ∀ m ∈ milestones table es, ∀ x, m.duration = some x → 0 ≤ x) := by
  obtain ⟨hb, hk⟩ := behaviours_bracketed entry he r hr
  have hk' : ∀ e ∈ es, e.ty < 14 := by
    intro e hx
    apply hk
    rw [← hes]
    exact List.mem_map_of_mem hx
  have hbr : bracketed table es = true := bracketed_of_types es (by rw [hes]; exact hb) hk'
  have hdone : ∀ e ∈ es, table.isDone e.ty = !Pipe.isStart e.ty := by
    intro e hx
    have := hk' e hx
    rw [isDone_iff]
    simp only [Pipe.isStart, this, decide_true, Bool.and_true]
    rcases Nat.mod_two_eq_zero_or_one e.ty with h | h <;> simp [h]
  have hop : ∀ ty, ty < 14 → table.isDone ty = true → table.opOf ty = stageName (ty / 2) := by decide
  refine ⟨milestones_bracketed table table_wf table_standard es hbr, ?_, ?_, durations_nonneg_table es⟩
  · rw [milestones_length, ← hes, Pipe.doneCount, List.countP_map]
    exact List.countP_congr (fun e hx => by simp [hdone e hx])
  · rw [milestones_ops, ← hes, List.filter_map, List.map_map]
    have hfil : es.filter (fun e => table.isDone e.ty) = es.filter ((fun e => !Pipe.isStart e) ∘ (·.ty)) :=
      List.filter_congr (fun e hx => by simp [hdone e hx])
    rw [← hfil]
    apply List.map_congr_left
    intro e hx
    have hm := List.mem_filter.mp hx
    exact hop e.ty (hk' e hm.1) (by simpa using hm.2)

/-! ## non-vacuity -/

/-- a complete `pkg.Validate` run in the documented order, timed 0,1,2,…: seven milestones -/
example : milestones table
    ([0, 1, 6, 7, 8, 9, 2, 3, 4, 5, 10, 11, 12, 13].zipIdx.map (fun p => ⟨p.1, 10 * (p.2 : Int)⟩)) =
    [⟨"ProfileParsing", some 0, some 10⟩, ⟨"RegoGeneration", some 20, some 10⟩, ⟨"RegoCompilation", some 40, some 10⟩,
     ⟨"InputDataParsing", some 60, some 10⟩, ⟨"InputDataNormalization", some 80, some 10⟩,
     ⟨"OpaValidation", some 100, some 10⟩, ⟨"BuildReport", some 120, some 10⟩] := by decide +kernel

/-- a run that fails in Rego compilation: two milestones, the open Start yields none -/
example : milestones table [⟨0, 5⟩, ⟨1, 9⟩, ⟨6, 9⟩, ⟨7, 30⟩, ⟨8, 31⟩] =
    [⟨"ProfileParsing", some 5, some 4⟩, ⟨"RegoGeneration", some 9, some 21⟩] := by decide +kernel

/-- NOT well-bracketed: a Done without a Start has no start time; a repeated Start overwrites; unknown types are ignored;
a clock that goes back gives a negative duration (so hypothesis `Monotone` of `durations_nonneg` is needed) -/
example : milestones table [⟨3, 7⟩, ⟨2, 10⟩, ⟨99, 11⟩, ⟨2, 20⟩, ⟨3, 15⟩, ⟨3, 40⟩] =
    [⟨"InputDataParsing", none, none⟩, ⟨"InputDataParsing", some 20, some (-5)⟩,
     ⟨"InputDataParsing", some 20, some 20⟩] := by decide +kernel

example : bracketed table [⟨0, 5⟩, ⟨1, 9⟩, ⟨6, 9⟩] = true := by decide
example : bracketed table [⟨0, 5⟩, ⟨3, 9⟩] = false := by decide
example : bracketed table [⟨1, 5⟩] = false := by decide

/-- `milestones_of_stages` instantiated -/
example : milestones table (stageEvents [(0, 1, 4), (3, 4, 9)] ++ openStart (some (4, 9))) =
    [⟨"ProfileParsing", some 1, some 3⟩, ⟨"RegoGeneration", some 4, some 5⟩] :=
  milestones_of_stages _ (by decide) _ (by intro x hx; cases hx; decide)

/-- the hypotheses of `pipeline_milestones` are inhabited: 15 behaviours of `pkg.Validate`, the complete one has 7 Done events -/
example : (C11.behaviours 0).length = 15 ∧
    (C11.behaviours 0).any (fun r => Pipe.doneCount (Pipe.events r.1) == 7) = true := by decide +kernel

end Acv.C11Milestones

#print axioms Acv.C11Milestones.source_readable
#print axioms Acv.C11Milestones.closes_once_after_loop
#print axioms Acv.C11Milestones.fields_as_documented
#print axioms Acv.C11Milestones.strict_reading_agrees
#print axioms Acv.C11Milestones.stages_paired
#print axioms Acv.C11Milestones.milestones_length
#print axioms Acv.C11Milestones.milestones_ops
#print axioms Acv.C11Milestones.milestones_bracketed
#print axioms Acv.C11Milestones.milestones_of_stages
#print axioms Acv.C11Milestones.durations_nonneg
#print axioms Acv.C11Milestones.pipeline_milestones
