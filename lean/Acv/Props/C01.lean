import Acv.Lemmas.Compile
import Acv.Model.Atoms
/-!
# C01 — reported nodes are exactly the target nodes that fail the constraint formula

Impl-model: `Dnf.dispatch / genAnd / genOr / expandBranches` (transliteration of
`internal/generator/{dispatcher,and,or,conditional,expression}.go`) and `Dnf.negate`
(the `Negate()` methods of `internal/parser/profile`).  Spec: `Dnf.holds`, the classical reading.
-/
namespace Acv.C01
open Dnf

variable {N : Type}

/-- Main theorem: for every rule without empty `and`/`or` bodies and every environment in which the
negated twin of each atom is its complement, the generated failure-DNF fires exactly on the nodes
where the formula is classically false. -/
theorem compile_correct (env : Env N) (hc : Classical env) (r : Rule) (hp : Proper r = true) (n : N) :
    gensFire env (dispatch r) n = !holds env r n :=
  ((Dnf.compile_correct env hc r hp).1 n)

/-- the translator never emits an empty rule set for a proper formula -/
theorem dispatch_nonempty (env : Env N) (hc : Classical env) (r : Rule) (hp : Proper r = true) :
    dispatch r ≠ [] :=
  (Dnf.compile_correct env hc r hp).2.2

/-- The verdict depends only on what the formula means: two proper formulas with the same classical
meaning are reported on the same nodes, however they are spelled. -/
theorem spelling_independent (env : Env N) (hc : Classical env) (r₁ r₂ : Rule)
    (h₁ : Proper r₁ = true) (h₂ : Proper r₂ = true) (n : N)
    (hsem : holds env r₁ n = holds env r₂ n) :
    gensFire env (dispatch r₁) n = gensFire env (dispatch r₂) n := by
  rw [compile_correct env hc r₁ h₁, compile_correct env hc r₂ h₂, hsem]

/-! ### logically equivalent rewritings have the same meaning (hence, by `spelling_independent`, the same verdict) -/

theorem allL_perm (env : Env N) (n : N) {l₁ l₂ : List Rule} (h : l₁.Perm l₂) :
    allL env l₁ n = allL env l₂ n := by
  induction h with
  | nil => rfl
  | cons x _ ih => simp [allL, ih]
  | swap x y l => simp [allL, Bool.and_left_comm]
  | trans _ _ ih₁ ih₂ => rw [ih₁, ih₂]

theorem anyL_perm (env : Env N) (n : N) {l₁ l₂ : List Rule} (h : l₁.Perm l₂) :
    anyL env l₁ n = anyL env l₂ n := by
  induction h with
  | nil => rfl
  | cons x _ ih => simp [anyL, ih]
  | swap x y l => simp [anyL, Bool.or_left_comm]
  | trans _ _ ih₁ ih₂ => rw [ih₁, ih₂]

/-- operand order of `and` is irrelevant -/
theorem and_operand_order (env : Env N) (n : N) {l₁ l₂ : List Rule} (h : l₁.Perm l₂) :
    holds env (.and l₁) n = holds env (.and l₂) n := by simp [holds, allL_perm env n h]

/-- operand order of `or` is irrelevant -/
theorem or_operand_order (env : Env N) (n : N) {l₁ l₂ : List Rule} (h : l₁.Perm l₂) :
    holds env (.or l₁) n = holds env (.or l₂) n := by simp [holds, anyL_perm env n h]

theorem allL_append (env : Env N) (n : N) (a b : List Rule) :
    allL env (a ++ b) n = (allL env a n && allL env b n) := by
  induction a with
  | nil => simp [allL]
  | cons x xs ih => simp [allL, ih, Bool.and_assoc]

theorem anyL_append (env : Env N) (n : N) (a b : List Rule) :
    anyL env (a ++ b) n = (anyL env a n || anyL env b n) := by
  induction a with
  | nil => simp [anyL]
  | cons x xs ih => simp [anyL, ih, Bool.or_assoc]

/-- depth of connective nesting is irrelevant: `and [a…, and [b…], c…]` means `and [a…, b…, c…]` -/
theorem and_flatten (env : Env N) (n : N) (a b c : List Rule) :
    holds env (.and (a ++ [.and b] ++ c)) n = holds env (.and (a ++ b ++ c)) n := by
  simp [holds, allL_append, allL]

theorem or_flatten (env : Env N) (n : N) (a b c : List Rule) :
    holds env (.or (a ++ [.or b] ++ c)) n = holds env (.or (a ++ b ++ c)) n := by
  simp [holds, anyL_append, anyL]

/-- `not: not: r` means `r` -/
theorem double_negation (env : Env N) (r : Rule) (n : N) :
    holds env (negate (negate r)) n = holds env r n := by
  simp [holds_negate]

/-- De Morgan: `not: and: […]` is the `or` of the negated operands (this is what `Negate()` builds) -/
theorem de_morgan_and (env : Env N) (b : List Rule) (n : N) :
    holds env (negate (.and b)) n = !holds env (.and b) n := holds_negate env _ n

theorem de_morgan_or (env : Env N) (b : List Rule) (n : N) :
    holds env (negate (.or b)) n = !holds env (.or b) n := holds_negate env _ n

/-- contraposition: `if i then t` means `if not t then not i` -/
theorem contraposition (env : Env N) (i t : Rule) (n : N) :
    holds env (.cond false i t) n = holds env (.cond false (negate t) (negate i)) n := by
  simp [holds, holds_negate, Bool.or_comm]

/-- `if/then/else` is the conjunction of its two implications -/
theorem ite_as_implications (env : Env N) (i t e : Rule) (n : N) :
    holds env (.condE false i t e) n
      = holds env (.and [.cond false i t, .cond false (negate i) e]) n := by
  simp [holds, allL, holds_negate]

/-- `if i then t` is `or [not i, t]` (material implication) -/
theorem cond_as_or (env : Env N) (i t : Rule) (n : N) :
    holds env (.cond false i t) n = holds env (.or [negate i, t]) n := by
  simp [holds, anyL, holds_negate]

/-- `nested` = every reached node satisfies the inner formula; `atLeast k` counts those that do -/
theorem nested_is_forall (env : Env N) (p : PathId) (r : Rule) (n : N) :
    holds env (.nested false p .all r) n = (env.kids p n).all (fun c => holds env r c) := by
  simp [holds, quantOK]

theorem atLeast_counts (env : Env N) (p : PathId) (k : Nat) (r : Rule) (n : N) :
    holds env (.nested false p (.card .ge k) r) n
      = decide (k ≤ (env.kids p n).countP (fun c => holds env r c)) := by
  simp [holds, quantOK, Op.eval]

theorem atMost_counts (env : Env N) (p : PathId) (k : Nat) (r : Rule) (n : N) :
    holds env (.nested false p (.card .le k) r) n
      = decide ((env.kids p n).countP (fun c => holds env r c) ≤ k) := by
  simp [holds, quantOK, Op.eval]

/-! ### the defect of commit 21a97f4: `Negate()` of an if/then/else forgot the else rule -/

/-- environment with three atoms whose truth values are read off the node number's bits -/
def bitEnv : Env Nat where
  fail neg a n := if neg then n.testBit a else !n.testBit a
  kids _ _ := []

theorem bitEnv_classical : Classical bitEnv := by
  intro a n; simp [bitEnv]

/-- `not: {if a0, then a1, else a2}` as it was translated before the repair (the else rule dropped):
node 0 (all three atoms false) satisfies the formula but was reported. -/
theorem old_negated_ite_wrong :
    gensFire bitEnv (dispatch (.cond true (.atom false 0) (.atom false 1))) 0
      ≠ !holds bitEnv (.condE true (.atom false 0) (.atom false 1) (.atom false 2)) 0 := by
  simp [dispatch, genOr, genAnd, andBody, negateL, negate, gensFire, Gen.toBranch, dnfFires,
    brFires, litFails, holds, bitEnv]

/-! ### the two hypotheses are real boundaries -/

/-- without `Proper`: `or: [A, and: []]` is true, yet its expansion reports whenever `A` fails -/
theorem improper_misjudged :
    gensFire bitEnv (dispatch (.or [.atom false 0, .and []])) 0 = true ∧
    holds bitEnv (.or [.atom false 0, .and []]) 0 = true := by
  simp [dispatch, genOr, genAnd, andBody, orBody, expandBranches, simples, branches, gensFire,
    Gen.toBranch, dnfFires, brFires, litFails, holds, anyL, allL, bitEnv]

/-! ### cardinality atoms are classical on every graph and every path -/

theorem count_classical (g : Acv.Graph) (k : Acv.CountKind) (p : Acv.Path) (arg : Nat) (n : Acv.Node) :
    (Acv.Atom.count k p arg).fails g true n = !(Acv.Atom.count k p arg).fails g false n := by
  simp [Acv.Atom.fails]

/-- a profile whose atoms are all minCount/maxCount/exactCount is reported exactly where it is false,
on every graph, for every path expression -/
theorem graphEnv_classical (g : Acv.Graph) (atoms : Array Acv.Atom) (paths : Array Acv.Path)
    (h : ∀ a ∈ atoms.toList, a.isCardinality = true) : Classical (Acv.graphEnv g atoms paths) := by
  intro a n
  simp only [Acv.graphEnv]
  cases ha : atoms[a]? with
  | none => simp
  | some atm =>
    have hmem : atm ∈ atoms.toList := by
      have := Array.mem_of_getElem? ha
      simpa using this
    have hc := h atm hmem
    cases atm <;> simp [Acv.Atom.isCardinality] at hc
    exact count_classical g _ _ _ n

/-- target selection + compile_correct: the nodes a validation reports -/
def reported (g : Acv.Graph) (env : Env Acv.Node) (cls : String) (r : Rule) : List Acv.Node :=
  (g.targets cls).filter (fun n => gensFire env (dispatch r) n)

theorem reported_iff (g : Acv.Graph) (env : Env Acv.Node) (hc : Classical env) (cls : String)
    (r : Rule) (hp : Proper r = true) (n : Acv.Node) :
    n ∈ reported g env cls r ↔ (n ∈ g ∧ cls ∈ n.types) ∧ holds env r n = false := by
  simp only [reported, Acv.Graph.targets, List.mem_filter, compile_correct env hc r hp,
    List.contains_eq_mem, decide_eq_true_eq, Bool.not_eq_eq_eq_not, Bool.not_true]

/-! ### non-vacuity: a depth-4 formula with every connective satisfies the hypotheses -/
def exRule : Rule :=
  .or [.and [.atom false 0, .condE true (.atom false 1) (.atom true 2) (.or [.atom false 0, .atom false 2])],
       .nested true 0 (.card .ge 2) (.cond false (.atom false 1) (.and [.atom false 0, .atom true 2]))]
example : Proper exRule = true := by decide
example : Classical bitEnv := bitEnv_classical

end Acv.C01
