import Acv.Lemmas.Trace
import Acv.Props.C01
/-!
# C12 (last sentence) — every result has a named, non-empty trace

"Every result names exactly one focus node, which is the @id of a node of the input graph, the name of a
validation defined in the profile (or `nested` inside sub-results), a non-empty message and a non-empty
trace whose entries each name the failed component and path."

Impl-model: `Acv/Model/Trace.lean` (`litTraces / brTraces / dnfResults / resultsOf`: what `wrapBranch`,
`wrapTopLevelRegoResult`, `generateNested`, `wrapNestedRegoResult` put into `error(…)` and `trace(…)`),
on top of the translator model `Dnf.dispatch` of C01.  `resultsOf` is the list of results BEFORE the
collapse of equal results the Rego set performs; every statement below is about membership, so it
holds for the set as well.

Not modelled: the message (C13), `location` (C14), embedded Rego atoms (their `resultPath` may be empty:
a top-level `rego:` block has the null path), the order of entries the Go translator obtains by sorting
and/or bodies (only needed to predict WHICH equal-looking results collapse).
-/
namespace Acv.C12Trace
open Dnf Acv.Tr

variable {N : Type}

/-! ## 1. every branch has a literal -/

/-- For every rule without empty `and`/`or` bodies, every branch of the failure DNF has at least one
literal, and so has, recursively, every inner branch inside a `nested` literal (`dnfGood`, `litGood`). -/
theorem branches_have_literals (r : Rule) (hp : Proper r = true) :
    dnfGood ((dispatch r).map Gen.toBranch) = true :=
  dispatch_good r hp

/-- `dnfGood` spelled out: no branch is empty and every literal of every branch is good … -/
theorem dnfGood_spelled (bs : List (List SLit)) :
    dnfGood bs = true ↔ ∀ b ∈ bs, b ≠ [] ∧ ∀ l ∈ b, litGood l = true := by
  rw [dnfGood_iff]
  constructor
  · intro h b hb; exact ⟨(h b hb).1, (brGood_iff b).1 (h b hb).2⟩
  · intro h b hb; exact ⟨(h b hb).1, (brGood_iff b).2 (h b hb).2⟩

/-- … where an atomic literal is always good and a nested literal is good iff its inner DNF is -/
theorem litGood_spelled (neg : Bool) (a : AtomId) (p : PathId) (q : Quant) (inner : List (List SLit)) :
    litGood (.atom neg a) = true ∧ litGood (.nested neg p q inner) = dnfGood inner :=
  ⟨by simp [litGood], by simp [litGood]⟩

/-- `Proper` is needed: `or: []` translates to ONE branch WITHOUT literals … -/
theorem improper_empty_branch : dnfGood ((dispatch (.or [])).map Gen.toBranch) = false := by
  decide +kernel

/-- … which reports every target node with an EMPTY trace -/
theorem improper_empty_trace (env : TEnv N) (name : String) (n : N) :
    resultsOn env name (.or []) [n] = [Result.mk name n []] := by
  simp [resultsOn, dispatch, genOr, orBody, expandBranches, Gen.toBranch, dnfResults, brTraces]

/-! ## 2. every result is complete -/

/-- `traceOK` spelled out (it is defined by recursion through the sub-results) -/
theorem traceOK_spelled (inG : N → Prop) (t : Trace N) :
    traceOK inG t ↔ t.component ≠ "" ∧ t.path ≠ "" ∧
      ∀ s ∈ t.sub, s.shape = "nested" ∧ inG s.focus ∧ s.trace ≠ [] ∧ ∀ t' ∈ s.trace, traceOK inG t' := by
  cases t with
  | mk c p v sub =>
    simp only [traceOK, subsOK_iff, Trace.component, Trace.path, Trace.sub]
    constructor
    · rintro ⟨h1, h2, h3⟩
      refine ⟨h1, h2, ?_⟩
      intro s hs
      have := h3 s hs
      cases s with
      | mk sh f tr =>
        simp only [resOK, tracesOK_iff] at this
        exact ⟨this.1, this.2.1, this.2.2.1, this.2.2.2⟩
    · rintro ⟨h1, h2, h3⟩
      refine ⟨h1, h2, ?_⟩
      intro s hs
      have := h3 s hs
      cases s with
      | mk sh f tr =>
        simp only [resOK, tracesOK_iff]
        exact ⟨this.1, this.2.1, this.2.2.1, this.2.2.2⟩

/-- General form.  In an environment whose component and path names are non-empty (`NamesOK`) and whose
nested paths stay inside `inG` (`KidsIn`), every result of a proper rule on targets inside `inG`
(a) has a target as focus, which is inside `inG`, (b) carries the validation's name as shape,
(c) has a NON-EMPTY trace whose entries name a non-empty component and a non-empty path; the sub-results
of an entry have shape `nested`, a focus inside `inG`, a non-empty trace, recursively. -/
theorem results_complete_env (env : TEnv N) (inG : N → Prop) (hn : NamesOK env) (hk : KidsIn env inG)
    (name : String) (r : Rule) (hp : Proper r = true) (targets : List N) (ht : ∀ n ∈ targets, inG n) :
    ∀ res ∈ resultsOn env name r targets,
      res.focus ∈ targets ∧ inG res.focus ∧ res.shape = name ∧ res.trace ≠ [] ∧
        ∀ t ∈ res.trace, traceOK inG t := by
  intro res hres
  obtain ⟨n, hn', hres⟩ := List.mem_flatMap.1 hres
  have hfoc := focus_of_mem_dnfResults env name _ n res hres
  have hok := dnfResults_ok env inG hn hk name _ n (dispatch_good r hp) (ht n hn') res hres
  cases res with
  | mk sh f tr =>
    simp only [resOK, tracesOK_iff] at hok
    simp only [Result.focus, Result.shape, Result.trace] at hfoc ⊢
    obtain ⟨rfl, rfl⟩ := hfoc
    exact ⟨hn', hok.2.1, rfl, hok.2.2.1, hok.2.2.2⟩

/-- every `Acv.Path` the profile parser can produce (no empty IRI, no empty sequence/alternative) renders
to a non-empty `resultPath` -/
theorem path_rendering_nonempty (p : Path) (h : pathWF p = true) : renderPath p ≠ "" :=
  renderPath_ne p h

/-- `pathWF` is needed: the empty sequence renders to the empty string -/
example : renderPath (.seq []) = "" := by simp [renderPath, renderParts, joinWith]

/-- every documented constraint kind has a non-empty component name (so have the quantified forms) -/
theorem component_nonempty (a : Atom) (q : Quant) : atomComponent a ≠ "" ∧ quantComponent q ≠ "" :=
  ⟨atomComponent_ne a, quantComponent_ne q⟩

/-- On a graph, for ALL documented atom kinds.  Hypotheses: the rule is proper; the paths in the two
tables are well formed.  Every result of validation `name` (target class `cls`)
(a) has a focus node that is a node of the graph and an instance of `cls`,
(b) has shape `name` (sub-results: `nested`),
(c) has a non-empty trace, each entry with a non-empty component and a non-empty path, each sub-result
    again with a focus node of the graph, shape `nested` and a non-empty trace of such entries. -/
theorem results_complete (g : Graph) (atoms : Array Atom) (paths : Array Path)
    (ha : ∀ a ∈ atoms.toList, pathWF (atomPath a) = true) (hpw : ∀ p ∈ paths.toList, pathWF p = true)
    (name cls : String) (r : Rule) (hp : Proper r = true) :
    ∀ res ∈ resultsOf (graphTEnv g atoms paths) g name cls r,
      (res.focus ∈ g ∧ cls ∈ res.focus.types) ∧ res.shape = name ∧ res.trace ≠ [] ∧
        ∀ t ∈ res.trace, traceOK (fun m => m ∈ g) t := by
  intro res hres
  have h := results_complete_env (graphTEnv g atoms paths) (fun m => m ∈ g)
    (graph_namesOK g atoms paths ha hpw) (graph_kidsIn g atoms paths) name r hp (g.targets cls)
    (fun n hn => (List.mem_filter.1 hn).1) res hres
  have ht := List.mem_filter.1 h.1
  exact ⟨⟨ht.1, by simpa using ht.2⟩, h.2.2.1, h.2.2.2.1, h.2.2.2.2⟩

/-- one trace entry per literal: every result stems from a branch of the DNF that fires on its focus
node, and its trace has exactly as many entries as that branch has literals (any atoms, no hypothesis
on the rule) -/
theorem trace_entry_per_literal (env : TEnv N) (hw : WitOK env) (name : String) (r : Rule) (targets : List N) :
    ∀ res ∈ resultsOn env name r targets,
      ∃ b ∈ (dispatch r).map Gen.toBranch,
        brFires env.toEnv b res.focus = true ∧ res.trace.length = b.length := by
  intro res hres
  obtain ⟨n, _, hres⟩ := List.mem_flatMap.1 hres
  obtain ⟨b, hb, ts, hts, rfl⟩ := (mem_dnfResults_iff env name res _ n).1 hres
  refine ⟨b, hb, ?_, brTraces_length env b n ts hts⟩
  have h := brTraces_isEmpty env hw b n
  show brFires env.toEnv b n = true
  cases hf : brFires env.toEnv b n with
  | true => rfl
  | false =>
    rw [hf] at h
    have : brTraces env b n = [] := by simpa using h
    rw [this] at hts; simp at hts

/-- exact count for the atoms evaluated once per node (minCount/maxCount/exactCount, containsAll,
containsSome, uniqueValues) together with `nested` and the quantified forms: a target node gets exactly
one result per branch that fires on it (before the collapse of equal results) -/
theorem one_result_per_firing_branch (g : Graph) (atoms : Array Atom) (paths : Array Path)
    (h : ∀ a ∈ atoms.toList, atomPerNode a = true) (name : String) (r : Rule) (n : Node) :
    (resultsOn (graphTEnv g atoms paths) name r [n]).length
      = ((dispatch r).map Gen.toBranch).countP (fun b => brFires (graphEnv g atoms paths) b n) := by
  have := dnfResults_length (graphTEnv g atoms paths) (graph_witOK g atoms paths)
    (graph_singleWit g atoms paths h) name ((dispatch r).map Gen.toBranch) n
  rw [graphTEnv_toEnv] at this
  simpa [resultsOn] using this

/-! ## 3. a node has a result iff it is reported -/

/-- General form: in an environment whose trace values describe the firing of the atoms (`WitOK`),
a node has a result iff it is a target on which the failure DNF fires. -/
theorem results_iff_fires (env : TEnv N) (hw : WitOK env) (name : String) (r : Rule) (targets : List N) (n : N) :
    (∃ res ∈ resultsOn env name r targets, res.focus = n) ↔
      n ∈ targets ∧ gensFire env.toEnv (dispatch r) n = true :=
  exists_result_iff env hw name r targets n

/-- the trace values of every documented atom kind describe its firing, on every graph -/
theorem graph_witnesses (g : Graph) (atoms : Array Atom) (paths : Array Path) :
    WitOK (graphTEnv g atoms paths) := graph_witOK g atoms paths

/-- On a graph, for all documented atom kinds, no hypothesis: a node has a result for validation `name`
iff it is among the nodes `Acv.C01.reported` lists. -/
theorem results_iff_reported (g : Graph) (atoms : Array Atom) (paths : Array Path)
    (name cls : String) (r : Rule) (n : Node) :
    (∃ res ∈ resultsOf (graphTEnv g atoms paths) g name cls r, res.focus = n) ↔
      n ∈ Acv.C01.reported g (graphEnv g atoms paths) cls r := by
  unfold resultsOf Acv.C01.reported
  rw [results_iff_fires _ (graph_witOK g atoms paths), List.mem_filter]
  rfl

/-- … hence, through `compile_correct` (hypotheses: the negated twin of every atom is its complement, the
rule is proper), iff it is a target node on which the formula is false. -/
theorem results_iff_fails (g : Graph) (atoms : Array Atom) (paths : Array Path)
    (hc : Classical (graphEnv g atoms paths)) (name cls : String) (r : Rule) (hp : Proper r = true) (n : Node) :
    (∃ res ∈ resultsOf (graphTEnv g atoms paths) g name cls r, res.focus = n) ↔
      (n ∈ g ∧ cls ∈ n.types) ∧ holds (graphEnv g atoms paths) r n = false := by
  rw [results_iff_reported, Acv.C01.reported_iff g _ hc cls r hp n]

/-! ## 4. non-vacuity: or / not / nested / atLeast on a three-node graph -/

def p : Path := .prop "http://ex.org/v#p" false
def q : Path := .prop "http://ex.org/v#q" false
def n1 : Node := ⟨"n1", ["U"], []⟩
def n2 : Node := ⟨"n2", ["U"], [("http://ex.org/v#r", [.num 1])]⟩
def n0 : Node := ⟨"n0", ["T"], [("http://ex.org/v#p", [.ref "n1", .ref "n2"])]⟩
def exG : Graph := [n0, n1, n2]
/-- atom 0 = `q: minCount 1`, atom 1 = `p: minCount 1` -/
def exAtoms : Array Atom := #[.count .min q 1, .count .min p 1]
def exPaths : Array Path := #[p]
/-- `and: [ or: [ not: {p: minCount 1}, p: nested: {q: minCount 1} ], p: atLeast 1: {q: minCount 1} ]` -/
def exRule : Rule :=
  .and [.or [negate (.atom false 1), .nested false 0 .all (.atom false 0)],
        .nested false 0 (.card .ge 1) (.atom false 0)]

structure SubSum where
  shape : String
  focus : String
  entries : List (String × String)
deriving DecidableEq, Repr
structure EntrySum where
  component : String
  path : String
  subs : List SubSum
deriving DecidableEq, Repr
structure ResSum where
  shape : String
  focus : String
  entries : List EntrySum
deriving DecidableEq, Repr

def summary (rs : List (Result Node)) : List ResSum :=
  rs.map (fun r => ⟨r.shape, r.focus.id, r.trace.map (fun t => ⟨t.component, t.path,
    t.sub.map (fun s => ⟨s.shape, s.focus.id, s.trace.map (fun t => (t.component, t.path))⟩)⟩)⟩)

example : Proper exRule = true := by decide
example : ∀ a ∈ exAtoms.toList, pathWF (atomPath a) = true := by decide
example : ∀ p ∈ exPaths.toList, pathWF p = true := by decide
example : ∀ a ∈ exAtoms.toList, atomPerNode a = true := by decide
example : Classical (graphEnv exG exAtoms exPaths) :=
  Acv.C01.graphEnv_classical exG exAtoms exPaths (by decide)

/-- node `n0` gets TWO results (two branches fire): the first has two entries (the `or` put the negated
`minCount` and the `nested` literal into one branch) and its nested entry has TWO sub-results; the second
has the single `atLeast` entry, again with two sub-results -/
example : summary (resultsOf (graphTEnv exG exAtoms exPaths) exG "v" "T" exRule) =
  [⟨"v", "n0", [⟨"minCount", "http://ex.org/v#p", []⟩,
                ⟨"nested", "http://ex.org/v#p", [⟨"nested", "n1", [("minCount", "http://ex.org/v#q")]⟩,
                                                  ⟨"nested", "n2", [("minCount", "http://ex.org/v#q")]⟩]⟩]⟩,
   ⟨"v", "n0", [⟨"atLeast", "http://ex.org/v#p", [⟨"nested", "n1", [("minCount", "http://ex.org/v#q")]⟩,
                                                   ⟨"nested", "n2", [("minCount", "http://ex.org/v#q")]⟩]⟩]⟩] := by
  decide +kernel

#print axioms branches_have_literals
#print axioms dnfGood_spelled
#print axioms litGood_spelled
#print axioms improper_empty_branch
#print axioms improper_empty_trace
#print axioms traceOK_spelled
#print axioms results_complete_env
#print axioms path_rendering_nonempty
#print axioms component_nonempty
#print axioms results_complete
#print axioms trace_entry_per_literal
#print axioms one_result_per_firing_branch
#print axioms results_iff_fires
#print axioms graph_witnesses
#print axioms results_iff_reported
#print axioms results_iff_fails

end Acv.C12Trace
