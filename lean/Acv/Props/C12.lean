import Acv.Model.ReportIds
import Acv.Lemmas.ReportIds
/-!
# C12 — the `@id`s assigned to the report tree are pairwise distinct

Impl-model: `assignIds`/`assignFields`/`assignElems` transliterate `defineIdRecursively`
(an id = list of segments, the real id = segments joined with `_`), `topIds` the calls with
`violation_<i>` / `warning_<i>` / `info_<i>`.
Hypothesis: `WF` (keys distinct, non-empty, no `_`, not only digits; at most one array field with typed
object elements per typed object).  `collision_without_wf` shows the hypothesis is necessary: array
elements get `<id>_<index>` without the key, so two such arrays in one object collide.
-/
namespace Acv.C12
open Acv

/-- Every id assigned in a subtree extends the id of the subtree's root. -/
theorem ids_extend (j : J) (segs : List String) : ∀ id ∈ assignIds j segs, segs <+: id :=
  extend_all.1 j segs

/-- The ids (as segment lists) assigned in a well-formed subtree are pairwise distinct. -/
theorem ids_nodup (j : J) (segs : List String) (h : WF j = true) : (assignIds j segs).Nodup :=
  nodup_all.1 j segs h

/-- Joining with `_` loses nothing when no segment is empty or contains `_`. -/
theorem join_injective (a b : List String)
    (ha : ∀ s ∈ a, goodSeg s = true) (hb : ∀ s ∈ b, goodSeg s = true)
    (h : joinId a = joinId b) : a = b := by
  have h' : joinChars (a.map String.toList) = joinChars (b.map String.toList) :=
    String.ofList_inj.1 h
  apply map_toList_inj
  apply joinChars_inj _ _ _ _ h'
  · intro s hs
    obtain ⟨x, hx, rfl⟩ := List.mem_map.1 hs
    exact goodChars_of_goodSeg (ha x hx)
  · intro s hs
    obtain ⟨x, hx, rfl⟩ := List.mem_map.1 hs
    exact goodChars_of_goodSeg (hb x hx)

/-- Segments of ids below a well-formed node are good when the node's own segments are. -/
theorem ids_good (j : J) (segs : List String) (h : WF j = true)
    (hs : ∀ s ∈ segs, goodSeg s = true) : ∀ id ∈ assignIds j segs, ∀ s ∈ id, goodSeg s = true :=
  good_all.1 j segs h hs

/-- Every id produced for the three result lists starts with `<level>_<index>` for one of the three
levels, and all its segments are non-empty and free of `_`. -/
theorem topIds_shape (vs ws is : List J)
    (hv : ∀ j ∈ vs, WF j = true) (hw : ∀ j ∈ ws, WF j = true) (hi : ∀ j ∈ is, WF j = true) :
    ∀ id ∈ topIds vs ws is,
      (∀ s ∈ id, goodSeg s = true) ∧
      ∃ lv n, (lv = "violation" ∨ lv = "warning" ∨ lv = "info") ∧ [lv, showIdx n] <+: id := by
  intro id hid
  simp only [topIds, List.mem_append] at hid
  rcases hid with (hid | hid) | hid
  · obtain ⟨n, _, hp⟩ := level_extend _ vs 0 id hid
    exact ⟨level_good _ (by decide) vs 0 hv id hid, _, n, Or.inl rfl, hp⟩
  · obtain ⟨n, _, hp⟩ := level_extend _ ws 0 id hid
    exact ⟨level_good _ (by decide) ws 0 hw id hid, _, n, Or.inr (Or.inl rfl), hp⟩
  · obtain ⟨n, _, hp⟩ := level_extend _ is 0 id hid
    exact ⟨level_good _ (by decide) is 0 hi id hid, _, n, Or.inr (Or.inr rfl), hp⟩

/-- The ids of all results (as segment lists) are pairwise distinct. -/
theorem topIds_nodup (vs ws is : List J)
    (hv : ∀ j ∈ vs, WF j = true) (hw : ∀ j ∈ ws, WF j = true) (hi : ∀ j ∈ is, WF j = true) :
    (topIds vs ws is).Nodup := by
  have cross : ∀ (a b : String) (xs ys : List J) (id : List String), a ≠ b →
      id ∈ levelIds a xs 0 → id ∈ levelIds b ys 0 → False := by
    intro a b xs ys id hab h1 h2
    obtain ⟨n, _, hp⟩ := level_extend a xs 0 id h1
    obtain ⟨m, _, hq⟩ := level_extend b ys 0 id h2
    exact hab (prefix_pair_inj hp hq).1
  simp only [topIds]
  rw [List.nodup_append, List.nodup_append]
  refine ⟨⟨level_nodup _ vs 0 hv, level_nodup _ ws 0 hw, ?_⟩, level_nodup _ is 0 hi, ?_⟩
  · intro a ha b hb hab
    subst hab
    exact cross _ _ vs ws a (by decide) ha hb
  · intro a ha b hb hab
    subst hab
    rcases List.mem_append.1 ha with ha | ha
    · exact cross _ _ vs is a (by decide) ha hb
    · exact cross _ _ ws is a (by decide) ha hb

/-- The id strings of all results are pairwise distinct, and none of them is one of the three fixed
ids of the document (every produced id contains `_`, the fixed ones do not). -/
theorem report_ids_unique (vs ws is : List J)
    (hv : ∀ j ∈ vs, WF j = true) (hw : ∀ j ∈ ws, WF j = true) (hi : ∀ j ∈ is, WF j = true) :
    ((topIds vs ws is).map joinId).Nodup ∧
    ∀ s ∈ (topIds vs ws is).map joinId,
      s ≠ "dialect-instance" ∧ s ≠ "validation-report" ∧ s ≠ "processing-data" := by
  have shape := topIds_shape vs ws is hv hw hi
  constructor
  · apply nodup_map_of_inj_on joinId _ _ (topIds_nodup vs ws is hv hw hi)
    intro x hx y hy hxy
    exact join_injective x y (shape x hx).1 (shape y hy).1 hxy
  · intro s hs
    obtain ⟨id, hid, rfl⟩ := List.mem_map.1 hs
    obtain ⟨_, lv, n, _, t, rfl⟩ := shape id hid
    have hu : '_' ∈ (joinId ([lv, showIdx n] ++ t)).toList := underscore_mem_joinId lv (showIdx n) t
    refine ⟨?_, ?_, ?_⟩ <;> intro heq <;> rw [heq] at hu <;> revert hu <;> decide

/-- All `@id`s of the document — the three fixed ones and those of all results — are pairwise distinct. -/
theorem document_ids_nodup (vs ws is : List J)
    (hv : ∀ j ∈ vs, WF j = true) (hw : ∀ j ∈ ws, WF j = true) (hi : ∀ j ∈ is, WF j = true) :
    ("dialect-instance" :: "validation-report" :: "processing-data"
      :: (topIds vs ws is).map joinId).Nodup := by
  obtain ⟨hn, hne⟩ := report_ids_unique vs ws is hv hw hi
  simp only [List.nodup_cons, List.mem_cons, not_or]
  refine ⟨⟨by decide, by decide, fun h => (hne _ h).1 rfl⟩,
    ⟨by decide, fun h => (hne _ h).2.1 rfl⟩, fun h => (hne _ h).2.2 rfl, hn⟩

/-! ### the hypothesis is necessary -/

/-- A typed object with two arrays of typed children. -/
def collide : J :=
  .obj true [("trace", .arr [.obj true []]), ("extra", .arr [.obj true []])]

/-- Without `WF` ids collide: both arrays give their first element the id `violation_0_0`. -/
theorem collision_without_wf :
    WF collide = false ∧
    assignIds collide ["violation", "0"]
      = [["violation", "0"], ["violation", "0", "0"], ["violation", "0", "0"]] ∧
    ¬ (assignIds collide ["violation", "0"]).Nodup ∧
    ¬ ((topIds [collide] [] []).map joinId).Nodup := by
  decide

/-! ### non-vacuity: a tree shaped like the real report is well-formed -/

def exLocation : J :=
  .obj true [("uri", .leaf),
    ("range", .obj true [("start", .obj true [("line", .leaf), ("column", .leaf)]),
                         ("end", .obj true [("line", .leaf), ("column", .leaf)])])]

def exResult (traces : List J) : J :=
  .obj true [("resultMessage", .leaf), ("focusNode", .leaf), ("sourceShapeName", .leaf),
    ("trace", .arr traces), ("location", exLocation), ("tags", .arr [.leaf, .leaf])]

def exTrace (subResults : List J) : J :=
  .obj true [("component", .leaf), ("resultPath", .leaf),
    ("traceValue", .obj true [("focusNode", .leaf), ("negated", .leaf), ("subResult", .arr subResults)]),
    ("location", exLocation)]

/-- result → trace → traceValue → subResult → result → trace → traceValue → subResult → result -/
def exReport : J :=
  exResult [exTrace [exResult [exTrace [exResult [], exResult []], exTrace []], exResult []], exTrace []]

example : WF exReport = true := by decide
example : (assignIds exReport ["violation", "0"]).Nodup := ids_nodup _ _ (by decide)
example : (assignIds exReport ["violation", "0"]).length = 49 := by decide  -- 5 results × 5 + 4 traces × 6
example : joinId ["violation", "0", "0", "traceValue", "0", "location", "range", "start"]
    = "violation_0_0_traceValue_0_location_range_start" := by decide
example : ["violation", "0", "0", "traceValue", "0", "location", "range", "start"]
    ∈ assignIds exReport ["violation", "0"] := by decide
example : ((topIds [exReport, exReport] [exReport] [exResult []]).map joinId).Nodup :=
  (report_ids_unique _ _ _ (by decide) (by decide) (by decide)).1
example : showIdx 12 = "12" := by decide

end Acv.C12

#print axioms Acv.C12.ids_extend
#print axioms Acv.C12.ids_nodup
#print axioms Acv.C12.join_injective
#print axioms Acv.C12.ids_good
#print axioms Acv.C12.topIds_shape
#print axioms Acv.C12.topIds_nodup
#print axioms Acv.C12.report_ids_unique
#print axioms Acv.C12.document_ids_nodup
#print axioms Acv.C12.collision_without_wf
