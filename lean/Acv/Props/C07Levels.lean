import Acv.Model.Levels
import Acv.Gen.Levels
import Acv.Gen.Tables
import Acv.Lemmas.Trace
/-!
# C07, second half — the level names of the generated module are always defined, and never twice

The preamble's `report[level] = matches { vs = <name> … }` rules READ `violation`, `warning`, `info`; the module DEFINES a level
name by a generated rule (`<name>[matches] { … }`, one per failure branch of every validation listed under that level) or by a
`default <name> = []` appended when the level's list is empty. `Acv.Lv.moduleNames T p` is the list of names so defined, driven by
the table `Acv.Gen.levelsTable` REGENERATED from `internal/generator/generator.go`, `expression.go` and `internal/parser/profile`
on every run.

What the engine (the linked OPA, through `pkg.CompileProfile`) does, checked while this file was written:
* a level that is read but neither has a rule nor a default: `rego_unsafe_var_error: var violation is unsafe` (the profile does
  not compile);
* `default violation = []` NEXT TO a partial-set rule `violation[matches] { … }`:
  `rego_type_error: conflicting rules data.profile_p.violation found` (a complete-rule default and a partial set of one name do
  conflict; the profile does not compile);
* two `default warning = []`: `rego_type_error: multiple default rules data.profile_p.warning found`.
So a level must have a rule or a default (`levels_defined`), never both (`default_iff_empty`, `never_default_and_rule`), and never
two defaults (`defaults_nodup`).

1. facts about the regenerated table, by kernel evaluation (`source_readable`, `levels_table`, `level_names_fresh`);
2. for ALL profiles - any number of validations per level, any names, the same name under several levels -
   `levels_defined`, `default_iff_empty`, `never_default_and_rule`, `defaults_nodup`, `rules_per_level`, `rego_rules_per_level`;
3. the two ways a level is left undefined, as documented witnesses: the de-duplication regression
   (`dedup_leaves_level_undefined`) and a validation without failure branches (`zero_branches_leave_level_undefined`: this one is
   the behaviour of the code as it is, outside the documented language - `and: []`, `propertyConstraints: {}`);
   `proper_rules_levels_defined` ties the hypothesis of `levels_defined` to the rule model of C01: every rule without empty
   `and`/`or` bodies has a failure branch.
-/
namespace Acv.C07Levels
open Acv.Lv Acv.Gen

/-- the regenerated table -/
abbrev table : Table := levelsTable

/-- the documented assembly -/
def documented : Table :=
  { ruleSetFields := [.violation, .warning, .info],
    defaults := [(.violation, "violation"), (.warning, "warning"), (.info, "info")],
    reportReads := [("violation", "violation"), ("info", "info"), ("warning", "warning")],
    parserLevels := [(.violation, "violation"), (.warning, "warning"), (.info, "info")],
    headFn := .lower }

/-- the Rego name of a level -/
def Field.name : Field → String
  | .violation => "violation"
  | .warning => "warning"
  | .info => "info"

/-! ## 1. the regenerated table -/

/-- the translator could read `ruleSet` (plain appends, nothing filtered), `Generate`, `preamble`, the `report` rules of
`preambleRaw`, the head line of `wrapTopLevelRegoResult` (once per branch) and the way the parser fills `Level` -/
theorem source_readable : levelsUnreadable = [] := by decide

/-- the three fields/levels are paired as documented: `ruleSet` appends Violation, Warning, Info; the default of each name is
guarded by the emptiness of ITS OWN list; the parser stores the level string of the list an entry is put into; the head of a
generated rule is the lower-cased `Level` followed by `[matches]`; the `report` rules read exactly the three names (and assign the
matching level strings) -/
theorem levels_table : table = documented ∧ levelsHeadFormat = "%s[matches] {" := by decide

/-- the three names are pairwise distinct, none of them is a name the fixed preamble defines itself (`report`, `find`, `nested`,
`trace`, `error`, …), none is a keyword of the linked engine -/
theorem level_names_fresh :
    (reportNames table).Nodup ∧
    (reportNames table).all (fun n => !levelsPreambleHeads.contains n && !regoKeywords.contains n) = true := by decide

theorem levelName_eq (f : Field) : documented.levelName f = Field.name f := by
  cases f <;> decide

theorem name_injective : ∀ f g : Field, Field.name f = Field.name g → f = g := by
  intro f g; cases f <;> cases g <;> decide

/-! ## 2. all profiles -/

section lists

/-- rules generated for the entries of one list -/
theorem mem_heads_of_list (l : List Entry) (lv h n : String) :
    n ∈ (l.map fun e => (lv, e)).flatMap (fun x => List.replicate x.2.branches h) ↔
      n = h ∧ ∃ e ∈ l, 0 < e.branches := by
  induction l with
  | nil => simp
  | cons e es ih =>
    simp only [List.map_cons, List.flatMap_cons, List.mem_append, ih, List.mem_replicate, List.mem_cons,
      exists_eq_or_imp]
    constructor
    · rintro (⟨h1, h2⟩ | ⟨h1, h2⟩)
      · exact ⟨h2, Or.inl (Nat.pos_of_ne_zero h1)⟩
      · exact ⟨h1, Or.inr h2⟩
    · rintro ⟨h1, h2 | h2⟩
      · exact Or.inl ⟨Nat.ne_of_gt h2, h1⟩
      · exact Or.inr ⟨h1, h2⟩

theorem count_heads_of_list (l : List Entry) (lv h n : String) :
    ((l.map fun e => (lv, e)).flatMap (fun x => List.replicate x.2.branches h)).count n =
      if h = n then (l.map (·.branches)).sum else 0 := by
  induction l with
  | nil => simp
  | cons e es ih =>
    simp only [List.map_cons, List.flatMap_cons, List.count_append, ih, List.count_replicate, List.sum_cons]
    by_cases hn : h = n <;> simp [hn]

end lists

/-- `ruleSet` of the documented table, spelled out -/
theorem ruleSet_documented (p : Profile) :
    ruleSet documented p =
      (p.violation.map fun e => ("violation", e)) ++ (p.warning.map fun e => ("warning", e)) ++
        (p.info.map fun e => ("info", e)) := by
  simp [ruleSet, documented, Table.levelOf, Profile.field]

theorem head_documented :
    documented.head "violation" = "violation" ∧ documented.head "warning" = "warning" ∧
      documented.head "info" = "info" := by decide

/-- a generated rule has the name of field `f` iff `f`'s list has an entry with a failure branch -/
theorem mem_ruleHeads (p : Profile) (f : Field) :
    Field.name f ∈ ruleHeads documented p ↔ ∃ e ∈ p.field f, 0 < e.branches := by
  obtain ⟨hv, hw, hi⟩ := head_documented
  simp only [ruleHeads, ruleSet_documented, List.flatMap_append, List.mem_append]
  have key : ∀ (l : List Entry) (lv : String) (n : String),
      n ∈ (l.map fun e => (lv, e)).flatMap (fun x => List.replicate x.2.branches (documented.head x.1)) ↔
        n = documented.head lv ∧ ∃ e ∈ l, 0 < e.branches := by
    intro l lv n
    have : (l.map fun e => (lv, e)).flatMap (fun x => List.replicate x.2.branches (documented.head x.1)) =
        (l.map fun e => (lv, e)).flatMap (fun x => List.replicate x.2.branches (documented.head lv)) := by
      induction l with
      | nil => rfl
      | cons e es ih => simp only [List.map_cons, List.flatMap_cons, ih]
    rw [this]; exact mem_heads_of_list l lv _ n
  rw [key, key, key, hv, hw, hi]
  cases f <;> simp [Field.name, Profile.field]

/-- a default is emitted for the name of field `f` iff `f`'s list is empty -/
theorem mem_defaultNames (p : Profile) (f : Field) :
    Field.name f ∈ defaultNames documented p ↔ p.field f = [] := by
  cases f <;>
    simp [defaultNames, documented, Field.name, Profile.field, List.filter_cons, List.isEmpty_iff] <;>
    (repeat' split) <;> simp_all

/-- **levels_defined**: every name the `report` rules read is defined by the module - by a generated rule or by a default -
for every profile whose validations each have at least one failure branch (true of every rule without empty `and`/`or` bodies,
`proper_rules_levels_defined`). The generated module never references an undefined level. -/
theorem levels_defined (p : Profile) (h : ∀ f, ∀ e ∈ p.field f, 0 < e.branches) :
    ∀ n ∈ reportNames table, n ∈ moduleNames table p := by
  rw [levels_table.1]
  have all (f : Field) : Field.name f ∈ moduleNames documented p := by
    rw [moduleNames, List.mem_append, mem_ruleHeads, mem_defaultNames]
    cases hl : p.field f with
    | nil => exact Or.inr rfl
    | cons e es => exact Or.inl ⟨e, List.mem_cons_self .., h f e (hl ▸ List.mem_cons_self ..)⟩
  intro n hn
  simp only [reportNames, documented, List.map_cons, List.map_nil, List.mem_cons, List.not_mem_nil, or_false] at hn
  rcases hn with rfl | rfl | rfl
  · exact all .violation
  · exact all .info
  · exact all .warning

/-- **default_iff_empty**: `default <name> = []` is emitted for a level iff its list is empty -/
theorem default_iff_empty (p : Profile) (f : Field) :
    table.levelName f ∈ defaultNames table p ↔ p.field f = [] := by
  rw [levels_table.1, levelName_eq]; exact mem_defaultNames p f

/-- … so a level never has both a default and a rule (the engine rejects `default x = []` next to `x[matches] { … }` as
"conflicting rules") -/
theorem never_default_and_rule (p : Profile) (n : String) :
    n ∈ defaultNames table p → n ∉ ruleHeads table p := by
  rw [levels_table.1]
  intro hd hr
  have hf : ∃ f, n = Field.name f := by
    simp only [defaultNames, documented, List.mem_map, List.mem_filter] at hd
    obtain ⟨d, ⟨hd, _⟩, rfl⟩ := hd
    simp only [List.mem_cons, List.not_mem_nil, or_false] at hd
    rcases hd with rfl | rfl | rfl
    · exact ⟨.violation, rfl⟩
    · exact ⟨.warning, rfl⟩
    · exact ⟨.info, rfl⟩
  obtain ⟨f, rfl⟩ := hf
  rw [mem_defaultNames] at hd
  rw [mem_ruleHeads, hd] at hr
  obtain ⟨e, he, _⟩ := hr
  exact absurd he (List.not_mem_nil)

/-- … and no name gets two defaults (the engine rejects that as "multiple default rules") -/
theorem defaults_nodup (p : Profile) : (defaultNames table p).Nodup := by
  rw [levels_table.1]
  have hsub : List.Sublist (defaultNames documented p) ["violation", "warning", "info"] := by
    have := (List.filter_sublist (l := documented.defaults) (p := fun d => (p.field d.1).isEmpty)).map (·.2)
    simpa [defaultNames, documented] using this
  exact hsub.nodup (by decide)

/-- **rules_per_level**: the number of generated top-level expressions whose rules have the name of level L equals the length of
list L - every entry of every list is generated, under its own level; a validation listed under two levels yields one in each -/
theorem rules_per_level (p : Profile) (f : Field) :
    (groupHeads table p).count (table.levelName f) = (p.field f).length := by
  rw [levels_table.1, levelName_eq]
  obtain ⟨hv, hw, hi⟩ := head_documented
  simp only [groupHeads, ruleSet_documented, List.map_append, List.map_map, List.count_append]
  have key : ∀ (l : List Entry) (lv n : String),
      (l.map ((fun x : String × Entry => documented.head x.1) ∘ fun e => (lv, e))).count n =
        if documented.head lv = n then l.length else 0 := by
    intro l lv n
    induction l with
    | nil => simp
    | cons e es ih =>
      simp only [List.map_cons, List.count_cons, ih, List.length_cons, Function.comp]
      by_cases hn : documented.head lv = n <;> simp [hn]
  rw [key, key, key, hv, hw, hi]
  cases f <;> simp [Field.name, Profile.field]

/-- the same count on Rego rules: level L has as many rules as the validations of list L have failure branches, in total -/
theorem rego_rules_per_level (p : Profile) (f : Field) :
    (ruleHeads table p).count (table.levelName f) = ((p.field f).map (·.branches)).sum := by
  rw [levels_table.1, levelName_eq]
  obtain ⟨hv, hw, hi⟩ := head_documented
  simp only [ruleHeads, ruleSet_documented, List.flatMap_append, List.count_append]
  have key : ∀ (l : List Entry) (lv n : String),
      ((l.map fun e => (lv, e)).flatMap
          (fun x => List.replicate x.2.branches (documented.head x.1))).count n =
        if documented.head lv = n then (l.map (·.branches)).sum else 0 := by
    intro l lv n
    have : (l.map fun e => (lv, e)).flatMap (fun x => List.replicate x.2.branches (documented.head x.1)) =
        (l.map fun e => (lv, e)).flatMap (fun x => List.replicate x.2.branches (documented.head lv)) := by
      induction l with
      | nil => rfl
      | cons e es ih => simp only [List.map_cons, List.flatMap_cons, ih]
    rw [this]; exact count_heads_of_list l lv _ n
  rw [key, key, key, hv, hw, hi]
  cases f <;> simp [Field.name, Profile.field]

/-! ## 3. how a level is left undefined -/

/-- the regression `rules_per_level` excludes: a `ruleSet` that skips a validation already taken from another level, while
`preamble` still counts the lists of the profile. `twice` is listed under violation and warning: the warning list is not empty
(no default) and its only rule has been dropped - `warning` is read by `report` and defined nowhere. -/
theorem dedup_leaves_level_undefined :
    let p : Profile := { violation := [⟨"twice", 1⟩], warning := [⟨"twice", 1⟩] }
    (∀ f, ∀ e ∈ p.field f, 0 < e.branches) ∧ "warning" ∈ reportNames table ∧
      "warning" ∉ moduleNamesDedup table p ∧ "warning" ∈ moduleNames table p := by
  refine ⟨?_, by decide, by decide, by decide⟩
  intro f; cases f <;> decide

/-- the hypothesis of `levels_defined` is needed, and this is how the code behaves: a validation WITHOUT failure branches
(`and: []`, `propertyConstraints: {}`, `not: {or: []}`; outside the documented language) alone in its level makes the list
non-empty (no default) and yields no rule. `pkg.CompileProfile` answers "var violation is unsafe" for such a profile. -/
theorem zero_branches_leave_level_undefined :
    let p : Profile := { violation := [⟨"v1", 0⟩] }
    "violation" ∈ reportNames table ∧ "violation" ∉ moduleNames table p := by decide

/-- an entry made from a rule of the rule model (C01): its branches are the results of `Dispatch` -/
def Entry.ofRule (name : String) (r : Dnf.Rule) : Entry := ⟨name, (Dnf.dispatch r).length⟩

/-- the link to the rule model: a profile whose validations are rules without empty `and`/`or` bodies (`Dnf.Proper`, the
hypothesis of C01's `compile_correct`) defines every level the `report` rules read -/
theorem proper_rules_levels_defined (vs ws is : List (String × Dnf.Rule))
    (hp : ∀ x ∈ vs ++ ws ++ is, Dnf.Proper x.2 = true) :
    let p : Profile := { violation := vs.map fun x => Entry.ofRule x.1 x.2,
                         warning := ws.map fun x => Entry.ofRule x.1 x.2,
                         info := is.map fun x => Entry.ofRule x.1 x.2 }
    ∀ n ∈ reportNames table, n ∈ moduleNames table p := by
  intro p
  apply levels_defined
  have pos : ∀ (l : List (String × Dnf.Rule)), (∀ x ∈ l, Dnf.Proper x.2 = true) →
      ∀ e ∈ l.map (fun x => Entry.ofRule x.1 x.2), 0 < e.branches := by
    intro l hl e he
    obtain ⟨x, hx, rfl⟩ := List.mem_map.1 he
    exact List.length_pos_iff.2 (Acv.Tr.shape_nonempty x.2 (hl x hx)).2
  intro f
  cases f
  · exact pos vs fun x hx => hp x (by simp [hx])
  · exact pos ws fun x hx => hp x (by simp [hx])
  · exact pos is fun x hx => hp x (by simp [hx])

/-! ## Non-vacuity: concrete modules -/

/-- one validation per level -/
example : moduleNames table { violation := [⟨"a", 1⟩], warning := [⟨"b", 2⟩], info := [⟨"c", 1⟩] } =
    ["violation", "warning", "warning", "info"] := by decide
/-- an empty profile: three defaults -/
example : moduleNames table {} = ["violation", "warning", "info"] ∧ ruleHeads table {} = [] := by decide
/-- only warnings -/
example : moduleNames table { warning := [⟨"b", 1⟩] } = ["warning", "violation", "info"] := by decide
/-- one validation under two levels: a rule in each, no default for either -/
example : moduleNames table { violation := [⟨"twice", 1⟩, ⟨"other", 1⟩], warning := [⟨"twice", 1⟩] } =
    ["violation", "violation", "warning", "info"] := by decide
/-- the same profile after the de-duplication regression -/
example : moduleNamesDedup table { violation := [⟨"twice", 1⟩, ⟨"other", 1⟩], warning := [⟨"twice", 1⟩] } =
    ["violation", "violation", "info"] := by decide
/-- a table whose warning default is guarded by the violation list (a seeded change) is not the documented one, and leaves
`warning` undefined for a profile with violations only -/
example : "warning" ∉ moduleNames { documented with defaults := [(.violation, "violation"), (.violation, "warning"), (.info, "info")] }
    { violation := [⟨"a", 1⟩] } := by decide
/-- the hypothesis of `proper_rules_levels_defined` is satisfiable, and an atom has exactly one branch -/
example : Dnf.Proper (.atom false 0) = true ∧ Entry.ofRule "v" (.atom false 0) = ⟨"v", 1⟩ := by
  simp [Dnf.Proper, Entry.ofRule, Dnf.dispatch]

end Acv.C07Levels

#print axioms Acv.C07Levels.source_readable
#print axioms Acv.C07Levels.levels_table
#print axioms Acv.C07Levels.level_names_fresh
#print axioms Acv.C07Levels.levels_defined
#print axioms Acv.C07Levels.default_iff_empty
#print axioms Acv.C07Levels.never_default_and_rule
#print axioms Acv.C07Levels.defaults_nodup
#print axioms Acv.C07Levels.rules_per_level
#print axioms Acv.C07Levels.rego_rules_per_level
#print axioms Acv.C07Levels.dedup_leaves_level_undefined
#print axioms Acv.C07Levels.zero_branches_leave_level_undefined
#print axioms Acv.C07Levels.proper_rules_levels_defined
