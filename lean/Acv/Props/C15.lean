import Acv.Model.Iri
import Acv.Model.IriGrammar
import Acv.Lemmas.Iri
import Acv.Lemmas.IriGrammar
import Acv.Gen.PathGrammar
/-!
# C15 — the IRI expander depends on the namespace a prefix stands for, not on the prefix's spelling, and
never rejects an IRI the path parser accepted

`Acv.Iri.expand` is the transliteration of `IriExpander.Expand`.  The path grammar is GENERATED
(`Acv.Gen.PathGrammar`); the character classes of its `Iri` rule are read off the table by `iriClasses`
(`Acv.Model.IriGrammar`) and compared with the classes of the expander's regular expression by a `decide`d
checker, so the link is re-checked when the grammar changes.
-/
namespace Acv.C15
open Acv Acv.Iri Acv.Gen

/-! ## The expander on compact IRIs -/

/-- What `Expand` does on `p.l` (`p` over class 1, `l` over class 2, both non-empty). -/
theorem expand_compact (ctx : List Char → Option (List Char)) {p l : List Char}
    (hp : p ≠ []) (hp1 : ∀ c ∈ p, isClass1 c = true) (hl : l ≠ []) (hl2 : ∀ c ∈ l, isClass2 c = true) :
    expand ctx (p ++ '.' :: l) =
      match ctx p with
      | some ns => .ok (ns ++ unescapeSlash l)
      | none => .error .notInContext := by
  unfold expand expandCompactIri
  rw [isCompact_of_parts hp hp1 hl hl2, splitDot_parts hp1]
  simp only [if_true]
  cases ctx p <;> rfl

/-- **Prefix renaming.**  If two contexts give the same namespace to the prefixes `p` and `q`, then `p.l`
in the first and `q.l` in the second expand to the same IRI, namely `ns ++ unescapeSlash l`. -/
theorem expand_rename (ctx ctx' : List Char → Option (List Char)) {p q l ns : List Char}
    (hp : p ≠ []) (hp1 : ∀ c ∈ p, isClass1 c = true)
    (hq : q ≠ []) (hq1 : ∀ c ∈ q, isClass1 c = true)
    (hl : l ≠ []) (hl2 : ∀ c ∈ l, isClass2 c = true)
    (hc : ctx p = some ns) (hc' : ctx' q = some ns) :
    expand ctx (p ++ '.' :: l) = expand ctx' (q ++ '.' :: l) ∧
      expand ctx (p ++ '.' :: l) = .ok (ns ++ unescapeSlash l) ∧
      expand ctx' (q ++ '.' :: l) = .ok (ns ++ unescapeSlash l) := by
  have e1 := expand_compact ctx hp hp1 hl hl2
  have e2 := expand_compact ctx' hq hq1 hl hl2
  rw [hc] at e1
  rw [hc'] at e2
  exact ⟨e1.trans e2.symm, e1, e2⟩

/-- The result never mentions the prefix: renaming a prefix consistently in the context and in the IRI
(a context `ctx'` that maps `q` where `ctx` maps `p`) leaves every expansion unchanged, also when the prefix
is unknown. -/
theorem expand_rename_ctx (ctx ctx' : List Char → Option (List Char)) {p q l : List Char}
    (hp : p ≠ []) (hp1 : ∀ c ∈ p, isClass1 c = true)
    (hq : q ≠ []) (hq1 : ∀ c ∈ q, isClass1 c = true)
    (hl : l ≠ []) (hl2 : ∀ c ∈ l, isClass2 c = true)
    (hc : ctx' q = ctx p) :
    expand ctx' (q ++ '.' :: l) = expand ctx (p ++ '.' :: l) := by
  rw [expand_compact ctx hp hp1 hl hl2, expand_compact ctx' hq hq1 hl hl2, hc]

/-! ## What the path grammar accepts -/

/-- **The expander never rejects what the parser accepted.**  An IRI `ns.prop` with `ns` non-empty over
`[a-zA-Z0-9_-]` and `prop` non-empty over `[.\\/a-zA-Z0-9_-]` (backslash and slash allowed) is in compact
form; `Expand` succeeds whenever the context knows `ns`, and its only possible error is the unknown
prefix. -/
theorem expand_total_on_grammar (ctx : List Char → Option (List Char)) {ns prop : List Char}
    (hn : ns ≠ []) (hn1 : ∀ c ∈ ns, isNsChar c = true)
    (hp : prop ≠ []) (hp1 : ∀ c ∈ prop, isPropChar c = true) :
    isCompact (ns ++ '.' :: prop) = true ∧
    (∀ e, ctx ns = some e → expand ctx (ns ++ '.' :: prop) = .ok (e ++ unescapeSlash prop)) ∧
    (ctx ns = none → expand ctx (ns ++ '.' :: prop) = .error .notInContext) := by
  have h1 : ∀ c ∈ ns, isClass1 c = true := fun c hc => nsChar_class1 (hn1 c hc)
  have h2 : ∀ c ∈ prop, isClass2 c = true := fun c hc => propChar_class2 (hp1 c hc)
  have e := expand_compact ctx hn h1 hp h2
  refine ⟨isCompact_of_parts hn h1 hp h2, ?_, ?_⟩
  · intro x hx; rw [e, hx]
  · intro hx; rw [e, hx]

/-- Without a backslash in `prop` the expansion is plain concatenation. -/
theorem expand_plain (ctx : List Char → Option (List Char)) {ns prop e : List Char}
    (hn : ns ≠ []) (hn1 : ∀ c ∈ ns, isNsChar c = true)
    (hp : prop ≠ []) (hp1 : ∀ c ∈ prop, isPropChar c = true) (hb : '\\' ∉ prop)
    (hc : ctx ns = some e) : expand ctx (ns ++ '.' :: prop) = .ok (e ++ prop) := by
  rw [(expand_total_on_grammar ctx hn hn1 hp hp1).2.1 e hc, unescapeSlash_no_backslash prop hb]

/-! ### … tied to the generated grammar tables -/

/-- table fact: both generated grammars pass the checker -/
theorem generated_grammars_ok : grammarIriOk pathGrammarGo = true ∧ grammarIriOk pathGrammarPeg = true := by
  decide

/-- For any grammar that passes the checker: whatever its `Iri` rule reads as `ns` and `prop` (non-empty
runs of its two character classes — the `+` of the rule) is expanded without a "not in compact form"
error. -/
theorem expand_total_of_grammarIriOk (g : Grammar) (hg : grammarIriOk g = true) :
    ∃ k1 k2, iriClasses g = some (k1, k2) ∧
      ∀ (ctx : List Char → Option (List Char)) (ns prop e : List Char),
        ns ≠ [] → (∀ c ∈ ns, classMatch k1.1 k1.2 false c = true) →
        prop ≠ [] → (∀ c ∈ prop, classMatch k2.1 k2.2 false c = true) →
        ctx ns = some e → expand ctx (ns ++ '.' :: prop) = .ok (e ++ unescapeSlash prop) := by
  unfold grammarIriOk at hg
  split at hg
  · next k1 k2 heq =>
    simp only [Bool.and_eq_true] at hg
    refine ⟨k1, k2, heq, ?_⟩
    intro ctx ns prop e hn hn1 hp hp1 hc
    have h1 : ∀ c ∈ ns, isClass1 c = true :=
      fun c hc => clsWithin_sound isClass1 alnum_class1 k1 hg.1 c (hn1 c hc)
    have h2 : ∀ c ∈ prop, isClass2 c = true :=
      fun c hc => clsWithin_sound isClass2 alnum_class2 k2 hg.2 c (hp1 c hc)
    rw [expand_compact ctx hn h1 hp h2, hc]
  · exact absurd hg (by simp)

/-- The statement for the two generated grammars (the one translated from the Go parser and the one
translated from the `.peg` source). -/
theorem expand_total_on_generated_grammar : ∀ g ∈ [pathGrammarGo, pathGrammarPeg],
    ∃ k1 k2, iriClasses g = some (k1, k2) ∧
      ∀ (ctx : List Char → Option (List Char)) (ns prop e : List Char),
        ns ≠ [] → (∀ c ∈ ns, classMatch k1.1 k1.2 false c = true) →
        prop ≠ [] → (∀ c ∈ prop, classMatch k2.1 k2.2 false c = true) →
        ctx ns = some e → expand ctx (ns ++ '.' :: prop) = .ok (e ++ unescapeSlash prop) := by
  intro g hg
  simp only [List.mem_cons, List.not_mem_nil, or_false] at hg
  rcases hg with rfl | rfl
  · exact expand_total_of_grammarIriOk _ generated_grammars_ok.1
  · exact expand_total_of_grammarIriOk _ generated_grammars_ok.2

/-- table fact: in both generated grammars the classes are exactly `isNsChar` and `isPropChar` -/
theorem generated_grammars_exact :
    grammarIriExact pathGrammarGo = true ∧ grammarIriExact pathGrammarPeg = true := by decide

theorem classes_exact_of_grammarIriExact (g : Grammar) (hg : grammarIriExact g = true) :
    ∃ k1 k2, iriClasses g = some (k1, k2) ∧
      (∀ c, classMatch k1.1 k1.2 false c = isNsChar c) ∧
      (∀ c, classMatch k2.1 k2.2 false c = isPropChar c) := by
  unfold grammarIriExact at hg
  split at hg
  · next k1 k2 heq =>
    simp only [Bool.and_eq_true] at hg
    obtain ⟨⟨⟨w1, c1⟩, w2⟩, c2⟩ := hg
    refine ⟨k1, k2, heq, ?_, ?_⟩
    · intro c
      apply Bool.eq_iff_iff.2
      exact ⟨clsWithin_sound isNsChar alnum_nsChar k1 w1 c, clsCoversNs_sound k1 c1 c⟩
    · intro c
      apply Bool.eq_iff_iff.2
      exact ⟨clsWithin_sound isPropChar alnum_propChar k2 w2 c, clsCoversProp_sound k2 c2 c⟩
  · exact absurd hg (by simp)

/-- The hand-written classes `isNsChar` / `isPropChar` used in `expand_total_on_grammar` are exactly the
classes of the `Iri` rule of both generated grammars. -/
theorem grammar_classes_exact : ∀ g ∈ [pathGrammarGo, pathGrammarPeg],
    ∃ k1 k2, iriClasses g = some (k1, k2) ∧
      (∀ c, classMatch k1.1 k1.2 false c = isNsChar c) ∧
      (∀ c, classMatch k2.1 k2.2 false c = isPropChar c) := by
  intro g hg
  simp only [List.mem_cons, List.not_mem_nil, or_false] at hg
  rcases hg with rfl | rfl
  · exact classes_exact_of_grammarIriExact _ generated_grammars_exact.1
  · exact classes_exact_of_grammarIriExact _ generated_grammars_exact.2

/-! ## Reserved words -/

/-- A text that starts with `@` is never in compact form and is returned unchanged. -/
theorem expand_reserved (ctx : List Char → Option (List Char)) (rest : List Char) :
    isCompact ('@' :: rest) = false ∧ expand ctx ('@' :: rest) = .ok ('@' :: rest) := by
  have h := isCompact_at rest
  refine ⟨h, ?_⟩
  unfold expand
  rw [h]
  simp [isReserved]

/-- Anything else that is not compact is an error. -/
theorem expand_error (ctx : List Char → Option (List Char)) (iri : List Char)
    (hc : isCompact iri = false) (hr : isReserved iri = false) : expand ctx iri = .error .notCompact := by
  simp [expand, hc, hr]

/-- Success on a compact IRI always has the form namespace ++ unescaped suffix, with the namespace looked up
under the text before the first dot. -/
theorem expand_ok_shape (ctx : List Char → Option (List Char)) (iri out : List Char)
    (hc : isCompact iri = true) (h : expand ctx iri = .ok out) :
    ∃ p l ns, iri = p ++ '.' :: l ∧ ctx p = some ns ∧ out = ns ++ unescapeSlash l := by
  obtain ⟨p, l, rfl, hp, hp1, hl, hl2⟩ := parts_of_isCompact hc
  rw [expand_compact ctx hp hp1 hl hl2] at h
  cases hx : ctx p with
  | none => rw [hx] at h; cases h
  | some ns =>
    rw [hx] at h
    simp only [Except.ok.injEq] at h
    exact ⟨p, l, ns, rfl, hx, h.symm⟩

/-! ## Examples -/

/-- two contexts that call the same namespace `shacl` and `sh` -/
def ctxA (p : List Char) : Option (List Char) :=
  if p = "shacl".toList then some "http://www.w3.org/ns/shacl#".toList
  else if p = "apiContract".toList then some "http://a.ml/vocabularies/apiContract#".toList
  else none
def ctxB (p : List Char) : Option (List Char) :=
  if p = "sh".toList then some "http://www.w3.org/ns/shacl#".toList else none

example : expand ctxA "shacl.name".toList = .ok "http://www.w3.org/ns/shacl#name".toList := by decide
example : expand ctxB "sh.name".toList = expand ctxA "shacl.name".toList := by decide
/-- `\/` in the suffix becomes `/`; a lone backslash, dots and parentheses stay -/
example : expand ctxA "apiContract.a\\/b.c\\d(e)".toList =
    .ok "http://a.ml/vocabularies/apiContract#a/b.c\\d(e)".toList := by decide
example : unescapeSlash "\\\\/\\/\\".toList = "\\//\\".toList := by decide
/-- the separator is the FIRST dot -/
example : expand ctxA "shacl.a.b".toList = .ok "http://www.w3.org/ns/shacl#a.b".toList := by decide
example : expand ctxA "@type".toList = .ok "@type".toList := by decide
/-- `@type` in any context, from the theorem -/
example (ctx : List Char → Option (List Char)) :
    expand ctx ['@', 't', 'y', 'p', 'e'] = .ok ['@', 't', 'y', 'p', 'e'] := (expand_reserved ctx _).2
example : expand ctxA "@ty.pe".toList = .ok "@ty.pe".toList := by decide
example : expand ctxA "nope.name".toList = .error .notInContext := by decide
/-- not compact: no dot, empty prefix, empty suffix, a character outside class 2, a trailing space, a slash
in the prefix -/
example : expand ctxA "shacl".toList = .error .notCompact := by decide
example : expand ctxA ".name".toList = .error .notCompact := by decide
example : expand ctxA "shacl.".toList = .error .notCompact := by decide
example : expand ctxA "shacl.na#me".toList = .error .notCompact := by decide
example : expand ctxA "shacl.name ".toList = .error .notCompact := by decide
example : expand ctxA "sha/cl.name".toList = .error .notCompact := by decide

end Acv.C15

#print axioms Acv.C15.expand_compact
#print axioms Acv.C15.expand_rename
#print axioms Acv.C15.expand_rename_ctx
#print axioms Acv.C15.expand_total_on_grammar
#print axioms Acv.C15.expand_plain
#print axioms Acv.C15.generated_grammars_ok
#print axioms Acv.C15.expand_total_on_generated_grammar
#print axioms Acv.C15.generated_grammars_exact
#print axioms Acv.C15.grammar_classes_exact
#print axioms Acv.C15.expand_reserved
#print axioms Acv.C15.expand_error
#print axioms Acv.C15.expand_ok_shape
