import Acv.Model.Ld
import Acv.Lemmas.Ld
/-!
# C05: normalisation does not depend on the surface form of the data graph

`Acv.Ld.norm` (`Acv/Model/Ld.lean`) models `Index (Normalize doc)` of
`internal/validator/normalizer.go` on the JSON-LD fragment the corpus uses.  A `Choice` is a
serialisation plan for an abstract graph `g` (node order, key order, single value vs array, `@type`
string vs array, `{"@value": s}` vs `s`, repetition, embedding of any part of a node at any depth,
a node split over several places, top-level array / `@graph` / single object); `ser g c` renders it
and `WF g c` decides that the plan is a serialisation of `g`.

* `norm_ser`: every well-formed serialisation of `g` normalises, and to the index `g` denotes
  (as sets: `Index.equiv`).  `norm_ser_flat` is the special case without embedding.
* `reserialisation_invariant`: two serialisations of the same graph give equivalent indexes.
* `equiv_iff`, `equiv_targets`: equivalent indexes have the same ids, per class the same set of
  target ids (`@types`), per id the same sets of classes, keys and values — all the policy reads.
* `norm_wellFormed`, `find_get_iff`: the output of `norm` has one entry per id and one list per
  key, and on such an index the set-level accessors are what `find`/`get` of the policy return.
-/
namespace Acv.C05
open Acv Acv.Ld

/-! ## 1. Every serialisation of a graph normalises to the index of the graph -/

/-- Stage B (general): any well-formed plan — embedding of arbitrary parts of nodes at arbitrary
depth, split nodes, repetitions, all top-level forms. -/
theorem norm_ser (g : Graph) (c : Choice) (h : WF g c = true) :
    ∃ ix, norm (ser g c) = some ix ∧ ix.equiv (canonIndex g) = true := by
  obtain ⟨ts, e, m⟩ := triples_ser g c h
  exact ⟨group ts, by simp [norm, e], group_equiv_canon m⟩

/-- Stage A: flat documents (no embedded node object). -/
theorem norm_ser_flat (g : Graph) (c : Choice) (h : WF g c = true) (_hflat : c.flat = true) :
    ∃ ix, norm (ser g c) = some ix ∧ ix.equiv (canonIndex g) = true :=
  norm_ser g c h

/-- The hypotheses are satisfiable for every graph of the fragment (`gOk`: distinct absolute node
ids, absolute class / property IRIs, distinct keys per node): its plain rendering is a well-formed,
flat serialisation. -/
theorem exists_WF (g : Graph) (h : gOk g = true) : ∃ c, WF g c = true ∧ c.flat = true :=
  ⟨Choice.plainOf g, WF_plainOf h, flat_plainOf g⟩

/-! ## 2. `equiv` is an equivalence; re-serialisation invariance -/

theorem equiv_refl (a : Index) : a.equiv a = true := Ld.equiv_refl a
theorem equiv_symm {a b : Index} (h : a.equiv b = true) : b.equiv a = true := Ld.equiv_symm h
theorem equiv_trans {a b c : Index} (h : a.equiv b = true) (h' : b.equiv c = true) :
    a.equiv c = true := Ld.equiv_trans h h'

theorem reserialisation_invariant (g : Graph) (c₁ c₂ : Choice)
    (h₁ : WF g c₁ = true) (h₂ : WF g c₂ = true) :
    ∃ i₁ i₂, norm (ser g c₁) = some i₁ ∧ norm (ser g c₂) = some i₂ ∧ i₁.equiv i₂ = true := by
  obtain ⟨i₁, e₁, q₁⟩ := norm_ser g c₁ h₁
  obtain ⟨i₂, e₂, q₂⟩ := norm_ser g c₂ h₂
  exact ⟨i₁, i₂, e₁, e₂, equiv_trans q₁ (equiv_symm q₂)⟩

/-- Conversely `norm` loses nothing: documents of two graphs normalise to equivalent indexes only
if the graphs denote equivalent indexes (same statements). -/
theorem norm_reflects (g g' : Graph) (c c' : Choice) (h : WF g c = true) (h' : WF g' c' = true)
    {i i' : Index} (e : norm (ser g c) = some i) (e' : norm (ser g' c') = some i')
    (q : i.equiv i' = true) : (canonIndex g).equiv (canonIndex g') = true := by
  obtain ⟨j, ej, qj⟩ := norm_ser g c h
  obtain ⟨j', ej', qj'⟩ := norm_ser g' c' h'
  rw [e] at ej; cases ej
  rw [e'] at ej'; cases ej'
  exact equiv_trans (equiv_symm qj) (equiv_trans q qj')

/-! ## 3. What `equiv` means, and what the policy reads -/

/-- Prop-level characterisation of the decidable `Index.equiv`: same ids; per id the same set of
classes and the same set of property keys; per key the same set of values. -/
theorem equiv_iff {a b : Index} :
    a.equiv b = true ↔
      (∀ id, id ∈ a.ids ↔ id ∈ b.ids) ∧
      (∀ id c, c ∈ a.typesOf id ↔ c ∈ b.typesOf id) ∧
      (∀ id k, k ∈ a.keysOf id ↔ k ∈ b.keysOf id) ∧
      (∀ id k v, v ∈ a.valsOf id k ↔ v ∈ b.valsOf id k) := by
  rw [equiv_iff_facts]
  constructor
  · rintro ⟨h1, h2⟩
    refine ⟨h1, fun id c => ?_, fun id k => ?_, fun id k v => ?_⟩
    · rw [mem_typesOf, mem_typesOf]; exact h2 _
    · rw [mem_keysOf, mem_keysOf]; exact h2 _
    · rw [mem_valsOf, mem_valsOf]; exact h2 _
  · rintro ⟨h1, h2, h3, h4⟩
    refine ⟨h1, fun t => ?_⟩
    cases t with
    | ty s c => rw [← mem_typesOf, ← mem_typesOf]; exact h2 s c
    | key s k => rw [← mem_keysOf, ← mem_keysOf]; exact h3 s k
    | val s k v => rw [← mem_valsOf, ← mem_valsOf]; exact h4 s k v

/-- Equivalent indexes give the policy the same sets: `@types[cls]` (`target_class`) lists the same
node ids, the `@types` index has the same classes, and each node id has the same classes, keys and
values. -/
theorem equiv_targets {a b : Index} (h : a.equiv b = true) :
    (∀ cls id, id ∈ a.targets cls ↔ id ∈ b.targets cls) ∧
    (∀ cls, (∃ l, (cls, l) ∈ a.types) ↔ (∃ l, (cls, l) ∈ b.types)) ∧
    (∀ id, id ∈ a.ids ↔ id ∈ b.ids) ∧
    (∀ id c, c ∈ a.typesOf id ↔ c ∈ b.typesOf id) ∧
    (∀ id k, k ∈ a.keysOf id ↔ k ∈ b.keysOf id) ∧
    (∀ id k v, v ∈ a.valsOf id k ↔ v ∈ b.valsOf id k) := by
  have hf := (equiv_iff_facts.1 h).2
  have ht : ∀ cls id, id ∈ a.targets cls ↔ id ∈ b.targets cls := fun cls id => by
    rw [mem_targets, mem_targets]; exact hf _
  obtain ⟨h1, h2, h3, h4⟩ := equiv_iff.1 h
  refine ⟨ht, fun cls => ?_, h1, h2, h3, h4⟩
  constructor
  · rintro ⟨l, hl⟩
    obtain ⟨_, id, hid⟩ := mem_types.1 hl
    exact ⟨_, mem_types.2 ⟨rfl, id, (ht cls id).1 hid⟩⟩
  · rintro ⟨l, hl⟩
    obtain ⟨_, id, hid⟩ := mem_types.1 hl
    exact ⟨_, mem_types.2 ⟨rfl, id, (ht cls id).2 hid⟩⟩

/-! ## 4. The model index is a genuine index, and set-level reading is `find` / `get` -/

/-- whatever `norm` returns has one entry per id and one value list per key -/
theorem norm_wellFormed {d : Js} {ix : Index} (h : norm d = some ix) : ix.wellFormed = true := by
  simp only [norm, Option.map_eq_some_iff] at h
  obtain ⟨ts, _, rfl⟩ := h
  exact group_wellFormed ts

theorem canonIndex_wellFormed {g : Graph} (h : gOk g = true) : (canonIndex g).wellFormed = true := by
  simp only [gOk, distinct, Bool.and_eq_true, decide_eq_true_eq, List.all_eq_true] at h
  simp only [Index.wellFormed, Bool.and_eq_true, decide_eq_true_eq, List.all_eq_true]
  constructor
  · have e : (canonIndex g).ids = (g.filter hasContent).map (·.id) := by
      simp only [Index.ids, canonIndex, List.map_map]; rfl
    rw [e]
    exact List.Pairwise.sublist (List.Sublist.map _ List.filter_sublist) h.1
  · intro n hn
    simp only [canonIndex, List.mem_map, List.mem_filter] at hn
    obtain ⟨m, ⟨hm, _⟩, rfl⟩ := hn
    have e : (canonNode m).props.map (·.1) = m.props.map (·.1) := by
      simp only [canonNode, List.map_map]; rfl
    rw [e]; exact (h.2 m hm).1.2

/-- On a genuine index the policy's `find` (dereference through `@ids`) followed by `get` returns,
as a set, exactly `valsOf`; likewise for the classes. -/
theorem find_get_iff {ix : Index} (hwf : ix.wellFormed = true) (id k : String) (hk : k ≠ "@type")
    (v : Val) :
    (∃ n, Graph.find ix.nodes id = some n ∧ v ∈ n.get k) ↔ v ∈ ix.valsOf id k := by
  have hnd : ∀ n ∈ ix.nodes, (n.props.map (·.1)).Nodup := by
    intro n hn
    simp only [Index.wellFormed, Bool.and_eq_true, List.all_eq_true, decide_eq_true_eq] at hwf
    exact hwf.2 n hn
  rw [mem_valsOf, mem_facts]
  constructor
  · rintro ⟨n, hf, hv⟩
    obtain ⟨hn, hid⟩ := (find_iff hwf id n).1 hf
    exact ⟨n, hn, val_mem_nodeFacts.2 ⟨hid, (get_iff (hnd n hn) k hk v).1 hv⟩⟩
  · rintro ⟨n, hn, h⟩
    obtain ⟨hid, h'⟩ := val_mem_nodeFacts.1 h
    exact ⟨n, (find_iff hwf id n).2 ⟨hn, hid⟩, (get_iff (hnd n hn) k hk v).2 h'⟩

theorem find_types_iff {ix : Index} (hwf : ix.wellFormed = true) (id c : String) :
    (∃ n, Graph.find ix.nodes id = some n ∧ c ∈ n.types) ↔ c ∈ ix.typesOf id := by
  rw [mem_typesOf, mem_facts]
  constructor
  · rintro ⟨n, hf, hc⟩
    obtain ⟨hn, hid⟩ := (find_iff hwf id n).1 hf
    exact ⟨n, hn, ty_mem_nodeFacts.2 ⟨hid, hc⟩⟩
  · rintro ⟨n, hn, h⟩
    obtain ⟨hid, hc⟩ := ty_mem_nodeFacts.1 h
    exact ⟨n, (find_iff hwf id n).2 ⟨hn, hid⟩, hc⟩

/-- Hence two serialisations of one graph answer every `find`/`get` query with the same set. -/
theorem reserialisation_same_reads (g : Graph) (c₁ c₂ : Choice)
    (h₁ : WF g c₁ = true) (h₂ : WF g c₂ = true) :
    ∃ i₁ i₂, norm (ser g c₁) = some i₁ ∧ norm (ser g c₂) = some i₂ ∧
      (∀ cls id, id ∈ i₁.targets cls ↔ id ∈ i₂.targets cls) ∧
      (∀ id c, (∃ n, Graph.find i₁.nodes id = some n ∧ c ∈ n.types) ↔
               (∃ n, Graph.find i₂.nodes id = some n ∧ c ∈ n.types)) ∧
      (∀ id k v, k ≠ "@type" →
        ((∃ n, Graph.find i₁.nodes id = some n ∧ v ∈ n.get k) ↔
         (∃ n, Graph.find i₂.nodes id = some n ∧ v ∈ n.get k))) := by
  obtain ⟨i₁, i₂, e₁, e₂, q⟩ := reserialisation_invariant g c₁ c₂ h₁ h₂
  have w₁ := norm_wellFormed e₁
  have w₂ := norm_wellFormed e₂
  obtain ⟨t, _, _, ty, _, vs⟩ := equiv_targets q
  refine ⟨i₁, i₂, e₁, e₂, t, fun id c => ?_, fun id k v hk => ?_⟩
  · rw [find_types_iff w₁, find_types_iff w₂]; exact ty id c
  · rw [find_get_iff w₁ id k hk, find_get_iff w₂ id k hk]; exact vs id k v

/-! ## 5. Non-vacuity: concrete serialisations of a graph with a cycle and a shared child -/

/-- three nodes: `n1 → n2`, `n1 → n3`, `n2 → n3` (shared child), `n3 → n1` (cycle) -/
def g3 : Graph :=
  [ ⟨"http://n/1", ["http://c/T"],
      [("http://p/a", [.ref "http://n/2", .ref "http://n/3"]), ("http://p/name", [.str "one"])]⟩,
    ⟨"http://n/2", ["http://c/T", "http://c/U"], [("http://p/b", [.ref "http://n/3"])]⟩,
    ⟨"http://n/3", ["http://c/U"],
      [("http://p/c", [.ref "http://n/1"]), ("http://p/n", [.num 7, .bool true])]⟩ ]

/-- flat, in order, top-level array -/
def cFlat : Choice := Choice.plainOf g3

/-- flat; nodes permuted, keys permuted (`@id` last / in the middle), bare values, `@value`
wrappers, repeated values and classes, `@graph` wrapper -/
def cGraph : Choice :=
  ⟨[ ⟨2, [.prop 1 false [.plain 1 true, .plain 0 false, .plain 0 true, .plain 1 false],
          .types [0, 0] false, .id, .prop 0 true [.plain 0 false]]⟩,
     ⟨0, [.prop 1 true [.plain 0 true], .prop 0 false [.plain 1 false, .plain 0 false, .plain 1 false],
          .types [0] true, .id]⟩,
     ⟨1, [.id, .prop 0 false [.plain 0 false], .types [1, 0] true]⟩ ], .graph⟩

/-- a single top-level object: `n2` embedded in `n1`, `n3` embedded in `n2` (two levels deep) with
its class and part of `p/n`; the rest of `n3` embedded a second time directly in `n1` -/
def cSingle : Choice :=
  ⟨[ ⟨0, [.id, .types [0] true,
          .prop 0 false
            [ .embed 0 1 [.id, .types [0, 1] false,
                .prop 0 true [.embed 0 2 [.types [0] true, .id, .prop 1 true [.plain 0 true]]]],
              .embed 1 2 [.id, .prop 0 false [.plain 0 false], .prop 1 false [.plain 1 false, .plain 0 false]] ],
          .prop 1 true [.plain 0 false]]⟩ ], .single⟩

/-- array; `n3` split between an embedding two levels deep and a flat occurrence; `n2` both embedded
(without content beyond its class) and flat -/
def cSplit : Choice :=
  ⟨[ ⟨2, [.id, .prop 0 false [.embed 0 0 [.id, .prop 1 false [.plain 0 false],
              .prop 0 false [.embed 0 1 [.id, .types [1] false,
                  .prop 0 false [.embed 0 2 [.id, .types [0] false]]],
                .plain 1 false]]]]⟩,
     ⟨1, [.types [0] true, .id]⟩,
     ⟨0, [.id, .types [0] false]⟩,
     ⟨2, [.prop 1 false [.plain 0 false, .plain 1 true], .id]⟩ ], .array⟩


set_option maxRecDepth 100000

example : gOk g3 = true := by decide
example : WF g3 cFlat = true ∧ cFlat.flat = true := by decide
example : WF g3 cGraph = true ∧ cGraph.flat = true := by decide
example : WF g3 cSingle = true ∧ cSingle.flat = false := by decide
example : WF g3 cSplit = true ∧ cSplit.flat = false := by decide

/-- what `cSingle` looks like -/
example : ser g3 cSingle =
    .obj [("@id", .str "http://n/1"), ("@type", .str "http://c/T"),
      ("http://p/a", .arr [
        .obj [("@id", .str "http://n/2"), ("@type", .arr [.str "http://c/T", .str "http://c/U"]),
          ("http://p/b", .obj [("@type", .str "http://c/U"), ("@id", .str "http://n/3"),
            ("http://p/n", .obj [("@value", .num 7)])])],
        .obj [("@id", .str "http://n/3"), ("http://p/c", .arr [.obj [("@id", .str "http://n/1")]]),
          ("http://p/n", .arr [.bool true, .num 7])]]),
      ("http://p/name", .str "one")] := rfl

/-- the four documents all normalise, to indexes equivalent to the canonical one … -/
example : (norm (ser g3 cFlat)).map (·.equiv (canonIndex g3)) = some true := by decide
example : (norm (ser g3 cGraph)).map (·.equiv (canonIndex g3)) = some true := by decide
example : (norm (ser g3 cSingle)).map (·.equiv (canonIndex g3)) = some true := by decide
example : (norm (ser g3 cSplit)).map (·.equiv (canonIndex g3)) = some true := by decide

/-- … the flat one even to the canonical index itself … -/
example : norm (ser g3 cFlat) = some (canonIndex g3) := by decide

/-- … and `cSplit` (first-seen order: `n3`, `n1`, `n2`) to a differently ordered list. -/
example : norm (ser g3 cSplit) = some ⟨[
    ⟨"http://n/3", ["http://c/U"],
      [("http://p/c", [.ref "http://n/1"]), ("http://p/n", [.num 7, .bool true])]⟩,
    ⟨"http://n/1", ["http://c/T"],
      [("http://p/name", [.str "one"]), ("http://p/a", [.ref "http://n/2", .ref "http://n/3"])]⟩,
    ⟨"http://n/2", ["http://c/U", "http://c/T"], [("http://p/b", [.ref "http://n/3"])]⟩]⟩ := by
  decide

/-! ### Negative examples: what `norm` / `equiv` / `WF` are sensitive to -/

/-- `g3` without the value `true` of `n3.p/n` -/
def g3' : Graph :=
  [ ⟨"http://n/1", ["http://c/T"],
      [("http://p/a", [.ref "http://n/2", .ref "http://n/3"]), ("http://p/name", [.str "one"])]⟩,
    ⟨"http://n/2", ["http://c/T", "http://c/U"], [("http://p/b", [.ref "http://n/3"])]⟩,
    ⟨"http://n/3", ["http://c/U"], [("http://p/c", [.ref "http://n/1"]), ("http://p/n", [.num 7])]⟩ ]

/-- dropping one value changes the index -/
example : (norm (ser g3' (Choice.plainOf g3'))).map (·.equiv (canonIndex g3)) = some false := by
  decide
example : (canonIndex g3').equiv (canonIndex g3) = false := by decide

/-- a plan that forgets a value (`n3.p/n[1]`) is not a serialisation of `g3` … -/
def cMissing : Choice :=
  ⟨[ ⟨0, fullItems (nodeAt g3 0)⟩, ⟨1, fullItems (nodeAt g3 1)⟩,
     ⟨2, [.id, .types [0] false, .prop 0 false [.plain 0 false], .prop 1 false [.plain 0 false]]⟩ ],
   .array⟩
example : WF g3 cMissing = false := by decide
/-- … and indeed its document normalises to a different index -/
example : (norm (ser g3 cMissing)).map (·.equiv (canonIndex g3)) = some false := by decide

/-- an embedded object written at a link to a *different* node is rejected -/
example : WF g3 ⟨[⟨0, [.id, .prop 0 false [.embed 0 2 [.id]]]⟩], .array⟩ = false := by decide
/-- the single-object form needs exactly one top-level object -/
example : WF g3 ⟨cFlat.top, .single⟩ = false := by decide
/-- `"k": []` creates the key, a string is not the number, a link is not the string -/
example : (norm (.obj [("@id", .str "http://n/1"), ("http://p/a", .arr [])])).map
    (·.equiv ⟨[]⟩) = some false := by decide
example : (Index.mk [⟨"http://n/1", [], [("http://p/a", [.str "1"])]⟩]).equiv
    ⟨[⟨"http://n/1", [], [("http://p/a", [.num 1])]⟩]⟩ = false := by decide
example : (Index.mk [⟨"http://n/1", [], [("http://p/a", [.str "http://n/2"])]⟩]).equiv
    ⟨[⟨"http://n/1", [], [("http://p/a", [.ref "http://n/2"])]⟩]⟩ = false := by decide

/-! ## Axioms -/

#print axioms norm_ser_flat
#print axioms norm_ser
#print axioms exists_WF
#print axioms reserialisation_invariant
#print axioms norm_reflects
#print axioms equiv_refl
#print axioms equiv_symm
#print axioms equiv_trans
#print axioms equiv_iff
#print axioms equiv_targets
#print axioms norm_wellFormed
#print axioms canonIndex_wellFormed
#print axioms find_get_iff
#print axioms find_types_iff
#print axioms reserialisation_same_reads

end Acv.C05
