/-!
# C06 / C09 / C10 / C15: the prefix table of a compilation is a COPY of the built-in table

`IriExpanderFrom` builds the table a profile's compact IRIs are expanded with: the built-in prefixes overlaid by the prefixes
the profile declares.  The change most often re-invented by the seeded-change authors (five times, by authors who did not know
of each other) makes that table an alias of the process-wide built-in table, so a profile's declarations outlive its
compilation.  The model: a process compiles profiles one after the other; `copySem` overlays a copy, `aliasSem` writes into
the shared table.  `copy_history_independent`: under copy semantics what a profile's table answers depends on that profile
alone, for every history; `alias_leaks`: under alias semantics a profile that rebinds a built-in prefix changes what a later
profile, which relies on the built-in meaning, gets.
-/
namespace Acv.Alias

/-- a prefix table: prefix name -> namespace (first binding wins) -/
abbrev Table := List (String × String)

def lookup (t : Table) (p : String) : Option String :=
  match t with
  | [] => none
  | (k, v) :: rest => if k = p then some v else lookup rest p

/-- overlay: the profile's own declarations shadow what was there -/
def overlay (decls : Table) (base : Table) : Table := decls ++ base

theorem lookup_overlay (decls base : Table) (p : String) :
    lookup (overlay decls base) p = (lookup decls p).orElse (fun _ => lookup base p) := by
  induction decls with
  | nil => simp [overlay, lookup, Option.orElse]
  | cons kv rest ih =>
    obtain ⟨k, v⟩ := kv
    simp only [overlay, List.cons_append, lookup] at *
    split
    · simp [Option.orElse]
    · exact ih

/-- a profile, as far as prefixes go: what it declares -/
abbrev Profile := Table

/-- the process: the shared built-in table, and what each compilation's expander answered for the queries put to it -/
structure St where
  shared : Table

/-- copy semantics (the code): the compilation's table is a fresh overlay; the shared table is not touched -/
def copySem (s : St) (prof : Profile) : St × Table := (s, overlay prof s.shared)

/-- alias semantics (the seeded change): the declarations are written into the shared table, which is also the compilation's table -/
def aliasSem (s : St) (prof : Profile) : St × Table := ({ shared := overlay prof s.shared }, overlay prof s.shared)

def run (sem : St → Profile → St × Table) : St → List Profile → List Table
  | _, [] => []
  | s, p :: ps => (sem s p).2 :: run sem (sem s p).1 ps

/-- **Copy semantics**: in every history, from every state, each compilation sees the built-in table overlaid by ITS OWN declarations -/
theorem copy_history_independent (s : St) (history : List Profile) :
    run copySem s history = history.map (fun prof => overlay prof s.shared) := by
  induction history generalizing s with
  | nil => rfl
  | cons p ps ih => simp [run, copySem, ih]

/-- … so what a prefix means to a profile does not depend on the profiles compiled before it -/
theorem copy_lookup (s : St) (before : List Profile) (prof : Profile) (p : String) (t : Table)
    (h : (run copySem s (before ++ [prof])).getLast? = some t) :
    lookup t p = (lookup prof p).orElse (fun _ => lookup s.shared p) := by
  rw [copy_history_independent] at h
  simp at h
  subst h
  exact lookup_overlay prof s.shared p

def builtins : Table := [("core", "http://a.ml/vocabularies/core#"), ("shacl", "http://www.w3.org/ns/shacl#")]

/-- **Alias semantics leaks**: after a profile that rebinds `core`, a profile that declares nothing gets the other profile's `core` -/
theorem alias_leaks :
    (run aliasSem ⟨builtins⟩ [[("core", "http://example.org/legacy/core#")], []]).map (fun t => lookup t "core") =
      [some "http://example.org/legacy/core#", some "http://example.org/legacy/core#"] ∧
    (run copySem ⟨builtins⟩ [[("core", "http://example.org/legacy/core#")], []]).map (fun t => lookup t "core") =
      [some "http://example.org/legacy/core#", some "http://a.ml/vocabularies/core#"] := by
  decide

end Acv.Alias
#print axioms Acv.Alias.copy_history_independent
#print axioms Acv.Alias.copy_lookup
#print axioms Acv.Alias.alias_leaks
