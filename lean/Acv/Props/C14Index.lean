import Acv.Model.LexIndex
import Acv.Props.C14
/-!
# C14 (second half) — which node gets which location
-/
namespace Acv.C14
open Acv.Lex

/-- a node is indexed exactly when some lexical entry's element is that node's id -/
theorem lexical_iff (d : Doc) (id : String) :
    (d.lexical id).isSome ↔ id ∈ d.nodeIds ∧ ∃ e ∈ d.entries, e.1 = id := by
  unfold Doc.lexical
  by_cases h : d.nodeIds.contains id = true
  · simp only [h, ↓reduceIte]
    have hmem : id ∈ d.nodeIds := by simpa using h
    cases hl : (d.entries.filter (fun e => e.1 == id)).getLast? with
    | none =>
      have : d.entries.filter (fun e => e.1 == id) = [] := List.getLast?_eq_none_iff.1 hl
      simp only [Option.isSome_none, Bool.false_eq_true, hmem, true_and, false_iff, not_exists, not_and]
      intro e he heq
      have hm : e ∈ d.entries.filter (fun e => e.1 == id) := by simp [List.mem_filter, he, heq]
      rw [this] at hm
      exact absurd hm (by simp)
    | some e =>
      have he : e ∈ d.entries.filter (fun e => e.1 == id) := List.mem_of_getLast? hl
      simp only [List.mem_filter, beq_iff_eq] at he
      simp only [Option.isSome_some, hmem, true_and, true_iff]
      exact ⟨e, he.1, he.2⟩
  · have hmem : ¬ id ∈ d.nodeIds := by simpa using h
    simp [h, hmem]

/-- entries whose element is not a node id (property-level entries: the element is a property IRI) index nothing -/
theorem property_entries_ignored (d : Doc) (id : String) (h : id ∉ d.nodeIds) : d.lexical id = none := by
  simp [Doc.lexical, h]

/-- the file is the additional location listing the node, otherwise the root location -/
theorem file_is_listing_location (d : Doc) (id : String) :
    (∃ a ∈ d.additional, id ∈ a.2 ∧ d.fileOf id = a.1) ∨
    ((∀ a ∈ d.additional, id ∉ a.2) ∧ d.fileOf id = d.root.getD "") := by
  unfold Doc.fileOf
  cases hl : (d.additional.filter (fun a => a.2.contains id)).getLast? with
  | none =>
    right
    have : d.additional.filter (fun a => a.2.contains id) = [] := List.getLast?_eq_none_iff.1 hl
    refine ⟨?_, rfl⟩
    intro a ha hin
    have hm : a ∈ d.additional.filter (fun a => a.2.contains id) := by simp [List.mem_filter, ha, hin]
    rw [this] at hm
    exact absurd hm (by simp)
  | some a =>
    left
    have ha : a ∈ d.additional.filter (fun a => a.2.contains id) := List.mem_of_getLast? hl
    simp only [List.mem_filter, List.contains_eq_mem, decide_eq_true_eq] at ha
    exact ⟨a, ha.1, ha.2, rfl⟩

/-- with a single listing the file is exactly that listing's location -/
theorem file_unique_listing (d : Doc) (id loc : String) (els : List String) (pre post : List (String × List String))
    (hd : d.additional = pre ++ (loc, els) :: post) (hin : id ∈ els)
    (hpost : ∀ a ∈ post, id ∉ a.2) : d.fileOf id = loc := by
  unfold Doc.fileOf
  have hf : (post.filter (fun a => a.2.contains id)) = [] := by
    apply List.filter_eq_nil_iff.2
    intro a ha; simpa using hpost a ha
  have hf' : (post.filter (fun a => decide (id ∈ a.2))) = [] := by simpa using hf
  simp [hd, List.filter_append, hin, hf']

/-- data without source maps yields no location at all -/
theorem no_sourcemaps_no_location (d : Doc) (h : d.entries = []) (id : String) : d.location id = none := by
  simp [Doc.location, Doc.lexical, h]

/-- the four numbers of the location are exactly the ones recorded for the node, whatever their magnitude -/
theorem location_numbers (d : Doc) (id uri : String) (a b c e : Nat)
    (h : d.lexical id = some (String.ofList (Acv.fmtRange a b c e), uri)) :
    d.location id = some ⟨uri, a, b, c, e⟩ := by
  simp [Doc.location, h, String.toList_ofList, Acv.C14.parseRange_fmtRange]

end Acv.C14
