import Acv.Model.Quote
/-!
# C13 — a user string pasted into Rego source is read back as exactly that string

Writer: `quoteChars` (`RegoString`).  Reader: `lexString`.  Template text: `escPct` / `fmtString` against
`sprintfModel`.
-/
namespace Acv.C13
open Acv

/-! ## Hex digits -/

theorem hexVal_hexDigit (k : Nat) (h : k < 16) : hexVal (hexDigit k) = some k := by
  have : ∀ k : Fin 16, hexVal (hexDigit k.val) = some k.val := by decide
  exact this ⟨k, h⟩

theorem hex4_roundtrip (n : Nat) (h : n < 65536) :
    parseHex4 (hexDigit (n / 4096 % 16)) (hexDigit (n / 256 % 16)) (hexDigit (n / 16 % 16))
      (hexDigit (n % 16)) = some n := by
  unfold parseHex4
  rw [hexVal_hexDigit _ (Nat.mod_lt _ (by decide)), hexVal_hexDigit _ (Nat.mod_lt _ (by decide)),
    hexVal_hexDigit _ (Nat.mod_lt _ (by decide)), hexVal_hexDigit _ (Nat.mod_lt _ (by decide))]
  simp only [Option.some.injEq]
  omega

/-! ## The lexer undoes one rendered character -/

theorem lexBody_cons_plain (c : Char) (t : List Char) (h1 : c ≠ '"') (h2 : c ≠ '\\')
    (h3 : ¬ c.toNat < 0x20) (h4 : ¬ c.toNat = 0xfeff) : lexBody (c :: t) = consDecoded c (lexBody t) := by
  rw [lexBody.eq_def]
  simp only [h1, h2, h3, h4, if_false]

theorem lexBody_esc1 (e ch : Char) (t : List Char) (hu : e ≠ 'u') (h : unescape1 e = some ch) :
    lexBody ('\\' :: e :: t) = consDecoded ch (lexBody t) := by
  rw [lexBody.eq_def]
  have : ('\\' : Char) ≠ '"' := by decide
  simp only [this, if_false, if_true, hu, h]

theorem lexBody_escU (n : Nat) (t : List Char) (h : n < 65536) (hv : n.isValidChar) :
    lexBody ('\\' :: 'u' :: (toHex4 n ++ t)) = consDecoded (Char.ofNat n) (lexBody t) := by
  rw [lexBody.eq_def]
  have : ('\\' : Char) ≠ '"' := by decide
  simp only [this, if_false, if_true, toHex4, List.cons_append, List.nil_append,
    hex4_roundtrip n h, hv]

theorem needsU_bound (c : Char) (h : needsU c = true) : c.toNat < 65536 := by
  simp only [needsU, Bool.or_eq_true, decide_eq_true_eq, beq_iff_eq] at h
  omega

theorem lexBody_quoteChar (c : Char) (t : List Char) :
    lexBody (quoteChar c ++ t) = consDecoded c (lexBody t) := by
  unfold quoteChar
  split
  · next h => subst h; exact lexBody_esc1 _ _ _ (by decide) (by decide)
  split
  · next h => subst h; exact lexBody_esc1 _ _ _ (by decide) (by decide)
  split
  · next h => subst h; exact lexBody_esc1 _ _ _ (by decide) (by decide)
  split
  · next h => subst h; exact lexBody_esc1 _ _ _ (by decide) (by decide)
  split
  · next h => subst h; exact lexBody_esc1 _ _ _ (by decide) (by decide)
  split
  · next h =>
      have hb := needsU_bound c h
      have hv : c.toNat.isValidChar := c.valid
      have := lexBody_escU c.toNat t hb hv
      rw [Char.ofNat_toNat] at this
      exact this
  · next h1 h2 _ _ _ h6 =>
      refine lexBody_cons_plain c t h1 h2 ?_ ?_
      · intro hlt
        apply h6
        simp only [needsU, Bool.or_eq_true, decide_eq_true_eq]
        exact Or.inl (Or.inl (Or.inl (Or.inl hlt)))
      · intro hbom
        apply h6
        simp only [needsU, Bool.or_eq_true, decide_eq_true_eq, beq_iff_eq]
        exact Or.inr hbom

theorem lexBody_quoteBody (s rest : List Char) :
    lexBody (quoteBody s ++ '"' :: rest) = some (s, rest) := by
  induction s with
  | nil => simp [quoteBody, lexBody.eq_def]
  | cons c s ih =>
    have : quoteBody (c :: s) = quoteChar c ++ quoteBody s := by simp [quoteBody]
    rw [this, List.append_assoc, lexBody_quoteChar, ih]
    rfl

/-! ## Property theorems -/

/-- The literal ends exactly at its closing quote, whatever follows, and decodes to the input. -/
theorem lex_quote_append (s rest : List Char) :
    lexString (quoteChars s ++ rest) = some (s, rest) := by
  have := lexBody_quoteBody s rest
  simpa [quoteChars, lexString] using this

theorem lex_quote (s : List Char) : lexString (quoteChars s) = some (s, []) := by
  have := lex_quote_append s []
  simpa using this

theorem lex_quote_string (s : String) : lexString (quote s).toList = some (s.toList, []) := by
  simp only [quote, String.toList_ofList]
  exact lex_quote s.toList

theorem lex_quote_string_append (s rest : String) :
    lexString ((quote s) ++ rest).toList = some (s.toList, rest.toList) := by
  simp only [quote, String.toList_append, String.toList_ofList]
  exact lex_quote_append s.toList rest.toList

/-! ## printf-escaping -/

theorem sprintf_escPct_append (s t : List Char) (args : List (List Char)) :
    sprintfModel (escPct s ++ t) args = s ++ sprintfModel t args := by
  induction s with
  | nil => simp [escPct]
  | cons c s ih =>
    by_cases hc : c = '%'
    · subst hc
      simp only [escPct, if_true, List.cons_append]
      rw [sprintfModel.eq_def]
      simp only [if_true, ih]
    · simp only [escPct, hc, if_false, List.cons_append]
      rw [sprintfModel.eq_def]
      simp only [hc, if_false, ih]

theorem sprintf_no_args (s : List Char) : sprintfModel (escPct s) [] = s := by
  have := sprintf_escPct_append s [] []
  simpa [sprintfModel] using this

theorem sprintf_escaped (segs args : List (List Char)) (h : segs.length = args.length + 1) :
    sprintfModel (fmtString segs) args = interleave segs args := by
  induction segs generalizing args with
  | nil => simp at h
  | cons s t ih =>
    cases t with
    | nil =>
      cases args with
      | nil => simpa [fmtString, interleave] using sprintf_no_args s
      | cons a as => simp at h
    | cons s' t' =>
      cases args with
      | nil => simp at h
      | cons a as =>
        have h' : (s' :: t').length = as.length + 1 := by simpa using h
        have hf : fmtString (s :: s' :: t') = escPct s ++ '%' :: 'v' :: fmtString (s' :: t') := rfl
        rw [hf, sprintf_escPct_append, sprintfModel.eq_def]
        have hv : ('v' : Char) ≠ '%' := by decide
        simp only [if_true, hv, if_false, ih as h', interleave, List.append_assoc]

/-! ## No unescaped quote inside the literal -/

theorem hexDigit_ne (k : Nat) (h : k < 16) : hexDigit k ≠ '"' ∧ hexDigit k ≠ '\\' := by
  have : ∀ k : Fin 16, hexDigit k.val ≠ '"' ∧ hexDigit k.val ≠ '\\' := by decide
  exact this ⟨k, h⟩

theorem noBareQuote_cons_plain (c : Char) (t : List Char) (h1 : c ≠ '"') (h2 : c ≠ '\\') :
    noBareQuote (c :: t) = noBareQuote t := by
  rw [noBareQuote.eq_def]
  simp only [h1, h2, if_false]

theorem noBareQuote_quoteChar (c : Char) (t : List Char) :
    noBareQuote (quoteChar c ++ t) = noBareQuote t := by
  unfold quoteChar
  split
  · simp [noBareQuote]
  split
  · simp [noBareQuote]
  split
  · simp [noBareQuote]
  split
  · simp [noBareQuote]
  split
  · simp [noBareQuote]
  split
  · have h3 := hexDigit_ne (c.toNat / 4096 % 16) (Nat.mod_lt _ (by decide))
    have h2 := hexDigit_ne (c.toNat / 256 % 16) (Nat.mod_lt _ (by decide))
    have h1 := hexDigit_ne (c.toNat / 16 % 16) (Nat.mod_lt _ (by decide))
    have h0 := hexDigit_ne (c.toNat % 16) (Nat.mod_lt _ (by decide))
    simp only [toHex4, List.cons_append, List.nil_append]
    rw [noBareQuote.eq_def]
    simp only [if_true]
    rw [noBareQuote_cons_plain _ _ h3.1 h3.2, noBareQuote_cons_plain _ _ h2.1 h2.2,
      noBareQuote_cons_plain _ _ h1.1 h1.2,
      noBareQuote_cons_plain _ _ h0.1 h0.2]
  · next h1 h2 _ _ _ _ => exact noBareQuote_cons_plain c t h1 h2

/-- Scanner formulation: reading the inside of the literal left to right, skipping the character after
each backslash, no quote is met. -/
theorem quote_no_bare_quote (s : List Char) : noBareQuote (quoteBody s) = true := by
  induction s with
  | nil => rfl
  | cons c s ih =>
    have : quoteBody (c :: s) = quoteChar c ++ quoteBody s := by simp [quoteBody]
    rw [this, noBareQuote_quoteChar, ih]

/-- Number of backslashes immediately before the end of `l`. -/
def trailingBackslashes (l : List Char) : Nat := (l.reverse.takeWhile (· = '\\')).length

theorem tb_quoteChar (x : List Char) (c : Char) (hx : trailingBackslashes x % 2 = 0) :
    trailingBackslashes (x ++ quoteChar c) % 2 = 0 := by
  unfold quoteChar
  split
  · simp [trailingBackslashes]
  split
  · simp only [trailingBackslashes] at hx
    simp [trailingBackslashes]
    omega
  split
  · simp [trailingBackslashes]
  split
  · simp [trailingBackslashes]
  split
  · simp [trailingBackslashes]
  split
  · have h0 := hexDigit_ne (c.toNat % 16) (Nat.mod_lt _ (by decide))
    simp [trailingBackslashes, toHex4, h0]
  · next _ h2 _ _ _ _ => simp [trailingBackslashes, h2]

theorem not_mem_quoteChar (c : Char) (h : c ≠ '"') : '"' ∉ quoteChar c := by
  unfold quoteChar
  rw [if_neg h]
  split
  · decide
  split
  · decide
  split
  · decide
  split
  · decide
  split
  · have h3 := hexDigit_ne (c.toNat / 4096 % 16) (Nat.mod_lt _ (by decide))
    have h2 := hexDigit_ne (c.toNat / 256 % 16) (Nat.mod_lt _ (by decide))
    have h1 := hexDigit_ne (c.toNat / 16 % 16) (Nat.mod_lt _ (by decide))
    have h0 := hexDigit_ne (c.toNat % 16) (Nat.mod_lt _ (by decide))
    simp [toHex4, Ne.symm h0.1, Ne.symm h1.1, Ne.symm h2.1, Ne.symm h3.1]
  · simp [Ne.symm h]

theorem split_of_not_mem {x : Char} {l1 l2 pre post : List Char} (hx : x ∉ l1)
    (h : l1 ++ l2 = pre ++ x :: post) : ∃ p, pre = l1 ++ p ∧ l2 = p ++ x :: post := by
  induction l1 generalizing pre with
  | nil => exact ⟨pre, by simp, by simpa using h⟩
  | cons a l1 ih =>
    cases pre with
    | nil =>
      simp only [List.cons_append, List.nil_append, List.cons.injEq] at h
      exact absurd (h.1 ▸ List.mem_cons_self) hx
    | cons b pre =>
      simp only [List.cons_append, List.cons.injEq] at h
      obtain ⟨p, hp1, hp2⟩ := ih (fun hm => hx (List.mem_cons_of_mem _ hm)) h.2
      exact ⟨p, by simp [h.1, hp1], hp2⟩

theorem tb_quoteBody (s : List Char) :
    ∀ (x pre post : List Char), trailingBackslashes x % 2 = 0 → quoteBody s = pre ++ '"' :: post →
      trailingBackslashes (x ++ pre) % 2 = 1 := by
  induction s with
  | nil => intro x pre post _ h; simp [quoteBody] at h
  | cons c s ih =>
    intro x pre post hx h
    have hc : quoteBody (c :: s) = quoteChar c ++ quoteBody s := by simp [quoteBody]
    rw [hc] at h
    by_cases hq : c = '"'
    · subst hq
      have hq' : quoteChar '"' = ['\\', '"'] := by decide
      rw [hq'] at h
      match pre, h with
      | [], h => simp at h
      | [p], h =>
        simp only [List.cons_append, List.nil_append, List.cons.injEq] at h
        rw [← h.1]
        simp only [trailingBackslashes] at hx
        simp [trailingBackslashes]
        omega
      | p :: q :: pre', h =>
        simp only [List.cons_append, List.nil_append, List.cons.injEq] at h
        obtain ⟨hp, hq2, h⟩ := h
        have := ih (x ++ ['\\', '"']) pre' post (by simp [trailingBackslashes]) h
        rw [← hp, ← hq2]
        simpa using this
    · obtain ⟨p, hp1, hp2⟩ := split_of_not_mem (not_mem_quoteChar c hq) h
      have := ih (x ++ quoteChar c) p post (tb_quoteChar x c hx) hp2
      rw [hp1, ← List.append_assoc]
      exact this

theorem body_eq (s : List Char) : ((quoteChars s).drop 1).dropLast = quoteBody s := by
  simp [quoteChars]

/-- In `quoteChars s` without its first and last character, every `"` is immediately preceded by an odd
number of backslashes. -/
theorem quote_no_raw_quote (s pre post : List Char)
    (h : ((quoteChars s).drop 1).dropLast = pre ++ '"' :: post) :
    trailingBackslashes pre % 2 = 1 := by
  rw [body_eq] at h
  have := tb_quoteBody s [] pre post (by decide) h
  simpa using this

/-! ## Non-vacuity: concrete hostile inputs -/

/-- `a"b\c`, newline, U+0001, DEL, U+2028, U+FEFF, a non-ASCII letter and an astral code point. -/
def hostile : List Char := ['a', '"', 'b', '\\', 'c', '\n', Char.ofNat 1, Char.ofNat 0x7f, Char.ofNat 0x2028, Char.ofNat 0xfeff, 'é', '😀']

example : quoteChars hostile =
    ['"', 'a', '\\', '"', 'b', '\\', '\\', 'c', '\\', 'n', '\\', 'u', '0', '0', '0', '1',
     '\\', 'u', '0', '0', '7', 'f', '\\', 'u', '2', '0', '2', '8', '\\', 'u', 'f', 'e', 'f', 'f', 'é', '😀', '"'] := by decide
/-- a raw byte-order mark inside a literal is refused by the reader (as by the engine's scanner) -/
example : lexString ['"', 'a', Char.ofNat 0xfeff, 'b', '"'] = none := by decide
example : lexString (quoteChars hostile ++ [')', ' ', '"', 'x']) = some (hostile, [')', ' ', '"', 'x']) := by
  decide
/-- Upper-case hex digits and the escapes `RegoString` never emits are read too. -/
example : lexString ['"', '\\', 'u', '0', '0', 'E', '9', '\\', '/', '\\', 'b', '\\', 'f', '"', 'z'] =
    some (['é', '/', Char.ofNat 8, Char.ofNat 12], ['z']) := by decide
/-- The lexer is not permissive: raw control character, unknown escape, missing closing quote,
surrogate, three hex digits, missing opening quote. -/
example : lexString ['"', 'a', '\n', '"'] = none := by decide
example : lexString ['"', '\\', 'x', '"'] = none := by decide
example : lexString ['"', 'a', 'b'] = none := by decide
example : lexString ['"', 'a', '\\', '"'] = none := by decide
example : lexString ['"', '\\', 'u', 'd', '8', '0', '0', '"'] = none := by decide
example : lexString ['"', '\\', 'u', '1', '2', '3', '"'] = none := by decide
example : lexString ['a', '"'] = none := by decide
/-- What goes wrong without quoting: the pasted text ends the literal early. -/
example : lexString (['"'] ++ ['a', '"', 'b'] ++ ['"']) = some (['a'], ['b', '"']) := by decide

/-- A segment `100%` next to a placeholder; the argument itself contains `%v`. -/
example : fmtString [['1', '0', '0', '%'], [' ', '%', 'v', '%', '%']] =
    ['1', '0', '0', '%', '%', '%', 'v', ' ', '%', '%', 'v', '%', '%', '%', '%'] := by decide
example : sprintfModel (fmtString [['1', '0', '0', '%'], [' ', '%', 'v', '%', '%']]) [['A', '%', 'v']] =
    ['1', '0', '0', '%', 'A', '%', 'v', ' ', '%', 'v', '%', '%'] := by decide
/-- What goes wrong without escaping: `100%` followed by `%v` reads as `%%` then a literal `v`, and the
argument is left over. -/
example : sprintfModel (['1', '0', '0', '%'] ++ ['%', 'v']) [['A']] =
    ['1', '0', '0', '%', 'v', '%', '!', '(', 'E', 'X', 'T', 'R', 'A', ')'] := by decide
example : sprintfModel ['%', 'v'] [] = ['%', '!', 'v', '(', 'M', 'I', 'S', 'S', 'I', 'N', 'G', ')'] := by
  decide

end Acv.C13

#print axioms Acv.C13.hex4_roundtrip
#print axioms Acv.C13.lex_quote
#print axioms Acv.C13.lex_quote_append
#print axioms Acv.C13.lex_quote_string
#print axioms Acv.C13.lex_quote_string_append
#print axioms Acv.C13.quote_no_bare_quote
#print axioms Acv.C13.quote_no_raw_quote
#print axioms Acv.C13.sprintf_escPct_append
#print axioms Acv.C13.sprintf_escaped
#print axioms Acv.C13.sprintf_no_args
