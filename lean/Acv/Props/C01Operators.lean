import Acv.Model.Operators
import Acv.Model.Atoms
import Acv.Gen.Operators
/-!
# C01, third half — every comparison keyword means what the documentation says, from the Go source to the emitted operator

C01 quantifies "over every documented atomic constraint". The parser model (`Acv.PP.constraintSteps`) and the atom model
(`Acv.Atom.fails`) say what `minCount`, `maxExclusive`, `lessThanProperty`, `atMost` … mean; until now the only thing that tied
the KEYWORD -> COMPARISON assignment to the code was the correspondence run. Here the assignment is REGENERATED from the Go
sources on every run (`Acv.Gen.opSteps` …, written by `harness/extract_operators.go`) and compared with the models by the kernel:

1. `source_readable`: every statement of `ParseConstraint`, every constructor, the three switch statements and the three
   `if X.Negated` statements have the documented shape;
2. `constraintSteps_eq`: the parser model's list of blocks IS `stepDescs` (by `rfl`), and
   `parser_steps_regenerated`: the blocks regenerated from `ParseConstraint` and the constructors - keyword, position, how the
   value is read, the stored comparison / qualifier / target, the component name - are exactly `stepDescs`, in the same order;
3. generator: `prop_operator_denotes`, `numeric_operator_denotes`, `numeric_switch_total`, `count_operator_denotes`: the
   operator text written into the policy for a stored constant denotes that constant's comparison (so `minInclusive: 5` is decided by
   `>=`, not `>`), for every constant a constructor can store (no constant reaches a `panic` default);
4. `polarity`: under `Negated` the deciding line is the bare comparison, otherwise the same comparison (same format arguments)
   under `not` - the shape `Atom.fails` assumes;
5. `keyword_operator`: end to end, for every keyword with a comparison: the operator text emitted for it denotes `opOf` of the
   comparison the PARSER MODEL stores for that keyword - which is the one `FE.toAtom` hands to `Atom.fails`.

What this does not cover: the lines around the deciding one (path query, `count`, `[_]` iteration), which stay tied by C01's
correspondence streams.
-/
namespace Acv.C01Operators
open Acv.Ops Acv.PP Acv.Gen

theorem source_readable : operatorsUnreadable = [] := by decide

/-- the parser model's blocks are the data table, block for block -/
theorem constraintSteps_eq : constraintSteps = stepDescs.map StepDesc.toStep := rfl

/-- what `ParseConstraint` and the constructors say, regenerated: exactly the model's blocks, in the model's order -/
theorem parser_steps_regenerated : opSteps.map (resolve opCtors) = stepDescs.map some := by decide +kernel

/-- the blocks come in source order, no keyword twice -/
theorem keywords_nodup : (opSteps.map (·.1)).Nodup := by decide +kernel

/-- `CardinalityOperation.String` (property comparisons, quantified constraints): the text of a constant denotes it -/
theorem prop_operator_denotes :
    ∀ r ∈ opStringTable, (cmpOfConst r.1).map FE.opOf = regoCmp r.2 ∧ (cmpOfConst r.1).isSome := by decide +kernel

/-- every comparison constant has a text -/
theorem prop_operator_total :
    ∀ c ∈ ["LT", "LTEQ", "EQ", "NEQ", "GT", "GTEQ"], (lookup2 opStringTable c).isSome := by decide +kernel

/-- `GenerateNumericComparison`: the operator text of a case denotes the case's constant -/
theorem numeric_operator_denotes :
    ∀ r ∈ opNumericSwitch, (cmpOfConst r.1).map FE.opOf = regoCmp r.2.2 ∧ (cmpOfConst r.1).isSome := by decide +kernel

/-- every constant a numeric constructor stores has a case: the `panic` default is never reached -/
theorem numeric_switch_total :
    ∀ c ∈ opCtors, c.2.1 = "newNumericComparison" → ∀ o ∈ c.2.2.1, (lookupNumeric opNumericSwitch o).isSome := by
  decide +kernel

/-- `obtainCondition`: Min is decided by `>=`, Max by `<=`, Exact (the default case) by `==` -/
theorem count_operator_denotes :
    ∀ q ∈ ["Min", "Max", "Exact"],
      (countCond opCountCond q).bind regoCmp = (qualifierOfConst q).bind qualifierOp ∧ ((countCond opCountCond q).bind regoCmp).isSome := by
  decide +kernel

/-- the deciding line: bare under `Negated`, the same line under `not` otherwise -/
theorem polarity :
    ∀ g ∈ ["generateCountRule", "generateNumericRule", "GeneratePropertyComparison"],
      formatsOf opPolarity g "pos" = (formatsOf opPolarity g "neg").map ("not " ++ ·) ∧ formatsOf opPolarity g "neg" ≠ [] := by
  decide +kernel

/-- operator text the generated policy uses for a block of the parser model (through the regenerated constant) -/
def emittedFor (row : StepRow) : Option String :=
  match findCtor opCtors row.2.2.2.1 with
  | some (_, "newPropertyComparison", [o], _, _) => lookup2 opStringTable o
  | some (_, "newNumericComparison", [o], _, _) => lookupNumeric opNumericSwitch o
  | some (_, "newCount", [q, _], _, _) => countCond opCountCond q
  | some _ => none
  | none => if row.2.2.2.1 == "parseQualifiedNestedExpression" then lookup2 opStringTable row.2.2.2.2 else none

/-- the comparison the MODELS give a block -/
def modelOp : StepDesc → Option Dnf.Op
  | .count _ q _ => qualifierOp q
  | .prop _ _ o => some (FE.opOf o)
  | .qualified _ o => some (FE.opOf o)
  | .numeric _ o => some (FE.opOf o)
  | _ => none

/-- end to end: for every keyword that carries a comparison, the operator text emitted for it denotes the comparison the
parser model stores for that keyword (position by position along the two lists, which `parser_steps_regenerated` aligns) -/
theorem keyword_operator :
    ∀ p ∈ opSteps.zip stepDescs, (modelOp p.2).isSome → (emittedFor p.1).bind regoCmp = modelOp p.2 := by
  decide +kernel

/-- … and there are 19 such keywords (6 count/length, 6 property comparisons, 3 quantified, 4 numeric): the statement above is
not vacuous -/
theorem keyword_operator_count : ((opSteps.zip stepDescs).filter (fun p => (modelOp p.2).isSome)).length = 19 := by
  decide +kernel

/-- the meaning `Atom.fails` gives a numeric keyword, spelled out for one instance: `minInclusive: k` fails on a node exactly
when some reached value is not `>= k` -/
example (g : Graph) (p : Path) (k : Int) (n : Node) :
    (Atom.numeric .ge p k).fails g false n = (valueSet g p n).any (fun v => !ordOp .ge (v.cmp (.lit (.num k)))) := by
  simp [Atom.fails, anyVal]

/-- what goes wrong when two cases of the switch are swapped (a mutation of the regenerated table): `minExclusive` decided by `>=` -/
example : ¬ (∀ r ∈ [("GTEQ", "minimumInclusive", ">"), ("GT", "minimumExclusive", ">=")],
    (cmpOfConst r.1).map FE.opOf = regoCmp r.2.2 ∧ (cmpOfConst r.1).isSome) := by decide +kernel

end Acv.C01Operators
