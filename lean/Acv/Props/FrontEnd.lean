import Acv.Lemmas.FrontEnd
import Acv.Props.C01
import Acv.Props.ProfileParser
/-!
# The front-end, end to end: the profile TEXT means what the abstract rule says

`Acv.FE.frontEnd : Y → Except String (List Validation × Tables)` = `parseProfile` followed by `toRule` on every
validation.  This file ties it to the two ends:

1. `toRule_negate` — `toRule` commutes with `Negate()` (on trees without negated connectives: all the parser
   ever produces);
2. `sat` — the specification of a parsed rule tree on a graph, with its readable Prop-level reading
   (`sat_and_iff`, `sat_or_iff`, `sat_if_then_iff`, `sat_if_then_else_iff`, `sat_nested_iff`,
   `sat_atLeast_iff`, `sat_atMost_iff`, `sat_exactly_iff`, `sat_atom_eq`, `sat_not`);
3. `sat_iff_holds` — `sat` is `Dnf.holds` of the translated rule over the tables the front-end built (and over
   every extension of them);
4. `tree_reported_iff` — with `Acv.C01.compile_correct`: the translator model reports node `n` for validation
   `v` of the profile TREE iff `n` is an instance of `v`'s target class and `sat` is false; the hypotheses
   `Proper` / `Classical` are stated on the parsed tree (`proper`, `classicalAtoms`);
5. `frontEnd_key_order` — profile trees that differ by the key order `validation_key_order` allows have the
   same `frontEnd` result, hence the same verdicts on every graph;
6. non-vacuity examples.

`pathOf_parsed_partial` (section 0): the run-time dump check inside `pathOf` never rejects a one-line path.
-/
namespace Acv.FrontEnd
open Acv Acv.PP Acv.FE Dnf

/-! ## 0. Paths: the dump check of `pathOf` -/

/- FULL STATEMENT (not proved): for EVERY text `s ≠ ""` with `parsePathS s = .ok p`,
     ∃ ast, parsePath Gen.pathGrammarGo s.toList = some ast ∧ pathOf ctx p = pathOfAst ctx ast.
   Missing: `parsePath g (oneLine s) = parsePath g s`, i.e. that the PEG run does not distinguish `\r\n`, `\r`,
   `\n`, `\t` from a single space (true of the grammar: all four are in the class of rule `_` and nowhere else;
   not proved about the interpreter).  The proved part covers the texts that `oneLine` leaves unchanged; for the
   others `pathOf` makes the comparison at run time and a mismatch would surface as `unsupported`. -/

/-- `pathOf` re-parses the recorded source text and compares the dump.  For a path text without line breaks
and tabs that `ParsePath` accepted, the check succeeds and `pathOf` converts exactly the AST of the text. -/
theorem pathOf_parsed_partial (ctx : Ctx) {s : String} {p : PPath} (h : parsePathS s = .ok p)
    (hne : s ≠ "") (hline : oneLine s.toList = s.toList) :
    ∃ ast, parsePath Gen.pathGrammarGo s.toList = some ast ∧ pathOf ctx p = pathOfAst ctx ast :=
  FE.pathOf_parsed ctx h hne hline

/-! ## 1. Negation -/

/-- **`toRule` commutes with negation.**  For a rule tree without a negated `and`/`or`, translating
`r.Negate()` gives `Dnf.negate` of the translation of `r`, with the same tables (and fails when that fails). -/
theorem toRule_negate (ctx : Ctx) (r : PRule) (h : r.noNegConn = true) (t : Tables) :
    toRule ctx r.negate t = (toRule ctx r t).map (fun p => (Dnf.negate p.1, p.2)) :=
  toRule_negate_aux ctx r h t

/-- … in particular for every expression the parser returns -/
theorem toRule_negate_parsed {f : Nat} {var : String} {d : Y} {c : Nat} {r : PRule} {c' : Nat}
    (h : pev f var d c = .ok (r, c')) (ctx : Ctx) (t : Tables) :
    toRule ctx r.negate t = (toRule ctx r t).map (fun p => (Dnf.negate p.1, p.2)) :=
  toRule_negate ctx r (Acv.ProfileParser.negate_no_negated_connective h) t

/-- The side condition cannot be dropped: `AndRule.Negate` ignores the flag of a negated `and`, so negating
`¬(and [])` gives `or []`, whereas the negation of its translation is `and []`. -/
theorem toRule_negate_needs_noNegConn (ctx : Ctx) (t : Tables) :
    toRule ctx (PRule.and true []).negate t = some (.or [], t) ∧
    (toRule ctx (PRule.and true []) t).map (fun p => (Dnf.negate p.1, p.2)) = some (.and [], t) := by
  simp [PRule.negate, negateList, toRule_and, toRule_or, toRuleL_nil, negate, negateL]

/-- for top-level expressions (flag flipped; `Dnf.negate` is an involution) no side condition is needed -/
theorem topRule_negate (ctx : Ctx) (r : PRule) (t : Tables) :
    topRule ctx r.negate t = (topRule ctx r t).map (fun p => ({ p.1 with rule := Dnf.negate p.1.rule }, p.2)) := by
  match r with
  | .top name level cls var neg me mv value =>
    simp only [PRule.negate, topRule_top]
    cases expandS ctx cls <;> cases toRule ctx value t <;> simp
    cases neg <;> simp [FE.negate_negate]
  | .and .. => simp [PRule.negate, topRule]
  | .or .. => simp [PRule.negate, topRule]
  | .cond .. => simp [PRule.negate, topRule]
  | .nested .. => simp [PRule.negate, topRule]
  | .atom .. => simp [PRule.negate, topRule]

/-! ## 2. The specification `sat`, read at the level of propositions

`FE.sat ctx g r n` (`Acv/Model/FrontEnd.lean`) is defined by recursion on the parsed tree; its defining
equations are `FE.sat_atom`, `sat_and`, `sat_or`, `sat_cond2`, `sat_cond3`, `sat_nested`, `sat_top`.  The
statements below spell them out. -/

/-- dot notation: `r.sat ctx g n` -/
abbrev _root_.Acv.PP.PRule.sat (r : PRule) (ctx : Ctx) (g : Graph) (n : Node) : Bool := FE.sat ctx g r n

theorem satAll_iff (ctx : Ctx) (g : Graph) (n : Node) : ∀ body : List PRule,
    satAll ctx g body n = true ↔ ∀ r ∈ body, sat ctx g r n = true
  | [] => by simp [satAll_nil]
  | r :: rs => by simp [satAll_cons, satAll_iff ctx g n rs]

theorem satAny_iff (ctx : Ctx) (g : Graph) (n : Node) : ∀ body : List PRule,
    satAny ctx g body n = true ↔ ∃ r ∈ body, sat ctx g r n = true
  | [] => by simp [satAny_nil]
  | r :: rs => by simp [satAny_cons, satAny_iff ctx g n rs]

/-- `and` = all operands -/
theorem sat_and_iff (ctx : Ctx) (g : Graph) (body : List PRule) (n : Node) :
    sat ctx g (.and false body) n = true ↔ ∀ r ∈ body, sat ctx g r n = true := by
  simp [sat_and, satAll_iff]

/-- `or` = some operand -/
theorem sat_or_iff (ctx : Ctx) (g : Graph) (body : List PRule) (n : Node) :
    sat ctx g (.or false body) n = true ↔ ∃ r ∈ body, sat ctx g r n = true := by
  simp [sat_or, satAny_iff]

/-- a set negation flag = `not` (connectives; for the other nodes see `sat_flag_*`) -/
theorem sat_flag_and (ctx : Ctx) (g : Graph) (body : List PRule) (n : Node) :
    sat ctx g (.and true body) n = !sat ctx g (.and false body) n := by simp [sat_and]

theorem sat_flag_or (ctx : Ctx) (g : Graph) (body : List PRule) (n : Node) :
    sat ctx g (.or true body) n = !sat ctx g (.or false body) n := by simp [sat_or]

theorem sat_flag_if_then (ctx : Ctx) (g : Graph) (i t : PRule) (n : Node) :
    sat ctx g (.cond true [i, t]) n = !sat ctx g (.cond false [i, t]) n := by simp [sat_cond2]

theorem sat_flag_if_then_else (ctx : Ctx) (g : Graph) (i t e : PRule) (n : Node) :
    sat ctx g (.cond true [i, t, e]) n = !sat ctx g (.cond false [i, t, e]) n := by simp [sat_cond3]

theorem sat_flag_top (ctx : Ctx) (g : Graph) (a b c : String) (d : Var) (e : String) (f : List String)
    (value : PRule) (n : Node) :
    sat ctx g (.top a b c d true e f value) n = !sat ctx g (.top a b c d false e f value) n := by
  simp [sat_top]

/-- `if`/`then` = implication -/
theorem sat_if_then_iff (ctx : Ctx) (g : Graph) (i t : PRule) (n : Node) :
    sat ctx g (.cond false [i, t]) n = true ↔ (sat ctx g i n = true → sat ctx g t n = true) := by
  simp only [sat_cond2, Bool.false_xor]
  cases sat ctx g i n <;> simp

/-- `if`/`then`/`else` = (if → then) ∧ (¬if → else) -/
theorem sat_if_then_else_iff (ctx : Ctx) (g : Graph) (i t e : PRule) (n : Node) :
    sat ctx g (.cond false [i, t, e]) n = true ↔
      (sat ctx g i n = true → sat ctx g t n = true) ∧ (sat ctx g i n = false → sat ctx g e n = true) := by
  simp only [sat_cond3, Bool.false_xor]
  cases sat ctx g i n <;> simp

/-- `nested` = every node reached through the path satisfies the inner rule -/
theorem sat_nested_iff (ctx : Ctx) (g : Graph) (parent : String) (child : Var) (path : PPath) (value : PRule)
    (n : Node) (p : Path) (hp : pathOf ctx path = some p) (hq : child.quant = .all) :
    sat ctx g (.nested false parent child path value) n = true ↔
      ∀ c ∈ reached g p n, sat ctx g value c = true := by
  have : quantOf child = some .all := by simp [quantOf, hq]
  simp [sat_nested, hp, this]

/-- a quantified nested expression: the number of reached nodes that satisfy the inner rule is `op k` -/
theorem sat_quantified_eq (ctx : Ctx) (g : Graph) (parent : String) (child : Var) (path : PPath) (value : PRule)
    (n : Node) (p : Path) (hp : pathOf ctx path = some p) (op : CmpOp) (k : Nat)
    (hq : child.quant = .ex) (hc : child.card = some ⟨op, (k : Int)⟩) :
    sat ctx g (.nested false parent child path value) n =
      (opOf op).eval ((reached g p n).countP (fun c => sat ctx g value c)) k := by
  have : quantOf child = some (.card (opOf op) k) := by simp [quantOf, hq, hc]
  simp [sat_nested, hp, this]

/-- `atLeast k` = at least `k` reached nodes satisfy the inner rule -/
theorem sat_atLeast_iff (ctx : Ctx) (g : Graph) (parent : String) (child : Var) (path : PPath) (value : PRule)
    (n : Node) (p : Path) (hp : pathOf ctx path = some p) (k : Nat)
    (hq : child.quant = .ex) (hc : child.card = some ⟨.ge, (k : Int)⟩) :
    sat ctx g (.nested false parent child path value) n = true ↔
      k ≤ (reached g p n).countP (fun c => sat ctx g value c) := by
  rw [sat_quantified_eq ctx g parent child path value n p hp .ge k hq hc]
  simp [opOf, Op.eval]

/-- `atMost k` -/
theorem sat_atMost_iff (ctx : Ctx) (g : Graph) (parent : String) (child : Var) (path : PPath) (value : PRule)
    (n : Node) (p : Path) (hp : pathOf ctx path = some p) (k : Nat)
    (hq : child.quant = .ex) (hc : child.card = some ⟨.le, (k : Int)⟩) :
    sat ctx g (.nested false parent child path value) n = true ↔
      (reached g p n).countP (fun c => sat ctx g value c) ≤ k := by
  rw [sat_quantified_eq ctx g parent child path value n p hp .le k hq hc]
  simp [opOf, Op.eval]

/-- `exactly k` -/
theorem sat_exactly_iff (ctx : Ctx) (g : Graph) (parent : String) (child : Var) (path : PPath) (value : PRule)
    (n : Node) (p : Path) (hp : pathOf ctx path = some p) (k : Nat)
    (hq : child.quant = .ex) (hc : child.card = some ⟨.eq, (k : Int)⟩) :
    sat ctx g (.nested false parent child path value) n = true ↔
      (reached g p n).countP (fun c => sat ctx g value c) = k := by
  rw [sat_quantified_eq ctx g parent child path value n p hp .eq k hq hc]
  simp [opOf, Op.eval]

/-- the flag of a nested expression -/
theorem sat_flag_nested (ctx : Ctx) (g : Graph) (parent : String) (child : Var) (path : PPath) (value : PRule)
    (n : Node) (p : Path) (q : Dnf.Quant) (hp : pathOf ctx path = some p) (hq : quantOf child = some q) :
    sat ctx g (.nested true parent child path value) n = !sat ctx g (.nested false parent child path value) n := by
  cases q <;> simp [sat_nested, hp, hq]

/-- atom = the constraint's own truth on the path's values (its un-negated failure condition is not met),
negated when the flag is set -/
theorem sat_atom_eq (ctx : Ctx) (g : Graph) (neg : Bool) (var : String) (path : PPath) (a : PP.Atom) (n : Node)
    (p : Path) (atm : Acv.Atom) (hp : pathOf ctx path = some p) (ha : atomOf ctx p a = some atm) :
    sat ctx g (.atom neg var path a) n = xor neg (!atm.fails g false n) := by
  have : atomAt ctx path a = some atm := by unfold atomAt; rw [hp]; exact ha
  simp [sat_atom, this, atomHolds]

/-! ## 3. `sat` is `holds` of the translated rule -/

/-- **`sat_iff_holds`.**  If `toRule` translates the parsed tree `r` (starting from any tables `t`) to the
abstract rule `r'` with tables `t'`, then over `t'` — and over every extension `T` of `t'`, in particular the
final tables of the profile — `r'` holds at `n` exactly when the specification `sat` says so. -/
theorem sat_iff_holds (ctx : Ctx) (g : Graph) (r : PRule) (t t' : Tables) (r' : Rule)
    (h : toRule ctx r t = some (r', t')) (T : Tables) (hT : t'.le T) (n : Node) :
    r.sat ctx g n = true ↔ holds (envOf g T) r' n = true := by
  rw [(toRule_sound ctx g r t t' r' h).2 T hT n]

theorem sat_eq_holds (ctx : Ctx) (g : Graph) (r : PRule) (t t' : Tables) (r' : Rule)
    (h : toRule ctx r t = some (r', t')) (n : Node) :
    holds (envOf g t') r' n = sat ctx g r n :=
  (toRule_sound ctx g r t t' r' h).2 t' (Tables.le_refl _) n

/-- the tables only grow (so indices handed out earlier keep their meaning) -/
theorem toRule_tables_grow (ctx : Ctx) (r : PRule) (t t' : Tables) (r' : Rule)
    (h : toRule ctx r t = some (r', t')) : t.atoms <+: t'.atoms ∧ t.paths <+: t'.paths :=
  (toRule_sound ctx [] r t t' r' h).1

/-- `not` = negation: on a translatable tree without negated connectives, `Negate()` complements `sat` -/
theorem sat_not (ctx : Ctx) (g : Graph) (r : PRule) (hn : r.noNegConn = true) (t : Tables)
    (hs : (toRule ctx r t).isSome = true) (n : Node) :
    sat ctx g r.negate n = !sat ctx g r n := by
  cases h : toRule ctx r t with
  | none => simp [h] at hs
  | some res =>
    obtain ⟨r', t'⟩ := res
    have h' : toRule ctx r.negate t = some (Dnf.negate r', t') := by rw [toRule_negate ctx r hn t, h]; rfl
    rw [← sat_eq_holds ctx g r.negate t t' _ h', ← sat_eq_holds ctx g r t t' r' h, holds_negate]

/-! ## 4. From the profile tree to the reported nodes -/

/-- the top-level rules of a parsed profile, in the order `frontEnd` translates them -/
abbrev rulesOf (p : Profile) : List PRule := FE.Profile.rules p

/-- **Soundness of the front-end.**  When `frontEnd` succeeds on a profile tree, its validations correspond
one to one (`All₂`) to the top-level rules of the parsed profile: same name and level, the target class
expanded, and over the final tables the abstract rule means what `sat` says of the parsed rule (`Corr`). -/
theorem frontEnd_sound {doc : Y} {p : Profile} {vals : List Validation} {T : Tables}
    (hp : parseProfile doc = .ok p) (hf : frontEnd doc = .ok (vals, T)) (g : Graph) :
    All₂ (Corr (ctxOf p.prefixes) g T) (rulesOf p) vals :=
  (topRules_sound _ g _ _ _ _ (frontEnd_ok hp hf)).2 T (Tables.le_refl _)

/-- **What the translator model reports for a validation of the profile tree.**  Let `frontEnd` succeed on
`doc`; let `v` be its `i`-th validation and `r` the `i`-th top-level rule of the parsed profile.  If `r` has no
empty `and`/`or` (`proper`) and the environment of the final tables is classical, then the translator model
(`dispatch` … `dnfFires`, through `C01.reported`) reports node `n` for `v` iff `n` is a node of the graph that
is an instance of `v`'s target class — the expansion of the `targetClass` text — and `sat` is false. -/
theorem tree_reported_iff {doc : Y} {p : Profile} {vals : List Validation} {T : Tables}
    (hp : parseProfile doc = .ok p) (hf : frontEnd doc = .ok (vals, T)) (g : Graph)
    (hc : Classical (envOf g T))
    (i : Nat) (r : PRule) (v : Validation) (hr : (rulesOf p)[i]? = some r) (hv : vals[i]? = some v)
    (hproper : proper r = true) (n : Node) :
    n ∈ C01.reported g (envOf g T) v.cls v.rule ↔
      (n ∈ g ∧ v.cls ∈ n.types) ∧ r.sat (ctxOf p.prefixes) g n = false := by
  have hcorr := (frontEnd_sound hp hf g).get i r v hr hv
  rw [C01.reported_iff g _ hc v.cls v.rule (by rw [hcorr.proper]; exact hproper) n, hcorr.sem n]

/-- … and the class is the expansion of the `targetClass` text, the name and the level are those of the rule -/
theorem tree_validation_header {doc : Y} {p : Profile} {vals : List Validation} {T : Tables}
    (hp : parseProfile doc = .ok p) (hf : frontEnd doc = .ok (vals, T))
    (i : Nat) (r : PRule) (v : Validation) (hr : (rulesOf p)[i]? = some r) (hv : vals[i]? = some v) :
    ∃ name level cls var neg me mv value, r = .top name level cls var neg me mv value ∧
      v.name = name ∧ v.level = level ∧ expandS (ctxOf p.prefixes) cls = some v.cls :=
  ((frontEnd_sound hp hf []).get i r v hr hv).top

/-- the number of validations is the number of top-level rules -/
theorem frontEnd_length {doc : Y} {p : Profile} {vals : List Validation} {T : Tables}
    (hp : parseProfile doc = .ok p) (hf : frontEnd doc = .ok (vals, T)) :
    (rulesOf p).length = vals.length := (frontEnd_sound hp hf []).length_eq

/-- **`Classical` discharged on the parsed tree.**  If every atom of every validation is a cardinality atom
(`minCount`, `maxCount`, `exactCount`) or `uniqueValues`, the environment of the final tables is classical on
EVERY graph. -/
theorem frontEnd_classical {doc : Y} {p : Profile} {vals : List Validation} {T : Tables}
    (hp : parseProfile doc = .ok p) (hf : frontEnd doc = .ok (vals, T))
    (hcl : ∀ r ∈ rulesOf p, classicalAtoms r = true) (g : Graph) : Classical (envOf g T) :=
  envOf_classical g T
    (topRules_classTbl _ _ _ _ _ (frontEnd_ok hp hf) hcl (by intro a ha; simp at ha))

/-- the unconditional form for such profiles: reported iff target and not `sat`, on every graph -/
theorem tree_reported_iff_cardinality {doc : Y} {p : Profile} {vals : List Validation} {T : Tables}
    (hp : parseProfile doc = .ok p) (hf : frontEnd doc = .ok (vals, T))
    (hcl : ∀ r ∈ rulesOf p, classicalAtoms r = true) (g : Graph)
    (i : Nat) (r : PRule) (v : Validation) (hr : (rulesOf p)[i]? = some r) (hv : vals[i]? = some v)
    (hproper : proper r = true) (n : Node) :
    n ∈ C01.reported g (envOf g T) v.cls v.rule ↔
      (n ∈ g ∧ v.cls ∈ n.types) ∧ r.sat (ctxOf p.prefixes) g n = false :=
  tree_reported_iff hp hf g (frontEnd_classical hp hf hcl g) i r v hr hv hproper n

/-- `proper` cannot be discharged for parser outputs: `and: []` and `propertyConstraints: {}` parse to an
`and` with an empty body (`C01.improper_misjudged` shows the translator misjudges such rules) -/
example : pev 5 "x" (.map [(.scalar "!!str" "and", .seq [])]) 1 = .ok (.and false [], 1) ∧
    pev 5 "x" (.map [(.scalar "!!str" "propertyConstraints", .map [])]) 1 = .ok (.and false [], 1) ∧
    proper (.and false []) = false := ⟨by rfl, by rfl, by rfl⟩


/-! ## 5. Key order -/

/-- the keys of the profile document the parser reads, other than `validations` -/
def profileKeys : List String :=
  ["profile", "prefixes", "violation", "warning", "info", "description", "rego_extensions"]

/-- Two profile documents are similar when both are mappings that agree on the look-ups of `profileKeys`
(name, prefixes, the three level lists, description, Rego extensions), both have a `validations` mapping, and
under every name the two `validations` mappings have similar validations (`SimAll`: equal up to the order of
the entries of expression mappings at any depth, see `Acv.ProfileParser.validation_key_order`) or both have
none. -/
structure ProfileSim (doc doc' : Y) : Prop where
  map : ∃ es, doc = .map es
  map' : ∃ es', doc' = .map es'
  same : ∀ k ∈ profileKeys, doc.get k = doc'.get k
  vals : ∃ vs vs', doc.get "validations" = some (.map vs) ∧ doc'.get "validations" = some (.map vs') ∧
    ∀ name, OptRel SimAll ((Y.map vs).get name) ((Y.map vs').get name)

theorem levelLoop_sim (fuel : Nat) (level : String) {vs vs' : Y}
    (h : ∀ name, OptRel SimAll (vs.get name) (vs'.get name)) :
    ∀ names, levelLoop fuel level vs names = levelLoop fuel level vs' names
  | [] => rfl
  | n :: ns => by
    simp only [levelLoop, levelLoop_sim fuel level h ns]
    cases hs : str? (some n) with
    | none => rfl
    | some name =>
      simp only
      have hr := h name
      cases h1 : vs.get name with
      | none =>
        rw [h1] at hr
        rw [OptRel.none_left hr]
      | some v =>
        rw [h1] at hr
        obtain ⟨v', h2, hsim⟩ := OptRel.some_left hr
        rw [h2]
        simp only [Acv.ProfileParser.validation_key_order hsim fuel name level]

theorem parseProfileWith_sim {doc doc' : Y} (h : ProfileSim doc doc') (fuel : Nat) :
    parseProfileWith fuel doc = parseProfileWith fuel doc' := by
  obtain ⟨es, rfl⟩ := h.map
  obtain ⟨es', rfl⟩ := h.map'
  obtain ⟨vs, vs', hv, hv', hsim⟩ := h.vals
  have hk := h.same
  simp only [parseProfileWith, parseLevel, hv, hv',
    ← hk "profile" (by decide), ← hk "prefixes" (by decide), ← hk "violation" (by decide),
    ← hk "warning" (by decide), ← hk "info" (by decide), ← hk "description" (by decide),
    ← hk "rego_extensions" (by decide), levelLoop_sim fuel _ hsim]

theorem parseProfile_sim {doc doc' : Y} (h : ProfileSim doc doc') : parseProfile doc = parseProfile doc' := by
  rw [← Acv.ProfileParser.parseProfile_fuel_irrelevant (doc := doc) (f := max doc.depth doc'.depth) (Nat.le_max_left _ _),
    ← Acv.ProfileParser.parseProfile_fuel_irrelevant (doc := doc') (f := max doc.depth doc'.depth) (Nat.le_max_right _ _)]
  exact parseProfileWith_sim h _

/-- **`frontEnd_key_order`.**  Similar profile trees (`ProfileSim`) have the same `frontEnd` result: the same
validations (names, levels, target classes, abstract rules) and the same tables — or the same error. -/
theorem frontEnd_key_order {doc doc' : Y} (h : ProfileSim doc doc') : frontEnd doc = frontEnd doc' := by
  simp only [frontEnd, parseProfile_sim h]

/-- what the translator model reports for a front-end result on a graph: (validation name, node id) -/
def reportedPairs (g : Graph) (fe : List Validation × Tables) : List (String × String) :=
  fe.1.flatMap (fun v => (C01.reported g (envOf g fe.2) v.cls v.rule).map (fun n => (v.name, n.id)))

/-- the verdicts of a profile tree on a graph (or the front-end's error) -/
def verdicts (doc : Y) (g : Graph) : Except String (List (String × String)) :=
  (frontEnd doc).map (reportedPairs g)

/-- … hence the same verdicts on every graph -/
theorem verdicts_key_order {doc doc' : Y} (h : ProfileSim doc doc') (g : Graph) :
    verdicts doc g = verdicts doc' g := by
  simp only [verdicts, frontEnd_key_order h]

/-- how to establish `ProfileSim`, 1: permute the entries of the document mapping (distinct keys) -/
theorem ProfileSim.perm {es es' vs : List (Y × Y)} (p : es.Perm es') (hd : DistinctKeys es)
    (hv : (Y.map es).get "validations" = some (.map vs)) : ProfileSim (.map es) (.map es') where
  map := ⟨es, rfl⟩
  map' := ⟨es', rfl⟩
  same := fun k _ => Acv.ProfileParser.get_perm p hd k
  vals := ⟨vs, vs, hv, by rw [← Acv.ProfileParser.get_perm p hd]; exact hv,
    fun _ => OptRel.of_eq SimAll.refl rfl⟩

/-- 2: replace the `validations` mapping by one with similar validations under every name -/
theorem ProfileSim.validations {pre post : List (Y × Y)} {tag : String} {vs vs' : List (Y × Y)}
    (hpre : ∀ e ∈ pre, e.1.isKey "validations" = false)
    (hsim : ∀ name, OptRel SimAll ((Y.map vs).get name) ((Y.map vs').get name)) :
    ProfileSim (.map (pre ++ (.scalar tag "validations", .map vs) :: post))
      (.map (pre ++ (.scalar tag "validations", .map vs') :: post)) where
  map := ⟨_, rfl⟩
  map' := ⟨_, rfl⟩
  same := by
    intro k hk
    have : (Y.scalar tag "validations").isKey k = false := by
      simp only [profileKeys, List.mem_cons, List.not_mem_nil, or_false] at hk
      rcases hk with rfl | rfl | rfl | rfl | rfl | rfl | rfl <;> simp [Y.isKey]
    exact getEntries_replace_ne this
  vals := ⟨vs, vs', getEntries_replace_eq (by simp [Y.isKey]) hpre, getEntries_replace_eq (by simp [Y.isKey]) hpre, hsim⟩

/-- 3: … in particular permute the entries of the `validations` mapping (distinct names) -/
theorem ProfileSim.perm_validations {pre post : List (Y × Y)} {tag : String} {vs vs' : List (Y × Y)}
    (hpre : ∀ e ∈ pre, e.1.isKey "validations" = false) (p : vs.Perm vs') (hd : DistinctKeys vs) :
    ProfileSim (.map (pre ++ (.scalar tag "validations", .map vs) :: post))
      (.map (pre ++ (.scalar tag "validations", .map vs') :: post)) :=
  ProfileSim.validations hpre (fun name => OptRel.of_eq SimAll.refl (Acv.ProfileParser.get_perm p hd name))

theorem ProfileSim.trans {a b c : Y} (h₁ : ProfileSim a b) (h₂ : ProfileSim b c) : ProfileSim a c where
  map := h₁.map
  map' := h₂.map'
  same := fun k hk => (h₁.same k hk).trans (h₂.same k hk)
  vals := by
    obtain ⟨vs, vs', hv, hv', hs⟩ := h₁.vals
    obtain ⟨ws, ws', hw, hw', ht⟩ := h₂.vals
    rw [hv'] at hw
    cases hw
    exact ⟨vs, ws', hv, hw', fun name => (hs name).trans' (ht name) (fun _ _ _ x y => x.trans y)⟩

/-! ## 6. Non-vacuity

A profile tree with `or`, `not`, `if`/`then`/`else`, `nested` and `atLeast` over three atomic constraints
(`ex.a minCount 1`, `ex.b maxCount 0`, `ex.c minCount 1`): a node satisfies the validation when it has no
`ex.a`, or — if it has no `ex.b` — all its `ex.k` children have an `ex.c`, else at least one of them has. -/

section Examples

private def s (v : String) : Y := .scalar "!!str" v
private def i (v : String) : Y := .scalar "!!int" v
private def pc (path : String) (cons : List (Y × Y)) : Y := .map [(s "propertyConstraints", .map [(s path, .map cons)])]

private def orValue : Y := .seq [
    .map [(s "not", pc "ex.a" [(s "minCount", i "1")])],
    .map [(s "if", pc "ex.b" [(s "maxCount", i "0")]),
          (s "then", pc "ex.k" [(s "nested", pc "ex.c" [(s "minCount", i "1")])]),
          (s "else", pc "ex.k" [(s "atLeast", .map [(s "count", i "1"),
              (s "validation", pc "ex.c" [(s "minCount", i "1")])])])]]

private def exValidation : Y := .map [(s "targetClass", s "ex.T"), (s "message", s "m"), (s "or", orValue)]
/-- the same validation with its keys in another order -/
private def exValidation' : Y := .map [(s "message", s "m"), (s "or", orValue), (s "targetClass", s "ex.T")]

private def exTree : Y := .map [(s "profile", s "p"),
  (s "prefixes", .map [(s "ex", s "http://ex.org/v#")]),
  (s "violation", .seq [s "v"]),
  (s "validations", .map [(s "v", exValidation)])]

/-- the document with its entries rotated and the validation's keys reordered -/
private def exTree' : Y := .map [
  (s "violation", .seq [s "v"]),
  (s "validations", .map [(s "v", exValidation')]),
  (s "profile", s "p"),
  (s "prefixes", .map [(s "ex", s "http://ex.org/v#")])]

private def ex (l : String) : String := "http://ex.org/v#" ++ l

private def k1 : Node := ⟨"k1", [], [(ex "c", [.num 1])]⟩
private def k2 : Node := ⟨"k2", [], []⟩
private def n1 : Node := ⟨"n1", [ex "T"], [(ex "a", [.num 1]), (ex "k", [.ref "k1"])]⟩
private def n2 : Node := ⟨"n2", [ex "T"], [(ex "a", [.num 1]), (ex "k", [.ref "k2"])]⟩
private def n3 : Node := ⟨"n3", [ex "T"], [(ex "a", [.num 1]), (ex "b", [.num 7]), (ex "k", [.ref "k1", .ref "k2"])]⟩
private def n4 : Node := ⟨"n4", [ex "T"], [(ex "k", [.ref "k2"])]⟩
private def exGraph : Graph := [n1, n2, n3, n4, k1, k2]

example : (frontEnd exTree).toOption.map
    (fun r => (r.1.map (fun v => (v.name, v.level, v.cls)), r.2.atoms.length, r.2.paths.length)) =
    some ([("v", "violation", "http://ex.org/v#T")], 4, 2) := by decide +kernel

example : (match parseProfile exTree with
    | .ok p => p.violation.map (fun r =>
        [n1, n2, n3, n4].map (fun n => r.sat (ctxOf p.prefixes) exGraph n) ++ [proper r, classicalAtoms r])
    | .error _ => []) = [[true, false, true, true, true, true]] := by decide +kernel

example : (verdicts exTree exGraph).toOption = some [("v", "n2")] := by decide +kernel


/-! the same verdicts whatever the key order -/

private theorem exTree_sim : ProfileSim exTree exTree' := by
  -- 1: rewrite the validation inside `validations`
  have h1 : ProfileSim exTree (.map [(s "profile", s "p"),
      (s "prefixes", .map [(s "ex", s "http://ex.org/v#")]),
      (s "violation", .seq [s "v"]),
      (s "validations", .map [(s "v", exValidation')])]) := by
    refine ProfileSim.validations (pre := [(s "profile", s "p"),
      (s "prefixes", .map [(s "ex", s "http://ex.org/v#")]), (s "violation", .seq [s "v"])]) (post := [])
      (by simp [s, Y.isKey]) ?_
    intro name
    show OptRel SimAll (getEntries [(s "v", exValidation)] name) (getEntries [(s "v", exValidation')] name)
    simp only [getEntries]
    split
    · exact SimAll.perm (List.perm_append_comm (l₁ := [(s "targetClass", s "ex.T")])) (distinctKeys_of_nodup (by decide))
    · trivial
  -- 2: rotate the document
  refine h1.trans (ProfileSim.perm (vs := [(s "v", exValidation')])
    (List.perm_append_comm (l₁ := [(s "profile", s "p"), (s "prefixes", .map [(s "ex", s "http://ex.org/v#")])]))
    (distinctKeys_of_nodup (by decide)) (by rfl))

example : frontEnd exTree = frontEnd exTree' := frontEnd_key_order exTree_sim
example (g : Graph) : verdicts exTree g = verdicts exTree' g := verdicts_key_order exTree_sim g

/-- outside the fragment: a `rego` constraint, a transitive step, an unknown prefix, a float argument -/
private def errorOf (doc : Y) : String := match frontEnd doc with | .error e => e | .ok _ => "ok"
private def unsup (cons : Y) : Y := .map [(s "profile", s "p"), (s "prefixes", .map [(s "ex", s "http://ex.org/v#")]),
  (s "violation", .seq [s "v"]),
  (s "validations", .map [(s "v", .map [(s "targetClass", s "ex.T"), (s "propertyConstraints", cons)])])]

example : errorOf (unsup (.map [(s "ex.a", .map [(s "rego", s "1 == 1")])])) = unsupported := by decide +kernel
example : errorOf (unsup (.map [(s "ex.a*", .map [(s "minCount", i "1")])])) = unsupported := by decide +kernel
example : errorOf (unsup (.map [(s "zz.a", .map [(s "minCount", i "1")])])) = unsupported := by decide +kernel
example : errorOf (unsup (.map [(s "ex.a", .map [(s "minInclusive", .scalar "!!float" "1.5")])])) = unsupported := by
  decide +kernel
/-- … whereas the built-in prefixes, `@type`, inverse steps and custom domain properties are inside -/
example : (frontEnd (unsup (.map [(s "(core.name | @type) / apiExt.owner^ / ex.a^", .map [(s "minCount", i "1")])]))).toOption.map
    (fun r => r.2.atoms.map (fun a => match a with
      | .count .min (.seq [.alt [.prop a false, .prop b false], .prop c true, .prop d true]) 1 => [a, b, c, d]
      | _ => [])) =
  some [["http://a.ml/vocabularies/core#name", "@type", "http://a.ml/vocabularies/api-extension#owner",
    "http://ex.org/v#a"]] := by
  decide +kernel

end Examples

end Acv.FrontEnd

#print axioms Acv.FrontEnd.pathOf_parsed_partial
#print axioms Acv.FrontEnd.toRule_negate
#print axioms Acv.FrontEnd.toRule_negate_parsed
#print axioms Acv.FrontEnd.toRule_negate_needs_noNegConn
#print axioms Acv.FrontEnd.topRule_negate
#print axioms Acv.FrontEnd.satAll_iff
#print axioms Acv.FrontEnd.satAny_iff
#print axioms Acv.FrontEnd.sat_and_iff
#print axioms Acv.FrontEnd.sat_or_iff
#print axioms Acv.FrontEnd.sat_flag_and
#print axioms Acv.FrontEnd.sat_flag_or
#print axioms Acv.FrontEnd.sat_flag_if_then
#print axioms Acv.FrontEnd.sat_flag_if_then_else
#print axioms Acv.FrontEnd.sat_flag_top
#print axioms Acv.FrontEnd.sat_if_then_iff
#print axioms Acv.FrontEnd.sat_if_then_else_iff
#print axioms Acv.FrontEnd.sat_nested_iff
#print axioms Acv.FrontEnd.sat_quantified_eq
#print axioms Acv.FrontEnd.sat_atLeast_iff
#print axioms Acv.FrontEnd.sat_atMost_iff
#print axioms Acv.FrontEnd.sat_exactly_iff
#print axioms Acv.FrontEnd.sat_flag_nested
#print axioms Acv.FrontEnd.sat_atom_eq
#print axioms Acv.FrontEnd.sat_iff_holds
#print axioms Acv.FrontEnd.sat_eq_holds
#print axioms Acv.FrontEnd.toRule_tables_grow
#print axioms Acv.FrontEnd.sat_not
#print axioms Acv.FrontEnd.frontEnd_sound
#print axioms Acv.FrontEnd.tree_reported_iff
#print axioms Acv.FrontEnd.tree_validation_header
#print axioms Acv.FrontEnd.frontEnd_length
#print axioms Acv.FrontEnd.frontEnd_classical
#print axioms Acv.FrontEnd.tree_reported_iff_cardinality
#print axioms Acv.FrontEnd.levelLoop_sim
#print axioms Acv.FrontEnd.parseProfileWith_sim
#print axioms Acv.FrontEnd.parseProfile_sim
#print axioms Acv.FrontEnd.frontEnd_key_order
#print axioms Acv.FrontEnd.verdicts_key_order
#print axioms Acv.FrontEnd.ProfileSim.perm
#print axioms Acv.FrontEnd.ProfileSim.validations
#print axioms Acv.FrontEnd.ProfileSim.perm_validations
#print axioms Acv.FrontEnd.ProfileSim.trans
