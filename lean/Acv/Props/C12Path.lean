import Acv.Model.Iri
/-!
# C12: the path a trace entry names is the constraint's path, expanded once

The translator renders the path of a constraint with expanded IRIs (`PropertyPath.Trace`).  `wrapBranch` used to pass that
rendering through `IriExpander.Expand` a second time, ignoring the error.  These theorems say when that was harmless and
when it was not.
-/
namespace Acv.C12Path
open Acv.Iri

theorem mem_takeWhile_imp' {α} (p : α → Bool) : ∀ (l : List α) (a : α), a ∈ l.takeWhile p → p a = true
  | [], a, h => by simp at h
  | x :: xs, a, h => by
    simp only [List.takeWhile_cons] at h
    split at h
    · rcases List.mem_cons.mp h with h | h
      · subst h; assumption
      · exact mem_takeWhile_imp' p xs a h
    · simp at h

theorem class1_sub_class2 (c : Char) (h : isClass1 c = true) : isClass2 c = true := by
  simp [isClass2, h]

/-- a text that holds a character outside class 2 - every IRI with a scheme (`:`) or a fragment (`#`), every rendering
of an inverse step (`^`) or of a sequence (` / `) - is not of compact form -/
theorem not_compact_of_foreign (iri : List Char) (c : Char) (hc : c ∈ iri) (h2 : isClass2 c = false) :
    isCompact iri = false := by
  unfold isCompact
  split
  · rename_i suffix hd
    have hsplit : iri = iri.takeWhile isClass1 ++ iri.dropWhile isClass1 := (List.takeWhile_append_dropWhile).symm
    rw [hsplit, hd] at hc
    rcases List.mem_append.mp hc with h | h
    · have := mem_takeWhile_imp' isClass1 _ _ h
      have := class1_sub_class2 c this
      simp [h2] at this
    · rcases List.mem_cons.mp h with h | h
      · subst h; simp [isClass2] at h2
      · have : suffix.all isClass2 = false := by
          apply Bool.eq_false_iff.mpr
          intro hall
          have := List.all_eq_true.mp hall c h
          simp [h2] at this
        simp [this]
  · rfl

/-- so expanding it again fails (the code kept its input in that case): for such paths the second expansion
that `wrapBranch` used to make was harmless -/
theorem reexpand_fails_of_foreign (ctx : List Char → Option (List Char)) (iri : List Char) (c : Char) (hc : c ∈ iri)
    (h2 : isClass2 c = false) (hr : isReserved iri = false) : expand ctx iri = .error .notCompact := by
  simp [expand, not_compact_of_foreign iri c hc h2, hr]

def coreCtx : List Char → Option (List Char) := fun p =>
  if p = "core".toList then some "http://a.ml/vocabularies/core#".toList
  else if p = "sl2".toList then some "core.x/".toList else none

/-- ... but an IRI of a namespace without a scheme can read like `prefix.name`: `sl2.owner` with `sl2: core.x/` expands to
`core.x/owner`, and a SECOND expansion rewrites that to an IRI of the built-in `core` vocabulary (the defect repaired by
the `fix:` commit that stopped `wrapBranch` from expanding trace paths again) -/
theorem reexpansion_rewrites :
    expand coreCtx "sl2.owner".toList = .ok "core.x/owner".toList ∧
    expand coreCtx "core.x/owner".toList = .ok "http://a.ml/vocabularies/core#x/owner".toList := by
  decide

end Acv.C12Path
#print axioms Acv.C12Path.not_compact_of_foreign
#print axioms Acv.C12Path.reexpand_fails_of_foreign
#print axioms Acv.C12Path.reexpansion_rewrites
