import Acv.Model.Cli
import Acv.Gen.Cli
/-!
# C18 — the CLI emits exactly the library's output, to stdout or to the file
-/
namespace Acv.C18
open Acv.Cli

/-- the flags of the `os.OpenFile` call for an existing output file, as found in the source now -/
theorem open_truncates : Acv.Gen.openFlags.contains "O_TRUNC" = true := by decide

theorem stdout_uses_println : Acv.Gen.validatePrints = ["Println"] := by decide

/-- With an output path the file ends up containing exactly the report, whatever it held before. -/
theorem write_exact (prior : FileState) (report : List Char) :
    writeOutput true prior report = .content report := by
  cases prior <;> simp [writeOutput, opened, writeAt0]

theorem validate_file_exact (prior : FileState) (report : List Char) :
    (validateCmd true (.ok report) (some prior)).file = .content report ∧
    (validateCmd true (.ok report) (some prior)).exit = 0 := by
  simp [validateCmd, write_exact]

/-- without an output path stdout is the report followed by one newline -/
theorem stdout_exact (report : List Char) :
    (validateCmd true (.ok report) none).stdout = report ++ ['\n'] := rfl

/-- failures: non-zero exit, nothing on stdout, output file untouched -/
theorem failure_no_stdout (e : String) (out : Option FileState) :
    (validateCmd true (.error e) out).exit ≠ 0 ∧ (validateCmd true (.error e) out).stdout = [] ∧
    (validateCmd true (.error e) out).file = out.getD .absent := by
  simp [validateCmd]

/-- what commit 21a97f4 did (no O_TRUNC): a longer prior file keeps its tail -/
theorem stale_tail (prior report : List Char) (h : report.length < prior.length) :
    writeOutput false (.content prior) report = .content (report ++ prior.drop report.length) ∧
    writeOutput false (.content prior) report ≠ .content report := by
  constructor
  · simp [writeOutput, opened, writeAt0]
  · simp only [writeOutput, opened, writeAt0, Bool.false_eq_true, ↓reduceIte, ne_eq, FileState.content.injEq]
    intro hEq
    have := congrArg List.length hEq
    simp at this
    omega

example : writeOutput false (.content "0123456789".toList) "ab".toList = .content "ab23456789".toList := by decide
example : writeOutput true (.content "0123456789".toList) "ab".toList = .content "ab".toList := by decide

end Acv.C18
