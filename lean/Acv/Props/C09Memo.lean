/-!
# C09 / C10 / C06: which process-wide memo tables are invisible

Several realistic changes put a memo table behind an entry point (the last compiled profile, the report context per
schema IRI, the JSON-LD documents loaded so far).  The table is state that outlives a call, so "each report equals the one
a fresh, independent validation would produce" becomes a statement about histories.  `memo_transparent`: a memo whose key
DETERMINES the computed value never shows, for any history and any starting table that is sound; `partial_key_leaks`: with
a key that ignores a field the value depends on, two requests in a row already show it.
-/
namespace Acv.Memo

structure Memo (Req Key Res : Type) where
  key : Req → Key
  compute : Req → Res

variable {Req Key Res : Type} [DecidableEq Key]

def lookup (k : Key) : List (Key × Res) → Option Res
  | [] => none
  | (k', r) :: t => if k' = k then some r else lookup k t

/-- one call: answer from the table when the key is there, otherwise compute and remember -/
def step (m : Memo Req Key Res) (table : List (Key × Res)) (q : Req) : List (Key × Res) × Res :=
  match lookup (m.key q) table with
  | some r => (table, r)
  | none => ((m.key q, m.compute q) :: table, m.compute q)

/-- a history of calls through one table: the answers, in order -/
def run (m : Memo Req Key Res) : List (Key × Res) → List Req → List Res
  | _, [] => []
  | table, q :: qs => (step m table q).2 :: run m (step m table q).1 qs

/-- every remembered value is what computing it afresh would give for ANY request with that key -/
def Sound (m : Memo Req Key Res) (table : List (Key × Res)) : Prop :=
  ∀ k r, lookup k table = some r → ∀ q, m.key q = k → m.compute q = r

theorem sound_nil (m : Memo Req Key Res) : Sound m [] := by
  intro k r h; simp [lookup] at h

/-- the key determines the value -/
def KeyComplete (m : Memo Req Key Res) : Prop := ∀ q q', m.key q = m.key q' → m.compute q = m.compute q'

theorem step_answer (m : Memo Req Key Res) (table) (hs : Sound m table) (q : Req) :
    (step m table q).2 = m.compute q := by
  unfold step
  split
  · rename_i r h
    exact (hs _ r h q rfl).symm
  · rfl

theorem step_sound (m : Memo Req Key Res) (hk : KeyComplete m) (table) (hs : Sound m table) (q : Req) :
    Sound m (step m table q).1 := by
  unfold step
  split
  · exact hs
  · intro k r h q' hq'
    simp only [lookup] at h
    split at h
    · rename_i hkey
      cases h
      exact hk q' q (by rw [hq', hkey])
    · exact hs k r h q' hq'

/-- **Transparency.**  Whatever was asked before, each answer is the fresh computation. -/
theorem memo_transparent (m : Memo Req Key Res) (hk : KeyComplete m) :
    ∀ (table : List (Key × Res)), Sound m table → ∀ history, run m table history = history.map m.compute
  | _, _, [] => rfl
  | table, hs, q :: qs => by
    simp only [run, List.map_cons, step_answer m table hs q]
    rw [memo_transparent m hk _ (step_sound m hk table hs q) qs]

/-- the report-context memo of the seeded changes: the value depends on both schema IRIs, the key is the first one -/
def partialKey : Memo (Nat × Nat) Nat (Nat × Nat) := { key := fun q => q.1, compute := fun q => q }

/-- **A partial key leaks**: the second caller gets the first caller's value -/
theorem partial_key_leaks :
    run partialKey [] [(1, 10), (1, 20)] ≠ [(1, 10), (1, 20)].map partialKey.compute := by decide

/-- and it is exactly key-completeness that fails there -/
theorem partialKey_not_complete : ¬ KeyComplete partialKey := by
  intro h
  have := h (1, 10) (1, 20) rfl
  simp [partialKey] at this

/-- non-vacuity: the full request as key is complete, so such a memo is invisible -/
example : KeyComplete ({ key := id, compute := fun q => q.1 + q.2 } : Memo (Nat × Nat) (Nat × Nat) Nat) := by
  intro q q' h; simp only [id] at h; rw [h]

end Acv.Memo
#print axioms Acv.Memo.memo_transparent
#print axioms Acv.Memo.partial_key_leaks
#print axioms Acv.Memo.partialKey_not_complete
