import Acv.Gen.Tables
import Acv.Gen.Inventory
import Acv.Props.C08Term
/-!
# C08 — profiles cannot reach the network or the host

Facts about the deny-list and the compile path, REGENERATED from the sources and from the linked engine
on every run, plus the term-level lemma (`Acv.C08Term`) that a call to a denied operator is found at any
depth.
-/
namespace Acv.C08
open Acv.Gen

/-- built-ins able to perform network I/O, inspect the host process or re-enter the compiler -/
def forbidden : List String := ["http.send", "net.lookup_ip_addr", "opa.runtime", "rego.parse_module", "walk"]

/-- every forbidden built-in is on the deny-list handed to the compiler -/
theorem forbidden_denied : forbidden.all (fun b => denyList.contains b) = true := by decide

/-- every name on the deny-list is a built-in of the LINKED engine (a renamed or removed built-in, e.g.
after a dependency bump, re-opens this obligation) -/
theorem denied_exist : denyList.all (fun b => engineBuiltins.contains b) = true := by decide

/-- the forbidden built-ins exist in the linked engine -/
theorem forbidden_exist : forbidden.all (fun b => engineBuiltins.contains b) = true := by decide

/-- there is exactly one place where a policy is handed to the engine, and it passes the deny-list;
evaluation happens in exactly one place, on what that compile step returned -/
theorem single_compile_site : regoApiCalls =
    ["internal/validator/process_profile.go CompileRego rego.Module",
     "internal/validator/process_profile.go CompileRego rego.New query,module,unsafeBuiltins",
     "internal/validator/process_profile.go CompileRego rego.PrepareForEval",
     "internal/validator/process_profile.go CompileRego rego.Query",
     "internal/validator/process_profile.go CompileRego rego.UnsafeBuiltins",
     "internal/validator/validate.go executeValidation rego.Eval",
     "internal/validator/validate.go executeValidation rego.EvalInput"] := by decide

/-- on the term model, with the regenerated deny-list: a policy body that calls a denied built-in anywhere
(statement, assignment, comprehension, argument of another call, helper body) is rejected -/
theorem deny_list_rejects_at_any_depth (op : String) (h : op ∈ denyList) (c : Acv.RegoTerm.Ctx)
    (args pre post : List Acv.RegoTerm.T) :
    Acv.RegoTerm.accept denyList (pre ++ Acv.RegoTerm.plug c (.call op args) :: post) = false :=
  Acv.C08Term.denied_call_rejected denyList h c args pre post

/-- the state of commit 21a97f4: `net.lookup_ip_addr` was not on the list -/
theorem old_list_misses_lookup :
    ¬ (forbidden.all (fun b => ["http.send", "walk", "opa.runtime", "rego.parse_module"].contains b) = true) := by decide

end Acv.C08
