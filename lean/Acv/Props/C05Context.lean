import Acv.Model.LdContext
import Acv.Lemmas.LdContext
import Acv.Props.C05
/-!
# C05 with contexts: normalisation does not depend on how IRIs are spelled under an `@context`

`Acv.Ld.normC` (`Acv/Model/LdContext.lean`) extends `norm` to documents with a top-level
`@context` made of prefix definitions, `@base` and `@vocab`: `expandDoc` removes the context and
expands every IRI position the way json-gold 0.4.0 does (`Context.ExpandIri`, `Resolve`), then
`norm` applies.  Whatever is not modelled is `none`.

* `spDoc ctx d d′` ("`d′` is a context spelling of the context-free document `d`"): each IRI
  occurrence of `d` — node `@id`, link `@id`, property key, `@type` value — is *independently*
  written in full, as `prefix:suffix` for any declared prefix whose namespace is a prefix of the
  IRI (provided the suffix does not begin with `//`), as the bare term whose IRI it is or relative
  to `@vocab` (keys and types), or relative to `@base` (ids; provided the base is a directory and
  the remainder is one harmless segment); everything else is unchanged.
* `expand_spelling`: under `Ctx.spellOk ctx` and `docOk ctx d` (every IRI of `d` satisfies
  `iriOk ctx`), expansion undoes every spelling.
* `norm_ser_ctx`: `norm_ser` extended to context documents, and `renderings_agree`: any two
  documents of the same graph, context-free or not, normalise to equivalent indexes with the same
  `targets` for every class.
* one concrete counterexample per side condition (each checked against the real code, see the
  comments) and non-vacuity examples.

The guards on the `prefix:suffix`, `@vocab` and `@base` alternatives are part of the relation
rather than hypotheses on `d`: a document may contain `http://ex.org/v#//x` and still be covered —
that IRI just has to be written in full.  The version with an unguarded relation (`spDoc₀`: *any*
declared prefix whose namespace is a prefix of the IRI, *any* `@base` that is a prefix of the id)
and the guards as hypotheses on all IRIs of `d` (`iriOk₀`) is the special case
`expand_spelling₀` / `norm_ser_ctx₀` of section 3b.
-/
namespace Acv.C05
open Acv Acv.Ld

/-! ## 1. `normC` extends `norm` -/

/-- on documents without a top-level `@context` (arrays, objects without that key) `normC` is `norm` -/
theorem normC_eq_norm_arr (xs : List Js) : normC (.arr xs) = norm (.arr xs) := rfl

theorem normC_eq_norm_obj (kvs : List (String × Js)) (h : hasKey "@context" kvs = false) :
    normC (.obj kvs) = norm (.obj kvs) := by
  simp [normC, expandDoc, h]

/-- in particular on every serialisation of a graph -/
theorem normC_ser (g : Graph) (c : Choice) (h : WF g c = true) :
    normC (ser g c) = norm (ser g c) := by
  simp [normC, expandDoc_ser g c h]

/-! ## 2. Expansion undoes every context spelling -/

/-- **`expand_spelling`.**  Side conditions, all decidable:

`Ctx.spellOk ctx`:
* every prefix name is non-empty, contains neither `:` nor `/`, does not start with `@`, is not `_`,
  and no name is declared twice;
* every namespace is certainly an absolute IRI for Go (`goAbs … = yes`: a scheme followed by
  harmless ASCII), ends in a gen-delim (`:/?#[]@`), and the text before its first `:` is not itself
  a declared prefix name unless `//` follows;
* `@base` and `@vocab`, when present, are certainly absolute.

`docOk ctx d`: `d` is a top-level array of node objects, `{"@graph": [...]}` or a node object;
`@id` values are strings, `@type` values strings or arrays of strings, and every IRI `f` occurring
as node id, link target, property key or class satisfies `iriOk ctx f`:
* `f` is absolute in the sense of the context-free fragment (`absIri`: has a `:`, starts neither
  with `@` nor with `_:`), and starts neither with `:` nor with `//`;
* the text before the first `:` of `f` is not a declared prefix name, unless `//` follows
  (so a prefix named `http` is harmless for `http://…` IRIs, a prefix named `urn` is not for
  `urn:x:y`);
* `goAbs f = yes`, or the context has neither `@base` nor `@vocab`.

`spDoc ctx d d′`: the spelling relation described in the header.

Conclusion: attaching the context to `d′` and expanding gives back `d` — as `{"@graph": d}` when
`d` is a top-level array, because that is the only place a context can be attached to. -/
theorem expand_spelling (ctx : Ctx) (d d' : Js) (hc : ctx.spellOk = true)
    (hd : docOk ctx d = true) (hs : spDoc ctx d d' = true) :
    expandDoc (withContext ctx d') = some (asGraph d) :=
  expand_spelling_aux hc hd hs

/-- for a document that is an object, literally `some d` -/
theorem expand_spelling_obj (ctx : Ctx) (kvs : List (String × Js)) (d' : Js)
    (hc : ctx.spellOk = true) (hd : docOk ctx (.obj kvs) = true)
    (hs : spDoc ctx (.obj kvs) d' = true) :
    expandDoc (withContext ctx d') = some (.obj kvs) :=
  expand_spelling_aux hc hd hs

/-- `{"@graph": [...]}` and the bare array normalise alike -/
theorem norm_asGraph (d : Js) : norm (asGraph d) = norm d := Ld.norm_asGraph d

/-- hence a spelling normalises exactly as the document it spells -/
theorem normC_spelling (ctx : Ctx) (d d' : Js) (hc : ctx.spellOk = true)
    (hd : docOk ctx d = true) (hs : spDoc ctx d d' = true) :
    normC (withContext ctx d') = norm d := by
  simp [normC, expand_spelling ctx d d' hc hd hs, norm_asGraph]

/-- the identity spelling is a spelling: the relation is not empty -/
theorem spellV_refl (ctx : Ctx) (f : String) : spellV ctx f f = true := by simp [spellV]
theorem spellId_refl (ctx : Ctx) (f : String) : spellId ctx f f = true := by simp [spellId]

/-! ## 3. `norm_ser` for context documents -/

/-- a serialisation of a graph whose IRIs satisfy `iriOk` satisfies `docOk` -/
theorem docOk_ser (ctx : Ctx) (g : Graph) (c : Choice) (h : WF g c = true)
    (hg : gIrisOk ctx g = true) : docOk ctx (ser g c) = true :=
  Ld.docOk_ser g c h hg

/-- **`norm_ser_ctx`.**  For every graph `g`, well-formed plan `c`, context `ctx` with
`Ctx.spellOk`, such that every IRI of `g` (node ids, classes, property IRIs, link targets)
satisfies `iriOk ctx`, and every context spelling `d′` of `ser g c`: the document
`withContext ctx d′` normalises, to an index equivalent to the one `g` denotes. -/
theorem norm_ser_ctx (g : Graph) (c : Choice) (h : WF g c = true) (ctx : Ctx)
    (hc : ctx.spellOk = true) (hg : gIrisOk ctx g = true) (d' : Js)
    (hs : spDoc ctx (ser g c) d' = true) :
    ∃ ix, normC (withContext ctx d') = some ix ∧ ix.equiv (canonIndex g) = true := by
  rw [normC_spelling ctx (ser g c) d' hc (docOk_ser ctx g c h hg) hs]
  exact norm_ser g c h

/-- the same with the side condition stated on the document instead of the graph -/
theorem norm_ser_ctx_doc (g : Graph) (c : Choice) (h : WF g c = true) (ctx : Ctx)
    (hc : ctx.spellOk = true) (hd : docOk ctx (ser g c) = true) (d' : Js)
    (hs : spDoc ctx (ser g c) d' = true) :
    ∃ ix, normC (withContext ctx d') = some ix ∧ ix.equiv (canonIndex g) = true := by
  rw [normC_spelling ctx (ser g c) d' hc hd hs]
  exact norm_ser g c h

/-! ## 3b. The same with the relation of the brief: unguarded alternatives, guards as hypotheses

`spDoc₀ ctx d d′`: each IRI occurrence of `d` is independently written in full, as `prefix:suffix`
for any declared prefix whose namespace is a prefix of the IRI, or (ids only) as the remainder
after `@base` when `@base` is a prefix of it; everything else is unchanged.

`iriOk₀ ctx f` = `iriOk ctx f` and
* `sufOk`: for every declared prefix whose namespace is a prefix of `f`, the remainder does not
  start with `//`;
* `relOk`: if `@base` is a prefix of `f`, the base is a directory `scheme://host/seg/…/` (lower-case
  scheme, plain host, harmless segments, no query, no fragment) and the remainder is one harmless
  segment: non-empty, characters among `A–Z a–z 0–9 - . _ ~ $ & + , ; =`, not `.` or `..`. -/

theorem expand_spelling₀ (ctx : Ctx) (d d' : Js) (hc : ctx.spellOk = true)
    (hd : docOkP (iriOk₀ ctx) d = true) (hs : spDoc₀ ctx d d' = true) :
    expandDoc (withContext ctx d') = some (asGraph d) := by
  obtain ⟨h1, h2⟩ := doc_of₀ hd hs
  exact expand_spelling ctx d d' hc h2 h1

theorem norm_ser_ctx₀ (g : Graph) (c : Choice) (h : WF g c = true) (ctx : Ctx)
    (hc : ctx.spellOk = true) (hg : gAll (iriOk₀ ctx) g = true) (d' : Js)
    (hs : spDoc₀ ctx (ser g c) d' = true) :
    ∃ ix, normC (withContext ctx d') = some ix ∧ ix.equiv (canonIndex g) = true := by
  have hd : docOkP (iriOk₀ ctx) (ser g c) = true :=
    docOkP_ser (fun _ hk => iriOk_ne (iriOk₀_facts hk).1) g c h hg
  obtain ⟨h1, h2⟩ := doc_of₀ hd hs
  exact norm_ser_ctx_doc g c h ctx hc h2 d' h1

/-- A document of the graph `g`: a well-formed serialisation, or a context spelling of one under
a context meeting the side conditions. -/
inductive Rendering (g : Graph) : Js → Prop
  | plain (c : Choice) (h : WF g c = true) : Rendering g (ser g c)
  | spelled (c : Choice) (h : WF g c = true) (ctx : Ctx) (hc : ctx.spellOk = true)
      (hg : gIrisOk ctx g = true) (d' : Js) (hs : spDoc ctx (ser g c) d' = true) :
      Rendering g (withContext ctx d')

theorem rendering_norm {g : Graph} {d : Js} (h : Rendering g d) :
    ∃ ix, normC d = some ix ∧ ix.equiv (canonIndex g) = true := by
  cases h with
  | plain c h => rw [normC_ser g c h]; exact norm_ser g c h
  | spelled c h ctx hc hg d' hs => exact norm_ser_ctx g c h ctx hc hg d' hs

/-- **Any two documents of the same graph — context-free or not, under the same or different
contexts — normalise to equivalent indexes**, with the same `targets` for every class, the same
classes in `@types`, the same ids and per id the same classes, keys and values. -/
theorem renderings_agree {g : Graph} {d₁ d₂ : Js} (h₁ : Rendering g d₁) (h₂ : Rendering g d₂) :
    ∃ i₁ i₂, normC d₁ = some i₁ ∧ normC d₂ = some i₂ ∧ i₁.equiv i₂ = true ∧
      (∀ cls id, id ∈ i₁.targets cls ↔ id ∈ i₂.targets cls) ∧
      (∀ cls, (∃ l, (cls, l) ∈ i₁.types) ↔ (∃ l, (cls, l) ∈ i₂.types)) ∧
      (∀ id, id ∈ i₁.ids ↔ id ∈ i₂.ids) ∧
      (∀ id c, c ∈ i₁.typesOf id ↔ c ∈ i₂.typesOf id) ∧
      (∀ id k, k ∈ i₁.keysOf id ↔ k ∈ i₂.keysOf id) ∧
      (∀ id k v, v ∈ i₁.valsOf id k ↔ v ∈ i₂.valsOf id k) := by
  obtain ⟨i₁, e₁, q₁⟩ := rendering_norm h₁
  obtain ⟨i₂, e₂, q₂⟩ := rendering_norm h₂
  have q := equiv_trans q₁ (equiv_symm q₂)
  exact ⟨i₁, i₂, e₁, e₂, q, equiv_targets q⟩

/-- the context-free / context pair spelled out: a spelling of *another* serialisation of `g`
reads like any plain serialisation of `g` -/
theorem reserialisation_invariant_ctx (g : Graph) (c₁ c₂ : Choice) (h₁ : WF g c₁ = true)
    (h₂ : WF g c₂ = true) (ctx : Ctx) (hc : ctx.spellOk = true) (hg : gIrisOk ctx g = true)
    (d' : Js) (hs : spDoc ctx (ser g c₂) d' = true) :
    ∃ i₁ i₂, norm (ser g c₁) = some i₁ ∧ normC (withContext ctx d') = some i₂ ∧
      i₁.equiv i₂ = true ∧ ∀ cls id, id ∈ i₁.targets cls ↔ id ∈ i₂.targets cls := by
  obtain ⟨i₁, i₂, e₁, e₂, q, t, _⟩ :=
    renderings_agree (Rendering.plain c₁ h₁) (Rendering.spelled c₂ h₂ ctx hc hg d' hs)
  rw [normC_ser g c₁ h₁] at e₁
  exact ⟨i₁, i₂, e₁, e₂, q, t⟩

/-- the output of `normC` is a genuine index as well -/
theorem normC_wellFormed {d : Js} {ix : Index} (h : normC d = some ix) : ix.wellFormed = true := by
  simp only [normC, Option.bind_eq_some_iff] at h
  obtain ⟨d0, _, h0⟩ := h
  exact norm_wellFormed h0

/-! ## 4. Non-vacuity -/

set_option maxRecDepth 100000

-- the examples are evaluated by the kernel alone (`decide +kernel`: no `native_decide`, no extra
-- axiom); the elaborator's own evaluator is too slow on `String.ofList`

/-- two prefixes (one of them for the node namespace) and a directory base -/
def ctxE : Ctx :=
  ⟨[("ex", "http://ex.org/v#"), ("n", "http://ex.org/n/")], some "http://ex.org/n/", none⟩

/-- `a → b`, `a → c`, `b → c`, `c → a` -/
def gE : Graph :=
  [ ⟨"http://ex.org/n/a", ["http://ex.org/v#T"],
      [("http://ex.org/v#p", [.ref "http://ex.org/n/b", .ref "http://ex.org/n/c"]),
       ("http://ex.org/v#name", [.str "one"])]⟩,
    ⟨"http://ex.org/n/b", ["http://ex.org/v#T", "http://ex.org/v#U"],
      [("http://ex.org/v#q", [.ref "http://ex.org/n/c"])]⟩,
    ⟨"http://ex.org/n/c", ["http://ex.org/v#U"],
      [("http://ex.org/v#r", [.ref "http://ex.org/n/a"]), ("http://ex.org/v#k", [.num 7, .bool true])]⟩ ]

/-- `@graph` form; `b` embedded in `a`; `c` split over two top-level objects -/
def cE : Choice :=
  ⟨[ ⟨0, [.id, .types [0] true,
          .prop 0 false [.embed 0 1 [.id, .types [0, 1] false, .prop 0 true [.plain 0 false]],
                         .plain 1 false],
          .prop 1 true [.plain 0 true]]⟩,
     ⟨2, [.id, .types [0] false]⟩,
     ⟨2, [.prop 0 false [.plain 0 false], .id, .prop 1 false [.plain 1 false, .plain 0 true]]⟩ ],
   .graph⟩

/-- a spelling of `ser gE cE`: ids relative to `@base` (`a`, `c`), through the prefix `n:` and in
full; keys and classes through `ex:` and in full -/
def dE' : Js :=
  .obj [("@graph", .arr [
    .obj [("@id", .str "a"), ("@type", .str "ex:T"),
      ("ex:p", .arr [
        .obj [("@id", .str "n:b"), ("@type", .arr [.str "http://ex.org/v#T", .str "ex:U"]),
              ("http://ex.org/v#q", .obj [("@id", .str "c")])],
        .obj [("@id", .str "http://ex.org/n/c")]]),
      ("ex:name", .obj [("@value", .str "one")])],
    .obj [("@id", .str "n:c"), ("@type", .arr [.str "ex:U"])],
    .obj [("ex:r", .arr [.obj [("@id", .str "a")]]), ("@id", .str "c"),
      ("ex:k", .arr [.bool true, .obj [("@value", .num 7)]])]])]

example : ctxE.spellOk = true := by decide +kernel
example : gOk gE = true ∧ gIrisOk ctxE gE = true := by decide +kernel
example : WF gE cE = true ∧ cE.flat = false := by decide +kernel
example : spDoc ctxE (ser gE cE) dE' = true := by decide +kernel
/-- the conclusion of `expand_spelling`, computed -/
example : expandDoc (withContext ctxE dE') = some (ser gE cE) := by decide +kernel
/-- the conclusion of `norm_ser_ctx`, computed -/
example : (normC (withContext ctxE dE')).map (·.equiv (canonIndex gE)) = some true := by decide +kernel

/-- the same data meet the hypotheses of the unguarded version `norm_ser_ctx₀` -/
example : gAll (iriOk₀ ctxE) gE = true ∧ spDoc₀ ctxE (ser gE cE) dE' = true := by decide +kernel

/-- what the document looks like -/
example : withContext ctxE dE' =
    .obj (("@context", .obj [("ex", .str "http://ex.org/v#"), ("n", .str "http://ex.org/n/"),
        ("@base", .str "http://ex.org/n/")]) ::
      [("@graph", .arr [
        .obj [("@id", .str "a"), ("@type", .str "ex:T"),
          ("ex:p", .arr [
            .obj [("@id", .str "n:b"), ("@type", .arr [.str "http://ex.org/v#T", .str "ex:U"]),
                  ("http://ex.org/v#q", .obj [("@id", .str "c")])],
            .obj [("@id", .str "http://ex.org/n/c")]]),
          ("ex:name", .obj [("@value", .str "one")])],
        .obj [("@id", .str "n:c"), ("@type", .arr [.str "ex:U"])],
        .obj [("ex:r", .arr [.obj [("@id", .str "a")]]), ("@id", .str "c"),
          ("ex:k", .arr [.bool true, .obj [("@value", .num 7)]])]])]) := by decide +kernel

/-- a context with `@vocab` and a prefix named `http` (harmless: every IRI of the graph continues
with `//`), a single top-level object with everything embedded, keys and classes relative to
`@vocab` -/
def ctxV : Ctx :=
  ⟨[("http", "http://ex.org/v#")], some "http://ex.org/n/", some "http://ex.org/v#"⟩

def cV : Choice :=
  ⟨[ ⟨0, [.types [0] false, .id,
          .prop 0 false
            [ .embed 0 1 [.id, .types [1, 0] false,
                .prop 0 false [.embed 0 2 [.id, .types [0] true, .prop 1 false [.plain 0 false, .plain 1 false],
                                  .prop 0 true [.plain 0 false]]]],
              .plain 1 false ],
          .prop 1 false [.plain 0 false]]⟩ ], .single⟩

def dV' : Js :=
  .obj [("@type", .arr [.str "T"]), ("@id", .str "a"),
    ("p", .arr [
      .obj [("@id", .str "b"), ("@type", .arr [.str "http:U", .str "T"]),
        ("q", .arr [.obj [("@id", .str "c"), ("@type", .str "U"),
          ("http:k", .arr [.num 7, .bool true]), ("r", .obj [("@id", .str "a")])]])],
      .obj [("@id", .str "c")]]),
    ("http://ex.org/v#name", .arr [.str "one"])]

example : ctxV.spellOk = true ∧ gIrisOk ctxV gE = true := by decide +kernel
example : WF gE cV = true := by decide +kernel
example : spDoc ctxV (ser gE cV) dV' = true := by decide +kernel
example : expandDoc (withContext ctxV dV') = some (ser gE cV) := by decide +kernel
example : (normC (withContext ctxV dV')).map (·.equiv (canonIndex gE)) = some true := by decide +kernel

/-- the reader finds the `@context` entry wherever it is in the object -/
example : expandDoc (match dV' with
      | .obj kvs => .obj (kvs ++ [("@context", ctxJs ctxV)])
      | d => d) = some (ser gE cV) := by decide +kernel

/-- a top-level array can only carry a context as `{"@context": …, "@graph": [...]}` -/
def dA' : Js :=
  .arr [ .obj [("@id", .str "a"), ("@type", .arr [.str "ex:T"]),
            ("ex:p", .arr [.obj [("@id", .str "b")], .obj [("@id", .str "n:c")]]),
            ("http://ex.org/v#name", .arr [.str "one"])],
         .obj [("@id", .str "b"), ("@type", .arr [.str "ex:T", .str "ex:U"]),
            ("ex:q", .arr [.obj [("@id", .str "c")]])],
         .obj [("@id", .str "c"), ("@type", .arr [.str "ex:U"]),
            ("ex:r", .arr [.obj [("@id", .str "a")]]), ("ex:k", .arr [.num 7, .bool true])] ]

example : spDoc ctxE (ser gE (Choice.plainOf gE)) dA' = true := by decide +kernel
example : expandDoc (withContext ctxE dA') = some (asGraph (ser gE (Choice.plainOf gE))) := by decide +kernel
example : (normC (withContext ctxE dA')) = some (canonIndex gE) := by decide +kernel

/-! ## 5. One counterexample per side condition

Every document below was also given to the real code (`ProcessInput` of the Go project with
json-gold 0.4.0, harness `/tmp/agH/gotest`, script `/tmp/agH/ce_check.py`); the comment says what
it answered.  `one k v` is the node `http://ex.org/n/a` with one property. -/

def one (k : String) : Js := .obj [("@id", .str "http://ex.org/n/a"), (k, .str "v")]
def oneId (id : String) : Js := .obj [("@id", .str id), ("http://ex.org/v#p", .str "v")]
def oneTy (c : String) : Js := .obj [("@id", .str "http://ex.org/n/a"), ("@type", .str c)]

/-! ### conditions on the context -/

/-- CE1 a prefix name containing `:` — real: error `invalid IRI mapping: term a:b expands to …` -/
example : (Ctx.ok ⟨[("a:b", "http://ex.org/v#")], none, none⟩ = false) ∧
    expandDoc (withContext ⟨[("a:b", "http://ex.org/v#")], none, none⟩ (one "a:b:p")) = none := by
  decide +kernel

/-- CE2 a prefix name starting with `@` — real: the definition is ignored, the key stays `@foo:p` -/
example : expandDoc (withContext ⟨[("@foo", "http://ex.org/v#")], none, none⟩ (one "@foo:p")) = none := by
  decide +kernel

/-- CE3 a prefix named `_` — real: `_:p` is a blank node label, the property becomes `_:b0`.
Everything else holds: the reader accepts the context, the document is fine, `_:p` would be a
spelling. -/
example :
    let ctx : Ctx := ⟨[("_", "http://ex.org/v#")], none, none⟩
    ctx.ok = true ∧ ctx.spellOk = false ∧ docOk ctx (one "http://ex.org/v#p") = true ∧
    spDoc ctx (one "http://ex.org/v#p") (one "_:p") = true ∧
    expandDoc (withContext ctx (one "_:p")) = some (one "_:p") ∧
    normC (withContext ctx (one "_:p")) = none := by
  decide +kernel

/-- CE4 an empty prefix name — real: the key stays `:p` -/
example : expandDoc (withContext ⟨[("", "http://ex.org/v#")], none, none⟩ (one ":p")) = none := by
  decide +kernel

/-- CE5 a prefix name containing `/` — real: error `invalid IRI mapping: not an absolute IRI: a/b` -/
example : expandDoc (withContext ⟨[("a/b", "http://ex.org/v#")], none, none⟩ (one "a/b:p")) = none := by
  decide +kernel

/-- CE6 a name declared twice — real (the JSON decoder keeps the last entry): `ex:p` becomes
`http://b/p`, not `http://a/p` -/
example : expandDoc (withContext ⟨[("ex", "http://a/"), ("ex", "http://b/")], none, none⟩ (one "ex:p")) =
    none := by decide +kernel

/-- CE7 a namespace that does not end in a gen-delim — real: `ex:p` stays `ex:p` (json-gold in its
default 1.1 mode does not use the term as a prefix).  Everything else holds. -/
example :
    let ctx : Ctx := ⟨[("ex", "http://ex.org/v")], none, none⟩
    ctx.ok = true ∧ ctx.spellOk = false ∧ docOk ctx (one "http://ex.org/vp") = true ∧
    spDoc ctx (one "http://ex.org/vp") (one "ex:p") = true ∧
    expandDoc (withContext ctx (one "ex:p")) = some (one "ex:p") := by
  decide +kernel

/-- CE8 a namespace that begins with another declared prefix — real: `p` is defined as
`http://ex.org/v#x:`, so `p:k` becomes `http://ex.org/v#x:k`, not `urn:x:k` -/
example : expandDoc (withContext ⟨[("urn", "http://ex.org/v#"), ("p", "urn:x:")], none, none⟩ (one "p:k")) =
    none := by decide +kernel

/-- CE9 a namespace that is not an absolute IRI — real: error `invalid IRI mapping: not an absolute
IRI: rel/` -/
example : expandDoc (withContext ⟨[("ex", "rel/")], none, none⟩ (one "ex:p")) = none := by decide +kernel

/-- CE10 a relative `@base` — real: error `invalid base IRI` -/
example : expandDoc (withContext ⟨[], some "rel/", none⟩ (oneId "a")) = none := by decide +kernel

/-- CE11 a relative `@vocab` — real: `p` becomes `rel/p`, which has no `:`: the property is dropped -/
example : expandDoc (withContext ⟨[], none, some "rel/"⟩ (one "p")) = none := by decide +kernel

/-! ### conditions on the IRIs of the document (all written in full below) -/

/-- CE12 an IRI whose text before the first `:` is a declared prefix name, not followed by `//` —
real: the id `urn:x:y` becomes `http://ex.org/v#x:y`.  The context is fine and writing in full is
always a spelling. -/
example :
    let ctx : Ctx := ⟨[("urn", "http://ex.org/v#")], none, none⟩
    ctx.spellOk = true ∧ iriOk ctx "urn:x:y" = false ∧
    spDoc ctx (oneId "urn:x:y") (oneId "urn:x:y") = true ∧
    expandDoc (withContext ctx (oneId "urn:x:y")) = some (oneId "http://ex.org/v#x:y") := by
  decide +kernel

/-- … whereas a prefix named `http` does no harm to `http://…` IRIs: `//` after the colon wins -/
example :
    let ctx : Ctx := ⟨[("http", "http://ex.org/v#")], none, none⟩
    ctx.spellOk = true ∧ iriOk ctx "http://ex.org/n/a" = true ∧ iriOk ctx "http:x" = false ∧
    expandDoc (withContext ctx (oneId "http://ex.org/n/a")) = some (oneId "http://ex.org/n/a") ∧
    expandDoc (withContext ctx (one "http:p")) = some (one "http://ex.org/v#p") := by
  decide +kernel

/-- CE13 an IRI starting with `:` under `@base` — real: error (Go cannot parse `:c` as a reference,
json-gold dereferences nil; the Go project recovers the panic) -/
example :
    let ctx : Ctx := ⟨[], some "http://ex.org/n/", none⟩
    ctx.spellOk = true ∧ iriOk ctx ":c" = false ∧ expandDoc (withContext ctx (oneTy ":c")) = none := by
  decide +kernel

/-- CE14 an id starting with `//`, even with an empty context — real: expansion leaves `//a:b/c`
alone and the final compaction against the empty base turns it into `b/c`; `absIri` itself excludes such ids
(also from the context-free fragment: `norm` answers `none`) -/
example :
    let ctx : Ctx := ⟨[], none, none⟩
    ctx.spellOk = true ∧ absIri "//a:b/c" = false ∧ iriOk ctx "//a:b/c" = false ∧
    expandDoc (withContext ctx (oneId "//a:b/c")) = none ∧ norm (oneId "//a:b/c") = none := by
  decide +kernel

/-- CE15 an IRI Go does not take for absolute, under `@base` — real: error (same nil dereference) -/
example :
    let ctx : Ctx := ⟨[], some "http://ex.org/n/", none⟩
    ctx.spellOk = true ∧ absIri "a b:c" = true ∧ iriOk ctx "a b:c" = false ∧
    expandDoc (withContext ctx (oneId "a b:c")) = none := by
  decide +kernel

/-- … and under `@vocab` — real: the key `a b:c` becomes `http://voc/a b:c` -/
example :
    let ctx : Ctx := ⟨[], none, some "http://voc/"⟩
    ctx.spellOk = true ∧ iriOk ctx "a b:c" = false ∧
    expandDoc (withContext ctx (one "a b:c")) = some (one "http://voc/a b:c") := by
  decide +kernel

/-- … while without `@base` and `@vocab` it does not matter: it stays -/
example :
    let ctx : Ctx := ⟨[("ex", "http://ex.org/v#")], none, none⟩
    iriOk ctx "a b:c" = true ∧ expandDoc (withContext ctx (one "a b:c")) = some (one "a b:c") := by
  decide +kernel

/-- CE16 an IRI that is not absolute at all (outside the context-free fragment) — real: the id `x`
becomes `http://ex.org/n/x` -/
example :
    let ctx : Ctx := ⟨[], some "http://ex.org/n/", none⟩
    iriOk ctx "x" = false ∧ expandDoc (withContext ctx (oneId "x")) = some (oneId "http://ex.org/n/x") := by
  decide +kernel

/-! ### the guards of the spelling relation -/

/-- CE17 `prefix:suffix` with a suffix starting with `//` is not a spelling — real: `ex://x` stays
`ex://x` -/
example :
    let ctx : Ctx := ⟨[("ex", "http://ex.org/")], none, none⟩
    ctx.spellOk = true ∧ iriOk ctx "http://ex.org///x" = true ∧
    spellV ctx "http://ex.org///x" "ex://x" = false ∧
    expandDoc (withContext ctx (one "ex://x")) = some (one "ex://x") := by
  decide +kernel

/-- … in the wording of `expand_spelling₀`: everything holds but `sufOk` -/
example :
    let ctx : Ctx := ⟨[("ex", "http://ex.org/")], none, none⟩
    ctx.spellOk = true ∧ docOk ctx (one "http://ex.org///x") = true ∧
    sufOk ctx "http://ex.org///x" = false ∧
    spDoc₀ ctx (one "http://ex.org///x") (one "ex://x") = true ∧
    expandDoc (withContext ctx (one "ex://x")) = some (one "ex://x") := by
  decide +kernel

/-- CE18 a remainder that is not one harmless segment is not a relative spelling — real: `a b`
becomes `http://ex.org/n/a%20b` (Go escapes), not `http://ex.org/n/a b` -/
example :
    let ctx : Ctx := ⟨[], some "http://ex.org/n/", none⟩
    ctx.spellOk = true ∧ spellId ctx "http://ex.org/n/a b" "a b" = false ∧
    expandDoc (withContext ctx (oneId "a b")) = none := by
  decide +kernel

/-- CE19 … nor is cutting off a base that is not a directory — real: against
`http://ex.org/n/doc` the reference `x` is `http://ex.org/n/x`, not `http://ex.org/n/docx` -/
example :
    let ctx : Ctx := ⟨[], some "http://ex.org/n/doc", none⟩
    ctx.spellOk = true ∧ iriOk ctx "http://ex.org/n/docx" = true ∧
    spellId ctx "http://ex.org/n/docx" "x" = false ∧
    expandDoc (withContext ctx (oneId "x")) = some (oneId "http://ex.org/n/x") := by
  decide +kernel

/-- … in the wording of `expand_spelling₀`: everything holds but `relOk` -/
example :
    let ctx : Ctx := ⟨[], some "http://ex.org/n/doc", none⟩
    ctx.spellOk = true ∧ docOk ctx (oneId "http://ex.org/n/docx") = true ∧
    relOk ctx "http://ex.org/n/docx" = false ∧
    spDoc₀ ctx (oneId "http://ex.org/n/docx") (oneId "x") = true ∧
    expandDoc (withContext ctx (oneId "x")) = some (oneId "http://ex.org/n/x") := by
  decide +kernel
/-- … and a directory base with a remainder that is not one harmless segment — real: `x/../y`
becomes `http://ex.org/n/y`, and `x#` becomes `http://ex.org/n/x` (Go drops an empty fragment) -/
example :
    let ctx : Ctx := ⟨[], some "http://ex.org/n/", none⟩
    ctx.spellOk = true ∧ iriOk ctx "http://ex.org/n/x/../y" = true ∧
    relOk ctx "http://ex.org/n/x/../y" = false ∧
    spDoc₀ ctx (oneId "http://ex.org/n/x/../y") (oneId "x/../y") = true ∧
    expandDoc (withContext ctx (oneId "x/../y")) = some (oneId "http://ex.org/n/y") ∧
    iriOk ctx "http://ex.org/n/x#" = true ∧ relOk ctx "http://ex.org/n/x#" = false ∧
    spDoc₀ ctx (oneId "http://ex.org/n/x#") (oneId "x#") = true ∧
    expandDoc (withContext ctx (oneId "x#")) = some (oneId "http://ex.org/n/x") := by
  decide +kernel

/-- CE20 a word that is a declared term is not a spelling relative to `@vocab` — real: the key `p`
becomes the term's IRI `http://other/`, not `http://voc/p` -/
example :
    let ctx : Ctx := ⟨[("p", "http://other/")], none, some "http://voc/"⟩
    ctx.spellOk = true ∧ iriOk ctx "http://voc/p" = true ∧ spellV ctx "http://voc/p" "p" = false ∧
    expandDoc (withContext ctx (one "p")) = some (one "http://other/") := by
  decide +kernel

/-- … nor is a word with a `:` — real: `a:b` is an absolute IRI and stays -/
example :
    let ctx : Ctx := ⟨[], none, some "http://voc/"⟩
    spellV ctx "http://voc/a:b" "a:b" = false ∧
    expandDoc (withContext ctx (one "a:b")) = some (one "a:b") := by
  decide +kernel

/-! ### things the real code does with contexts that stay outside the fragment -/

/-- a bare word as a key, without `@vocab`: the property is dropped (and with it the node, which
has nothing else) -/
example : expandDoc (withContext ⟨[("ex", "http://ex.org/v#")], none, none⟩ (one "p")) =
    some (.obj [("@id", .str "http://ex.org/n/a")]) := by decide +kernel
example : normC (withContext ⟨[("ex", "http://ex.org/v#")], none, none⟩ (one "p")) = some ⟨[]⟩ := by
  decide +kernel

/-- a bare word as a class, without `@vocab`: resolved against `@base` -/
example : expandDoc (withContext ⟨[], some "http://ex.org/n/", none⟩ (oneTy "T")) =
    some (oneTy "http://ex.org/n/T") := by decide +kernel

/-- dot segments, absolute paths, fragments; the empty reference is the base itself -/
example : (["../x", "./x", "/x", "x/../y/", "#f", "x#", "", ".."].map fun r =>
      expandId ⟨[], some "http://ex.org/n/m/doc", none⟩ r) =
    [some "http://ex.org/n/x", some "http://ex.org/n/m/x", some "http://ex.org/x",
     some "http://ex.org/n/m/y/", some "http://ex.org/n/m/doc#f", some "http://ex.org/n/m/x",
     some "http://ex.org/n/m/doc", some "http://ex.org/n/"] := by decide +kernel

/-- references the model refuses: query, escapes, spaces, `//host`, characters Go re-escapes -/
example : (["?q", "a%20b", "a b", "//h/x", "a*b/..", "é"].map fun r =>
      expandId ⟨[], some "http://ex.org/n/", none⟩ r) = [none, none, none, none, none, none] := by
  decide +kernel

/-- contexts the reader refuses -/
example : readCtx (.arr [.obj [("ex", .str "http://ex.org/v#")]]) = none ∧
    readCtx (.obj [("ex", .obj [("@id", .str "http://ex.org/v#")])]) = none ∧
    readCtx (.obj [("ex", .null)]) = none ∧
    readCtx (.obj [("@version", .num 1)]) = none ∧
    readCtx (.obj [("@language", .str "en")]) = none ∧
    readCtx (.obj [("id", .str "@id")]) = none ∧
    readCtx (.str "http://remote/context") = none := by decide +kernel

/-! ## Axioms -/

#print axioms normC_eq_norm_arr
#print axioms normC_eq_norm_obj
#print axioms normC_ser
#print axioms expand_spelling
#print axioms expand_spelling_obj
#print axioms norm_asGraph
#print axioms normC_spelling
#print axioms spellV_refl
#print axioms spellId_refl
#print axioms docOk_ser
#print axioms norm_ser_ctx
#print axioms norm_ser_ctx_doc
#print axioms expand_spelling₀
#print axioms norm_ser_ctx₀
#print axioms rendering_norm
#print axioms renderings_agree
#print axioms reserialisation_invariant_ctx
#print axioms normC_wellFormed

end Acv.C05
