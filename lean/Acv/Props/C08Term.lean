import Acv.Model.RegoTerm
import Acv.Lemmas.RegoTerm
import Acv.Gen.Tables
/-!
# C08 (term level) — a call to a denied operator is found at any depth

Impl-model: `mentionsDenied` is the walk that the Rego compiler performs for `rego.UnsafeBuiltins`
on the term language of `Acv.Model.RegoTerm` (calls — including assignments and infix expressions —,
collections, comprehensions, any nesting).  `accept deny body` = the body compiles.

* `denied_with_binding_found` / `denied_with_binding_rejected`: an operator that is never called by name but bound to
  another function by `… with f as op` is found too (the engine refuses it: "target must not be unsafe");
* `denied_subterm_found` / `denied_call_rejected`: wherever a call `op(args)` with `op ∈ deny` occurs —
  a statement of its own, the right-hand side of an assignment, an argument of an argument of a call,
  an item of a collection, the head or the body of a comprehension, at any depth — the body is rejected;
* `mentions_only_denied_calls` / `accept_iff`: and only then (the walk reports nothing else);
* `contexts_reach_every_occurrence`: one-hole contexts and the sub-term relation describe the same
  positions, so the quantification over contexts leaves no position out.
-/
namespace Acv.C08Term
open Acv.RegoTerm

/-- If a USE of a denied operator — a call `op(args)`, or a binding `… with f as op` — is a sub-term of `t` (at any
depth), the walk finds it. -/
theorem denied_use_found (deny : List String) {op : String} {u t : T}
    (hop : op ∈ deny) (hu : u.usesOp op = true) (h : Sub u t) : mentionsDenied deny t = true := by
  induction h with
  | refl =>
    cases u with
    | call o args => simp [T.usesOp] at hu; subst hu; simp [mentionsDenied, hop]
    | withFn b tg fn => simp [T.usesOp] at hu; subst hu; simp [mentionsDenied, hop]
    | var _ => simp [T.usesOp] at hu
    | lit => simp [T.usesOp] at hu
    | coll _ => simp [T.usesOp] at hu
    | compr _ _ => simp [T.usesOp] at hu
    | withVal _ _ _ => simp [T.usesOp] at hu
  | arg op' hm _ ih => simp [mentionsDenied, mentionsDeniedList_of_mem deny hm ih]
  | item hm _ ih => simp [mentionsDenied, mentionsDeniedList_of_mem deny hm ih]
  | head body _ ih => simp [mentionsDenied, ih]
  | body hd hm _ ih => simp [mentionsDenied, mentionsDeniedList_of_mem deny hm ih]
  | wvBody target value _ ih => simp [mentionsDenied, ih]
  | wvValue t target _ ih => simp [mentionsDenied, ih]
  | wfBody target fn _ ih => simp [mentionsDenied, ih]

/-- If a call to a denied operator is a sub-term of `t` (at any depth), the walk finds it. -/
theorem denied_subterm_found (deny : List String) {op : String} {args : List T} {t : T}
    (hop : op ∈ deny) (h : Sub (.call op args) t) : mentionsDenied deny t = true :=
  denied_use_found deny hop (by simp [T.usesOp]) h

/-- A denied operator that is never called by name but bound to another function with a `with` modifier — in any
statement, at any depth — is found as well. -/
theorem denied_with_binding_found (deny : List String) {op : String} (hop : op ∈ deny)
    (c : Ctx) (body : T) (target : String) : mentionsDenied deny (plug c (.withFn body target op)) = true :=
  denied_use_found deny hop (by simp [T.usesOp]) (sub_plug _ c)

theorem denied_with_binding_rejected (deny : List String) {op : String} (hop : op ∈ deny)
    (c : Ctx) (body : T) (target : String) (pre post : List T) :
    accept deny (pre ++ plug c (.withFn body target op) :: post) = false := by
  simp only [accept, Bool.not_eq_false', List.any_eq_true]
  exact ⟨_, by simp, denied_with_binding_found deny hop c body target⟩

/-- The same through contexts: a denied call plugged into ANY one-hole context is found. -/
theorem denied_in_context_found (deny : List String) {op : String} (hop : op ∈ deny)
    (c : Ctx) (args : List T) : mentionsDenied deny (plug c (.call op args)) = true :=
  denied_subterm_found deny hop (sub_plug _ c)

/-- A rule body with a call to a denied operator in any statement, in any context (statement,
assignment, comprehension, nested call arguments, …), at any depth, is rejected. -/
theorem denied_call_rejected (deny : List String) {op : String} (hop : op ∈ deny)
    (c : Ctx) (args : List T) (pre post : List T) :
    accept deny (pre ++ plug c (.call op args) :: post) = false := by
  simp only [accept, Bool.not_eq_false', List.any_eq_true]
  exact ⟨_, by simp, denied_in_context_found deny hop c args⟩

/-- Sub-term form of the same: a body one of whose statements contains a denied call is rejected. -/
theorem denied_subterm_rejected (deny : List String) {op : String} (hop : op ∈ deny)
    {args : List T} {stmt : T} {body : List T} (hs : stmt ∈ body) (h : Sub (.call op args) stmt) :
    accept deny body = false := by
  simp only [accept, Bool.not_eq_false', List.any_eq_true]
  exact ⟨stmt, hs, denied_subterm_found deny hop h⟩

/-- Conversely the walk reports only actual uses (calls or `with … as op` bindings) of denied operators. -/
theorem mentions_only_denied_calls (deny : List String) (t : T) (h : mentionsDenied deny t = true) :
    ∃ op u, op ∈ deny ∧ u.usesOp op = true ∧ Sub u t := sub_of_mentions deny t h

/-- Exact characterisation of acceptance: no statement contains a use of a denied operator. -/
theorem accept_iff (deny : List String) (body : List T) :
    accept deny body = true ↔
      ∀ stmt ∈ body, ∀ op u, u.usesOp op = true → Sub u stmt → op ∉ deny := by
  constructor
  · intro h stmt hs op u hu hsub hop
    have : accept deny body = false := by
      simp only [accept, Bool.not_eq_false', List.any_eq_true]
      exact ⟨stmt, hs, denied_use_found deny hop hu hsub⟩
    rw [this] at h
    exact Bool.noConfusion h
  · intro h
    cases hacc : accept deny body with
    | true => rfl
    | false =>
      simp only [accept, Bool.not_eq_false', List.any_eq_true] at hacc
      obtain ⟨stmt, hs, hm⟩ := hacc
      obtain ⟨op, u, hop, hu, hsub⟩ := sub_of_mentions deny stmt hm
      exact absurd hop (h stmt hs op u hu hsub)

/-- Contexts and the sub-term relation describe the same positions. -/
theorem contexts_reach_every_occurrence (s t : T) : Sub s t ↔ ∃ c : Ctx, plug c s = t :=
  ⟨plug_of_sub, fun ⟨c, hc⟩ => hc ▸ sub_plug s c⟩

/-- Instance for the deny-list the implementation hands to the compiler (whatever it contains). -/
theorem denyList_call_rejected {op : String} (hop : op ∈ Acv.Gen.denyList)
    (c : Ctx) (args : List T) (pre post : List T) :
    accept Acv.Gen.denyList (pre ++ plug c (.call op args) :: post) = false :=
  denied_call_rejected _ hop c args pre post

/-! ### non-vacuity -/

def deny0 : List String := ["http.send", "net.lookup_ip_addr"]

/-- `x := [y | y := count([1, http.send({})])]` — assignment, comprehension body, nested arguments. -/
def deep : T :=
  .call "assign" [.var "x",
    .compr (.var "y") [.call "assign" [.var "y", .call "count" [.coll [.lit, .call "http.send" [.coll []]]]]]]

/-- The context of the `http.send` call in `deep`: depth 5. -/
def deepCtx : Ctx :=
  .callArg "assign" [.var "x"]
    (.comprBody (.var "y") []
      (.callArg "assign" [.var "y"] (.callArg "count" [] (.collItem [.lit] .hole []) []) []) []) []

example : plug deepCtx (.call "http.send" [.coll []]) = deep := rfl
example : deepCtx.depth = 5 := by decide
example : mentionsDenied deny0 deep = true := by decide
example : accept deny0 [.call "eq" [.var "a", .lit], deep] = false := by decide
example : accept deny0 [.call "eq" [.var "a", .lit], deep] = false :=
  denied_call_rejected deny0 (by decide) deepCtx _ [_] []
example : accept deny0 [.call "eq" [.var "a", .call "count" [.var "b"]]] = true := by decide
-- a variable NAMED like a denied operator is not a call
example : accept deny0 [.call "eq" [.var "http.send", .lit]] = true := by decide
-- head of a comprehension
example : accept deny0 [.compr (.call "net.lookup_ip_addr" [.lit]) []] = false := by decide
example : accept Acv.Gen.denyList [deep] = false := by decide
-- `size := count(req) with count as http.send`: no call of http.send anywhere, rejected all the same
example : accept deny0 [.call "assign" [.var "size", .withFn (.call "count" [.var "req"]) "count" "http.send"]] = false := by decide
-- … also for a user function, inside a comprehension
example : accept deny0 [.compr (.var "y") [.withFn (.call "data.p.fetch" [.var "r"]) "data.p.fetch" "net.lookup_ip_addr"]] = false := by decide
-- mocking a VALUE, or binding a harmless function, is fine
example : accept deny0 [.withVal (.call "eq" [.var "a", .lit]) "input.x" .lit, .withFn (.call "count" [.var "b"]) "count" "sum"] = true := by decide

end Acv.C08Term

#print axioms Acv.C08Term.denied_use_found
#print axioms Acv.C08Term.denied_with_binding_found
#print axioms Acv.C08Term.denied_with_binding_rejected
#print axioms Acv.C08Term.denied_subterm_found
#print axioms Acv.C08Term.denied_in_context_found
#print axioms Acv.C08Term.denied_call_rejected
#print axioms Acv.C08Term.denied_subterm_rejected
#print axioms Acv.C08Term.mentions_only_denied_calls
#print axioms Acv.C08Term.accept_iff
#print axioms Acv.C08Term.contexts_reach_every_occurrence
#print axioms Acv.C08Term.denyList_call_rejected
