import Acv.Props.C01
/-!
# C01 (second half) — when is each documented atom "classical"?

`compile_correct` needs the negated twin of every atom to be the complement of the un-negated snippet.
The cardinality atoms always are (`C01.count_classical`).  The per-value atoms are complementary exactly
on single-valued properties; the set atoms whenever the property has a value; property comparisons when
both properties have one value.  On other graphs the generated twins mean "some value is (not) ok", which
the goldens of the repository pin; there the verdict is the literal one (`Atom.fails`), still tied to the
code by the correspondence.
-/
namespace Acv.C01
open Acv

theorem anyVal_singleton (v : Item) (ok : Item → Bool) :
    anyVal true [v] ok = !anyVal false [v] ok := by
  simp [anyVal]

/-- `in` on a single-valued property -/
theorem in_classical (g : Graph) (p : Path) (vals : List String) (n : Node) (v : Item)
    (h : valueSet g p n = [v]) :
    (Atom.inSet p vals).fails g true n = !(Atom.inSet p vals).fails g false n := by
  simp [Atom.fails, h, anyVal]

theorem numeric_classical (g : Graph) (op : Dnf.Op) (p : Path) (arg : Int) (n : Node) (v : Item)
    (h : valueSet g p n = [v]) :
    (Atom.numeric op p arg).fails g true n = !(Atom.numeric op p arg).fails g false n := by
  simp [Atom.fails, h, anyVal]

theorem datatype_classical (g : Graph) (p : Path) (dt : String) (n : Node) (v : Item)
    (h : valueSet g p n = [v]) :
    (Atom.datatype p dt).fails g true n = !(Atom.datatype p dt).fails g false n := by
  simp [Atom.fails, h, anyVal]

/-- lengths: single-valued AND the value has a length (a string or a link) -/
theorem length_classical (g : Graph) (k : CountKind) (p : Path) (arg : Nat) (n : Node) (v : Item) (l : Nat)
    (h : valueSet g p n = [v]) (hl : v.count? = some l) :
    (Atom.length k p arg).fails g true n = !(Atom.length k p arg).fails g false n := by
  simp [Atom.fails, h, lenFires, hl]

/-- patterns: single-valued string property -/
theorem pattern_classical (g : Graph) (p : Path) (a e : Bool) (lit s : String) (n : Node)
    (h : valueSet g p n = [Item.lit (.str s)]) :
    (Atom.pattern p a e lit).fails g true n = !(Atom.pattern p a e lit).fails g false n := by
  simp [Atom.fails, h, patternOk]

/-- containsAll / containsSome: whenever the property has at least one value -/
theorem containsAll_classical (g : Graph) (p : Path) (vals : List String) (n : Node)
    (h : valueSet g p n ≠ []) :
    (Atom.containsAll p vals).fails g true n = !(Atom.containsAll p vals).fails g false n := by
  have : ((valueSet g p n).map Item.asString).isEmpty = false := by
    cases hv : valueSet g p n with
    | nil => exact absurd hv h
    | cons _ _ => simp
  simp [Atom.fails, this]

theorem containsSome_classical (g : Graph) (p : Path) (vals : List String) (n : Node)
    (h : valueSet g p n ≠ []) :
    (Atom.containsSome p vals).fails g true n = !(Atom.containsSome p vals).fails g false n := by
  have : ((valueSet g p n).map Item.asString).isEmpty = false := by
    cases hv : valueSet g p n with
    | nil => exact absurd hv h
    | cons _ _ => simp
  simp [Atom.fails, this]

/-- property comparisons: one value on each side -/
theorem propCmp_classical (g : Graph) (op : Dnf.Op) (p q : Path) (n : Node) (a b : Item)
    (hp : valueSet g p n = [a]) (hq : valueSet g q n = [b]) :
    (Atom.propCmp op p q).fails g true n = !(Atom.propCmp op p q).fails g false n := by
  simp [Atom.fails, hp, hq]

/-- uniqueValues is classical on every graph -/
theorem uniqueValues_classical (g : Graph) (p : Path) (arg : Bool) (n : Node) :
    (Atom.uniqueValues p arg).fails g true n = !(Atom.uniqueValues p arg).fails g false n := by
  cases arg <;> simp [Atom.fails]

/-- the boundary is real: on a two-valued property `in` and its twin both fire -/
theorem in_not_classical_on_two_values :
    ∃ (g : Graph) (n : Node), (Atom.inSet (.prop "p" false) ["a"]).fails g true n = true ∧
      (Atom.inSet (.prop "p" false) ["a"]).fails g false n = true :=
  ⟨[⟨"n", [], [("p", [.str "a", .str "b"])]⟩], ⟨"n", [], [("p", [.str "a", .str "b"])]⟩, by decide, by decide⟩

end Acv.C01
