import Acv.Gen.PathGrammar
import Acv.Lemmas.Peg
/-!
# C16: the path parser accepts exactly whole strings

The grammar table of the generated parser (`Acv.Gen.pathGrammarGo`, extracted from `peg.go`) is
interpreted by `Acv.run` (`Acv/Model/Peg.lean`), an executable model of the pigeon runtime.
-/
namespace Acv.C16
open Acv Acv.Gen

/-! ## 1. The documented grammar and the generated table are the same grammar -/

theorem doc_eq_table : pathGrammarPeg = pathGrammarGo := rfl

/-! ## 2. A grammar whose start rule ends with `EOF <- !.` accepts only whole strings -/

def isNotAny : Option PE → Bool
  | some (.notp .any) => true
  | _ => false

/-- the last element of the sequence is a reference to a rule that is exactly `!.` -/
def lastIsEOF (g : Grammar) (es : List PE) : Bool :=
  match es.getLast? with
  | some (.ref n) => isNotAny (g.find n)
  | _ => false

def bodyEndsEOF (g : Grammar) : PE → Bool
  | .action _ (.seq es) => lastIsEOF g es
  | .seq es => lastIsEOF g es
  | _ => false

/-- decidable structural check: the start rule is `seq es` or `action _ (seq es)` and the last
element of `es` refers to a rule `!.` -/
def endsWithEOF (g : Grammar) : Bool :=
  match g.rules with
  | [] => false
  | (name, _) :: _ =>
    match g.find name with
    | some body => bodyEndsEOF g body
    | none => false

theorem lastIsEOF_sound {g : Grammar} {es : List PE} (h : lastIsEOF g es = true)
    {n fr s vs fr' r} (hr : runSeq g n es fr s = .ok (vs, fr', r)) : r = [] := by
  unfold lastIsEOF at h
  split at h
  · rename_i nm hl
    obtain ⟨n', fr0, s0, v, hrun⟩ := runSeq_last es n fr s vs fr' r _ hr hl
    cases n' with
    | zero => simp [run_zero] at hrun
    | succ n' =>
      rw [run_ref] at hrun
      unfold isNotAny at h
      split at h
      · rename_i hf
        simp only [hf] at hrun
        rcases hb : run g n' (.notp .any) [] s0 with _ | _ | _ | ⟨v', fr1, r1⟩ <;>
          simp only [hb] at hrun <;> try (cases hrun; done)
        have := (notAny_ok hb).2
        simp only [Res.ok.injEq, Prod.mk.injEq] at hrun this
        rw [← hrun.2.2, this.2.2]
      · cases h
  · cases h

theorem bodyEndsEOF_sound {g : Grammar} {body : PE} (h : bodyEndsEOF g body = true)
    {n fr s v fr' r} (hr : run g n body fr s = .ok (v, fr', r)) : r = [] := by
  cases n with
  | zero => simp [run_zero] at hr
  | succ n =>
    unfold bodyEndsEOF at h
    split at h
    · rename_i a es
      rw [run_action] at hr
      rcases hb : run g n (.seq es) fr s with _ | _ | _ | ⟨v1, fr1, r1⟩ <;>
        simp only [hb] at hr <;> try (cases hr; done)
      cases n with
      | zero => simp [run_zero] at hb
      | succ n =>
        rw [run_seq] at hb
        rcases hs : runSeq g n es fr s with _ | _ | _ | ⟨vs, fr2, r2⟩ <;>
          simp only [hs] at hb <;> try (cases hb; done)
        have h0 := lastIsEOF_sound h hs
        simp only [Res.ok.injEq, Prod.mk.injEq] at hb
        cases hact : act a fr1 <;> simp only [hact] at hr
        · cases hr
        · simp only [Res.ok.injEq, Prod.mk.injEq] at hr
          rw [← hr.2.2, ← hb.2.2, h0]
    · rename_i es
      rw [run_seq] at hr
      rcases hs : runSeq g n es fr s with _ | _ | _ | ⟨vs, fr2, r2⟩ <;>
        simp only [hs] at hr <;> try (cases hr; done)
      have h0 := lastIsEOF_sound h hs
      simp only [Res.ok.injEq, Prod.mk.injEq] at hr
      rw [← hr.2.2, h0]
    · cases h

/-- whenever the start rule of such a grammar succeeds, nothing of the input is left -/
theorem runStart_whole (g : Grammar) (h : endsWithEOF g = true) (fuel : Nat) (s : List Char)
    {v fr r} (hr : runStart g fuel s = .ok (v, fr, r)) : r = [] := by
  unfold endsWithEOF at h
  unfold runStart at hr
  split at h
  · cases h
  · rename_i name _ _ hrules
    simp only [hrules] at hr
    split at h
    · rename_i body hf
      cases fuel with
      | zero => simp [run_zero] at hr
      | succ n =>
        rw [run_ref] at hr
        simp only [hf] at hr
        rcases hb : run g n body [] s with _ | _ | _ | ⟨v1, fr1, r1⟩ <;>
          simp only [hb] at hr <;> try (cases hr; done)
        simp only [Res.ok.injEq, Prod.mk.injEq] at hr
        rw [← hr.2.2]
        exact bodyEndsEOF_sound h hb
    · cases h

/-- `parsePath g s = some p` means that the start rule matched **the entire string** `s`:
`parseFull` returns the AST together with the unconsumed input, and that is empty. -/
theorem accepts_whole (g : Grammar) (h : endsWithEOF g = true) (s : List Char) (p : PAst) :
    parsePath g s = some p → parseFull g s = some (p, []) := by
  intro hp
  unfold parsePath at hp
  cases hf : parseFull g s with
  | none => simp [hf] at hp
  | some pr =>
    obtain ⟨p', r⟩ := pr
    simp only [hf, Option.some.injEq] at hp
    subst hp
    unfold parseFull at hf
    split at hf
    · rename_i p'' fr r' hrun
      have := runStart_whole g h _ s hrun
      simp only [Option.some.injEq, Prod.mk.injEq] at hf
      rw [← hf.1, ← hf.2, this]
    · cases hf

theorem table_endsWithEOF : endsWithEOF pathGrammarGo = true := by decide

/-! ## 3. Without the `EOF` rule the parser silently truncates -/

/-- the grammar before the fix: no `Path <- _ Expression _ EOF` wrapper and no `EOF` rule, the start
rule is `Expression` -/
def oldGrammar : Grammar := ⟨(pathGrammarGo.rules.drop 1).dropLast⟩

/-- `ex.a ) junk` -/
def junkInput : List Char :=
  [Char.ofNat 101, Char.ofNat 120, Char.ofNat 46, Char.ofNat 97, Char.ofNat 32, Char.ofNat 41,
   Char.ofNat 32, Char.ofNat 106, Char.ofNat 117, Char.ofNat 110, Char.ofNat 107]

theorem old_not_endsWithEOF : endsWithEOF oldGrammar = false := by decide

theorem old_truncates_witness :
    parseFull oldGrammar junkInput =
      some (.iri [Char.ofNat 101, Char.ofNat 120, Char.ofNat 46, Char.ofNat 97] false false,
            [Char.ofNat 41, Char.ofNat 32, Char.ofNat 106, Char.ofNat 117, Char.ofNat 110, Char.ofNat 107]) := by
  rfl

/-- the old grammar accepts `ex.a ) junk`, returns `ex.a` and leaves `) junk` unread -/
theorem old_truncates :
    ∃ s p r, parsePath oldGrammar s = some p ∧ parseFull oldGrammar s = some (p, r) ∧ r ≠ [] :=
  ⟨junkInput, _, _, by rfl, old_truncates_witness, by simp⟩

/-- … and the fixed grammar rejects that input -/
theorem new_rejects_junk : parsePath pathGrammarGo junkInput = none := by rfl


/-! ## 4. Every well-formed path tree is the parse of its canonical text -/

theorem table_isPath : IsPathGrammar pathGrammarGo :=
  ⟨⟨_, _, rfl⟩, by rfl, by rfl, by rfl, by rfl, by rfl, by rfl, by rfl⟩

/-- text of an IRI node: value, then `^` if inverse, then `*` if transitive -/
def iriText (v : List Char) (i t : Bool) : List Char :=
  v ++ ((if i then [chCaret] else []) ++ (if t then [chStar] else []))

def paren (b : Bool) (x : List Char) : List Char :=
  if b then chLParen :: (x ++ [chRParen]) else x

mutual
/-- canonical text at nesting level `l`: 0 = `Expression`, 1 = `Term`, 2 = `Factor`.
`and` parts are joined by `" / "`, `or` parts by `" | "`; an `and` below the expression level and an
`or` below the term level are parenthesised (`|` binds tighter than `/`). -/
def renderAt : Nat → PAst → List Char
  | _, .iri v i t => iriText v i t
  | l, .and b => paren (decide (1 ≤ l)) (renderList chSlash 1 b)
  | l, .or b => paren (decide (2 ≤ l)) (renderList chBar 2 b)
def renderList (op : Char) (l : Nat) : List PAst → List Char
  | [] => []
  | p :: ps => renderAt l p ++ renderTail op l ps
def renderTail (op : Char) (l : Nat) : List PAst → List Char
  | [] => []
  | p :: ps => chSpace :: op :: chSpace :: (renderAt l p ++ renderTail op l ps)
end

def render (p : PAst) : List Char := renderAt 0 p

/-- an IRI the grammar can produce: `@type`, or `ns.prop` with `ns ∈ [a-zA-Z0-9_-]+`,
`prop ∈ [.\\/a-zA-Z0-9_-]+` and at most one of the two modifiers -/
def wfIri (v : List Char) (i t : Bool) : Bool :=
  (v == atType && !i && !t) ||
  (!(v.takeWhile isNs).isEmpty &&
    (match v.dropWhile isNs with
     | d :: prop => d == chDot && !prop.isEmpty && prop.all isProp
     | [] => false) &&
    !(i && t))

mutual
/-- well-formed trees: well-formed IRIs, and every `and`/`or` has at least two parts -/
def wfAst : PAst → Bool
  | .iri v i t => wfIri v i t
  | .and b => decide (2 ≤ b.length) && wfList b
  | .or b => decide (2 ≤ b.length) && wfList b
def wfList : List PAst → Bool
  | [] => true
  | p :: ps => wfAst p && wfList ps
end

def WFAst (p : PAst) : Prop := wfAst p = true

instance (p : PAst) : Decidable (WFAst p) := inferInstanceAs (Decidable (wfAst p = true))

theorem wfList_mem {b : List PAst} (h : wfList b = true) : ∀ p ∈ b, wfAst p = true := by
  induction b with
  | nil => intro p hp; cases hp
  | cons q qs ih =>
    simp only [wfList, Bool.and_eq_true] at h
    intro p hp
    rcases List.mem_cons.1 hp with hp | hp
    · rw [hp]; exact h.1
    · exact ih h.2 p hp

theorem wfIri_spec {v : List Char} {i t : Bool} (h : wfIri v i t = true) :
    (v = atType ∧ i = false ∧ t = false) ∨
    (∃ ns prop, v = ns ++ chDot :: prop ∧ ns ≠ [] ∧ (∀ c ∈ ns, isNs c = true) ∧ prop ≠ [] ∧
      (∀ c ∈ prop, isProp c = true) ∧ (i && t) = false) := by
  unfold wfIri at h
  rcases Bool.or_eq_true _ _ ▸ h with h | h
  · left
    simp only [Bool.and_eq_true, beq_iff_eq, Bool.not_eq_true'] at h
    exact ⟨h.1.1, h.1.2, h.2⟩
  · right
    simp only [Bool.and_eq_true, Bool.not_eq_true'] at h
    obtain ⟨⟨hns, hm⟩, hit⟩ := h
    split at hm
    · rename_i d prop hd
      simp only [Bool.and_eq_true, beq_iff_eq, Bool.not_eq_true', List.all_eq_true] at hm
      obtain ⟨⟨hd', hpne⟩, hpall⟩ := hm
      subst hd'
      refine ⟨v.takeWhile isNs, prop, ?_, ?_, ?_, ?_, hpall, hit⟩
      · rw [← hd, List.takeWhile_append_dropWhile]
      · intro e; rw [e] at hns; simp at hns
      · intro c hc; exact List.all_eq_true.1 List.all_takeWhile c hc
      · intro e; rw [e] at hpne; simp at hpne
    · cases hm

mutual
theorem PAst.ind {P : PAst → Prop} (hiri : ∀ v i t, P (.iri v i t))
    (hand : ∀ b, (∀ p ∈ b, P p) → P (.and b)) (hor : ∀ b, (∀ p ∈ b, P p) → P (.or b)) : ∀ p, P p
  | .iri v i t => hiri v i t
  | .and b => hand b (PAst.indList hiri hand hor b)
  | .or b => hor b (PAst.indList hiri hand hor b)
theorem PAst.indList {P : PAst → Prop} (hiri : ∀ v i t, P (.iri v i t))
    (hand : ∀ b, (∀ p ∈ b, P p) → P (.and b)) (hor : ∀ b, (∀ p ∈ b, P p) → P (.or b)) :
    ∀ b : List PAst, ∀ p ∈ b, P p
  | [], _, h => by cases h
  | q :: qs, p, h => by
    rcases List.mem_cons.1 h with h | h
    · rw [h]; exact PAst.ind hiri hand hor q
    · exact PAst.indList hiri hand hor qs p h
end

theorem renderTail_eq (op : Char) (l : Nat) (ps : List PAst) :
    renderTail op l ps = joinTail op (ps.map (fun q => (q, renderAt l q))) := by
  induction ps with
  | nil => simp [renderTail, joinTail]
  | cons p ps ih => simp [renderTail, joinTail, ih]

abbrev opsF : List Char := [chSlash, chBar]
abbrev opsT : List Char := [chSlash]
abbrev opsE : List Char := []

/-- the three levels of the grammar agree with the three levels of `renderAt` -/
def Good (g : Grammar) (p : PAst) : Prop :=
  (∀ l, StartsNoWs (renderAt l p)) ∧
  ItemOK g (.ref "Factor") opsF 0 p (renderAt 2 p) ∧
  ItemOK g (.ref "Term") opsT 15 p (renderAt 1 p) ∧
  ItemOK g (.ref "Expression") opsE 30 p (renderAt 0 p)

section levels
variable {g : Grammar}

theorem term_of_items (hg : IsPathGrammar g) (x0 : PAst) (r0 : List Char)
    (h0 : ItemOK g (.ref "Factor") opsF 0 x0 r0) (items : List (PAst × List Char))
    (hall : ∀ it ∈ items, ItemOK g (.ref "Factor") opsF 0 it.1 it.2 ∧ StartsNoWs it.2) :
    ItemOK g (.ref "Term") opsT 15 (mkNode PAst.or x0 (items.map (·.1))) (r0 ++ joinTail chBar items) :=
  ok_list_rule hg (A := "Term1") (mk := PAst.or) (op := chBar) (ops := opsF) (ops' := opsT) (D := 0)
    hg.term (fun _ => rfl) (by decide) (by decide) (by simp)
    (by intro o ho; simp only [List.mem_singleton] at ho; subst ho; simp)
    (by intro o ho; simp only [List.mem_singleton] at ho; subst ho; decide)
    (by intro o ho; simp only [List.mem_singleton] at ho; subst ho; decide)
    x0 r0 h0 items hall

theorem expr_of_items (hg : IsPathGrammar g) (x0 : PAst) (r0 : List Char)
    (h0 : ItemOK g (.ref "Term") opsT 15 x0 r0) (items : List (PAst × List Char))
    (hall : ∀ it ∈ items, ItemOK g (.ref "Term") opsT 15 it.1 it.2 ∧ StartsNoWs it.2) :
    ItemOK g (.ref "Expression") opsE 30 (mkNode PAst.and x0 (items.map (·.1)))
      (r0 ++ joinTail chSlash items) :=
  ok_list_rule hg (A := "Expression1") (mk := PAst.and) (op := chSlash) (ops := opsT) (ops' := opsE) (D := 15)
    hg.expr (fun _ => rfl) (by decide) (by decide) (by simp)
    (by intro o ho; cases ho) (by intro o ho; cases ho) (by intro o ho; cases ho)
    x0 r0 h0 items hall

theorem term_of_factor (hg : IsPathGrammar g) {x : PAst} {r : List Char}
    (h : ItemOK g (.ref "Factor") opsF 0 x r) : ItemOK g (.ref "Term") opsT 15 x r := by
  have := term_of_items hg x r h [] (by intro it hit; cases hit)
  simpa [joinTail, mkNode] using this

theorem expr_of_term (hg : IsPathGrammar g) {x : PAst} {r : List Char}
    (h : ItemOK g (.ref "Term") opsT 15 x r) : ItemOK g (.ref "Expression") opsE 30 x r := by
  have := expr_of_items hg x r h [] (by intro it hit; cases hit)
  simpa [joinTail, mkNode] using this

/-- `( x )` is a factor when `x` is an expression -/
theorem factor_of_expr (hg : IsPathGrammar g) {x : PAst} {r : List Char} (hs : StartsNoWs r)
    (h : ItemOK g (.ref "Expression") opsE 30 x r) :
    ItemOK g (.ref "Factor") opsF 0 x (chLParen :: (r ++ [chRParen])) := by
  intro fr rest _
  obtain ⟨rest', hrem, hrun⟩ := h [] (chRParen :: rest) (Or.inl rfl)
  have := Rem_rparen hrem
  subst this
  refine ⟨rest, Or.inl rfl, ?_⟩
  have := ok_factor_paren hg rest hs hrun fr
  have e : (chLParen :: (r ++ [chRParen])) ++ rest = chLParen :: (r ++ chRParen :: rest) := by simp
  rw [e]
  exact this.mono (by simp only [List.length_cons, List.length_append, List.length_nil]; omega)


theorem StartsNoWs.append {r : List Char} (h : StartsNoWs r) (s : List Char) : StartsNoWs (r ++ s) := by
  obtain ⟨c, r', rfl, hc⟩ := h
  exact ⟨c, r' ++ s, rfl, hc⟩

theorem hnwF : ∀ o ∈ opsF, isWs o = false := by
  intro o ho
  simp only [List.mem_cons, List.mem_nil_iff, or_false] at ho
  rcases ho with ho | ho <;> subst ho <;> decide

theorem hnmF : ∀ o ∈ opsF, isMod o = false := by
  intro o ho
  simp only [List.mem_cons, List.mem_nil_iff, or_false] at ho
  rcases ho with ho | ho <;> subst ho <;> decide

theorem iri_starts {v i t} (h : wfIri v i t = true) : StartsNoWs (iriText v i t) := by
  rcases wfIri_spec h with ⟨rfl, _, _⟩ | ⟨ns, prop, rfl, hns, hnsc, _, _, _⟩
  · exact ⟨Char.ofNat 64, _, rfl, by decide⟩
  · cases ns with
    | nil => exact absurd rfl hns
    | cons c ns' => exact ⟨c, _, rfl, isNs_not_ws (hnsc c (by simp))⟩

theorem factor_iri (hg : IsPathGrammar g) {v i t} (h : wfIri v i t = true) :
    ItemOK g (.ref "Factor") opsF 0 (.iri v i t) (iriText v i t) := by
  rcases wfIri_spec h with ⟨rfl, rfl, rfl⟩ | ⟨ns, prop, rfl, hns, hnsc, hp, hpc, hit⟩
  · intro fr rest _
    exact ⟨rest, Or.inl rfl, (ok_factor_type hg rest fr).mono (by decide)⟩
  · have hhead : ∀ s, HeadNe chLParen (ns ++ s) := by
      intro s
      cases ns with
      | nil => exact absurd rfl hns
      | cons c ns' => exact fun e => isNs_ne (hnsc c (by simp)) (by decide) e.symm
    intro fr rest hf
    cases i <;> cases t
    · -- no modifier: the rule also eats the blank that follows
      obtain ⟨ws, tl, hrest, hws, hlen, hnws, hrem, hshape⟩ := Fol.split hnwF hf (Or.inl rfl)
      subst hrest
      have hmod : HeadNot isMod tl := by
        rcases hshape with h | ⟨r, h⟩ | ⟨o, r, h, ho⟩
        · subst h; trivial
        · subst h; show isMod chRParen = false; decide
        · subst h; exact hnmF o ho
      have hopt := ok_opt_none (g := g) (fr := []) (fail_cls (fr := []) hmod)
      have hiri := ok_iri_gen hg hns hnsc hp hpc hws tl tl .nil false false hopt rfl rfl hnws
        hf.headNotProp []
      have hfac := ok_factor_of_iri hg (hhead _) hiri fr
      refine ⟨tl, hrem, ?_⟩
      have e : iriText (ns ++ chDot :: prop) false false ++ (ws ++ tl)
          = ns ++ chDot :: (prop ++ (ws ++ tl)) := by simp [iriText]
      rw [e]
      exact hfac.mono (by simp [iriText]; omega)
    · -- transitive
      have hopt := ok_opt_some (g := g) (fr := [])
        (ok_cls (g := g) (fr := []) (r := rest) (show isMod chStar = true by decide))
      have hiri := ok_iri_gen hg hns hnsc hp hpc (ws := []) (by simp) (chStar :: rest) rest
        (.chars [chStar]) false true hopt (by decide) (by decide)
        (show isWs chStar = false by decide) (show isProp chStar = false by decide) []
      have hfac := ok_factor_of_iri hg (hhead _) hiri fr
      refine ⟨rest, Or.inl rfl, ?_⟩
      have e : iriText (ns ++ chDot :: prop) false true ++ rest
          = ns ++ chDot :: (prop ++ ([] ++ chStar :: rest)) := by simp [iriText]
      rw [e]
      exact hfac.mono (by simp [iriText]; omega)
    · -- inverse
      have hopt := ok_opt_some (g := g) (fr := [])
        (ok_cls (g := g) (fr := []) (r := rest) (show isMod chCaret = true by decide))
      have hiri := ok_iri_gen hg hns hnsc hp hpc (ws := []) (by simp) (chCaret :: rest) rest
        (.chars [chCaret]) true false hopt (by decide) (by decide)
        (show isWs chCaret = false by decide) (show isProp chCaret = false by decide) []
      have hfac := ok_factor_of_iri hg (hhead _) hiri fr
      refine ⟨rest, Or.inl rfl, ?_⟩
      have e : iriText (ns ++ chDot :: prop) true false ++ rest
          = ns ++ chDot :: (prop ++ ([] ++ chCaret :: rest)) := by simp [iriText]
      rw [e]
      exact hfac.mono (by simp [iriText]; omega)
    · cases hit

theorem good_iri (hg : IsPathGrammar g) {v i t} (h : wfIri v i t = true) : Good g (.iri v i t) := by
  have F := factor_iri hg h
  exact ⟨fun _ => iri_starts h, F, term_of_factor hg F, expr_of_term hg (term_of_factor hg F)⟩

theorem list_text (op : Char) (l : Nat) (p0 : PAst) (tl : List PAst) :
    renderList op l (p0 :: tl) = renderAt l p0 ++ joinTail op (tl.map (fun q => (q, renderAt l q))) := by
  simp [renderList, renderTail_eq]

theorem map_fst_items (l : Nat) (tl : List PAst) :
    (tl.map (fun q => (q, renderAt l q))).map (·.1) = tl := by
  induction tl with
  | nil => rfl
  | cons q qs ih => simp [ih]

theorem good_or (hg : IsPathGrammar g) (b : List PAst) (ih : ∀ p ∈ b, wfAst p = true → Good g p)
    (hwf : wfAst (.or b) = true) : Good g (.or b) := by
  simp only [wfAst, Bool.and_eq_true, decide_eq_true_eq] at hwf
  obtain ⟨hlen, hl⟩ := hwf
  have goods : ∀ p ∈ b, Good g p := fun p hp => ih p hp (wfList_mem hl p hp)
  match b, hlen, goods with
  | p0 :: p1 :: tl', _, goods =>
    have T0 := term_of_items hg p0 (renderAt 2 p0) (goods p0 (by simp)).2.1
      ((p1 :: tl').map (fun q => (q, renderAt 2 q))) (by
        intro it hit
        obtain ⟨q, hq, rfl⟩ := List.mem_map.1 hit
        have := goods q (by simp only [List.mem_cons] at hq ⊢; exact Or.inr hq)
        exact ⟨this.2.1, this.1 2⟩)
    rw [map_fst_items, ← list_text] at T0
    have T : ItemOK g (.ref "Term") opsT 15 (.or (p0 :: p1 :: tl')) (renderList chBar 2 (p0 :: p1 :: tl')) := T0
    have hs : StartsNoWs (renderList chBar 2 (p0 :: p1 :: tl')) := by
      rw [renderList]; exact StartsNoWs.append ((goods p0 (by simp)).1 2) _
    have E := expr_of_term hg T
    have F := factor_of_expr hg hs E
    refine ⟨?_, ?_, ?_, ?_⟩
    · intro l
      simp only [renderAt, paren]
      split
      · exact ⟨chLParen, _, rfl, by decide⟩
      · exact hs
    · simpa [renderAt, paren] using F
    · simpa [renderAt, paren] using T
    · simpa [renderAt, paren] using E

theorem good_and (hg : IsPathGrammar g) (b : List PAst) (ih : ∀ p ∈ b, wfAst p = true → Good g p)
    (hwf : wfAst (.and b) = true) : Good g (.and b) := by
  simp only [wfAst, Bool.and_eq_true, decide_eq_true_eq] at hwf
  obtain ⟨hlen, hl⟩ := hwf
  have goods : ∀ p ∈ b, Good g p := fun p hp => ih p hp (wfList_mem hl p hp)
  match b, hlen, goods with
  | p0 :: p1 :: tl', _, goods =>
    have E0 := expr_of_items hg p0 (renderAt 1 p0) (goods p0 (by simp)).2.2.1
      ((p1 :: tl').map (fun q => (q, renderAt 1 q))) (by
        intro it hit
        obtain ⟨q, hq, rfl⟩ := List.mem_map.1 hit
        have := goods q (by simp only [List.mem_cons] at hq ⊢; exact Or.inr hq)
        exact ⟨this.2.2.1, this.1 1⟩)
    rw [map_fst_items, ← list_text] at E0
    have E : ItemOK g (.ref "Expression") opsE 30 (.and (p0 :: p1 :: tl'))
        (renderList chSlash 1 (p0 :: p1 :: tl')) := E0
    have hs : StartsNoWs (renderList chSlash 1 (p0 :: p1 :: tl')) := by
      rw [renderList]; exact StartsNoWs.append ((goods p0 (by simp)).1 1) _
    have F := factor_of_expr hg hs E
    have T := term_of_factor hg F
    refine ⟨?_, ?_, ?_, ?_⟩
    · intro l
      simp only [renderAt, paren]
      split
      · exact ⟨chLParen, _, rfl, by decide⟩
      · exact hs
    · simpa [renderAt, paren] using F
    · simpa [renderAt, paren] using T
    · simpa [renderAt, paren] using E

theorem good_all (hg : IsPathGrammar g) : ∀ p, wfAst p = true → Good g p :=
  PAst.ind (P := fun p => wfAst p = true → Good g p)
    (fun _ _ _ h => good_iri hg h) (fun b ih h => good_and hg b ih h) (fun b ih h => good_or hg b ih h)

/-- general form: any grammar with the seven path rules parses the canonical text of a well-formed
tree back to that tree and consumes all of it -/
theorem render_parseFull_gen (hg : IsPathGrammar g) (p : PAst) (h : WFAst p) :
    parseFull g (render p) = some (p, []) := by
  obtain ⟨hst, _, _, E⟩ := good_all hg p h
  obtain ⟨rest', hrem, hrun⟩ := E [] [] trivial
  have : rest' = [] := by
    rcases hrem with h | h
    · exact h
    · cases h
  subst this
  have a := ok_ws0 hg (renderAt 0 p ++ []) ((hst 0).headNot _) []
  have b := ok_label (l := "expr") (fr := []) hrun
  have c := ok_ws0 hg [] trivial [("expr", V.ast p)]
  have d := ok_ref (fr := [("expr", V.ast p)]) hg.eof (ok_notp (fr := []) fail_any_nil)
  have s := ok_seq (seqOk_cons a (seqOk_cons b (seqOk_cons c (seqOk_cons d seqOk_nil))))
  have r := ok_ref (fr := []) hg.path (ok_action (a := "Path1") s (v' := V.ast p) (by rfl))
  obtain ⟨body, rules, hrules⟩ := hg.start
  have hrun' := r (pathFuel (render p)) (by
    simp only [pathFuel, render]; omega)
  simp only [List.append_nil, render] at hrun'
  simp only [parseFull, runStart, hrules, render, hrun']

end levels

/-- **Round trip.**  For the generated table: the canonical text of every well-formed tree parses,
the result is that tree, and the whole text is consumed. -/
theorem render_parseFull (p : PAst) (h : WFAst p) :
    parseFull pathGrammarGo (render p) = some (p, []) :=
  render_parseFull_gen table_isPath p h

theorem render_parse (p : PAst) (h : WFAst p) : parsePath pathGrammarGo (render p) = some p := by
  simp only [parsePath, render_parseFull p h]


/-! ## 4c. Whitespace insensitivity

`Spells l p s`: `s` is a spelling of the tree `p` at level `l` (0 = expression, 1 = term, 2 = factor)
with ARBITRARY whitespace (blank, newline, tab, carriage return) before and after every operator,
after `(`, before `)`, and between an IRI and its modifier.  Parentheses are where `renderAt` puts
them.  The only constraint: a `/` operator that directly follows its left operand needs at least one
whitespace character before it (otherwise it is swallowed by the IRI, `/` being an IRI character). -/

mutual
def Spells : Nat → PAst → List Char → Prop
  | _, .iri v i t, s =>
    (i = false ∧ t = false ∧ s = v) ∨
    (∃ wm, AllWs wm ∧ ((i = true ∧ t = false ∧ s = v ++ (wm ++ [chCaret])) ∨
                        (i = false ∧ t = true ∧ s = v ++ (wm ++ [chStar]))))
  | l, .and b, s =>
    if 1 ≤ l then
      ∃ w1 x w2, AllWs w1 ∧ AllWs w2 ∧ s = chLParen :: (w1 ++ (x ++ (w2 ++ [chRParen]))) ∧
        SpellsList chSlash 1 b x
    else SpellsList chSlash 1 b s
  | l, .or b, s =>
    if 2 ≤ l then
      ∃ w1 x w2, AllWs w1 ∧ AllWs w2 ∧ s = chLParen :: (w1 ++ (x ++ (w2 ++ [chRParen]))) ∧
        SpellsList chBar 2 b x
    else SpellsList chBar 2 b s
def SpellsList (op : Char) (l : Nat) : List PAst → List Char → Prop
  | [], _ => False
  | p :: ps, s => ∃ x rest, s = x ++ rest ∧ Spells l p x ∧ SpellsTail op l ps rest
def SpellsTail (op : Char) (l : Nat) : List PAst → List Char → Prop
  | [], s => s = []
  | p :: ps, s => ∃ wa wb x rest, AllWs wa ∧ AllWs wb ∧ (wa = [] → isProp op = false) ∧
      s = wa ++ op :: (wb ++ (x ++ rest)) ∧ Spells l p x ∧ SpellsTail op l ps rest
end

section wslevels
variable {g : Grammar}

theorem hnpF : ∀ o ∈ opsF, isWs o = false := hnwF

theorem factor_iriW (hg : IsPathGrammar g) {v i t} (h : wfIri v i t = true) {s : List Char}
    (hs : Spells 2 (.iri v i t) s) : StartsNoWs s ∧ ItemW g (.ref "Factor") opsF 0 (.iri v i t) s := by
  simp only [Spells] at hs
  rcases wfIri_spec h with ⟨rfl, rfl, rfl⟩ | ⟨ns, prop, rfl, hns, hnsc, hp, hpc, hit⟩
  · have hs' : s = atType := by
      rcases hs with ⟨_, _, hs⟩ | ⟨wm, _, ⟨h, _⟩ | ⟨_, h, _⟩⟩
      · exact hs
      · cases h
      · cases h
    subst hs'
    refine ⟨⟨Char.ofNat 64, _, rfl, by decide⟩, ?_⟩
    intro fr w tl hw _ _
    exact ⟨w, hw, Nat.le_refl _, (ok_factor_type hg (w ++ tl) fr).mono (by
      have : atType.length = 5 := rfl
      omega)⟩
  · have hhead : ∀ s, HeadNe chLParen (ns ++ s) := by
      intro s
      cases ns with
      | nil => exact absurd rfl hns
      | cons c ns' => exact fun e => isNs_ne (hnsc c (by simp)) (by decide) e.symm
    have hstart : ∀ s, StartsNoWs ((ns ++ chDot :: prop) ++ s) := by
      intro s
      cases ns with
      | nil => exact absurd rfl hns
      | cons c ns' => exact ⟨c, _, rfl, isNs_not_ws (hnsc c (by simp))⟩
    rcases hs with ⟨rfl, rfl, rfl⟩ | ⟨wm, hwm, ⟨rfl, rfl, rfl⟩ | ⟨rfl, rfl, rfl⟩⟩
    · -- no modifier: the rule also eats the whitespace that follows
      refine ⟨by simpa using hstart [], ?_⟩
      intro fr w tl hw htl hprop
      have hnws : HeadNot isWs tl := htl.headNot (by decide) hnwF
      have hmod : HeadNot isMod tl := htl.headNot (by decide) hnmF
      have hopt := ok_opt_none (g := g) (fr := []) (fail_cls (fr := []) hmod)
      have hiri := ok_iri_gen hg hns hnsc hp hpc hw tl tl .nil false false hopt rfl rfl hnws hprop []
      have hfac := ok_factor_of_iri hg (hhead _) hiri fr
      refine ⟨[], AllWs.nil, Nat.zero_le _, ?_⟩
      have e : (ns ++ chDot :: prop) ++ (w ++ tl) = ns ++ chDot :: (prop ++ (w ++ tl)) := by simp
      rw [e]
      exact hfac.mono (by simp; omega)
    · -- inverse
      refine ⟨hstart _, ?_⟩
      intro fr w tl hw htl hprop
      have hopt := ok_opt_some (g := g) (fr := [])
        (ok_cls (g := g) (fr := []) (r := w ++ tl) (show isMod chCaret = true by decide))
      have hiri := ok_iri_gen hg hns hnsc hp hpc hwm (chCaret :: (w ++ tl)) (w ++ tl)
        (.chars [chCaret]) true false hopt (by decide) (by decide)
        (show isWs chCaret = false by decide)
        (hwm.headNotProp (fun _ => (by decide : isProp chCaret = false))) []
      have hfac := ok_factor_of_iri hg (hhead _) hiri fr
      refine ⟨w, hw, Nat.le_refl _, ?_⟩
      have e : ((ns ++ chDot :: prop) ++ (wm ++ [chCaret])) ++ (w ++ tl)
          = ns ++ chDot :: (prop ++ (wm ++ chCaret :: (w ++ tl))) := by simp
      rw [e]
      exact hfac.mono (by simp; omega)
    · -- transitive
      refine ⟨hstart _, ?_⟩
      intro fr w tl hw htl hprop
      have hopt := ok_opt_some (g := g) (fr := [])
        (ok_cls (g := g) (fr := []) (r := w ++ tl) (show isMod chStar = true by decide))
      have hiri := ok_iri_gen hg hns hnsc hp hpc hwm (chStar :: (w ++ tl)) (w ++ tl)
        (.chars [chStar]) false true hopt (by decide) (by decide)
        (show isWs chStar = false by decide)
        (hwm.headNotProp (fun _ => (by decide : isProp chStar = false))) []
      have hfac := ok_factor_of_iri hg (hhead _) hiri fr
      refine ⟨w, hw, Nat.le_refl _, ?_⟩
      have e : ((ns ++ chDot :: prop) ++ (wm ++ [chStar])) ++ (w ++ tl)
          = ns ++ chDot :: (prop ++ (wm ++ chStar :: (w ++ tl))) := by simp
      rw [e]
      exact hfac.mono (by simp; omega)

theorem term_of_itemsW (hg : IsPathGrammar g) (x0 : PAst) (r0 : List Char)
    (h0 : ItemW g (.ref "Factor") opsF 0 x0 r0) (items : List TItem)
    (hall : ∀ it ∈ items, TItemOK g (.ref "Factor") opsF 0 chBar it) :
    ItemW g (.ref "Term") opsT 15 (mkNode PAst.or x0 (items.map (·.x))) (r0 ++ innerText chBar items) :=
  ok_list_ruleW hg (A := "Term1") (mk := PAst.or) (op := chBar) (ops := opsF) (ops' := opsT) (D := 0)
    hg.term (fun _ => rfl) (by decide) (by decide) (by simp)
    (by intro o ho; simp only [List.mem_singleton] at ho; subst ho; simp)
    (by intro o ho; simp only [List.mem_singleton] at ho; subst ho; decide)
    (by intro o ho; simp only [List.mem_singleton] at ho; subst ho; decide)
    x0 r0 h0 items hall

theorem expr_of_itemsW (hg : IsPathGrammar g) (x0 : PAst) (r0 : List Char)
    (h0 : ItemW g (.ref "Term") opsT 15 x0 r0) (items : List TItem)
    (hall : ∀ it ∈ items, TItemOK g (.ref "Term") opsT 15 chSlash it) :
    ItemW g (.ref "Expression") opsE 30 (mkNode PAst.and x0 (items.map (·.x)))
      (r0 ++ innerText chSlash items) :=
  ok_list_ruleW hg (A := "Expression1") (mk := PAst.and) (op := chSlash) (ops := opsT) (ops' := opsE)
    (D := 15) hg.expr (fun _ => rfl) (by decide) (by decide) (by simp)
    (by intro o ho; cases ho) (by intro o ho; cases ho) (by intro o ho; cases ho)
    x0 r0 h0 items hall

theorem term_of_factorW (hg : IsPathGrammar g) {x : PAst} {r : List Char}
    (h : ItemW g (.ref "Factor") opsF 0 x r) : ItemW g (.ref "Term") opsT 15 x r := by
  have := term_of_itemsW hg x r h [] (by intro it hit; cases hit)
  simpa [innerText, mkNode] using this

theorem expr_of_termW (hg : IsPathGrammar g) {x : PAst} {r : List Char}
    (h : ItemW g (.ref "Term") opsT 15 x r) : ItemW g (.ref "Expression") opsE 30 x r := by
  have := expr_of_itemsW hg x r h [] (by intro it hit; cases hit)
  simpa [innerText, mkNode] using this

theorem factor_of_exprW (hg : IsPathGrammar g) {x : PAst} {r w1 w2 : List Char} (hs : StartsNoWs r)
    (hw1 : AllWs w1) (hw2 : AllWs w2) (h : ItemW g (.ref "Expression") opsE 30 x r) :
    ItemW g (.ref "Factor") opsF 0 x (chLParen :: (w1 ++ (r ++ (w2 ++ [chRParen])))) := by
  intro fr w tl hw _ _
  obtain ⟨w2', hw2', hlen, hrun⟩ := h [] w2 (chRParen :: (w ++ tl)) hw2 (Or.inr (Or.inl ⟨_, rfl⟩))
    (hw2.headNotProp (fun _ => (by decide : isProp chRParen = false)))
  refine ⟨w, hw, Nat.le_refl _, ?_⟩
  have := ok_factor_parenW hg (w1 := w1) (w ++ tl) hs hw1 hw2' hrun fr
  have e : (chLParen :: (w1 ++ (r ++ (w2 ++ [chRParen])))) ++ (w ++ tl)
      = chLParen :: (w1 ++ (r ++ (w2 ++ chRParen :: (w ++ tl)))) := by simp
  rw [e]
  exact this.mono (by simp only [List.length_cons, List.length_append, List.length_nil]; omega)

/-- turn a spelled tail into the item list of `ok_list_ruleW` -/
theorem spellsTail_items {sub : PE} {ops : List Char} {D : Nat} (op : Char) (l : Nat) :
    ∀ (ps : List PAst) (s : List Char), SpellsTail op l ps s →
    (∀ p ∈ ps, ∀ x, Spells l p x → StartsNoWs x ∧ ItemW g sub ops D p x) →
    ∃ items : List TItem, innerText op items = s ∧ items.map (·.x) = ps ∧
      ∀ it ∈ items, TItemOK g sub ops D op it := by
  intro ps
  induction ps with
  | nil =>
    intro s hs _
    simp only [SpellsTail] at hs
    exact ⟨[], by simp [innerText, hs], rfl, by intro it hit; cases hit⟩
  | cons p ps ih =>
    intro s hs hall
    simp only [SpellsTail] at hs
    obtain ⟨wa, wb, x, rest, hwa, hwb, hwap, rfl, hx, hrest⟩ := hs
    obtain ⟨items, hit, hmap, hok⟩ := ih rest hrest (fun q hq => hall q (by simp [hq]))
    obtain ⟨hst, hitem⟩ := hall p (by simp) x hx
    refine ⟨⟨p, wa, wb, x⟩ :: items, by simp [innerText, hit], by simp [hmap], ?_⟩
    intro it hmem
    rcases List.mem_cons.1 hmem with h | h
    · subst h; exact ⟨hitem, hst, hwa, hwb, hwap⟩
    · exact hok it h

/-- the three levels, for every spelling -/
def GoodW (g : Grammar) (p : PAst) : Prop :=
  (∀ s, Spells 2 p s → StartsNoWs s ∧ ItemW g (.ref "Factor") opsF 0 p s) ∧
  (∀ s, Spells 1 p s → StartsNoWs s ∧ ItemW g (.ref "Term") opsT 15 p s) ∧
  (∀ s, Spells 0 p s → StartsNoWs s ∧ ItemW g (.ref "Expression") opsE 30 p s)

theorem goodW_iri (hg : IsPathGrammar g) {v i t} (h : wfIri v i t = true) : GoodW g (.iri v i t) := by
  have F : ∀ l s, Spells l (.iri v i t) s → StartsNoWs s ∧ ItemW g (.ref "Factor") opsF 0 (.iri v i t) s := by
    intro l s hs
    exact factor_iriW hg h (by simpa only [Spells] using hs)
  exact ⟨F 2, fun s hs => ⟨(F 1 s hs).1, term_of_factorW hg (F 1 s hs).2⟩,
    fun s hs => ⟨(F 0 s hs).1, expr_of_termW hg (term_of_factorW hg (F 0 s hs).2)⟩⟩

theorem goodW_or (hg : IsPathGrammar g) (b : List PAst) (ih : ∀ p ∈ b, wfAst p = true → GoodW g p)
    (hwf : wfAst (.or b) = true) : GoodW g (.or b) := by
  simp only [wfAst, Bool.and_eq_true, decide_eq_true_eq] at hwf
  obtain ⟨hlen, hl⟩ := hwf
  have goods : ∀ p ∈ b, GoodW g p := fun p hp => ih p hp (wfList_mem hl p hp)
  match b, hlen, goods with
  | p0 :: p1 :: tl', _, goods =>
    have T : ∀ s, SpellsList chBar 2 (p0 :: p1 :: tl') s →
        StartsNoWs s ∧ ItemW g (.ref "Term") opsT 15 (.or (p0 :: p1 :: tl')) s := by
      intro s hs
      simp only [SpellsList] at hs
      obtain ⟨x, rest, rfl, hx, hrest⟩ := hs
      obtain ⟨hst0, h0⟩ := (goods p0 (by simp)).1 x hx
      obtain ⟨items, hit, hmap, hok⟩ := spellsTail_items (g := g) chBar 2 (p1 :: tl') rest hrest
        (fun q hq x hx => (goods q (by simp only [List.mem_cons] at hq ⊢; exact Or.inr hq)).1 x hx)
      have := term_of_itemsW hg p0 x h0 items hok
      rw [hmap, hit] at this
      exact ⟨StartsNoWs.append hst0 _, this⟩
    have E : ∀ s, SpellsList chBar 2 (p0 :: p1 :: tl') s →
        StartsNoWs s ∧ ItemW g (.ref "Expression") opsE 30 (.or (p0 :: p1 :: tl')) s :=
      fun s hs => ⟨(T s hs).1, expr_of_termW hg (T s hs).2⟩
    refine ⟨?_, ?_, ?_⟩
    · intro s hs
      simp only [Spells, Nat.le_refl, if_true] at hs
      obtain ⟨w1, x, w2, hw1, hw2, rfl, hx⟩ := hs
      exact ⟨⟨chLParen, _, rfl, by decide⟩, factor_of_exprW hg (E x hx).1 hw1 hw2 (E x hx).2⟩
    · intro s hs
      simp only [Spells, show ¬ (2 ≤ 1) by omega, if_false] at hs
      exact T s hs
    · intro s hs
      simp only [Spells, show ¬ (2 ≤ 0) by omega, if_false] at hs
      exact E s hs

theorem goodW_and (hg : IsPathGrammar g) (b : List PAst) (ih : ∀ p ∈ b, wfAst p = true → GoodW g p)
    (hwf : wfAst (.and b) = true) : GoodW g (.and b) := by
  simp only [wfAst, Bool.and_eq_true, decide_eq_true_eq] at hwf
  obtain ⟨hlen, hl⟩ := hwf
  have goods : ∀ p ∈ b, GoodW g p := fun p hp => ih p hp (wfList_mem hl p hp)
  match b, hlen, goods with
  | p0 :: p1 :: tl', _, goods =>
    have E : ∀ s, SpellsList chSlash 1 (p0 :: p1 :: tl') s →
        StartsNoWs s ∧ ItemW g (.ref "Expression") opsE 30 (.and (p0 :: p1 :: tl')) s := by
      intro s hs
      simp only [SpellsList] at hs
      obtain ⟨x, rest, rfl, hx, hrest⟩ := hs
      obtain ⟨hst0, h0⟩ := (goods p0 (by simp)).2.1 x hx
      obtain ⟨items, hit, hmap, hok⟩ := spellsTail_items (g := g) chSlash 1 (p1 :: tl') rest hrest
        (fun q hq x hx => (goods q (by simp only [List.mem_cons] at hq ⊢; exact Or.inr hq)).2.1 x hx)
      have := expr_of_itemsW hg p0 x h0 items hok
      rw [hmap, hit] at this
      exact ⟨StartsNoWs.append hst0 _, this⟩
    have F : ∀ s, Spells 2 (.and (p0 :: p1 :: tl')) s →
        StartsNoWs s ∧ ItemW g (.ref "Factor") opsF 0 (.and (p0 :: p1 :: tl')) s := by
      intro s hs
      simp only [Spells, show 1 ≤ 2 by omega, if_true] at hs
      obtain ⟨w1, x, w2, hw1, hw2, rfl, hx⟩ := hs
      exact ⟨⟨chLParen, _, rfl, by decide⟩, factor_of_exprW hg (E x hx).1 hw1 hw2 (E x hx).2⟩
    refine ⟨F, ?_, ?_⟩
    · intro s hs
      have hs2 : Spells 2 (.and (p0 :: p1 :: tl')) s := by
        simp only [Spells, Nat.le_refl, if_true] at hs
        simp only [Spells, show 1 ≤ 2 by omega, if_true]
        exact hs
      exact ⟨(F s hs2).1, term_of_factorW hg (F s hs2).2⟩
    · intro s hs
      simp only [Spells, show ¬ (1 ≤ 0) by omega, if_false] at hs
      exact E s hs

theorem goodW_all (hg : IsPathGrammar g) : ∀ p, wfAst p = true → GoodW g p :=
  PAst.ind (P := fun p => wfAst p = true → GoodW g p)
    (fun _ _ _ h => goodW_iri hg h) (fun b ih h => goodW_and hg b ih h) (fun b ih h => goodW_or hg b ih h)

theorem ws_insensitive_gen (hg : IsPathGrammar g) (p : PAst) (h : WFAst p) (s : List Char)
    (hs : Spells 0 p s) (pre post : List Char) (hpre : AllWs pre) (hpost : AllWs post) :
    parseFull g (pre ++ (s ++ post)) = some (p, []) := by
  obtain ⟨hst, E⟩ := (goodW_all hg p h).2.2 s hs
  obtain ⟨w', hw', hlen, hrun⟩ := E [] post [] hpost (Or.inl rfl)
    (hpost.headNotProp (fun _ => trivial))
  have a := ok_ws hg pre (s ++ (post ++ [])) hpre (hst.headNot _) []
  have b := ok_label (l := "expr") (fr := []) hrun
  have c := ok_ws hg w' [] hw' trivial [("expr", V.ast p)]
  have d := ok_ref (fr := [("expr", V.ast p)]) hg.eof (ok_notp (fr := []) fail_any_nil)
  have sq := ok_seq (seqOk_cons a (seqOk_cons b (seqOk_cons c (seqOk_cons d seqOk_nil))))
  have r := ok_ref (fr := []) hg.path (ok_action (a := "Path1") sq (v' := V.ast p) (by rfl))
  obtain ⟨body, rules, hrules⟩ := hg.start
  have hrun' := r (pathFuel (pre ++ (s ++ post))) (by
    simp only [pathFuel, List.length_append]; omega)
  simp only [List.append_nil] at hrun'
  simp only [parseFull, runStart, hrules, hrun']

end wslevels

/-- **Whitespace insensitivity.**  Every spelling of a well-formed tree `p` with arbitrary whitespace
around operators, parentheses and modifiers, and arbitrary leading and trailing whitespace, parses
to `p` (and is consumed entirely).  Hence any two such spellings parse to the same result. -/
theorem ws_insensitive (p : PAst) (h : WFAst p) (s : List Char) (hs : Spells 0 p s)
    (pre post : List Char) (hpre : AllWs pre) (hpost : AllWs post) :
    parsePath pathGrammarGo (pre ++ (s ++ post)) = some p := by
  simp only [parsePath, ws_insensitive_gen table_isPath p h s hs pre post hpre hpost]

/-! introduction rules for `Spells` -/

theorem spells_iri (l : Nat) (v : List Char) : Spells l (.iri v false false) v := by
  simp [Spells]
theorem spells_inv (l : Nat) (v wm : List Char) (h : AllWs wm) :
    Spells l (.iri v true false) (v ++ (wm ++ [chCaret])) := by
  simp only [Spells]; exact Or.inr ⟨wm, h, Or.inl ⟨trivial, trivial, rfl⟩⟩
theorem spells_trans (l : Nat) (v wm : List Char) (h : AllWs wm) :
    Spells l (.iri v false true) (v ++ (wm ++ [chStar])) := by
  simp only [Spells]; exact Or.inr ⟨wm, h, Or.inr ⟨trivial, trivial, rfl⟩⟩
theorem spellsTail_nil {op : Char} {l : Nat} : SpellsTail op l [] [] := by simp only [SpellsTail]
theorem spellsTail_cons {op : Char} {l : Nat} {p : PAst} {ps : List PAst} {wa wb x rest : List Char}
    (hwa : AllWs wa) (hwb : AllWs wb) (hp : wa = [] → isProp op = false) (hx : Spells l p x)
    (ht : SpellsTail op l ps rest) : SpellsTail op l (p :: ps) (wa ++ op :: (wb ++ (x ++ rest))) := by
  simp only [SpellsTail]; exact ⟨wa, wb, x, rest, hwa, hwb, hp, rfl, hx, ht⟩
theorem spellsList_cons {op : Char} {l : Nat} {p : PAst} {ps : List PAst} {x rest : List Char}
    (hx : Spells l p x) (ht : SpellsTail op l ps rest) : SpellsList op l (p :: ps) (x ++ rest) := by
  simp only [SpellsList]; exact ⟨x, rest, rfl, hx, ht⟩
theorem spells_and {l : Nat} {b : List PAst} {s : List Char} (hl : ¬ 1 ≤ l)
    (h : SpellsList chSlash 1 b s) : Spells l (.and b) s := by
  simp only [Spells, hl, if_false]; exact h
theorem spells_or {l : Nat} {b : List PAst} {s : List Char} (hl : ¬ 2 ≤ l)
    (h : SpellsList chBar 2 b s) : Spells l (.or b) s := by
  simp only [Spells, hl, if_false]; exact h
theorem spells_and_paren {l : Nat} {b : List PAst} {w1 x w2 : List Char} (hl : 1 ≤ l) (hw1 : AllWs w1)
    (hw2 : AllWs w2) (h : SpellsList chSlash 1 b x) :
    Spells l (.and b) (chLParen :: (w1 ++ (x ++ (w2 ++ [chRParen])))) := by
  simp only [Spells, hl, if_true]; exact ⟨w1, x, w2, hw1, hw2, rfl, h⟩
theorem spells_or_paren {l : Nat} {b : List PAst} {w1 x w2 : List Char} (hl : 2 ≤ l) (hw1 : AllWs w1)
    (hw2 : AllWs w2) (h : SpellsList chBar 2 b x) :
    Spells l (.or b) (chLParen :: (w1 ++ (x ++ (w2 ++ [chRParen])))) := by
  simp only [Spells, hl, if_true]; exact ⟨w1, x, w2, hw1, hw2, rfl, h⟩

theorem allWs_space : AllWs [chSpace] := by
  intro c hc
  simp only [List.mem_singleton] at hc
  subst hc; decide

theorem spellsTail_render (op : Char) (l : Nat) : ∀ ps : List PAst,
    (∀ p ∈ ps, Spells l p (renderAt l p)) → SpellsTail op l ps (renderTail op l ps) := by
  intro ps
  induction ps with
  | nil => intro _; simp [SpellsTail, renderTail]
  | cons p ps ih =>
    intro h
    simp only [SpellsTail, renderTail]
    exact ⟨[chSpace], [chSpace], renderAt l p, renderTail op l ps, allWs_space, allWs_space,
      (fun e => by cases e), rfl, h p (by simp), ih (fun q hq => h q (by simp [hq]))⟩

/-- the canonical text is one of the spellings, so `render_parse` is an instance of `ws_insensitive` -/
theorem spells_render : ∀ p, wfAst p = true → ∀ l, Spells l p (renderAt l p) := by
  refine PAst.ind (P := fun p => wfAst p = true → ∀ l, Spells l p (renderAt l p)) ?_ ?_ ?_
  · intro v i t h l
    have hit : (i && t) = false := by
      rcases wfIri_spec h with ⟨_, rfl, _⟩ | ⟨_, _, _, _, _, _, _, hit⟩
      · rfl
      · exact hit
    simp only [Spells, renderAt]
    cases i <;> cases t
    · exact Or.inl ⟨rfl, rfl, by simp [iriText]⟩
    · exact Or.inr ⟨[], AllWs.nil, Or.inr ⟨rfl, rfl, by simp [iriText]⟩⟩
    · exact Or.inr ⟨[], AllWs.nil, Or.inl ⟨rfl, rfl, by simp [iriText]⟩⟩
    · cases hit
  · intro b ih h l
    simp only [wfAst, Bool.and_eq_true, decide_eq_true_eq] at h
    obtain ⟨hlen, hl⟩ := h
    have ihs : ∀ p ∈ b, Spells 1 p (renderAt 1 p) := fun p hp => ih p hp (wfList_mem hl p hp) 1
    match b, hlen, ihs with
    | p0 :: ps, _, ihs =>
      have hlist : SpellsList chSlash 1 (p0 :: ps) (renderList chSlash 1 (p0 :: ps)) := by
        simp only [SpellsList, renderList]
        exact ⟨_, _, rfl, ihs p0 (by simp), spellsTail_render chSlash 1 ps (fun q hq => ihs q (by simp [hq]))⟩
      simp only [Spells, renderAt, paren]
      by_cases hl : 1 ≤ l
      · simp only [hl, if_true, decide_true]
        exact ⟨[], _, [], AllWs.nil, AllWs.nil, by simp, hlist⟩
      · simp only [hl, if_false, decide_false]
        exact hlist
  · intro b ih h l
    simp only [wfAst, Bool.and_eq_true, decide_eq_true_eq] at h
    obtain ⟨hlen, hl⟩ := h
    have ihs : ∀ p ∈ b, Spells 2 p (renderAt 2 p) := fun p hp => ih p hp (wfList_mem hl p hp) 2
    match b, hlen, ihs with
    | p0 :: ps, _, ihs =>
      have hlist : SpellsList chBar 2 (p0 :: ps) (renderList chBar 2 (p0 :: ps)) := by
        simp only [SpellsList, renderList]
        exact ⟨_, _, rfl, ihs p0 (by simp), spellsTail_render chBar 2 ps (fun q hq => ihs q (by simp [hq]))⟩
      simp only [Spells, renderAt, paren]
      by_cases hl : 2 ≤ l
      · simp only [hl, if_true, decide_true]
        exact ⟨[], _, [], AllWs.nil, AllWs.nil, by simp, hlist⟩
      · simp only [hl, if_false, decide_false]
        exact hlist

/-- cross-check: the round trip again, now as a corollary of whitespace insensitivity -/
theorem render_parse_via_ws (p : PAst) (h : WFAst p) : parsePath pathGrammarGo (render p) = some p := by
  have := ws_insensitive p h (render p) (spells_render p h 0) [] [] AllWs.nil AllWs.nil
  simpa using this

/-! ## 5. Non-vacuity -/

/-- `ex.a` -/
def exA : List Char := [Char.ofNat 101, Char.ofNat 120, Char.ofNat 46, Char.ofNat 97]
/-- `ex.b` -/
def exB : List Char := [Char.ofNat 101, Char.ofNat 120, Char.ofNat 46, Char.ofNat 98]
/-- `ex.c` -/
def exC : List Char := [Char.ofNat 101, Char.ofNat 120, Char.ofNat 46, Char.ofNat 99]

/-- the tree of `ex.a / (ex.b | ex.c^) / @type` -/
def sampleTree : PAst :=
  .and [.iri exA false false, .or [.iri exB false false, .iri exC true false], .iri atType false false]

/-- `ex.a / ex.b | ex.c^ / @type` (the parentheses are not needed: `|` binds tighter than `/`) -/
def sampleText : List Char :=
  [Char.ofNat 101, Char.ofNat 120, Char.ofNat 46, Char.ofNat 97, Char.ofNat 32, Char.ofNat 47, Char.ofNat 32,
   Char.ofNat 101, Char.ofNat 120, Char.ofNat 46, Char.ofNat 98, Char.ofNat 32, Char.ofNat 124, Char.ofNat 32,
   Char.ofNat 101, Char.ofNat 120, Char.ofNat 46, Char.ofNat 99, Char.ofNat 94, Char.ofNat 32, Char.ofNat 47,
   Char.ofNat 32, Char.ofNat 64, Char.ofNat 116, Char.ofNat 121, Char.ofNat 112, Char.ofNat 101]

/-- `ex.a / (ex.b | ex.c^) / @type`, the spelling with the redundant parentheses -/
def sampleTextParen : List Char :=
  [Char.ofNat 101, Char.ofNat 120, Char.ofNat 46, Char.ofNat 97, Char.ofNat 32, Char.ofNat 47, Char.ofNat 32,
   Char.ofNat 40, Char.ofNat 101, Char.ofNat 120, Char.ofNat 46, Char.ofNat 98, Char.ofNat 32, Char.ofNat 124,
   Char.ofNat 32, Char.ofNat 101, Char.ofNat 120, Char.ofNat 46, Char.ofNat 99, Char.ofNat 94, Char.ofNat 41,
   Char.ofNat 32, Char.ofNat 47, Char.ofNat 32, Char.ofNat 64, Char.ofNat 116, Char.ofNat 121, Char.ofNat 112,
   Char.ofNat 101]

example : WFAst sampleTree := by decide
example : render sampleTree = sampleText := by decide
/-- the hypothesis of `render_parse` is satisfiable and its conclusion is the evaluation result -/
example : parsePath pathGrammarGo sampleText = some sampleTree := render_parse sampleTree (by decide)
example : parseFull pathGrammarGo sampleTextParen = some (sampleTree, []) := by rfl
/-- an `and` directly below an `and` and an `or` below an `or` are well formed and get parentheses -/
example : WFAst (.and [sampleTree, .or [.or [.iri exA false true, .iri exB false false], .iri exC false false]]) := by
  decide
/-- trees the parser cannot produce are not well formed -/
example : ¬ WFAst (.and [.iri exA false false]) := by decide
example : ¬ WFAst (.iri exA true true) := by decide
example : ¬ WFAst (.iri [Char.ofNat 101, Char.ofNat 120] false false) := by decide
/-- `accepts_whole` applies to the table, and its hypothesis is false for the old grammar -/
example (s : List Char) (p : PAst) (h : parsePath pathGrammarGo s = some p) :
    parseFull pathGrammarGo s = some (p, []) :=
  accepts_whole pathGrammarGo table_endsWithEOF s p h
example : endsWithEOF oldGrammar = false := old_not_endsWithEOF
/-- the interpreter distinguishes success, failure and lack of fuel -/
example : run pathGrammarGo 3 (.ref "Path") [] exA = .oof := by rfl
example : run pathGrammarGo 200 (.ref "Path") [] (exA ++ [Char.ofNat 44]) = .fail := by rfl

/-- a non-canonical spelling of `sampleTree`: `ex.a  /ex.b|⏎ex.c ^⇥/ @type` -/
def sampleTextWs : List Char :=
  ['e', 'x', '.', 'a', ' ', ' ', '/', 'e', 'x', '.', 'b', '|', '\n', 'e', 'x', '.', 'c', ' ', '^', '\t', '/',
   ' ', '@', 't', 'y', 'p', 'e']

example : Spells 0 sampleTree sampleTextWs := by
  have hOr : Spells 1 (.or [.iri exB false false, .iri exC true false])
      (exB ++ ([] ++ chBar :: (['\n'] ++ ((exC ++ ([' '] ++ [chCaret])) ++ [])))) :=
    spells_or (by omega) (spellsList_cons (spells_iri 2 exB)
      (spellsTail_cons AllWs.nil (by decide) (fun _ => by decide) (spells_inv 2 exC [' '] (by decide))
        spellsTail_nil))
  have h : Spells 0 sampleTree
      (exA ++ ([' ', ' '] ++ chSlash :: ([] ++ (_ ++ (['\t'] ++ chSlash :: ([' '] ++ (atType ++ []))))))) :=
    spells_and (by omega) (spellsList_cons (spells_iri 1 exA)
      (spellsTail_cons (by decide) AllWs.nil (fun e => by cases e) hOr
        (spellsTail_cons (by decide) (by decide) (fun e => by cases e) (spells_iri 1 atType)
          spellsTail_nil)))
  exact h

/-- … and the evaluation agrees with `ws_insensitive` (two leading blanks, a trailing newline) -/
example : parsePath pathGrammarGo ([' ', ' '] ++ (sampleTextWs ++ ['\n'])) = some sampleTree := by rfl

/-
Sanity checks (`#eval`, see also the differential test of the harness):
  "ex.a / (ex.b | ex.c^) / @type"  ↦ seq(ex.a,alt(ex.b,ex.c^),@type)
  " ex.a "                         ↦ ex.a
  "ex.a ^"                         ↦ ex.a^
  "ex.a|ex.b/ex.c"                 ↦ alt(ex.a,ex.b/ex.c)      (`/` is an IRI character)
  "ex.a / / ex.b", "ex.a ) junk", "ex.a ex.b", "(ex.a", "ex.a,"  ↦ none
-/

#print axioms doc_eq_table
#print axioms accepts_whole
#print axioms table_endsWithEOF
#print axioms old_truncates
#print axioms new_rejects_junk
#print axioms table_isPath
#print axioms render_parseFull
#print axioms render_parse
#print axioms ws_insensitive
#print axioms spells_render

end Acv.C16
