import Acv.Model.MapOrder
import Acv.Lemmas.MapOrder
import Acv.Gen.Inventory
/-!
# C06 — the remaining iterations over Go maps are order-insensitive

The implementation ranges over a Go map (iteration order differs from run to run) exactly at the
sites of `Acv.Gen.mapRangeSites` (extracted from the Go sources on every run; `sites_expected` fails
to re-check when a site is added).  For each of them the result does not depend on the order:

* `insertAll_perm` (`MergeObjectMap`, `MergeStringMap`, `IriExpanderFrom`): inserting the entries of a
  map into another map gives the same map for every order of the entries;
* `assignFields_perm`, `assignIds_perm`, `field_ids_independent` (`defineIdRecursively`): permuting the
  entries of any objects of the tree permutes the list of assigned ids, and the ids of the subtree
  under key `k` are those of `id_k` wherever `k` is visited.

`old_order_leaks` is the model-level witness for the behaviour before the repair of `GetMapKeys`:
variable numbers handed out in key-iteration order differ between two orders.
-/
namespace Acv.C06
open Acv Acv.MapOrder

/-! ### (a) `for k, v := range *other { (*this)[k] = v }` -/

/-- General form: equal maps, merged with the same entries in two orders, are equal maps. -/
theorem insertAll_perm_equiv {V : Type} {es es' : List (String × V)} (hp : es.Perm es') :
    (es.map Prod.fst).Nodup → ∀ {m m' : List (String × V)}, Equiv m m' →
    Equiv (insertAll m es) (insertAll m' es') := by
  induction hp with
  | nil => intro _ m m' hm; exact hm
  | @cons x l₁ l₂ _ ih =>
    intro hd m m' hm
    obtain ⟨k, v⟩ := x
    rw [List.map_cons, List.nodup_cons] at hd
    exact ih hd.2 (insert_equiv hm k v)
  | swap x y l =>
    intro hd m m' hm
    obtain ⟨kx, vx⟩ := x
    obtain ⟨ky, vy⟩ := y
    simp only [List.map_cons, List.nodup_cons, List.mem_cons, not_or] at hd
    simp only [insertAll]
    apply insertAll_equiv l
    exact (insert_comm m ky kx vy vx hd.1.1).trans (insert_equiv (insert_equiv hm kx vx) ky vy)
  | @trans l₁ l₂ l₃ h₁ _ ih₁ ih₂ =>
    intro hd m m' hm
    exact (ih₁ hd hm).trans (ih₂ ((h₁.map Prod.fst).nodup hd) (Equiv.refl m'))

/-- If `entries` has pairwise distinct keys (a Go map has) and `entries'` is a permutation of it,
looking up any key after `for k, v := range entries { m[k] = v }` gives the same result for both
orders. -/
theorem insertAll_perm {V : Type} (m entries entries' : List (String × V))
    (hd : (entries.map Prod.fst).Nodup) (hp : entries'.Perm entries) :
    ∀ k, lookup k (insertAll m entries) = lookup k (insertAll m entries') :=
  insertAll_perm_equiv hp.symm hd (Equiv.refl m)

/-- What the merge computes: the binding of `other` if it has one, else the old binding. -/
theorem insertAll_lookup {V : Type} (k : String) : ∀ (entries m : List (String × V)),
    (entries.map Prod.fst).Nodup →
    lookup k (insertAll m entries) = (lookup k entries).or (lookup k m)
  | [], m, _ => by simp [insertAll, lookup]
  | (k', v') :: es, m, hd => by
    rw [List.map_cons, List.nodup_cons] at hd
    simp only [insertAll, insertAll_lookup k es (insert m k' v') hd.2, lookup_insert, lookup]
    by_cases h : k = k'
    · subst h
      simp [lookup_eq_none k es hd.1]
    · simp [h]

/-- `IriExpanderFrom` (two merges into a fresh map) does not depend on either iteration order. -/
theorem iriContext_perm {V : Type} (defaults defaults' prefixes prefixes' : List (String × V))
    (hd : (defaults.map Prod.fst).Nodup) (hp : (prefixes.map Prod.fst).Nodup)
    (h₁ : defaults'.Perm defaults) (h₂ : prefixes'.Perm prefixes) :
    ∀ k, lookup k (iriContext defaults prefixes) = lookup k (iriContext defaults' prefixes') :=
  insertAll_perm_equiv h₂.symm hp (insertAll_perm_equiv h₁.symm hd (Equiv.refl []))

/-- The hypothesis is needed: a list with a repeated key (not a Go map) is order-sensitive. -/
theorem insertAll_needs_distinct_keys :
    ∃ (es es' : List (String × Nat)), es'.Perm es ∧
      lookup "a" (insertAll [] es) ≠ lookup "a" (insertAll [] es') :=
  ⟨[("a", 1), ("a", 2)], [("a", 2), ("a", 1)], by decide, by decide⟩

/-! ### (b) `defineIdRecursively`: `for k, v := range *node` -/

/-- Visiting the entries of a node in another order permutes the ids assigned below it. -/
theorem assignFields_perm {fs fs' : List (String × J)} (h : fs'.Perm fs) (segs : List String) :
    (assignFields fs' segs).Perm (assignFields fs segs) := by
  simp only [assignFields_eq_flatMap]
  exact h.flatMap_right _

/-- The ids of the subtree under key `k` are those of the node `id_k`, wherever in the iteration `k`
is visited: the entries before and after contribute their own ids and nothing else. -/
theorem field_ids_independent (pre post : List (String × J)) (k : String) (t : Bool)
    (fs : List (String × J)) (segs : List String) :
    assignFields (pre ++ (k, .obj t fs) :: post) segs
      = assignFields pre segs ++ assignIds (.obj t fs) (segs ++ [k]) ++ assignFields post segs := by
  rw [assignFields_append, assignFields_cons, List.append_assoc]
  rfl

/-- The same for an array entry: its elements get `id_<index>`, wherever the entry is visited. -/
theorem array_ids_independent (pre post : List (String × J)) (k : String) (es : List J)
    (segs : List String) :
    assignFields (pre ++ (k, .arr es) :: post) segs
      = assignFields pre segs ++ assignElems es 0 segs ++ assignFields post segs := by
  rw [assignFields_append, assignFields_cons, List.append_assoc]
  rfl

/-- One permutation of the entries of one object anywhere in the tree permutes the assigned ids. -/
theorem assignIds_step {j j' : J} (h : J.Step j j') (segs : List String) :
    (assignIds j segs).Perm (assignIds j' segs) := (step_ids h).1 segs

/-- The same tree up to the order of the entries of every object is assigned the same ids, up to the
order in which they are assigned. -/
theorem assignIds_perm {j j' : J} (h : J.PermEq j j') (segs : List String) :
    (assignIds j segs).Perm (assignIds j' segs) := by
  induction h with
  | refl _ => exact List.Perm.refl _
  | step s _ ih => exact (assignIds_step s segs).trans ih

/-- Hence distinctness of the ids (C12) does not depend on the order either. -/
theorem assignIds_nodup_perm {j j' : J} (h : J.PermEq j j') (segs : List String) :
    (assignIds j segs).Nodup ↔ (assignIds j' segs).Nodup := (assignIds_perm h segs).nodup_iff

/-- And every id is assigned in one order iff it is assigned in the other. -/
theorem assignIds_mem_perm {j j' : J} (h : J.PermEq j j') (segs id : List String) :
    id ∈ assignIds j segs ↔ id ∈ assignIds j' segs := (assignIds_perm h segs).mem_iff

/-! ### the inventory -/

/-- The sites where the implementation ranges over a map are exactly the modelled ones. -/
theorem sites_expected : Acv.Gen.mapRangeSites = [
    "internal/generator/generator.go IriExpanderFrom range profile.Prefixes",
    "internal/types/object.go MergeObjectMap range *other",
    "internal/types/object.go MergeStringMap range *other",
    "internal/validator/report.go defineIdRecursively range *node"] := by decide

/-- There is no `go` statement in the implementation. -/
theorem no_go_statements : Acv.Gen.goStatements = [] := by decide

/-! ### the old `GetMapKeys` -/

/-- Two iteration orders of the same keys give the nested constraints different variables, i.e.
different generated code. -/
theorem old_order_leaks : ∃ ks ks', ks'.Perm ks ∧ numberConstraints ks ≠ numberConstraints ks' :=
  ⟨["shacl.minCount", "shacl.maxCount"], ["shacl.maxCount", "shacl.minCount"], by decide, by decide⟩

/-! ### non-vacuity -/

example : insertAll [("a", 1), ("b", 2)] [("b", 3), ("c", 4)] = [("a", 1), ("b", 3), ("c", 4)] := by
  decide
example : lookup "b" (insertAll [("a", 1), ("b", 2)] [("c", 4), ("b", 3)]) = some 3 := by decide
example : ∀ k, lookup k (insertAll [("a", 1), ("b", 2)] [("b", 3), ("c", 4)])
    = lookup k (insertAll [("a", 1), ("b", 2)] [("c", 4), ("b", 3)]) :=
  insertAll_perm _ _ _ (by decide) (by decide)
example : numberConstraints ["p", "q"] = [("p", 0), ("q", 1)] := by decide

def exA : J := .obj true [("uri", .leaf), ("range", .obj true [("start", .obj true []), ("end", .obj true [])])]
def exB : J := .obj true [("range", .obj true [("end", .obj true []), ("start", .obj true [])]), ("uri", .leaf)]

example : J.PermEq exA exB :=
  .step (.perm true (fs := [("range", _), ("uri", .leaf)]) (List.Perm.swap _ _ _))
    (.step (.field true [] "range" [("uri", .leaf)] (.perm true (List.Perm.swap _ _ _))) (.refl _))
example : assignIds exA ["v", "0"]
    = [["v", "0"], ["v", "0", "range"], ["v", "0", "range", "start"], ["v", "0", "range", "end"]] := by
  decide
example : assignIds exB ["v", "0"]
    = [["v", "0"], ["v", "0", "range"], ["v", "0", "range", "end"], ["v", "0", "range", "start"]] := by
  decide

end Acv.C06

#print axioms Acv.C06.insertAll_perm_equiv
#print axioms Acv.C06.insertAll_perm
#print axioms Acv.C06.insertAll_lookup
#print axioms Acv.C06.iriContext_perm
#print axioms Acv.C06.insertAll_needs_distinct_keys
#print axioms Acv.C06.assignFields_perm
#print axioms Acv.C06.field_ids_independent
#print axioms Acv.C06.array_ids_independent
#print axioms Acv.C06.assignIds_step
#print axioms Acv.C06.assignIds_perm
#print axioms Acv.C06.assignIds_nodup_perm
#print axioms Acv.C06.assignIds_mem_perm
#print axioms Acv.C06.sites_expected
#print axioms Acv.C06.no_go_statements
#print axioms Acv.C06.old_order_leaks
