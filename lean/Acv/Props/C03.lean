import Acv.Model.Report
/-!
# C03 — conforms, severities and report header agree with the result list
-/
namespace Acv.C03
open Acv.Rep

variable (p : Profile) (fires : String → List String) (c : Config)

theorem mem_bucket (l : Level) (r : Result) :
    r ∈ bucket p fires l ↔
      r.severity = l.severity ∧ r.shape ∈ p.listed l ∧ r.shape ∈ p.defined ∧ r.focus ∈ fires r.shape := by
  simp only [bucket, levelSet, List.mem_map, List.mem_eraseDups, List.mem_flatMap, List.mem_filter,
    List.contains_eq_mem, decide_eq_true_eq]
  constructor
  · rintro ⟨⟨v, n⟩, ⟨v', ⟨hl, hd⟩, n', hn, heq⟩, rfl⟩
    simp only [Prod.mk.injEq] at heq
    obtain ⟨rfl, rfl⟩ := heq
    exact ⟨rfl, hl, hd, hn⟩
  · rintro ⟨hs, hl, hd, hn⟩
    refine ⟨(r.shape, r.focus), ⟨r.shape, ⟨hl, hd⟩, r.focus, hn, rfl⟩, ?_⟩
    cases r; simp_all

theorem severity_injective : ∀ a b : Level, a.severity = b.severity → a = b := by
  intro a b; cases a <;> cases b <;> simp [Level.severity] <;> decide

theorem results_eq : (buildReport p fires c).results =
    bucket p fires .violation ++ bucket p fires .warning ++ bucket p fires .info := by
  simp only [buildReport, Report.results]
  split <;> simp_all

/-- Each result carries the severity of the level under which its validation is listed (and defined,
and firing on that node) — and every such (level, validation, node) is a result. -/
theorem severity_is_level (r : Result) :
    r ∈ (buildReport p fires c).results ↔
      ∃ l : Level, r.severity = l.severity ∧ r.shape ∈ p.listed l ∧ r.shape ∈ p.defined ∧ r.focus ∈ fires r.shape := by
  rw [results_eq]
  simp only [List.mem_append, mem_bucket]
  constructor
  · rintro ((h | h) | h)
    · exact ⟨.violation, h⟩
    · exact ⟨.warning, h⟩
    · exact ⟨.info, h⟩
  · rintro ⟨l, h⟩
    cases l
    · exact Or.inl (Or.inl h)
    · exact Or.inl (Or.inr h)
    · exact Or.inr h

/-- conforms is true exactly when no result has Violation severity -/
theorem conforms_iff :
    (buildReport p fires c).conforms = true ↔
      ∀ r ∈ (buildReport p fires c).results, r.severity ≠ Level.violation.severity := by
  rw [results_eq]
  simp only [buildReport, List.isEmpty_iff]
  constructor
  · intro h r hr
    rw [h] at hr
    simp only [List.nil_append, List.mem_append, mem_bucket] at hr
    rcases hr with h' | h' <;> rw [h'.1] <;> simp [Level.severity]
  · intro h
    cases hb : bucket p fires .violation with
    | nil => rfl
    | cons r rs =>
      have hr : r ∈ bucket p fires .violation := by rw [hb]; exact List.mem_cons_self ..
      have hsev := ((mem_bucket p fires .violation r).1 hr).1
      exact absurd hsev (h r (by simp [hr]))

/-- warnings and infos never change conforms: it only depends on the violation level -/
theorem warnings_dont_affect_conforms (p' : Profile)
    (hv : p'.violation = p.violation) (hd : p'.defined = p.defined) :
    (buildReport p' fires c).conforms = (buildReport p fires c).conforms := by
  simp [buildReport, bucket, levelSet, Profile.listed, hv, hd]

/-- the result list is omitted exactly when it is empty -/
theorem result_key_iff_nonempty :
    ((buildReport p fires c).result = none ↔ (buildReport p fires c).results = []) ∧
    (∀ rs, (buildReport p fires c).result = some rs → rs ≠ []) := by
  simp only [buildReport, Report.results]
  split <;> simp_all

theorem profileName_eq : (buildReport p fires c).profileName = p.name := rfl

/-- dateCreated is present exactly when the configuration asks for it, and then equals the configured time -/
theorem dateCreated_iff :
    (buildReport p fires c).dateCreated = (if c.includeDate then some c.time else none) := rfl

/-- the report configuration changes nothing but dateCreated and the schema entries of @context -/
theorem config_only_touches (c' : Config) :
    let r := buildReport p fires c
    let r' := buildReport p fires c'
    r.profileName = r'.profileName ∧ r.conforms = r'.conforms ∧ r.result = r'.result := by
  simp [buildReport]

/-- an undefined name in a level list contributes nothing; a name listed twice contributes once -/
theorem undefined_skipped (l : Level) (v : String) (hv : v ∉ p.defined) :
    ∀ r ∈ bucket p fires l, r.shape ≠ v := by
  intro r hr h
  exact hv (h ▸ ((mem_bucket p fires l r).1 hr).2.2.1)

/-! non-vacuity -/
def exP : Profile := ⟨"P", ["a", "ghost"], ["b", "b"], [], ["a", "b", "c"]⟩
def exFires : String → List String := fun v => if v = "b" then ["n1", "n2"] else []
def exC : Config := ⟨true, "2001-02-03T04:05:06Z", "file:///r.yaml", "file:///l.yaml"⟩
example : (buildReport exP exFires exC).conforms = true ∧ (buildReport exP exFires exC).results.length = 2 := by decide

end Acv.C03
