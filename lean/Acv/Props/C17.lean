import Acv.Model.PipelineChecks
import Acv.Gen.Pipeline
/-!
# C17 — entry points return a report or an error; they never panic

On the regenerated skeleton, with THREE outcomes (ok / error / panic) for every step that leaves it.
-/
namespace Acv.C17
open Acv.Pipe Acv.Gen

def entries : List Nat := [0, 1, 2, 3, 4, 5, 6, 7, 8]

/-- steps executed under a recover guard: the profile parser and the generator (guard of `GenerateRego`; they signal
malformed profiles by panicking) and the JSON-LD processor (guard of `NormalizeOrError`; json-gold panics on IRI
references it cannot parse when it resolves them against a base) -/
def guardedSteps : List Nat := [0, 1, 4]

/-- Whatever the profile parser, the Rego generator and the JSON-LD processor do — succeed, return an error or panic —
every entry point returns a report or an error, provided the remaining steps (OPA, encoding/json, the indexer and the
report builder) do not panic. -/
theorem total_under_guard :
    entries.all (fun entry => (oracles extCanErr).all (fun o =>
      (List.range 8).any (fun x => !guardedSteps.contains x && o.getD x .ok == .panic) ||
      (run pipeline (asOracle o) entry).2 != .panic)) = true := by decide +kernel

/-- … and the guard is what does it: a panic in the parser or the generator becomes an error -/
theorem guard_converts_panics :
    (run pipeline (asOracle [.panic]) 0).2 = .err ∧ (run pipeline (asOracle [.ok, .panic]) 0).2 = .err ∧
    (run pipeline (asOracle [.ok, .ok, .ok, .ok, .panic]) 0).2 = .err ∧
    (run pipeline (asOracle [.ok, .ok, .ok, .ok, .panic]) 1).2 = .err := by
  decide +kernel

/-- the remaining exposure, stated exactly: the entry point panics iff a step outside the guard panics
before anything else fails -/
theorem panics_only_from_unguarded_steps :
    entries.all (fun entry => (runAll pipeline extCanErr entry).all (fun r => r.2 != .panic || closeCount r.1 == 0)) = true := by
  decide +kernel

/-- without the guard (the skeleton of commit 21a97f4) a generator panic escapes -/
def unguarded : Prog := ⟨pipeline.funs.set 10
  [.emit 0, .bind (.ext 0) true, .emit 1, .ifErr [.retLast], .emit 6, .bind (.ext 1) false, .emit 7, .retLast]⟩
theorem unguarded_generator_panic_escapes : (run unguarded (asOracle [.ok, .panic]) 0).2 = .panic := by decide +kernel

end Acv.C17
