import Acv.Model.PipelineChecks
import Acv.Gen.Pipeline
/-!
# C09 — a precompiled profile is equivalent to its source and is reusable
-/
namespace Acv.C09
open Acv.Pipe Acv.Gen

/-- `Validate(profile, data)` is `ProcessProfile(profile)` followed — when that succeeds — by
`ValidateCompiled(compiled, data)` on the same arguments: same observations, same outcome, for every
outcome of every external step.  (7 = internal.ValidateWithConfiguration, 9 = ProcessProfile,
8 = internal.ValidateCompiledWithConfiguration.) -/
theorem validate_is_compile_then_validateCompiled :
    (oracles extCanErr).all (fun o =>
      let whole := run pipeline (asOracle o) 7
      let comp := run pipeline (asOracle o) 9
      let rest := run pipeline (asOracle o) 8
      match comp.2 with
      | .ok => whole == (comp.1 ++ rest.1, rest.2)
      | .err => whole == (comp.1 ++ [Obs.close], .err)
      | .panic => whole == (comp.1, .panic)) = true := by decide +kernel

/-- the public entry points are thin wrappers of the internal ones -/
theorem pkg_wrappers :
    pipeline.funs[0]? = some [.tail (.fn 5)] ∧ pipeline.funs[1]? = some [.tail (.fn 6)] ∧
    pipeline.funs[2]? = some [.tail (.fn 7)] ∧ pipeline.funs[3]? = some [.tail (.fn 8)] ∧
    pipeline.funs[5]? = some [.tail (.fn 7)] ∧ pipeline.funs[6]? = some [.tail (.fn 8)] :=
  ⟨rfl, rfl, rfl, rfl, rfl, rfl⟩

/-! ## history independence

`Eval` is modelled as a pure function of (compiled profile, document): the compiled profile carries no
state that a validation writes.  Then any history of documents through one compiled profile yields, for
each document, what a fresh validation yields. -/

structure Engine (C D R : Type) where
  compile : String → Option C
  evalDoc : C → D → R

def runHistory {C D R : Type} (e : Engine C D R) (c : C) : List D → List R
  | [] => []
  | d :: ds => e.evalDoc c d :: runHistory e c ds

theorem history_independent {C D R : Type} (e : Engine C D R) (c : C) (docs : List D) :
    runHistory e c docs = docs.map (e.evalDoc c) := by
  induction docs with
  | nil => rfl
  | cons d ds ih => simp [runHistory, ih]

/-- position `i` of a history equals the fresh validation of document `i`, whatever came before
(repeats, failing documents, …) -/
theorem history_position {C D R : Type} (e : Engine C D R) (c : C) (docs : List D) (i : Nat) (h : i < docs.length) :
    (runHistory e c docs)[i]'(by simp [history_independent, h]) = e.evalDoc c docs[i] := by
  simp [history_independent]

end Acv.C09
