import Acv.Model.Lexical
import Acv.Lemmas.Lexical
/-!
# C14 — the four numbers of a lexical range string are recovered exactly

Spec: the producer renders `[(a,b)-(c,d)]` with decimal numbers (`fmtRange`).
Impl-model: the policy takes the first four maximal digit runs (`regex.find_n("\\d+", s, 4)`) and
converts each with `to_number` (`parseRange`).  All statements hold for all naturals (no magnitude bound).
-/
namespace Acv.C14
open Acv

/-- Decimal rendering followed by decimal reading is the identity. -/
theorem readNat_showNat (n : Nat) : readNat (showNat n) = n :=
  readNat_showNat' n

/-- The rendering consists of ASCII digits only and is never empty. -/
theorem showNat_digits (n : Nat) : (∀ c ∈ showNat n, isDigit c = true) ∧ showNat n ≠ [] :=
  ⟨showNat_all_digits n, showNat_ne_nil n⟩

/-- Different numbers have different renderings. -/
theorem showNat_injective {a b : Nat} (h : showNat a = showNat b) : a = b := by
  rw [← readNat_showNat a, ← readNat_showNat b, h]

/-- The digit runs of a rendered range are exactly the four renderings, in order. -/
theorem digitRuns_range (a b c d : Nat) :
    digitRuns (fmtRange a b c d) = [showNat a, showNat b, showNat c, showNat d] := by
  have ha := showNat_digits a
  have hb := showNat_digits b
  have hc := showNat_digits c
  have hd := showNat_digits d
  simp only [fmtRange, List.append_assoc, List.cons_append, List.nil_append]
  rw [digitRuns_nondigit _ _ (by decide), digitRuns_nondigit _ _ (by decide),
    digitRuns_run _ _ _ ha.1 ha.2 (by decide),
    digitRuns_run _ _ _ hb.1 hb.2 (by decide),
    digitRuns_nondigit _ _ (by decide), digitRuns_nondigit _ _ (by decide),
    digitRuns_run _ _ _ hc.1 hc.2 (by decide),
    digitRuns_run _ _ _ hd.1 hd.2 (by decide),
    digitRuns_nondigit _ _ (by decide)]
  rfl

/-- What the policy extracts from a rendered range is the four numbers that were rendered. -/
theorem parseRange_fmtRange (a b c d : Nat) : parseRange (fmtRange a b c d) = some (a, b, c, d) := by
  simp only [parseRange, digitRuns_range, readNat_showNat]

/-- Robustness: a digit-free prefix and an arbitrary suffix around the range do not change the first
four runs (the range ends with `)]`, so a suffix starting with digits cannot extend the fourth run). -/
theorem digitRuns_range_junk (pre post : List Char) (a b c d : Nat)
    (hpre : ∀ x ∈ pre, isDigit x = false) :
    digitRuns (pre ++ fmtRange a b c d ++ post)
      = [showNat a, showNat b, showNat c, showNat d] ++ digitRuns post := by
  have ha := showNat_digits a
  have hb := showNat_digits b
  have hc := showNat_digits c
  have hd := showNat_digits d
  rw [List.append_assoc, digitRuns_junk pre _ hpre]
  simp only [fmtRange, List.append_assoc, List.cons_append, List.nil_append]
  rw [digitRuns_nondigit _ _ (by decide), digitRuns_nondigit _ _ (by decide),
    digitRuns_run _ _ _ ha.1 ha.2 (by decide),
    digitRuns_run _ _ _ hb.1 hb.2 (by decide),
    digitRuns_nondigit _ _ (by decide), digitRuns_nondigit _ _ (by decide),
    digitRuns_run _ _ _ hc.1 hc.2 (by decide),
    digitRuns_run _ _ _ hd.1 hd.2 (by decide),
    digitRuns_nondigit _ _ (by decide)]

theorem parseRange_junk (pre post : List Char) (a b c d : Nat)
    (hpre : ∀ x ∈ pre, isDigit x = false) :
    parseRange (pre ++ fmtRange a b c d ++ post) = some (a, b, c, d) := by
  simp only [parseRange, digitRuns_range_junk pre post a b c d hpre, List.cons_append,
    List.nil_append, readNat_showNat]

/-! ### concrete instances -/
example : showNat 0 = ['0'] := rfl
example : showNat 7 = ['7'] := by decide
example : showNat 10 = ['1', '0'] := by decide
example : showNat 12345678901234567890123 = "12345678901234567890123".toList := by decide
example : readNat "12345678901234567890123".toList = 12345678901234567890123 := by decide
example : fmtRange 4 2 5 0 = "[(4,2)-(5,0)]".toList := by decide
example : parseRange "[(4,2)-(5,0)]".toList = some (4, 2, 5, 0) := by decide
example : parseRange "[(10,7)-(12345678901234567890123,0)]".toList
    = some (10, 7, 12345678901234567890123, 0) := by decide
example : digitRuns "a12b3".toList = [['1', '2'], ['3']] := by decide
/-- fewer than four numbers: nothing is extracted -/
example : parseRange "[(4,2)-(5,)]".toList = none := by decide
/-- leading zeros are read as the same number (so the renderer must not, and does not, emit them) -/
example : readNat "007".toList = 7 := by decide

end Acv.C14

#print axioms Acv.C14.readNat_showNat
#print axioms Acv.C14.showNat_digits
#print axioms Acv.C14.showNat_injective
#print axioms Acv.C14.digitRuns_range
#print axioms Acv.C14.parseRange_fmtRange
#print axioms Acv.C14.digitRuns_range_junk
#print axioms Acv.C14.parseRange_junk
