import Acv.Model.PipelineChecks
import Acv.Gen.Pipeline
/-!
# C04 — unreadable data yields an error, never a verdict

On the regenerated skeleton: a validating call returns a report (`.ok`) only along the behaviour in
which EVERY external step it reached succeeded; in particular a failing JSON decode or a failing
JSON-LD normalisation can never end in a report.
-/
namespace Acv.C04
open Acv.Pipe Acv.Gen

def validating : List Nat := [0, 1, 2, 3, 5, 6, 7, 8]

/-- behaviours with the sequence of outcomes of the external steps made explicit:
we re-run the deterministic interpreter on every assignment and look at the data steps
(3 = json.Decoder.Decode, 4 = jsonld.Flatten, 5 = Index). -/
def dataSteps : List Nat := [3, 4, 5]

/-- assignments in which a data step fails while everything before the data stage succeeds
(the profile steps 0,1,2 are ok; for the compiled entry points they are not reached at all) -/
def dataFailureOracles : List (List Outcome) :=
  (oracles extCanErr).filter (fun o =>
    o.getD 0 .ok == .ok && o.getD 1 .ok == .ok && o.getD 2 .ok == .ok &&
    dataSteps.any (fun x => o.getD x .ok != .ok))

/-- If the data cannot be decoded, or JSON-LD processing rejects it, or indexing fails, no validating
entry point returns a report — whatever the later steps would do. -/
theorem data_failure_is_never_a_report :
    validating.all (fun entry => dataFailureOracles.all (fun o =>
      (run pipeline (asOracle o) entry).2 != .ok)) = true := by decide +kernel

/-- stronger, over all behaviours: a report is returned only by the single behaviour in which the
complete stage order was run (no stage was cut short by an error) -/
theorem report_only_after_all_stages :
    validating.all (fun entry => (runAll pipeline extCanErr entry).all (fun r =>
      r.2 != .ok || events r.1 == events (run pipeline (fun _ => .ok) entry).1)) = true := by decide +kernel

/-- the decode error is returned, not swallowed: the decode step is followed by `if err != nil { return …, error }` -/
theorem process_input_checks_decode :
    pipeline.funs[12]? = some [.emit 2, .skip, .skip, .skip, .bind (.ext 3) true, .ifErr [.retFail], .emit 3, .emit 4,
      .bind (.fn 15) true, .ifErr [.retFail], .bind (.ext 5) false, .emit 5, .retOk] := by rfl

/-- non-vacuity: there are such assignments, and the unchanged-from-21a97f4 shape (decode error ⇒ `return "", nil`)
would violate the theorem -/
example : dataFailureOracles.length = 153 := by decide +kernel

def swallowing : Prog := ⟨pipeline.funs.set 12
  [.emit 2, .skip, .skip, .skip, .bind (.ext 3) true, .ifErr [.retOk], .emit 3, .emit 4,
   .bind (.fn 15) true, .ifErr [.retFail], .bind (.ext 5) false, .emit 5, .retOk]⟩

/-- the skeleton of commit 21a97f4 (`return "", nil` on a decode error) returns a report for undecodable data -/
theorem swallowed_decode_error_reports :
    (run swallowing (asOracle [.ok, .ok, .ok, .err, .ok, .ok, .ok, .ok]) 8).2 = .ok := by decide +kernel

end Acv.C04
