import Lean.Data.Json
import Acv.Model.Atoms
/-! JSON decoding of protocol cases (trusted glue of the correspondence check; not part of any theorem) -/
namespace Acv.Driver
open Lean (Json)

abbrev R := Except String

def arr (j : Json) : R (Array Json) := j.getArr?
def str (j : Json) : R String := j.getStr?
def fld (j : Json) (k : String) : R Json := j.getObjVal? k
def fldStr (j : Json) (k : String) : R String := do str (← fld j k)
def fldNat (j : Json) (k : String) : R Nat := do (← fld j k).getNat?
def fldInt (j : Json) (k : String) : R Int := do (← fld j k).getInt?
def fldBool (j : Json) (k : String) : R Bool := do (← fld j k).getBool?
def fldBoolD (j : Json) (k : String) (d : Bool) : Bool :=
  match fldBool j k with | .ok b => b | .error _ => d
def has (j : Json) (k : String) : Bool := match j.getObjVal? k with | .ok .null => false | .ok _ => true | .error _ => false
def fldArr (j : Json) (k : String) : R (List Json) := do
  if !has j k then return []
  return (← arr (← fld j k)).toList
def strList (j : Json) : R (List String) := do (← arr j).toList.mapM str

def decVal (j : Json) : R Val := do
  if has j "s" then return .str (← fldStr j "s")
  if has j "i" then return .num (← fldInt j "i")
  if has j "b" then return .bool (← fldBool j "b")
  if has j "r" then return .ref (← fldStr j "r")
  throw s!"bad value {j.compress}"

def decNode (j : Json) : R Node := do
  let id ← fldStr j "id"
  let types ← strList (← fld j "types")
  let props ← (← fldArr j "props").mapM fun pj => do
    let a ← arr pj
    let iri ← str a[0]!
    let vs ← (← arr a[1]!).toList.mapM decVal
    return (iri, vs)
  return { id, types, props }

def decGraph (j : Json) : R Graph := do (← arr j).toList.mapM decNode

partial def decPath (j : Json) : R Path := do
  if has j "p" then return .prop (← fldStr j "p") (fldBoolD j "inv" false)
  if has j "seq" then return .seq (← (← fldArr j "seq").mapM decPath)
  if has j "alt" then return .alt (← (← fldArr j "alt").mapM decPath)
  throw s!"bad path {j.compress}"

def decOp (s : String) : R Dnf.Op :=
  match s with
  | "le" => pure .le | "lt" => pure .lt | "eq" => pure .eq
  | "ne" => pure .ne | "gt" => pure .gt | "ge" => pure .ge
  | _ => throw s!"bad op {s}"

def decAtom (j : Json) : R Atom := do
  let kind ← fldStr j "kind"
  let p ← decPath (← fld j "path")
  match kind with
  | "minCount" => return .count .min p (← fldNat j "arg")
  | "maxCount" => return .count .max p (← fldNat j "arg")
  | "exactCount" => return .count .exact p (← fldNat j "arg")
  | "minLength" => return .length .min p (← fldNat j "arg")
  | "maxLength" => return .length .max p (← fldNat j "arg")
  | "exactLength" => return .length .exact p (← fldNat j "arg")
  | "in" => return .inSet p (← if has j "vals" then strList (← fld j "vals") else pure [])   -- an empty list is omitted by the case encoder
  | "containsAll" => return .containsAll p (← if has j "vals" then strList (← fld j "vals") else pure [])   -- an empty list is omitted by the case encoder
  | "containsSome" => return .containsSome p (← if has j "vals" then strList (← fld j "vals") else pure [])   -- an empty list is omitted by the case encoder
  | "minInclusive" => return .numeric .ge p (← fldInt j "arg")
  | "minExclusive" => return .numeric .gt p (← fldInt j "arg")
  | "maxInclusive" => return .numeric .le p (← fldInt j "arg")
  | "maxExclusive" => return .numeric .lt p (← fldInt j "arg")
  | "lessThanProperty" => return .propCmp .lt p (← decPath (← fld j "other"))
  | "lessThanOrEqualsToProperty" => return .propCmp .le p (← decPath (← fld j "other"))
  | "equalsToProperty" => return .propCmp .eq p (← decPath (← fld j "other"))
  | "disjointWithProperty" => return .propCmp .ne p (← decPath (← fld j "other"))
  | "moreThanProperty" => return .propCmp .gt p (← decPath (← fld j "other"))
  | "moreThanOrEqualsToProperty" => return .propCmp .ge p (← decPath (← fld j "other"))
  | "datatype" => return .datatype p (← fldStr j "dt")
  | "pattern" => return .pattern p (fldBoolD j "anchorStart" false) (fldBoolD j "anchorEnd" false) (← fldStr j "lit")
  | "uniqueValues" => return .uniqueValues p (fldBoolD j "uarg" true)
  | k => throw s!"bad atom kind {k}"

partial def decRule (j : Json) : R Dnf.Rule := do
  let neg := fldBoolD j "neg" false
  if has j "not" then return Dnf.negate (← decRule (← fld j "not"))
  if has j "atom" then return .atom neg (← fldNat j "atom")
  if has j "and" then return .and (← (← fldArr j "and").mapM decRule)
  if has j "or" then return .or (← (← fldArr j "or").mapM decRule)
  if has j "if" then
    let i ← decRule (← fld j "if")
    let t ← decRule (← fld j "then")
    if has j "else" then return .condE neg i t (← decRule (← fld j "else"))
    return .cond neg i t
  if has j "nested" then
    let r ← decRule (← fld j "nested")
    let p ← fldNat j "path"
    if has j "q" then
      let q ← fld j "q"
      return .nested neg p (.card (← decOp (← fldStr q "op")) (← fldNat q "k")) r
    return .nested neg p .all r
  throw s!"bad rule {j.compress}"

end Acv.Driver
