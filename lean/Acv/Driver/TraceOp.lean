import Acv.Driver.Decode
import Acv.Model.Trace
/-!
# op `c12t`: the traces of every result, in a canonical rendering

Input: an abstract case exactly like op `c01`'s (`graph`, `atoms`, `paths`, `validations`).

Output: `{"results": {"<validation>|<focus @id>": MS, …}}` with one key per (validation, target node)
that has at least one result, where

    MS    = [[count, R], …]             multiset of results: distinct items with their multiplicities
    R     = [E, …]                      the trace of one result, its entries sorted
    E     = [component, resultPath]                 entry of an atomic literal
          | [component, resultPath, SUBMS]          entry of a nested / quantified literal
    SUBMS = [[count, [focus @id, R]], …]            multiset of the entry's `traceValue.subResult`

Items of a multiset / entries of a trace are sorted by their compact JSON text (the comparison script
re-sorts both sides, so only the grouping matters).

The rule heads of the policy are Rego sets: top-level results that are equal as JSON values collapse.
The model's `resultsOf` is the list before the collapse; this op collapses results whose full keys
(shape, focus, per entry IN ORDER: component, path, trace value, sub-results) are equal.  The order of
the entries is the model's order of literals in the branch; the Go translator sorts `and`/`or` bodies by
their printed form before emitting branches, so two branches that are permutations of each other in the
model can be literally equal in the policy (then the policy reports one result where this op reports
two with the same canonical rendering).  Therefore only the SET of canonical top-level results per
(validation, node) is claimed; the multiplicities are informative.  Sub-results are an array in the
policy and are not collapsed: their multiset is claimed exactly (the key of an entry ignores the order
of its sub-results: the policy lists them branch-major, the model node-major).
-/
namespace Acv.Driver
open Lean (Json)
open Acv.Tr

def sortStrings (l : List String) : Array String := l.toArray.qsort (· < ·)

mutual
/-- full key of a result: everything the JSON value shows (up to the order of sub-results) -/
partial def resultKey (r : Result Node) : String :=
  match r with
  | .mk shape focus trace =>
    let ks := (trace.map traceKey).toArray
    shape.quote ++ focus.id.quote ++ "[" ++ ks.foldl (fun acc k => acc ++ k ++ ";") "" ++ "]"
partial def traceKey (t : Trace Node) : String :=
  match t with
  | .mk c p v sub =>
    let ks := sortStrings (sub.map resultKey)
    c.quote ++ p.quote ++ v.quote ++ "{" ++ ks.foldl (fun acc k => acc ++ k ++ ";") "" ++ "}"
end

/-- group equal items: sorted `[count, item]` pairs -/
def multiset (items : List Json) : Json :=
  let keyed := (items.toArray.map (fun j => (j.compress, j))).qsort (fun a b => a.1 < b.1)
  let groups : Array (String × Json × Nat) := keyed.foldl (init := #[]) fun acc (k, j) =>
    match acc.back? with
    | some (k', j', c) => if k' == k then acc.pop.push (k', j', c + 1) else acc.push (k, j, 1)
    | none => acc.push (k, j, 1)
  Json.arr (groups.map (fun (_, j, c) => Json.arr #[Json.num c, j]))

mutual
partial def canonTrace (trace : List (Trace Node)) : Json :=
  let es := (trace.toArray.map canonEntry).map (fun j => (j.compress, j))
  Json.arr ((es.qsort (fun a b => a.1 < b.1)).map (·.2))
partial def canonEntry (t : Trace Node) : Json :=
  match t with
  | .mk c p _ sub =>
    if c == "nested" || ["atLeast", "atMost", "exactly", "exactlyOrMore", "exactlyOrLess", "distinctFrom"].contains c then
      Json.arr #[Json.str c, Json.str p,
        multiset (sub.map (fun r => Json.arr #[Json.str r.focus.id, canonTrace r.trace]))]
    else Json.arr #[Json.str c, Json.str p]
end

/-- collapse results with equal keys (the Rego set), keep the first of each -/
def collapse (rs : List (Result Node)) : List (Result Node) :=
  let keyed := (rs.toArray.map (fun r => (resultKey r, r))).qsort (fun a b => a.1 < b.1)
  let kept : Array (String × Result Node) := keyed.foldl (init := #[]) fun acc (k, r) =>
    match acc.back? with
    | some (k', _) => if k' == k then acc else acc.push (k, r)
    | none => acc.push (k, r)
  (kept.map (·.2)).toList

def opC12t (j : Json) : R Json := do
  let g ← decGraph (← fld j "graph")
  let atoms ← (← fldArr j "atoms").mapM decAtom
  let paths ← (← fldArr j "paths").mapM decPath
  let env := graphTEnv g atoms.toArray paths.toArray
  let vals ← fldArr j "validations"
  let mut out : List (String × Json) := []
  for v in vals do
    let name ← fldStr v "name"
    let cls ← fldStr v "class"
    let r ← decRule (← fld v "rule")
    for n in g.targets cls do
      let rs := resultsOn env name r [n]
      if !rs.isEmpty then
        out := (s!"{name}|{n.id}", multiset ((collapse rs).map (fun r => canonTrace r.trace))) :: out
  return Json.mkObj [("results", Json.mkObj out.reverse)]

end Acv.Driver
