import Acv.Driver.Decode
import Acv.Model.Milestones
import Acv.Gen.Milestones
/-! driver op `ms`: the milestone generator model on one list of events.

in:  `{"op":"ms","events":[[type,time],...]}` (time: integer nanoseconds relative to the harness's fixed instant)
out: `{"milestones":[[operation, start|null, duration|null],...]}`; `null` = Go's zero time / a duration computed from it.

An event type below zero cannot be a constant of the table (`EventType` constants are an iota block, the table holds naturals):
the driver drops such events before the fold, which is what "not a case of the switch" means for them. -/
namespace Acv.Driver
open Lean (Json)

def decEvent (j : Json) : R (Option Ms.Event) := do
  let a ← arr j
  if a.size != 2 then throw "event is not [type,time]"
  let ty ← a[0]!.getInt?
  let t ← a[1]!.getInt?
  return if ty < 0 then none else some ⟨ty.toNat, t⟩

def jOptInt : Option Int → Json
  | none => Json.null
  | some i => Json.num (Lean.JsonNumber.fromInt i)

def opMs (j : Json) : R Json := do
  let evs ← (← fldArr j "events").mapM decEvent
  let ms := Ms.milestones Gen.milestoneTable (evs.filterMap id)
  return Json.mkObj [("milestones", Json.arr (ms.map (fun m =>
    Json.arr #[Json.str m.op, jOptInt m.start, jOptInt m.duration])).toArray)]

end Acv.Driver
