import Acv.Driver.Decode
import Acv.Driver.ParseOp
import Acv.Model.FrontEnd
/-! `c01y`: the c01 verdicts computed from the YAML node tree of the profile through `FE.frontEnd`
(trusted glue: decoding, encoding, and the diagnosis of unsupported constructs) -/
namespace Acv.Driver
open Lean (Json)
open Acv.PP Acv.FE

def atomName : PP.Atom → String
  | .count name .. => name
  | .set name .. => name
  | .pattern arg => s!"pattern {arg}"
  | .unique _ => "uniqueValues"
  | .propcmp name _ other => s!"{name}Property {other.source}"
  | .numeric name _ (.int _) => name
  | .numeric name _ (.float t) => s!"{name} {t} (float)"
  | .datatype arg => s!"datatype {arg}"
  | .rego .. => "rego"

/-- why `toRule` gave up: the first construct outside the fragment -/
partial def whyRule (ctx : Ctx) : PRule → List String
  | .atom _ _ path a =>
    match pathOf ctx path with
    | none => [s!"path '{path.source}' ({path.dump})"]
    | some p => match atomOf ctx p a with
      | none => [s!"atom {atomName a} on '{path.source}'"]
      | some _ => []
  | .and _ body => body.flatMap (whyRule ctx)
  | .or _ body => body.flatMap (whyRule ctx)
  | .cond _ body =>
    (if body.length == 2 || body.length == 3 then [] else [s!"conditional with {body.length} parts"]) ++
      body.flatMap (whyRule ctx)
  | .nested _ _ child path value =>
    (match pathOf ctx path with
     | none => [s!"nested path '{path.source}' ({path.dump})"]
     | some _ => []) ++
    (match quantOf child with
     | none => [s!"quantifier of {child.name}"]
     | some _ => []) ++ whyRule ctx value
  | .top name _ cls _ _ _ _ value =>
    ((match expandS ctx cls with
     | none => [s!"targetClass {cls}"]
     | some _ => []) ++ whyRule ctx value).map (fun s => s!"{name}: {s}")

def sortStrs' (l : List String) : List String := (l.toArray.qsort (· < ·)).toList

def opC01y (j : Json) : R Json := do
  let g ← decGraph (← fld j "graph")
  if !has j "tree" then return Json.mkObj [("outcome", Json.str "unsupported"), ("why", Json.str "no tree")]
  let y ← decY (← fld j "tree")
  match frontEnd y with
  | .error e =>
    let why := match parseProfile y with
      | .ok p =>
        let ws := (p.violation ++ p.warning ++ p.info).flatMap (whyRule (ctxOf p.prefixes))
        String.intercalate "; " ws
      | .error pe => s!"parse: {pe}"
    return Json.mkObj [("outcome", Json.str "unsupported"), ("why", Json.str s!"{e}: {why}")]
  | .ok (vals, t) =>
    let env := envOf g t
    let mut spec : List String := []
    let mut impl : List String := []
    for v in vals do
      let dnf := Dnf.dispatch v.rule
      for n in g.targets v.cls do
        if !Dnf.holds env v.rule n then spec := s!"{v.name}|{n.id}" :: spec
        if Dnf.dnfFires env (dnf.map Dnf.Gen.toBranch) n then impl := s!"{v.name}|{n.id}" :: impl
    -- the specification `sat` evaluated on the parsed trees themselves (theorem `sat_iff_holds` says this is `reported`)
    let mut viaSat : List String := []
    match parseProfile y with
    | .error _ => pure ()
    | .ok p =>
      let ctx := ctxOf p.prefixes
      for r in p.violation ++ p.warning ++ p.info do
        match r with
        | .top name _ cls _ _ _ _ _ =>
          match expandS ctx cls with
          | some c =>
            for n in g.targets c do
              if !sat ctx g r n then viaSat := s!"{name}|{n.id}" :: viaSat
          | none => pure ()
        | _ => pure ()
    return Json.mkObj [
      ("outcome", Json.str "ok"),
      ("satReported", Json.arr ((sortStrs' viaSat).map Json.str).toArray),
      ("reported", Json.arr ((sortStrs' spec).map Json.str).toArray),
      ("implReported", Json.arr ((sortStrs' impl).map Json.str).toArray),
      ("atoms", Json.num t.atoms.length), ("paths", Json.num t.paths.length)]

end Acv.Driver
