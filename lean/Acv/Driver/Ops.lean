import Acv.Driver.Decode
import Acv.Model.PipelineChecks
import Acv.Gen.Pipeline
/-! protocol operations: one JSON case in, one JSON line out -/
namespace Acv.Driver
open Lean (Json)

def sortStrs (l : List String) : List String := (l.toArray.qsort (· < ·)).toList

def jstrs (l : List String) : Json := Json.arr (l.map Json.str).toArray

/-- c02: values reached by a path from a focus node -/
def opC02 (j : Json) : R Json := do
  let g ← decGraph (← fld j "graph")
  let p ← decPath (← fld j "path")
  let fetch := fldBoolD j "fetch" false
  let focus ← fldStr j "focus"
  match g.find focus with
  | none => throw "no focus"
  | some n =>
    let spec := (den g p fetch n).eraseDups
    let impl := (pathValues g p fetch n).eraseDups
    return Json.mkObj [
      ("values", jstrs (sortStrs (spec.map Item.asString).eraseDups)),
      ("count", Json.num spec.length),
      ("implValues", jstrs (sortStrs (impl.map Item.asString).eraseDups)),
      ("implCount", Json.num impl.length)]

/-- c01: which (validation, node) pairs are reported -/
def opC01 (j : Json) : R Json := do
  let g ← decGraph (← fld j "graph")
  let atoms ← (← fldArr j "atoms").mapM decAtom
  let paths ← (← fldArr j "paths").mapM decPath
  let env := graphEnv g atoms.toArray paths.toArray
  let vals ← fldArr j "validations"
  let mut spec : List String := []
  let mut impl : List String := []
  for v in vals do
    let name ← fldStr v "name"
    let cls ← fldStr v "class"
    let r ← decRule (← fld v "rule")
    let dnf := Dnf.dispatch r
    for n in g.targets cls do
      if !Dnf.holds env r n then spec := s!"{name}|{n.id}" :: spec
      if Dnf.dnfFires env (dnf.map Dnf.Gen.toBranch) n then impl := s!"{name}|{n.id}" :: impl
  return Json.mkObj [("reported", jstrs (sortStrs spec)), ("implReported", jstrs (sortStrs impl))]

def decOutcome (s : String) : R Pipe.Outcome :=
  match s with
  | "ok" => pure .ok | "err" => pure .err | "panic" => pure .panic
  | _ => throw s!"bad outcome {s}"

def outcomeStr : Pipe.Outcome → String
  | .ok => "ok" | .err => "err" | .panic => "panic"

/-- pipe: run the regenerated pipeline skeleton under a given outcome of each external step -/
def opPipe (j : Json) : R Json := do
  let entry ← fldNat j "entry"
  let oracle ← (← fldArr j "oracle").mapM (fun x => do decOutcome (← str x))
  let (tr, out) := Pipe.run Gen.pipeline (Pipe.asOracle oracle) entry
  let evs := Pipe.events tr
  let ms := Pipe.milestones Gen.milestoneStarts Gen.milestoneDones evs
  let names := ms.map (fun m => ((Gen.eventNames.getD (evs.getD m.1 0) "").dropEnd 5).toString)
  return Json.mkObj [
    ("outcome", Json.str (outcomeStr out)),
    ("events", Json.arr (evs.map (fun (e : Nat) => Json.num (Lean.JsonNumber.fromNat e))).toArray),
    ("closes", Json.num (Pipe.closeCount tr)),
    ("milestones", jstrs names)]

def runOp (j : Json) : R Json := do
  match ← fldStr j "op" with
  | "c01" => opC01 j
  | "c02" => opC02 j
  | "pipe" => opPipe j
  | op => throw s!"unknown op {op}"

def handleLine (line : String) : String :=
  match Json.parse line with
  | .error e => (Json.mkObj [("error", Json.str s!"parse: {e}")]).compress
  | .ok j =>
    match runOp j with
    | .ok r => r.compress
    | .error e => (Json.mkObj [("error", Json.str e)]).compress

end Acv.Driver
