import Acv.Driver.Decode
import Acv.Model.PipelineChecks
import Acv.Model.Report
import Acv.Model.Cli
import Acv.Gen.Cli
import Acv.Model.Peg
import Acv.Gen.PathGrammar
import Acv.Gen.Pipeline
/-! protocol operations: one JSON case in, one JSON line out -/
namespace Acv.Driver
open Lean (Json)

def sortStrs (l : List String) : List String := (l.toArray.qsort (· < ·)).toList

def jstrs (l : List String) : Json := Json.arr (l.map Json.str).toArray

/-- c02: values reached by a path from a focus node -/
def opC02 (j : Json) : R Json := do
  let g ← decGraph (← fld j "graph")
  let p ← decPath (← fld j "path")
  let fetch := fldBoolD j "fetch" false
  let focus ← fldStr j "focus"
  match g.find focus with
  | none => throw "no focus"
  | some n =>
    let spec := (den g p fetch n).eraseDups
    let impl := (pathValues g p fetch n).eraseDups
    return Json.mkObj [
      ("values", jstrs (sortStrs (spec.map Item.asString).eraseDups)),
      ("count", Json.num spec.length),
      ("implValues", jstrs (sortStrs (impl.map Item.asString).eraseDups)),
      ("implCount", Json.num impl.length)]

/-- c01: which (validation, node) pairs are reported -/
def opC01 (j : Json) : R Json := do
  let g ← decGraph (← fld j "graph")
  let atoms ← (← fldArr j "atoms").mapM decAtom
  let paths ← (← fldArr j "paths").mapM decPath
  let env := graphEnv g atoms.toArray paths.toArray
  let vals ← fldArr j "validations"
  let mut spec : List String := []
  let mut impl : List String := []
  for v in vals do
    let name ← fldStr v "name"
    let cls ← fldStr v "class"
    let r ← decRule (← fld v "rule")
    let dnf := Dnf.dispatch r
    for n in g.targets cls do
      if !Dnf.holds env r n then spec := s!"{name}|{n.id}" :: spec
      if Dnf.dnfFires env (dnf.map Dnf.Gen.toBranch) n then impl := s!"{name}|{n.id}" :: impl
  return Json.mkObj [("reported", jstrs (sortStrs spec)), ("implReported", jstrs (sortStrs impl))]

def decOutcome (s : String) : R Pipe.Outcome :=
  match s with
  | "ok" => pure .ok | "err" => pure .err | "panic" => pure .panic
  | _ => throw s!"bad outcome {s}"

def outcomeStr : Pipe.Outcome → String
  | .ok => "ok" | .err => "err" | .panic => "panic"

/-- pipe: run the regenerated pipeline skeleton under a given outcome of each external step -/
def opPipe (j : Json) : R Json := do
  let entry ← fldNat j "entry"
  let oracle ← (← fldArr j "oracle").mapM (fun x => do decOutcome (← str x))
  let (tr, out) := Pipe.run Gen.pipeline (Pipe.asOracle oracle) entry
  let evs := Pipe.events tr
  let ms := Pipe.milestones Gen.milestoneStarts Gen.milestoneDones evs
  let names := ms.map (fun m => ((Gen.eventNames.getD (evs.getD m.1 0) "").dropEnd 5).toString)
  return Json.mkObj [
    ("outcome", Json.str (outcomeStr out)),
    ("events", Json.arr (evs.map (fun (e : Nat) => Json.num (Lean.JsonNumber.fromNat e))).toArray),
    ("closes", Json.num (Pipe.closeCount tr)),
    ("milestones", jstrs names)]

/-- c03: header of the report for a profile with validations spread over the three levels -/
def opC03 (j : Json) : R Json := do
  let g ← decGraph (← fld j "graph")
  let atoms ← (← fldArr j "atoms").mapM decAtom
  let paths ← (← fldArr j "paths").mapM decPath
  let env := graphEnv g atoms.toArray paths.toArray
  let vals ← (← fldArr j "validations").mapM fun v => do
    return (← fldStr v "name", ← fldStr v "class", ← decRule (← fld v "rule"))
  let lv ← fld j "levels"
  let names (k : String) : R (List String) := do (← fldArr lv k).mapM str
  let prof : Rep.Profile := {
    name := ← fldStr j "profileName", violation := ← names "violation", warning := ← names "warning",
    info := ← names "info", defined := vals.map (·.1) }
  let fires (v : String) : List String :=
    match vals.find? (fun x => x.1 == v) with
    | some (_, cls, r) => ((g.targets cls).filter (fun n => !Dnf.holds env r n)).map (·.id)
    | none => []
  let cj ← fld j "config"
  let cfg : Rep.Config := {
    includeDate := ← fldBool cj "includeDate", time := ← fldStr cj "time",
    reportSchema := ← fldStr cj "reportSchema", lexicalSchema := ← fldStr cj "lexicalSchema" }
  let rep := Rep.buildReport prof fires cfg
  return Json.mkObj [
    ("conforms", Json.bool rep.conforms),
    ("profileName", Json.str rep.profileName),
    ("hasResult", Json.bool rep.result.isSome),
    ("dateCreated", match rep.dateCreated with | some d => Json.str d | none => Json.null),
    ("results", jstrs (sortStrs (rep.results.map (fun r => s!"{r.severity}|{r.shape}|{r.focus}")))),
    ("ctxReportSchema", Json.str rep.ctxReportSchema),
    ("ctxLexicalSchema", match rep.ctxLexicalSchema with | some d => Json.str d | none => Json.null)]

/-- cli: what the command line must leave on stdout / in the output file, given the library's output -/
def opCli (j : Json) : R Json := do
  let sub ← fldStr j "sub"
  let toFile := fldBoolD j "toFile" false
  let trunc := Gen.openFlags.contains "O_TRUNC"
  let lib : Except String (List Char) :=
    if has j "lib" then match fldStr j "lib" with | .ok s => .ok s.toList | .error e => .error e else .error "failed"
  let prior : Cli.FileState := if has j "prior" then
      match fldStr j "prior" with | .ok s => .content s.toList | .error _ => .absent
    else .absent
  let run : Cli.Run :=
    if sub == "validate" then Cli.validateCmd trunc lib (if toFile then some prior else none)
    else match lib with
      | .ok text => ⟨0, Cli.printed text, .absent⟩
      | .error _ => ⟨2, [], .absent⟩
  return Json.mkObj [
    ("exitZero", Json.bool (run.exit == 0)),
    ("stdout", Json.str (String.ofList run.stdout)),
    ("file", match run.file with | .absent => Json.null | .content bs => Json.str (String.ofList bs))]

/-- c16: the path parser model (generic PEG interpreter over the regenerated table) on one string -/
def opC16 (j : Json) : R Json := do
  let text ← fldStr j "text"
  let result :=
    if text.isEmpty then "null"        -- ParsePath: the empty string is the null path
    else match parsePath Gen.pathGrammarGo text.toList with
      | some p => String.ofList (dumpPath p)
      | none => "REJECT"
  return Json.mkObj [("result", Json.str result)]

def runOp (j : Json) : R Json := do
  match ← fldStr j "op" with
  | "c01" => opC01 j
  | "c02" => opC02 j
  | "pipe" => opPipe j
  | "c03" => opC03 j
  | "cli" => opCli j
  | "c16" => opC16 j
  | op => throw s!"unknown op {op}"

def handleLine (line : String) : String :=
  match Json.parse line with
  | .error e => (Json.mkObj [("error", Json.str s!"parse: {e}")]).compress
  | .ok j =>
    match runOp j with
    | .ok r => r.compress
    | .error e => (Json.mkObj [("error", Json.str e)]).compress

end Acv.Driver
