import Acv.Driver.Decode
import Acv.Driver.ParseOp
import Acv.Driver.FrontEndOp
import Acv.Driver.TraceOp
import Acv.Driver.MilestonesOp
import Acv.Model.PipelineChecks
import Acv.Model.Report
import Acv.Model.Cli
import Acv.Gen.Cli
import Acv.Model.Peg
import Acv.Model.Message
import Acv.Model.ReportIds
import Acv.Model.LexIndex
import Acv.Gen.Tables
import Acv.Model.Ld
import Acv.Model.LdContext
import Acv.Gen.PathGrammar
import Acv.Gen.Pipeline
/-! protocol operations: one JSON case in, one JSON line out -/
namespace Acv.Driver
open Lean (Json)

def sortStrs (l : List String) : List String := (l.toArray.qsort (· < ·)).toList

def jstrs (l : List String) : Json := Json.arr (l.map Json.str).toArray

/-- c02: values reached by a path from a focus node -/
def opC02 (j : Json) : R Json := do
  let g ← decGraph (← fld j "graph")
  let p ← decPath (← fld j "path")
  let fetch := fldBoolD j "fetch" false
  let focus ← fldStr j "focus"
  match g.find focus with
  | none => throw "no focus"
  | some n =>
    let spec := (den g p fetch n).eraseDups
    let impl := (pathValues g p fetch n).eraseDups
    return Json.mkObj [
      ("values", jstrs (sortStrs (spec.map Item.asString).eraseDups)),
      ("count", Json.num spec.length),
      ("implValues", jstrs (sortStrs (impl.map Item.asString).eraseDups)),
      ("implCount", Json.num impl.length),
      -- the ARRAY of reached values (one entry per route), as `uniqueValues` sees it
      ("dup", Json.bool (hasDup (pathValues g p false n))),
      ("routes", Json.num (pathValues g p false n).length)]

/-- c01: which (validation, node) pairs are reported -/
def opC01 (j : Json) : R Json := do
  let g ← decGraph (← fld j "graph")
  let atoms ← (← fldArr j "atoms").mapM decAtom
  let paths ← (← fldArr j "paths").mapM decPath
  let env := graphEnv g atoms.toArray paths.toArray
  let vals ← fldArr j "validations"
  let mut spec : List String := []
  let mut impl : List String := []
  for v in vals do
    let name ← fldStr v "name"
    let cls ← fldStr v "class"
    let r ← decRule (← fld v "rule")
    let dnf := Dnf.dispatch r
    for n in g.targets cls do
      if !Dnf.holds env r n then spec := s!"{name}|{n.id}" :: spec
      if Dnf.dnfFires env (dnf.map Dnf.Gen.toBranch) n then impl := s!"{name}|{n.id}" :: impl
  return Json.mkObj [("reported", jstrs (sortStrs spec)), ("implReported", jstrs (sortStrs impl))]

def decOutcome (s : String) : R Pipe.Outcome :=
  match s with
  | "ok" => pure .ok | "err" => pure .err | "panic" => pure .panic
  | _ => throw s!"bad outcome {s}"

def outcomeStr : Pipe.Outcome → String
  | .ok => "ok" | .err => "err" | .panic => "panic"

/-- pipe: run the regenerated pipeline skeleton under a given outcome of each external step -/
def opPipe (j : Json) : R Json := do
  let entry ← fldNat j "entry"
  let oracle ← (← fldArr j "oracle").mapM (fun x => do decOutcome (← str x))
  let (tr, out) := Pipe.run Gen.pipeline (Pipe.asOracle oracle) entry
  let evs := Pipe.events tr
  let ms := Pipe.milestones Gen.milestoneStarts Gen.milestoneDones evs
  let names := ms.map (fun m => ((Gen.eventNames.getD (evs.getD m.1 0) "").dropEnd 5).toString)
  return Json.mkObj [
    ("outcome", Json.str (outcomeStr out)),
    ("events", Json.arr (evs.map (fun (e : Nat) => Json.num (Lean.JsonNumber.fromNat e))).toArray),
    ("closes", Json.num (Pipe.closeCount tr)),
    ("milestones", jstrs names)]

/-- c03: header of the report for a profile with validations spread over the three levels -/
def opC03 (j : Json) : R Json := do
  let g ← decGraph (← fld j "graph")
  let atoms ← (← fldArr j "atoms").mapM decAtom
  let paths ← (← fldArr j "paths").mapM decPath
  let env := graphEnv g atoms.toArray paths.toArray
  let vals ← (← fldArr j "validations").mapM fun v => do
    return (← fldStr v "name", ← fldStr v "class", ← decRule (← fld v "rule"))
  let lv ← fld j "levels"
  let names (k : String) : R (List String) := do (← fldArr lv k).mapM str
  let prof : Rep.Profile := {
    name := ← fldStr j "profileName", violation := ← names "violation", warning := ← names "warning",
    info := ← names "info", defined := vals.map (·.1) }
  let fires (v : String) : List String :=
    match vals.find? (fun x => x.1 == v) with
    | some (_, cls, r) => ((g.targets cls).filter (fun n => !Dnf.holds env r n)).map (·.id)
    | none => []
  let cj ← fld j "config"
  let cfg : Rep.Config := {
    includeDate := ← fldBool cj "includeDate", time := ← fldStr cj "time",
    reportSchema := ← fldStr cj "reportSchema", lexicalSchema := ← fldStr cj "lexicalSchema" }
  let rep := Rep.buildReport prof fires cfg
  return Json.mkObj [
    ("conforms", Json.bool rep.conforms),
    ("profileName", Json.str rep.profileName),
    ("hasResult", Json.bool rep.result.isSome),
    ("dateCreated", match rep.dateCreated with | some d => Json.str d | none => Json.null),
    ("results", jstrs (sortStrs (rep.results.map (fun r => s!"{r.severity}|{r.shape}|{r.focus}")))),
    ("ctxReportSchema", Json.str rep.ctxReportSchema),
    ("ctxLexicalSchema", match rep.ctxLexicalSchema with | some d => Json.str d | none => Json.null)]

/-- cli: what the command line must leave on stdout / in the output file, given the library's output -/
def opCli (j : Json) : R Json := do
  let sub ← fldStr j "sub"
  let toFile := fldBoolD j "toFile" false
  let trunc := Gen.openFlags.contains "O_TRUNC"
  let lib : Except String (List Char) :=
    if has j "lib" then match fldStr j "lib" with | .ok s => .ok s.toList | .error e => .error e else .error "failed"
  let prior : Cli.FileState := if has j "prior" then
      match fldStr j "prior" with | .ok s => .content s.toList | .error _ => .absent
    else .absent
  let run : Cli.Run :=
    if sub == "validate" then Cli.validateCmd trunc lib (if toFile then some prior else none)
    else match lib with
      | .ok text => ⟨0, Cli.printed text, .absent⟩
      | .error _ => ⟨2, [], .absent⟩
  return Json.mkObj [
    ("exitZero", Json.bool (run.exit == 0)),
    ("stdout", Json.str (String.ofList run.stdout)),
    ("file", match run.file with | .absent => Json.null | .content bs => Json.str (String.ofList bs))]

/-- c16: the path parser model (generic PEG interpreter over the regenerated table) on one string -/
def opC16 (j : Json) : R Json := do
  let text ← fldStr j "text"
  let result :=
    if text.isEmpty then "null"        -- ParsePath: the empty string is the null path
    else match parsePath Gen.pathGrammarGo text.toList with
      | some p => String.ofList (dumpPath p)
      | none => "REJECT"
  return Json.mkObj [("result", Json.str result)]

/-- c13: what the report must show for hostile profile text -/
def opC13 (j : Json) : R Json := do
  let name ← fldStr j "name"
  let vname ← fldStr j "vname"
  let message ← fldStr j "message"
  let values ← (← fldArr j "values").mapM fun p => do
    let a ← arr p
    return ((← str a[0]!).toList, (← str a[1]!).toList)
  let lookup (v : List Char) : List Char :=
    match values.find? (fun p => p.1 == v) with
    | some p => p.2
    | none => "null".toList
  let listvals ← (← fldArr j "listvals").mapM str
  let quoteOf (s : String) : Json := Json.str (quote s)
  let (segs, vars) := Msg.parseMessage message.toList
  -- the format string ParseMessageExpression produces: raw text when there are no placeholders
  let fmt := if vars.isEmpty then message else String.ofList (fmtString segs)
  let rendered := Msg.specRender message.toList lookup
  let viaPolicy := match Msg.evalMessage message.toList lookup with
    | some r => Json.str (String.ofList r)
    | none => Json.null
  return Json.mkObj [
    ("profileName", Json.str name),
    ("shape", Json.str vname),
    ("message", Json.str (String.ofList rendered)),
    ("messageViaPolicy", viaPolicy),
    ("msgFormat", Json.str fmt),
    ("msgVars", jstrs (vars.map String.ofList)),
    ("quoted", Json.mkObj (([name, vname, message] ++ listvals).map (fun s => (s, quoteOf s))))]

instance : Inhabited J := ⟨J.leaf⟩

/-- a report subtree as `defineIdRecursively` sees it: typed = has an `@type` key -/
partial def toJ (j : Json) : J :=
  match j with
  | .obj kvs =>
    let fields := kvs.toList
    let typed := fields.any (fun (p : String × Json) => p.1 == "@type")
    .obj typed ((fields.filter (fun (p : String × Json) => p.1 != "@type" && p.1 != "@id")).map (fun (p : String × Json) => (p.1, toJ p.2)))
  | .arr xs => .arr (xs.toList.map toJ)
  | _ => .leaf

/-- c12: the ids `defineIdRecursively` must assign to the results of a report, and whether the result
trees have the shape for which uniqueness is proved -/
def opC12 (j : Json) : R Json := do
  let lv ← fld j "levels"
  let get (k : String) : R (List J) := do return (← fldArr lv k).map toJ
  let vs ← get "violation"
  let ws ← get "warning"
  let is ← get "info"
  let ids := (topIds vs ws is).map joinId
  let wf := (vs ++ ws ++ is).all (fun t => WF t)
  return Json.mkObj [("wf", Json.bool wf), ("ids", jstrs (sortStrs ids)), ("count", Json.num ids.length)]

/-- c14: the location every reported target node must carry -/
def opC14 (j : Json) : R Json := do
  let nodeIds ← (← fldArr j "nodeIds").mapM str
  let targets ← (← fldArr j "targets").mapM str
  let root : Option String := match fldStr j "root" with | .ok s => some s | .error _ => none
  let additional ← (← fldArr j "additional").mapM fun a => do
    let xs ← arr a
    return (← str xs[0]!, ← (← arr xs[1]!).toList.mapM str)
  let entries ← (← fldArr j "entries").mapM fun e => do return (← fldStr e "element", ← fldStr e "value")
  let d : Lex.Doc := { nodeIds, root, additional, entries }
  let locs := targets.map fun t =>
    (t, match d.location t with
      | some l => Json.mkObj [("uri", Json.str l.uri),
          ("nums", jstrs [toString l.startLine, toString l.startColumn, toString l.endLine, toString l.endColumn])]
      | none => Json.null)
  return Json.mkObj [("byFocus", Json.mkObj locs)]

/-- c08: must a profile calling this built-in be rejected by the deny-list? -/
def opC08 (j : Json) : R Json := do
  let b ← fldStr j "builtin"
  return Json.mkObj [("denied", Json.bool (Gen.denyList.contains b)),
    ("forbidden", Json.bool (["http.send", "net.lookup_ip_addr", "opa.runtime", "rego.parse_module", "walk"].contains b)),
    ("known", Json.bool (Gen.engineBuiltins.contains b))]

/-- JSON text of a data document as the normalisation model reads it (integers only) -/
partial def toJs (j : Json) : Ld.Js :=
  match j with
  | .null => .null
  | .bool b => .bool b
  | .num n => .num n.mantissa        -- generated documents contain integers only (exponent 0)
  | .str s => .str s
  | .arr xs => .arr (xs.toList.map toJs)
  | .obj kvs => .obj (kvs.toList.map (fun (p : String × Json) => (p.1, toJs p.2)))

def canonVal : Val → String
  | .str s => "s:" ++ s
  | .num i => "n:" ++ toString i
  | .bool b => "b:" ++ (if b then "true" else "false")
  | .ref id => "r:" ++ id

/-- canonical rendering of an index: nodes by id, types sorted, values sorted -/
def canonIndexJson (ix : Ld.Index) : Json :=
  let nodes := (ix.nodes.toArray.qsort (fun a b => a.id < b.id)).toList
  Json.arr (nodes.map (fun n => Json.mkObj [
    ("id", Json.str n.id),
    ("types", jstrs (sortStrs n.types)),
    ("props", Json.mkObj (n.props.map (fun p => (p.1, jstrs (sortStrs (p.2.map canonVal))))))])).toArray

/-- c05: normalisation model (with `@context` support) on every serialisation + the index the abstract graph denotes -/
def opC05 (j : Json) : R Json := do
  let g ← decGraph (← fld j "graph")
  let docs ← fldArr j "docs"
  let outs ← docs.mapM fun d => do
    let text ← fldStr d "text"
    match Json.parse text with
    | .error e => return Json.mkObj [("outcome", Json.str s!"parse: {e}")]
    | .ok dj =>
      -- `normC` = `norm` on documents without a top-level `@context`
      match Ld.normC (toJs dj) with
      | none => return Json.mkObj [("outcome", Json.str "outside-fragment")]
      | some ix => return Json.mkObj [("outcome", Json.str "ok"), ("index", canonIndexJson ix),
          ("equivCanon", Json.bool (ix.equiv (Ld.canonIndex g)))]
  return Json.mkObj [("canon", canonIndexJson (Ld.canonIndex g)), ("docs", Json.arr outs.toArray)]

/-- order-preserving encoding of a document: `{"o": [[k, v], …]}` for objects, `{"a": […]}` for arrays -/
partial def decJs (j : Json) : R Ld.Js := do
  match j with
  | .null => return .null
  | .bool b => return .bool b
  | .num n => return .num n.mantissa
  | .str s => return .str s
  | .arr _ => throw "decJs: bare array"
  | .obj _ =>
    if has j "a" then return .arr (← (← fldArr j "a").mapM decJs)
    let kvs ← (← fldArr j "o").mapM fun e => do
      let a ← arr e
      return (← str a[0]!, ← decJs a[1]!)
    return .obj kvs

def optStr (j : Json) (k : String) : Option String :=
  match fldStr j k with | .ok s => some s | .error _ => none

def indexOrNull : Option Ld.Index → Json
  | some ix => canonIndexJson ix
  | none => Json.null

/-- c05s: the hypotheses and the conclusion of `norm_ser_ctx` / `expand_spelling` on concrete data: a graph, a
context, a context-free document `d` and a candidate spelling `dp` -/
def opC05s (j : Json) : R Json := do
  let g ← decGraph (← fld j "graph")
  let cj ← fld j "ctx"
  let prefixes ← (← fldArr cj "prefixes").mapM fun e => do
    let a ← arr e
    return (← str a[0]!, ← str a[1]!)
  let ctx : Ld.Ctx := ⟨prefixes, optStr cj "base", optStr cj "vocab"⟩
  let d ← decJs (← fld j "d")
  let dp ← decJs (← fld j "dp")
  let nd := Ld.norm d
  return Json.mkObj [
    ("spellOk", Json.bool ctx.spellOk),
    ("ctxOk", Json.bool ctx.ok),
    ("gOk", Json.bool (Ld.gOk g)),
    ("gIrisOk", Json.bool (Ld.gIrisOk ctx g)),
    ("docOk", Json.bool (Ld.docOk ctx d)),
    ("spDoc", Json.bool (Ld.spDoc ctx d dp)),
    ("dIsDocOfG", Json.bool (match nd with | some ix => ix.equiv (Ld.canonIndex g) | none => false)),
    ("expandsBack", Json.bool (match Ld.expandDoc (Ld.withContext ctx dp) with
      | some e => Ld.Js.beq e (Ld.asGraph d) | none => false)),
    ("canon", canonIndexJson (Ld.canonIndex g)),
    ("normD", indexOrNull nd),
    ("normDp", indexOrNull (Ld.normC (Ld.withContext ctx dp)))]

def runOp (j : Json) : R Json := do
  match ← fldStr j "op" with
  | "c01" => opC01 j
  | "c01y" => opC01y j
  | "c12t" => opC12t j
  | "c15" => opC01 j
  | "c02" => opC02 j
  | "pipe" => opPipe j
  | "c03" => opC03 j
  | "cli" => opCli j
  | "c16" => opC16 j
  | "c13" => opC13 j
  | "c12" => opC12 j
  | "c14" => opC14 j
  | "c08" => opC08 j
  | "c05" => opC05 j
  | "c05s" => opC05s j
  | "parse" => opParse j
  | "ms" => opMs j
  | op => throw s!"unknown op {op}"

def handleLine (line : String) : String :=
  match Json.parse line with
  | .error e => (Json.mkObj [("error", Json.str s!"parse: {e}")]).compress
  | .ok j =>
    match runOp j with
    | .ok r => r.compress
    | .error e => (Json.mkObj [("error", Json.str e)]).compress

end Acv.Driver
